/-
C20 helper lemmas, part 2: the placements read back by `populate` never use more of a
partition at a time `t` than what was registered in the capacity constraint of the slot
that holds `t`.
-/
import ErdosVerif.Lemmas.StrlSum
namespace ErdosVerif.Strl

/-- Contribution of one registration to the slot `(pid, k)`. -/
def regTerm (σ : Assign) (pid k : Nat) (r : Reg) : Int :=
  if r.pid = pid ∧ r.time = k then resolveTV σ r.usage else 0

def regSum (σ : Assign) (pid k : Nat) (regs : List Reg) : Int := sumBy (regTerm σ pid k) regs

theorem regSum_append (σ : Assign) (pid k : Nat) (a b : List Reg) :
    regSum σ pid k (a ++ b) = regSum σ pid k a + regSum σ pid k b := sumBy_append _ _ _

@[simp] theorem regSum_nil (σ : Assign) (pid k : Nat) : regSum σ pid k [] = 0 := rfl

def PlNonneg (pl : Placement) : Prop := ∀ a ∈ pl.allocs, 0 ≤ a.2.2

theorem usageAt_nonneg (pl : Placement) (h : PlNonneg pl) (pid : Nat) (t : Int) :
    0 ≤ pl.usageAt pid t := by
  unfold Placement.usageAt
  split
  · apply sumBy_nonneg
    intro a ha
    have := h a ha
    split <;> omega
  · omega

@[simp] theorem usageAt_nil (pid : Nat) (t : Int) : usageAt [] pid t = 0 := rfl

theorem usageAt_append (a b : List Placement) (pid : Nat) (t : Int) :
    usageAt (a ++ b) pid t = usageAt a pid t + usageAt b pid t := sumBy_append _ _ _

theorem mergeP_le (acc : List Placement) (p : Placement) (pid : Nat) (t : Int)
    (hacc : ∀ q ∈ acc, PlNonneg q) (hp : PlNonneg p) :
    (∀ q ∈ mergeP acc p, PlNonneg q) ∧
      usageAt (mergeP acc p) pid t ≤ usageAt acc pid t + p.usageAt pid t := by
  unfold mergeP
  constructor
  · intro q hq
    rcases List.mem_append.mp hq with h | h
    · exact hacc q (List.mem_filter.mp h).1
    · simp at h; subst h; exact hp
  · rw [usageAt_append]
    have h1 : usageAt (acc.filter fun q => q.name != p.name) pid t ≤ usageAt acc pid t :=
      sumBy_filter_le _ _ _ (fun q hq => usageAt_nonneg q (hacc q hq) pid t)
    have h2 : usageAt [p] pid t = p.usageAt pid t := by simp [usageAt]
    omega

theorem foldl_mergeP_le (pls : List Placement) (pid : Nat) (t : Int) :
    ∀ (acc : List Placement), (∀ q ∈ acc, PlNonneg q) → (∀ q ∈ pls, PlNonneg q) →
    (∀ q ∈ pls.foldl mergeP acc, PlNonneg q) ∧
      usageAt (pls.foldl mergeP acc) pid t ≤ usageAt acc pid t + usageAt pls pid t := by
  induction pls with
  | nil => intro acc hacc _; simp; exact hacc
  | cons p pls ih =>
    intro acc hacc hpls
    have hp := hpls p (by simp)
    have ⟨m1, m2⟩ := mergeP_le acc p pid t hacc hp
    have ⟨i1, i2⟩ := ih (mergeP acc p) m1 (fun q hq => hpls q (by simp [hq]))
    simp only [List.foldl_cons]
    refine ⟨i1, ?_⟩
    have : usageAt (p :: pls) pid t = p.usageAt pid t + usageAt pls pid t := by simp [usageAt]
    omega

theorem mergeChildren_aux (sols : List Sol) (pid : Nat) (t : Int) :
    ∀ (acc : List Placement), (∀ q ∈ acc, PlNonneg q) →
    (∀ s ∈ sols, ∀ q ∈ s.placements, PlNonneg q) →
    (∀ q ∈ sols.foldl (fun acc s => if s.utility == some 0 then acc else s.placements.foldl mergeP acc) acc, PlNonneg q) ∧
      usageAt (sols.foldl (fun acc s => if s.utility == some 0 then acc else s.placements.foldl mergeP acc) acc) pid t
        ≤ usageAt acc pid t + sumBy (fun s => usageAt s.placements pid t) sols := by
  induction sols with
  | nil => intro acc hacc _; simp; exact hacc
  | cons s sols ih =>
    intro acc hacc hs
    have hs0 := hs s (by simp)
    have hrest : ∀ s' ∈ sols, ∀ q ∈ s'.placements, PlNonneg q := fun s' h => hs s' (by simp [h])
    have hsn : 0 ≤ usageAt s.placements pid t :=
      sumBy_nonneg _ _ (fun q hq => usageAt_nonneg q (hs0 q hq) pid t)
    simp only [List.foldl_cons, sumBy_cons]
    by_cases hz : (s.utility == some 0) = true
    · simp only [hz, if_true]
      have ⟨i1, i2⟩ := ih acc hacc hrest
      exact ⟨i1, by omega⟩
    · simp only [hz]
      have ⟨f1, f2⟩ := foldl_mergeP_le s.placements pid t acc hacc hs0
      have ⟨i1, i2⟩ := ih _ f1 hrest
      refine ⟨i1, ?_⟩
      simp only [Bool.false_eq_true, if_false] at i2 ⊢
      omega

theorem mergeChildren_le (sols : List Sol) (pid : Nat) (t : Int)
    (hs : ∀ s ∈ sols, ∀ q ∈ s.placements, PlNonneg q) :
    (∀ q ∈ mergeChildren sols, PlNonneg q) ∧
      usageAt (mergeChildren sols) pid t ≤ sumBy (fun s => usageAt s.placements pid t) sols := by
  have := mergeChildren_aux sols pid t [] (by simp) hs
  simpa [mergeChildren] using this

theorem baseSol_le (σ : Assign) (pr : PR) (sols : List Sol) (pid : Nat) (t : Int)
    (hs : ∀ s ∈ sols, ∀ q ∈ s.placements, PlNonneg q) :
    (∀ q ∈ (baseSol σ pr sols).placements, PlNonneg q) ∧
      usageAt (baseSol σ pr sols).placements pid t ≤ sumBy (fun s => usageAt s.placements pid t) sols := by
  unfold baseSol
  have hn : 0 ≤ sumBy (fun s => usageAt s.placements pid t) sols :=
    sumBy_nonneg _ _ (fun s h => sumBy_nonneg _ _ (fun q hq => usageAt_nonneg q (hs s h q hq) pid t))
  split
  · simp [Sol.none]; exact hn
  · exact mergeChildren_le sols pid t hs

theorem regTerm_nonneg (σ : Assign) (pid k : Nat) (r : Reg) (h : 0 ≤ resolveTV σ r.usage) :
    0 ≤ regTerm σ pid k r := by
  unfold regTerm; split <;> omega

theorem regsFor_term (ctx : Ctx) (σ : Assign) (pid t r : Nat) (hg : 0 < ctx.gran)
    (q : Partition) (start dur : Nat) (usage : TV)
    (hs : start % ctx.gran = r) (hu : 0 ≤ resolveTV σ usage) :
    (if q.id = pid ∧ (start : Int) ≤ (t : Int) ∧ (t : Int) < (start : Int) + (dur : Int) then resolveTV σ usage else 0)
      ≤ regSum σ pid (slotKey ctx.gran r t) (regsFor ctx q start dur usage) := by
  unfold regsFor regSum
  rw [sumBy_map]
  have hnn : ∀ s ∈ slotTimes ctx.gran start dur,
      0 ≤ regTerm σ pid (slotKey ctx.gran r t) ⟨q.id, q.name, q.qty, s, usage⟩ :=
    fun s _ => regTerm_nonneg σ pid _ _ hu
  split
  · rename_i hc
    have hmem := slotKey_mem ctx.gran start dur t r hg hs (by omega) (by omega)
    have := sumBy_mem_le _ _ hnn _ hmem
    simp only [regTerm, hc.1, true_and, if_true] at this ⊢
    exact this
  · exact sumBy_nonneg _ _ hnn


theorem sumBy_filterMap_alloc (σ : Assign) (path : Path) (start : Nat) (pid : Nat) (sched : List Partition) :
    sumBy (fun a : Nat × Int × Int => if a.1 = pid then a.2.2 else 0)
      (sched.filterMap (fun q =>
        let x := σ ⟨path, .using q.id⟩
        if x == 0 then none else some (q.id, (start : Int), x)))
    = sumBy (fun q : Partition => if q.id = pid then σ ⟨path, .using q.id⟩ else 0) sched := by
  induction sched with
  | nil => simp
  | cons q l ih =>
    simp only [List.filterMap_cons, sumBy_cons]
    by_cases hx : σ ⟨path, .using q.id⟩ = 0
    · simp only [hx, beq_self_eq_true, if_true, ih]
      split <;> omega
    · have hb : (σ ⟨path, .using q.id⟩ == 0) = false := by simpa using hx
      simp only [hb, Bool.false_eq_true, if_false, sumBy_cons, ih]

theorem choose_inv (ctx : Ctx) (σ : Assign) (pid t r : Nat) (hg : 0 < ctx.gran)
    (path : Path) (name strategy : String) (parts : List Nat) (n start dur : Nat) (u : Int)
    (hs : start % ctx.gran = r)
    (hv : ∀ v ∈ (compileChoose ctx path name strategy parts n start dur u).vars, Var.holds σ v = true) :
    (∀ q ∈ (populateNode ctx σ path (.choose name strategy parts n start dur u)).placements, PlNonneg q) ∧
    usageAt (populateNode ctx σ path (.choose name strategy parts n start dur u)).placements pid t
      ≤ regSum σ pid (slotKey ctx.gran r t) (compileChoose ctx path name strategy parts n start dur u).regs := by
  simp only [populateNode]
  unfold compileChoose at hv ⊢
  by_cases h1 : ctx.now > start
  · simp [h1, baseSol, PR.none, Sol.none]
  · simp only [h1, if_false] at hv ⊢
    by_cases h2 : (schedulable ctx parts).isEmpty = true
    · simp [h2, baseSol, PR.none, Sol.none]
    · simp only [h2] at hv ⊢
      simp only [Bool.false_eq_true, if_false] at hv ⊢
      -- nonnegativity of the allocation variables
      have hnn : ∀ q ∈ schedulable ctx parts, 0 ≤ σ ⟨path, .using q.id⟩ := by
        intro q hq
        have := hv ⟨⟨path, .using q.id⟩, usingVarName name q.id start, .int, some 0,
          some (Int.ofNat (Nat.min q.qty n))⟩ (by
            apply List.mem_cons_of_mem
            exact List.mem_map.mpr ⟨q, hq, rfl⟩)
        simp [Var.holds] at this
        omega
      have hregs : 0 ≤ regSum σ pid (slotKey ctx.gran r t)
          ((schedulable ctx parts).flatMap fun p => regsFor ctx p start dur (.var ⟨path, .using p.id⟩)) := by
        unfold regSum
        apply sumBy_nonneg
        intro rg hrg
        obtain ⟨q, hq, hrq⟩ := List.mem_flatMap.mp hrg
        unfold regsFor at hrq
        obtain ⟨s, _, rfl⟩ := List.mem_map.mp hrq
        exact regTerm_nonneg σ pid _ _ (hnn q hq)
      simp only [baseSol, Bool.not_true, Bool.false_eq_true, if_false, mergeChildren, List.foldl_nil]
      split
      · simp; exact hregs
      · constructor
        · intro q hq
          have hq := List.mem_singleton.mp hq
          subst hq
          intro a ha
          simp only at ha
          obtain ⟨q, hq, hqa⟩ := List.mem_filterMap.mp ha
          have := hnn q hq
          split at hqa
          · simp at hqa
          · simp at hqa; subst hqa; simpa using this
        · simp only [usageAt, sumBy_cons, sumBy_nil, Placement.usageAt, Int.add_zero]
          rw [sumBy_filterMap_alloc]
          unfold regSum
          rw [sumBy_flatMap]
          have key : ∀ q ∈ schedulable ctx parts,
              (if q.id = pid ∧ (start : Int) ≤ (t : Int) ∧ (t : Int) < (start : Int) + (dur : Int)
                then σ ⟨path, .using q.id⟩ else 0)
              ≤ sumBy (regTerm σ pid (slotKey ctx.gran r t)) (regsFor ctx q start dur (.var ⟨path, .using q.id⟩)) :=
            fun q hq => regsFor_term ctx σ pid t r hg q start dur (.var ⟨path, .using q.id⟩) hs (hnn q hq)
          split
          · rename_i hc
            apply sumBy_le_sumBy
            intro q hq
            have := key q hq
            split
            · rename_i hid
              rw [if_pos ⟨hid, hc⟩] at this
              exact this
            · rename_i hid
              rw [if_neg (fun h => hid h.1)] at this
              exact this
          · exact sumBy_nonneg _ _ (fun q hq => by
              have := key q hq
              split at this
              · have := hnn q hq; omega
              · exact this)

theorem find_id (ctx : Ctx) (pid : Nat) (p : Partition) (h : ctx.find pid = some p) : p.id = pid := by
  unfold Ctx.find at h
  have := List.find?_some h
  simpa using this

theorem alloc_inv (ctx : Ctx) (σ : Assign) (pid t r : Nat) (hg : 0 < ctx.gran)
    (path : Path) (name : String) (allocs : List (Nat × Nat)) (start dur : Nat)
    (hs : start % ctx.gran = r) (p : Partition) (hp : ctx.find pid = some p) :
    (∀ q ∈ (populateNode ctx σ path (.alloc name allocs start dur)).placements, PlNonneg q) ∧
    usageAt (populateNode ctx σ path (.alloc name allocs start dur)).placements pid t
      + allocUsageAt pid t (.alloc name allocs start dur)
      ≤ regSum σ pid (slotKey ctx.gran r t) (compileAlloc ctx allocs start dur).regs := by
  simp only [populateNode, compileAlloc, baseSol, Bool.not_true, Bool.false_eq_true, if_false,
    mergeChildren, List.foldl_nil, allocUsageAt]
  constructor
  · simp
  · simp only [usageAt_nil, Int.zero_add]
    unfold regSum
    rw [sumBy_flatMap]
    have key : ∀ a ∈ allocs,
        (if a.1 = pid ∧ (start : Int) ≤ (t : Int) ∧ (t : Int) < (start : Int) + (dur : Int) then (a.2 : Int) else 0)
        ≤ sumBy (regTerm σ pid (slotKey ctx.gran r t))
            (match ctx.find a.1 with
              | some p => regsFor ctx p start dur (.const a.2)
              | .none => []) := by
      intro a _
      by_cases hid : a.1 = pid
      · rw [hid, hp]
        have := regsFor_term ctx σ pid t r hg p start dur (.const a.2) hs (by simp [resolveTV])
        simp only [find_id ctx pid p hp, true_and, resolveTV] at this
        simpa [hid, regSum] using this
      · rw [if_neg (fun h => hid h.1)]
        apply sumBy_nonneg
        intro rg hrg
        split at hrg
        · unfold regsFor at hrg
          obtain ⟨s, _, rfl⟩ := List.mem_map.mp hrg
          exact regTerm_nonneg σ pid _ _ (by simp [resolveTV])
        · simp at hrg
    split
    · rename_i hc
      apply sumBy_le_sumBy
      intro a ha
      have := key a ha
      split
      · rename_i hid
        rw [if_pos ⟨hid, hc⟩] at this
        exact this
      · rename_i hid
        rw [if_neg (fun h => hid h.1)] at this
        exact this
    · exact sumBy_nonneg _ _ (fun a ha => by
        have := key a ha
        split at this
        · have : (0 : Int) ≤ (a.2 : Int) := by omega
          omega
        · exact this)

theorem min_regs (ctx : Ctx) (path : Path) (name : String) (cs : List Expr) :
    (compileNode ctx path (.min name cs)).regs = (compileList ctx path 0 cs).flatMap (·.2.regs) := by
  simp only [compileNode]

theorem min_vars (ctx : Ctx) (path : Path) (name : String) (cs : List Expr) :
    ∀ v ∈ (compileList ctx path 0 cs).flatMap (·.2.vars), v ∈ (compileNode ctx path (.min name cs)).vars := by
  intro v hv
  simp only [compileNode]
  exact List.mem_append_right _ hv

theorem max_regs (ctx : Ctx) (path : Path) (name : String) (cs : List Expr) :
    (compileNode ctx path (.max name cs)).regs = (compileList ctx path 0 cs).flatMap (·.2.regs) := by
  simp only [compileNode]

theorem max_vars (ctx : Ctx) (path : Path) (name : String) (cs : List Expr) :
    ∀ v ∈ (compileList ctx path 0 cs).flatMap (·.2.vars), v ∈ (compileNode ctx path (.max name cs)).vars := by
  intro v hv
  simp only [compileNode]
  exact List.mem_append_right _ hv

theorem lt_regs (ctx : Ctx) (path : Path) (name : String) (a b : Expr) :
    (compileNode ctx path (.lt name a b)).regs =
      (compileNode ctx (0 :: path) a).regs ++ (compileNode ctx (1 :: path) b).regs := by
  simp only [compileNode]

theorem lt_vars (ctx : Ctx) (path : Path) (name : String) (a b : Expr) :
    ∀ v, (v ∈ (compileNode ctx (0 :: path) a).vars ∨ v ∈ (compileNode ctx (1 :: path) b).vars) →
      v ∈ (compileNode ctx path (.lt name a b)).vars := by
  intro v hv
  simp only [compileNode]
  rcases hv with h | h
  · exact List.mem_append_left _ (List.mem_append_left _ h)
  · exact List.mem_append_left _ (List.mem_append_right _ h)


theorem sumU_nonneg (sols : List Sol) (pid : Nat) (t : Int)
    (h : ∀ s ∈ sols, ∀ q ∈ s.placements, PlNonneg q) :
    0 ≤ sumBy (fun s => usageAt s.placements pid t) sols :=
  sumBy_nonneg _ _ (fun s hs => sumBy_nonneg _ _ (fun q hq => usageAt_nonneg q (h s hs q hq) pid t))

mutual
theorem node_inv (ctx : Ctx) (σ : Assign) (pid t r : Nat) (p : Partition) (hg : 0 < ctx.gran)
    (hp : ctx.find pid = some p) :
    ∀ (e : Expr) (path : Path), alignedTo ctx.gran r e = true →
      (∀ v ∈ (compileNode ctx path e).vars, Var.holds σ v = true) →
      (∀ q ∈ (populateNode ctx σ path e).placements, PlNonneg q) ∧
      usageAt (populateNode ctx σ path e).placements pid t + allocUsageAt pid t e
        ≤ regSum σ pid (slotKey ctx.gran r t) (compileNode ctx path e).regs
  | .choose name strategy parts n start dur u, path, ha, hv => by
    simp only [alignedTo, beq_iff_eq] at ha
    simp only [compileNode] at hv ⊢
    have := choose_inv ctx σ pid t r hg path name strategy parts n start dur u ha hv
    simp only [allocUsageAt, Int.add_zero]
    exact this
  | .alloc name allocs start dur, path, ha, _ => by
    simp only [alignedTo, beq_iff_eq] at ha
    simp only [compileNode]
    exact alloc_inv ctx σ pid t r hg path name allocs start dur ha p hp
  | .obj name cs, path, ha, hv => by
    simp only [alignedTo] at ha
    have hl := list_inv ctx σ pid t r p hg hp cs path 0 ha (by
      intro v hvm; apply hv; simp only [compileNode]; exact hvm)
    have hn := sumU_nonneg _ pid t hl.1
    simp only [populateNode, Sol.none, compileNode, allocUsageAt]
    refine ⟨by simp, ?_⟩
    have := hl.2
    simp only [usageAt_nil]
    omega
  | .min name cs, path, ha, hv => by
    simp only [alignedTo] at ha
    have hl := list_inv ctx σ pid t r p hg hp cs path 0 ha (fun v hvm => hv v (min_vars ctx path name cs v hvm))
    have hb := baseSol_le σ (compileNode ctx path (.min name cs)).pr (populateList ctx σ path 0 cs) pid t hl.1
    rw [min_regs]
    simp only [populateNode, allocUsageAt]
    refine ⟨hb.1, ?_⟩
    have := hl.2
    have := hb.2
    omega
  | .max name cs, path, ha, hv => by
    simp only [alignedTo] at ha
    have hl := list_inv ctx σ pid t r p hg hp cs path 0 ha (fun v hvm => hv v (max_vars ctx path name cs v hvm))
    have hb := baseSol_le σ (compileNode ctx path (.max name cs)).pr (populateList ctx σ path 0 cs) pid t hl.1
    rw [max_regs]
    simp only [populateNode, allocUsageAt]
    refine ⟨hb.1, ?_⟩
    have := hl.2
    have := hb.2
    omega
  | .lt name a b, path, ha, hv => by
    simp only [alignedTo, Bool.and_eq_true] at ha
    have h1 := node_inv ctx σ pid t r p hg hp a (0 :: path) ha.1 (fun v hvm => hv v (lt_vars ctx path name a b v (Or.inl hvm)))
    have h2 := node_inv ctx σ pid t r p hg hp b (1 :: path) ha.2 (fun v hvm => hv v (lt_vars ctx path name a b v (Or.inr hvm)))
    have hb := baseSol_le σ (compileNode ctx path (.lt name a b)).pr
      [populateNode ctx σ (0 :: path) a, populateNode ctx σ (1 :: path) b] pid t (by
        intro s hs
        simp only [List.mem_cons, List.not_mem_nil, or_false] at hs
        rcases hs with rfl | rfl
        · exact h1.1
        · exact h2.1)
    rw [lt_regs, regSum_append]
    simp only [populateNode, allocUsageAt]
    refine ⟨hb.1, ?_⟩
    have := hb.2
    simp only [sumBy_cons, sumBy_nil] at this
    have := h1.2
    have := h2.2
    omega
  | .scale name f d c, path, ha, hv => by
    simp only [alignedTo] at ha
    have h1 := node_inv ctx σ pid t r p hg hp c (0 :: path) ha (fun v hvm => hv v (by
      simp only [compileNode]; exact hvm))
    have hb := baseSol_le σ (compileNode ctx path (.scale name f d c)).pr
      [populateNode ctx σ (0 :: path) c] pid t (by
        intro s hs
        simp only [List.mem_cons, List.not_mem_nil, or_false] at hs
        subst hs
        exact h1.1)
    simp only [populateNode, allocUsageAt]
    refine ⟨hb.1, ?_⟩
    have := hb.2
    simp only [sumBy_cons, sumBy_nil] at this
    have h3 := h1.2
    have : (compileNode ctx path (.scale name f d c)).regs = (compileNode ctx (0 :: path) c).regs := by
      simp only [compileNode]
    rw [this]
    omega
theorem list_inv (ctx : Ctx) (σ : Assign) (pid t r : Nat) (p : Partition) (hg : 0 < ctx.gran)
    (hp : ctx.find pid = some p) :
    ∀ (cs : List Expr) (path : Path) (i : Nat), alignedToL ctx.gran r cs = true →
      (∀ v ∈ (compileList ctx path i cs).flatMap (·.2.vars), Var.holds σ v = true) →
      (∀ s ∈ populateList ctx σ path i cs, ∀ q ∈ s.placements, PlNonneg q) ∧
      sumBy (fun s => usageAt s.placements pid t) (populateList ctx σ path i cs) + allocUsageAtL pid t cs
        ≤ regSum σ pid (slotKey ctx.gran r t) ((compileList ctx path i cs).flatMap (·.2.regs))
  | [], path, i, _, _ => by
    simp [populateList, compileList, allocUsageAtL]
  | e :: es, path, i, ha, hv => by
    simp only [alignedToL, Bool.and_eq_true] at ha
    simp only [compileList, List.flatMap_cons] at hv
    have h1 := node_inv ctx σ pid t r p hg hp e (i :: path) ha.1 (fun v hvm => hv v (List.mem_append_left _ hvm))
    have h2 := list_inv ctx σ pid t r p hg hp es path (i + 1) ha.2 (fun v hvm => hv v (List.mem_append_right _ hvm))
    simp only [populateList, compileList, List.flatMap_cons, allocUsageAtL, sumBy_cons, regSum_append]
    constructor
    · intro s hs
      rcases List.mem_cons.mp hs with rfl | hs
      · exact h1.1
      · exact h2.1 s hs
    · have := h1.2
      have := h2.2
      omega
end

/-- Every registration carries the quantity of the partition the context knows under its id. -/
def RegOK (ctx : Ctx) (r : Reg) : Prop := ∃ p, ctx.find r.pid = some p ∧ r.qty = p.qty

theorem regsFor_ok (ctx : Ctx) (q : Partition) (hq : ctx.find q.id = some q) (start dur : Nat) (u : TV) :
    ∀ r ∈ regsFor ctx q start dur u, RegOK ctx r := by
  intro r hr
  unfold regsFor at hr
  obtain ⟨s, _, rfl⟩ := List.mem_map.mp hr
  exact ⟨q, hq, rfl⟩

theorem schedulable_find (ctx : Ctx) (parts : List Nat) (q : Partition) (hq : q ∈ schedulable ctx parts) :
    ctx.find q.id = some q := by
  unfold schedulable at hq
  obtain ⟨pid, _, h⟩ := List.mem_filterMap.mp hq
  split at h
  · have := find_id ctx pid q h
    rw [this]; exact h
  · simp at h

mutual
theorem node_regs_ok (ctx : Ctx) : ∀ (e : Expr) (path : Path), ∀ r ∈ (compileNode ctx path e).regs, RegOK ctx r
  | .choose name strategy parts n start dur u, path => by
    intro r hr
    simp only [compileNode] at hr
    unfold compileChoose at hr
    by_cases h1 : ctx.now > start
    · simp [h1] at hr
    · simp only [h1, if_false] at hr
      by_cases h2 : (schedulable ctx parts).isEmpty = true
      · simp [h2] at hr
      · simp only [h2] at hr
        simp only [Bool.false_eq_true, if_false] at hr
        obtain ⟨q, hq, hrq⟩ := List.mem_flatMap.mp hr
        exact regsFor_ok ctx q (schedulable_find ctx parts q hq) start dur _ r hrq
  | .alloc name allocs start dur, path => by
    intro r hr
    simp only [compileNode, compileAlloc] at hr
    obtain ⟨a, _, hra⟩ := List.mem_flatMap.mp hr
    split at hra
    · rename_i p' hf
      have := find_id ctx a.1 p' hf
      exact regsFor_ok ctx p' (by rw [this]; exact hf) start dur _ r hra
    · simp at hra
  | .obj name cs, path => by
    intro r hr
    simp only [compileNode] at hr
    exact list_regs_ok ctx cs path 0 r hr
  | .min name cs, path => by
    intro r hr
    rw [min_regs] at hr
    exact list_regs_ok ctx cs path 0 r hr
  | .max name cs, path => by
    intro r hr
    rw [max_regs] at hr
    exact list_regs_ok ctx cs path 0 r hr
  | .lt name a b, path => by
    intro r hr
    rw [lt_regs] at hr
    rcases List.mem_append.mp hr with h | h
    · exact node_regs_ok ctx a _ r h
    · exact node_regs_ok ctx b _ r h
  | .scale name f d c, path => by
    intro r hr
    simp only [compileNode] at hr
    exact node_regs_ok ctx c _ r hr
theorem list_regs_ok (ctx : Ctx) : ∀ (cs : List Expr) (path : Path) (i : Nat),
    ∀ r ∈ (compileList ctx path i cs).flatMap (·.2.regs), RegOK ctx r
  | [], _, _ => by simp [compileList]
  | e :: es, path, i => by
    intro r hr
    simp only [compileList, List.flatMap_cons] at hr
    rcases List.mem_append.mp hr with h | h
    · exact node_regs_ok ctx e _ r h
    · exact list_regs_ok ctx es path (i + 1) r h
end

theorem regSum_filter (σ : Assign) (pid k : Nat) (regs : List Reg) :
    regSum σ pid k regs =
      sumBy (fun r => resolveTV σ r.usage) (regs.filter (fun r => r.key == (pid, k))) := by
  unfold regSum
  induction regs with
  | nil => simp
  | cons r l ih =>
    simp only [sumBy_cons, List.filter_cons, ih]
    by_cases h : r.pid = pid ∧ r.time = k
    · have : (r.key == (pid, k)) = true := by simp [Reg.key, h.1, h.2]
      simp [regTerm, h, this]
    · have : (r.key == (pid, k)) = false := by
        simp only [Reg.key, beq_eq_false_iff_ne, ne_eq, Prod.mk.injEq]; exact h
      simp [regTerm, h, this]

theorem capTerms_eval (σ : Assign) (rs : List Reg) :
    sumBy (fun r => resolveTV σ r.usage) rs =
      evalTerms σ (rs.filterMap Reg.varTerm) + (rs.map Reg.constUse).sum := by
  induction rs with
  | nil => simp [evalTerms]
  | cons r l ih =>
    rw [sumBy_cons, ih]
    cases hu : r.usage with
    | const c =>
      simp only [resolveTV, List.filterMap_cons, Reg.varTerm, Reg.constUse, hu, List.map_cons, List.sum_cons]
      omega
    | var v =>
      simp only [resolveTV, List.filterMap_cons, Reg.varTerm, Reg.constUse, hu, List.map_cons, List.sum_cons, evalTerms]
      omega

theorem cap_bound (ctx : Ctx) (σ : Assign) (regs : List Reg) (pid k : Nat) (p : Partition)
    (hp : ctx.find pid = some p) (hok : ∀ r ∈ regs, RegOK ctx r)
    (hc : ∀ c ∈ capConstrs regs, Constr.holds σ c = true) :
    regSum σ pid k regs ≤ p.qty := by
  rw [regSum_filter]
  cases hrs : regs.filter (fun r => r.key == (pid, k)) with
  | nil => simp
  | cons r0 rest =>
    have hmem : r0 ∈ regs.filter (fun r => r.key == (pid, k)) := by rw [hrs]; simp
    have ⟨hr0, hk0⟩ := List.mem_filter.mp hmem
    have hkey : r0.key = (pid, k) := by simpa using hk0
    have hin : (pid, k) ∈ capKeys regs := by
      unfold capKeys
      apply List.mem_eraseDups.mpr
      exact List.mem_map.mpr ⟨r0, hr0, hkey⟩
    have hh := hc (capConstr regs (pid, k)) (List.mem_map.mpr ⟨(pid, k), hin, rfl⟩)
    unfold capConstr Constr.holds at hh
    simp only [hrs, List.head?_cons, decide_eq_true_eq] at hh
    obtain ⟨p', hf, hq⟩ := hok r0 hr0
    have hpid : r0.pid = pid := by
      have := congrArg Prod.fst hkey
      simpa [Reg.key] using this
    rw [hpid, hp] at hf
    cases hf
    rw [← hrs] at hh ⊢
    rw [capTerms_eval]
    rw [hq] at hh
    omega

theorem compile_obj (ctx : Ctx) (name : String) (cs : List Expr) :
    compile ctx (.obj name cs) =
      { vars := (compileList ctx [] 0 cs).flatMap (·.2.vars),
        cons := (compileList ctx [] 0 cs).flatMap (·.2.cons) ++ capConstrs ((compileList ctx [] 0 cs).flatMap (·.2.regs)),
        obj := ((compileList ctx [] 0 cs).filter (fun x => x.2.pr.util)).flatMap (·.2.pr.utility),
        objUb := ((compileList ctx [] 0 cs).filter (fun x => x.2.pr.util)).foldl (fun b x => addUb b x.2.pr.ub) (some 0) } := rfl

theorem populate_obj_placements (ctx : Ctx) (σ : Assign) (name : String) (cs : List Expr) :
    (populate ctx σ (.obj name cs)).placements = mergeChildren (populateList ctx σ [] 0 cs) := by
  unfold populate
  simp only []
  split
  · simp only
  · simp only

end ErdosVerif.Strl
