/-
Reading a satisfying assignment back: a placed task has exactly the bit of one existing
worker set (`workers[model[placed_on_worker].as_long()]` cannot raise `KeyError`), its start
respects `now` and the release time, the worker can accommodate it, and its resource
bit-vectors have one of the allowed patterns of that worker.
-/
import ErdosVerif.Lemmas.Z3Sat
namespace ErdosVerif.Z3m

theorem toBits_zero (w : Nat) : toBits w 0 = zeros w := by
  induction w with
  | zero => rfl
  | succ w ih => simp [toBits, ih, zeros, List.replicate_succ]

/-- The values `(2 ** (n - 1)) >> i`, `i ≤ n`, are the worker keys and 0. -/
theorem pwVals_cases {I : Inst} {v : Bits} (hv : v ∈ I.pwVals) :
    v = zeros I.nW ∨ ∃ k, k < I.nW ∧ v = toBits I.nW (2 ^ k) := by
  simp only [Inst.pwVals, List.mem_map, List.mem_range] at hv
  obtain ⟨i, hi, rfl⟩ := hv
  by_cases h0 : I.nW = 0
  · left
    simp [h0, toBits, zeros]
  · by_cases hin : i = I.nW
    · left
      have : 2 ^ (I.nW - 1) >>> i = 0 := by
        rw [Nat.shiftRight_eq_div_pow, hin]
        apply Nat.div_eq_of_lt
        exact Nat.pow_lt_pow_right (by omega) (by omega)
      rw [this, toBits_zero]
    · right
      refine ⟨I.nW - 1 - i, by omega, ?_⟩
      rw [Nat.shiftRight_eq_div_pow, Nat.pow_div (by omega) (by omega)]

theorem workerOf_spec {I : Inst} {σ : Assign Var} {t k : Nat} (h : I.workerOf σ t = some k) :
    k < I.nW ∧ fit I.nW (σ.v (.worker t)) = toBits I.nW (2 ^ k) := by
  unfold Inst.workerOf at h
  have h1 := List.find?_some h
  have h2 := List.mem_of_find?_eq_some h
  exact ⟨List.mem_range.mp h2, by simpa using h1⟩

/-- A task without resource variables is never placed. -/
theorem placed_hasRes {I : Inst} {σ : Assign Var} (h : sat σ (gen I)) {t : Nat} (ht : t < I.nT)
    (hpl : σ.b (.placed t) = true) : I.hasRes t = true := by
  by_cases hr : I.hasRes t = true
  · exact hr
  · exfalso
    have hm : BoolT.iff (I.placedT t) .ff ∈ I.cTask t := by simp [Inst.cTask, hr]
    have := sat_hard h (cTask_sub ht hm)
    simp [Inst.placedT, hpl] at this

theorem cTiming_mem {I : Inst} {t : Nat} (hr : I.hasRes t = true) {a : B} (ha : a ∈ I.cTiming t) :
    a ∈ I.cTask t := by simp [Inst.cTask, hr, ha]
theorem cPlacement_mem {I : Inst} {t : Nat} (hr : I.hasRes t = true) {a : B} (ha : a ∈ I.cPlacement t) :
    a ∈ I.cTask t := by simp [Inst.cTask, hr, ha]
theorem cResW_mem {I : Inst} {t w : Nat} (hr : I.hasRes t = true) (hw : w < I.nW) {a : B}
    (ha : a ∈ I.cResW t w) : a ∈ I.cTask t := by
  simp only [Inst.cTask, hr, if_true, List.mem_append, List.mem_flatMap, List.mem_range]
  exact Or.inr ⟨w, hw, ha⟩

/-- `model[is_placed]` true ⇒ the value of `placed_on_worker` is the key of an existing worker. -/
theorem placed_has_worker {I : Inst} {σ : Assign Var} (h : sat σ (gen I)) {t : Nat} (ht : t < I.nT)
    (hpl : σ.b (.placed t) = true) : ∃ k, k < I.nW ∧ I.workerOf σ t = some k := by
  have hr := placed_hasRes h ht hpl
  have h1 := sat_hard h (cTask_sub ht (cPlacement_mem hr (a := .or (I.pwVals.map (fun v => .eqV (I.pwT t) (.lit v))))
    (by simp [Inst.cPlacement])))
  have h2 := sat_hard h (cTask_sub ht (cPlacement_mem hr
    (a := .iff (I.placedT t) (.neV (I.pwT t) (.lit (zeros I.nW)))) (by simp [Inst.cPlacement])))
  simp only [eval_or, List.any_map, List.any_eq_true, Function.comp, eval_eqV, Inst.pwT, eval_vvar,
    eval_vlit, beq_iff_eq] at h1
  simp only [eval_iff, Inst.placedT, eval_bvar, hpl, eval_neV, Inst.pwT, eval_vvar, eval_vlit,
    beq_iff_eq] at h2
  obtain ⟨v, hv, hev⟩ := h1
  rcases pwVals_cases hv with hz | ⟨k, hk, hkv⟩
  · rw [hev, hz] at h2; simp at h2
  · have : ((List.range I.nW).find? (fun k => fit I.nW (σ.v (.worker t)) == toBits I.nW (2 ^ k))).isSome := by
      rw [List.find?_isSome]
      exact ⟨k, List.mem_range.mpr hk, by simp [hev, hkv]⟩
    obtain ⟨k', hk'⟩ := Option.isSome_iff_exists.mp this
    exact ⟨k', (workerOf_spec (I := I) (t := t) hk').1, hk'⟩

/-- Start times respect `now` and the release time the code reads. -/
theorem start_bounds {I : Inst} {σ : Assign Var} (h : sat σ (gen I)) {t : Nat} (ht : t < I.nT)
    (hr : I.hasRes t = true) :
    σ.i (.start t) ≥ I.now ∧ σ.i (.start t) ≥ (I.task t).release := by
  have := sat_hard h (cTask_sub ht (cTiming_mem hr
    (a := .and [.ge (I.startT t) (.lit (I.task t).release), .ge (I.startT t) (.lit I.now)])
    (by simp [Inst.cTiming])))
  simp [Inst.startT] at this
  omega

/-- The key of worker `k` is what `workerOf = some k` means for the term `placed_on_worker == index`. -/
theorem pw_eq_idx {I : Inst} {σ : Assign Var} {t k : Nat} (h : I.workerOf σ t = some k) :
    (BoolT.eqV (I.pwT t) (I.idxLit k)).eval σ = true := by
  simp [Inst.pwT, Inst.idxLit, (workerOf_spec h).2]

/-- A placed task sits on a worker that passed `can_be_placed`. -/
theorem placed_canBePlaced {I : Inst} {σ : Assign Var} (h : sat σ (gen I)) {t k : Nat} (ht : t < I.nT)
    (hpl : σ.b (.placed t) = true) (hk : I.workerOf σ t = some k) : I.canBePlaced t k = true := by
  by_cases hc : I.canBePlaced t k = true
  · exact hc
  · exfalso
    have hr := placed_hasRes h ht hpl
    have hm : BoolT.imp (I.placedT t) (.neV (I.pwT t) (I.idxLit k)) ∈ I.cResW t k := by
      simp [Inst.cResW, hc]
    have := sat_hard h (cTask_sub ht (cResW_mem hr (workerOf_spec hk).1 hm))
    have he := pw_eq_idx hk
    simp only [eval_eqV] at he
    simp [Inst.placedT, hpl, he] at this

/-- The resource bit-vector of a task placed on worker `k` has one of the allowed patterns. -/
theorem res_allowed {I : Inst} {σ : Assign Var} (h : sat σ (gen I)) {t k : Nat} (ht : t < I.nT)
    (hpl : σ.b (.placed t) = true) (hk : I.workerOf σ t = some k) {r : String} (hr : r ∈ I.types t) :
    fit (I.size r) (σ.v (.res t r)) ∈ allowedLits (I.size r) ((I.worker k).avail r) (I.req t k r) := by
  have hres := placed_hasRes h ht hpl
  have hc := placed_canBePlaced h ht hpl hk
  have hm : BoolT.imp (.eqV (I.pwT t) (I.idxLit k))
      (.or ((allowedLits (I.size r) ((I.worker k).avail r) (I.req t k r)).map
        (fun l => .eqV (I.resT t r) (.lit l)))) ∈ I.cResW t k := by
    simp only [Inst.cResW, hc, if_true, List.mem_map]
    exact ⟨r, hr, rfl⟩
  have := sat_hard h (cTask_sub ht (cResW_mem hres (workerOf_spec hk).1 hm))
  have he := pw_eq_idx hk
  simp only [eval_imp, he, Bool.not_true, Bool.false_or, eval_or, List.any_map, List.any_eq_true,
    Function.comp, eval_eqV, Inst.resT, eval_vvar, eval_vlit, beq_iff_eq] at this
  obtain ⟨l, hl, hle⟩ := this
  rw [hle]; exact hl

end ErdosVerif.Z3m
