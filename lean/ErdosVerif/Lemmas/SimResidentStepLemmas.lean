import ErdosVerif.Lemmas.SimResidentInv
import ErdosVerif.Lemmas.SimResidentPlace
/-!
Part 7a: pure lemmas for `__step(dt)`: every RUNNING task is stepped (through the worker
it is resident on), `start + remaining-at-start = now + remaining` is restored when the
clock advances, the TASK_FINISHED events of the tasks that ran out of work are due now.
-/
namespace ErdosVerif.Model.Sim

/-- `dt` does not overshoot any RUNNING task (the simulator steps by at most the smallest
remaining time of the placed tasks). -/
def DtOK (s : SimS) (dt : Int) : Prop :=
  ∀ t x, taskAt s.graphs t = some x → x.state = .running → ∀ r, x.remaining = some r → dt ≤ r

/-- Task `t`, if RUNNING, has been stepped to `now + dt`. -/
def SteppedAt (s : SimS) (m : Int) (t : TaskId) : Prop :=
  ∀ x, taskAt s.graphs t = some x → x.state = .running → x.lastStep = m

/-- Task `t` is RUNNING, out of work, and was stepped to `m`. -/
def FinAt (s : SimS) (m : Int) (t : TaskId) : Prop :=
  ∃ x, taskAt s.graphs t = some x ∧ x.state = .running ∧ x.remaining = some 0 ∧ x.lastStep = m

/-- **One `Task.step` of a RUNNING task in the middle of `__step(dt)`**: idempotent, keeps
`last step + remaining`, reports completion exactly when the remaining time reaches 0. -/
theorem doStep_mid (x : TaskS) (now dt : Int) (log : List LogE) (t : TaskId) (hs : x.state = .running) (hdt : 0 ≤ dt)
    (h : RunMid dt now log t x) :
    (x.doStep now dt).1.state = .running ∧ (x.doStep now dt).1.pre = x.pre ∧
    RunMid dt now log t (x.doStep now dt).1 ∧ (x.doStep now dt).1.lastStep = now + dt ∧
    ∃ r r', x.remaining = some r ∧ (x.doStep now dt).1.remaining = some r' ∧
      (x.doStep now dt).1.lastStep + r' = x.lastStep + r ∧ ((x.doStep now dt).2 = true → r' = 0) := by
  obtain ⟨r, hr, hr0, hst, ⟨r0, pid, hlog, hsum⟩, hls⟩ := h
  have h1 : ¬ (x.start > now + dt) := by omega
  by_cases hz : r = 0
  · subst hz
    have hstep : x.doStep now dt = (x, false) := by simp [TaskS.doStep, hs, hr, h1]
    rw [hstep]
    have hl : x.lastStep = now + dt := by
      rcases hls with ⟨h1, h2⟩ | h1
      · omega
      · exact h1
    exact ⟨hs, rfl, ⟨0, hr, hr0, hst, ⟨r0, pid, hlog, hsum⟩, Or.inr hl⟩, hl, 0, 0, hr, hr, rfl, fun _ => rfl⟩
  · by_cases hfin : r - (now + dt - x.lastStep) ≤ 0
    · have hstep : x.doStep now dt = ({ x with lastStep := now + r, remaining := some 0 }, true) := by
        simp [TaskS.doStep, hs, hr, h1, hz, hfin]
      rw [hstep]
      have hrd : r = dt ∧ x.lastStep = now := by
        rcases hls with ⟨h2, h3⟩ | h2
        · omega
        · omega
      refine ⟨hs, rfl, ⟨0, rfl, Int.le_refl _, hst, ⟨r0, pid, hlog, ?_⟩, Or.inr ?_⟩, ?_, r, 0, hr, rfl, ?_, fun _ => rfl⟩
      · show x.start + r0 = now + r + 0; omega
      · show now + r = now + dt; omega
      · show now + r = now + dt; omega
      · show now + r + 0 = x.lastStep + r; omega
    · have hstep : x.doStep now dt =
          ({ x with lastStep := now + dt, remaining := some (r - (now + dt - x.lastStep)) }, false) := by
        simp [TaskS.doStep, hs, hr, h1, hz, hfin]
      rw [hstep]
      refine ⟨hs, rfl, ⟨r - (now + dt - x.lastStep), rfl, by omega, hst, ⟨r0, pid, hlog, ?_⟩, Or.inr rfl⟩, rfl, r,
        r - (now + dt - x.lastStep), hr, rfl, ?_, fun hc => by cases hc⟩
      · show x.start + r0 = now + dt + (r - (now + dt - x.lastStep)); omega
      · show now + dt + (r - (now + dt - x.lastStep)) = x.lastStep + r; omega

/-- Entering `__step(dt)`. -/
theorem AP.enterStep {ex : List SEvent} {s : SimS} {dt : Int} (h : AP RunOK ex s) (hd : DtOK s dt) :
    AP (RunMid dt) ex s := by
  refine { h with core := h.core.mono_P ?_ }
  intro t x ht hs ⟨r, hr, hr0, hls, hst, r0, pid, hlog, hsum⟩
  exact ⟨r, hr, hr0, hst, ⟨r0, pid, hlog, by omega⟩, Or.inl ⟨hls, hd t x ht hs r hr⟩⟩

/-- **One RUNNING task is stepped** (written back through `taskCall`). -/
theorem AP.stepTask {ex : List SEvent} {dt : Int} (s s' : SimS) (t : TaskId) (g : GraphS) (x : TaskS)
    (h : AP (RunMid dt) ex s) (hdt : 0 ≤ dt) (hg : s.graphs[t.g]? = some g) (hx : g.task? t.t = some x)
    (hrun : x.state = .running)
    (hp : s'.pools = s.pools) (hgr : s'.graphs = s.graphs.setIfInBounds t.g (g.setTask t.t (x.doStep s.now dt).1))
    (hn : s'.now = s.now) (hl : s'.log = s.log) (hq : s'.queue = s.queue) (hfu : s'.future = s.future)
    (hns : s'.nextSched = s.nextSched) (hid : s'.nextEid = s.nextEid) (ha : s'.allGraphs = s.allGraphs)
    (hj : s'.jobs = s.jobs) (hlr : s'.loaderReleased = s.loaderReleased) :
    AP (RunMid dt) ex s' ∧ SteppedAt s' (s.now + dt) t ∧
    (∀ u, SteppedAt s (s.now + dt) u → SteppedAt s' (s.now + dt) u) ∧
    (∀ u, FinAt s (s.now + dt) u → FinAt s' (s.now + dt) u) ∧
    ((x.doStep s.now dt).2 = true → FinAt s' (s.now + dt) t) := by
  have hT : taskAt s.graphs t = some x := taskAt_of _ _ g x hg hx
  have hmid := h.core.run t x hT hrun
  obtain ⟨k1, k2, k3, k4, r, r', hr, hr', hsum, hfin⟩ := doStep_mid x s.now dt s.log.toList t hrun hdt hmid
  have hlt : t.g < s.graphs.size := (Array.getElem?_eq_some_iff.mp hg).1
  have hlt2 := task?_lt g t.t x hx
  have hT't : taskAt s'.graphs t = some (x.doStep s.now dt).1 := by
    rw [hgr, taskAt_set]; simp [hlt, GraphS.task?_setTask, hlt2]
  have hT'o : ∀ u, u ≠ t → taskAt s'.graphs u = taskAt s.graphs u := by
    intro u hu
    rw [hgr, taskAt_set]
    by_cases hug : u.g = t.g
    · simp only [hug, hlt, and_self, if_true]
      have hut : u.t ≠ t.t := by
        intro e; apply hu
        cases u; cases t; simp_all
      rw [GraphS.task?_setTask]
      simp only [hut, false_and, if_false]
      unfold taskAt; rw [hug, hg]; rfl
    · simp [hug]
  have hpre : (x.doStep s.now dt).1.PreOK := by
    have := h.core.preOK t x hT
    simpa [TaskS.PreOK, k2] using this
  refine ⟨⟨?_, ?_, ?_, ?_, ?_, ?_⟩, ?_, ?_, ?_, ?_⟩
  · rw [hp, hn, hl, hq]
    exact h.core.update_running (T' := taskAt s'.graphs) t x _ r r' hT hrun hT't hT'o k1 hpre k3 hr hr' hsum
  · rw [hl]; exact h.log
  · rw [hq, hfu, hns, hid]; exact h.eids
  · rw [ha]; exact h.allQ
  · rw [hj]; exact h.tmplQ
  · exact h.loaderOf hg s' hlr
  · intro y hy _
    rw [hT't] at hy; cases hy; exact k4
  · intro u hu y hy hs
    by_cases hut : u = t
    · subst hut
      rw [hT't] at hy; cases hy; exact k4
    · rw [hT'o u hut] at hy; exact hu y hy hs
  · rintro u ⟨y, hy, h1, h2, h3⟩
    by_cases hut : u = t
    · subst hut
      rw [hT] at hy; cases hy
      -- a task with no work left is not changed by `step`
      have : (x.doStep s.now dt).1 = x := by
        unfold TaskS.doStep
        split
        · rfl
        · simp [h2]
      exact ⟨x, by rw [hT't, this], h1, h2, h3⟩
    · exact ⟨y, by rw [hT'o u hut]; exact hy, h1, h2, h3⟩
  · intro hf
    exact ⟨_, hT't, k1, by rw [hr', hfin hf], k4⟩

/-- **The clock advances** after every RUNNING task was stepped. -/
theorem AP.leaveStep {ex : List SEvent} {dt : Int} (s s' : SimS) (h : AP (RunMid dt) ex s) (hdt : 0 ≤ dt)
    (hall : ∀ t, SteppedAt s (s.now + dt) t)
    (hp : s'.pools = s.pools) (hg : s'.graphs = s.graphs) (hn : s'.now = s.now + dt)
    (hl : s'.log = s.log.push (.clock (s.now + dt))) (hq : s'.queue = s.queue) (hfu : s'.future = s.future)
    (hns : s'.nextSched = s.nextSched) (hid : s'.nextEid = s.nextEid) (ha : s'.allGraphs = s.allGraphs)
    (hj : s'.jobs = s.jobs) (hlr : s'.loaderReleased = s.loaderReleased) (hm : s'.metas = s.metas) :
    AP RunOK ex s' := by
  have hlog : s'.log.toList = s.log.toList ++ [LogE.clock (s.now + dt)] := by rw [hl]; simp
  refine ⟨?_, ?_, ?_, ?_, ?_, ?_⟩
  · rw [hp, hg, hn, hq]
    refine h.core.mono_P ?_
    intro t x ht hs ⟨r, hr, hr0, hst, ⟨r0, pid, hlg, hsum⟩, _⟩
    have hls := hall t x ht hs
    exact ⟨r, hr, hr0, hls, by omega, r0, pid, by rw [hlog]; simp [hlg], by omega⟩
  · rw [hlog]
    apply LogOK.push _ _ h.log
    intro t τ he; cases he
  · rw [hq, hfu, hns, hid]; exact h.eids
  · rw [ha]; exact h.allQ
  · rw [hj]; exact h.tmplQ
  · rw [hlr, hg, hm]; exact h.loader

/-- The TASK_FINISHED event `__step` creates for a task that ran out of work (not queued yet). -/
theorem AP.mkFin {P : Int → List LogE → TaskId → TaskS → Prop} {ex : List SEvent} (s s' : SimS) (h : AP P ex s)
    (e : SEvent) (t : TaskId) (m : Int) (hfin : FinAt s m t) (htid : e.tid = some t) (htime : e.ev.time = m)
    (heid : e.ev.eid = s.nextEid)
    (hp : s'.pools = s.pools) (hg : s'.graphs = s.graphs) (hn : s'.now = s.now) (hl : s'.log = s.log)
    (hq : s'.queue = s.queue) (hfu : s'.future = s.future) (hns : s'.nextSched = s.nextSched)
    (hid : s'.nextEid = s.nextEid + 1) (ha : s'.allGraphs = s.allGraphs) (hj : s'.jobs = s.jobs)
    (hlr : s'.loaderReleased = s.loaderReleased) (hm : s'.metas = s.metas) : AP P (ex ++ [e]) s' := by
  have hmem : ∀ e' ∈ s'.queue.toList ++ (ex ++ [e]), e' ∈ s.queue.toList ++ ex ∨ e' = e := by
    intro e' he'
    rw [hq] at he'
    simp only [List.mem_append, List.mem_singleton] at he' ⊢
    rcases he' with h1 | h1 | h1
    · exact Or.inl (Or.inl h1)
    · exact Or.inl (Or.inr h1)
    · exact Or.inr h1
  obtain ⟨x, hx, hrun, hr, hls⟩ := hfin
  refine ⟨?_, ?_, ?_, ?_, ?_, ?_⟩
  · rw [hp, hg, hn, hl]
    refine h.core.q_add e hmem ?_
    intro _ u hu
    rw [htid] at hu; cases hu
    refine ⟨x, hx, Or.inl hrun, fun _ r hr' => ?_⟩
    rw [hr] at hr'; cases hr'
    rw [htime, hls]; simp
  · rw [hl]; exact h.log
  · rw [hfu, hns, hid]
    have := h.eids
    refine ⟨fun y hy => Nat.lt_succ_of_lt (this.efLt y hy), ?_, ?_⟩
    · intro e' he' hf
      rcases hmem e' he' with h1 | h1
      · exact Nat.lt_succ_of_lt (this.finLt e' h1 hf)
      · rw [h1, heid]; exact Nat.lt_succ_self _
    · intro e' he' hf hef
      rcases hmem e' he' with h1 | h1
      · exact this.finNotEF e' h1 hf hef
      · rw [h1, heid] at hef
        exact Nat.lt_irrefl _ (this.efLt _ hef)
  · rw [ha]; exact h.allQ
  · rw [hj]; exact h.tmplQ
  · rw [hlr, hg, hm]; exact h.loader

/-- An event that exists outside the queue is pushed onto it (or: a popped event is forgotten). -/
theorem AP.moveEx {P : Int → List LogE → TaskId → TaskS → Prop} {ex ex' : List SEvent} (s s' : SimS) (h : AP P ex s)
    (hmem : ∀ e' ∈ s'.queue.toList ++ ex', e' ∈ s.queue.toList ++ ex)
    (hp : s'.pools = s.pools) (hg : s'.graphs = s.graphs) (hn : s'.now = s.now) (hl : s'.log = s.log)
    (hfu : s'.future = s.future) (hns : s'.nextSched = s.nextSched)
    (hid : s'.nextEid = s.nextEid) (ha : s'.allGraphs = s.allGraphs) (hj : s'.jobs = s.jobs)
    (hlr : s'.loaderReleased = s.loaderReleased) (hm : s'.metas = s.metas) : AP P ex' s' := by
  refine ⟨?_, ?_, ?_, ?_, ?_, ?_⟩
  · rw [hp, hg, hn, hl]; exact h.core.q_sub (fun e he _ => hmem e he)
  · rw [hl]; exact h.log
  · rw [hfu, hns, hid]
    exact h.eids.benign (fun e he _ => hmem e he) (fun x hx => Or.inl hx) (Nat.le_refl _)
  · rw [ha]; exact h.allQ
  · rw [hj]; exact h.tmplQ
  · rw [hlr, hg, hm]; exact h.loader

/-! ### the root of the heap after a push / what a pop returns -/

theorem siftdown_root (a : Array SEvent) (pos : Nat) (hpos : pos < a.size) :
    ∀ y, (Heap.siftdown SEvent.lt a 0 pos)[0]? = some y → a[0]? = some y ∨ a[pos]? = some y := by
  induction pos using Nat.strongRecOn generalizing a with
  | _ pos ih =>
    intro y hy
    unfold Heap.siftdown at hy
    split at hy
    · rename_i hc
      simp only [] at hy
      split at hy
      · have hpar : (pos - 1) / 2 < pos := by omega
        have hp : (pos - 1) / 2 < a.size := by omega
        rcases ih ((pos - 1) / 2) hpar (a.swap ((pos - 1) / 2) pos hp hc.2) (by simp; omega) y hy with h1 | h1
        · by_cases h0 : (pos - 1) / 2 = 0
          · right
            have hz : (a.swap ((pos - 1) / 2) pos hp hc.2)[0]? = a[pos]? := by
              simp only [h0]
              rw [Array.getElem?_swap]
              simp only [if_true]
              rw [Array.getElem?_eq_getElem hc.2, if_neg (by omega)]
            rw [hz] at h1; exact h1
          · left
            have hz : (a.swap ((pos - 1) / 2) pos hp hc.2)[0]? = a[0]? := by
              rw [Array.getElem?_swap]
              have e2 : ¬ pos = 0 := by omega
              rw [if_neg e2, if_neg h0]
            rw [hz] at h1; exact h1
        · right
          have hz : (a.swap ((pos - 1) / 2) pos hp hc.2)[(pos - 1) / 2]? = a[pos]? := by
            rw [Array.getElem?_swap]
            simp only [if_true]
            rw [Array.getElem?_eq_getElem hc.2, if_neg (by omega)]
          rw [hz] at h1; exact h1
      · exact Or.inl hy
    · exact Or.inl hy

/-- After `heappush` the root is the old root or the new element. -/
theorem heappush_root (q : Array SEvent) (e y : SEvent) (h : (Heap.heappush SEvent.lt q e)[0]? = some y) :
    q[0]? = some y ∨ y = e := by
  unfold Heap.heappush at h
  rcases siftdown_root (q.push e) q.size (by simp) y h with h1 | h1
  · by_cases hq : 0 < q.size
    · left; rw [Array.getElem?_push_lt hq] at h1; rw [Array.getElem?_eq_getElem hq]; exact h1
    · right
      have : q.size = 0 := by omega
      have hq' : q = #[] := Array.eq_empty_of_size_eq_zero this
      subst hq'
      simp at h1; exact h1.symm
  · right
    simp at h1; exact h1.symm

end ErdosVerif.Model.Sim
