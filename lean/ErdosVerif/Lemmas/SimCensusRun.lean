import ErdosVerif.Lemmas.SimCensus
/-!
Run-level census of the simulator model, part 3: the dispatcher `handleEvent`, `step`,
`iter`, `init`, `run`, and the run theorem `simulate_census`.

(`row` is unfolded in this file instead of being used through `row_c`: the SIMULATOR_END
row is the one row whose content is tied to the state it is written in.)
-/
open Std.Do
set_option mvcgen.warning false

namespace ErdosVerif.Model.Sim

attribute [local spec] logE_c liftE_c liftTape_c getGraph_c setGraph_c raiseTask_c addEvent_c reheapify_c
  removeEvent_c editEvent_c findEvent_c nextOfType_c placedTasks_c popEvent_c getPool_c setPool_c raiseOutcome_c
  raisePlace_c advanceClock_c getTask_c setTask_c uniqueName_c taskCall_c startTask_c mkEvent_c
  logUtilization_c handleSchedulerStart_c handleSchedulerFinish_c handleTaskRelease_c handleUpdateWorkload_c
  handleTaskGraphRelease_c handleProfile_c handleTaskPlacement_c handleTaskFinished_c handleTaskCancel_c

/-! ### the dispatcher, the loop -/

/-- The run has ended: the last row is the SIMULATOR_END row and carries the five counters. -/
def EndLast (s : SimS) : Prop :=
  s.ended = true ∧ ∃ time cg, s.rows.toList.getLast? =
    some [time, "SIMULATOR_END", nstr s.finishedTasks, nstr s.cancelledTasks, nstr s.missedTaskDeadlines,
          nstr s.finishedGraphs, cg, nstr s.missedGraphDeadlines]

theorem census_end (s : SimS) (time cg : String) (h : Census s) :
    Census { s with rows := s.rows.push [time, "SIMULATOR_END", nstr s.finishedTasks, nstr s.cancelledTasks,
      nstr s.missedTaskDeadlines, nstr s.finishedGraphs, cg, nstr s.missedGraphDeadlines] } := by
  obtain ⟨a, b, c, d, e, f, g, i⟩ := h
  refine ⟨?_, b, ?_, ?_, ?_, ?_, ?_, ?_⟩ <;> simp only [Array.toList_push]
  · rw [countRows_push_neutral _ _ _ (by simp [rowKind])]; exact a
  · rw [countRows_push_neutral _ _ _ (by simp [rowKind])]; exact c
  · rw [countRows_push_neutral _ _ _ (by simp [rowKind])]; exact d
  · rw [countRows_push_neutral _ _ _ (by simp [rowKind])]; exact e
  · rw [List.countP_append, List.countP_cons, List.countP_nil]; simpa [lateGraphRow, rowKind] using f
  · rw [countRows_push_neutral _ _ _ (by simp [rowKind])]; exact g
  · refine endRows_push _ _ i (fun _ => ⟨time, cg, ?_⟩)
    rw [← a, ← c, ← d, ← e, ← f]


theorem endLast_intro (s s' : SimS) (time cg : String)
    (hr : s'.rows = s.rows.push [time, "SIMULATOR_END", nstr s.finishedTasks, nstr s.cancelledTasks,
      nstr s.missedTaskDeadlines, nstr s.finishedGraphs, cg, nstr s.missedGraphDeadlines])
    (h1 : s'.finishedTasks = s.finishedTasks) (h2 : s'.cancelledTasks = s.cancelledTasks)
    (h3 : s'.missedTaskDeadlines = s.missedTaskDeadlines) (h4 : s'.finishedGraphs = s.finishedGraphs)
    (h5 : s'.missedGraphDeadlines = s.missedGraphDeadlines) (he : s'.ended = true) : EndLast s' := by
  refine ⟨he, time, cg, ?_⟩
  rw [hr, h1, h2, h3, h4, h5]
  simp

theorem handleEvent_c (ev : SEvent) :
    ⦃CA⦄ handleEvent ev ⦃post⟨fun r s => ⌜Census s ∧ (r = true → EndLast s)⌝, fun _ => CWA⟩⦄ := by
  mvcgen [handleEvent, row]
  all_goals try cen_close
  · refine ⟨?_, by intro h; cases h⟩
    pick_hyp h => exact Census.row _ _ h rfl
  · rename_i s h _ _ _
    exact ⟨Census.congr _ _ (census_end s _ _ h) rfl rfl rfl rfl rfl rfl rfl,
      endLast_intro s _ _ _ rfl rfl rfl rfl rfl rfl rfl⟩

attribute [local spec] handleEvent_c

theorem step_c (dt : Int) : KeepsC (step dt) := by
  mvcgen [step]
  all_goals first | exact cLoop | cen_close
attribute [local spec] step_c

theorem iter_c : ⦃CA⦄ iter ⦃post⟨fun r s => ⌜Census s ∧ (r = true → EndLast s)⌝, fun _ => CWA⟩⦄ := by
  mvcgen [iter]
  split
  · mvcgen
    all_goals first | exact cLoop | cen_close | exact ⟨fun _ _ h => Census.weak h, trivial⟩
  · mvcgen
    all_goals first | exact cLoop | cen_close | exact ⟨fun _ _ h => Census.weak h, trivial⟩

theorem init_c : KeepsC init := by
  mvcgen [init, row]
  all_goals first | exact cLoop | cen_close | (pick_hyp h => exact Census.row _ _ h rfl)

theorem run_c (n : Nat) : ⦃CA⦄ run n ⦃post⟨fun _ s => ⌜Census s ∧ EndLast s⌝, fun _ => CWA⟩⦄ := by
  induction n with
  | zero => mvcgen [run]; all_goals cen_close
  | succ n ih =>
    mvcgen [run, ih, iter_c]
    all_goals first | cen_close

theorem whole_c (fuel : Nat) :
    ⦃CA⦄ (do init; run fuel) ⦃post⟨fun _ s => ⌜Census s ∧ EndLast s⌝, fun _ => CWA⟩⦄ := by
  mvcgen [run_c, init_c]
  all_goals first | cen_close | exact ⟨fun _ _ h => Census.weak h, trivial⟩

/-- **Census of a whole run.** From an initial state whose counters agree with its (usually
empty) history, for every world, scheduler (decision tape), draw tape and number of loop
iterations:
* when `simulate` returns normally (the SIMULATOR_END event was handled) the final state
  satisfies `Census` and its last row is the SIMULATOR_END row carrying the counters;
* when it stops with an exception (including the model's fuel bound) the final state
  satisfies `CensusW`. -/
theorem simulate_census (s0 : SimS) (fuel : Nat) (h : Census s0) :
    CensusW (simulate s0 fuel).2 ∧
    ((simulate s0 fuel).1 = none → Census (simulate s0 fuel).2 ∧ EndLast (simulate s0 fuel).2) := by
  have := whole_c fuel s0 h
  simp only [wp, PredTrans.apply_pushExcept, PredTrans.apply_pushArg, Id.run] at this
  unfold simulate
  revert this
  cases (StateT.run (ExceptT.run (do init; run fuel)) s0) with
  | mk r s =>
    cases r with
    | ok a => intro h; exact ⟨h.1.weak, fun _ => h⟩
    | error e => intro h; exact ⟨h, fun hh => by cases hh⟩

/-- The empty history with zero counters satisfies the census. -/
theorem census_initial (s0 : SimS) (hr : s0.rows = #[]) (hl : s0.log = #[]) (h1 : s0.finishedTasks = 0)
    (h2 : s0.cancelledTasks = 0) (h3 : s0.missedTaskDeadlines = 0) (h4 : s0.finishedGraphs = 0)
    (h5 : s0.missedGraphDeadlines = 0) : Census s0 := by
  refine ⟨?_, ?_, ?_, ?_, ?_, ?_, ?_, ?_⟩ <;> simp [hr, hl, h1, h2, h3, h4, h5, countRows, endRows_nil]

end ErdosVerif.Model.Sim
