import ErdosVerif.Lemmas.Ledger
/-!
The ledger invariant of `Resources` and its preservation by every operation
(including the operations that raise). Core Lean only.
-/
namespace ErdosVerif.Model

/-- Ledger invariant: availability and totals have the same duplicate-free key
list, every exact key satisfies `available + allocated = total`, and the ledger
only mentions keys of the vector. -/
structure Resources.Inv (r : Resources) : Prop where
  keys_eq : AList.keys r.avail = AList.keys r.total
  nodup : (AList.keys r.total).Nodup
  conserve : ∀ x, getQ r.avail x + allocAt r.allocs x = getQ r.total x
  known : ∀ c l, (c, l) ∈ r.allocs → ∀ p ∈ l, p.1 ∈ AList.keys r.total

namespace Resources

theorem inv_ofVec (v : Vec) (h : (AList.keys v).Nodup) : (ofVec v).Inv :=
  ⟨rfl, h, fun _ => by simp [ofVec], fun c l hm => by simp [ofVec] at hm⟩

theorem inv_deepcopy (r : Resources) (h : r.Inv) : r.deepcopy.Inv := inv_ofVec _ h.nodup

theorem inv_addResource (r : Resources) (k : Res) (q : Nat) (h : r.Inv) : (r.addResource k q).Inv := by
  by_cases hk : k ∈ AList.keys r.total
  · have hk' : k ∈ AList.keys r.avail := h.keys_eq ▸ hk
    refine ⟨?_, ?_, ?_, ?_⟩
    · simp only [addResource, AList.keys_set_of_mem _ _ _ hk, AList.keys_set_of_mem _ _ _ hk', h.keys_eq]
    · simp only [addResource, AList.keys_set_of_mem _ _ _ hk]; exact h.nodup
    · intro x
      have := h.conserve x
      simp only [addResource, getQ_set]
      by_cases e : k = x
      · subst e; simp only [if_true]; unfold getQ at this; omega
      · simp only [e, if_false]; exact this
    · intro c l hm p hp
      simp only [addResource, AList.keys_set_of_mem _ _ _ hk]
      exact h.known c l hm p hp
  · have hk' : k ∉ AList.keys r.avail := h.keys_eq ▸ hk
    refine ⟨?_, ?_, ?_, ?_⟩
    · simp only [addResource, AList.keys_set_of_not_mem _ _ _ hk, AList.keys_set_of_not_mem _ _ _ hk', h.keys_eq]
    · simp only [addResource, AList.keys_set_of_not_mem _ _ _ hk]
      rw [List.nodup_append]
      refine ⟨h.nodup, by simp, ?_⟩
      intro a ha b hb
      simp only [List.mem_singleton] at hb
      subst hb
      intro e; subst e; exact hk ha
    · intro x
      have := h.conserve x
      simp only [addResource, getQ_set]
      by_cases e : k = x
      · subst e; simp only [if_true]; unfold getQ at this; omega
      · simp only [e, if_false]; exact this
    · intro c l hm p hp
      simp only [addResource, AList.keys_set_of_not_mem _ _ _ hk]
      exact List.mem_append_left _ (h.known c l hm p hp)

theorem known_record (r : Resources) (h : r.Inv) (c : Comp) (rec : List (Res × Nat))
    (hrec : ∀ p ∈ rec, p.1 ∈ AList.keys r.total) :
    ∀ c' l, (c', l) ∈ record r.allocs c rec → ∀ p ∈ l, p.1 ∈ AList.keys r.total := by
  intro c' l hm p hp
  rcases AList.mem_set _ _ _ _ hm with e | e
  · simp only [Prod.mk.injEq] at e
    obtain ⟨_, e⟩ := e
    subst e
    rcases List.mem_append.mp hp with hp | hp
    · cases hg : AList.get? r.allocs c with
      | none => simp [hg] at hp
      | some l0 =>
        simp only [hg, Option.getD_some] at hp
        exact h.known c l0 (AList.mem_of_get?_some _ _ _ hg) p hp
    · exact hrec p hp
  · exact h.known c' l e p hp

theorem inv_touch (r : Resources) (c : Comp) (h : r.Inv) :
    ({ r with allocs := record r.allocs c [] } : Resources).Inv :=
  ⟨h.keys_eq, h.nodup, fun x => by
      have := h.conserve x
      simp only [allocAt_record, pairsAt_nil]; omega,
    known_record r h c [] (by simp)⟩

theorem inv_allocate (r : Resources) (k : Res) (c : Comp) (q : Nat) (h : r.Inv) :
    (r.allocate k c q).1.Inv := by
  unfold allocate
  split
  · exact h
  · have hnd : (AList.keys r.avail).Nodup := h.keys_eq ▸ h.nodup
    refine ⟨?_, h.nodup, ?_, ?_⟩
    · simp only [scan_keys]; exact h.keys_eq
    · intro x
      have h1 := scan_conserve k r.avail q hnd x
      have h2 := h.conserve x
      simp only [allocAt_record]
      omega
    · exact known_record r h c _ (fun p hp => h.keys_eq ▸ (scan_recorded k r.avail q p hp).1)

theorem inv_allocateEach (r : Resources) (c : Comp) (req : Vec) (h : r.Inv) :
    (r.allocateEach c req).1.Inv := by
  induction req generalizing r with
  | nil => exact h
  | cons p rest ih =>
    obtain ⟨k, q⟩ := p
    simp only [allocateEach]
    have := inv_allocate r k c q h
    cases hres : r.allocate k c q with
    | mk r' o =>
      rw [hres] at this
      cases o with
      | ok => exact ih r' this
      | raised e => exact this

theorem inv_deallocate (r : Resources) (c : Comp) (h : r.Inv) : (r.deallocate c).1.Inv := by
  unfold deallocate
  split
  · exact h
  · rename_i l hg
    have hmem := AList.mem_of_get?_some _ _ _ hg
    have hl : ∀ p ∈ l, p.1 ∈ AList.keys r.avail := fun p hp => h.keys_eq ▸ h.known c l hmem p hp
    refine ⟨?_, h.nodup, ?_, ?_⟩
    · simp only [giveBack_keys _ _ hl]; exact h.keys_eq
    · intro x
      have h1 := giveBack_getQ r.avail l x
      have h2 := allocAt_erase r.allocs c x
      have h3 := h.conserve x
      simp only [hg, Option.getD_some] at h2
      simp only [h1]; omega
    · intro c' l' hm p hp
      exact h.known c' l' (AList.mem_erase _ _ _ hm) p hp

theorem inv_getAllocated (r : Resources) (c : Comp) (h : r.Inv) : (r.getAllocated c).1.Inv := by
  unfold getAllocated
  split
  · exact h
  · rename_i hg
    have := inv_touch r c h
    simpa [record, hg] using this

/-- The rollback branch of `allocate_multiple`. -/
theorem inv_rollback (r' : Resources) (c : Comp) (n : Nat) (known : Bool) (h : r'.Inv)
    (hk : known = false → n = 0) :
    ({ r' with avail := giveBack r'.avail (((AList.get? r'.allocs c).getD []).drop n),
               allocs := if known then AList.set r'.allocs c (((AList.get? r'.allocs c).getD []).take n)
                         else AList.erase r'.allocs c } : Resources).Inv := by
  have hl : ∀ p ∈ (AList.get? r'.allocs c).getD [], p.1 ∈ AList.keys r'.total := by
    intro p hp
    cases hg : AList.get? r'.allocs c with
    | none => simp [hg] at hp
    | some l0 =>
      simp only [hg, Option.getD_some] at hp
      exact h.known c l0 (AList.mem_of_get?_some _ _ _ hg) p hp
  refine ⟨?_, h.nodup, ?_, ?_⟩
  · have : ∀ p ∈ ((AList.get? r'.allocs c).getD []).drop n, p.1 ∈ AList.keys r'.avail :=
      fun p hp => h.keys_eq ▸ hl p (List.mem_of_mem_drop hp)
    simp only [giveBack_keys _ _ this]; exact h.keys_eq
  · intro x
    have h1 := giveBack_getQ r'.avail (((AList.get? r'.allocs c).getD []).drop n) x
    have h3 := h.conserve x
    have h4 := pairsAt_take_drop ((AList.get? r'.allocs c).getD []) n x
    simp only [h1]
    cases known with
    | true =>
      have h2 := allocAt_set r'.allocs c (((AList.get? r'.allocs c).getD []).take n) x
      simp only [if_true]; omega
    | false =>
      have h2 := allocAt_erase r'.allocs c x
      have hn := hk rfl
      subst hn
      simp only [List.drop_zero, List.take_zero, pairsAt_nil] at h4 ⊢
      simp only [Bool.false_eq_true, if_false]; omega
  · intro c' l' hm p hp
    cases known with
    | true =>
      simp only [if_true] at hm
      rcases AList.mem_set _ _ _ _ hm with e | e
      · simp only [Prod.mk.injEq] at e
        obtain ⟨_, e⟩ := e
        subst e
        exact hl p (List.mem_of_mem_take hp)
      · exact h.known c' l' e p hp
    | false =>
      simp only [Bool.false_eq_true, if_false] at hm
      exact h.known c' l' (AList.mem_erase _ _ _ hm) p hp

theorem inv_allocateMultiple (r : Resources) (req : Vec) (c : Comp) (h : r.Inv) :
    (r.allocateMultiple req c).1.Inv := by
  unfold allocateMultiple
  split
  · have h0 := inv_touch r c h
    have h1 := inv_allocateEach _ c req h0
    cases hres : allocateEach { r with allocs := record r.allocs c [] } c req with
    | mk r' o =>
      rw [hres] at h1
      cases o with
      | ok => exact h1
      | raised e =>
        apply inv_rollback r' c _ _ h1
        intro hk
        have : AList.get? r.allocs c = none := by
          cases hg : AList.get? r.allocs c with
          | none => rfl
          | some v => simp [AList.has, hg] at hk
        simp [this]
  · exact h

/-- `__copy__`'s replay keeps the invariant of the instance being built. -/
theorem inv_replayPairs (inst : Resources) (c : Comp) (l : List (Res × Nat)) (h : inst.Inv) :
    (replayPairs inst c l).1.Inv := by
  induction l generalizing inst with
  | nil => exact h
  | cons p rest ih =>
    obtain ⟨k, q⟩ := p
    simp only [replayPairs]
    have := inv_allocate inst k c q h
    cases hres : inst.allocate k c q with
    | mk r' o =>
      rw [hres] at this
      cases o with
      | ok => exact ih r' this
      | raised e => exact this

theorem inv_replayAll (inst : Resources) (a : AList Comp (List (Res × Nat))) (h : inst.Inv) :
    (replayAll inst a).1.Inv := by
  induction a generalizing inst with
  | nil => exact h
  | cons p rest ih =>
    obtain ⟨c, l⟩ := p
    simp only [replayAll]
    have := inv_replayPairs _ c l (inv_touch inst c h)
    cases hres : replayPairs { inst with allocs := record inst.allocs c [] } c l with
    | mk r' o =>
      rw [hres] at this
      cases o with
      | ok => exact ih r' this
      | raised e => exact this

theorem inv_copy (r : Resources) (h : r.Inv) : r.copy.1.Inv :=
  inv_replayAll _ _ (inv_ofVec _ h.nodup)

end Resources
end ErdosVerif.Model
