import ErdosVerif.Lemmas.LedgerInv
/-!
The ledger invariant lifted to workers, pools and whole operation histories.
-/
namespace ErdosVerif.Model

namespace Worker

theorem inv_loadProfile (w : Worker) (p : Nat) (s : Strategy) (h : w.res.Inv) :
    (w.loadProfile p s).1.res.Inv := by
  unfold loadProfile
  have := Resources.inv_allocateMultiple w.res s.req (.profile p) h
  cases hres : w.res.allocateMultiple s.req (.profile p) with
  | mk r o => rw [hres] at this; cases o <;> exact this

theorem inv_evictProfile (w : Worker) (p : Nat) (h : w.res.Inv) : (w.evictProfile p).1.res.Inv := by
  unfold evictProfile
  split
  · exact h
  · have := Resources.inv_deallocate w.res (.profile p) h
    cases hres : w.res.deallocate (.profile p) with
    | mk r o =>
      rw [hres] at this
      cases o with
      | ok => simp only []; split <;> exact this
      | raised e => exact this

theorem inv_placeTask (w : Worker) (t : Nat) (s : Strategy) (h : w.res.Inv) :
    (w.placeTask t s).1.res.Inv := by
  unfold placeTask
  split
  · split
    · split
      · exact h
      · have := Resources.inv_allocateMultiple w.res s.req (.batch w.fresh) h
        cases hres : w.res.allocateMultiple s.req (.batch w.fresh) with
        | mk r o => rw [hres] at this; cases o <;> exact this
    · split <;> exact h
  · have := Resources.inv_allocateMultiple w.res s.req (.task t) h
    cases hres : w.res.allocateMultiple s.req (.task t) with
    | mk r o => rw [hres] at this; cases o <;> exact this

theorem inv_removeTask (w : Worker) (t : Nat) (h : w.res.Inv) : (w.removeTask t).1.res.Inv := by
  unfold removeTask
  split
  · exact h
  · rename_i s _
    split
    · split
      · exact h
      · split
        · exact h
        · simp only []
          split
          · split
            · exact h
            · rename_i bt _
              have := Resources.inv_deallocate w.res bt h
              cases hres : w.res.deallocate bt with
              | mk r o => rw [hres] at this; cases o <;> exact this
          · exact h
    · have := Resources.inv_deallocate w.res (.task t) h
      cases hres : w.res.deallocate (.task t) with
      | mk r o => rw [hres] at this; cases o <;> exact this

theorem inv_stepProfiles (w : Worker) (dt : Int) (h : w.res.Inv) : (w.stepProfiles dt).res.Inv := h

theorem inv_getAllocated (w : Worker) (t : Nat) (h : w.res.Inv) : (w.getAllocated t).1.res.Inv := by
  unfold getAllocated
  split
  · exact h
  · split
    · split
      · exact h
      · rename_i bt _; exact Resources.inv_getAllocated w.res bt h
    · exact Resources.inv_getAllocated w.res (.task t) h

theorem inv_copy (w : Worker) (h : w.res.Inv) : w.copy.1.res.Inv := by
  unfold copy
  have := Resources.inv_copy w.res h
  cases hres : w.res.copy with
  | mk r o => rw [hres] at this; exact this

theorem inv_deepcopy (w : Worker) (h : w.res.Inv) : w.deepcopy.res.Inv := Resources.inv_deepcopy _ h

end Worker

/-- Every worker of the pool satisfies the ledger invariant. -/
def Pool.Inv (p : Pool) : Prop := ∀ w ∈ p.workers, w.res.Inv

namespace Pool

theorem inv_setWorker (p : Pool) (i : Nat) (w : Worker) (h : p.Inv) (hw : w.res.Inv) :
    (p.setWorker i w).Inv := by
  intro x hx
  simp only [setWorker] at hx
  rcases List.mem_or_eq_of_mem_set hx with hx | hx
  · exact h x hx
  · subst hx; exact hw

theorem inv_getElem (p : Pool) (i : Nat) (w : Worker) (h : p.Inv) (hw : p.workers[i]? = some w) :
    w.res.Inv := h w (List.mem_of_getElem? hw)

theorem inv_onWorker (p : Pool) (i : Nat) (f : Worker → Worker × Outcome) (h : p.Inv)
    (hf : ∀ w, w.res.Inv → (f w).1.res.Inv) : (p.onWorker i f).1.Inv := by
  unfold onWorker
  split
  · exact h
  · rename_i w hw
    exact inv_setWorker p i _ h (hf w (inv_getElem p i w h hw))

theorem inv_with_placed (p : Pool) (pl : AList Nat Nat) (h : p.Inv) :
    ({ p with placed := pl } : Pool).Inv := h

theorem inv_placeTask (p : Pool) (t : Nat) (strats : List Strategy) (s? : Option Strategy)
    (wid? : Option Nat) (h : p.Inv) : (p.placeTask t strats s? wid?).1.Inv := by
  unfold placeTask
  simp only []
  split
  · exact h
  · exact h
  · exact h
  · rename_i i s _
    split
    · exact h
    · rename_i w hw
      have hw' := Worker.inv_placeTask w t s (inv_getElem p i w h hw)
      cases hres : w.placeTask t s with
      | mk w' o =>
        rw [hres] at hw'
        cases o with
        | ok => exact inv_with_placed _ _ (inv_setWorker p i w' h hw')
        | raised e => exact inv_setWorker p i w' h hw'

theorem inv_removeTask (p : Pool) (t : Nat) (h : p.Inv) : (p.removeTask t).1.Inv := by
  unfold removeTask
  split
  · exact h
  · rename_i i _
    split
    · exact h
    · rename_i w hw
      have hw' := Worker.inv_removeTask w t (inv_getElem p i w h hw)
      cases hres : w.removeTask t with
      | mk w' o =>
        rw [hres] at hw'
        cases o with
        | ok => exact inv_with_placed _ _ (inv_setWorker p i w' h hw')
        | raised e => exact inv_setWorker p i w' h hw'

theorem inv_loadProfile_go (p : Pool) (prof : Nat) (s : Strategy) (n i : Nat) (h : p.Inv) :
    (loadProfile.go p prof s n i).1.Inv := by
  induction n generalizing p i with
  | zero => exact h
  | succ n ih =>
    simp only [loadProfile.go]
    split
    · exact h
    · rename_i w hw
      have hw' := Worker.inv_loadProfile w prof s (inv_getElem p i w h hw)
      cases hres : w.loadProfile prof s with
      | mk w' o =>
        rw [hres] at hw'
        cases o with
        | ok => exact ih _ _ (inv_setWorker p i w' h hw')
        | raised e => exact inv_setWorker p i w' h hw'

theorem inv_loadProfile (p : Pool) (prof : Nat) (s : Strategy) (wid? : Option Nat) (h : p.Inv) :
    (p.loadProfile prof s wid?).1.Inv := by
  unfold loadProfile
  split
  · rename_i i
    split
    · exact h
    · rename_i w hw
      exact inv_setWorker p i _ h (Worker.inv_loadProfile w prof s (inv_getElem p i w h hw))
  · exact inv_loadProfile_go p prof s _ _ h

theorem inv_evictProfile_go (p : Pool) (prof : Nat) (n i : Nat) (h : p.Inv) :
    (evictProfile.go p prof n i).1.Inv := by
  induction n generalizing p i with
  | zero => exact h
  | succ n ih =>
    simp only [evictProfile.go]
    split
    · exact h
    · rename_i w hw
      have hw' := Worker.inv_evictProfile w prof (inv_getElem p i w h hw)
      cases hres : w.evictProfile prof with
      | mk w' o =>
        rw [hres] at hw'
        cases o with
        | ok => exact ih _ _ (inv_setWorker p i w' h hw')
        | raised e => exact inv_setWorker p i w' h hw'

theorem inv_evictProfile (p : Pool) (prof : Nat) (wid? : Option Nat) (h : p.Inv) :
    (p.evictProfile prof wid?).1.Inv := by
  unfold evictProfile
  split
  · rename_i i
    split
    · exact h
    · rename_i w hw
      exact inv_setWorker p i _ h (Worker.inv_evictProfile w prof (inv_getElem p i w h hw))
  · exact inv_evictProfile_go p prof _ _ h

theorem inv_stepProfiles (p : Pool) (dt : Int) (h : p.Inv) : (p.stepProfiles dt).Inv := by
  intro w hw
  simp only [stepProfiles, List.mem_map] at hw
  obtain ⟨w0, hw0, rfl⟩ := hw
  exact h w0 hw0

theorem inv_copy (p : Pool) (h : p.Inv) : p.copy.1.Inv := by
  have key : (⟨p.workers.map (fun w => w.copy.1), p.placed⟩ : Pool).Inv := by
    intro w hw
    simp only [List.mem_map] at hw
    obtain ⟨w0, hw0, rfl⟩ := hw
    exact Worker.inv_copy w0 (h w0 hw0)
  unfold copy
  simp only [List.map_map]
  split <;> exact key

theorem inv_deepcopy (p : Pool) (h : p.Inv) : p.deepcopy.Inv := by
  intro w hw
  simp only [deepcopy, List.mem_map] at hw
  obtain ⟨w0, hw0, rfl⟩ := hw
  exact Worker.inv_deepcopy w0 (h w0 hw0)

theorem inv_apply (p : Pool) (op : Op) (h : p.Inv) : (p.apply op).1.Inv := by
  cases op with
  | addResource w k q =>
    exact inv_onWorker p w _ h (fun x hx => Resources.inv_addResource x.res k q hx)
  | allocate w k c q =>
    exact inv_onWorker p w _ h (fun x hx => Resources.inv_allocate x.res k c q hx)
  | allocateMultiple w req c =>
    exact inv_onWorker p w _ h (fun x hx => Resources.inv_allocateMultiple x.res req c hx)
  | deallocate w c =>
    exact inv_onWorker p w _ h (fun x hx => Resources.inv_deallocate x.res c hx)
  | getAllocatedRes w c =>
    exact inv_onWorker p w _ h (fun x hx => Resources.inv_getAllocated x.res c hx)
  | wPlace w t s => exact inv_onWorker p w _ h (fun x hx => Worker.inv_placeTask x t s hx)
  | wRemove w t => exact inv_onWorker p w _ h (fun x hx => Worker.inv_removeTask x t hx)
  | wLoad w pr s => exact inv_onWorker p w _ h (fun x hx => Worker.inv_loadProfile x pr s hx)
  | wEvict w pr => exact inv_onWorker p w _ h (fun x hx => Worker.inv_evictProfile x pr hx)
  | wGetAllocated w t => exact inv_onWorker p w _ h (fun x hx => Worker.inv_getAllocated x t hx)
  | step dt => exact inv_stepProfiles p dt h
  | pPlace t strats s? wid? => exact inv_placeTask p t strats s? wid? h
  | pRemove t => exact inv_removeTask p t h
  | pLoad pr s wid? => exact inv_loadProfile p pr s wid? h
  | pEvict pr wid? => exact inv_evictProfile p pr wid? h

theorem inv_run (p : Pool) (ops : List Op) (h : p.Inv) : (p.run ops).Inv := by
  induction ops generalizing p with
  | nil => exact h
  | cons o rest ih => exact ih _ (inv_apply p o h)

end Pool
end ErdosVerif.Model
