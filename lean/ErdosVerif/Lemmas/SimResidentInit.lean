import ErdosVerif.Lemmas.SimResidentRun
/-!
Part 9: a decidable well-formedness predicate of initial states (what the driver and the
loaders build) implies the residency / exact-runtime invariant.
-/
namespace ErdosVerif.Model.Sim

/-- A task graph as the loader hands it over: small enough for the task-id encoding of the
worker pools, no task RUNNING, `_pre_scheduling_state` VIRTUAL or RELEASED. -/
def quietB (g : GraphS) : Bool :=
  decide (g.tasks.size ≤ 65536) &&
  g.tasks.all (fun x => x.state != .running && (x.pre == .virtual || x.pre == .released))

/-- **Well-formed initial state** (decidable): nothing released yet, no event queued, no cached
event id, empty history, nothing placed on any worker, quiet task graphs and job templates. -/
def wf0 (s : SimS) : Bool :=
  s.graphs.isEmpty && s.metas.isEmpty && !s.loaderReleased && s.queue.isEmpty && s.future.isEmpty &&
  s.nextSched.isNone && s.log.isEmpty &&
  s.pools.all (fun p => p.workers.all (fun w => w.placed.isEmpty)) &&
  s.allGraphs.all quietB && s.jobs.all (fun j => quietB j.template)

theorem quiet_of_quietB (g : GraphS) (h : quietB g = true) : g.Quiet := by
  simp only [quietB, Bool.and_eq_true, decide_eq_true_eq, Array.all_eq_true] at h
  refine ⟨h.1, ?_⟩
  intro n x hx
  simp only [GraphS.task?] at hx
  obtain ⟨hlt, he⟩ := Array.getElem?_eq_some_iff.mp hx
  have := h.2 n hlt
  rw [he] at this
  simp only [Bool.and_eq_true, bne_iff_ne, ne_eq, Bool.or_eq_true, beq_iff_eq] at this
  exact ⟨this.1, this.2⟩

theorem wk_empty (ps : Array Pool) (h : ps.all (fun p => p.workers.all (fun w => w.placed.isEmpty)) = true)
    (pi i : Nat) (ks : List Nat) (hw : Wk (views ps) pi i = some ks) : ks = [] := by
  unfold Wk at hw
  rw [views_getElem?] at hw
  cases hp : ps[pi]? with
  | none => simp [hp] at hw
  | some p =>
    simp only [hp, Option.map_some, Option.bind_some, Pool.view_getElem?] at hw
    cases hwk : p.workers[i]? with
    | none => simp [hwk] at hw
    | some w =>
      simp only [hwk, Option.map_some, Option.some.injEq] at hw
      rw [Array.all_eq_true] at h
      obtain ⟨hlt, he⟩ := Array.getElem?_eq_some_iff.mp hp
      have h1 := h pi hlt
      rw [he, List.all_eq_true] at h1
      have h2 := h1 w (List.mem_of_getElem? hwk)
      have : w.placed = [] := List.isEmpty_iff.mp h2
      rw [← hw, this]; rfl

/-- **A well-formed initial state satisfies the invariant.** -/
theorem ap_initial (s : SimS) (h : wf0 s = true) : AP RunOK [] s := by
  simp only [wf0, Bool.and_eq_true, Bool.not_eq_true', Array.isEmpty_iff, List.isEmpty_iff,
    Option.isNone_iff_eq_none] at h
  obtain ⟨⟨⟨⟨⟨⟨⟨⟨⟨hg, hm⟩, hlr⟩, hq⟩, hf⟩, hns⟩, hl⟩, hp⟩, haq⟩, hjq⟩ := h
  have hnoAt : ∀ pi i n, ¬ At (views s.pools) pi i n := by
    intro pi i n hat
    obtain ⟨ks, hw, hmem⟩ := (At_iff ..).mp hat
    rw [wk_empty s.pools hp pi i ks hw] at hmem
    cases hmem
  have hT : ∀ t, taskAt s.graphs t = none := by intro t; simp [taskAt, hg]
  refine ⟨⟨?_, ?_, ?_, ?_, ?_, ?_, ?_, ?_, ?_⟩, ?_, ?_, ?_, ?_, ?_⟩
  · intro t x ht; rw [hT] at ht; cases ht
  · intro t x ht; rw [hT] at ht; cases ht
  · intro pi i ks hw; rw [wk_empty s.pools hp pi i ks hw]; exact List.nodup_nil
  · intro pi i pj j n h1; exact absurd h1 (hnoAt _ _ _)
  · intro pi i n h1; exact absurd h1 (hnoAt _ _ _)
  · intro pi i n h1; exact absurd h1 (hnoAt _ _ _)
  · intro t x ht; rw [hT] at ht; cases ht
  · intro t x ht; rw [hT] at ht; cases ht
  · intro e he; simp [hq] at he
  · rw [hl]; exact LogOK.nil
  · refine ⟨?_, ?_, ?_⟩
    · intro x hx
      rcases hx with ⟨t, ht⟩ | hx
      · rw [hf] at ht; cases ht
      · rw [hns] at hx; cases hx
    · intro e he; simp [hq] at he
    · intro e he; simp [hq] at he
  · intro g hgm
    rw [Array.all_eq_true] at haq
    obtain ⟨i, hi, rfl⟩ := Array.getElem_of_mem (Array.mem_toList_iff.mp hgm)
    exact quiet_of_quietB _ (haq i hi)
  · intro j hjm
    rw [Array.all_eq_true] at hjq
    obtain ⟨i, hi, rfl⟩ := Array.getElem_of_mem (Array.mem_toList_iff.mp hjm)
    exact quiet_of_quietB _ (hjq i hi)
  · intro _; exact ⟨hg, hm⟩

end ErdosVerif.Model.Sim
