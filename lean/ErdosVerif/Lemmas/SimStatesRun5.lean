import ErdosVerif.Lemmas.SimStatesRun3
import ErdosVerif.Lemmas.SimStatesRun4
/-!
Census against the task states, part 6: the handlers, the loop; `simulate_tally`.
-/
open Std.Do
set_option mvcgen.warning false

namespace ErdosVerif.Model.Sim

attribute [local spec] row_t logE_t liftE_t liftTape_t getGraph_t raiseTask_t addEvent_t reheapify_t
  removeEvent_t editEvent_t findEvent_t nextOfType_t placedTasks_t popEvent_t getPool_t setPool_t raiseOutcome_t
  raisePlace_t advanceClock_t getTask_t uniqueName_t mkEvent_t taskCall_t finishRemove_t finishRows_t
  placementSkip_t placementNotReady_t finishNotify_t

theorem logUtilization_t (time : Int) : KeepsT (logUtilization time) := by
  mvcgen [logUtilization]
  case inv1 => exact tLoop
  case inv2 => exact tLoop
  all_goals t_close
theorem schedulable_t (time : Int) : KeepsT (schedulable time) := by
  mvcgen [schedulable]
  case inv1 => exact tLoop
  all_goals t_close
theorem releasable_t : KeepsT releasable := by mvcgen [releasable]
attribute [local spec] logUtilization_t schedulable_t releasable_t

theorem placementEvents_t (time : Int) (p : PlacementS) : KeepsT (placementEvents time p) := by
  mvcgen [placementEvents]
  all_goals t_close
theorem nextSchedulerEvent_t (evTime : Int) : KeepsT (nextSchedulerEvent evTime) := by
  mvcgen [nextSchedulerEvent]
  case inv1 => exact tLoop
  all_goals t_close
attribute [local spec] placementEvents_t nextSchedulerEvent_t

theorem handleSchedulerStart_t (ev : SEvent) : KeepsT (handleSchedulerStart ev) := by
  mvcgen [handleSchedulerStart]
  all_goals t_close
theorem handleSchedulerFinish_t (ev : SEvent) : KeepsT (handleSchedulerFinish ev) := by
  mvcgen [handleSchedulerFinish]
  case inv1 => exact tLoop
  case inv2 => exact tLoop
  all_goals t_close
theorem handleTaskCancel_t (ev : SEvent) : KeepsT (handleTaskCancel ev) := by
  mvcgen [handleTaskCancel]
  all_goals t_close
theorem handleTaskRelease_t (ev : SEvent) : KeepsT (handleTaskRelease ev) := by
  mvcgen [handleTaskRelease]
  all_goals t_close
theorem handleTaskGraphRelease_t (ev : SEvent) : KeepsT (handleTaskGraphRelease ev) := by
  mvcgen [handleTaskGraphRelease]
  all_goals t_close
theorem handleProfile_t (ev : SEvent) (load : Bool) : KeepsT (handleProfile ev load) := by
  mvcgen [handleProfile]
  all_goals t_close
theorem handleTaskFinished_t (ev : SEvent) : KeepsT (handleTaskFinished ev) := by
  mvcgen [handleTaskFinished]
  all_goals t_close
theorem placementRow_t (t : TaskId) (pid : Nat) (time : Int) (st : Strategy) : KeepsT (placementRow t pid time st) := by
  mvcgen [placementRow]
  all_goals t_close
attribute [local spec] placementRow_t handleSchedulerStart_t handleSchedulerFinish_t handleTaskCancel_t
  handleTaskRelease_t handleTaskGraphRelease_t handleProfile_t handleTaskFinished_t

/-- `__handle_task_placement`, ready branch: `g` is the task's current graph. -/
theorem placementPlace_t (ev : SEvent) (t : TaskId) (p : PlacementS) (g : GraphS) (h : g.isReadyToRun t.t = true) :
    ⦃fun s => ⌜Tally s ∧ s.graphs[t.g]? = some g⌝⦄ placementPlace ev t p g h ⦃post⟨fun _ => TA, fun _ => TWA⟩⦄ := by
  mvcgen [placementPlace, getTask, getGraph, getPool, setPool, raisePlace, logE, liftTape, liftE, startTask_t]
  all_goals try t_close0
  all_goals first
    | (pick_hyp h => exact TallyP.weak (TallyP.congr _ _ h.1 rfl rfl rfl rfl rfl rfl rfl))
    | (pick_hyp h => exact TallyP.weak (TallyP.congr _ _ (TallyP.log _ _ h.1 rfl) rfl rfl rfl rfl rfl rfl rfl))
    | (pick_hyp h => exact ⟨TallyP.congr _ _ (TallyP.log _ _ h.1 rfl) rfl rfl rfl rfl rfl rfl rfl, h.2⟩)
attribute [local spec] placementPlace_t

theorem handleTaskPlacement_t (ev : SEvent) : KeepsT (handleTaskPlacement ev) := by
  mvcgen [handleTaskPlacement, getGraph]
  all_goals first
    | t_close0
    | (pick_hyp h => pick_hyp hg => exact ⟨h, hg⟩)
    | (simp_all; done)

theorem handleUpdateWorkload_t (ev : SEvent) : KeepsT (handleUpdateWorkload ev) := by
  mvcgen [handleUpdateWorkload]
  case inv1 => exact tLoop
  case inv2 => exact tLoop
  all_goals try t_close0
  · rename_i s h hl
    exact TallyP.load s _ h (by simpa using hl) rfl rfl rfl rfl rfl rfl
attribute [local spec] handleTaskPlacement_t handleUpdateWorkload_t

theorem handleEvent_t (ev : SEvent) : KeepsT (handleEvent ev) := by
  mvcgen [handleEvent]
  all_goals t_close
attribute [local spec] handleEvent_t

theorem step_t (dt : Int) : KeepsT (step dt) := by
  mvcgen [step]
  all_goals first | exact tLoop | t_close
attribute [local spec] step_t

theorem iter_t : KeepsT iter := by
  mvcgen [iter]
  split
  · mvcgen
    all_goals first | exact tLoop | t_close
  · mvcgen
    all_goals first | exact tLoop | t_close

theorem init_t : KeepsT init := by
  mvcgen [init]
  all_goals first | exact tLoop | t_close

theorem run_t (n : Nat) : KeepsT (run n) := by
  induction n with
  | zero => mvcgen [run]; all_goals t_close
  | succ n ih =>
    mvcgen [run, ih, iter_t]
    all_goals first | exact tLoop | t_close

theorem whole_t (fuel : Nat) : KeepsT (do init; run fuel) := by
  mvcgen [run_t, init_t]
  all_goals first | exact tLoop | t_close

/-- **Census against the task states, every run.** From an initial state satisfying `Tally`
(an empty workload before the loader hands over pristine task graphs):
* whatever way the run stops, `finishedTasks` is the number of done (COMPLETED / EVICTED)
  tasks of the workload and there are at least as many CANCELLED tasks as `.cancel`
  history entries (`TallyW`);
* when it ends normally, the CANCELLED tasks are exactly as many as the `.cancel` entries
  (`Tally`). -/
theorem simulate_tally (s0 : SimS) (fuel : Nat) (h : Tally s0) :
    TallyW (simulate s0 fuel).2 ∧ ((simulate s0 fuel).1 = none → Tally (simulate s0 fuel).2) := by
  have := whole_t fuel s0 h
  simp only [wp, PredTrans.apply_pushExcept, PredTrans.apply_pushArg, Id.run] at this
  unfold simulate
  revert this
  cases (StateT.run (ExceptT.run (do init; run fuel)) s0) with
  | mk r s =>
    cases r with
    | ok a => intro h; exact ⟨TallyP.weak h, fun _ => h⟩
    | error e => intro h; exact ⟨h, fun hh => by cases hh⟩

end ErdosVerif.Model.Sim
