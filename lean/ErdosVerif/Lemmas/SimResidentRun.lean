import ErdosVerif.Lemmas.SimResidentStep
/-!
Part 8: `__handle_event`, one iteration of the `simulate()` loop, the constructor, the
whole run; adequacy.
-/
open Std.Do
set_option mvcgen.warning false

namespace ErdosVerif.Model.Sim

/-- `__handle_event` for the popped event `ev` (kept in `ex`), at the clock value `n = ev.time`. -/
theorem handleEvent_rspec (n : Int) (ex : List SEvent) (ev : SEvent) (hev : ev.ev.time = n) (he : ev ∈ ex) :
    ⦃RA n ex⦄ handleEvent ev ⦃post⟨fun _ => RA n ex, fun _ s => ⌜WInv s⌝⟩⦄ := by
  have h_logE := logE_rspec n ex
  have h_row := row_rspec n ex
  have h_cancel := handleTaskCancel_rspec n ex
  have h_prof := handleProfile_rspec n ex
  have h_fin : ev.ev.etype = ET.taskFinished → KeepsR n ex (handleTaskFinished ev) :=
    handleTaskFinished_rspec n ex ev he
  have h_tgr := handleTaskGraphRelease_rspec n ex
  have h_rel := handleTaskRelease_rspec n ex
  have h_upd := handleUpdateWorkload_rspec n ex
  have h_place : KeepsR n ex (handleTaskPlacement ev) := handleTaskPlacement_rspec n ex ev hev
  have h_ss := handleSchedulerStart_rspec n ex
  have h_sf := handleSchedulerFinish_rspec n ex
  have h_util := logUtilization_rspec n ex
  rmvcgen [handleEvent, h_logE, h_row, h_cancel, h_prof, h_fin, h_tgr, h_rel, h_upd, h_place, h_ss, h_sf, h_util]
  all_goals first
    | frame_close
    | rfl
    | wk_close
    | (rs_hyps h => simpa using h)

theorem foldl_min_le (rs : List Int) : ∀ (r0 : Int), ∀ r ∈ r0 :: rs, rs.foldl min r0 ≤ r := by
  induction rs with
  | nil => intro r0 r hr; simp at hr; subst hr; exact Int.le_refl _
  | cons a rs ih =>
    intro r0 r hr
    simp only [List.foldl_cons]
    simp only [List.mem_cons] at hr
    rcases hr with h | h | h
    · have := ih (min r0 a) (min r0 a) (List.mem_cons_self ..)
      subst h; omega
    · have := ih (min r0 a) (min r0 a) (List.mem_cons_self ..)
      subst h; omega
    · exact ih (min r0 a) r (List.mem_cons_of_mem _ h)

/-- Every RUNNING task is among `WorkerPools.get_placed_tasks()`. -/
theorem running_mem_placed {P : Int → List LogE → TaskId → TaskS → Prop} {ex : List SEvent} {s : SimS} (h : AP P ex s)
    (t : TaskId) (x : TaskS) (ht : taskAt s.graphs t = some x) (hs : x.state = .running) :
    t ∈ s.pools.toList.flatMap (fun p => p.placed.map (fun q => ungid q.1)) := by
  obtain ⟨pi, i, hat⟩ := h.core.runRes t x ht hs
  obtain ⟨m, hm, hget⟩ := h.core.bwd pi i _ hat
  rw [pmaps_getElem?] at hm
  cases hp : s.pools[pi]? with
  | none => simp [hp] at hm
  | some p =>
    simp only [hp, Option.map_some, Option.some.injEq] at hm
    subst hm
    rw [List.mem_flatMap]
    refine ⟨p, Array.mem_toList_iff.mpr (Array.mem_of_getElem? hp), ?_⟩
    rw [List.mem_map]
    exact ⟨(gid t, i), AList.mem_of_get?_some _ _ _ hget, ungid_gid t (h.core.small t x ht)⟩

/-- The smallest collected remaining time (0 when nothing was collected), as `iter` computes it. -/
def minRemOf (rems : List Int) : Int :=
  match rems with
  | [] => 0
  | r :: rs => rs.foldl min r

/-- `dt` is at most the smallest remaining time of the placed tasks. -/
theorem dtOK_of_rems {P : Int → List LogE → TaskId → TaskS → Prop} {ex : List SEvent} {s : SimS} (h : AP P ex s)
    (rems : List Int) (dt : Int)
    (hr : ∀ t ∈ s.pools.toList.flatMap (fun p => p.placed.map (fun q => ungid q.1)), ∀ x r,
      taskAt s.graphs t = some x → x.state = .running → x.remaining = some r → r ∈ rems)
    (hdt : dt ≤ minRemOf rems) : DtOK s dt := by
  intro t x ht hs r hrem
  have hmem := hr t (running_mem_placed h t x ht hs) x r ht hs hrem
  cases rems with
  | nil => cases hmem
  | cons r0 rs =>
    simp only [minRemOf] at hdt
    have := foldl_min_le rs r0 r hmem
    omega

theorem dtOK_of_empty {P : Int → List LogE → TaskId → TaskS → Prop} {ex : List SEvent} {s : SimS} (h : AP P ex s)
    (dt : Int) (he : (s.pools.toList.flatMap (fun p => p.placed.map (fun q => ungid q.1))).isEmpty = true) : DtOK s dt := by
  intro t x ht hs r _
  have := running_mem_placed h t x ht hs
  rw [List.isEmpty_iff.mp he] at this
  cases this

/-- The event `heappop` returns is kept aside while it is handled. -/
theorem AP.popped (s s' : SimS) (e : SEvent) (q' : Array SEvent) (h : AP RunOK [] s)
    (hpop : Heap.heappop SEvent.lt s.queue = some (e, q'))
    (hp : s'.pools = s.pools) (hg : s'.graphs = s.graphs) (hn : s'.now = s.now) (hl : s'.log = s.log)
    (hq : s'.queue = q') (hfu : s'.future = s.future) (hns : s'.nextSched = s.nextSched)
    (hid : s'.nextEid = s.nextEid) (ha : s'.allGraphs = s.allGraphs) (hj : s'.jobs = s.jobs)
    (hlr : s'.loaderReleased = s.loaderReleased) (hm : s'.metas = s.metas) : AP RunOK [e] s' := by
  obtain ⟨h1, h2⟩ := mem_heappop s.queue q' e hpop
  refine AP.moveEx s s' h ?_ hp hg hn hl hfu hns hid ha hj hlr hm
  intro e' he'
  rw [hq] at he'
  rcases List.mem_append.mp he' with h3 | h3
  · exact List.mem_append_left _ (h1 e' h3)
  · simp only [List.mem_singleton] at h3
    rw [h3]; exact List.mem_append_left _ h2

/-- `heappop` returns the root. -/
theorem popped_root (q q' : Array SEvent) (e : SEvent) (hpop : Heap.heappop SEvent.lt q = some (e, q')) :
    q[0]? = some e := by
  obtain ⟨hpos, he⟩ := Heap.heappop_fst q e q' hpop
  rw [he, Array.getElem?_eq_getElem hpos]

/-- The handled event is forgotten. -/
theorem AP.forget {ex : List SEvent} {s : SimS} (h : AP RunOK ex s) : AP RunOK [] s :=
  AP.moveEx s s h (fun e he => by simp only [List.append_nil] at he; exact List.mem_append_left _ he) rfl rfl rfl rfl
    rfl rfl rfl rfl rfl rfl rfl

/-- Loop invariant of the loop that collects the remaining times of the placed tasks (the
state does not change). -/
def RemsInv (s0 : SimS) (pref : List TaskId) (rems : List Int) (s : SimS) : Prop :=
  s = s0 ∧ ∀ t ∈ pref, ∀ x r, taskAt s0.graphs t = some x → x.state = .running → x.remaining = some r → r ∈ rems

theorem remsInv_step {s0 s : SimS} {pref : List TaskId} {rems : List Int} (cur : TaskId) (g : GraphS) (x : TaskS) (a : Int)
    (h : RemsInv s0 pref rems s) (hg : s.graphs[cur.g]? = some g) (hx : g.task? cur.t = some x)
    (ha : x.remainingTime = .ok a) : RemsInv s0 (pref ++ [cur]) (rems ++ [a]) s := by
  obtain ⟨rfl, hr⟩ := h
  refine ⟨rfl, ?_⟩
  intro t ht y r hy hs hrem
  rcases List.mem_append.mp ht with h1 | h1
  · exact List.mem_append_left _ (hr t h1 y r hy hs hrem)
  · simp only [List.mem_singleton] at h1
    subst h1
    rw [taskAt_of _ _ g x hg hx] at hy
    cases hy
    simp only [TaskS.remainingTime, hs, hrem] at ha
    cases ha
    simp

/-- The popped event is due now: it was the root of the queue after `__step(head.time - now)`. -/
theorem popped_time (s0 s : SimS) (head e : SEvent) (n dt : Int) (hh : s0.queue[0]? = some head)
    (hdt : dt = head.ev.time - n) (hnow : s.now = n + dt)
    (hroot : ∀ h1, s.queue[0]? = some h1 → some h1.ev.time = (s0.queue[0]?).map (·.ev.time) ∨ h1.ev.time = n + dt)
    (he : s.queue[0]? = some e) : s.now = e.ev.time := by
  rcases hroot e he with h1 | h1
  · rw [hh] at h1
    simp only [Option.map_some, Option.some.injEq] at h1
    omega
  · omega

/-- Precondition of `__step(dt)` after the remaining times were collected. -/
theorem step_pre_of_rems {s0 s : SimS} {rems : List Int} (h0 : AP RunOK [] s0)
    (h : RemsInv s0 (s0.pools.toList.flatMap (fun p => p.placed.map (fun q => ungid q.1))) rems s) (dt : Int)
    (hdt : dt ≤ minRemOf rems) :
    (AP RunOK [] s ∧ s.now = s.now) ∧ DtOK s dt ∧ (s.queue[0]?).map (·.ev.time) = (s.queue[0]?).map (·.ev.time) := by
  obtain ⟨rfl, hr⟩ := h
  exact ⟨⟨h0, rfl⟩, dtOK_of_rems h0 _ _ hr hdt, rfl⟩

theorem step_pre_of_empty {s : SimS} (h0 : AP RunOK [] s) (dt : Int)
    (he : (s.pools.toList.flatMap (fun p => p.placed.map (fun q => ungid q.1))).isEmpty = true) :
    (AP RunOK [] s ∧ s.now = s.now) ∧ DtOK s dt ∧ (s.queue[0]?).map (·.ev.time) = (s.queue[0]?).map (·.ev.time) :=
  ⟨⟨h0, rfl⟩, dtOK_of_empty h0 dt he, rfl⟩

/-- Precondition of `__handle_event` for the popped event. -/
theorem handle_pre {s0 s1 s2 s' : SimS} {rems : List Int} {pref : List TaskId} (head e : SEvent) (q' : Array SEvent)
    (h : RemsInv s0 pref rems s1) (hh : s0.queue[0]? = some head)
    (hs : (AP RunOK [] s2 ∧ s2.now = s1.now + (head.ev.time - s0.now)) ∧
      ∀ h1, s2.queue[0]? = some h1 → some h1.ev.time = (s1.queue[0]?).map (·.ev.time) ∨
        h1.ev.time = s1.now + (head.ev.time - s0.now))
    (hp : Heap.heappop SEvent.lt s2.queue = some (e, q'))
    (hp' : s'.pools = s2.pools) (hg : s'.graphs = s2.graphs) (hn : s'.now = s2.now) (hl : s'.log = s2.log)
    (hq : s'.queue = q') (hfu : s'.future = s2.future) (hns : s'.nextSched = s2.nextSched)
    (hid : s'.nextEid = s2.nextEid) (ha : s'.allGraphs = s2.allGraphs) (hj : s'.jobs = s2.jobs)
    (hlr : s'.loaderReleased = s2.loaderReleased) (hm : s'.metas = s2.metas) :
    AP RunOK [e] s' ∧ s2.now = e.ev.time := by
  obtain ⟨rfl, _⟩ := h
  exact ⟨AP.popped s2 s' e q' hs.1.1 hp hp' hg hn hl hq hfu hns hid ha hj hlr hm,
    popped_time s1 s2 head e s1.now _ hh rfl hs.1.2 hs.2 (popped_root _ _ _ hp)⟩

theorem handle_pre' {s0 s2 s' : SimS} (head e : SEvent) (q' : Array SEvent) (hh : s0.queue[0]? = some head)
    (hs : (AP RunOK [] s2 ∧ s2.now = s0.now + (head.ev.time - s0.now)) ∧
      ∀ h1, s2.queue[0]? = some h1 → some h1.ev.time = (s0.queue[0]?).map (·.ev.time) ∨
        h1.ev.time = s0.now + (head.ev.time - s0.now))
    (hp : Heap.heappop SEvent.lt s2.queue = some (e, q'))
    (hp' : s'.pools = s2.pools) (hg : s'.graphs = s2.graphs) (hn : s'.now = s2.now) (hl : s'.log = s2.log)
    (hq : s'.queue = q') (hfu : s'.future = s2.future) (hns : s'.nextSched = s2.nextSched)
    (hid : s'.nextEid = s2.nextEid) (ha : s'.allGraphs = s2.allGraphs) (hj : s'.jobs = s2.jobs)
    (hlr : s'.loaderReleased = s2.loaderReleased) (hm : s'.metas = s2.metas) :
    AP RunOK [e] s' ∧ s2.now = e.ev.time :=
  ⟨AP.popped s2 s' e q' hs.1.1 hp hp' hg hn hl hq hfu hns hid ha hj hlr hm,
    popped_time s0 s2 head e s0.now _ hh rfl hs.1.2 hs.2 (popped_root _ _ _ hp)⟩

set_option maxHeartbeats 1600000 in
/-- **One iteration of the `while True` loop of `simulate()`.** -/
theorem iter_rspec : ⦃fun s => ⌜AP RunOK [] s⌝⦄ iter ⦃post⟨fun _ s => ⌜AP RunOK [] s⌝, fun _ s => ⌜WInv s⌝⟩⦄ := by
  have h_step := fun n dt T => step_rspec n dt T
  have h_he := fun n ex ev hev he => handleEvent_rspec n ex ev hev he
  rmvcgen [iter]
  split
  · rmvcgen [placedTasks, getTask, getGraph, liftE, popEvent, h_step, h_he]
    case inv1 =>
      rename_i s0 _ _ _ _ _
      exact post⟨fun p s => ⌜RemsInv s0 p.1.prefix p.2 s⌝, fun _ s => ⌜WInv s⌝⟩
    all_goals first
      | exact ExceptConds.entails.refl _
      | exact ⟨rfl, fun _ hm => by cases hm⟩
      | exact List.mem_singleton.mpr rfl
      | (intro h _; exact AP.forget h)
      | (have h := ‹RemsInv _ _ _ _›
         exact remsInv_step _ _ _ _ h ‹_› ‹_› ‹_›)
      | (have h := ‹RemsInv _ _ _ _›
         have h0 := ‹AP RunOK [] _›
         obtain ⟨rfl, _⟩ := h
         exact AP.weak h0)
      | (have h := ‹RemsInv _ _ _ _›
         have h0 := ‹AP RunOK [] _›
         exact step_pre_of_rems h0 h _ (Int.le_refl _))
      | (have h := ‹RemsInv _ _ _ _›
         have h0 := ‹AP RunOK [] _›
         exact step_pre_of_rems h0 h _ (Int.not_lt.mp ‹¬ _ < _›))
      | (have h0 := ‹AP RunOK [] _›
         exact step_pre_of_empty h0 _ (by rs_hyps h1 => simpa using h1))
      | (have hs := ‹(AP RunOK [] _ ∧ _) ∧ _›
         exact hs.1.1)
      | (have hs := ‹(AP RunOK [] _ ∧ _) ∧ _›
         exact AP.weak hs.1.1)
      | (have h := ‹RemsInv _ _ _ _›
         have hs := ‹(AP RunOK [] _ ∧ _) ∧ _›
         have hp := ‹Heap.heappop _ _ = some _›
         exact handle_pre _ _ _ h ‹_› hs hp rfl rfl rfl rfl rfl rfl rfl rfl rfl rfl rfl rfl)
      | (have hs := ‹(AP RunOK [] _ ∧ _) ∧ _›
         have hp := ‹Heap.heappop _ _ = some _›
         exact handle_pre' _ _ _ ‹_› hs hp rfl rfl rfl rfl rfl rfl rfl rfl rfl rfl rfl rfl)
      | skip
  · mvcgen
    all_goals first
      | (rs_hyps h => exact AP.weak h)


/-- The constructor: rows, the first utilisation log, the three initial events. -/
theorem init_rspec (n : Int) : KeepsR n [] init := by
  have h_row := row_rspec n []
  have h_util := logUtilization_rspec n []
  have h_mk := mkEvent_rspec n []
  have h_add := addEvent_rspec n []
  rmvcgen [init, h_row, h_util, h_mk, h_add]
  case inv1 => exact loopR n []
  all_goals first
    | frame_close
    | etype_close
    | (intro s _ _ h3 _ _; rw [h3]; decide)
    | (rs_hyps h => exact h.1)

/-- `simulate()` cut after at most `k` iterations of its loop; returns whether the loop ended
(SIMULATOR_END was handled). The states it returns in are exactly the states at the loop head. -/
def runK : Nat → SimM Bool
  | 0 => pure false
  | k + 1 => do
    if ← iter then pure true
    else runK k

theorem runK_rspec (k : Nat) :
    ⦃fun s => ⌜AP RunOK [] s⌝⦄ runK k ⦃post⟨fun _ s => ⌜AP RunOK [] s⌝, fun _ s => ⌜WInv s⌝⟩⦄ := by
  induction k with
  | zero => rmvcgen [runK]
  | succ k ih =>
    rmvcgen [runK, ih, iter_rspec]

theorem run_rspec (k : Nat) :
    ⦃fun s => ⌜AP RunOK [] s⌝⦄ run k ⦃post⟨fun _ s => ⌜AP RunOK [] s⌝, fun _ s => ⌜WInv s⌝⟩⦄ := by
  induction k with
  | zero =>
    rmvcgen [run]
    rs_hyps h => exact AP.weak h
  | succ k ih =>
    rmvcgen [run, ih, iter_rspec]

theorem whole_rspec (fuel : Nat) :
    ⦃fun s => ⌜AP RunOK [] s⌝⦄ (do init; run fuel) ⦃post⟨fun _ s => ⌜AP RunOK [] s⌝, fun _ s => ⌜WInv s⌝⟩⦄ := by
  have h_init := fun n => init_rspec n
  have h_run := run_rspec fuel
  rmvcgen [h_init, h_run]
  all_goals first
    | (rs_hyps h => exact h.1)
    | (rs_hyps h => exact ⟨h, rfl⟩)

theorem wholeK_rspec (k : Nat) :
    ⦃fun s => ⌜AP RunOK [] s⌝⦄ (do init; runK k) ⦃post⟨fun _ s => ⌜AP RunOK [] s⌝, fun _ s => ⌜WInv s⌝⟩⦄ := by
  have h_init := fun n => init_rspec n
  have h_run := runK_rspec k
  rmvcgen [h_init, h_run]
  all_goals first
    | (rs_hyps h => exact h.1)
    | (rs_hyps h => exact ⟨h, rfl⟩)

/-- `Q` of the result and final state when the computation returned, `W` of the state at the
raise point when it raised. -/
def HoldsAfter {α} (Q : α → SimS → Prop) (W : SimS → Prop) : Except SErr α × SimS → Prop
  | (.ok a, s) => Q a s
  | (.error _, s) => W s

/-- Adequacy: what a triple says about the concrete run. -/
theorem triple_run {α} (x : SimM α) (P : SimS → Prop) (Q : α → SimS → Prop) (W : SimS → Prop)
    (hk : ⦃fun s => ⌜P s⌝⦄ x ⦃post⟨fun a s => ⌜Q a s⌝, fun _ s => ⌜W s⌝⟩⦄) (s0 : SimS) (h : P s0) :
    HoldsAfter Q W ((ExceptT.run x).run s0) := by
  have := hk s0 h
  simp only [wp, PredTrans.apply_pushExcept, PredTrans.apply_pushArg, Id.run] at this
  revert this
  cases (StateT.run (ExceptT.run x) s0) with
  | mk r s => cases r <;> (intro h; exact h)

/-- **The residency and exact-runtime invariant holds when a simulation ends normally**
(SIMULATOR_END was handled), for every world, every scheduler (decision tape), every draw
tape and every fuel. -/
theorem simulate_strong (s0 : SimS) (fuel : Nat) (h : AP RunOK [] s0) (hok : (simulate s0 fuel).1 = none) :
    AP RunOK [] (simulate s0 fuel).2 := by
  have := triple_run _ _ _ _ (whole_rspec fuel) s0 h
  unfold simulate at hok ⊢
  revert this hok
  cases (StateT.run (ExceptT.run (do init; run fuel)) s0) with
  | mk r s =>
    cases r with
    | ok a => intro _ h; exact h
    | error e => intro hok _; simp at hok

/-- **The weak invariant (single residency, RUNNING ⇒ resident, the log property) holds in
the state a simulation is in after the constructor and any number of loop iterations, however
it ends — normally, out of fuel, or aborted by an exception.** -/
theorem simulate_weak (s0 : SimS) (fuel : Nat) (h : AP RunOK [] s0) : WInv (simulate s0 fuel).2 := by
  have := triple_run _ _ _ _ (whole_rspec fuel) s0 h
  unfold simulate
  revert this
  cases (StateT.run (ExceptT.run (do init; run fuel)) s0) with
  | mk r s =>
    cases r with
    | ok a => intro h; exact AP.weak h
    | error e => intro h; exact h

/-- **The full invariant holds at the head of the `simulate()` loop after any number `k` of
completed iterations** (the normally reached states). -/
theorem loop_head_strong (s0 : SimS) (k : Nat) (h : AP RunOK [] s0) :
    HoldsAfter (fun _ s => AP RunOK [] s) WInv ((ExceptT.run (do init; runK k : SimM Bool)).run s0) :=
  triple_run (do init; runK k : SimM Bool) _ _ _ (wholeK_rspec k) s0 h

end ErdosVerif.Model.Sim
