import ErdosVerif.Lemmas.SimResidentDefs
import ErdosVerif.Lemmas.GraphInv
/-!
`TaskGraph.cancel` and `TaskGraph.notify_task_completion` never touch a RUNNING task
and never make a task RUNNING (`RFrame`). Core Lean only.
-/
namespace ErdosVerif.Model
namespace GraphS

/-- Every task's `_pre_scheduling_state` is VIRTUAL or RELEASED. -/
def AllPre (g : GraphS) : Prop := ∀ n x, g.task? n = some x → x.PreOK

theorem AllPre.frame {g g' : GraphS} (h : g.AllPre) (hf : RFrame g g') : g'.AllPre := by
  intro n x' hx'
  have hlt : n < g.tasks.size := by rw [← hf.size]; exact task?_lt g' n x' hx'
  have hx : g.task? n = some g.tasks[n] := by simp only [task?]; exact Array.getElem?_eq_getElem hlt
  obtain ⟨y, hy, r⟩ := hf.rel n _ hx
  rw [hx'] at hy
  cases hy
  rcases r with r | r
  · rw [r]; exact h n _ hx
  · exact r.2.2.1

theorem rframe_cancel_go (root : Nat) (time : Int) :
    ∀ (fuel : Nat) (g : GraphS) (stack visited acc : List Nat), g.AllPre →
      RFrame g (cancel.go root time fuel g stack visited acc).g := by
  intro fuel
  induction fuel with
  | zero => intro g stack visited acc _; simpa [cancel.go] using RFrame.refl g
  | succ fuel ih =>
    intro g stack visited acc h
    cases stack with
    | nil => simpa [cancel.go] using RFrame.refl g
    | cons c stack =>
      simp only [cancel.go]
      split
      · exact ih g stack visited acc h
      · cases htc : g.task? c with
        | none => simpa using RFrame.refl g
        | some tc =>
          simp only []
          split
          · exact ih g stack visited acc h
          · split
            · exact ih g stack (c :: visited) acc h
            · have hr := call_TR tc (.cancel time) (h c tc htc) rfl
              have hf := RFrame.setTask g c tc _ htc hr
              simp only [TaskS.call] at hf
              cases hdc : tc.doCancel time with
              | mk t' e =>
                rw [hdc] at hf
                cases e with
                | some e => exact hf
                | none => exact hf.trans (ih _ _ _ _ (h.frame hf))

theorem rframe_cancel (g : GraphS) (n : Nat) (time : Int) (h : g.AllPre) : RFrame g (g.cancel n time).g := by
  unfold cancel; exact rframe_cancel_go n time _ g [n] [] [] h

theorem rframe_cancelBranches (finish : Int) (skip : Option Nat) :
    ∀ (kids : List Nat) (g : GraphS) (acc : List Nat), g.AllPre →
      (∀ c x, skip = some c → g.task? c = some x → x.state ≠ .running) →
      RFrame g (cancelBranches g finish skip kids acc).1 := by
  intro kids
  induction kids with
  | nil => intro g acc _ _; simpa [cancelBranches] using RFrame.refl g
  | cons c rest ih =>
    intro g acc h hs
    -- the skipped task stays not RUNNING along an `RFrame` step
    have keep : ∀ g', RFrame g g' → ∀ c x, skip = some c → g'.task? c = some x → x.state ≠ .running := by
      intro g' hf c' x' hc' hx'
      have hlt : c' < g.tasks.size := by rw [← hf.size]; exact task?_lt g' c' x' hx'
      have hx : g.task? c' = some g.tasks[c'] := by simp only [task?]; exact Array.getElem?_eq_getElem hlt
      obtain ⟨y, hy, r⟩ := hf.rel c' _ hx
      rw [hx'] at hy
      cases hy
      rcases r with r | r
      · rw [r]; exact hs c' _ hc' hx
      · exact r.2.1
    simp only [cancelBranches]
    split
    · rename_i hsk
      have hsk' : skip = some c := by
        cases skip with
        | none => simp at hsk
        | some k => simp at hsk; rw [hsk]
      cases htc : g.task? c with
      | none => exact ih g acc h hs
      | some tc =>
        simp only []
        have hnr := hs c tc hsk' htc
        have hr : TR tc { tc with prob := 1000 } :=
          Or.inr ⟨hnr, hnr, h c tc htc, fun hc => by simpa [TaskS.isComplete] using hc⟩
        have hf := RFrame.setTask g c tc _ htc hr
        exact hf.trans (ih _ acc (h.frame hf) (keep _ hf))
    · have hf := rframe_cancel g c finish h
      cases he : (g.cancel c finish).err with
      | some e => simpa [he] using hf
      | none => simp only [he]; exact hf.trans (ih _ _ (h.frame hf) (keep _ hf))

theorem rframe_notifyCompletion (g : GraphS) (n : Nat) (finish : Int) (tape : List Draw) (h : g.AllPre) :
    RFrame g (g.notifyCompletion n finish tape).g := by
  unfold notifyCompletion
  cases g.task? n with
  | none => exact RFrame.refl g
  | some t =>
    simp only []
    split
    · exact RFrame.refl g
    · split
      · split
        · have := rframe_cancelBranches finish none (g.kids n) g [] h (fun c x hc => by cases hc)
          revert this
          cases cancelBranches g finish none (g.kids n) [] with
          | mk g' r => obtain ⟨a, b⟩ := r; intro hh; exact hh
        · split
          · exact RFrame.refl g
          · cases tape with
            | nil => exact RFrame.refl g
            | cons d tape' =>
              cases d with
              | choices i =>
                simp only []
                cases hk : (g.kids n)[i]? with
                | none => exact RFrame.refl g
                | some chosen =>
                  simp only []
                  split
                  · exact RFrame.refl g
                  · rename_i hcs
                    have hnr : ∀ c x, some chosen = some c → g.task? c = some x → x.state ≠ .running := by
                      intro c x hc hx
                      cases hc
                      intro hrun
                      apply hcs
                      simp [stateOf, hx, hrun, TState.val]
                    have := rframe_cancelBranches finish (some chosen) (g.kids n) g [] h hnr
                    revert this
                    cases cancelBranches g finish (some chosen) (g.kids n) [] with
                    | mk g' r =>
                      obtain ⟨a, b⟩ := r
                      intro hh
                      cases b <;> exact hh
              | choice i => exact RFrame.refl g
              | coin b => exact RFrame.refl g
              | fuzz v => exact RFrame.refl g
      · rw [ginv_notify_go]; exact RFrame.refl g

end GraphS
end ErdosVerif.Model
