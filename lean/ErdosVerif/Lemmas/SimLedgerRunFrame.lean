import ErdosVerif.Lemmas.SimResidentSpec
/-!
Frame specifications (`Std.Do` Hoare triples): every function of the simulator model that does
not write `s.pools` keeps any predicate `Q` of the pool array — when it returns and where it
raises. Used to carry the ledger / residency invariant `LI` through the handlers that never
touch a worker.
-/
open Std.Do
set_option mvcgen.warning false

namespace ErdosVerif.Model.Sim

abbrev PFA (Q : Array Pool → Prop) : Assertion (.except SErr (.arg SimS .pure)) := fun s => ⌜Q s.pools⌝

/-- `x` keeps every property of the pool array (return and raise). -/
abbrev PF {α} (Q : Array Pool → Prop) (x : SimM α) : Prop := ⦃PFA Q⦄ x ⦃post⟨fun _ => PFA Q, fun _ => PFA Q⟩⦄

abbrev loopPF {β} (Q : Array Pool → Prop) : PostCond β (.except SErr (.arg SimS .pure)) :=
  post⟨fun _ s => ⌜Q s.pools⌝, fun _ s => ⌜Q s.pools⌝⟩

macro "pf_close" : tactic => `(tactic| first
  | assumption
  | exact ExceptConds.entails.refl _
  | (intro s h; exact h)
  | (rs_hyps h => exact h)
  | (rs_hyps h => exact h.1))

section
variable (Q : Array Pool → Prop)

theorem row_pf (r : Row) : PF Q (row r) := by
  rmvcgen [row]
  all_goals pf_close
theorem logE_pf (e : LogE) : PF Q (logE e) := by
  rmvcgen [logE]
  all_goals pf_close
theorem liftE_pf {α} (e : Except SErr α) : PF Q (liftE e) := by
  unfold liftE; cases e <;> mvcgen
  all_goals pf_close
theorem liftTape_pf {α} (x : TapeM α) : PF Q (liftTape x) := by
  have h := @liftE_pf Q
  rmvcgen [liftTape, h]
  all_goals pf_close
theorem getGraph_pf (gi : Nat) : PF Q (getGraph gi) := by
  rmvcgen [getGraph]
  all_goals pf_close
theorem setGraph_pf (gi : Nat) (g : GraphS) : PF Q (setGraph gi g) := by
  rmvcgen [setGraph]
  all_goals pf_close
theorem getTask_pf (t : TaskId) : PF Q (getTask t) := by
  rmvcgen [getTask, getGraph]
  all_goals pf_close
theorem uniqueName_pf (t : TaskId) : PF Q (uniqueName t) := by
  rmvcgen [uniqueName, getTask, getGraph]
  all_goals pf_close
theorem raiseTask_pf (e : Option SErr) : PF Q (raiseTask e) := by
  unfold raiseTask; cases e <;> mvcgen
  all_goals pf_close
theorem taskCall_pf (t : TaskId) (c : TaskCall) : PF Q (taskCall t c) := by
  have h := raiseTask_pf Q
  rmvcgen [taskCall, getGraph, setGraph, h]
  all_goals pf_close
theorem mkEvent_pf (a : Nat) (b : Int) (c : Option TaskId) (d : Option PlacementS) (e : Option Nat) :
    PF Q (mkEvent a b c d e) := by
  rmvcgen [mkEvent, uniqueName, getTask, getGraph]
  all_goals pf_close
theorem addEvent_pf (e : SEvent) : PF Q (addEvent e) := by
  rmvcgen [addEvent]
  all_goals pf_close
theorem reheapify_pf : PF Q reheapify := by
  rmvcgen [reheapify]
  all_goals pf_close
theorem removeEvent_pf (eid : Nat) : PF Q (removeEvent eid) := by
  rmvcgen [removeEvent]
  all_goals pf_close
theorem editEvent_pf (eid : Nat) (f : SEvent → SEvent) : PF Q (editEvent eid f) := by
  rmvcgen [editEvent]
  all_goals pf_close
theorem findEvent_pf (eid : Nat) : PF Q (findEvent eid) := by
  rmvcgen [findEvent]
  all_goals pf_close
theorem nextOfType_pf (ty : Nat) : PF Q (nextOfType ty) := by
  rmvcgen [nextOfType]
  all_goals pf_close
theorem placedTasks_pf : PF Q placedTasks := by
  rmvcgen [placedTasks]
  all_goals pf_close
theorem popEvent_pf : PF Q popEvent := by
  rmvcgen [popEvent]
  all_goals pf_close
theorem getPool_pf (p : Nat) : PF Q (getPool p) := by
  rmvcgen [getPool]
  all_goals pf_close
theorem raiseOutcome_pf (o : Outcome) : PF Q (raiseOutcome o) := by
  unfold raiseOutcome
  cases o with
  | ok => mvcgen; all_goals pf_close
  | raised e => cases e <;> mvcgen <;> pf_close
theorem startTask_pf (t : TaskId) (g : GraphS) (h : g.isReadyToRun t.t = true) (time fuzzed : Int) :
    PF Q (startTask t g h time fuzzed) := by
  have h1 := raiseTask_pf Q
  rmvcgen [startTask, setGraph, h1]
  all_goals pf_close
theorem advanceClock_pf (dt : Int) : PF Q (advanceClock dt) := by
  rmvcgen [advanceClock]
  all_goals pf_close

end

-- Brings the frame specifications of the primitives into the context (fixed names).
set_option hygiene false in
macro "pf_prims " q:term : tactic => `(tactic|
  (have h_row := row_pf $q
   have h_logE := logE_pf $q
   have h_liftE := fun {α : Type} (e : Except SErr α) => liftE_pf $q e
   have h_liftTape := fun {α : Type} (x : TapeM α) => liftTape_pf $q x
   have h_getGraph := getGraph_pf $q
   have h_setGraph := setGraph_pf $q
   have h_getTask := getTask_pf $q
   have h_uniqueName := uniqueName_pf $q
   have h_raiseTask := raiseTask_pf $q
   have h_taskCall := taskCall_pf $q
   have h_mkEvent := mkEvent_pf $q
   have h_addEvent := addEvent_pf $q
   have h_reheapify := reheapify_pf $q
   have h_removeEvent := removeEvent_pf $q
   have h_editEvent := editEvent_pf $q
   have h_findEvent := findEvent_pf $q
   have h_nextOfType := nextOfType_pf $q
   have h_placedTasks := placedTasks_pf $q
   have h_getPool := getPool_pf $q))

set_option hygiene false in
macro "pfgen" " [" ts:term,* "]" : tactic => `(tactic|
  rmvcgen [$ts,*, h_row, h_logE, h_liftE, h_liftTape, h_getGraph, h_setGraph, h_getTask, h_uniqueName, h_raiseTask,
    h_taskCall, h_mkEvent, h_addEvent, h_reheapify, h_removeEvent, h_editEvent, h_findEvent, h_nextOfType,
    h_placedTasks, h_getPool])

section
variable (Q : Array Pool → Prop)

theorem logUtilization_pf (time : Int) : PF Q (logUtilization time) := by
  pf_prims Q
  pfgen [logUtilization]
  all_goals first | exact loopPF Q | pf_close

theorem schedulable_pf (time : Int) : PF Q (schedulable time) := by
  pf_prims Q
  pfgen [schedulable]
  all_goals first | exact loopPF Q | pf_close

theorem releasable_pf : PF Q releasable := by
  rmvcgen [releasable]
  all_goals pf_close

theorem notifyGraphCompletion_pf (gi : Nat) (finish : Int) : PF Q (notifyGraphCompletion gi finish) := by
  pf_prims Q
  pfgen [notifyGraphCompletion]
  all_goals first | exact loopPF Q | pf_close

theorem placementSkip_pf (time : Int) (p : PlacementS) (drop : Bool) : PF Q (placementSkip time p drop) := by
  pf_prims Q
  have h_ngc := notifyGraphCompletion_pf Q
  pfgen [placementSkip, h_ngc]
  all_goals first | exact loopPF Q | pf_close

theorem placementEvents_pf (time : Int) (p : PlacementS) : PF Q (placementEvents time p) := by
  pf_prims Q
  have h_skip := placementSkip_pf Q
  pfgen [placementEvents, h_skip]
  all_goals first | exact loopPF Q | pf_close

theorem nextSchedulerEvent_pf (evTime : Int) : PF Q (nextSchedulerEvent evTime) := by
  pf_prims Q
  have h_sched := schedulable_pf Q
  pfgen [nextSchedulerEvent, h_sched]
  all_goals first | exact loopPF Q | pf_close

theorem handleSchedulerStart_pf (ev : SEvent) : PF Q (handleSchedulerStart ev) := by
  pf_prims Q
  have h_sched := schedulable_pf Q
  have h_util := logUtilization_pf Q
  pfgen [handleSchedulerStart, h_sched, h_util]
  all_goals first | exact loopPF Q | pf_close

theorem handleSchedulerFinish_pf (ev : SEvent) : PF Q (handleSchedulerFinish ev) := by
  pf_prims Q
  have h_skip := placementSkip_pf Q
  have h_pe := placementEvents_pf Q
  have h_nse := nextSchedulerEvent_pf Q
  pfgen [handleSchedulerFinish, h_skip, h_pe, h_nse]
  all_goals first | exact loopPF Q | pf_close

theorem handleTaskCancel_pf (ev : SEvent) : PF Q (handleTaskCancel ev) := by
  pf_prims Q
  pfgen [handleTaskCancel]
  all_goals first | exact loopPF Q | pf_close

theorem handleTaskRelease_pf (ev : SEvent) : PF Q (handleTaskRelease ev) := by
  pf_prims Q
  pfgen [handleTaskRelease]
  all_goals first | exact loopPF Q | pf_close

theorem handleUpdateWorkload_pf (ev : SEvent) : PF Q (handleUpdateWorkload ev) := by
  pf_prims Q
  have h_rel := releasable_pf Q
  pfgen [handleUpdateWorkload, h_rel]
  all_goals first | exact loopPF Q | pf_close

theorem handleTaskGraphRelease_pf (ev : SEvent) : PF Q (handleTaskGraphRelease ev) := by
  pf_prims Q
  pfgen [handleTaskGraphRelease]
  all_goals first | exact loopPF Q | pf_close

theorem finishRows_pf (t : TaskId) (time : Int) : PF Q (finishRows t time) := by
  pf_prims Q
  pfgen [finishRows]
  all_goals first | exact loopPF Q | pf_close

theorem finishNotify_pf (t : TaskId) (time : Int) : PF Q (finishNotify t time) := by
  pf_prims Q
  have h_ngc := notifyGraphCompletion_pf Q
  pfgen [finishNotify, h_ngc]
  all_goals first | exact loopPF Q | pf_close

theorem placementNotReady_pf (ev : SEvent) (t : TaskId) (p : PlacementS) : PF Q (placementNotReady ev t p) := by
  pf_prims Q
  pfgen [placementNotReady]
  all_goals first | exact loopPF Q | pf_close

theorem init_pf : PF Q init := by
  pf_prims Q
  have h_util := logUtilization_pf Q
  pfgen [init, h_util]
  all_goals first | exact loopPF Q | pf_close

end
end ErdosVerif.Model.Sim
