/-
Correctness of the `topological_sort` model (`Model/Graph.lean`, `visit`, `passStep`,
`topoWhile`, `topologicalSort`) on well-formed graphs:

* `topo_ok`         : an `.ok l` result is a permutation of the nodes in which every
                      edge goes forward;
* `topo_error`      : an `.error e` result is `"RuntimeError"` and the graph has a cycle
                      (so no `"OutOfFuel"`, `"KeyError"`, `"ValueError"`);
* `topo_ok_acyclic` : an `.ok` result certifies acyclicity;
* `topo_total`      : on acyclic graphs the function returns `.ok`.

Core Lean only.
-/
import ErdosVerif.Lemmas.GraphBasic

namespace ErdosVerif.Model.Graph

/-! ### `idxOf` / `Before` helpers (reusable) -/

/-- Position of `a` in the reversed list, for lists without duplicates. -/
theorem idxOf_reverse_of_nodup {l : List Nat} (hn : l.Nodup) {a : Nat} (ha : a ∈ l) :
    l.reverse.idxOf a + l.idxOf a + 1 = l.length := by
  induction l with
  | nil => simp at ha
  | cons x xs ih =>
    simp only [List.nodup_cons] at hn
    rw [List.reverse_cons, List.idxOf_append]
    by_cases hax : a = x
    · subst hax
      have h1 : a ∉ xs.reverse := by simpa using hn.1
      simp [h1, List.idxOf_cons_self]
    · have hm : a ∈ xs := by simpa [hax] using ha
      have h1 : a ∈ xs.reverse := by simpa using hm
      have hxa : (x == a) = false := by simp; exact fun e => hax e.symm
      have := ih hn.2 hm
      simp only [h1, if_true, List.idxOf_cons, hxa, cond_false, List.length_cons]
      omega

/-- Reversing a duplicate-free list reverses the order of first occurrences. -/
theorem before_reverse_of_nodup {l : List Nat} (hn : l.Nodup) {u v : Nat} (hu : u ∈ l) (hv : v ∈ l)
    (h : l.idxOf v < l.idxOf u) : Before l.reverse u v := by
  have h1 := idxOf_reverse_of_nodup hn hu
  have h2 := idxOf_reverse_of_nodup hn hv
  unfold Before
  omega

theorem Before.trans {l : List Nat} {a b c : Nat} (h₁ : Before l a b) (h₂ : Before l b c) :
    Before l a c := by
  unfold Before at *; omega

theorem Before.irrefl {l : List Nat} {a : Nat} : ¬ Before l a a := by
  unfold Before; omega

/-- If every edge goes forward in `l`, then so does every non-trivial path. -/
theorem Reach.eq_or_before {g : Graph} {l : List Nat} (hl : ∀ u v, g.Edge u v → Before l u v)
    {a b : Nat} (h : g.Reach a b) : a = b ∨ Before l a b := by
  induction h with
  | refl => exact .inl rfl
  | head e _ ih =>
    rcases ih with rfl | ih
    · exact .inr (hl _ _ e)
    · exact .inr ((hl _ _ e).trans ih)

/-- A list in which every edge goes forward certifies acyclicity. -/
theorem acyclic_of_before {g : Graph} {l : List Nat} (hl : ∀ u v, g.Edge u v → Before l u v) :
    g.Acyclic := by
  rintro ⟨u, v, e, r⟩
  have h1 := hl u v e
  rcases Reach.eq_or_before hl r with rfl | h2
  · exact Before.irrefl h1
  · exact Before.irrefl (h1.trans h2)

/-- Strict monotonicity of `countP`. -/
theorem countP_lt_of_imp {l : List Nat} {p q : Nat → Bool} (h : ∀ x ∈ l, p x = true → q x = true)
    {a : Nat} (ha : a ∈ l) (hq : q a = true) (hp : p a = false) : l.countP p < l.countP q := by
  induction l with
  | nil => simp at ha
  | cons x xs ih =>
    rw [List.countP_cons, List.countP_cons]
    rcases List.mem_cons.mp ha with rfl | ha'
    · have := List.countP_mono_left (l := xs) (fun y hy => h y (List.mem_cons_of_mem _ hy))
      simp only [hq, hp, if_true]
      simp
      omega
    · have := ih (fun y hy => h y (List.mem_cons_of_mem _ hy)) ha'
      have hx := h x (List.mem_cons_self ..)
      cases hpx : p x with
      | true => simp only [hx hpx, if_true]; omega
      | false => cases hqx : q x <;> simp <;> omega

/-! ### Invariant of the marking state -/

/-- `t` reaches `n` along at least one edge. -/
def ReachPlus (g : Graph) (t n : Nat) : Prop := ∃ m, g.Edge t m ∧ g.Reach m n

theorem ReachPlus.hasCycle {g : Graph} {n : Nat} (h : g.ReachPlus n n) : g.HasCycle := by
  obtain ⟨m, e, r⟩ := h
  exact ⟨n, m, e, r⟩

theorem ReachPlus.tail {g : Graph} {t n c : Nat} (h : g.ReachPlus t n) (e : g.Edge n c) :
    g.ReachPlus t c := by
  obtain ⟨m, e', r⟩ := h
  exact ⟨m, e', r.tail e⟩

/-- Invariant of `topological_sort`'s local state: `node_marks` has exactly the
nodes as keys, the output has no duplicates and consists of the permanent nodes,
and the children of an output node were output earlier. -/
structure TopoInv (g : Graph) (st : TopoState) : Prop where
  keys : st.marks.map Prod.fst = g.getNodes
  nodup : st.out.Nodup
  perm : ∀ n, n ∈ st.out ↔ List.lookup n st.marks = some .permanent
  order : ∀ u v, u ∈ st.out → g.Edge u v → v ∈ st.out ∧ st.out.idxOf v < st.out.idxOf u

/-- Marks only move `unmarked → permanent` between `st` and `st'`. -/
def TopoMono (st st' : TopoState) : Prop :=
  ∀ m, List.lookup m st'.marks = List.lookup m st.marks ∨
    (List.lookup m st.marks = some .unmarked ∧ List.lookup m st'.marks = some .permanent)

theorem TopoMono.refl (st : TopoState) : TopoMono st st := fun _ => .inl rfl

theorem TopoMono.trans {a b c : TopoState} (h₁ : TopoMono a b) (h₂ : TopoMono b c) :
    TopoMono a c := by
  intro m
  rcases h₁ m with e1 | ⟨u1, p1⟩ <;> rcases h₂ m with e2 | ⟨u2, p2⟩
  · exact .inl (e2.trans e1)
  · exact .inr ⟨e1 ▸ u2, p2⟩
  · exact .inr ⟨u1, e2.trans p1⟩
  · rw [p1] at u2; cases u2

theorem TopoMono.permanent {a b : TopoState} (h : TopoMono a b) {m : Nat}
    (hm : List.lookup m a.marks = some .permanent) : List.lookup m b.marks = some .permanent := by
  rcases h m with e | ⟨u, _⟩
  · exact e.trans hm
  · rw [hm] at u; cases u

theorem TopoMono.temporary_of {a b : TopoState} (h : TopoMono a b) {m : Nat}
    (hm : List.lookup m b.marks = some .temporary) : List.lookup m a.marks = some .temporary := by
  rcases h m with e | ⟨_, p⟩
  · exact e.symm.trans hm
  · rw [hm] at p; cases p

theorem TopoMono.temporary {a b : TopoState} (h : TopoMono a b) {m : Nat}
    (hm : List.lookup m a.marks = some .temporary) : List.lookup m b.marks = some .temporary := by
  rcases h m with e | ⟨u, _⟩
  · exact e.trans hm
  · rw [hm] at u; cases u

theorem TopoMono.unmarked_of {a b : TopoState} (h : TopoMono a b) {m : Nat}
    (hm : List.lookup m b.marks = some .unmarked) : List.lookup m a.marks = some .unmarked := by
  rcases h m with e | ⟨_, p⟩
  · exact e.symm.trans hm
  · rw [hm] at p; cases p

/-- Number of unmarked nodes: the recursion measure of `visit`. -/
def unmarkedCount (g : Graph) (st : TopoState) : Nat :=
  g.getNodes.countP (fun m => decide (List.lookup m st.marks = some .unmarked))

theorem unmarkedCount_le_size (g : Graph) (st : TopoState) : unmarkedCount g st ≤ g.size := by
  unfold unmarkedCount Graph.size
  have := List.countP_le_length (l := g.getNodes)
    (p := fun m => decide (List.lookup m st.marks = some .unmarked))
  simpa [Graph.getNodes] using this

theorem TopoMono.unmarkedCount_le {g : Graph} {a b : TopoState} (h : TopoMono a b) :
    unmarkedCount g b ≤ unmarkedCount g a := by
  unfold unmarkedCount
  apply List.countP_mono_left
  intro x _ hx
  simp only [decide_eq_true_eq] at hx ⊢
  exact h.unmarked_of hx

/-- Marking an unmarked node temporary strictly decreases the measure. -/
theorem unmarkedCount_setTemp {g : Graph} {st : TopoState} {n : Nat} (hn : n ∈ g.getNodes)
    (hm : List.lookup n st.marks = some .unmarked) :
    unmarkedCount g { marks := Dict.set st.marks n .temporary, out := st.out } <
      unmarkedCount g st := by
  unfold unmarkedCount
  apply countP_lt_of_imp (a := n) _ hn
  · simpa using hm
  · simp [Dict.lookup_set_self]
  · intro x _ hx
    simp only [decide_eq_true_eq] at hx ⊢
    by_cases hxn : x = n
    · subst hxn; simp [Dict.lookup_set_self] at hx
    · rwa [Dict.lookup_set_ne _ _ hxn] at hx

/-- `node_marks[n] = "Temporary"` keeps the invariant. -/
theorem TopoInv.setTemp {g : Graph} {st : TopoState} (hI : TopoInv g st) {n : Nat}
    (hm : List.lookup n st.marks = some .unmarked) :
    TopoInv g { marks := Dict.set st.marks n .temporary, out := st.out } where
  keys := by
    show (Dict.set st.marks n .temporary).map Prod.fst = g.getNodes
    rw [Dict.keys_set, hm]; simpa using hI.keys
  nodup := hI.nodup
  perm := by
    intro m
    show m ∈ st.out ↔ List.lookup m (Dict.set st.marks n .temporary) = some .permanent
    by_cases hmn : m = n
    · subst hmn
      rw [Dict.lookup_set_self, hI.perm, hm]; simp
    · rw [Dict.lookup_set_ne _ _ hmn]; exact hI.perm m
  order := hI.order

/-- `node_marks[n] = "Permanent"; topological_sort.append(n)` keeps the invariant
once every child of `n` is permanent. -/
theorem TopoInv.finish {g : Graph} {st : TopoState} (hI : TopoInv g st) {n : Nat}
    (hm : List.lookup n st.marks = some .temporary)
    (hc : ∀ c, g.Edge n c → List.lookup c st.marks = some .permanent) :
    TopoInv g { marks := Dict.set st.marks n .permanent, out := st.out ++ [n] } := by
  have hn : n ∉ st.out := by rw [hI.perm, hm]; simp
  refine ⟨?_, ?_, ?_, ?_⟩
  · show (Dict.set st.marks n .permanent).map Prod.fst = g.getNodes
    rw [Dict.keys_set, hm]; simpa using hI.keys
  · show (st.out ++ [n]).Nodup
    rw [List.nodup_append]
    refine ⟨hI.nodup, by simp, ?_⟩
    intro a ha b hb
    simp only [List.mem_singleton] at hb
    subst hb
    exact fun e => hn (e ▸ ha)
  · intro m
    show m ∈ st.out ++ [n] ↔ List.lookup m (Dict.set st.marks n .permanent) = some .permanent
    by_cases hmn : m = n
    · subst hmn; simp [Dict.lookup_set_self]
    · rw [Dict.lookup_set_ne _ _ hmn, ← hI.perm]; simp [hmn]
  · intro u v hu e
    show v ∈ st.out ++ [n] ∧ (st.out ++ [n]).idxOf v < (st.out ++ [n]).idxOf u
    rcases List.mem_append.mp hu with hu | hu
    · obtain ⟨hv, hlt⟩ := hI.order u v hu e
      refine ⟨List.mem_append_left _ hv, ?_⟩
      rw [List.idxOf_append, List.idxOf_append]
      simpa [hu, hv] using hlt
    · simp only [List.mem_singleton] at hu
      subst hu
      have hv : v ∈ st.out := (hI.perm v).mpr (hc v e)
      refine ⟨List.mem_append_left _ hv, ?_⟩
      rw [List.idxOf_append, List.idxOf_append]
      simp only [hv, hn, if_true, if_false, List.idxOf_cons_self]
      have := List.idxOf_lt_length_of_mem hv
      omega

/-! ### Generic specification of a `foldE` over nodes -/

/-- `foldE f cs` where every step keeps a state property `P`, only moves marks
forward and makes its node permanent; errors satisfy `R`.  `Q n st` is the
precondition of the step on `n`, stable under `TopoMono`. -/
theorem foldE_topo_spec (f : Nat → TopoState → Except String TopoState)
    (P : TopoState → Prop) (Q : Nat → TopoState → Prop) (R : String → Prop)
    (hQ : ∀ n st st', Q n st → TopoMono st st' → Q n st')
    (hok : ∀ n st st', P st → Q n st → f n st = .ok st' →
      P st' ∧ TopoMono st st' ∧ List.lookup n st'.marks = some .permanent)
    (herr : ∀ n st e, P st → Q n st → f n st = .error e → R e) :
    ∀ cs st, P st → (∀ c ∈ cs, Q c st) →
      (∀ st', foldE f cs st = .ok st' →
        P st' ∧ TopoMono st st' ∧ ∀ c ∈ cs, List.lookup c st'.marks = some .permanent) ∧
      (∀ e, foldE f cs st = .error e → R e) := by
  intro cs
  induction cs with
  | nil =>
    intro st hP _
    refine ⟨?_, ?_⟩
    · intro st' h
      simp only [foldE_nil, Except.ok.injEq] at h
      subst h
      exact ⟨hP, TopoMono.refl _, by simp⟩
    · intro e h
      simp [foldE_nil] at h
  | cons c cs ih =>
    intro st hP hQs
    have hQc := hQs c (List.mem_cons_self ..)
    cases hf : f c st with
    | error e0 =>
      simp only [foldE_cons, hf]
      refine ⟨?_, ?_⟩
      · intro st' h; cases h
      · intro e h
        cases h
        exact herr c st _ hP hQc hf
    | ok st1 =>
      simp only [foldE_cons, hf]
      obtain ⟨hP1, hM1, hc1⟩ := hok c st st1 hP hQc hf
      have hQ1 : ∀ c' ∈ cs, Q c' st1 := fun c' hc' =>
        hQ c' st st1 (hQs c' (List.mem_cons_of_mem _ hc')) hM1
      obtain ⟨ihok, iherr⟩ := ih st1 hP1 hQ1
      refine ⟨?_, iherr⟩
      intro st' h
      obtain ⟨hP', hM', hall⟩ := ihok st' h
      refine ⟨hP', hM1.trans hM', ?_⟩
      intro c' hc'
      rcases List.mem_cons.mp hc' with rfl | hc'
      · exact hM'.permanent hc1
      · exact hall c' hc'

/-! ### `visit` -/

/-- Specification of the recursive `visit`: with fuel above the number of unmarked
nodes and every temporary node on a path to `n`, an `.ok` result keeps the
invariant and makes `n` permanent, an `.error` is `RuntimeError` and exhibits a cycle. -/
theorem visit_spec {g : Graph} (wf : g.WF) : ∀ fuel n st, TopoInv g st → g.hasNode n = true →
    (∀ t, List.lookup t st.marks = some .temporary → g.ReachPlus t n) →
    unmarkedCount g st < fuel →
    (∀ st', visit g fuel n st = .ok st' →
      TopoInv g st' ∧ TopoMono st st' ∧ List.lookup n st'.marks = some .permanent) ∧
    (∀ e, visit g fuel n st = .error e → e = "RuntimeError" ∧ g.HasCycle) := by
  intro fuel
  induction fuel with
  | zero => intro n st _ _ _ h; omega
  | succ fuel ih =>
    intro n st hI hn hT hU
    have hnn : n ∈ g.getNodes := (hasNode_iff_mem_getNodes g n).mp hn
    cases hm : List.lookup n st.marks with
    | none =>
      exfalso
      have : n ∈ st.marks.map Prod.fst := by rw [hI.keys]; exact hnn
      exact (Dict.lookup_eq_none_iff _ _).mp hm this
    | some mk =>
      cases mk with
      | permanent =>
        simp only [visit, hm]
        refine ⟨?_, ?_⟩
        · intro st' h
          cases h
          exact ⟨hI, TopoMono.refl _, hm⟩
        · intro e h; cases h
      | temporary =>
        simp only [visit, hm]
        refine ⟨?_, ?_⟩
        · intro st' h; cases h
        · intro e h
          cases h
          exact ⟨rfl, (hT n hm).hasCycle⟩
      | unmarked =>
        cases hc : List.lookup n g.children with
        | none => simp [Graph.hasNode, hc] at hn
        | some cs =>
          simp only [visit, hm, hc]
          have hI1 := hI.setTemp hm
          have hU1 := unmarkedCount_setTemp (g := g) hnn hm
          have hedge : ∀ c, g.Edge n c ↔ c ∈ cs := by
            intro c; unfold Edge; rw [childrenOf_of_lookup hc]
          have key := foldE_topo_spec (visit g fuel) (TopoInv g)
            (fun c s => g.hasNode c = true ∧
              (∀ t, List.lookup t s.marks = some .temporary → g.ReachPlus t c) ∧
              unmarkedCount g s < fuel)
            (fun e => e = "RuntimeError" ∧ g.HasCycle)
            (by
              rintro c s s' ⟨h1, h2, h3⟩ hM
              exact ⟨h1, fun t ht => h2 t (hM.temporary_of ht),
                Nat.lt_of_le_of_lt hM.unmarkedCount_le h3⟩)
            (by
              rintro c s s' hP ⟨h1, h2, h3⟩ hv
              exact (ih c s hP h1 h2 h3).1 s' hv)
            (by
              rintro c s e hP ⟨h1, h2, h3⟩ hv
              exact (ih c s hP h1 h2 h3).2 e hv)
            cs _ hI1
            (by
              intro c hcs
              have e : g.Edge n c := (hedge c).mpr hcs
              refine ⟨wf.closed n c e, ?_, by omega⟩
              intro t ht
              by_cases htn : t = n
              · subst htn; exact ⟨c, e, .refl c⟩
              · have ht' : List.lookup t (Dict.set st.marks n Mark.temporary) = some .temporary := ht
                rw [Dict.lookup_set_ne _ _ htn] at ht'
                exact (hT t ht').tail e)
          cases hfold : foldE (visit g fuel) cs
              { marks := Dict.set st.marks n .temporary, out := st.out } with
          | error e0 =>
            refine ⟨?_, ?_⟩
            · intro st' h; cases h
            · intro e h
              cases h
              exact key.2 e0 hfold
          | ok st2 =>
            obtain ⟨hI2, hM2, hall⟩ := key.1 st2 hfold
            have hn2 : List.lookup n st2.marks = some .temporary :=
              hM2.temporary (Dict.lookup_set_self _ _ _)
            refine ⟨?_, ?_⟩
            · intro st' h
              cases h
              refine ⟨hI2.finish hn2 (fun c e => hall c ((hedge c).mp e)), ?_,
                Dict.lookup_set_self _ _ _⟩
              intro m
              show List.lookup m (Dict.set st2.marks n .permanent) = _ ∨
                (_ ∧ List.lookup m (Dict.set st2.marks n .permanent) = _)
              by_cases hmn : m = n
              · subst hmn
                exact .inr ⟨hm, Dict.lookup_set_self _ _ _⟩
              · rw [Dict.lookup_set_ne _ _ hmn]
                have h1 : List.lookup m (Dict.set st.marks n Mark.temporary) =
                    List.lookup m st.marks := Dict.lookup_set_ne _ _ hmn
                rcases hM2 m with e | ⟨u, p⟩
                · exact .inl (e.trans h1)
                · exact .inr ⟨h1 ▸ u, p⟩
            · intro e h; cases h

/-! ### One pass of the `for` loop, the `while`, the public function -/

/-- No node is marked temporary (true between top-level `visit` calls). -/
def NoTemp (st : TopoState) : Prop := ∀ m, List.lookup m st.marks ≠ some .temporary

theorem passStep_spec {g : Graph} (wf : g.WF) (n : Nat) (st : TopoState)
    (hI : TopoInv g st) (hT : NoTemp st) (hn : n ∈ g.getNodes) :
    (∀ st', passStep g (g.size + 1) n st = .ok st' →
      (TopoInv g st' ∧ NoTemp st') ∧ TopoMono st st' ∧
        List.lookup n st'.marks = some .permanent) ∧
    (∀ e, passStep g (g.size + 1) n st = .error e → e = "RuntimeError" ∧ g.HasCycle) := by
  cases hm : List.lookup n st.marks with
  | none =>
    exfalso
    have : n ∈ st.marks.map Prod.fst := by rw [hI.keys]; exact hn
    exact (Dict.lookup_eq_none_iff _ _).mp hm this
  | some mk =>
    cases mk with
    | temporary => exact absurd hm (hT n)
    | permanent =>
      simp only [passStep, hm]
      refine ⟨?_, ?_⟩
      · intro st' h
        cases h
        exact ⟨⟨hI, hT⟩, TopoMono.refl _, hm⟩
      · intro e h; cases h
    | unmarked =>
      simp only [passStep, hm]
      have hv := visit_spec wf (g.size + 1) n st hI ((hasNode_iff_mem_getNodes g n).mpr hn)
        (fun t ht => absurd ht (hT t))
        (Nat.lt_succ_of_le (unmarkedCount_le_size g st))
      refine ⟨?_, hv.2⟩
      intro st' h
      obtain ⟨h1, h2, h3⟩ := hv.1 st' h
      exact ⟨⟨h1, fun m hm' => hT m (h2.temporary_of hm')⟩, h2, h3⟩

theorem pass_spec {g : Graph} (wf : g.WF) (ns : List Nat) (st : TopoState)
    (hI : TopoInv g st) (hT : NoTemp st) (hns : ∀ n ∈ ns, n ∈ g.getNodes) :
    (∀ st', foldE (passStep g (g.size + 1)) ns st = .ok st' →
      (TopoInv g st' ∧ NoTemp st') ∧ TopoMono st st' ∧
        ∀ n ∈ ns, List.lookup n st'.marks = some .permanent) ∧
    (∀ e, foldE (passStep g (g.size + 1)) ns st = .error e →
      e = "RuntimeError" ∧ g.HasCycle) :=
  foldE_topo_spec (passStep g (g.size + 1)) (fun s => TopoInv g s ∧ NoTemp s)
    (fun n _ => n ∈ g.getNodes) (fun e => e = "RuntimeError" ∧ g.HasCycle)
    (fun _ _ _ h _ => h)
    (fun n s s' hP hn h => (passStep_spec wf n s hP.1 hP.2 hn).1 s' h)
    (fun n s e hP hn h => (passStep_spec wf n s hP.1 hP.2 hn).2 e h)
    ns st ⟨hI, hT⟩ hns

theorem lookup_topoInit {g : Graph} {n : Nat} {v : Mark}
    (h : List.lookup n (topoInit g).marks = some v) : v = .unmarked := by
  have := Dict.mem_of_lookup_eq_some h
  simp only [topoInit, List.mem_map, Prod.mk.injEq] at this
  obtain ⟨_, _, _, rfl⟩ := this
  rfl

theorem topoInit_inv (g : Graph) : TopoInv g (topoInit g) where
  keys := by simp [topoInit, List.map_map, Function.comp_def]
  nodup := by simp [topoInit]
  perm := by
    intro n
    constructor
    · intro h; simp [topoInit] at h
    · intro h; cases lookup_topoInit h
  order := by intro u v h; simp [topoInit] at h

theorem topoInit_noTemp (g : Graph) : NoTemp (topoInit g) := by
  intro m h; cases lookup_topoInit h

/-- `all(mark == "Permanent")` in terms of `lookup`. -/
theorem all_permanent_iff {d : Dict Mark} (hd : (d.map Prod.fst).Nodup) :
    d.all (fun p => p.2 == Mark.permanent) = true ↔
      ∀ n ∈ d.map Prod.fst, List.lookup n d = some .permanent := by
  rw [List.all_eq_true]
  constructor
  · intro h n hn
    have hs := (Dict.lookup_isSome_iff_mem_keys d n).mpr hn
    cases hl : List.lookup n d with
    | none => simp [hl] at hs
    | some v =>
      have := h _ (Dict.mem_of_lookup_eq_some hl)
      simp only [beq_iff_eq] at this
      rw [this]
  · rintro h ⟨k, v⟩ hp
    have hk : k ∈ d.map Prod.fst := List.mem_map.mpr ⟨(k, v), hp, rfl⟩
    have h1 := Dict.lookup_eq_some_of_mem hd hp
    have h2 := h k hk
    rw [h1] at h2
    cases h2
    simp

/-- The `while` loop with fuel 2: one pass suffices. -/
theorem topoWhile_spec {g : Graph} (wf : g.WF) :
    (∀ st, topoWhile g (g.size + 1) 2 (topoInit g) = .ok st →
      TopoInv g st ∧ ∀ n ∈ g.getNodes, List.lookup n st.marks = some .permanent) ∧
    (∀ e, topoWhile g (g.size + 1) 2 (topoInit g) = .error e →
      e = "RuntimeError" ∧ g.HasCycle) := by
  have hI0 := topoInit_inv g
  have hk0 : (topoInit g).marks.map Prod.fst = g.getNodes := hI0.keys
  have hnd : g.getNodes.Nodup := wf.nodupKeys
  by_cases hall : (topoInit g).marks.all (fun p => p.2 == Mark.permanent) = true
  · simp only [topoWhile, hall, if_true]
    refine ⟨?_, ?_⟩
    · intro st h
      cases h
      refine ⟨hI0, ?_⟩
      have := (all_permanent_iff (by rw [hk0]; exact hnd)).mp hall
      rwa [hk0] at this
    · intro e h; cases h
  · have hp := pass_spec wf ((topoInit g).marks.map Prod.fst) (topoInit g) hI0 (topoInit_noTemp g)
      (by rw [hk0]; exact fun _ h => h)
    cases hf : foldE (passStep g (g.size + 1)) ((topoInit g).marks.map Prod.fst) (topoInit g) with
    | error e0 =>
      simp only [topoWhile, hall, hf]
      refine ⟨?_, ?_⟩
      · intro st h; simp at h
      · intro e h
        simp at h
        subst h
        exact hp.2 e0 hf
    | ok st1 =>
      obtain ⟨⟨hI1, _⟩, _, hperm⟩ := hp.1 st1 hf
      rw [hk0] at hperm
      have hall1 : st1.marks.all (fun p => p.2 == Mark.permanent) = true := by
        rw [all_permanent_iff (by rw [hI1.keys]; exact hnd), hI1.keys]
        exact hperm
      simp only [topoWhile, hall, hf, hall1]
      refine ⟨?_, ?_⟩
      · intro st h
        simp at h
        subst h
        exact ⟨hI1, hperm⟩
      · intro e h; simp at h

/-- A final state (invariant + everything permanent) yields a topological order. -/
theorem TopoInv.final {g : Graph} (wf : g.WF) {st : TopoState} (hI : TopoInv g st)
    (hall : ∀ n ∈ g.getNodes, List.lookup n st.marks = some .permanent) :
    st.out.reverse.Perm g.getNodes ∧ ∀ u v, g.Edge u v → Before st.out.reverse u v := by
  have hmem : ∀ a, a ∈ st.out ↔ a ∈ g.getNodes := by
    intro a
    rw [hI.perm]
    constructor
    · intro h
      rw [← hI.keys, ← Dict.lookup_isSome_iff_mem_keys, h]; rfl
    · exact hall a
  refine ⟨(List.reverse_perm _).trans
    ((List.perm_ext_iff_of_nodup hI.nodup wf.nodupKeys).mpr hmem), ?_⟩
  intro u v e
  have hu : u ∈ st.out := (hmem u).mpr ((hasNode_iff_mem_getNodes g u).mp e.left_hasNode)
  obtain ⟨hv, hlt⟩ := hI.order u v hu e
  exact before_reverse_of_nodup hI.nodup hu hv hlt

/-! ### Main theorems -/

theorem topo_ok {g : Graph} (wf : g.WF) {l : List Nat} (h : g.topologicalSort = .ok l) :
    l.Perm g.getNodes ∧ ∀ u v, g.Edge u v → Before l u v := by
  unfold topologicalSort at h
  cases hw : topoWhile g (g.size + 1) 2 (topoInit g) with
  | error e => simp [hw] at h
  | ok st =>
    simp only [hw, Except.ok.injEq] at h
    subst h
    obtain ⟨hI, hall⟩ := (topoWhile_spec wf).1 st hw
    exact hI.final wf hall

theorem topo_error {g : Graph} (wf : g.WF) {e : String} (h : g.topologicalSort = .error e) :
    e = "RuntimeError" ∧ g.HasCycle := by
  unfold topologicalSort at h
  cases hw : topoWhile g (g.size + 1) 2 (topoInit g) with
  | error e0 =>
    simp only [hw, Except.error.injEq] at h
    subst h
    exact (topoWhile_spec wf).2 e0 hw
  | ok st => simp [hw] at h

theorem topo_ok_acyclic {g : Graph} (wf : g.WF) {l : List Nat} (h : g.topologicalSort = .ok l) :
    g.Acyclic :=
  acyclic_of_before (topo_ok wf h).2

theorem topo_total {g : Graph} (wf : g.WF) (hac : g.Acyclic) : ∃ l, g.topologicalSort = .ok l := by
  cases h : g.topologicalSort with
  | ok l => exact ⟨l, rfl⟩
  | error e => exact absurd (topo_error wf h).2 hac

end ErdosVerif.Model.Graph
