import ErdosVerif.Lemmas.SimResidentHandlers3
/-!
Part 5: TASK_FINISHED — the task leaves its worker and finishes; the `.finish` entry of
the history log is justified by the task's `.start` entry.
-/
open Std.Do
set_option mvcgen.warning false

namespace ErdosVerif.Model.Sim

theorem doFinish_running (x : TaskS) (hs : x.state = .running) :
    (x.call (.finish none)).2 = none ∧ (x.call (.finish none)).1.isComplete = true := by
  simp only [TaskS.call, TaskS.doFinish, hs]
  constructor
  · simp
  · simp only [beq_self_eq_true, Bool.true_or, Bool.not_true, Bool.false_eq_true, if_false]
    split <;> simp [TaskS.isComplete]

theorem taskAt_setTask (gs : Array GraphS) (t : TaskId) (g : GraphS) (x y : TaskS)
    (hg : gs[t.g]? = some g) (hx : g.task? t.t = some x) :
    taskAt (gs.setIfInBounds t.g (g.setTask t.t y)) t = some y ∧
    ∀ u, u ≠ t → taskAt (gs.setIfInBounds t.g (g.setTask t.t y)) u = taskAt gs u := by
  have hlt : t.g < gs.size := (Array.getElem?_eq_some_iff.mp hg).1
  have hlt2 := task?_lt g t.t x hx
  constructor
  · rw [taskAt_set]; simp [hlt, GraphS.task?_setTask, hlt2]
  · intro u hu
    rw [taskAt_set]
    by_cases hug : u.g = t.g
    · simp only [hug, hlt, and_self, if_true]
      have hut : u.t ≠ t.t := by
        intro e; apply hu
        cases u; cases t; simp_all
      rw [GraphS.task?_setTask]
      simp only [hut, false_and, if_false]
      unfold taskAt; rw [hug, hg]; rfl
    · simp [hug]

/-- A task the pool could remove is RUNNING, so `Task.finish` does not raise. -/
theorem finish_ok_of_removed {ex : List SEvent} {s : SimS} (t : TaskId)
    (h : AP RunOK ex s) (g : GraphS) (x : TaskS) (hg : s.graphs[t.g]? = some g) (hx : g.task? t.t = some x)
    (pid : Nat) (pool : Pool) (hpool : s.pools[pid]? = some pool) (hok : (pool.removeTask (gid t)).2 = .ok) :
    (x.call (.finish none)).2 = none := by
  have hT : taskAt s.graphs t = some x := taskAt_of _ _ g x hg hx
  have hsm := h.core.small t x hT
  rcases Pool.removeTask_view pool (gid t) with ⟨_, i, ks, hget, hvi, hmem, hview, hplaced⟩ | ⟨hne, _⟩
  case inr => exact absurd hok hne
  have hvs : (views s.pools)[pid]? = some pool.view := by rw [views_getElem?, hpool]; rfl
  have hat : At (views s.pools) pid i (gid t) := ⟨pool.view, ks, hvs, hvi, hmem⟩
  obtain ⟨x0, hx0, hrun⟩ := h.core.resRun pid i _ hat
  rw [ungid_gid t hsm, hT] at hx0
  cases hx0
  exact (doFinish_running x hrun).1

/-- **TASK_FINISHED**: the pool removed the task, `Task.finish` was called, the two log
entries were appended. `e0` is the event being handled. -/
theorem AP.removeFinish {ex : List SEvent} {n : Int} (s s' : SimS) (t : TaskId) (time : Int) (e0 : SEvent)
    (he0 : e0 ∈ ex) (hty : e0.ev.etype = ET.taskFinished) (htid : e0.tid = some t) (htime : e0.ev.time = time)
    (h : AP RunOK ex s ∧ s.now = n) (g : GraphS) (x : TaskS) (hg : s.graphs[t.g]? = some g) (hx : g.task? t.t = some x)
    (pid : Nat) (pool : Pool) (hpool : s.pools[pid]? = some pool) (hok : (pool.removeTask (gid t)).2 = .ok)
    (hp : s'.pools = s.pools.setIfInBounds pid (pool.removeTask (gid t)).1)
    (hgr : s'.graphs = s.graphs.setIfInBounds t.g (g.setTask t.t (x.call (.finish none)).1))
    (hn : s'.now = s.now) (hl : s'.log = (s.log.push (.remove t pid time)).push (.finish t time))
    (hq : s'.queue = s.queue) (hfu : s'.future = s.future) (hns : s'.nextSched = s.nextSched)
    (hid : s'.nextEid = s.nextEid) (ha : s'.allGraphs = s.allGraphs) (hj : s'.jobs = s.jobs)
    (hlr : s'.loaderReleased = s.loaderReleased) :
    AP RunOK ex s' ∧ s'.now = n := by
  obtain ⟨hA, hnow⟩ := h
  have hT : taskAt s.graphs t = some x := taskAt_of _ _ g x hg hx
  have hsm := hA.core.small t x hT
  -- what the pool did
  rcases Pool.removeTask_view pool (gid t) with ⟨_, i, ks, hget, hvi, hmem, hview, hplaced⟩ | ⟨hne, _⟩
  case inr => exact absurd hok hne
  have hvs : (views s.pools)[pid]? = some pool.view := by rw [views_getElem?, hpool]; rfl
  have hpm : (pmaps s.pools)[pid]? = some pool.placed := by rw [pmaps_getElem?, hpool]; rfl
  -- the task is RUNNING (it is resident)
  have hat : At (views s.pools) pid i (gid t) := ⟨pool.view, ks, hvs, hvi, hmem⟩
  obtain ⟨x0, hx0, hrun⟩ := hA.core.resRun pid i _ hat
  rw [ungid_gid t hsm, hT] at hx0
  cases hx0
  obtain ⟨hfin1, hfin2⟩ := doFinish_running x hrun
  obtain ⟨hT't, hT'o⟩ := taskAt_setTask s.graphs t g x (x.call (.finish none)).1 hg hx
  have hpre' := call_preOK x (.finish none) (hA.core.preOK t x hT)
  have hcore := hA.core.remove_finish (T' := taskAt s'.graphs) t (x.call (.finish none)).1 pid i pool.view ks pool.placed
    hsm hvs hvi hmem hpm (by rw [hgr]; exact hT't) (by rw [hgr]; exact hT'o) hfin2 hpre'
  -- the `.start` entry that justifies the `.finish` entry
  obtain ⟨r, hr, _, hls, _, r0, pid0, hstart, hsum⟩ := hA.core.run t x hT hrun
  obtain ⟨y, hy, _, hdue⟩ := hA.core.fin e0 (List.mem_append_right _ he0) hty t htid
  rw [hT] at hy; cases hy
  have htime' : time = x.start + r0 := by
    have h1 := hdue hrun r hr
    rw [htime] at h1
    omega
  have hlog : s'.log.toList = (s.log.toList ++ [LogE.remove t pid time]) ++ [LogE.finish t time] := by
    rw [hl]; simp
  refine ⟨⟨?_, ?_, ?_, ?_, ?_, ?_⟩, by rw [hn]; exact hnow⟩
  · rw [hp, views_set, pmaps_set, hview, hplaced, hn, hq]
    refine hcore.mono_P ?_
    intro u y _ _ hp'
    refine logMono_RunOK _ _ _ u y ?_ hp'
    intro e he; rw [hlog]; simp [he]
  · rw [hlog]
    apply LogOK.push
    · apply LogOK.push _ _ hA.log
      intro t' τ he; cases he
    · intro t' τ he
      cases he
      exact ⟨x.start, r0, pid0, by simp [hstart], htime'⟩
  · rw [hq, hfu, hns, hid]; exact hA.eids
  · rw [ha]; exact hA.allQ
  · rw [hj]; exact hA.tmplQ
  · exact hA.loaderOf hg s' hlr


/-- A failed `WorkerPool.remove_task` leaves the residency views alone. -/
theorem removeTask_fail_view (pool : Pool) (k : Nat) (e : PyErr) (h : (pool.removeTask k).2 = .raised e) :
    (pool.removeTask k).1.view = pool.view ∧ (pool.removeTask k).1.placed = pool.placed := by
  rcases Pool.removeTask_view pool k with ⟨hok, _⟩ | ⟨_, hv⟩
  · rw [h] at hok; cases hok
  · exact hv

theorem finishRemove_rspec (n : Int) (ex : List SEvent) (t : TaskId) (time : Int) (e0 : SEvent)
    (he0 : e0 ∈ ex) (hty : e0.ev.etype = ET.taskFinished) (htid : e0.tid = some t) (htime : e0.ev.time = time) :
    KeepsR n ex (finishRemove t time) := by
  rmvcgen [finishRemove, getTask, getGraph, getPool, setPool, raiseOutcome, logE, taskCall, setGraph, raiseTask]
  all_goals first
    | ev_close
    | wk_close
    | (have h := ‹AP RunOK _ _ ∧ _›
       exact AP.removeFinish _ _ t time e0 he0 hty htid htime h _ _ ‹_› ‹_› _ _ ‹_› ‹_›
         rfl rfl rfl rfl rfl rfl rfl rfl rfl rfl rfl)
    | (exfalso
       have h := ‹AP RunOK _ _ ∧ _›
       have hf := finish_ok_of_removed t h.1 _ _ ‹_› ‹_› _ _ ‹_› ‹_›
       simp_all
       done)
    | (have h := ‹AP RunOK _ _ ∧ _›
       exact AP.poolSameW _ _ _ _ _ h ‹_› (removeTask_fail_view _ _ _ ‹_›) rfl rfl rfl rfl rfl rfl rfl rfl rfl rfl rfl rfl)
    | (exfalso
       have a := ‹∀ g : GraphS, _ = some g → False›
       rs_hyps b => rs_hyps c => exact a _ (b.symm.trans c))
    | (exfalso; simp_all (config := { zetaDelta := true }); rs_hyps a => rs_hyps b => exact a _ b.symm)


/-- TASK_FINISHED, for the popped event `ev` (kept in `ex` while it is handled). -/
theorem handleTaskFinished_rspec (n : Int) (ex : List SEvent) (ev : SEvent) (he : ev ∈ ex)
    (hty : ev.ev.etype = ET.taskFinished) : KeepsR n ex (handleTaskFinished ev) := by
  have h_fr : ∀ t time, ev.tid = some t → ev.ev.time = time → KeepsR n ex (finishRemove t time) :=
    fun t time h1 h2 => finishRemove_rspec n ex t time ev he hty h1 h2
  have h_rows := finishRows_rspec n ex
  have h_not := finishNotify_rspec n ex
  rmvcgen [handleTaskFinished, h_fr, h_rows, h_not]
  all_goals first
    | ev_close
    | wk_close

end ErdosVerif.Model.Sim
