import ErdosVerif.Lemmas.LedgerCopy
import ErdosVerif.Lemmas.GreedyRun
/-!
`copy(worker_pools)` gives the policy a cluster with the occupancy of the live one: same pools,
same workers, same totals, same availability per resource type, same resident tasks.
-/
namespace ErdosVerif.Model.Greedy
open ErdosVerif.Model

/-- What a successful worker copy preserves. -/
def SameWorker (w0 w : Worker) : Prop :=
  w0.res.total = w.res.total ∧ (∀ n : String, byName w0.res.avail n = byName w.res.avail n) ∧
  w0.placed = w.placed

theorem Worker.copy_same (w w0 : Worker) (h : w.res.Inv) (hc : w.copy = (w0, .ok)) : SameWorker w0 w := by
  unfold Worker.copy at hc
  cases hr : w.res.copy with
  | mk r o =>
    rw [hr] at hc
    simp only [Prod.mk.injEq] at hc
    obtain ⟨rfl, rfl⟩ := hc
    exact ⟨(Resources.copy_same_occupancy w.res r h hr "").1,
      fun n => (Resources.copy_same_occupancy w.res r h hr n).2, rfl⟩

/-- What a successful pool copy preserves. -/
def SamePool (p0 p : Pool) : Prop :=
  p0.placed = p.placed ∧ p0.workers.length = p.workers.length ∧
  ∀ (j : Nat) w w0, p.workers[j]? = some w → p0.workers[j]? = some w0 → SameWorker w0 w

theorem Pool.copy_same (p p0 : Pool) (h : p.Inv) (hc : p.copy = (p0, .ok)) : SamePool p0 p := by
  simp only [Pool.copy] at hc
  split at hc
  · rename_i c hfind
    simp only [Prod.mk.injEq] at hc
    have := List.find?_some hfind
    rw [hc.2] at this
    simp at this
  · rename_i hfind
    simp only [Prod.mk.injEq, and_true] at hc
    subst hc
    refine ⟨rfl, by simp, ?_⟩
    intro j w w0 hw hw0
    simp only [List.map_map, List.getElem?_map, hw, Option.map_some, Function.comp, Option.some.injEq] at hw0
    have hall := List.find?_eq_none.mp hfind (w.copy) (List.mem_map.mpr ⟨w, List.mem_of_getElem? hw, rfl⟩)
    have hok : w.copy.2 = .ok := by simpa using hall
    have : w.copy = (w0, .ok) := by rw [← hw0, ← hok]
    exact Worker.copy_same w w0 (h w (List.mem_of_getElem? hw)) this

theorem copyPools_same (live V0 : List Pool) (hinv : ClusterInv live) (h : copyPools live = .ok V0) :
    V0.length = live.length ∧
    ∀ (i : Nat) p p0, live[i]? = some p → V0[i]? = some p0 → SamePool p0 p := by
  refine ⟨copyPools_length live V0 h, ?_⟩
  induction live generalizing V0 with
  | nil => intro i p p0 hp; simp at hp
  | cons q r ih =>
    simp only [copyPools] at h
    split at h
    · rename_i c hc
      split at h
      · rename_i cs hcs
        cases h
        intro i p p0 hp hp0
        cases i with
        | zero =>
          simp only [List.getElem?_cons_zero, Option.some.injEq] at hp hp0
          subst hp; subst hp0
          exact Pool.copy_same q c (hinv q (List.mem_cons_self ..)) hc
        | succ i' =>
          simp only [List.getElem?_cons_succ] at hp hp0
          exact ih cs (fun x hx => hinv x (List.mem_cons_of_mem _ hx)) hcs i' p p0 hp hp0
      · cases h
    · cases h

end ErdosVerif.Model.Greedy
