import ErdosVerif.Lemmas.SimResidentStepInv
/-!
Part 7c: `__step(dt)` keeps the invariant and moves the clock by `dt`: every RUNNING task
is stepped exactly as far as the clock moves.
-/
open Std.Do
set_option mvcgen.warning false

namespace ErdosVerif.Model.Sim

set_option maxHeartbeats 1600000 in
/-- **`__step(dt)`**, for a `dt` that does not overshoot any RUNNING task. `T` is the time of
the event at the root of the queue (if any): afterwards the root is that event or a
TASK_FINISHED event due at the new clock value. -/
theorem step_rspec (n dt : Int) (T : Option Int) :
    ⦃fun s => ⌜(AP RunOK [] s ∧ s.now = n) ∧ DtOK s dt ∧ (s.queue[0]?).map (·.ev.time) = T⌝⦄ step dt
    ⦃post⟨fun _ s' => ⌜(AP RunOK [] s' ∧ s'.now = n + dt) ∧
        ∀ h1, s'.queue[0]? = some h1 → some h1.ev.time = T ∨ h1.ev.time = n + dt⌝, fun _ s => ⌜WInv s⌝⟩⦄ := by
  rmvcgen [step, getPool, setPool, getTask, getGraph, taskCall, setGraph, raiseTask, mkEvent, uniqueName, advanceClock, addEvent]
  case inv1 =>
    rename_i s0 _ _ _
    exact post⟨fun p s => ⌜Inv1 n dt s0 p.1.prefix p.2 s⌝, fun _ s => ⌜WInv s⌝⟩
  case inv2 =>
    rename_i s0 _ _ _ pref pi _ _ _ _ _ pool _ _
    exact post⟨fun p s => ⌜Inv2 n dt s0 pref pi pool p.1.prefix p.2 s⌝, fun _ s => ⌜WInv s⌝⟩
  case inv3 =>
    rename_i s0 _ _ _ pref pi _ _ _ _ _ pool _ _ wpref _ _ _ _ _ _
    exact post⟨fun p s => ⌜Inv3 n dt s0 pref pi pool wpref p.1.prefix p.2 s⌝, fun _ s => ⌜WInv s⌝⟩
  case inv4 =>
    rename_i s0 _ _ _ fin _ _ _
    exact post⟨fun p s => ⌜Inv4 n dt s0 fin p.2 s⌝, fun _ s => ⌜WInv s⌝⟩
  case inv5 =>
    exact post⟨fun p s => ⌜Inv5 n dt T p.1.suffix s⌝, fun _ s => ⌜WInv s⌝⟩
  all_goals first
    | exact ExceptConds.entails.refl _
    | (rs_hyps h => exact AP.weak h.1.1)
    | (rs_hyps h => exact Inv3.weak h)
    | (rs_hyps h => exact Inv1.weak h)
    | (rs_hyps h => exact Inv4.weak h)
    | (rs_hyps h => exact inv3_init h)
    | (rs_hyps h => exact inv2_next _ h)
    | (rs_hyps h => exact inv1_next h)
    | (rs_hyps h => exact inv4_init h)
    | (rs_hyps h => exact ⟨⟨h.1, h.2.1⟩, h.2.2.2⟩)
    | (exact inv1_init n dt T _ ‹_› ‹_›)
    | (rs_hyps h => exact inv3_skip _ _ _ h ‹_› ‹_› ‹_›)
    | (rs_hyps h => exact inv2_init _ _ _ _ h ‹_› rfl rfl rfl rfl rfl rfl rfl rfl rfl rfl rfl rfl)
    | (rs_hyps h => exact inv5_step _ _ _ h rfl rfl rfl rfl rfl rfl rfl rfl rfl rfl rfl rfl)
    | (rs_hyps h => exact inv5_init T _ _ h (by rs_hyps h0 => exact h0.2.2) rfl rfl rfl rfl rfl rfl rfl rfl rfl rfl rfl rfl)
    | (rs_hyps h =>
        exact inv4_step _ _ _ _ _ h (by rs_hyps h0 => exact h0.1.2) (by rs_hyps hh => (rw [hh]; simp))
          rfl rfl rfl rfl rfl rfl rfl rfl rfl rfl rfl rfl rfl rfl rfl)
    | (rs_hyps h =>
        exact inv3_step _ _ _ _ _ _ _ _ _ h (by rs_hyps h0 => exact h0.1.2) ‹_› ‹_› ‹_› (Or.inl rfl)
          rfl rfl rfl rfl rfl rfl rfl rfl rfl rfl rfl ‹_› ‹_›)
    | (rs_hyps h =>
        exact inv3_step _ _ _ _ _ _ _ _ _ h (by rs_hyps h0 => exact h0.1.2) ‹_› ‹_› ‹_› (Or.inr ⟨rfl, ‹_›⟩)
          rfl rfl rfl rfl rfl rfl rfl rfl rfl rfl rfl ‹_› ‹_›)

end ErdosVerif.Model.Sim
