import ErdosVerif.Lemmas.SimResidentDefs
/-!
How the worker-pool operations the simulator uses change the residency views
(`Pool.view`, `Pool.placed`). Core Lean only.
-/
namespace ErdosVerif.Model

/-- Keys after `d[k] = v`. -/
def addKey (ks : List Nat) (k : Nat) : List Nat := if k ∈ ks then ks else ks ++ [k]

theorem AList.keys_set {υ : Type} (l : AList Nat υ) (k : Nat) (v : υ) :
    AList.keys (AList.set l k v) = addKey (AList.keys l) k := by
  unfold addKey
  split
  · rename_i h; exact AList.keys_set_of_mem l k v h
  · rename_i h; exact AList.keys_set_of_not_mem l k v h

theorem AList.keys_erase {υ : Type} (l : AList Nat υ) (k : Nat) :
    AList.keys (AList.erase l k) = (AList.keys l).erase k := by
  induction l with
  | nil => rfl
  | cons p t ih =>
    obtain ⟨a, b⟩ := p
    simp only [AList.erase, AList.keys_cons]
    by_cases h : a = k
    · subst h; simp
    · simp only [h, if_false, AList.keys_cons, ih]
      rw [List.erase_cons_tail]
      simpa using h

theorem AList.get?_erase_ne {κ υ : Type} [DecidableEq κ] (l : AList κ υ) (k x : κ) (h : k ≠ x) :
    AList.get? (AList.erase l k) x = AList.get? l x := by
  induction l with
  | nil => rfl
  | cons p t ih =>
    obtain ⟨a, b⟩ := p
    simp only [AList.erase]
    by_cases hak : a = k
    · subst hak; simp [AList.get?, h]
    · simp only [hak, if_false, AList.get?, ih]

namespace Worker

theorem placeTask_placed (w : Worker) (t : Nat) (s : Strategy) :
    (w.placeTask t s).1.placed = if (w.placeTask t s).2 = .ok then w.placed.set t s else w.placed := by
  unfold placeTask
  split
  · split
    · split
      · simp
      · cases hres : w.res.allocateMultiple s.req (.batch w.fresh) with
        | mk r o => cases o <;> simp
    · split
      · simp
      · simp
  · cases hres : w.res.allocateMultiple s.req (.task t) with
    | mk r o => cases o <;> simp

theorem removeTask_placed (w : Worker) (t : Nat) :
    ((w.removeTask t).2 = .ok ∧ (w.removeTask t).1.placed = w.placed.erase t) ∨
    ((w.removeTask t).2 ≠ .ok ∧ (w.removeTask t).1.placed = w.placed) := by
  unfold removeTask
  split
  · right; simp
  · split
    · split
      · right; simp
      · split
        · right; simp
        · simp only []
          split
          · split
            · right; simp
            · rename_i bt hbt
              cases hd : w.res.deallocate bt with
              | mk r o => cases o <;> simp
          · left; simp
    · cases hd : w.res.deallocate (.task t) with
      | mk r o => cases o <;> simp

theorem removeTask_ok_mem (w : Worker) (t : Nat) (h : (w.removeTask t).2 = .ok) : t ∈ AList.keys w.placed := by
  unfold removeTask at h
  split at h
  · simp at h
  · rename_i s hs
    exact AList.mem_keys_of_get?_some _ _ _ hs

end Worker

namespace Pool

theorem view_setWorker (p : Pool) (i : Nat) (w' : Worker) :
    (p.setWorker i w').view = p.view.set i (AList.keys w'.placed) := by
  simp [view, setWorker, List.map_set]

theorem view_setWorker_same (p : Pool) (i : Nat) (w w' : Worker) (hw : p.workers[i]? = some w)
    (h : w'.placed = w.placed) : (p.setWorker i w').view = p.view := by
  rw [view_setWorker, h]
  apply List.ext_getElem?
  intro j
  rw [List.getElem?_set]
  split
  · rename_i hij
    subst hij
    simp only [view, List.length_map, List.getElem?_map, hw, Option.map_some]
    split
    · rfl
    · rename_i hlt
      have := (List.getElem?_eq_some_iff.mp hw).1
      omega
  · rfl

theorem view_getElem? (p : Pool) (i : Nat) : p.view[i]? = (p.workers[i]?).map (fun w => AList.keys w.placed) := by
  simp [view]

/-- What `WorkerPool.place_task` does to the residency views: on success the task is added
to one worker's residents and to the pool-level map; otherwise nothing changes. -/
theorem placeTask_view (p : Pool) (t : Nat) (strats : List Strategy) (s? : Option Strategy) (wid? : Option Nat) :
    ((p.placeTask t strats s? wid?).2 = .ok true ∧
        ∃ i ks, p.view[i]? = some ks ∧ (p.placeTask t strats s? wid?).1.view = p.view.set i (addKey ks t) ∧
          (p.placeTask t strats s? wid?).1.placed = p.placed.set t i) ∨
    ((p.placeTask t strats s? wid?).2 ≠ .ok true ∧ (p.placeTask t strats s? wid?).1.view = p.view ∧
        (p.placeTask t strats s? wid?).1.placed = p.placed) := by
  unfold placeTask
  simp only []
  split
  · right; simp
  · right; simp
  · right; simp
  · rename_i i s _
    cases hw : p.workers[i]? with
    | none => right; simp
    | some w =>
      simp only []
      have hpl := Worker.placeTask_placed w t s
      cases hp : w.placeTask t s with
      | mk w' o =>
        rw [hp] at hpl
        cases o with
        | raised e =>
          right
          simp only [reduceCtorEq, if_false] at hpl
          refine ⟨by simp, ?_, rfl⟩
          exact view_setWorker_same p i w w' hw hpl
        | ok =>
          left
          simp only [if_true] at hpl
          refine ⟨rfl, i, AList.keys w.placed, ?_, ?_, rfl⟩
          · rw [view_getElem?, hw]; rfl
          · show (p.setWorker i w').view = _
            rw [view_setWorker, hpl, AList.keys_set]

/-- What `WorkerPool.remove_task` does to the residency views. -/
theorem removeTask_view (p : Pool) (t : Nat) :
    ((p.removeTask t).2 = .ok ∧
        ∃ i ks, p.placed.get? t = some i ∧ p.view[i]? = some ks ∧ t ∈ ks ∧
          (p.removeTask t).1.view = p.view.set i (ks.erase t) ∧ (p.removeTask t).1.placed = p.placed.erase t) ∨
    ((p.removeTask t).2 ≠ .ok ∧ (p.removeTask t).1.view = p.view ∧ (p.removeTask t).1.placed = p.placed) := by
  unfold removeTask
  split
  · right; simp
  · rename_i i hi
    cases hw : p.workers[i]? with
    | none => right; simp
    | some w =>
      simp only []
      have hpl := Worker.removeTask_placed w t
      have hmem := Worker.removeTask_ok_mem w t
      cases hp : w.removeTask t with
      | mk w' o =>
        rw [hp] at hpl hmem
        cases o with
        | raised e =>
          right
          have hpl : w'.placed = w.placed := by
            rcases hpl with ⟨h1, _⟩ | ⟨_, h2⟩
            · cases h1
            · exact h2
          refine ⟨by simp, ?_, rfl⟩
          exact view_setWorker_same p i w w' hw hpl
        | ok =>
          left
          have hpl : w'.placed = w.placed.erase t := by
            rcases hpl with ⟨_, h2⟩ | ⟨h1, _⟩
            · exact h2
            · exact absurd rfl h1
          refine ⟨rfl, i, AList.keys w.placed, hi, ?_, hmem rfl, ?_, rfl⟩
          · rw [view_getElem?, hw]; rfl
          · show (p.setWorker i w').view = _
            rw [view_setWorker, hpl, AList.keys_erase]

theorem view_stepProfiles (p : Pool) (dt : Int) : (p.stepProfiles dt).view = p.view := by
  simp [view, stepProfiles, Worker.stepProfiles, List.map_map, Function.comp_def]

theorem placed_stepProfiles (p : Pool) (dt : Int) : (p.stepProfiles dt).placed = p.placed := rfl

theorem loadProfile_placed (w : Worker) (pr : Nat) (s : Strategy) : (w.loadProfile pr s).1.placed = w.placed := by
  unfold Worker.loadProfile
  cases h : w.res.allocateMultiple s.req (.profile pr) with
  | mk r o => cases o <;> rfl

theorem evictProfile_placed (w : Worker) (pr : Nat) : (w.evictProfile pr).1.placed = w.placed := by
  unfold Worker.evictProfile
  split
  · rfl
  · cases h : w.res.deallocate (.profile pr) with
    | mk r o =>
      cases o with
      | ok => simp only []; split <;> rfl
      | raised e => rfl

theorem getAllocated_placed (w : Worker) (t : Nat) : (w.getAllocated t).1.placed = w.placed := by
  unfold Worker.getAllocated
  split
  · rfl
  · split
    · split
      · rfl
      · rfl
    · rfl

theorem loadProfile_go_view (prof : Nat) (s : Strategy) :
    ∀ (n i : Nat) (p : Pool), (loadProfile.go p prof s n i).1.view = p.view ∧ (loadProfile.go p prof s n i).1.placed = p.placed := by
  intro n
  induction n with
  | zero => intro i p; exact ⟨rfl, rfl⟩
  | succ n ih =>
    intro i p
    simp only [loadProfile.go]
    cases hw : p.workers[i]? with
    | none => exact ⟨rfl, rfl⟩
    | some w =>
      simp only []
      have hpl := loadProfile_placed w prof s
      cases hl : w.loadProfile prof s with
      | mk w' o =>
        rw [hl] at hpl
        have hv := view_setWorker_same p i w w' hw hpl
        cases o with
        | ok =>
          simp only []
          obtain ⟨a, b⟩ := ih (i + 1) (p.setWorker i w')
          exact ⟨a.trans hv, b⟩
        | raised e => exact ⟨hv, rfl⟩

theorem loadProfile_view (p : Pool) (prof : Nat) (s : Strategy) (wid? : Option Nat) :
    (p.loadProfile prof s wid?).1.view = p.view ∧ (p.loadProfile prof s wid?).1.placed = p.placed := by
  unfold loadProfile
  cases wid? with
  | some i =>
    simp only []
    cases hw : p.workers[i]? with
    | none => exact ⟨rfl, rfl⟩
    | some w =>
      simp only []
      have hpl := loadProfile_placed w prof s
      cases hl : w.loadProfile prof s with
      | mk w' o => rw [hl] at hpl; exact ⟨view_setWorker_same p i w w' hw hpl, rfl⟩
  | none => exact loadProfile_go_view prof s _ _ p

theorem evictProfile_go_view (prof : Nat) :
    ∀ (n i : Nat) (p : Pool), (evictProfile.go p prof n i).1.view = p.view ∧ (evictProfile.go p prof n i).1.placed = p.placed := by
  intro n
  induction n with
  | zero => intro i p; exact ⟨rfl, rfl⟩
  | succ n ih =>
    intro i p
    simp only [evictProfile.go]
    cases hw : p.workers[i]? with
    | none => exact ⟨rfl, rfl⟩
    | some w =>
      simp only []
      have hpl := evictProfile_placed w prof
      cases hl : w.evictProfile prof with
      | mk w' o =>
        rw [hl] at hpl
        have hv := view_setWorker_same p i w w' hw hpl
        cases o with
        | ok =>
          simp only []
          obtain ⟨a, b⟩ := ih (i + 1) (p.setWorker i w')
          exact ⟨a.trans hv, b⟩
        | raised e => exact ⟨hv, rfl⟩

theorem evictProfile_view (p : Pool) (prof : Nat) (wid? : Option Nat) :
    (p.evictProfile prof wid?).1.view = p.view ∧ (p.evictProfile prof wid?).1.placed = p.placed := by
  unfold evictProfile
  cases wid? with
  | some i =>
    simp only []
    cases hw : p.workers[i]? with
    | none => exact ⟨rfl, rfl⟩
    | some w =>
      simp only []
      have hpl := evictProfile_placed w prof
      cases hl : w.evictProfile prof with
      | mk w' o => rw [hl] at hpl; exact ⟨view_setWorker_same p i w w' hw hpl, rfl⟩
  | none => exact evictProfile_go_view prof _ _ p

theorem onWorker'_view (p : Pool) (wi t : Nat) :
    (p.onWorker' wi t).1.view = p.view ∧ (p.onWorker' wi t).1.placed = p.placed := by
  unfold onWorker'
  cases hw : p.workers[wi]? with
  | none => exact ⟨rfl, rfl⟩
  | some w =>
    simp only []
    have hpl := getAllocated_placed w t
    cases hg : w.getAllocated t with
    | mk w' r => rw [hg] at hpl; exact ⟨view_setWorker_same p wi w w' hw hpl, rfl⟩

end Pool

/-! ### views of the pool array -/

theorem views_set (ps : Array Pool) (pi : Nat) (p' : Pool) :
    views (ps.setIfInBounds pi p') = (views ps).set pi p'.view := by
  simp [views, Array.toList_setIfInBounds, List.map_set]

theorem pmaps_set (ps : Array Pool) (pi : Nat) (p' : Pool) :
    pmaps (ps.setIfInBounds pi p') = (pmaps ps).set pi p'.placed := by
  simp [pmaps, Array.toList_setIfInBounds, List.map_set]

theorem views_getElem? (ps : Array Pool) (pi : Nat) : (views ps)[pi]? = (ps[pi]?).map Pool.view := by
  simp [views]

theorem pmaps_getElem? (ps : Array Pool) (pi : Nat) : (pmaps ps)[pi]? = (ps[pi]?).map (·.placed) := by
  simp [pmaps]

theorem list_set_same {α : Type} (l : List α) (i : Nat) (a : α) (h : l[i]? = some a) : l.set i a = l := by
  apply List.ext_getElem?
  intro j
  rw [List.getElem?_set]
  split
  · rename_i hij; subst hij
    obtain ⟨hlt, he⟩ := List.getElem?_eq_some_iff.mp h
    simp [hlt, he]
  · rfl

/-- Writing back a pool with the same residency views. -/
theorem views_set_same (ps : Array Pool) (pi : Nat) (p p' : Pool) (hp : ps[pi]? = some p)
    (hv : p'.view = p.view) (hm : p'.placed = p.placed) :
    views (ps.setIfInBounds pi p') = views ps ∧ pmaps (ps.setIfInBounds pi p') = pmaps ps := by
  rw [views_set, pmaps_set]
  exact ⟨list_set_same _ _ _ (by rw [views_getElem?, hp, hv]; rfl),
         list_set_same _ _ _ (by rw [pmaps_getElem?, hp, hm]; rfl)⟩

/-- Residency after one worker's resident list was replaced. -/
theorem At_set (vs : List (List (List Nat))) (pi i : Nat) (v : List (List Nat)) (ks ks' : List Nat)
    (hv : vs[pi]? = some v) (hk : v[i]? = some ks) (pj j m : Nat) :
    At (vs.set pi (v.set i ks')) pj j m ↔ ((pj = pi ∧ j = i ∧ m ∈ ks') ∨ (¬ (pj = pi ∧ j = i) ∧ At vs pj j m)) := by
  have hpi : pi < vs.length := (List.getElem?_eq_some_iff.mp hv).1
  have hi : i < v.length := (List.getElem?_eq_some_iff.mp hk).1
  unfold At
  by_cases hp : pj = pi
  · subst hp
    obtain ⟨_, hve⟩ := List.getElem?_eq_some_iff.mp hv
    by_cases hj : j = i
    · subst hj
      simp [hpi, hi]
    · have hj' : ¬ i = j := fun e => hj e.symm
      simp [hpi, hj, hj', hve]
  · have hp' : ¬ pi = pj := fun e => hp e.symm
    simp [hp, hp']

end ErdosVerif.Model
