/-
Bit-level facts behind the Z3 scheduler's resource exclusivity: two bit patterns whose xor is
all ones have complementary population counts, three patterns cannot be pairwise complementary,
and the allowed patterns of one worker all share the same upper ("phantom") bits.
-/
import ErdosVerif.Lemmas.Z3Sat
namespace ErdosVerif.Z3m

theorem toBits_length : ∀ (w n : Nat), (toBits w n).length = w := by
  intro w
  induction w with
  | zero => intro n; rfl
  | succ w ih => intro n; simp [toBits, ih]

theorem ones_length (n : Nat) : (ones n).length = n := by simp [ones]

theorem bxor_length (a b : Bits) : (bxor a b).length = min a.length b.length := by
  simp [bxor]

theorem bxor_self (a : Bits) : bxor a a = zeros a.length := by
  induction a with
  | nil => rfl
  | cons x a ih => simp [bxor, zeros, List.replicate_succ] at ih ⊢; exact ih

theorem zeros_ne_ones {n : Nat} (h : zeros n = ones n) : n = 0 := by
  cases n with
  | zero => rfl
  | succ n => simp [zeros, ones, List.replicate_succ] at h

/-- xor all ones ⇒ every position is used by exactly one of the two. -/
theorem popcount_compl : ∀ (a b : Bits), a.length = b.length → bxor a b = ones a.length →
    popcount a + popcount b = a.length := by
  intro a
  induction a with
  | nil => intro b hl _; cases b <;> simp_all [popcount]
  | cons x a ih =>
    intro b hl hx
    cases b with
    | nil => simp at hl
    | cons y b =>
      simp only [bxor, List.zipWith_cons_cons, ones, List.length_cons, List.replicate_succ,
        List.cons.injEq] at hx
      have := ih b (by simpa using hl) (by simpa [bxor, ones] using hx.2)
      have hxy := hx.1
      cases x <;> cases y <;> simp_all [popcount] <;> omega

theorem head_compl {a b : Bits} (hl : a.length = b.length) (hpos : 0 < a.length)
    (hx : bxor a b = ones a.length) : a.headD false ≠ b.headD false := by
  cases a with
  | nil => simp at hpos
  | cons x a =>
    cases b with
    | nil => simp at hl
    | cons y b =>
      simp only [bxor, List.zipWith_cons_cons, ones, List.length_cons, List.replicate_succ,
        List.cons.injEq] at hx
      have := hx.1
      cases x <;> cases y <;> simp_all

theorem mem_lowCands {m req : Nat} {l : Bits} (h : l ∈ lowCands m req) :
    l.length = m ∧ popcount l = req := by
  simp only [lowCands, List.mem_filter, List.mem_map, List.mem_range, beq_iff_eq] at h
  obtain ⟨⟨v, _, rfl⟩, hp⟩ := h
  exact ⟨toBits_length m v, hp⟩

theorem mem_allowedLits {size m req : Nat} {x : Bits} (h : x ∈ allowedLits size m req) :
    ∃ l, l.length = m ∧ popcount l = req ∧ x = l ++ hiBits size m := by
  simp only [allowedLits, List.mem_map] at h
  obtain ⟨l, hl, rfl⟩ := h
  exact ⟨l, (mem_lowCands hl).1, (mem_lowCands hl).2, rfl⟩

/-- Two allowed patterns of one worker (same width `S`, same available quantity `m`) whose low
`q` bits are complementary, with `m ≤ q ≤ S` and `1 ≤ q`: then `1 ≤ m`, the demands add up to
exactly `m` and the lowest bits differ. -/
theorem allowed_compl {S m q ri rj : Nat} {xi xj : Bits}
    (hi : xi ∈ allowedLits S m ri) (hj : xj ∈ allowedLits S m rj)
    (hSi : xi.length = S) (hmq : m ≤ q) (hqS : q ≤ S) (hq : 1 ≤ q)
    (hx : bxor (xi.take q) (xj.take q) = ones q) :
    ri + rj = m ∧ xi.headD false ≠ xj.headD false := by
  obtain ⟨li, hli, hpi, rfl⟩ := mem_allowedLits hi
  obtain ⟨lj, hlj, hpj, rfl⟩ := mem_allowedLits hj
  have hh : (hiBits S m).length = S - m := by
    simp only [List.length_append, hli] at hSi; omega
  rw [List.take_append, List.take_append, hli, hlj,
    List.take_of_length_le (by omega : li.length ≤ q), List.take_of_length_le (by omega : lj.length ≤ q)] at hx
  unfold bxor at hx
  rw [List.zipWith_append (by omega)] at hx
  have hones : ones q = ones m ++ ones (q - m) := by
    simp only [ones, List.replicate_append_replicate]; congr 1; omega
  rw [hones] at hx
  have hsplit := List.append_inj hx (by simp [hli, hlj, ones])
  have h1 : bxor li lj = ones li.length := by rw [hli]; exact hsplit.1
  have h2 : zeros ((hiBits S m).take (q - m)).length = ones (q - m) := by
    rw [← bxor_self]; exact hsplit.2
  have hlen : ((hiBits S m).take (q - m)).length = q - m := by
    rw [List.length_take, hh]; omega
  rw [hlen] at h2
  have hqm : q = m := by have := zeros_ne_ones h2; omega
  have hm : 0 < li.length := by omega
  refine ⟨?_, ?_⟩
  · have := popcount_compl li lj (by omega) h1; omega
  · have := head_compl (by omega) hm h1
    cases li with
    | nil => simp at hm
    | cons x li => cases lj with
      | nil => simp at hlj; omega
      | cons y lj => simpa using this

end ErdosVerif.Z3m
