/-
Specification of `breadth_first()` (no start node) of the graph model M3 on
simple DAGs: it raises nothing (in particular the fuel suffices), yields every
node exactly once and yields every node after all of its parents.

Core Lean only.
-/
import ErdosVerif.Lemmas.GraphBasic

namespace ErdosVerif.Model.Graph

/-! ### General helpers -/

theorem getNodes_nodup {g : Graph} (wf : g.WF) : g.getNodes.Nodup := wf.nodupKeys

theorem size_eq_length_getNodes (g : Graph) : g.size = g.getNodes.length := by
  simp [size, getNodes]

/-- A duplicate-free list of nodes is no longer than the node list. -/
theorem length_le_size_of_nodup_nodes {g : Graph} {l : List Nat} (hl : l.Nodup)
    (hn : ∀ x ∈ l, g.hasNode x = true) : l.length ≤ g.size := by
  rw [size_eq_length_getNodes]
  exact hl.length_le_of_subset (fun x hx => (hasNode_iff_mem_getNodes g x).mp (hn x hx))

theorem mem_getSources {g : Graph} {x : Nat} :
    x ∈ g.getSources ↔ g.hasNode x = true ∧ g.parentsOf x = [] := by
  simp [getSources, hasNode_iff_mem_getNodes, List.isEmpty_iff]

theorem bfsFuel_gt_size (g : Graph) : g.size + 1 < bfsFuel g := by
  unfold bfsFuel
  exact Nat.lt_pow_self (by omega)

/-- `Before` survives appending on the right when the later element is present. -/
theorem Before.append_right {l : List Nat} {u v : Nat} (h : Before l u v) (hv : v ∈ l)
    (r : List Nat) : Before (l ++ r) u v := by
  unfold Before at *
  have hvl : l.idxOf v < l.length := List.idxOf_lt_length_iff.mpr hv
  have hu : u ∈ l := List.idxOf_lt_length_iff.mp (by omega)
  simp [List.idxOf_append, hu, hv, h]

/-- Something already in `l` comes before a fresh element appended to `l`. -/
theorem Before.of_mem_append_new {l : List Nat} {u v : Nat} (hu : u ∈ l) (hv : v ∉ l) :
    Before (l ++ [v]) u v := by
  unfold Before
  have hul : l.idxOf u < l.length := List.idxOf_lt_length_iff.mpr hu
  simp [List.idxOf_append, hu, hv, List.idxOf_cons_self]
  exact hul

/-! ### No infinite backward chains in a finite DAG -/

/-- In a well-formed acyclic graph a non-empty set of nodes has an element none
of whose predecessors is in the set (stated contrapositively). -/
theorem no_backward_closed_set {g : Graph} (hac : g.Acyclic) (S : Nat → Prop)
    (hnode : ∀ x, S x → g.hasNode x = true)
    (hpred : ∀ x, S x → ∃ p, g.Edge p x ∧ S p) (x₀ : Nat) (h₀ : S x₀) : False := by
  have chain : ∀ n : Nat, ∃ (h : Nat) (t : List Nat), t.length = n ∧ (h :: t).Nodup ∧
      (∀ y ∈ h :: t, S y) ∧ ∀ y ∈ h :: t, g.Reach h y := by
    intro n
    induction n with
    | zero =>
      refine ⟨x₀, [], rfl, by simp, ?_, ?_⟩
      · intro y hy; simp at hy; subst hy; exact h₀
      · intro y hy; simp at hy; subst hy; exact .refl _
    | succ n ih =>
      obtain ⟨h, t, hlen, hnd, hS, hreach⟩ := ih
      obtain ⟨p, hep, hSp⟩ := hpred h (hS h (by simp))
      refine ⟨p, h :: t, by simp [hlen], ?_, ?_, ?_⟩
      · refine List.nodup_cons.mpr ⟨?_, hnd⟩
        intro hp
        exact hac ⟨p, h, hep, hreach p hp⟩
      · intro y hy
        rcases List.mem_cons.mp hy with rfl | hy
        · exact hSp
        · exact hS y hy
      · intro y hy
        rcases List.mem_cons.mp hy with rfl | hy
        · exact .refl _
        · exact .head hep (hreach y hy)
  obtain ⟨h, t, hlen, hnd, hS, -⟩ := chain g.size
  have := length_le_size_of_nodup_nodes hnd (fun y hy => hnode y (hS y hy))
  simp only [List.length_cons, hlen] at this
  omega

/-! ### The loop without a dependency filter -/

/-- The parent filter of `breadth_first(None)`. -/
abbrev depAll : Nat → Except String Bool := fun _ => .ok true

/-- `all(parent in visited for parent in ps)`. -/
def ready (g : Graph) (visited : List Nat) (c : Nat) : Bool :=
  (g.parentsOf c).all (fun p => visited.contains p)

theorem ready_iff {g : Graph} {visited : List Nat} {c : Nat} :
    ready g visited c = true ↔ ∀ p ∈ g.parentsOf c, p ∈ visited := by
  simp [ready]

theorem allParentsVisited_depAll (visited ps : List Nat) :
    allParentsVisited depAll visited ps = .ok (ps.all (fun p => visited.contains p)) := by
  induction ps with
  | nil => rfl
  | cons p ps ih =>
    simp only [allParentsVisited, List.all_cons]
    rw [ih]
    cases visited.contains p <;> simp

theorem bfsChildren_depAll (g : Graph) (visited : List Nat) (cs frontier : List Nat)
    (hcs : ∀ c ∈ cs, g.hasNode c = true) :
    bfsChildren g depAll false visited cs frontier
      = .ok (frontier ++ cs.filter (ready g visited)) := by
  induction cs generalizing frontier with
  | nil => simp [bfsChildren]
  | cons c cs ih =>
    have hc : g.hasNode c = true := hcs c (by simp)
    have hcs' : ∀ c ∈ cs, g.hasNode c = true := fun c h => hcs c (by simp [h])
    simp only [bfsChildren, hc, if_true, allParentsVisited_depAll]
    by_cases hr : ready g visited c = true
    · have hr' : (g.parentsOf c).all (fun p => visited.contains p) = true := hr
      simp only [hr']
      rw [ih _ hcs']
      simp [hr]
    · simp only [Bool.not_eq_true] at hr
      have hr' : (g.parentsOf c).all (fun p => visited.contains p) = false := hr
      simp only [hr']
      rw [ih _ hcs']
      simp [hr]

/-- Loop invariant of `breadth_first(None)` (`visited` is `acc.reverse`). -/
structure BfsInv (g : Graph) (frontier acc : List Nat) : Prop where
  nodup : (acc ++ frontier).Nodup
  front : ∀ x, x ∈ frontier ↔
    x ∉ acc ∧ g.hasNode x = true ∧ ∀ p ∈ g.parentsOf x, p ∈ acc
  done : ∀ x ∈ acc, g.hasNode x = true ∧ ∀ p ∈ g.parentsOf x, Before acc p x

theorem BfsInv.init {g : Graph} (wf : g.WF) : BfsInv g g.getSources [] where
  nodup := by
    simp only [List.nil_append]
    exact (getNodes_nodup wf).sublist List.filter_sublist
  front := by
    intro x
    rw [mem_getSources]
    constructor
    · rintro ⟨h1, h2⟩
      simp [h1, h2]
    · rintro ⟨-, h1, h2⟩
      refine ⟨h1, ?_⟩
      cases hp : g.parentsOf x with
      | nil => rfl
      | cons p ps => exact absurd (h2 p (by simp [hp])) (by simp)
  done := by simp

theorem BfsInv.mem_acc_of_before {g : Graph} {frontier acc : List Nat}
    (inv : BfsInv g frontier acc) {x p : Nat} (hx : x ∈ acc) (hp : p ∈ g.parentsOf x) :
    p ∈ acc := by
  have hb := (inv.done x hx).2 p hp
  unfold Before at hb
  have : acc.idxOf x < acc.length := List.idxOf_lt_length_iff.mpr hx
  exact List.idxOf_lt_length_iff.mp (by omega)

/-- One iteration of the loop preserves the invariant. -/
theorem BfsInv.step {g : Graph} (wf : g.WF) (hs : g.Simple) {cur : Nat} {rest acc : List Nat}
    (inv : BfsInv g (cur :: rest) acc) :
    BfsInv g (rest ++ (g.childrenOf cur).filter (ready g (cur :: acc.reverse))) (acc ++ [cur]) := by
  have hnd := inv.nodup
  rw [List.nodup_append] at hnd
  obtain ⟨hnd_acc, hnd_fr, hdisj⟩ := hnd
  obtain ⟨hcur_rest, hnd_rest⟩ := List.nodup_cons.mp hnd_fr
  have hcur_front := (inv.front cur).mp (by simp)
  obtain ⟨hcur_acc, hcur_node, hcur_par⟩ := hcur_front
  have hready : ∀ c, ready g (cur :: acc.reverse) c = true ↔
      ∀ p ∈ g.parentsOf c, p ∈ acc ∨ p = cur := by
    intro c
    rw [ready_iff]
    constructor
    · intro h p hp
      have := h p hp
      simp at this
      rcases this with h | h
      · exact Or.inr h
      · exact Or.inl h
    · intro h p hp
      rcases h p hp with h | h <;> simp [h]
  -- a child of `cur` that becomes ready is fresh
  have hfresh : ∀ c, g.Edge cur c → c ∉ acc ∧ c ≠ cur ∧ c ∉ rest := by
    intro c he
    have hpc : cur ∈ g.parentsOf c := wf.mem_parentsOf.mpr he
    refine ⟨?_, ?_, ?_⟩
    · intro hc
      exact hcur_acc (inv.mem_acc_of_before hc hpc)
    · intro hc
      subst hc
      exact hcur_acc (hcur_par _ hpc)
    · intro hc
      have := (inv.front c).mp (by simp [hc])
      exact hcur_acc (this.2.2 _ hpc)
  refine ⟨?_, ?_, ?_⟩
  · -- nodup
    rw [List.append_assoc, List.singleton_append, List.nodup_append]
    refine ⟨hnd_acc, ?_, ?_⟩
    · rw [List.nodup_cons]
      refine ⟨?_, ?_⟩
      · intro h
        rcases List.mem_append.mp h with h | h
        · exact hcur_rest h
        · have he : g.Edge cur cur := (List.mem_filter.mp h).1
          exact (hfresh cur he).2.1 rfl
      · rw [List.nodup_append]
        refine ⟨hnd_rest, (hs cur).sublist List.filter_sublist, ?_⟩
        intro a ha b hb hab
        subst hab
        have he : g.Edge cur a := (List.mem_filter.mp hb).1
        exact (hfresh a he).2.2 ha
    · intro a ha b hb hab
      subst hab
      rcases List.mem_cons.mp hb with h | h
      · subst h; exact hcur_acc ha
      · rcases List.mem_append.mp h with h | h
        · exact hdisj a ha a (by simp [h]) rfl
        · have he : g.Edge cur a := (List.mem_filter.mp h).1
          exact (hfresh a he).1 ha
  · -- frontier characterisation
    intro x
    constructor
    · intro hx
      rcases List.mem_append.mp hx with hx | hx
      · have hxf := (inv.front x).mp (by simp [hx])
        refine ⟨?_, hxf.2.1, ?_⟩
        · intro h
          rcases List.mem_append.mp h with h | h
          · exact hxf.1 h
          · have hxc : x = cur := by simpa using h
            rw [hxc] at hx
            exact hcur_rest hx
        · intro p hp
          exact List.mem_append_left _ (hxf.2.2 p hp)
      · obtain ⟨hxc, hxr⟩ := List.mem_filter.mp hx
        have he : g.Edge cur x := hxc
        obtain ⟨h1, h2, -⟩ := hfresh x he
        refine ⟨?_, wf.closed _ _ he, ?_⟩
        · intro h
          rcases List.mem_append.mp h with h | h
          · exact h1 h
          · simp at h; exact h2 h
        · intro p hp
          rcases (hready x).mp hxr p hp with h | h
          · exact List.mem_append_left _ h
          · simp [h]
    · rintro ⟨hx_acc, hx_node, hx_par⟩
      have hx_acc' : x ∉ acc := fun h => hx_acc (List.mem_append_left _ h)
      have hx_cur : x ≠ cur := fun h => hx_acc (by simp [h])
      have hx_par' : ∀ p ∈ g.parentsOf x, p ∈ acc ∨ p = cur := by
        intro p hp
        rcases List.mem_append.mp (hx_par p hp) with h | h
        · exact Or.inl h
        · simp at h; exact Or.inr h
      by_cases hcp : cur ∈ g.parentsOf x
      · refine List.mem_append_right _ (List.mem_filter.mpr ⟨?_, (hready x).mpr hx_par'⟩)
        exact wf.mem_parentsOf.mp hcp
      · have : x ∈ cur :: rest := by
          refine (inv.front x).mpr ⟨hx_acc', hx_node, ?_⟩
          intro p hp
          rcases hx_par' p hp with h | h
          · exact h
          · subst h; exact absurd hp hcp
        rcases List.mem_cons.mp this with h | h
        · exact absurd h hx_cur
        · exact List.mem_append_left _ h
  · -- parents first
    intro x hx
    rcases List.mem_append.mp hx with hx | hx
    · obtain ⟨h1, h2⟩ := inv.done x hx
      exact ⟨h1, fun p hp => (h2 p hp).append_right hx _⟩
    · have hxc : x = cur := by simpa using hx
      rw [hxc]
      exact ⟨hcur_node, fun p hp => Before.of_mem_append_new (hcur_par p hp) hcur_acc⟩

/-- With enough fuel the loop ends normally in a state satisfying the invariant
with an empty frontier. -/
theorem bfsLoop_depAll {g : Graph} (wf : g.WF) (hs : g.Simple) :
    ∀ (fuel : Nat) (frontier acc : List Nat), BfsInv g frontier acc →
      g.size < fuel + acc.length →
      ∃ out, bfsLoop g depAll false fuel frontier acc.reverse acc = (out, none) ∧ BfsInv g [] out := by
  intro fuel
  induction fuel with
  | zero =>
    intro frontier acc inv hf
    exfalso
    have hnd := inv.nodup
    rw [List.nodup_append] at hnd
    have := length_le_size_of_nodup_nodes hnd.1 (fun x hx => (inv.done x hx).1)
    omega
  | succ fuel ih =>
    intro frontier acc inv hf
    cases frontier with
    | nil => exact ⟨acc, by simp [bfsLoop], inv⟩
    | cons cur rest =>
      have hcur := (inv.front cur).mp (by simp)
      have hnode : g.hasNode cur = true := hcur.2.1
      obtain ⟨cs, hcs⟩ : ∃ cs, List.lookup cur g.children = some cs := by
        unfold hasNode at hnode
        exact Option.isSome_iff_exists.mp hnode
      have hco : g.childrenOf cur = cs := childrenOf_of_lookup hcs
      have hclosed : ∀ c ∈ cs, g.hasNode c = true := by
        intro c hc
        exact wf.closed cur c (by unfold Edge; rw [hco]; exact hc)
      have inv' := inv.step wf hs
      rw [hco] at inv'
      -- the new accumulator is still a duplicate-free list of nodes
      have hlen : (acc ++ [cur]).length ≤ g.size := by
        have hnd := inv'.nodup
        rw [List.nodup_append] at hnd
        exact length_le_size_of_nodup_nodes hnd.1 (fun x hx => (inv'.done x hx).1)
      have hf' : g.size < fuel + (acc ++ [cur]).length := by
        simp at hlen ⊢; omega
      obtain ⟨out, hout, hinv⟩ := ih _ _ inv' hf'
      refine ⟨out, ?_, hinv⟩
      simp only [bfsLoop, hcs, bfsChildren_depAll g _ cs rest hclosed]
      simpa using hout

/-- In the final state every node has been yielded. -/
theorem BfsInv.complete {g : Graph} (wf : g.WF) (hac : g.Acyclic) {out : List Nat}
    (inv : BfsInv g [] out) (x : Nat) (hx : g.hasNode x = true) : x ∈ out := by
  apply Classical.byContradiction
  intro hxo
  refine no_backward_closed_set hac (fun y => g.hasNode y = true ∧ y ∉ out)
    (fun y hy => hy.1) ?_ x ⟨hx, hxo⟩
  rintro y ⟨hy, hyo⟩
  apply Classical.byContradiction
  intro hno
  have : y ∈ ([] : List Nat) := by
    refine (inv.front y).mpr ⟨hyo, hy, ?_⟩
    intro p hp
    apply Classical.byContradiction
    intro hpo
    have he : g.Edge p y := wf.mem_parentsOf.mp hp
    exact hno ⟨p, he, he.left_hasNode, hpo⟩
  simp at this

/-- `breadth_first()` on a well-formed simple DAG: no exception (the fuel
suffices), every node exactly once, every node after all of its parents. -/
theorem bfs_spec {g : Graph} (wf : g.WF) (hac : g.Acyclic) (hs : g.Simple) :
    (g.breadthFirst none).2 = none ∧
    (g.breadthFirst none).1.Perm g.getNodes ∧
    ∀ u v, g.Edge u v → Before (g.breadthFirst none).1 u v := by
  have hfuel : g.size < bfsFuel g + ([] : List Nat).length := by
    have := bfsFuel_gt_size g
    simp; omega
  obtain ⟨out, hout, inv⟩ := bfsLoop_depAll wf hs (bfsFuel g) g.getSources [] (BfsInv.init wf) hfuel
  have hbf : g.breadthFirst none = (out, none) := by
    simpa [breadthFirst, breadthFirstWithFuel] using hout
  rw [hbf]
  have hnd : out.Nodup := by simpa using inv.nodup
  refine ⟨rfl, ?_, ?_⟩
  · refine (List.perm_ext_iff_of_nodup hnd (getNodes_nodup wf)).mpr ?_
    intro a
    rw [← hasNode_iff_mem_getNodes]
    exact ⟨fun h => (inv.done a h).1, inv.complete wf hac a⟩
  · intro u v he
    have hv : v ∈ out := inv.complete wf hac v (wf.closed u v he)
    exact (inv.done v hv).2 u (wf.mem_parentsOf.mpr he)

end ErdosVerif.Model.Graph
