/-
The executable plan checker and the exhaustive search of `Model/IlpSpec.lean` against the
specification: `validPlanB` decides `ValidPlan` (capacity at every instant follows from
capacity at the start instants), and `optGoodput` is the maximum goodput over valid plans
when every deadline is enforced.
-/
import ErdosVerif.Lemmas.IlpCapacity
namespace ErdosVerif.IlpSpec
open ErdosVerif.Mip ErdosVerif.Ilp

/-! ### Capacity at the start instants suffices -/

theorem nsum_map_le {α : Type} (l : List α) (f g : α → Nat) (h : ∀ a ∈ l, f a ≤ g a) :
    nsum (l.map f) ≤ nsum (l.map g) := by
  induction l with
  | nil => simp [nsum]
  | cons x xs ih =>
    have h1 := h x (by simp)
    have h2 := ih (fun a ha => h a (by simp [ha]))
    simp [nsum]; omega

theorem nsum_map_zero {α : Type} (l : List α) (f : α → Nat) (h : ∀ a ∈ l, f a = 0) :
    nsum (l.map f) = 0 := by
  induction l with
  | nil => simp [nsum]
  | cons x xs ih =>
    have h1 := h x (by simp)
    have h2 := ih (fun a ha => h a (by simp [ha]))
    simp [nsum, h1, h2]

/-- A non-empty list of integers has a maximum. -/
theorem exists_max : ∀ (l : List Int), l ≠ [] → ∃ m ∈ l, ∀ a ∈ l, a ≤ m := by
  intro l
  induction l with
  | nil => intro h; exact absurd rfl h
  | cons x xs ih =>
    intro _
    by_cases hxs : xs = []
    · subst hxs; exact ⟨x, by simp, by simp⟩
    · obtain ⟨m, hm, hall⟩ := ih hxs
      by_cases hx : x ≤ m
      · exact ⟨m, by simp [hm], by intro a ha; simp at ha; rcases ha with rfl | ha; exact hx; exact hall a ha⟩
      · exact ⟨x, by simp, by
          intro a ha; simp at ha
          rcases ha with rfl | ha
          · exact Int.le_refl _
          · have := hall a ha; omega⟩

/-- The start of task `t` if it contributes to the load of `(w, r)` at `τ`. -/
def activeStart (I : Inst) (plan : Plan) (w : Nat) (r : String) (τ : Int) (t : Nat) : Option Int :=
  match plan.get t with
  | some pl => if demandAt I plan w r τ t ≠ 0 then some pl.start else none
  | none => none

theorem mem_placedStarts {I : Inst} {plan : Plan} {t : Nat} {pl : Place} (ht : t < I.nT)
    (h : plan.get t = some pl) : pl.start ∈ placedStarts I plan := by
  simp only [placedStarts, List.mem_filterMap, List.mem_range]
  exact ⟨t, ht, by simp [h]⟩

/-- The load at any instant is dominated by the load at the latest start among the tasks
that contribute to it. -/
theorem load_le_at_start (I : Inst) (plan : Plan) (w : Nat) (r : String) (τ : Int)
    (hpos : load I plan w r τ ≠ 0) :
    ∃ τ' ∈ placedStarts I plan, load I plan w r τ ≤ load I plan w r τ' := by
  let L := (List.range I.nT).filterMap (activeStart I plan w r τ)
  have hne : L ≠ [] := by
    intro hL
    apply hpos
    unfold load
    apply nsum_map_zero
    intro t ht
    by_cases hd : demandAt I plan w r τ t = 0
    · exact hd
    · exfalso
      have : ∃ s, activeStart I plan w r τ t = some s := by
        unfold activeStart
        cases hg : plan.get t with
        | none => simp [demandAt, hg] at hd
        | some pl => exact ⟨pl.start, by simp [hd]⟩
      obtain ⟨s, hs⟩ := this
      have : s ∈ L := List.mem_filterMap.mpr ⟨t, ht, hs⟩
      rw [hL] at this; simp at this
  obtain ⟨m, hm, hmax⟩ := exists_max L hne
  obtain ⟨t0, ht0, hs0⟩ := List.mem_filterMap.mp hm
  -- m is the start of a contributing task t0
  have ht0' := List.mem_range.mp ht0
  unfold activeStart at hs0
  cases hg0 : plan.get t0 with
  | none => simp [hg0] at hs0
  | some pl0 =>
    simp only [hg0] at hs0
    split at hs0
    · rename_i hd0
      cases hs0
      refine ⟨pl0.start, mem_placedStarts ht0' hg0, ?_⟩
      -- pl0.start ≤ τ because t0 occupies τ
      have hocc0 : pl0.start ≤ τ := by
        unfold demandAt at hd0
        simp only [hg0] at hd0
        by_cases hc : pl0.w = w ∧ occupies I t0 pl0 τ
        · exact hc.2.1
        · simp [hc] at hd0
      unfold load
      apply nsum_map_le
      intro t ht
      by_cases hd : demandAt I plan w r τ t = 0
      · omega
      · -- t contributes at τ: it also occupies pl0.start
        unfold demandAt at hd ⊢
        cases hg : plan.get t with
        | none => simp [hg] at hd
        | some pl =>
          simp only [hg] at hd ⊢
          by_cases hc : pl.w = w ∧ occupies I t pl τ
          · have hin : pl.start ∈ L := by
              apply List.mem_filterMap.mpr
              refine ⟨t, ht, ?_⟩
              unfold activeStart
              simp only [hg]
              have : demandAt I plan w r τ t ≠ 0 := by
                unfold demandAt; simp only [hg]; exact hd
              simp [this]
            have hle := hmax _ hin
            have hc' : pl.w = w ∧ occupies I t pl pl0.start := by
              refine ⟨hc.1, ?_, ?_⟩
              · exact hle
              · have := hc.2.2; omega
            simp [hc, hc']
          · simp [hc] at hd
    · simp at hs0

/-! ### `validPlanB` decides `ValidPlan` -/

theorem localB_running {I : Inst} {plan : Plan} {t : Nat} (hr : I.running t = true) :
    localB I plan t = true ↔ plan.get t = some (runningPlace I t) := by
  simp [localB, hr]

theorem localB_nonrunning {I : Inst} {plan : Plan} {t : Nat} (hr : I.running t = false) :
    localB I plan t = true ↔
      match plan.get t with
      | none => ¬ ((I.task t).state = .scheduled ∧ I.retract = false)
      | some pl => pl.w < I.nW ∧ pl.s < (I.task t).nS ∧
          compatible (I.worker pl.w) ((I.task t).strat pl.s) = true ∧ I.startLb t ≤ pl.start ∧
          (I.enforce t = true → finish I t pl ≤ (I.task t).deadline) := by
  unfold localB
  simp only [hr, Bool.false_eq_true, ↓reduceIte]
  cases plan.get t with
  | none =>
    simp
    constructor
    · rintro (h | h) hs
      · exact absurd hs h
      · exact h
    · intro h
      by_cases hs : (I.task t).state = .scheduled
      · exact Or.inr (h hs)
      · exact Or.inl hs
  | some pl =>
    simp only [Bool.and_eq_true, decide_eq_true_eq, Bool.or_eq_true, Bool.not_eq_true']
    constructor
    · rintro ⟨⟨⟨⟨h1, h2⟩, h3⟩, h4⟩, h5⟩
      refine ⟨h1, h2, h3, h4, fun he => ?_⟩
      rcases h5 with h5 | h5
      · rw [he] at h5; cases h5
      · exact h5
    · rintro ⟨h1, h2, h3, h4, h5⟩
      refine ⟨⟨⟨⟨h1, h2⟩, h3⟩, h4⟩, ?_⟩
      cases he : I.enforce t with
      | false => left; rfl
      | true => right; exact h5 he

/-- Every placed task of a locally valid plan is compatible with its worker. -/
theorem placed_compatible {I : Inst} {plan : Plan} (hwr : I.wfRunning = true)
    (hloc : ∀ t, t < I.nT → localB I plan t = true) {t : Nat} (ht : t < I.nT) {pl : Place}
    (hg : plan.get t = some pl) : compatible (I.worker pl.w) ((I.task t).strat pl.s) = true := by
  cases hr : I.running t with
  | true =>
    have := (localB_running hr).mp (hloc t ht)
    rw [hg] at this; cases this
    exact (wfRunning_compat hwr ht hr).1
  | false =>
    have := (localB_nonrunning hr).mp (hloc t ht)
    rw [hg] at this
    exact this.2.2.1

/-- Nothing is charged for a resource the worker does not own. -/
theorem load_zero_of_absent {I : Inst} {plan : Plan} (hwr : I.wfRunning = true)
    (hloc : ∀ t, t < I.nT → localB I plan t = true) (w : Nat) {r : String}
    (h0 : qty (I.worker w).res r = 0) (τ : Int) : load I plan w r τ = 0 := by
  unfold load
  apply nsum_map_zero
  intro t ht
  unfold demandAt
  cases hg : plan.get t with
  | none => rfl
  | some pl =>
    simp only
    by_cases hc : pl.w = w ∧ occupies I t pl τ
    · simp only [hc, and_self, ↓reduceIte]
      have := placed_compatible hwr hloc (List.mem_range.mp ht) hg
      rw [hc.1] at this
      exact compat_qty_zero this h0
    · simp [hc]

theorem validPlanB_sound {I : Inst} {plan : Plan} (hwr : I.wfRunning = true)
    (h : validPlanB I plan = true) : ValidPlan I plan := by
  simp only [validPlanB, Bool.and_eq_true, beq_iff_eq, List.all_eq_true, List.mem_range] at h
  obtain ⟨⟨hlen, hall⟩, hcap⟩ := h
  have hloc : ∀ t, t < I.nT → localB I plan t = true := fun t ht => (hall t ht).1
  refine ⟨hlen, ?_, ?_, ?_, ?_, ?_, ?_⟩
  · intro t ht hr
    exact (localB_running hr).mp (hloc t ht)
  · intro t pl ht hr hg
    have := (localB_nonrunning hr).mp (hloc t ht)
    rw [hg] at this
    exact ⟨this.1, this.2.1, this.2.2.1, this.2.2.2.1⟩
  · intro t pl ht hr he hg
    have := (localB_nonrunning hr).mp (hloc t ht)
    rw [hg] at this
    exact this.2.2.2.2 he
  · intro t ht hs hre
    have hr : I.running t = false := by simp [Inst.running, TaskI.running, hs]
    have := (localB_nonrunning hr).mp (hloc t ht)
    cases hg : plan.get t with
    | some pl => simp
    | none => rw [hg] at this; exact absurd ⟨hs, hre⟩ this
  · intro c plc hc hr hg p hp
    have := (hall c hc).2
    unfold precB at this
    simp only [hr, Bool.false_eq_true, ↓reduceIte, hg, List.all_eq_true] at this
    have := this p hp
    cases hgp : plan.get p with
    | none => simp [hgp] at this
    | some plp => exact ⟨plp, rfl, by simpa [hgp] using this⟩
  · intro w hw r τ
    by_cases hz : load I plan w r τ = 0
    · omega
    · by_cases hr : r ∈ (I.worker w).types
      · obtain ⟨τ', hτ', hle⟩ := load_le_at_start I plan w r τ hz
        simp only [capacityB, List.all_eq_true, List.mem_range, decide_eq_true_eq] at hcap
        have := hcap w hw r hr τ' hτ'
        omega
      · exfalso
        apply hz
        apply load_zero_of_absent hwr hloc
        exact qty_eq_zero_of_not_mem (by simpa [WorkerI.types, List.mem_eraseDups] using hr)

theorem validPlanB_complete {I : Inst} {plan : Plan} (h : ValidPlan I plan) :
    validPlanB I plan = true := by
  simp only [validPlanB, Bool.and_eq_true, beq_iff_eq, List.all_eq_true, List.mem_range]
  refine ⟨⟨h.len, ?_⟩, ?_⟩
  · intro t ht
    constructor
    · cases hr : I.running t with
      | true => exact (localB_running hr).mpr (h.running t ht hr)
      | false =>
        apply (localB_nonrunning hr).mpr
        cases hg : plan.get t with
        | none =>
          simp only
          rintro ⟨hs, hre⟩
          have := h.required t ht hs hre
          simp [hg] at this
        | some pl =>
          have h1 := h.wf t pl ht hr hg
          exact ⟨h1.1, h1.2.1, h1.2.2.1, h1.2.2.2, fun he => h.deadline t pl ht hr he hg⟩
    · unfold precB
      cases hr : I.running t with
      | true => simp
      | false =>
        simp only [Bool.false_eq_true, ↓reduceIte]
        cases hg : plan.get t with
        | none => rfl
        | some plc =>
          simp only [List.all_eq_true]
          intro p hp
          obtain ⟨plp, hgp, hle⟩ := h.prec t plc ht hr hg p hp
          simp [hgp, hle]
  · simp only [capacityB, List.all_eq_true, List.mem_range, decide_eq_true_eq]
    intro w hw r _ τ _
    exact h.capacity w hw r τ

theorem validPlanB_iff {I : Inst} {plan : Plan} (hwr : I.wfRunning = true) :
    validPlanB I plan = true ↔ ValidPlan I plan :=
  ⟨validPlanB_sound hwr, validPlanB_complete⟩

/-! ### The exhaustive search -/

theorem omax_some_ge {a b : Option Nat} {v : Nat} (h : b = some v) : ∃ m, omax a b = some m ∧ v ≤ m := by
  subst h
  cases a with
  | none => exact ⟨v, rfl, Nat.le_refl _⟩
  | some x => exact ⟨max x v, rfl, Nat.le_max_right _ _⟩

theorem omax_mono_left {a b : Option Nat} {v : Nat} (h : a = some v) : ∃ m, omax a b = some m ∧ v ≤ m := by
  subst h
  cases b with
  | none => exact ⟨v, rfl, Nat.le_refl _⟩
  | some x => exact ⟨max v x, rfl, Nat.le_max_left _ _⟩

theorem omax_eq_some {a b : Option Nat} {m : Nat} (h : omax a b = some m) : a = some m ∨ b = some m := by
  cases a with
  | none => right; simpa [omax] using h
  | some x =>
    cases b with
    | none => left; simpa [omax] using h
    | some y =>
      simp only [omax, Option.some.injEq] at h
      by_cases hxy : x ≤ y
      · right; rw [← h, Nat.max_eq_right hxy]
      · left; rw [← h, Nat.max_eq_left (by omega)]

/-- The fold of one search level, abstractly. -/
def level {α : Type} (skip : α → Bool) (f : α → Option Nat) (l : List α) (init : Option Nat) : Option Nat :=
  l.foldl (fun best c => if skip c then best else omax best (f c)) init

theorem level_some {α : Type} (skip : α → Bool) (f : α → Option Nat) :
    ∀ (l : List α) (init : Option Nat) (m : Nat), level skip f l init = some m →
      init = some m ∨ ∃ c ∈ l, skip c = false ∧ f c = some m := by
  intro l
  induction l with
  | nil => intro init m h; left; simpa [level] using h
  | cons x xs ih =>
    intro init m h
    simp only [level, List.foldl_cons] at h
    rcases ih _ m h with h1 | ⟨c, hc, hs, hf⟩
    · by_cases hx : skip x = true
      · simp only [hx, ↓reduceIte] at h1; left; exact h1
      · simp only [hx, Bool.false_eq_true, ↓reduceIte] at h1
        rcases omax_eq_some h1 with h2 | h2
        · left; exact h2
        · right; exact ⟨x, by simp, by simpa using hx, h2⟩
    · right; exact ⟨c, by simp [hc], hs, hf⟩

theorem level_ge_init {α : Type} (skip : α → Bool) (f : α → Option Nat) :
    ∀ (l : List α) (init : Option Nat) (v : Nat), init = some v →
      ∃ m, level skip f l init = some m ∧ v ≤ m := by
  intro l
  induction l with
  | nil => intro init v h; exact ⟨v, by simpa [level] using h, Nat.le_refl _⟩
  | cons x xs ih =>
    intro init v h
    simp only [level, List.foldl_cons]
    by_cases hx : skip x = true
    · simp only [hx, ↓reduceIte]; exact ih init v h
    · simp only [hx, Bool.false_eq_true, ↓reduceIte]
      obtain ⟨m1, hm1, hle1⟩ := omax_mono_left (b := f x) h
      obtain ⟨m, hm, hle⟩ := ih _ m1 hm1
      exact ⟨m, hm, by omega⟩

theorem level_ge {α : Type} (skip : α → Bool) (f : α → Option Nat) :
    ∀ (l : List α) (init : Option Nat) (c : α) (v : Nat), c ∈ l → skip c = false → f c = some v →
      ∃ m, level skip f l init = some m ∧ v ≤ m := by
  intro l
  induction l with
  | nil => intro init c v hc; simp at hc
  | cons x xs ih =>
    intro init c v hc hs hf
    simp only [List.mem_cons] at hc
    rcases hc with rfl | hc
    · simp only [level, List.foldl_cons, hs, Bool.false_eq_true, ↓reduceIte]
      obtain ⟨m1, hm1, hle1⟩ := omax_some_ge (a := init) hf
      obtain ⟨m, hm, hle⟩ := level_ge_init skip f xs _ m1 hm1
      exact ⟨m, hm, by omega⟩
    · simp only [level, List.foldl_cons]
      exact ih _ c v hc hs hf

theorem search_succ (I : Inst) (cap ok : Plan → Bool) (k : Nat) (acc : Plan) :
    search I cap ok (k + 1) acc =
      level (fun c => c.isSome && !cap ((c :: acc).reverse ++ List.replicate k none))
        (fun c => search I cap ok k (c :: acc)) (candidates I (I.nT - (k + 1))) none := rfl

/-- Every value returned by the search is the goodput of an accepted completion. -/
theorem search_sound (I : Inst) (cap ok : Plan → Bool) :
    ∀ (k : Nat) (acc : Plan) (m : Nat), search I cap ok k acc = some m →
      ∃ ext : Plan, ext.length = k ∧ ok (acc.reverse ++ ext) = true ∧ goodput I (acc.reverse ++ ext) = m := by
  intro k
  induction k with
  | zero =>
    intro acc m h
    simp only [search] at h
    split at h
    · rename_i hok
      cases h
      exact ⟨[], rfl, by simpa using hok, by simp⟩
    · cases h
  | succ k ih =>
    intro acc m h
    rw [search_succ] at h
    rcases level_some _ _ _ _ _ h with h0 | ⟨c, _, _, hf⟩
    · cases h0
    · obtain ⟨ext, hlen, hok, hg⟩ := ih (c :: acc) m hf
      refine ⟨c :: ext, by simp [hlen], ?_, ?_⟩
      · simpa [List.reverse_cons, List.append_assoc] using hok
      · simpa [List.reverse_cons, List.append_assoc] using hg

/-- Every accepted completion whose entries are candidates, and which the pruning test never
rejects, is dominated by the value returned. -/
theorem search_complete (I : Inst) (cap ok : Plan → Bool)
    (hcap : ∀ pre suf : Plan, ok (pre ++ suf) = true → cap (pre ++ List.replicate suf.length none) = true) :
    ∀ (k : Nat) (acc ext : Plan), ext.length = k → acc.length + k = I.nT →
      (∀ i, i < k → ext.getD i none ∈ candidates I (acc.length + i)) →
      ok (acc.reverse ++ ext) = true →
      ∃ m, search I cap ok k acc = some m ∧ goodput I (acc.reverse ++ ext) ≤ m := by
  intro k
  induction k with
  | zero =>
    intro acc ext hlen _ _ hok
    have : ext = [] := List.length_eq_zero_iff.mp hlen
    subst this
    simp only [List.append_nil] at hok ⊢
    exact ⟨goodput I acc.reverse, by simp [search, hok], Nat.le_refl _⟩
  | succ k ih =>
    intro acc ext hlen hsum hcand hok
    cases ext with
    | nil => simp at hlen
    | cons c ext' =>
      simp only [List.length_cons, Nat.add_right_cancel_iff] at hlen
      have hidx : I.nT - (k + 1) = acc.length := by omega
      have hc : c ∈ candidates I (I.nT - (k + 1)) := by
        rw [hidx]; simpa using hcand 0 (by omega)
      have hok' : ok ((c :: acc).reverse ++ ext') = true := by
        simpa [List.reverse_cons, List.append_assoc] using hok
      obtain ⟨m', hm', hle'⟩ := ih (c :: acc) ext' hlen (by simp; omega)
        (by
          intro i hi
          have := hcand (i + 1) (by omega)
          simpa [Nat.add_assoc, Nat.add_comm 1 i] using this)
        hok'
      have hskip : (c.isSome && !cap ((c :: acc).reverse ++ List.replicate k none)) = false := by
        have := hcap ((c :: acc).reverse) ext' hok'
        rw [hlen] at this
        rw [this]; simp
      rw [search_succ]
      obtain ⟨m, hm, hle⟩ := level_ge
        (fun c => c.isSome && !cap ((c :: acc).reverse ++ List.replicate k none))
        (fun c => search I cap ok k (c :: acc)) _ none c m' hc hskip hm'
      refine ⟨m, hm, ?_⟩
      have e : acc.reverse ++ c :: ext' = (c :: acc).reverse ++ ext' := by
        simp [List.reverse_cons, List.append_assoc]
      rw [e]; omega

/-! ### `optGoodput` is the maximum goodput over valid plans -/

theorem capacityB_mono {I : Inst} {plan plan' : Plan}
    (h : ∀ t, plan'.get t = none ∨ plan'.get t = plan.get t) (hc : capacityB I plan = true) :
    capacityB I plan' = true := by
  simp only [capacityB, List.all_eq_true, List.mem_range, decide_eq_true_eq] at hc ⊢
  intro w hw r hr τ hτ
  have hτ' : τ ∈ placedStarts I plan := by
    simp only [placedStarts, List.mem_filterMap, List.mem_range] at hτ ⊢
    obtain ⟨t, ht, hs⟩ := hτ
    refine ⟨t, ht, ?_⟩
    rcases h t with h0 | h1
    · simp [h0] at hs
    · rw [← h1]; exact hs
  have hle : load I plan' w r τ ≤ load I plan w r τ := by
    unfold load
    apply nsum_map_le
    intro t _
    unfold demandAt
    rcases h t with h0 | h1
    · simp [h0]
    · rw [h1]; exact Nat.le_refl _
  have := hc w hw r hr τ hτ'
  omega

theorem get_append_left (pre suf : Plan) {t : Nat} (ht : t < pre.length) :
    Plan.get (pre ++ suf) t = Plan.get pre t := by
  simp [Plan.get, List.getD_eq_getElem?_getD, List.getElem?_append_left ht]

theorem get_append_nones (pre : Plan) (n t : Nat) :
    Plan.get (pre ++ List.replicate n none) t = none ∨
    (t < pre.length ∧ Plan.get (pre ++ List.replicate n none) t = Plan.get pre t) := by
  by_cases ht : t < pre.length
  · right; exact ⟨ht, get_append_left pre _ ht⟩
  · left
    simp only [Plan.get, List.getD_eq_getElem?_getD]
    rw [List.getElem?_append_right (by omega)]
    cases h : (List.replicate n (none : Option Place))[t - pre.length]? with
    | none => rfl
    | some v =>
      have := List.mem_of_getElem? h
      simp only [List.mem_replicate] at this
      simp [this.2]

theorem prune_ok (I : Inst) (pre suf : Plan) (h : validPlanB I (pre ++ suf) = true) :
    capacityB I (pre ++ List.replicate suf.length none) = true := by
  have hc : capacityB I (pre ++ suf) = true := by
    simp only [validPlanB, Bool.and_eq_true] at h; exact h.2
  apply capacityB_mono _ hc
  intro t
  rcases get_append_nones pre suf.length t with h0 | ⟨ht, h1⟩
  · left; exact h0
  · right; rw [h1, get_append_left pre suf ht]

/-- Every entry of a valid plan is one of the enumerated candidates (deadlines enforced). -/
theorem mem_candidates {I : Inst} {plan : Plan} (hv : ValidPlan I plan)
    (henf : ∀ t, t < I.nT → I.running t = false → I.enforce t = true) {t : Nat} (ht : t < I.nT) :
    plan.get t ∈ candidates I t := by
  unfold candidates
  cases hr : I.running t with
  | true => simp [hv.running t ht hr]
  | false =>
    simp only [Bool.false_eq_true, ↓reduceIte]
    cases hg : plan.get t with
    | none => simp
    | some pl =>
      have hw := hv.wf t pl ht hr hg
      have hd := hv.deadline t pl ht hr (henf t ht hr) hg
      simp only [List.mem_cons, reduceCtorEq, List.mem_flatMap, List.mem_range, false_or]
      refine ⟨pl.w, hw.1, pl.s, hw.2.1, ?_⟩
      simp only [hw.2.2.1, ↓reduceIte, henf t ht hr, List.mem_map, List.mem_range, Option.some.injEq]
      unfold finish at hd
      refine ⟨(pl.start - I.startLb t).toNat, ?_, ?_⟩
      · have := hw.2.2.2
        omega
      · have := hw.2.2.2
        have e : ((pl.start - I.startLb t).toNat : Int) = pl.start - I.startLb t :=
          Int.toNat_of_nonneg (by omega)
        cases pl
        simp only [Place.mk.injEq, true_and] at *
        omega

/-- A value returned by `optGoodput` is attained by a valid plan. -/
theorem optGoodput_attained {I : Inst} (hwr : I.wfRunning = true) {m : Nat}
    (h : optGoodput I = some m) : ∃ plan, ValidPlan I plan ∧ goodput I plan = m := by
  obtain ⟨ext, _, hok, hg⟩ := search_sound I (capacityB I) (validPlanB I) I.nT [] m h
  exact ⟨[] ++ ext, validPlanB_sound hwr (by simpa using hok), by simpa using hg⟩

/-- Every valid plan is dominated by `optGoodput` (all deadlines enforced). -/
theorem optGoodput_dominates {I : Inst} {plan : Plan} (hv : ValidPlan I plan)
    (henf : ∀ t, t < I.nT → I.running t = false → I.enforce t = true) :
    ∃ m, optGoodput I = some m ∧ goodput I plan ≤ m := by
  have := search_complete I (capacityB I) (validPlanB I) (prune_ok I) I.nT [] plan hv.len (by simp)
    (by
      intro i hi
      have := mem_candidates hv henf hi
      simpa [Plan.get] using this)
    (by simpa using validPlanB_complete hv)
  simpa [optGoodput] using this

/-- **`optGoodput_spec`.** With every deadline enforced (the `max_goodput` setting without
graphs allowed to miss deadlines), the executable search returns exactly the maximum goodput
over the valid plans of the independent specification, and `none` iff there is none. -/
theorem optGoodput_spec {I : Inst} (hwr : I.wfRunning = true)
    (henf : ∀ t, t < I.nT → I.running t = false → I.enforce t = true) (m : Nat) :
    optGoodput I = some m ↔
      (∃ plan, ValidPlan I plan ∧ goodput I plan = m) ∧ ∀ plan, ValidPlan I plan → goodput I plan ≤ m := by
  constructor
  · intro h
    refine ⟨optGoodput_attained hwr h, fun plan hv => ?_⟩
    obtain ⟨m', hm', hle⟩ := optGoodput_dominates hv henf
    rw [h] at hm'; cases hm'; exact hle
  · rintro ⟨⟨plan, hv, hg⟩, hmax⟩
    obtain ⟨m', hm', hle⟩ := optGoodput_dominates hv henf
    obtain ⟨plan', hv', hg'⟩ := optGoodput_attained hwr hm'
    have := hmax plan' hv'
    have : m' = m := by omega
    rw [hm', this]

theorem optGoodput_none {I : Inst}
    (henf : ∀ t, t < I.nT → I.running t = false → I.enforce t = true)
    (h : optGoodput I = none) : ∀ plan, ¬ ValidPlan I plan := by
  intro plan hv
  obtain ⟨m, hm, _⟩ := optGoodput_dominates hv henf
  rw [h] at hm; cases hm

end ErdosVerif.IlpSpec
