import ErdosVerif.Lemmas.CancelClosure
/-!
Completion of a conditional task: exactly one child is released, every other
branch is cancelled and the cancellation is closed downstream up to (but
excluding) join tasks that still have a live parent. Core Lean only.
-/
namespace ErdosVerif.Model
namespace GraphS

/-- Structure (edges, terminal flags) is untouched by a cancellation walk. -/
theorem go_structure (root : Nat) (time : Int) :
    ∀ (fuel : Nat) (g : GraphS) (stack visited acc : List Nat),
      (∀ k, (cancel.go root time fuel g stack visited acc).g.kids k = g.kids k) ∧
      (∀ k, (cancel.go root time fuel g stack visited acc).g.pars k = g.pars k) ∧
      (∀ k, (cancel.go root time fuel g stack visited acc).g.terminalOf k = g.terminalOf k) := by
  intro fuel
  induction fuel with
  | zero => intro g stack visited acc; simp [cancel.go]
  | succ fuel ih =>
    intro g stack visited acc
    cases stack with
    | nil => simp [cancel.go]
    | cons c stack =>
      simp only [cancel.go]
      split
      · exact ih g stack visited acc
      · cases htc : g.task? c with
        | none => simp
        | some tc =>
          simp only []
          split
          · exact ih g stack visited acc
          · split
            · exact ih g stack (c :: visited) acc
            · cases hdc : tc.doCancel time with
              | mk t' e =>
                have hterm : t'.terminal = tc.terminal := by
                  unfold TaskS.doCancel at hdc
                  split at hdc
                  · simp only [Prod.mk.injEq] at hdc; rw [← hdc.1]
                  · simp only [Prod.mk.injEq] at hdc; rw [← hdc.1]
                cases e with
                | some e =>
                  simp only []
                  exact ⟨fun k => kids_setTask g c k t', fun k => pars_setTask g c k t',
                         fun k => terminalOf_setTask g c k t' tc htc hterm⟩
                | none =>
                  simp only []
                  obtain ⟨i1, i2, i3⟩ := ih (g.setTask c t') ((g.kids c).reverse ++ stack) (c :: visited) (c :: acc)
                  exact ⟨fun k => (i1 k).trans (kids_setTask g c k t'), fun k => (i2 k).trans (pars_setTask g c k t'),
                         fun k => (i3 k).trans (terminalOf_setTask g c k t' tc htc hterm)⟩

theorem cancel_structure (g : GraphS) (n : Nat) (time : Int) :
    (∀ k, (g.cancel n time).g.kids k = g.kids k) ∧ (∀ k, (g.cancel n time).g.pars k = g.pars k) ∧
    (∀ k, (g.cancel n time).g.terminalOf k = g.terminalOf k) := by
  unfold cancel; exact go_structure n time _ g [n] [] []

/-- The requested task itself ends up CANCELLED when the walk ends normally. -/
theorem cancel_root (g : GraphS) (n : Nat) (time : Int) (herr : (g.cancel n time).err = none) :
    (g.cancel n time).g.stateOf n = .cancelled := by
  -- one unfolding of the walk, then the frame lemma keeps it cancelled
  have hfr := cancel_frame g n time herr n
  rcases hfr with h | ⟨_, h, _⟩
  · -- state unchanged: then it was already cancelled (otherwise the first step cancels it)
    rw [h]
    unfold cancel at herr h
    cases hsz : g.size * g.size + g.size + 1 with
    | zero => omega
    | succ fuel =>
      rw [hsz] at herr h
      simp only [cancel.go, List.contains_nil, Bool.false_eq_true, if_false] at herr h
      cases htc : g.task? n with
      | none => simp [htc] at herr
      | some tc =>
        simp only [htc, bne_self_eq_false, Bool.and_false, Bool.false_and, Bool.false_eq_true, if_false] at herr h
        by_cases hc : (tc.state == .cancelled) = true
        · simp [stateOf, htc]; simpa using hc
        · simp only [hc, Bool.false_eq_true, if_false] at herr h
          cases hdc : tc.doCancel time with
          | mk t' e =>
            simp only [hdc] at herr h
            cases e with
            | some e => simp at herr
            | none =>
              simp only [List.append_nil] at herr h
              -- the walk continues from a graph where `n` is cancelled; the frame keeps it so
              have hst : (g.setTask n t').stateOf n = .cancelled := by
                rw [stateOf_setTask_self g n t' tc htc]; exact (doCancel_ok tc time t' hdc).1
              have := go_frame (g.setTask n t') n time fuel (g.setTask n t') (g.kids n).reverse [n] [n]
                (fun k => Or.inl rfl)
              rcases this with fr | fr
              · rcases fr n with q | ⟨_, q, _⟩
                · rw [q, hst] at h; exact h.symm
                · rw [q] at h; exact h.symm
              · simp [herr] at fr
  · exact h

/-- Downstream closure of a set of cancelled tasks in a final graph state. -/
def DownClosed (g0 g : GraphS) (S : List Nat) : Prop :=
  ∀ c ∈ S, ∀ k ∈ g0.kids c,
    g.stateOf k = .cancelled ∨ (g0.terminalOf k = true ∧ ∃ p ∈ g0.pars k, g.stateOf p ≠ .cancelled)

/-- Closure composes over successive cancellations. -/
theorem downClosed_step (g0 g1 : GraphS) (S : List Nat) (n : Nat) (time : Int)
    (hwf : g0.EdgesWF) (hk : ∀ k, g1.kids k = g0.kids k) (hp : ∀ k, g1.pars k = g0.pars k)
    (ht : ∀ k, g1.terminalOf k = g0.terminalOf k)
    (hcl : DownClosed g0 g1 S) (herr : (g1.cancel n time).err = none) :
    DownClosed g0 (g1.cancel n time).g (S ++ (g1.cancel n time).cancelled) := by
  have hwf1 : g1.EdgesWF := fun p k h => by rw [hk]; exact hwf p k (by rw [← hp]; exact h)
  have closed := cancel_closed g1 n time hwf1 herr
  have frame := cancel_frame g1 n time herr
  have mono : ∀ k, g1.stateOf k = .cancelled → (g1.cancel n time).g.stateOf k = .cancelled := by
    intro k h
    rcases frame k with q | ⟨_, q, _⟩
    · rw [q]; exact h
    · exact q
  -- closure of the newly cancelled tasks, in terms of g0's structure
  have newc : ∀ c ∈ (g1.cancel n time).cancelled, ∀ k ∈ g0.kids c,
      (g1.cancel n time).g.stateOf k = .cancelled ∨
      (g0.terminalOf k = true ∧ ∃ p ∈ g0.pars k, (g1.cancel n time).g.stateOf p ≠ .cancelled) := by
    intro c hc k hkk
    rcases closed c hc k (by rw [hk]; exact hkk) with q | ⟨q1, _, p, hpp, q3⟩
    · exact Or.inl q
    · exact Or.inr ⟨by rw [← ht]; exact q1, p, by rw [← hp]; exact hpp, q3⟩
  intro c hc k hkk
  rcases List.mem_append.mp hc with hc | hc
  · rcases hcl c hc k hkk with q | ⟨q1, p, hpp, q3⟩
    · exact Or.inl (mono k q)
    · by_cases hpc : (g1.cancel n time).g.stateOf p = .cancelled
      · -- that parent was cancelled by this call: use its closure
        rcases frame p with q | ⟨hin, _, _⟩
        · rw [q] at hpc; exact absurd hpc q3
        · exact newc p hin k (hwf p k hpp)
      · exact Or.inr ⟨q1, p, hpp, hpc⟩
  · exact newc c hc k hkk

/-- What `cancelBranches` guarantees when it ends normally. -/
theorem cancelBranches_spec (g0 : GraphS) (finish : Int) (skip : Option Nat) (hwf : g0.EdgesWF) :
    ∀ (kids : List Nat) (g : GraphS) (acc : List Nat),
      (∀ k, g.kids k = g0.kids k) → (∀ k, g.pars k = g0.pars k) → (∀ k, g.terminalOf k = g0.terminalOf k) →
      DownClosed g0 g acc →
      (cancelBranches g finish skip kids acc).2.2 = none →
      DownClosed g0 (cancelBranches g finish skip kids acc).1 (cancelBranches g finish skip kids acc).2.1 ∧
      (∀ c ∈ kids, some c ≠ skip → (cancelBranches g finish skip kids acc).1.stateOf c = .cancelled) ∧
      (∀ k, g.stateOf k = .cancelled → (cancelBranches g finish skip kids acc).1.stateOf k = .cancelled) := by
  intro kids
  induction kids with
  | nil => intro g acc _ _ _ hcl _; exact ⟨by simpa [cancelBranches] using hcl, by simp, by simp [cancelBranches]⟩
  | cons c rest ih =>
    intro g acc hk hp ht hcl herr
    simp only [cancelBranches] at herr ⊢
    by_cases hs : some c = skip
    · simp only [hs, beq_self_eq_true, if_true] at herr ⊢
      cases htc : g.task? c with
      | none =>
        simp only [htc] at herr ⊢
        obtain ⟨i1, i2, i3⟩ := ih g acc hk hp ht hcl herr
        exact ⟨i1, fun x hx hne => by
          simp only [List.mem_cons] at hx
          rcases hx with hx | hx
          · subst hx; exact absurd hs hne
          · exact i2 x hx hne, i3⟩
      | some tc =>
        simp only [htc] at herr ⊢
        -- only the probability of the chosen child changes
        have hst : ∀ k, (g.setTask c { tc with prob := 1000 }).stateOf k = g.stateOf k := by
          intro k
          by_cases hkc : k = c
          · subst hkc; rw [stateOf_setTask_self g k _ tc htc]; simp [stateOf, htc]
          · exact stateOf_setTask_ne g c k _ hkc
        have hcl' : DownClosed g0 (g.setTask c { tc with prob := 1000 }) acc := by
          intro a ha k hkk
          rcases hcl a ha k hkk with q | ⟨q1, p, hpp, q3⟩
          · exact Or.inl (by rw [hst]; exact q)
          · exact Or.inr ⟨q1, p, hpp, by rw [hst]; exact q3⟩
        obtain ⟨i1, i2, i3⟩ := ih (g.setTask c { tc with prob := 1000 }) acc
          (fun k => (kids_setTask g c k _).trans (hk k)) (fun k => (pars_setTask g c k _).trans (hp k))
          (fun k => (terminalOf_setTask g c k { tc with prob := 1000 } tc htc rfl).trans (ht k)) hcl' herr
        exact ⟨i1, fun x hx hne => by
          simp only [List.mem_cons] at hx
          rcases hx with hx | hx
          · subst hx; exact absurd hs hne
          · exact i2 x hx hne, fun k hkc => i3 k (by rw [hst]; exact hkc)⟩
    · have hs' : (some c == skip) = false := by simpa using hs
      simp only [hs', Bool.false_eq_true, if_false] at herr ⊢
      cases he : (g.cancel c finish).err with
      | some e => simp [he] at herr
      | none =>
        simp only [he] at herr ⊢
        have step := downClosed_step g0 g acc c finish hwf hk hp ht hcl he
        obtain ⟨s1, s2, s3⟩ := cancel_structure g c finish
        obtain ⟨i1, i2, i3⟩ := ih (g.cancel c finish).g (acc ++ (g.cancel c finish).cancelled)
          (fun k => (s1 k).trans (hk k)) (fun k => (s2 k).trans (hp k)) (fun k => (s3 k).trans (ht k)) step herr
        have mono : ∀ k, g.stateOf k = .cancelled → (g.cancel c finish).g.stateOf k = .cancelled := by
          intro k h
          rcases cancel_frame g c finish he k with q | ⟨_, q, _⟩
          · rw [q]; exact h
          · exact q
        refine ⟨i1, ?_, fun k hkc => i3 k (mono k hkc)⟩
        intro x hx hne
        simp only [List.mem_cons] at hx
        rcases hx with hx | hx
        · subst hx; exact i3 x (cancel_root g x finish he)
        · exact i2 x hx hne

end GraphS
end ErdosVerif.Model

namespace ErdosVerif.Model
namespace GraphS

/-- **Completion of a conditional task**: the child drawn by `random.choices` is
the only task released; every other child ends up CANCELLED and the set of
cancelled tasks is closed downstream (up to joins that still have a live
parent); exactly one draw is consumed. -/
theorem conditional_completion (g : GraphS) (n : Nat) (finish : Int) (tape tape' : List Draw) (t : TaskS)
    (i chosen : Nat) (hwf : g.EdgesWF) (ht : g.task? n = some t) (hc : t.isComplete = true)
    (hcond : t.conditional = true)
    (hp : ((g.kids n).map (fun c => ((g.task? c).map (·.prob)).getD 0)).all (· ≤ 0) = false)
    (hsum : ((g.kids n).map (fun c => ((g.task? c).map (·.prob)).getD 0)).foldl (· + ·) 0 = 1000)
    (htape : tape = .choices i :: tape') (hch : (g.kids n)[i]? = some chosen)
    (herr : (g.notifyCompletion n finish tape).err = none) :
    (g.notifyCompletion n finish tape).released = [chosen] ∧
    (g.notifyCompletion n finish tape).tape = tape' ∧
    (∀ c ∈ g.kids n, c ≠ chosen → (g.notifyCompletion n finish tape).g.stateOf c = .cancelled) ∧
    DownClosed g (g.notifyCompletion n finish tape).g (g.notifyCompletion n finish tape).cancelled := by
  subst htape
  unfold notifyCompletion at herr ⊢
  simp only [ht, hc, hcond, Bool.not_true, Bool.false_eq_true, if_false, if_true, hp, hsum, bne_self_eq_false,
    hch] at herr ⊢
  split at herr
  · simp at herr
  · rename_i hst
    simp only [hst, Bool.false_eq_true, if_false]
    cases hcb : cancelBranches g finish (some chosen) (g.kids n) [] with
    | mk g' rest =>
      obtain ⟨cancelled, e⟩ := rest
      simp only [hcb] at herr ⊢
      cases e with
      | some e => simp at herr
      | none =>
        simp only []
        have spec := cancelBranches_spec g finish (some chosen) hwf (g.kids n) g []
          (fun _ => rfl) (fun _ => rfl) (fun _ => rfl) (by intro c hc; simp at hc) (by rw [hcb])
        rw [hcb] at spec
        simp only at spec
        refine ⟨trivial, trivial, ?_, spec.1⟩
        intro c hc hne
        exact spec.2.1 c hc (by simpa using hne)

end GraphS
end ErdosVerif.Model
