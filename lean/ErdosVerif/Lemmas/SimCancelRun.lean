import ErdosVerif.Lemmas.SimCancel
/-!
The cancelled-task counter against the `.cancel` history entries, part 2: Hoare triples for
the primitives.
-/
open Std.Do
set_option mvcgen.warning false

namespace ErdosVerif.Model.Sim.CC
open Heap

abbrev IA (ex : List SEvent) : Assertion (.except SErr (.arg SimS .pure)) := fun s => ⌜Inv ex s⌝
abbrev WA : Assertion (.except SErr (.arg SimS .pure)) := fun s => ⌜W s⌝
/-- `x` keeps the invariant (whatever events exist outside the queue); an exception leaves the
weak form. -/
abbrev Keeps {α} (ex : List SEvent) (x : SimM α) : Prop := ⦃IA ex⦄ x ⦃post⟨fun _ => IA ex, fun _ => WA⟩⦄
abbrev cLoop {β} (ex : List SEvent) : PostCond β (.except SErr (.arg SimS .pure)) :=
  post⟨fun _ s => ⌜Inv ex s⌝, fun _ s => ⌜W s⌝⟩

macro "c_close0" : tactic => `(tactic| first
  | (intros; rfl)
  | assumption
  | (intro s h; exact h)
  | (pick_hyp h => exact h)
  | (pick_hyp h => exact h.1)
  | (pick_hyp h => exact Inv.congr _ _ h rfl rfl rfl rfl rfl)
  | (pick_hyp h => exact Inv.congr _ _ h.1 rfl rfl rfl rfl rfl)
  | (pick_hyp h => exact Inv.weak h)
  | (pick_hyp h => exact Inv.weak h.1)
  | (intro s h; exact Inv.weak h)
  | (pick_hyp h => exact Inv.weak (Inv.congr _ _ h rfl rfl rfl rfl rfl))
  | (pick_hyp h => exact W.congr _ _ h rfl rfl)
  | (pick_hyp h => exact Inv.log _ _ _ h rfl rfl rfl rfl rfl rfl)
  | exact ⟨fun _ _ h => Inv.weak h, trivial⟩
  | exact ⟨fun _ _ h => h, trivial⟩)
macro "c_close" : tactic => `(tactic| first
  | c_close0
  | (simp_all; done))

theorem row_c (ex : List SEvent) (r : Row) : Keeps ex (row r) := by
  mvcgen [row]
  all_goals c_close
theorem logE_c (ex : List SEvent) (e : LogE) (he : isCancelLog e = false) : Keeps ex (logE e) := by
  mvcgen [logE]
  rename_i s h _
  exact Inv.log s _ e h he rfl rfl rfl rfl rfl
theorem liftE_c {α} (ex : List SEvent) (e : Except SErr α) : Keeps ex (liftE e) := by
  unfold liftE; cases e <;> mvcgen <;> c_close
theorem getGraph_c (ex : List SEvent) (gi : Nat) : Keeps ex (getGraph gi) := by
  mvcgen [getGraph]
  all_goals c_close
theorem setGraph_c (ex : List SEvent) (gi : Nat) (g : GraphS) : Keeps ex (setGraph gi g) := by
  mvcgen [setGraph]
  all_goals c_close
theorem raiseTask_c (ex : List SEvent) (e : Option SErr) : Keeps ex (raiseTask e) := by
  unfold raiseTask; cases e <;> mvcgen <;> c_close
attribute [local spec] row_c logE_c liftE_c getGraph_c setGraph_c raiseTask_c

theorem getTask_c (ex : List SEvent) (t : TaskId) : Keeps ex (getTask t) := by
  mvcgen [getTask]
  all_goals c_close
attribute [local spec] getTask_c
theorem taskCall_c (ex : List SEvent) (t : TaskId) (c : TaskCall) : Keeps ex (taskCall t c) := by
  mvcgen [taskCall]
  all_goals c_close
theorem liftTape_c {α} (ex : List SEvent) (x : TapeM α) : Keeps ex (liftTape x) := by
  mvcgen [liftTape]
  all_goals c_close
/-- Queueing an event that exists outside the queue. -/
theorem addEvent_c (ex : List SEvent) (e : SEvent) :
    ⦃IA (e :: ex)⦄ addEvent e ⦃post⟨fun _ => IA ex, fun _ => WA⟩⦄ := by
  mvcgen [addEvent]
  rename_i s h _
  exact Inv.perm s _ h ((perm_heappush _ _ _).trans List.perm_middle.symm) rfl rfl rfl (fun _ h => h)
theorem reheapify_c (ex : List SEvent) : Keeps ex reheapify := by
  mvcgen [reheapify]
  rename_i s h _
  exact Inv.perm s _ h (perm_heapify _ _) rfl rfl rfl (fun _ h => h)
/-- `remove_event` of a cached placement event. -/
theorem removeEvent_c (ex : List SEvent) (eid : Nat) (t : TaskId) :
    ⦃fun s => ⌜Inv ex s ∧ s.future.get? t = some eid⌝⦄ removeEvent eid ⦃post⟨fun _ => IA ex, fun _ => WA⟩⦄ := by
  mvcgen [removeEvent]
  all_goals first
    | c_close0
    | (pick_hyp h => pick_hyp hi => exact Inv.remove _ _ eid _ t h.1 hi h.2 rfl rfl rfl rfl (fun _ h => h))
theorem editEvent_c (ex : List SEvent) (eid : Nat) (f : SEvent → SEvent)
    (hf : ∀ e, (f e).ev.etype = e.ev.etype ∧ (f e).ev.eid = e.ev.eid) : Keeps ex (editEvent eid f) := by
  mvcgen [editEvent]
  rename_i s h _
  refine Inv.map s _ (fun e => if e.ev.eid == eid then f e else e) h ?_ rfl rfl rfl rfl rfl
  intro e
  split
  · exact ⟨by unfold isTC; rw [(hf e).1], (hf e).2⟩
  · exact ⟨rfl, rfl⟩
theorem findEvent_c (ex : List SEvent) (eid : Nat) : Keeps ex (findEvent eid) := by mvcgen [findEvent]
theorem nextOfType_c (ex : List SEvent) (ty : Nat) : Keeps ex (nextOfType ty) := by mvcgen [nextOfType]
theorem placedTasks_c (ex : List SEvent) : Keeps ex placedTasks := by mvcgen [placedTasks]
/-- The popped event now exists outside the queue. -/
theorem popEvent_c (ex : List SEvent) :
    ⦃IA ex⦄ popEvent ⦃post⟨fun r => IA (r :: ex), fun _ => WA⟩⦄ := by
  mvcgen [popEvent]
  all_goals first
    | c_close0
    | (pick_hyp h => pick_hyp hp => exact Inv.perm _ _ h (perm_heappop _ _ _ _ hp) rfl rfl rfl (fun _ h => h))
theorem getPool_c (ex : List SEvent) (p : Nat) : Keeps ex (getPool p) := by
  mvcgen [getPool]
  all_goals c_close
theorem setPool_c (ex : List SEvent) (p : Nat) (x : Pool) : Keeps ex (setPool p x) := by
  mvcgen [setPool]
  all_goals c_close
theorem raiseOutcome_c (ex : List SEvent) (o : Outcome) : Keeps ex (raiseOutcome o) := by
  unfold raiseOutcome
  cases o with
  | ok => mvcgen
  | raised e => cases e <;> mvcgen <;> c_close
theorem raisePlace_c (ex : List SEvent) (r : Except PyErr Bool) : Keeps ex (raisePlace r) := by
  unfold raisePlace
  cases r with
  | ok b => mvcgen
  | error e => cases e <;> mvcgen <;> c_close
theorem advanceClock_c (ex : List SEvent) (dt : Int) : Keeps ex (advanceClock dt) := by
  mvcgen [advanceClock]
  rename_i s h _
  exact Inv.log s _ (.clock (s.now + dt)) h rfl rfl rfl rfl rfl rfl

attribute [local spec] taskCall_c liftTape_c addEvent_c reheapify_c removeEvent_c editEvent_c findEvent_c nextOfType_c
  placedTasks_c popEvent_c getPool_c setPool_c raiseOutcome_c raisePlace_c advanceClock_c

theorem uniqueName_c (ex : List SEvent) (t : TaskId) : Keeps ex (uniqueName t) := by
  mvcgen [uniqueName]
  all_goals c_close
attribute [local spec] uniqueName_c
theorem startTask_c (ex : List SEvent) (t : TaskId) (g : GraphS) (h : g.isReadyToRun t.t = true) (time fuzzed : Int) :
    Keeps ex (startTask t g h time fuzzed) := by
  mvcgen [startTask]
  all_goals c_close
/-- A fresh event of a type other than TASK_CANCEL (it exists outside the queue). -/
theorem mkEvent_c (ex : List SEvent) (a : Nat) (b : Int) (c : Option TaskId) (d : Option PlacementS) (e : Option Nat)
    (ha : (a == ET.taskCancel) = false) :
    ⦃IA ex⦄ mkEvent a b c d e ⦃post⟨fun r => IA (r :: ex), fun _ => WA⟩⦄ := by
  mvcgen [mkEvent]
  all_goals first
    | c_close0
    | (pick_hyp h => exact Inv.fresh _ _ _ h (by exact ha) List.perm_middle rfl rfl rfl (fun _ h => .inl h))
attribute [local spec] startTask_c mkEvent_c

/-! ### workload level -/

theorem logUtilization_c (ex : List SEvent) (time : Int) : Keeps ex (logUtilization time) := by
  mvcgen [logUtilization]
  case inv1 => exact cLoop ex
  case inv2 => exact cLoop ex
  all_goals c_close
theorem schedulable_c (ex : List SEvent) (time : Int) : Keeps ex (schedulable time) := by
  mvcgen [schedulable]
  case inv1 => exact cLoop ex
  all_goals c_close
theorem releasable_c (ex : List SEvent) : Keeps ex releasable := by mvcgen [releasable]
theorem notifyGraphCompletion_c (ex : List SEvent) (gi : Nat) (finish : Int) :
    Keeps ex (notifyGraphCompletion gi finish) := by
  mvcgen [notifyGraphCompletion]
  all_goals c_close

end ErdosVerif.Model.Sim.CC
