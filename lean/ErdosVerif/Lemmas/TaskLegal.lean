import ErdosVerif.Model.Task
import ErdosVerif.Gen.Tables
/-!
The task life cycle as a relation, and the proof that every `Task` API call is
either refused (state unchanged) or takes a legal step. Core Lean only.
-/
namespace ErdosVerif.Model

/-- The legal life-cycle steps of property C06 (plus the preemption / eviction
steps the class also implements). -/
def Legal : TState → TState → Bool
  | .virtual, .released => true
  | .released, .scheduled => true
  | .virtual, .scheduled => true            -- scheduled ahead of its release
  | .scheduled, .running => true
  | .running, .completed => true
  | .scheduled, .virtual => true            -- plan skipped / retracted: back to the earlier state
  | .scheduled, .released => true
  | .virtual, .cancelled => true
  | .released, .cancelled => true
  | .scheduled, .cancelled => true
  | .running, .preempted => true
  | .preempted, .scheduled => true
  | .running, .evicted => true
  | .preempted, .evicted => true
  | .preempted, .completed => true
  | _, _ => false

/-- `_pre_scheduling_state` is only ever VIRTUAL or RELEASED. -/
def TaskS.PreOK (t : TaskS) : Prop := t.pre = .virtual ∨ t.pre = .released

/-- A call is fine if it leaves the state alone or takes a legal step. -/
def StepOK (a b : TState) : Prop := a = b ∨ Legal a b = true

theorem updateRemaining_state (t : TaskS) (r : Int) :
    (t.updateRemaining r).1.state = t.state ∧ (t.updateRemaining r).1.pre = t.pre := by
  unfold TaskS.updateRemaining; split
  · exact ⟨rfl, rfl⟩
  · split <;> exact ⟨rfl, rfl⟩

/-- Every API call keeps `_pre_scheduling_state ∈ {VIRTUAL, RELEASED}`. -/
theorem call_preOK (t : TaskS) (c : TaskCall) (h : t.PreOK) : (t.call c).1.PreOK := by
  cases c with
  | release time =>
    simp only [TaskS.call, TaskS.doRelease]
    split
    · exact h
    · split
      · exact h
      · cases time <;> simp only [] <;> split <;> first | exact Or.inr rfl | exact h
  | schedule time p =>
    simp only [TaskS.call, TaskS.doSchedule]
    split
    · exact h
    · cases p.strat with
      | none => exact h
      | some s => simp only [TaskS.PreOK, (updateRemaining_state _ _).2]; exact h
  | unschedule =>
    simp only [TaskS.call, TaskS.doUnschedule]; split <;> exact h
  | start time fuzzed =>
    simp only [TaskS.call, TaskS.doStart]
    split
    · exact h
    · split
      · exact h
      · split
        · exact h
        · simp only [TaskS.PreOK, (updateRemaining_state _ _).2]; exact h
  | step now dt =>
    simp only [TaskS.call, TaskS.doStep]
    split
    · exact h
    · split
      · exact h
      · split
        · exact h
        · split <;> exact h
  | finish time => simp only [TaskS.call, TaskS.doFinish]; split <;> exact h
  | cancel time => simp only [TaskS.call, TaskS.doCancel]; split <;> exact h
  | preempt => simp only [TaskS.call, TaskS.doPreempt]; split <;> exact h
  | updateRemaining r => simp only [TaskS.call, TaskS.PreOK, (updateRemaining_state _ _).2]; exact h

end ErdosVerif.Model

namespace ErdosVerif.Model

theorem val_lt_released (s : TState) (h : s.val < TState.released.val) : s = .virtual := by
  cases s <;> simp [TState.val] at h ⊢

/-- **Every API call is refused or takes a legal step.** -/
theorem call_legal (t : TaskS) (c : TaskCall) (h : t.PreOK) : StepOK t.state (t.call c).1.state := by
  cases c with
  | release time =>
    simp only [TaskS.call, TaskS.doRelease]
    split
    · exact Or.inl rfl
    · split
      · exact Or.inl rfl
      · cases time with
        | none =>
          simp only []
          split
          · rename_i hlt; rw [val_lt_released _ hlt]; exact Or.inr rfl
          · exact Or.inl rfl
        | some x =>
          simp only []
          split
          · rename_i hlt
            have : t.state = .virtual := val_lt_released _ hlt
            rw [this]; exact Or.inr rfl
          · exact Or.inl rfl
  | schedule time p =>
    simp only [TaskS.call, TaskS.doSchedule]
    split
    · exact Or.inl rfl
    · rename_i hst
      have hnew : StepOK t.state .scheduled := by
        cases hs : t.state <;> simp [hs] at hst <;> first | exact Or.inl rfl | exact Or.inr rfl
      cases p.strat with
      | none => exact hnew
      | some s => simp only [(updateRemaining_state _ _).1]; exact hnew
  | unschedule =>
    simp only [TaskS.call, TaskS.doUnschedule]
    split
    · exact Or.inl rfl
    · rename_i hst
      have hs : t.state = .scheduled := by simpa using hst
      simp only [hs]
      rcases h with h | h <;> rw [h] <;> exact Or.inr rfl
  | start time fuzzed =>
    simp only [TaskS.call, TaskS.doStart]
    split
    · exact Or.inl rfl
    · rename_i hst
      have hs : t.state = .scheduled := by simpa using hst
      split
      · exact Or.inl rfl
      · split
        · exact Or.inl rfl
        · simp only [(updateRemaining_state _ _).1, hs]; exact Or.inr rfl
  | step now dt =>
    simp only [TaskS.call, TaskS.doStep]
    split
    · exact Or.inl rfl
    · split
      · exact Or.inl rfl
      · split
        · exact Or.inl rfl
        · split <;> exact Or.inl rfl
  | finish time =>
    simp only [TaskS.call, TaskS.doFinish]
    split
    · exact Or.inl rfl
    · rename_i hst
      simp only []
      cases hs : t.state <;> simp [hs] at hst <;> split <;> exact Or.inr rfl
  | cancel time =>
    simp only [TaskS.call, TaskS.doCancel]
    split
    · exact Or.inl rfl
    · rename_i hst
      simp only []
      cases hs : t.state <;> simp [hs] at hst <;> exact Or.inr rfl
  | preempt =>
    simp only [TaskS.call, TaskS.doPreempt]
    split
    · exact Or.inl rfl
    · rename_i hst
      have hs : t.state = .running := by simpa using hst
      simp only [hs]; exact Or.inr rfl
  | updateRemaining r => simp only [TaskS.call, (updateRemaining_state _ _).1]; exact Or.inl rfl

/-- COMPLETED and CANCELLED are final: no API call changes the state again. -/
theorem final_states (t : TaskS) (c : TaskCall) (h : t.PreOK)
    (hf : t.state = .completed ∨ t.state = .cancelled) : (t.call c).1.state = t.state := by
  rcases call_legal t c h with e | e
  · exact e.symm
  · rcases hf with hf | hf <;> rw [hf] at e <;> cases hn : (t.call c).1.state <;> simp [hn, Legal] at e

/-- A task becomes CANCELLED only from VIRTUAL / RELEASED / SCHEDULED, i.e. before it runs. -/
theorem cancelled_only_before_running (t : TaskS) (c : TaskCall) (h : t.PreOK)
    (hc : (t.call c).1.state = .cancelled) (hne : t.state ≠ .cancelled) :
    t.state = .virtual ∨ t.state = .released ∨ t.state = .scheduled := by
  rcases call_legal t c h with e | e
  · exact absurd (e.trans hc) hne
  · rw [hc] at e
    cases hs : t.state <;> simp [hs, Legal] at e ⊢

/-- The model's state numbering and releasable set are the ones in the source
(`TaskState`, `RELEASABLE_TASK_STATES`, regenerated from /repo on every run). -/
theorem state_table_matches :
    Gen.taskStateTable = [TState.virtual, .released, .scheduled, .running, .preempted, .evicted,
      .completed, .cancelled].map (fun s => (s.name, s.val)) ∧
    Gen.releasableTaskStates = [TState.virtual.name, TState.scheduled.name, TState.preempted.name] := by
  decide

end ErdosVerif.Model
