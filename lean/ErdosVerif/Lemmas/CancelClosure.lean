import ErdosVerif.Model.TaskGraph
/-!
`TaskGraph.cancel` is closed downstream: when the walk ends normally, every
child of a task it cancelled is cancelled too, unless that child is a terminal
(join) task that still has a parent which is not cancelled. Core Lean only.
-/
namespace ErdosVerif.Model
namespace GraphS

/-- Parent and child maps describe the same edges. -/
def EdgesWF (g : GraphS) : Prop := ∀ p k, p ∈ g.pars k → k ∈ g.kids p

theorem task?_setTask (g : GraphS) (c k : Nat) (t : TaskS) :
    (g.setTask c t).task? k = if k = c ∧ c < g.tasks.size then some t else g.task? k := by
  simp only [setTask, task?, Array.getElem?_setIfInBounds]
  by_cases h : c = k
  · subst h; by_cases h2 : c < g.tasks.size <;> simp [h2]
  · have : ¬ k = c := fun e => h e.symm
    simp [h, this]

theorem kids_setTask (g : GraphS) (c k : Nat) (t : TaskS) : (g.setTask c t).kids k = g.kids k := rfl
theorem pars_setTask (g : GraphS) (c k : Nat) (t : TaskS) : (g.setTask c t).pars k = g.pars k := rfl

theorem stateOf_setTask_ne (g : GraphS) (c k : Nat) (t : TaskS) (h : k ≠ c) :
    (g.setTask c t).stateOf k = g.stateOf k := by
  simp only [stateOf, task?_setTask, h, false_and, if_false]

theorem stateOf_setTask_self (g : GraphS) (c : Nat) (t tc : TaskS) (h : g.task? c = some tc) :
    (g.setTask c t).stateOf c = t.state := by
  have hlt : c < g.tasks.size := by
    simp only [task?] at h
    exact (Array.getElem?_eq_some_iff.mp h).1
  simp only [stateOf, task?_setTask, hlt, and_self, if_true, Option.map_some, Option.getD_some]

def terminalOf (g : GraphS) (k : Nat) : Bool := ((g.task? k).map (·.terminal)).getD false

theorem terminalOf_setTask (g : GraphS) (c k : Nat) (t tc : TaskS) (h : g.task? c = some tc)
    (ht : t.terminal = tc.terminal) : (g.setTask c t).terminalOf k = g.terminalOf k := by
  simp only [terminalOf, task?_setTask]
  by_cases hk : k = c
  · subst hk
    have hlt : k < g.tasks.size := by
      simp only [task?] at h
      exact (Array.getElem?_eq_some_iff.mp h).1
    simp [hlt, h, ht]
  · simp [hk]

theorem doCancel_ok (t : TaskS) (time : Int) (t' : TaskS) (h : t.doCancel time = (t', none)) :
    t'.state = .cancelled ∧ t'.terminal = t.terminal := by
  unfold TaskS.doCancel at h
  split at h
  · simp at h
  · simp only [Prod.mk.injEq, and_true] at h; subst h; exact ⟨rfl, rfl⟩

/-- The invariant of the cancellation walk. -/
structure WalkInv (g0 : GraphS) (root : Nat) (g : GraphS) (stack visited acc : List Nat) : Prop where
  kidsEq : ∀ k, g.kids k = g0.kids k
  parsEq : ∀ k, g.pars k = g0.pars k
  termEq : ∀ k, g.terminalOf k = g0.terminalOf k
  visitedCancelled : ∀ v ∈ visited, g.stateOf v = .cancelled
  accVisited : ∀ c ∈ acc, c ∈ visited
  closure : ∀ c ∈ acc, ∀ k ∈ g0.kids c,
    k ∈ stack ∨ k ∈ visited ∨ (g0.terminalOf k = true ∧ k ≠ root ∧ ∃ p ∈ g0.pars k, g.stateOf p ≠ .cancelled)

/-- What the finished walk guarantees. -/
def Closed (g0 : GraphS) (root : Nat) (r : CancelRes) : Prop :=
  ∀ c ∈ r.cancelled, ∀ k ∈ g0.kids c,
    r.g.stateOf k = .cancelled ∨
    (g0.terminalOf k = true ∧ k ≠ root ∧ ∃ p ∈ g0.pars k, r.g.stateOf p ≠ .cancelled)

theorem go_closed (g0 : GraphS) (root : Nat) (time : Int) (hwf : g0.EdgesWF) :
    ∀ (fuel : Nat) (g : GraphS) (stack visited acc : List Nat),
      WalkInv g0 root g stack visited acc →
      (cancel.go root time fuel g stack visited acc).err = none →
      Closed g0 root (cancel.go root time fuel g stack visited acc) := by
  intro fuel
  induction fuel with
  | zero => intro g stack visited acc _ herr; simp [cancel.go] at herr
  | succ fuel ih =>
    intro g stack visited acc inv herr
    cases stack with
    | nil =>
      simp only [cancel.go]
      intro c hc k hk
      simp only [List.mem_reverse] at hc
      rcases inv.closure c hc k hk with h | h | h
      · simp at h
      · exact Or.inl (inv.visitedCancelled k h)
      · exact Or.inr h
    | cons c stack =>
      simp only [cancel.go] at herr ⊢
      -- popping one occurrence of `c` from the stack
      have pop : ∀ {visited' : List Nat} {g' : GraphS},
          (∀ x ∈ visited, x ∈ visited') →
          (c ∈ visited' ∨ (g0.terminalOf c = true ∧ c ≠ root ∧ ∃ p ∈ g0.pars c, g'.stateOf p ≠ .cancelled)) →
          (∀ p, g'.stateOf p = g.stateOf p) →
          ∀ a ∈ acc, ∀ k ∈ g0.kids a,
            k ∈ stack ∨ k ∈ visited' ∨ (g0.terminalOf k = true ∧ k ≠ root ∧ ∃ p ∈ g0.pars k, g'.stateOf p ≠ .cancelled) := by
        intro visited' g' hsub hc hst a ha k hk
        rcases inv.closure a ha k hk with h | h | h
        · simp only [List.mem_cons] at h
          rcases h with h | h
          · subst h; rcases hc with hc | hc
            · exact Or.inr (Or.inl hc)
            · exact Or.inr (Or.inr hc)
          · exact Or.inl h
        · exact Or.inr (Or.inl (hsub k h))
        · obtain ⟨h1, h2, p, hp, hne⟩ := h
          exact Or.inr (Or.inr ⟨h1, h2, p, hp, by rw [hst p]; exact hne⟩)
      split at herr
      · -- already visited
        rename_i hvis
        simp only [hvis, if_true]
        apply ih g stack visited acc _ herr
        exact { inv with closure := pop (fun x hx => hx) (Or.inl (by simpa using hvis)) (fun _ => rfl) }
      · rename_i hvis
        simp only [hvis]
        cases htc : g.task? c with
        | none => simp [htc] at herr
        | some tc =>
          simp only [htc] at herr ⊢
          split at herr
          · -- live terminal: prune this path only
            rename_i hterm
            simp only [hterm, if_true]
            apply ih g stack visited acc _ herr
            refine { inv with closure := pop (fun x hx => hx) (Or.inr ?_) (fun _ => rfl) }
            simp only [Bool.and_eq_true, Bool.not_eq_true', bne_iff_ne, ne_eq] at hterm
            obtain ⟨⟨ht, hne⟩, hall⟩ := hterm
            have hterm0 : g0.terminalOf c = true := by
              rw [← inv.termEq c]; simp [terminalOf, htc, ht]
            refine ⟨hterm0, hne, ?_⟩
            rw [List.all_eq_false] at hall
            obtain ⟨p, hp, hpn⟩ := hall
            refine ⟨p, by rw [← inv.parsEq c]; exact hp, ?_⟩
            simpa using hpn
          · rename_i hterm
            simp only [hterm]
            split at herr
            · -- already cancelled: skipped with its subtree
              rename_i hcan
              simp only [hcan, if_true]
              apply ih g stack (c :: visited) acc _ herr
              have hst : g.stateOf c = .cancelled := by
                simp only [stateOf, htc, Option.map_some, Option.getD_some]; simpa using hcan
              exact {
                kidsEq := inv.kidsEq, parsEq := inv.parsEq, termEq := inv.termEq
                visitedCancelled := by
                  intro v hv
                  simp only [List.mem_cons] at hv
                  rcases hv with hv | hv
                  · subst hv; exact hst
                  · exact inv.visitedCancelled v hv
                accVisited := fun a ha => List.mem_cons_of_mem _ (inv.accVisited a ha)
                closure := pop (fun x hx => List.mem_cons_of_mem _ hx) (Or.inl (by simp)) (fun _ => rfl) }
            · rename_i hcan
              simp only [hcan]
              cases hdc : tc.doCancel time with
              | mk t' e =>
                simp only [hdc] at herr ⊢
                cases e with
                | some e => simp at herr
                | none =>
                  simp only at herr ⊢
                  obtain ⟨hst', hterm'⟩ := doCancel_ok tc time t' hdc
                  apply ih (g.setTask c t') ((g.kids c).reverse ++ stack) (c :: visited) (c :: acc) _ herr
                  have hstc : (g.setTask c t').stateOf c = .cancelled := by
                    rw [stateOf_setTask_self g c t' tc htc]; exact hst'
                  have hmono : ∀ p, g.stateOf p = .cancelled → (g.setTask c t').stateOf p = .cancelled := by
                    intro p hp
                    by_cases hpc : p = c
                    · subst hpc; exact hstc
                    · rw [stateOf_setTask_ne g c p t' hpc]; exact hp
                  refine {
                    kidsEq := fun k => by rw [kids_setTask]; exact inv.kidsEq k
                    parsEq := fun k => by rw [pars_setTask]; exact inv.parsEq k
                    termEq := fun k => by rw [terminalOf_setTask g c k t' tc htc hterm']; exact inv.termEq k
                    visitedCancelled := ?_, accVisited := ?_, closure := ?_ }
                  · intro v hv
                    simp only [List.mem_cons] at hv
                    rcases hv with hv | hv
                    · subst hv; exact hstc
                    · exact hmono v (inv.visitedCancelled v hv)
                  · intro a ha
                    simp only [List.mem_cons] at ha ⊢
                    rcases ha with ha | ha
                    · exact Or.inl ha
                    · exact Or.inr (inv.accVisited a ha)
                  · intro a ha k hk
                    simp only [List.mem_cons] at ha
                    rcases ha with ha | ha
                    · -- the children of the task just cancelled are on the stack
                      subst ha
                      refine Or.inl (List.mem_append_left _ ?_)
                      rw [List.mem_reverse, inv.kidsEq a]; exact hk
                    · rcases inv.closure a ha k hk with h | h | h
                      · simp only [List.mem_cons] at h
                        rcases h with h | h
                        · subst h; exact Or.inr (Or.inl (by simp))
                        · exact Or.inl (List.mem_append_right _ h)
                      · exact Or.inr (Or.inl (List.mem_cons_of_mem _ h))
                      · obtain ⟨h1, h2, p, hp, hne⟩ := h
                        by_cases hpc : p = c
                        · -- that parent is the task just cancelled: `k` is one of its children
                          subst hpc
                          refine Or.inl (List.mem_append_left _ ?_)
                          rw [List.mem_reverse, inv.kidsEq p]
                          exact hwf p k hp
                        · refine Or.inr (Or.inr ⟨h1, h2, p, hp, ?_⟩)
                          rw [stateOf_setTask_ne g c p t' hpc]; exact hne


/-- States a task can be cancelled from. -/
def Cancellable (s : TState) : Prop := s = .virtual ∨ s = .released ∨ s = .scheduled

theorem doCancel_ok_cancellable (t : TaskS) (time : Int) (t' : TaskS) (h : t.doCancel time = (t', none)) :
    Cancellable t.state := by
  unfold TaskS.doCancel at h
  split at h
  · simp at h
  · rename_i hst
    cases hs : t.state <;> simp [hs] at hst <;> simp [Cancellable]

/-- What the walk did to the states so far. -/
def FrameInv (g0 g : GraphS) (acc : List Nat) : Prop :=
  ∀ k, g.stateOf k = g0.stateOf k ∨ (k ∈ acc ∧ g.stateOf k = .cancelled ∧ Cancellable (g0.stateOf k))

/-- **Frame**: a cancellation changes nothing but the states of the tasks it
reports, each of which was cancellable and is now CANCELLED (also when the walk
stops on an exception). -/
theorem go_frame (g0 : GraphS) (root : Nat) (time : Int) :
    ∀ (fuel : Nat) (g : GraphS) (stack visited acc : List Nat),
      FrameInv g0 g acc →
      FrameInv g0 (cancel.go root time fuel g stack visited acc).g
        (cancel.go root time fuel g stack visited acc).cancelled.reverse ∨
      (cancel.go root time fuel g stack visited acc).err.isSome := by
  intro fuel
  induction fuel with
  | zero => intro g stack visited acc _; right; simp [cancel.go]
  | succ fuel ih =>
    intro g stack visited acc inv
    cases stack with
    | nil => left; simpa [cancel.go] using inv
    | cons c stack =>
      simp only [cancel.go]
      split
      · exact ih g stack visited acc inv
      · cases htc : g.task? c with
        | none => right; simp
        | some tc =>
          simp only []
          split
          · exact ih g stack visited acc inv
          · split
            · exact ih g stack (c :: visited) acc inv
            · rename_i hcan
              cases hdc : tc.doCancel time with
              | mk t' e =>
                cases e with
                | some e => right; simp
                | none =>
                  simp only []
                  apply ih
                  obtain ⟨hst', _⟩ := doCancel_ok tc time t' hdc
                  have hcb := doCancel_ok_cancellable tc time t' hdc
                  have hgc : g.stateOf c = tc.state := by simp [stateOf, htc]
                  intro k
                  by_cases hk : k = c
                  · subst hk
                    right
                    refine ⟨by simp, ?_, ?_⟩
                    · rw [stateOf_setTask_self g k t' tc htc]; exact hst'
                    · rcases inv k with h | ⟨_, h, _⟩
                      · rw [← h, hgc]; exact hcb
                      · rw [hgc] at h; simp [h] at hcan
                  · rw [stateOf_setTask_ne g c k t' hk]
                    rcases inv k with h | ⟨h1, h2, h3⟩
                    · exact Or.inl h
                    · exact Or.inr ⟨List.mem_cons_of_mem _ h1, h2, h3⟩

theorem cancel_frame (g : GraphS) (n : Nat) (time : Int) (herr : (g.cancel n time).err = none) :
    ∀ k, (g.cancel n time).g.stateOf k = g.stateOf k ∨
      (k ∈ (g.cancel n time).cancelled ∧ (g.cancel n time).g.stateOf k = .cancelled ∧ Cancellable (g.stateOf k)) := by
  have := go_frame g n time (g.size * g.size + g.size + 1) g [n] [] [] (fun k => Or.inl rfl)
  unfold cancel at herr ⊢
  rcases this with h | h
  · intro k
    rcases h k with h | ⟨h1, h2, h3⟩
    · exact Or.inl h
    · exact Or.inr ⟨by simpa using h1, h2, h3⟩
  · simp [herr] at h

/-- **Cancellation is closed downstream.** -/
theorem cancel_closed (g : GraphS) (n : Nat) (time : Int) (hwf : g.EdgesWF)
    (herr : (g.cancel n time).err = none) : Closed g n (g.cancel n time) := by
  unfold cancel at herr ⊢
  apply go_closed g n time hwf _ g [n] [] [] _ herr
  exact ⟨fun _ => rfl, fun _ => rfl, fun _ => rfl, by simp, by simp, by simp⟩

end GraphS
end ErdosVerif.Model
