/-
Facts about `decode` (what `schedule()` returns) that need no feasibility: shape of the
decision list, what a placed decision says about its cell.
-/
import ErdosVerif.Lemmas.TetriSat
namespace ErdosVerif.Tetri
open ErdosVerif.Mip ErdosVerif.TetriSpec

theorem mem_cancelled {I : Inst} {t : Nat} :
    t ∈ I.cancelled ↔ t < I.nOffered ∧ I.active t = false := by
  simp [Inst.cancelled, List.mem_filter, List.mem_range]

theorem mem_offeredAct {I : Inst} {t : Nat} :
    t ∈ I.offeredAct ↔ t < I.nOffered ∧ I.active t = true := by
  simp [Inst.offeredAct, List.mem_filter, List.mem_range]

theorem mem_decode {I : Inst} {σ : Var → Int} {d : Decision} :
    d ∈ decode I σ ↔ (∃ t ∈ I.cancelled, d = ⟨t, .cancel⟩) ∨ (∃ t ∈ I.nonRunning, d = I.decodeTask σ t) := by
  simp only [decode, List.mem_append, List.mem_map]
  constructor
  · rintro (⟨t, ht, rfl⟩ | ⟨t, ht, rfl⟩)
    · exact Or.inl ⟨t, ht, rfl⟩
    · exact Or.inr ⟨t, ht, rfl⟩
  · rintro (⟨t, ht, rfl⟩ | ⟨t, ht, rfl⟩)
    · exact Or.inl ⟨t, ht, rfl⟩
    · exact Or.inr ⟨t, ht, rfl⟩

@[simp] theorem decodeTask_task (I : Inst) (σ : Var → Int) (t : Nat) : (I.decodeTask σ t).task = t := by
  unfold Inst.decodeTask
  split <;> rfl

theorem decodeTask_ne_cancel (I : Inst) (σ : Var → Int) (t : Nat) : (I.decodeTask σ t).out ≠ .cancel := by
  unfold Inst.decodeTask
  split <;> simp

/-- A placed decision comes from a chosen cell: the first key whose variable is 1. -/
theorem decodeTask_placed {I : Inst} {σ : Var → Int} {t w s : Nat} {time : Int}
    (h : (I.decodeTask σ t).out = .placed w s time) :
    ∃ k, I.chosen σ t = some (w, k, s) ∧ time = I.slot k := by
  unfold Inst.decodeTask at h
  split at h
  · next w' k' s' hc =>
    simp only [Outcome.placed.injEq] at h
    obtain ⟨rfl, rfl, rfl⟩ := h
    exact ⟨k', hc, rfl⟩
  · simp at h

theorem decodeTask_unplaced {I : Inst} {σ : Var → Int} {t : Nat} (h : I.chosen σ t = none) :
    I.decodeTask σ t = ⟨t, .unplaced⟩ := by
  simp [Inst.decodeTask, h]

theorem slot_ge_now (I : Inst) (k : Nat) : I.now ≤ I.slot k := by
  simp only [Inst.slot]; omega

theorem slot_mono (I : Inst) {a b : Nat} (h : a ≤ b) : I.slot a ≤ I.slot b := by
  simp only [Inst.slot]
  have : a * I.disc ≤ b * I.disc := Nat.mul_le_mul_right _ h
  omega

theorem minL_le {l : List Nat} {a : Nat} (h : a ∈ l) : minL l ≤ a := by
  induction l with
  | nil => simp at h
  | cons x xs ih =>
    cases xs with
    | nil =>
      have : a = x := by simpa using h
      simp [minL, this]
    | cons y ys =>
      simp only [List.mem_cons] at h
      simp only [minL]
      rcases h with rfl | h
      · omega
      · have := ih (by simpa using h)
        omega

theorem le_maxL {l : List Nat} {a : Nat} (h : a ∈ l) : a ≤ maxL l := by
  induction l with
  | nil => simp at h
  | cons x xs ih =>
    simp only [List.mem_cons] at h
    simp only [maxL]
    rcases h with rfl | h
    · omega
    · have := ih h
      omega

theorem strat_mem {I : Inst} {t s : Nat} (hs : s < (I.task t).nS) :
    ((I.task t).strat s).runtime ∈ (I.task t).strats.map (fun s => s.runtime) := by
  simp only [TaskI.nS] at hs
  refine List.mem_map.mpr ⟨(I.task t).strat s, ?_, rfl⟩
  simp only [TaskI.strat, List.getD_eq_getElem?_getD, List.getElem?_eq_getElem hs, Option.getD_some]
  exact List.getElem_mem hs

theorem fastest_le {I : Inst} {t s : Nat} (hs : s < (I.task t).nS) : I.fastest t ≤ I.runtime t s :=
  minL_le (strat_mem hs)

theorem le_slowest {I : Inst} {t s : Nat} (hs : s < (I.task t).nS) : I.runtime t s ≤ I.slowest t :=
  le_maxL (strat_mem hs)

/-- What `hasVar` says about a cell. -/
theorem hasVar_spec {I : Inst} {t w k s : Nat} (h : I.hasVar t w k s = true) :
    I.running t = false ∧ compatible (I.worker w) ((I.task t).strat s) = true ∧
    (I.task t).release ≤ I.slot k ∧
    (I.enforceDeadlines = true → I.slot k + (I.runtime t s : Nat) ≤ (I.task t).deadline) := by
  simp only [Inst.hasVar, Inst.cellOk, Bool.and_eq_true, Bool.not_eq_true', decide_eq_true_eq,
    Bool.and_eq_false_iff, decide_eq_false_iff_not] at h
  refine ⟨h.1, h.2.1.1, h.2.1.2, ?_⟩
  intro he
  rcases h.2.2 with h' | h'
  · simp [he] at h'
  · omega

end ErdosVerif.Tetri
