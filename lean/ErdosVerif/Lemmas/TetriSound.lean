/-
Soundness of both TetriSched formulations w.r.t. the independent specification:
`sat σ (gen I) → ValidPlan I (planOf I σ)`.  The heart is the capacity clause: the left-hand
side of the row of `(slot, worker, resource)` evaluates to the load of the decoded plan, and a
row that is not emitted guards a slot whose load is zero (or the RUNNING tasks' own load).
-/
import ErdosVerif.Lemmas.TetriGurobi
namespace ErdosVerif.Tetri
open ErdosVerif.Mip ErdosVerif.TetriSpec

/-! ### Demand of one task -/

theorem demandAt_pick {I : Inst} (σ : Var → Int) {t : Nat} (ht : t ∈ I.act) (w k : Nat) (r : String) :
    demandAt I (planOf I σ) w k r t =
      match pick I σ t with
      | some c => if c.1 = w ∧ I.covers t c.2.1 c.2.2 k = true then I.req t c.2.2 r else 0
      | none => 0 := by
  have hg := planOf_get σ (mem_act.mp ht).1
  simp only [(mem_act.mp ht).2, if_true] at hg
  unfold demandAt
  rw [hg]
  cases pick I σ t <;> rfl

/-- The demand expression of a task evaluates to the demand of its picked cell. -/
theorem demandE_eval {I : Inst} {σ : Var → Int} (h : sat σ (gen I)) (hwf : I.wf = true)
    (hm : I.noModel = false) {t : Nat} (ht : t ∈ I.act) (w k : Nat) (r : String) :
    (I.demandE t w k r).eval σ = (demandAt I (planOf I σ) w k r t : Nat) := by
  rw [eval_demandE, demandAt_pick σ ht]
  have := ksum_pick h hwf hm ht
    (fun q v => if (q.1 == w && I.covers t q.2.1 q.2.2 k) then ((I.req t q.2.2 r : Nat) : Int) * v else 0)
    (by intro q; simp)
  rw [this]
  cases pick I σ t with
  | none => simp
  | some c =>
    by_cases hc : c.1 = w ∧ I.covers t c.2.1 c.2.2 k = true
    · simp [hc.1, hc.2]
    · have : (c.1 == w && I.covers t c.2.1 c.2.2 k) = false := by
        rcases Classical.not_and_iff_not_or_not.mp hc with h1 | h1
        · simp [h1]
        · simp [h1]
      simp [this, hc]

theorem resE_eval {I : Inst} {σ : Var → Int} (h : sat σ (gen I)) (hwf : I.wf = true)
    (hm : I.noModel = false) (w k : Nat) (r : String) :
    (I.resE w k r).eval σ = (load I (planOf I σ) w k r : Nat) := by
  rw [eval_resE, load, nsum_cast, List.map_map]
  apply isum_map_congr
  intro t ht
  exact demandE_eval h hwf hm ht w k r

/-! ### Resource names the worker cannot serve -/

theorem nsum_eq_zero {l : List Nat} (h : ∀ a ∈ l, a = 0) : nsum l = 0 := by
  induction l with
  | nil => rfl
  | cons x xs ih =>
    have := h x (by simp)
    have := ih (fun a ha => h a (by simp [ha]))
    simp [nsum]; omega

/-- A strategy the worker can hold asks nothing of a resource the worker has none of. -/
theorem req_zero_of_compatible {w : WorkerI} {s : Strat} (hc : compatible w s = true) {r : String}
    (hq : qty w.res r = 0) : qty s.req r = 0 := by
  unfold qty
  apply nsum_eq_zero
  intro a ha
  obtain ⟨p, hp, rfl⟩ := List.mem_map.mp ha
  obtain ⟨hp1, hp2⟩ := List.mem_filter.mp hp
  have hr : p.1 = r := by simpa using hp2
  have := List.all_eq_true.mp hc p hp1
  simp only [decide_eq_true_eq] at this
  rw [hr, hq] at this
  omega

theorem qty_eq_zero_of_not_mem {l : List (String × Nat)} {r : String} (h : r ∉ l.map (fun p => p.1)) :
    qty l r = 0 := by
  unfold qty
  apply nsum_eq_zero
  intro a ha
  obtain ⟨p, hp, rfl⟩ := List.mem_map.mp ha
  obtain ⟨hp1, hp2⟩ := List.mem_filter.mp hp
  exact absurd (List.mem_map.mpr ⟨p, hp1, by simpa using hp2⟩) h

/-- The picked cell of a task sits on a worker that can hold its strategy. -/
theorem pick_compatible {I : Inst} {σ : Var → Int} (hwf : I.wf = true) {t : Nat} (ht : t ∈ I.act)
    {c : Cell} (hp : pick I σ t = some c) :
    compatible (I.worker c.1) ((I.task t).strat c.2.2) = true := by
  unfold pick at hp
  split at hp
  · next hr =>
    simp only [Inst.wf, Bool.and_eq_true] at hwf
    have hR := List.all_eq_true.mp hwf.1.1.1 t ht
    simp only [hr, Bool.not_true, Bool.false_or, Bool.and_eq_true, decide_eq_true_eq] at hR
    simp only [Option.some.injEq] at hp
    subst hp
    exact hR.1.2
  · exact (hasVar_spec (chosen_spec hp).2.1).2.1

theorem demand_zero_of_qty_zero {I : Inst} {σ : Var → Int} (hwf : I.wf = true) {t : Nat} (ht : t ∈ I.act)
    {w : Nat} (k : Nat) {r : String} (hq : qty (I.worker w).res r = 0) :
    demandAt I (planOf I σ) w k r t = 0 := by
  rw [demandAt_pick σ ht]
  cases hp : pick I σ t with
  | none => rfl
  | some c =>
    simp only
    split
    · next hc =>
      have := pick_compatible hwf ht hp
      rw [hc.1] at this
      exact req_zero_of_compatible this hq
    · rfl

/-! ### Rows that are not emitted -/

theorem demand_nonRunning_zero {I : Inst} {σ : Var → Int} {t : Nat} (ht : t ∈ I.nonRunning)
    {w k : Nat} {r : String} (hv : I.resHasVar w k r = false) :
    demandAt I (planOf I σ) w k r t = 0 := by
  have hta : t ∈ I.act := mem_act.mpr ⟨(mem_nonRunning.mp ht).1, (mem_nonRunning.mp ht).2.1⟩
  have hr := (mem_nonRunning.mp ht).2.2
  rw [demandAt_pick σ hta]
  simp only [pick, hr, Bool.false_eq_true, if_false]
  cases hc : I.chosen σ t with
  | none => rfl
  | some c =>
    simp only
    split
    · next hcw =>
      obtain ⟨hk, hvar, _⟩ := chosen_spec hc
      have h1 := List.any_eq_false.mp hv t ht
      simp only [Inst.hasVar, hr, Bool.not_false, Bool.true_and] at hvar
      simp at h1
      exact h1 c.1 c.2.1 c.2.2 hk hcw.1 hcw.2 hvar
    · rfl

theorem demand_running {I : Inst} (σ : Var → Int) {t : Nat} (ht : t ∈ I.act) (hr : I.running t = true)
    (w k : Nat) (r : String) :
    demandAt I (planOf I σ) w k r t =
      if (I.task t).prevW = w ∧ I.covers t 0 (I.task t).prevS k = true then I.req t (I.task t).prevS r else 0 := by
  rw [demandAt_pick σ ht]
  simp [pick, hr, runningCell]

/-- Without variable terms the load of a slot is the RUNNING tasks' own load. -/
theorem load_eq_running {I : Inst} {σ : Var → Int} {w k : Nat} {r : String}
    (hv : I.resHasVar w k r = false) : load I (planOf I σ) w k r = I.runningLoad w k r := by
  unfold load Inst.runningLoad
  generalize hl : I.act = l
  have hsub : ∀ t ∈ l, t ∈ I.act := by intro t ht; rw [hl]; exact ht
  clear hl
  induction l with
  | nil => rfl
  | cons t ts ih =>
    have hta := hsub t (by simp)
    have ih' := ih (fun a ha => hsub a (by simp [ha]))
    simp only [List.map_cons, nsum, List.filter_cons]
    by_cases hr : I.running t = true
    · rw [demand_running σ hta hr]
      by_cases hc : (I.task t).prevW = w ∧ I.covers t 0 (I.task t).prevS k = true
      · simp [hr, hc.1, hc.2, nsum, ih']
      · have : ((I.task t).prevW == w && I.covers t 0 (I.task t).prevS k) = false := by
          rcases Classical.not_and_iff_not_or_not.mp hc with h1 | h1
          · simp [h1]
          · simp [h1]
        simp [hr, hc, this, ih']
    · have hr' : I.running t = false := by simpa using hr
      have htn : t ∈ I.nonRunning := mem_nonRunning.mpr ⟨(mem_act.mp hta).1, (mem_act.mp hta).2, hr'⟩
      rw [demand_nonRunning_zero htn hv]
      simp [hr', ih']

theorem runningLoad_zero {I : Inst} (hwf : I.wf = true) (hm : I.noModel = false) {w k : Nat} {r : String}
    (hc : I.resHasConst w k r = false) : I.runningLoad w k r = 0 := by
  unfold Inst.runningLoad
  apply nsum_eq_zero
  intro a ha
  obtain ⟨t, ht, rfl⟩ := List.mem_map.mp ha
  obtain ⟨hta, hcond⟩ := List.mem_filter.mp ht
  simp only [Bool.and_eq_true, beq_iff_eq] at hcond
  have h1 := List.any_eq_false.mp hc t hta
  simp only [Inst.wf, Bool.and_eq_true] at hwf
  have hR := List.all_eq_true.mp hwf.1.1.1 t hta
  simp only [hcond.1.1, Bool.not_true, Bool.false_or, Bool.and_eq_true, decide_eq_true_eq] at hR
  have hG := hwf.1.2
  simp only [Inst.wfGrid, Bool.and_eq_true, decide_eq_true_eq, hm, Bool.false_or] at hG
  have hs : 0 < I.nSlots := by omega
  simpa [hcond.1.1, hcond.1.2, hcond.2, hR.1.1.2, hs] using h1

/-! ### Capacity -/

/-- **Capacity at every planned slot**, for every worker and every resource name. -/
theorem capacity_at_slot {I : Inst} {σ : Var → Int} (h : sat σ (gen I)) (hwf : I.wf = true)
    (hm : I.noModel = false) {w : Nat} (hw : w < I.nW) {k : Nat} (hk : k < I.nSlots) (r : String) :
    load I (planOf I σ) w k r ≤ qty (I.worker w).res r := by
  by_cases hq : qty (I.worker w).res r = 0
  · have : load I (planOf I σ) w k r = 0 := by
      unfold load
      apply nsum_eq_zero
      intro a ha
      obtain ⟨t, ht, rfl⟩ := List.mem_map.mp ha
      exact demand_zero_of_qty_zero hwf ht k hq
    omega
  · have hty : r ∈ (I.worker w).types := by
      simp only [WorkerI.types, List.mem_eraseDups]
      exact Classical.byContradiction (fun hn => hq (qty_eq_zero_of_not_mem hn))
    by_cases hrow : I.resRow w k r = true
    · have hmem : Constr.lin s!"{r}_utilization_Worker_{w + 1}_at_Time_{I.slot k}" (I.resE w k r) .le
          (qty (I.worker w).res r : Nat) ∈ I.cRes := by
        simp only [Inst.cRes, List.mem_flatMap, List.mem_range, List.mem_map, List.mem_filter]
        exact ⟨k, hk, w, hw, r, ⟨hty, hrow⟩, rfl⟩
      have := h.2 _ (cRes_sub hmem)
      simp only [Constr.holds, Sense.holds] at this
      rw [resE_eval h hwf hm] at this
      exact_mod_cast this
    · have hq' : (qty (I.worker w).res r != 0) = true := by simpa using hq
      simp only [Inst.resRow, hq', Bool.true_and, Bool.or_eq_true, Bool.and_eq_true, not_or, not_and,
        Bool.not_eq_true] at hrow
      rw [load_eq_running hrow.1]
      by_cases hcp : I.cplex = true
      · rw [runningLoad_zero hwf hm (hrow.2 hcp)]; omega
      · simp only [Inst.wf, Bool.and_eq_true] at hwf
        have h1 := List.all_eq_true.mp hwf.2 k (List.mem_range.mpr hk)
        have h2 := List.all_eq_true.mp h1 w (List.mem_range.mpr hw)
        have h3 := List.all_eq_true.mp h2 r hty
        simpa using h3

/-! ### Soundness -/

theorem slot_zero (I : Inst) : I.slot 0 = I.now := by simp [Inst.slot]

/-- **Soundness.** The plan decoded from any feasible point of `gen I` (either formulation) is a
valid plan of the independent specification. -/
theorem tetri_sound {I : Inst} {σ : Var → Int} (h : sat σ (gen I)) (hwf : I.wf = true)
    (hm : I.noModel = false) : ValidPlan I (planOf I σ) where
  len := planOf_length I σ
  inactive := by
    intro t ht ha
    rw [planOf_get σ ht]; simp [ha]
  running := by
    intro t ht ha hr
    rw [planOf_get σ ht]; simp [ha, pick, hr]
  wf := by
    intro t c ht hr hp
    rw [planOf_get σ ht] at hp
    by_cases ha : I.active t = true
    · simp only [ha, if_true, pick, hr, Bool.false_eq_true, if_false] at hp
      obtain ⟨hk, hv, _⟩ := chosen_spec hp
      obtain ⟨h1, h2, h3⟩ := mem_keys.mp hk
      simp only [Inst.hasVar, hr, Bool.not_false, Bool.true_and] at hv
      exact ⟨h1, h2, h3, hv⟩
    · simp [ha] at hp
  required := by
    intro t ht ha hmu
    rw [planOf_get σ ht]
    simp only [ha, if_true]
    exact must_picked h hwf hm (mem_act.mpr ⟨ht, ha⟩) hmu
  prec := by
    intro hG c cc hc hr hp
    rw [planOf_get σ hc] at hp
    by_cases ha : I.active c = true
    · simp only [ha, if_true] at hp
      have hcn : c ∈ I.nonRunning := mem_nonRunning.mpr ⟨hc, ha, hr⟩
      have hsome : (pick I σ c).isSome = true := by simp [hp]
      constructor
      · intro hne
        exact (parents_placed h hwf hm hG hcn hsome hne).1
      · intro p hpp
        have hne : I.parentVars c ≠ [] := by
          intro he; rw [he] at hpp; simp at hpp
        have hps := (parents_placed h hwf hm hG hcn hsome hne).2 p hpp
        have hpa : p ∈ I.act := (List.mem_filter.mp hpp).1
        obtain ⟨cp, hcp⟩ := Option.isSome_iff_exists.mp hps
        refine ⟨cp, ?_, ?_⟩
        · rw [planOf_get σ (mem_act.mp hpa).1]; simp [(mem_act.mp hpa).2, hcp]
        · have hrow := start_after_row h hG hcn hpp
          rw [startE_eval_nonRunning σ hr, start_eq_slot h hwf hm hG hcn hp] at hrow
          by_cases hrp : I.running p = true
          · rw [startE_eval_running σ hrp] at hrow
            have : cp = runningCell I p := by simpa [pick, hrp] using hcp.symm
            simp only [startOf, this, runningCell, slot_zero]
            exact hrow
          · have hrp' : I.running p = false := by simpa using hrp
            have hpn : p ∈ I.nonRunning := mem_nonRunning.mpr ⟨(mem_act.mp hpa).1, (mem_act.mp hpa).2, hrp'⟩
            rw [startE_eval_nonRunning σ hrp', start_eq_slot h hwf hm hG hpn hcp] at hrow
            exact hrow
    · simp [ha] at hp
  capacity := by
    intro w hw k hk r
    exact capacity_at_slot h hwf hm hw hk r

end ErdosVerif.Tetri
