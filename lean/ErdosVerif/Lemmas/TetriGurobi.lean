/-
Semantic content of the rows only the Gurobi formulation has: the time-slot helper
variables tie `start_time` to the slot of the picked cell, and the dependency rows order
children after parents.
-/
import ErdosVerif.Lemmas.TetriDecode
namespace ErdosVerif.Tetri
open ErdosVerif.Mip ErdosVerif.TetriSpec

/-! ### Time-slot helper rows -/

theorem placedAt_row {I : Inst} {σ : Var → Int} (h : sat σ (gen I)) (hG : I.cplex = false)
    {t : Nat} (ht : t ∈ I.nonRunning) {k : Nat} (hk : k < I.nSlots) :
    σ (.placedAt t k) = (I.sumCellsAt t k).eval σ ∧ σ (.notPlacedAt t k) + σ (.placedAt t k) = 1 := by
  have hm1 : Constr.lin s!"{I.tname t}_placed_at_time_{I.slot k}_constraint"
      (LinExpr.sub (LinExpr.ofVar (.placedAt t k)) (I.sumCellsAt t k)) .eq 0 ∈ I.cSlotsG t := by
    simp only [Inst.cSlotsG, List.mem_append, List.mem_flatMap, List.mem_range]
    exact Or.inl (Or.inl ⟨k, hk, by simp⟩)
  have hm2 : Constr.lin s!"{I.tname t}_not_placed_at_time_{I.slot k}_constraint"
      (LinExpr.add (LinExpr.ofVar (.notPlacedAt t k)) (LinExpr.ofVar (.placedAt t k))) .eq 1 ∈ I.cSlotsG t := by
    simp only [Inst.cSlotsG, List.mem_append, List.mem_flatMap, List.mem_range]
    exact Or.inl (Or.inl ⟨k, hk, by simp⟩)
  have h1 := h.2 _ (cSlotsG_sub hG ht hm1)
  have h2 := h.2 _ (cSlotsG_sub hG ht hm2)
  simp only [Constr.holds, Sense.holds, LinExpr.eval_sub, LinExpr.eval_add, LinExpr.eval_ofVar] at h1 h2
  exact ⟨by omega, h2⟩

theorem phase_row {I : Inst} {σ : Var → Int} (h : sat σ (gen I)) (hG : I.cplex = false)
    {t : Nat} (ht : t ∈ I.nonRunning) {k : Nat} (hk : k < I.nSlots) (hk0 : k ≠ 0) :
    (σ (.notPlacedAt t (k - 1)) = 1 → σ (.placedAt t k) = 1 → σ (.phase t k) = 1) ∧
    (σ (.phase t k) = 1 → σ (.start t) = I.slot k) := by
  have hm1 : Constr.and s!"{I.tname t}_phase_shift_at_time_{I.slot k}_constraint" (.phase t k)
      [.notPlacedAt t (k - 1), .placedAt t k] ∈ I.cSlotsG t := by
    simp only [Inst.cSlotsG, List.mem_append, List.mem_flatMap, List.mem_filter, List.mem_range]
    exact Or.inl (Or.inr ⟨k, ⟨hk, by simpa using hk0⟩, by simp⟩)
  have hm2 : Constr.ind s!"{I.tname t}_start_at_{I.slot k}_indicator" (.phase t k) 1
      (LinExpr.ofVar (.start t)) .eq (I.slot k) ∈ I.cSlotsG t := by
    simp only [Inst.cSlotsG, List.mem_append, List.mem_flatMap, List.mem_filter, List.mem_range]
    exact Or.inl (Or.inr ⟨k, ⟨hk, by simpa using hk0⟩, by simp⟩)
  have h1 := h.2 _ (cSlotsG_sub hG ht hm1)
  have h2 := h.2 _ (cSlotsG_sub hG ht hm2)
  simp only [Constr.holds, Sense.holds, LinExpr.eval_ofVar] at h1 h2
  refine ⟨?_, h2⟩
  intro ha hb
  rw [h1]
  simp [ha, hb]

theorem first_row {I : Inst} {σ : Var → Int} (h : sat σ (gen I)) (hG : I.cplex = false)
    {t : Nat} (ht : t ∈ I.nonRunning) : σ (.placedAt t 0) = 1 → σ (.start t) = I.slot 0 := by
  have hm : Constr.ind s!"{I.tname t}_start_at_{I.slot 0}_indicator" (.placedAt t 0) 1
      (LinExpr.ofVar (.start t)) .eq (I.slot 0) ∈ I.cSlotsG t := by
    simp [Inst.cSlotsG]
  have := h.2 _ (cSlotsG_sub hG ht hm)
  simpa only [Constr.holds, Sense.holds, LinExpr.eval_ofVar] using this

/-- `placed_at_time[k]` is 1 exactly when the picked cell starts at slot `k`. -/
theorem placedAt_pick {I : Inst} {σ : Var → Int} (h : sat σ (gen I)) (hwf : I.wf = true)
    (hm : I.noModel = false) (hG : I.cplex = false) {t : Nat} (ht : t ∈ I.nonRunning)
    {k : Nat} (hk : k < I.nSlots) :
    σ (.placedAt t k) = match pick I σ t with
      | some q => if q.2.1 = k then 1 else 0
      | none => 0 := by
  have hta : t ∈ I.act := mem_act.mpr ⟨(mem_nonRunning.mp ht).1, (mem_nonRunning.mp ht).2.1⟩
  rw [(placedAt_row h hG ht hk).1, eval_sumCellsAt]
  have := ksum_pick h hwf hm hta (fun q v => if q.2.1 == k then v else 0) (by intro q; simp)
  rw [this]
  cases pick I σ t with
  | none => rfl
  | some q => by_cases hq : q.2.1 = k <;> simp [hq]

/-- **`start_time` is the slot of the picked cell.** -/
theorem start_eq_slot {I : Inst} {σ : Var → Int} (h : sat σ (gen I)) (hwf : I.wf = true)
    (hm : I.noModel = false) (hG : I.cplex = false) {t : Nat} (ht : t ∈ I.nonRunning)
    {q : Cell} (hp : pick I σ t = some q) : σ (.start t) = I.slot q.2.1 := by
  have hta : t ∈ I.act := mem_act.mpr ⟨(mem_nonRunning.mp ht).1, (mem_nonRunning.mp ht).2.1⟩
  have hk := (mem_keys.mp (pick_mem_keys hwf hm hta hp)).2.1
  have h1 : σ (.placedAt t q.2.1) = 1 := by rw [placedAt_pick h hwf hm hG ht hk, hp]; simp
  by_cases hk0 : q.2.1 = 0
  · rw [hk0] at h1 ⊢
    exact first_row h hG ht h1
  · have hk' : q.2.1 - 1 < I.nSlots := by omega
    have h0 : σ (.placedAt t (q.2.1 - 1)) = 0 := by
      rw [placedAt_pick h hwf hm hG ht hk', hp]
      have : ¬ q.2.1 = q.2.1 - 1 := by omega
      simp [this]
    have hn := (placedAt_row h hG ht hk').2
    have hph := phase_row h hG ht hk hk0
    exact hph.2 (hph.1 (by omega) h1)

/-! ### Dependency rows -/

theorem startE_eval_nonRunning {I : Inst} (σ : Var → Int) {t : Nat} (hr : I.running t = false) :
    (I.startE t).eval σ = σ (.start t) := by simp [Inst.startE, hr]

theorem startE_eval_running {I : Inst} (σ : Var → Int) {t : Nat} (hr : I.running t = true) :
    (I.startE t).eval σ = I.now := by simp [Inst.startE, hr]

/-- The precedence row of child `c` and parent `p` (present for placed and unplaced tasks alike). -/
theorem start_after_row {I : Inst} {σ : Var → Int} (h : sat σ (gen I)) (hG : I.cplex = false)
    {c : Nat} (hc : c ∈ I.nonRunning) {p : Nat} (hp : p ∈ I.parentVars c) :
    (I.startE p).eval σ + (I.parentDur p : Nat) + 1 ≤ (I.startE c).eval σ := by
  have hne : (I.parentVars c).isEmpty = false := by
    cases hl : I.parentVars c with
    | nil => simp [hl] at hp
    | cons _ _ => rfl
  have hm : I.cStartAfter c p ∈ I.cDeps c := by
    simp only [Inst.cDeps, hne, Bool.false_eq_true, if_false, List.mem_append, List.mem_map]
    exact Or.inl ⟨p, hp, rfl⟩
  have := h.2 _ (cDeps_sub hG hc hm)
  simp only [Inst.cStartAfter, Constr.holds, Sense.holds, LinExpr.eval_sub] at this
  omega

theorem isum_le_length {α : Type} (l : List α) (f : α → Int) (h : ∀ a ∈ l, f a = 0 ∨ f a = 1) :
    isum (l.map f) ≤ l.length ∧ (isum (l.map f) = l.length → ∀ a ∈ l, f a = 1) := by
  induction l with
  | nil => simp
  | cons x xs ih =>
    have hx := h x (by simp)
    have ih' := ih (fun a ha => h a (by simp [ha]))
    simp only [List.map_cons, isum_cons, List.length_cons, List.mem_cons, forall_eq_or_imp]
    constructor
    · have := ih'.1
      push_cast
      rcases hx with hx | hx <;> omega
    · intro he
      have := ih'.1
      push_cast at he
      rcases hx with hx | hx
      · omega
      · exact ⟨hx, ih'.2 (by omega)⟩

/-- **A placed child has all its parents with variables placed**, and they are as many as the
graph has parents of the child (the as-coded count). -/
theorem parents_placed {I : Inst} {σ : Var → Int} (h : sat σ (gen I)) (hwf : I.wf = true)
    (hm : I.noModel = false) (hG : I.cplex = false) {c : Nat} (hc : c ∈ I.nonRunning)
    (hpc : (pick I σ c).isSome = true) (hne : I.parentVars c ≠ []) :
    (I.parentVars c).length = I.nParents c ∧ ∀ p ∈ I.parentVars c, (pick I σ p).isSome = true := by
  have hca : c ∈ I.act := mem_act.mpr ⟨(mem_nonRunning.mp hc).1, (mem_nonRunning.mp hc).2.1⟩
  have hemp : (I.parentVars c).isEmpty = false := by
    cases hl : I.parentVars c with
    | nil => exact absurd hl hne
    | cons _ _ => rfl
  -- the indicator variable is binary
  have hbin : σ (.allParents c) = 0 ∨ σ (.allParents c) = 1 := by
    apply bin_of_decl h
    simp only [gen, hG, Bool.false_eq_true, if_false, genG, Inst.varsG, List.mem_append, List.mem_map,
      List.mem_filter]
    exact Or.inr ⟨c, ⟨hc, by simp [hemp]⟩, rfl⟩
  have hF : Constr.ind s!"{I.tname c}_placement_False" (.allParents c) 0 (I.isPlacedE c) .eq 0 ∈ I.cDeps c := by
    simp [Inst.cDeps, hemp]
  have hT : Constr.ind s!"{I.tname c}_parents_placed_True" (.allParents c) 1 (I.parentExpr c) .eq
      (I.nParents c : Int) ∈ I.cDeps c := by
    simp [Inst.cDeps, hemp]
  have hF' := h.2 _ (cDeps_sub hG hc hF)
  have hT' := h.2 _ (cDeps_sub hG hc hT)
  simp only [Constr.holds, Sense.holds] at hF' hT'
  have hpl : (I.isPlacedE c).eval σ = 1 := by rw [isPlacedE_eval h hwf hm hca]; simp [hpc]
  have hall : σ (.allParents c) = 1 := by
    rcases hbin with h0 | h1
    · have := hF' h0; omega
    · exact h1
  have hsum := hT' hall
  simp only [Inst.parentExpr, LinExpr.eval_sumL, List.map_map, Function.comp_def] at hsum
  have hpa : ∀ p ∈ I.parentVars c, p ∈ I.act := fun p hp => (List.mem_filter.mp hp).1
  have h01 : ∀ p ∈ I.parentVars c, (I.isPlacedE p).eval σ = 0 ∨ (I.isPlacedE p).eval σ = 1 := by
    intro p hp
    rw [isPlacedE_eval h hwf hm (hpa p hp)]
    split <;> simp
  have hlen := isum_le_length (I.parentVars c) (fun p => (I.isPlacedE p).eval σ) h01
  have hwp : (I.parentVars c).length ≤ I.nParents c := by
    simp only [Inst.wf, Bool.and_eq_true] at hwf
    have := List.all_eq_true.mp hwf.1.1.2 c hca
    simpa using this
  have heq : isum ((I.parentVars c).map (fun p => (I.isPlacedE p).eval σ)) = ((I.parentVars c).length : Int) := by
    have := hlen.1
    omega
  refine ⟨by omega, ?_⟩
  intro p hp
  have h1 := hlen.2 heq p hp
  rw [isPlacedE_eval h hwf hm (hpa p hp)] at h1
  by_cases hs : (pick I σ p).isSome = true
  · exact hs
  · simp [hs] at h1

end ErdosVerif.Tetri
