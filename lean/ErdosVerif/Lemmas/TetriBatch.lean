/-
Lemmas for the TetriSched-CPLEX batching model (`Model/TetriBatch.lean`):
* `minI` / `maxI` bounds (the batch deadline is below every member's deadline);
* the merge of per-batch answers into per-task answers (`upsert`, `mergeB`): origin of every
  entry, one entry per task, every task answered, a unique placed answer survives;
* what `sat σ (genB I)` says row by row (cells binary, at most one cell per batch, `is_placed`
  is the sum of the cells, at most one placed batch per task, capacity rows);
* sums with at most one non-zero binary term (`pick_sum`).
-/
import ErdosVerif.Model.TetriBatch
import ErdosVerif.Lemmas.TetriSum
import ErdosVerif.Lemmas.TetriSound
namespace ErdosVerif.TetriBatch
open ErdosVerif.Mip ErdosVerif.Tetri

/-! ### `minI`, `maxI` -/

theorem minI_le_of_mem {l : List Int} {x : Int} (h : x ∈ l) : minI l ≤ x := by
  induction l with
  | nil => simp at h
  | cons a as ih =>
    cases as with
    | nil => simp at h; simp [minI, h]
    | cons b bs =>
      simp only [minI]
      rcases List.mem_cons.mp h with rfl | h
      · exact Int.min_le_left _ _
      · exact Int.le_trans (Int.min_le_right _ _) (ih h)

theorem le_maxI_of_mem {l : List Int} {x : Int} (h : x ∈ l) : x ≤ maxI l := by
  induction l with
  | nil => simp at h
  | cons a as ih =>
    cases as with
    | nil => simp at h; simp [maxI, h]
    | cons b bs =>
      simp only [maxI]
      rcases List.mem_cons.mp h with rfl | h
      · exact Int.le_max_left _ _
      · exact Int.le_trans (ih h) (Int.le_max_right _ _)

/-- The batch deadline (`BatchTask.deadline`, the minimum) is not after any member's deadline. -/
theorem bDeadline_le (I : BInst) (b : Batch) {t : Nat} (ht : t ∈ b.members) :
    I.bDeadline b ≤ (I.task t).deadline :=
  minI_le_of_mem (List.mem_map.mpr ⟨t, ht, rfl⟩)

/-- The batch release (`BatchTask.release_time`, the maximum) is not before any member's release. -/
theorem le_bRelease (I : BInst) (b : Batch) {t : Nat} (ht : t ∈ b.members) :
    (I.task t).release ≤ I.bRelease b :=
  le_maxI_of_mem (List.mem_map.mpr ⟨t, ht, rfl⟩)

/-! ### The merge of the per-batch answers -/

theorem mem_upsert {acc : List BDecision} {d x : BDecision} (h : x ∈ upsert acc d) : x ∈ acc ∨ x = d := by
  induction acc with
  | nil => simp [upsert] at h; exact Or.inr h
  | cons e es ih =>
    simp only [upsert] at h
    split at h
    · split at h
      · exact Or.inl h
      · rcases List.mem_cons.mp h with rfl | h
        · exact Or.inr rfl
        · exact Or.inl (List.mem_cons_of_mem _ h)
    · rcases List.mem_cons.mp h with rfl | h
      · exact Or.inl (by simp)
      · rcases ih h with h | h
        · exact Or.inl (List.mem_cons_of_mem _ h)
        · exact Or.inr h

theorem mem_foldl_upsert {ds acc : List BDecision} {x : BDecision} (h : x ∈ ds.foldl upsert acc) :
    x ∈ acc ∨ x ∈ ds := by
  induction ds generalizing acc with
  | nil => exact Or.inl h
  | cons d ds ih =>
    simp only [List.foldl_cons] at h
    rcases ih h with h | h
    · rcases mem_upsert h with h | rfl
      · exact Or.inl h
      · exact Or.inr (by simp)
    · exact Or.inr (List.mem_cons_of_mem _ h)

/-- Every merged answer is the answer of some batch. -/
theorem mem_mergeB {ds : List BDecision} {x : BDecision} (h : x ∈ mergeB ds) : x ∈ ds := by
  rcases mem_foldl_upsert h with h | h
  · simp at h
  · exact h

/-- The tasks of `upsert acc d`: unchanged when the task is known, one more otherwise. -/
theorem upsert_tasks (acc : List BDecision) (d : BDecision) :
    (upsert acc d).map (·.task) =
      if d.task ∈ acc.map (·.task) then acc.map (·.task) else acc.map (·.task) ++ [d.task] := by
  induction acc with
  | nil => simp [upsert]
  | cons e es ih =>
    simp only [upsert]
    by_cases he : e.task = d.task
    · simp only [he, if_true]
      split <;> simp [he]
    · simp only [he, if_false, List.map_cons, ih]
      have hne : ¬ d.task = e.task := fun h => he h.symm
      by_cases hm : d.task ∈ es.map (·.task)
      · simp [hm]
      · simp [hm, hne]

theorem upsert_nodup {acc : List BDecision} (d : BDecision) (h : (acc.map (·.task)).Nodup) :
    ((upsert acc d).map (·.task)).Nodup := by
  rw [upsert_tasks]
  split
  · exact h
  · rename_i hm
    rw [List.nodup_append]
    refine ⟨h, by simp, ?_⟩
    intro a ha b hb
    simp at hb
    subst hb
    intro hab
    exact hm (hab ▸ ha)

theorem foldl_upsert_nodup {ds acc : List BDecision} (h : (acc.map (·.task)).Nodup) :
    ((ds.foldl upsert acc).map (·.task)).Nodup := by
  induction ds generalizing acc with
  | nil => exact h
  | cons d ds ih => exact ih (upsert_nodup d h)

/-- One merged answer per task. -/
theorem mergeB_nodup (ds : List BDecision) : ((mergeB ds).map (·.task)).Nodup :=
  foldl_upsert_nodup (by simp)

theorem task_mem_upsert (acc : List BDecision) (d : BDecision) :
    d.task ∈ (upsert acc d).map (·.task) := by
  rw [upsert_tasks]; split <;> simp_all

theorem task_mem_upsert_of_mem {acc : List BDecision} (d : BDecision) {t : Nat}
    (h : t ∈ acc.map (·.task)) : t ∈ (upsert acc d).map (·.task) := by
  rw [upsert_tasks]; split <;> simp_all

theorem task_mem_foldl_of_acc {ds acc : List BDecision} {t : Nat} (h : t ∈ acc.map (·.task)) :
    t ∈ (ds.foldl upsert acc).map (·.task) := by
  induction ds generalizing acc with
  | nil => exact h
  | cons d ds ih => exact ih (task_mem_upsert_of_mem d h)

theorem task_mem_foldl {ds acc : List BDecision} {d : BDecision} (h : d ∈ ds) :
    d.task ∈ (ds.foldl upsert acc).map (·.task) := by
  induction ds generalizing acc with
  | nil => simp at h
  | cons e es ih =>
    simp only [List.foldl_cons]
    rcases List.mem_cons.mp h with rfl | h
    · exact task_mem_foldl_of_acc (task_mem_upsert acc d)
    · exact ih h

/-- Every task that some batch answers has a merged answer. -/
theorem task_mem_mergeB {ds : List BDecision} {d : BDecision} (h : d ∈ ds) :
    d.task ∈ (mergeB ds).map (·.task) := task_mem_foldl h

/-- A placed answer already in the map is never overwritten. -/
theorem upsert_keep {acc : List BDecision} {d : BDecision} (e : BDecision) (hd : d ∈ acc)
    (hn : (acc.map (·.task)).Nodup) (hp : d.out.isPlaced = true) : d ∈ upsert acc e := by
  induction acc with
  | nil => simp at hd
  | cons a as ih =>
    simp only [upsert]
    simp only [List.map_cons, List.nodup_cons] at hn
    rcases List.mem_cons.mp hd with rfl | hd
    · split
      · simp
      · simp
    · split
      · rename_i hae
        split
        · exact List.mem_cons_of_mem _ hd
        · exact List.mem_cons_of_mem _ hd
      · exact List.mem_cons_of_mem _ (ih hd hn.2)

theorem foldl_keep {ds acc : List BDecision} {d : BDecision} (hd : d ∈ acc)
    (hn : (acc.map (·.task)).Nodup) (hp : d.out.isPlaced = true) : d ∈ ds.foldl upsert acc := by
  induction ds generalizing acc with
  | nil => exact hd
  | cons e es ih => exact ih (upsert_keep e hd hn hp) (upsert_nodup e hn)

/-- A placed answer enters the map unless another placed answer for the task is there. -/
theorem upsert_new {acc : List BDecision} {d : BDecision}
    (hu : ∀ e ∈ acc, e.task = d.task → e.out.isPlaced = true → e = d) : d ∈ upsert acc d := by
  induction acc with
  | nil => simp [upsert]
  | cons a as ih =>
    simp only [upsert]
    split
    · rename_i hae
      split
      · rename_i hpl
        have := hu a (by simp) hae hpl
        simp [this]
      · simp
    · exact List.mem_cons_of_mem _ (ih (fun e he => hu e (List.mem_cons_of_mem _ he)))

theorem foldl_new {ds acc : List BDecision} {d : BDecision} (hd : d ∈ ds)
    (hn : (acc.map (·.task)).Nodup) (hp : d.out.isPlaced = true)
    (hu : ∀ e, e ∈ acc ∨ e ∈ ds → e.task = d.task → e.out.isPlaced = true → e = d) :
    d ∈ ds.foldl upsert acc := by
  induction ds generalizing acc with
  | nil => simp at hd
  | cons e es ih =>
    simp only [List.foldl_cons]
    rcases List.mem_cons.mp hd with rfl | hd
    · exact foldl_keep (upsert_new (fun e he => hu e (Or.inl he))) (upsert_nodup _ hn) hp
    · refine ih hd (upsert_nodup e hn) ?_
      intro x hx
      rcases hx with hx | hx
      · rcases mem_upsert hx with hx | rfl
        · exact hu x (Or.inl hx)
        · exact hu x (Or.inr (by simp))
      · exact hu x (Or.inr (List.mem_cons_of_mem _ hx))

/-- A placed answer that is the only placed answer for its task survives the merge. -/
theorem mem_mergeB_of_unique {ds : List BDecision} {d : BDecision} (hd : d ∈ ds)
    (hp : d.out.isPlaced = true)
    (hu : ∀ e ∈ ds, e.task = d.task → e.out.isPlaced = true → e = d) : d ∈ mergeB ds :=
  foldl_new hd (by simp) hp (fun e he => by
    rcases he with he | he
    · simp at he
    · exact hu e he)

/-! ### Sums with at most one non-zero binary term -/

theorem zero_of_isum_le_zero {l : List Int} (hn : ∀ a ∈ l, 0 ≤ a) (hs : isum l ≤ 0) {a : Int} (ha : a ∈ l) :
    a = 0 := by
  have h1 := le_isum_of_mem hn ha
  have h2 := hn a ha
  omega

/-- A weighted sum of binary values of which at most one is 1 is the weight of the first 1. -/
theorem pick_sum {α : Type} (ks : List α) (v f : α → Int) (hv : ∀ q ∈ ks, v q = 0 ∨ v q = 1)
    (hs : isum (ks.map v) ≤ 1) :
    isum (ks.map (fun q => f q * v q)) =
      match ks.find? (fun q => v q == 1) with
      | some q => f q
      | none => 0 := by
  induction ks with
  | nil => simp
  | cons x xs ih =>
    have hx := hv x (by simp)
    have hxs : ∀ q ∈ xs, v q = 0 ∨ v q = 1 := fun q hq => hv q (List.mem_cons_of_mem _ hq)
    have hnn : ∀ a ∈ xs.map v, 0 ≤ a := by
      intro a ha
      obtain ⟨q, hq, rfl⟩ := List.mem_map.mp ha
      rcases hxs q hq with h | h <;> omega
    simp only [List.map_cons, isum_cons] at hs ⊢
    rcases hx with h0 | h1
    · have : (v x == 1) = false := by simp [h0]
      simp only [List.find?_cons, this]
      rw [h0, Int.mul_zero, Int.zero_add]
      exact ih hxs (by omega)
    · have : (v x == 1) = true := by simp [h1]
      simp only [List.find?_cons, this]
      rw [h1, Int.mul_one]
      have hz : isum (xs.map (fun q => f q * v q)) = 0 := by
        apply isum_map_zero
        intro q hq
        have hq0 : v q = 0 := zero_of_isum_le_zero hnn (by omega) (List.mem_map.mpr ⟨q, hq, rfl⟩)
        rw [hq0, Int.mul_zero]
      omega

/-! ### What `sat σ (genB I)` says -/

variable {I : BInst} {σ : BVar → Int}

theorem mem_free {bi : Nat} : bi ∈ I.free ↔ bi < I.nB ∧ I.bRunning (I.batch bi) = false := by
  simp [BInst.free]

theorem mem_runningB {bi : Nat} : bi ∈ I.runningB ↔ bi < I.nB ∧ I.bRunning (I.batch bi) = true := by
  simp [BInst.runningB]

theorem eval_cellE (I : BInst) (σ : BVar → Int) (bi w k : Nat) :
    (I.cellE bi w k).eval σ = if I.cellOk (I.batch bi) w k then σ (.cell bi w k) else 0 := by
  unfold BInst.cellE
  split <;> simp

theorem eval_sumCells (I : BInst) (σ : BVar → Int) (bi : Nat) :
    (I.sumCells bi).eval σ = isum (I.keys.map (fun q => (I.cellE bi q.1 q.2).eval σ)) := by
  simp [BInst.sumCells, LinExpr.eval_sumL, List.map_map, Function.comp_def]

theorem vars_ok (h : sat σ (genB I)) {d : VarDecl BVar} (hd : d ∈ I.vars) : d.ok σ := h.1 d hd
theorem constr_holds (h : sat σ (genB I)) {c : Constr BVar} (hc : c ∈ I.constrs) : c.holds σ := h.2 c hc

/-- Cell variables are binary. -/
theorem cell_binary (h : sat σ (genB I)) {bi : Nat} (hb : bi ∈ I.free) {q : Nat × Nat} (hq : q ∈ I.keys)
    (hok : I.cellOk (I.batch bi) q.1 q.2 = true) : σ (.cell bi q.1 q.2) = 0 ∨ σ (.cell bi q.1 q.2) = 1 := by
  have hd : bbin (.cell bi q.1 q.2) ∈ I.vars := by
    simp only [BInst.vars, List.mem_append, List.mem_flatMap]
    refine Or.inl ⟨bi, hb, ?_⟩
    simp only [BInst.batchVars, List.mem_append]
    refine Or.inl (Or.inl ?_)
    simp only [BInst.cellVars, List.mem_map, List.mem_filter]
    exact ⟨q, ⟨hq, hok⟩, rfl⟩
  exact (vars_ok h hd).1 rfl

theorem cellE_binary (h : sat σ (genB I)) {bi : Nat} (hb : bi ∈ I.free) {q : Nat × Nat} (hq : q ∈ I.keys) :
    (I.cellE bi q.1 q.2).eval σ = 0 ∨ (I.cellE bi q.1 q.2).eval σ = 1 := by
  rw [eval_cellE]
  split
  · rename_i hok; exact cell_binary h hb hq hok
  · exact Or.inl rfl

theorem cPlace_mem {bi : Nat} (hb : bi ∈ I.free) {c : Constr BVar} (hc : c ∈ I.cPlace bi) : c ∈ I.constrs := by
  simp only [BInst.constrs, List.mem_append, List.mem_flatMap]
  exact Or.inl (Or.inl (Or.inl ⟨bi, hb, Or.inl hc⟩))

/-- At most one cell of a batch is chosen. -/
theorem sumCells_le_one (h : sat σ (genB I)) {bi : Nat} (hb : bi ∈ I.free) : (I.sumCells bi).eval σ ≤ 1 := by
  by_cases hm : I.bMust (I.batch bi) = true
  · have := constr_holds h (cPlace_mem hb (c := .lin s!"{I.bname bi}_previously_scheduled_required_worker_placement" (I.sumCells bi) .eq 1)
      (by simp [BInst.cPlace, hm]))
    simp only [Constr.holds, Sense.holds] at this
    omega
  · have := constr_holds h (cPlace_mem hb (c := .lin s!"{I.bname bi}_consistent_worker_placement" (I.sumCells bi) .le 1)
      (by simp [BInst.cPlace, hm]))
    simpa only [Constr.holds, Sense.holds] using this

/-- `is_placed` (variable or the constant 1) equals the sum of the cells. -/
theorem isPlacedE_eq (h : sat σ (genB I)) {bi : Nat} (hb : bi ∈ I.free) :
    (I.isPlacedE bi).eval σ = (I.sumCells bi).eval σ := by
  have hr := (mem_free.mp hb).2
  by_cases hm : I.bMust (I.batch bi) = true
  · have := constr_holds h (cPlace_mem hb (c := .lin s!"{I.bname bi}_previously_scheduled_required_worker_placement" (I.sumCells bi) .eq 1)
      (by simp [BInst.cPlace, hm]))
    simp only [Constr.holds, Sense.holds] at this
    simp [BInst.isPlacedE, hr, hm, this]
  · have := constr_holds h (cPlace_mem hb (c := .lin s!"{I.bname bi}_is_placed_constraint"
        (LinExpr.sub (LinExpr.ofVar (.isPlaced bi)) (I.sumCells bi)) .eq 0)
      (by simp [BInst.cPlace, hm]))
    simp only [Constr.holds, Sense.holds, LinExpr.eval_sub, LinExpr.eval_ofVar] at this
    simp [BInst.isPlacedE, hr, hm]
    omega

theorem cellE_nonneg (h : sat σ (genB I)) {bi : Nat} (hb : bi ∈ I.free) :
    ∀ a ∈ I.keys.map (fun q => (I.cellE bi q.1 q.2).eval σ), 0 ≤ a := by
  intro a ha
  obtain ⟨q, hq, rfl⟩ := List.mem_map.mp ha
  rcases cellE_binary h hb hq with h0 | h1 <;> omega

/-- `chosen` is the first key whose matrix entry evaluates to 1. -/
theorem chosen_eq {bi : Nat} (hb : bi ∈ I.free) :
    I.chosen σ bi = I.keys.find? (fun q => (I.cellE bi q.1 q.2).eval σ == 1) := by
  unfold BInst.chosen
  congr 1
  funext q
  have hr := (mem_free.mp hb).2
  rw [eval_cellE]
  by_cases hok : I.cellOk (I.batch bi) q.1 q.2 = true
  · simp [BInst.hasVar, hr, hok]
  · simp [BInst.hasVar, hr, hok]

theorem chosen_spec {bi : Nat} {q : Nat × Nat} (hc : I.chosen σ bi = some q) :
    q ∈ I.keys ∧ I.bRunning (I.batch bi) = false ∧ I.cellOk (I.batch bi) q.1 q.2 = true ∧ σ (.cell bi q.1 q.2) = 1 := by
  unfold BInst.chosen at hc
  have h1 := List.mem_of_find?_eq_some hc
  have h2 := List.find?_some hc
  simp only [BInst.hasVar, Bool.and_eq_true, Bool.not_eq_true', beq_iff_eq] at h2
  exact ⟨h1, h2.1.1, h2.1.2, h2.2⟩

/-- A batch with a chosen cell is placed (`is_placed` = 1). -/
theorem isPlaced_of_chosen (h : sat σ (genB I)) {bi : Nat} (hb : bi ∈ I.free) {q : Nat × Nat}
    (hc : I.chosen σ bi = some q) : (I.isPlacedE bi).eval σ = 1 := by
  rw [isPlacedE_eq h hb]
  have hle := sumCells_le_one h hb
  obtain ⟨hq, _, hok, hv⟩ := chosen_spec hc
  have hmem : (I.cellE bi q.1 q.2).eval σ ∈ I.keys.map (fun q => (I.cellE bi q.1 q.2).eval σ) :=
    List.mem_map.mpr ⟨q, hq, rfl⟩
  have hge := le_isum_of_mem (cellE_nonneg h hb) hmem
  rw [← eval_sumCells] at hge
  rw [eval_cellE, if_pos hok, hv] at hge
  omega

theorem isPlacedE_nonneg (h : sat σ (genB I)) {bi : Nat} (hb : bi < I.nB) : 0 ≤ (I.isPlacedE bi).eval σ := by
  by_cases hr : I.bRunning (I.batch bi) = true
  · simp [BInst.isPlacedE, hr]
  · have hf : bi ∈ I.free := mem_free.mpr ⟨hb, by simpa using hr⟩
    rw [isPlacedE_eq h hf, eval_sumCells]
    exact isum_nonneg (cellE_nonneg h hf)

/-! ### At most one placed batch per task (the `…_not_placed` rows) -/

theorem getD_mem {α : Type} (l : List α) (d : α) {i : Nat} (h : i < l.length) : l.getD i d ∈ l := by
  rw [List.getD_eq_getElem?_getD, List.getElem?_eq_getElem h]
  simp

theorem batch_mem {bi : Nat} (hb : bi < I.nB) : I.batch bi ∈ I.batches := getD_mem _ _ hb

theorem mem_batchTasks {t bi : Nat} (hb : bi < I.nB) (ht : t ∈ (I.batch bi).members) : t ∈ I.batchTasks := by
  simp only [BInst.batchTasks, List.mem_eraseDups, List.mem_flatMap]
  exact ⟨I.batch bi, batch_mem hb, ht⟩

theorem mem_batchesOf {t bi : Nat} : bi ∈ I.batchesOf t ↔ bi < I.nB ∧ t ∈ (I.batch bi).members := by
  simp [BInst.batchesOf]

/-- `Σ_{b ∋ t} is_placed_b ≤ 1`: the `not_placed` variable of the task is at most 0. -/
theorem placed_sum_le_one (h : sat σ (genB I)) {t : Nat} (ht : t ∈ I.batchTasks) :
    isum ((I.batchesOf t).map (fun bi => (I.isPlacedE bi).eval σ)) ≤ 1 := by
  have hd : (⟨.notPlaced t, .int, some (-1), some 0⟩ : VarDecl BVar) ∈ I.vars := by
    simp only [BInst.vars, List.mem_append, List.mem_map]
    exact Or.inr ⟨t, ht, rfl⟩
  have hub := ((vars_ok h hd).2 rfl).2
  simp only [optGe] at hub
  have hc : (Constr.lin "" (LinExpr.sub (LinExpr.ofVar (.notPlaced t))
      (LinExpr.sumL ((I.batchesOf t).map I.isPlacedE))) .eq (-1)) ∈ I.constrs := by
    simp only [BInst.constrs, List.mem_append]
    refine Or.inr ?_
    simp only [BInst.cNotPlaced, List.mem_map]
    exact ⟨t, ht, rfl⟩
  have := constr_holds h hc
  simp only [Constr.holds, Sense.holds, LinExpr.eval_sub, LinExpr.eval_ofVar, LinExpr.eval_sumL,
    List.map_map, Function.comp_def] at this
  omega

/-- Two different indices of a list of non-negative values that are both 1 make the sum ≥ 2. -/
theorem two_le_isum {l : List Nat} (f : Nat → Int) (hn : ∀ x ∈ l, 0 ≤ f x) (hnd : l.Nodup) {a b : Nat}
    (ha : a ∈ l) (hb : b ∈ l) (hab : a ≠ b) (fa : f a = 1) (fb : f b = 1) : 2 ≤ isum (l.map f) := by
  induction l with
  | nil => simp at ha
  | cons x xs ih =>
    have hxs : ∀ y ∈ xs, 0 ≤ f y := fun y hy => hn y (List.mem_cons_of_mem _ hy)
    have hnn : ∀ v ∈ xs.map f, 0 ≤ v := by
      intro v hv; obtain ⟨y, hy, rfl⟩ := List.mem_map.mp hv; exact hxs y hy
    simp only [List.nodup_cons] at hnd
    simp only [List.map_cons, isum_cons]
    have hx0 := hn x (by simp)
    rcases List.mem_cons.mp ha with hax | ha'
    · rcases List.mem_cons.mp hb with hbx | hb'
      · exact absurd (hax.trans hbx.symm) hab
      · have := le_isum_of_mem hnn (List.mem_map.mpr ⟨b, hb', rfl⟩)
        rw [← hax, fa]; omega
    · rcases List.mem_cons.mp hb with hbx | hb'
      · have := le_isum_of_mem hnn (List.mem_map.mpr ⟨a, ha', rfl⟩)
        rw [← hbx, fb]; omega
      · have := ih hxs hnd.2 ha' hb'
        omega

/-- **At most one placed batch per task.** -/
theorem placed_batch_unique (h : sat σ (genB I)) {t b1 b2 : Nat} (h1 : b1 < I.nB) (h2 : b2 < I.nB)
    (m1 : t ∈ (I.batch b1).members) (m2 : t ∈ (I.batch b2).members)
    (p1 : (I.isPlacedE b1).eval σ = 1) (p2 : (I.isPlacedE b2).eval σ = 1) : b1 = b2 := by
  by_cases hne : b1 = b2
  · exact hne
  · exfalso
    have hle := placed_sum_le_one h (mem_batchTasks h1 m1)
    have hnd : (I.batchesOf t).Nodup := by
      unfold BInst.batchesOf
      exact List.Nodup.sublist List.filter_sublist List.nodup_range
    have := two_le_isum (fun bi => (I.isPlacedE bi).eval σ)
      (fun x hx => isPlacedE_nonneg h (mem_batchesOf.mp hx).1) hnd
      (mem_batchesOf.mpr ⟨h1, m1⟩) (mem_batchesOf.mpr ⟨h2, m2⟩) hne p1 p2
    omega

theorem isum_map_congr_mem {α : Type} {l : List α} {f g : α → Int} (h : ∀ a ∈ l, f a = g a) :
    isum (l.map f) = isum (l.map g) := isum_map_congr l f g h

/-! ### Capacity: the load of the decoded plan, every batch counted once -/

/-- Demand of the (non-RUNNING) batch `bi` for resource `r` on worker `w` at slot `k` under the
decoded plan: the requirement of its one `BatchStrategy`, **once**, however many members it has. -/
def BInst.contrib (I : BInst) (σ : BVar → Int) (bi w k : Nat) (r : String) : Nat :=
  match I.chosen σ bi with
  | some q => if q.1 = w ∧ I.covers bi q.2 k = true then I.req bi r else 0
  | none => 0

/-- Load of the batches placed by the decision. -/
def BInst.freeLoad (I : BInst) (σ : BVar → Int) (w k : Nat) (r : String) : Nat :=
  nsum (I.free.map (fun bi => I.contrib σ bi w k r))

/-- Load of the decoded plan plus the RUNNING batches. -/
def BInst.batchLoad (I : BInst) (σ : BVar → Int) (w k : Nat) (r : String) : Nat :=
  I.freeLoad σ w k r + I.runningLoad w k r

theorem eval_demandE (h : sat σ (genB I)) {bi : Nat} (hb : bi ∈ I.free) (w k : Nat) (r : String) :
    (I.demandE bi w k r).eval σ = (I.contrib σ bi w k r : Nat) := by
  let P : Nat × Nat → Bool := fun q => q.1 == w && I.covers bi q.2 k
  let v : Nat × Nat → Int := fun q => (I.cellE bi q.1 q.2).eval σ
  let f : Nat × Nat → Int := fun q => if P q then (I.req bi r : Nat) else 0
  have e1 : (I.demandE bi w k r).eval σ = isum (I.keys.map (fun q => f q * v q)) := by
    simp only [BInst.demandE, LinExpr.eval_sumL, List.map_map, Function.comp_def, LinExpr.eval_smul]
    rw [isum_map_filter]
    apply isum_map_congr
    intro q _
    simp only [f, v, P]
    split <;> simp
  have hs : isum (I.keys.map v) ≤ 1 := by
    have := sumCells_le_one h hb
    rwa [eval_sumCells] at this
  rw [e1, pick_sum I.keys v f (fun q hq => cellE_binary h hb hq) hs]
  unfold BInst.contrib
  rw [chosen_eq hb]
  cases hfind : I.keys.find? (fun q => (I.cellE bi q.1 q.2).eval σ == 1) with
  | none => simp [v, hfind]
  | some q =>
    simp only [v, hfind, f, P]
    by_cases hw : q.1 = w
    · by_cases hc : I.covers bi q.2 k = true
      · simp [hw, hc]
      · simp [hw, hc]
    · simp [hw]

theorem eval_resE (h : sat σ (genB I)) (w k : Nat) (r : String) :
    (I.resE w k r).eval σ = (I.batchLoad σ w k r : Nat) := by
  simp only [BInst.resE, LinExpr.eval_add, LinExpr.eval_ofConst, LinExpr.eval_sumL, List.map_map,
    Function.comp_def, BInst.batchLoad, BInst.freeLoad, BInst.runningLoad]
  rw [Int.natCast_add]
  congr 1
  rw [nsum_cast, List.map_map]
  apply isum_map_congr_mem
  intro bi hb
  simpa using eval_demandE h hb w k r

/-! ### Capacity rows -/

theorem cRes_holds (h : sat σ (genB I)) {w k : Nat} {r : String} (hk : k < I.nSlotsR) (hw : w < I.nW)
    (hr : r ∈ (I.worker w).types) (hrow : I.resRow w k r = true) :
    (I.resE w k r).eval σ ≤ (qty (I.worker w).res r : Nat) := by
  have hc : (Constr.lin s!"{r}_utilization_Worker_{w + 1}_at_Time_{I.slot k}" (I.resE w k r) .le
      (qty (I.worker w).res r : Nat)) ∈ I.constrs := by
    simp only [BInst.constrs, List.mem_append]
    refine Or.inl (Or.inr ?_)
    simp only [BInst.cRes, List.mem_flatMap, List.mem_range, List.mem_map, List.mem_filter]
    exact ⟨k, hk, w, hw, r, ⟨hr, hrow⟩, rfl⟩
  have := constr_holds h hc
  simpa only [Constr.holds, Sense.holds] using this

/-- A batch placed on worker `w` uses a strategy that `w` can hold. -/
theorem chosen_compatible {bi : Nat} {q : Nat × Nat} (hc : I.chosen σ bi = some q) :
    compatible (I.worker q.1) (I.batch bi).strat.toStrat = true := by
  obtain ⟨_, _, hok, _⟩ := chosen_spec hc
  simp only [BInst.cellOk, Bool.and_eq_true] at hok
  exact hok.1.1

theorem contrib_zero_of_qty_zero {bi w k : Nat} {r : String} (hq : qty (I.worker w).res r = 0) :
    I.contrib σ bi w k r = 0 := by
  unfold BInst.contrib
  cases hc : I.chosen σ bi with
  | none => rfl
  | some q =>
    simp only
    split
    · rename_i hcond
      have := chosen_compatible hc
      rw [hcond.1] at this
      exact req_zero_of_compatible this hq
    · rfl

theorem contrib_zero_of_no_term {bi w k : Nat} {r : String} (hb : bi ∈ I.free)
    (hno : I.resHasTerm w k r = false) : I.contrib σ bi w k r = 0 := by
  unfold BInst.contrib
  cases hc : I.chosen σ bi with
  | none => rfl
  | some q =>
    simp only
    split
    · rename_i hcond
      obtain ⟨hq, _, hok, _⟩ := chosen_spec hc
      by_cases hreq : I.req bi r = 0
      · exact hreq
      · exfalso
        have : I.resHasTerm w k r = true := by
          simp only [BInst.resHasTerm, Bool.or_eq_true, List.any_eq_true, Bool.and_eq_true, bne_iff_ne, ne_eq,
            beq_iff_eq]
          refine Or.inl ⟨bi, hb, hreq, q, hq, ⟨hcond.1, hcond.2⟩, ?_⟩
          exact hok
        rw [hno] at this
        exact Bool.noConfusion this
    · rfl

theorem runDemand_zero_of_no_term {bi w k : Nat} {r : String} (hb : bi ∈ I.runningB)
    (hno : I.resHasTerm w k r = false) : I.runDemand bi w k r = 0 := by
  unfold BInst.runDemand
  split
  · rename_i hcond
    by_cases hreq : I.req bi r = 0
    · exact hreq
    · exfalso
      have : I.resHasTerm w k r = true := by
        simp only [BInst.resHasTerm, Bool.or_eq_true, List.any_eq_true, Bool.and_eq_true, bne_iff_ne, ne_eq,
          decide_eq_true_eq]
        exact Or.inr ⟨bi, hb, ⟨hreq, hcond.1⟩, hcond.2⟩
      rw [hno] at this
      exact Bool.noConfusion this
  · rfl

theorem wf_running_fit (hwf : I.wf = true) {w k : Nat} {r : String} (hk : k < I.nSlotsR) (hw : w < I.nW)
    (hr : r ∈ (I.worker w).types) : I.runningLoad w k r ≤ qty (I.worker w).res r := by
  simp only [BInst.wf, Bool.and_eq_true] at hwf
  have := hwf.2
  simp only [BInst.wfRunningFit, List.all_eq_true, List.mem_range, decide_eq_true_eq] at this
  exact this k hk w hw r hr

/-- **Capacity with every batch charged once**: at every slot that carries capacity rows the
decoded plan (one requirement per placed `BatchTask`) plus the RUNNING batches fits the worker. -/
theorem batchLoad_le (h : sat σ (genB I)) (hwf : I.wf = true) {w k : Nat} {r : String}
    (hk : k < I.nSlotsR) (hw : w < I.nW) (hr : r ∈ (I.worker w).types) :
    I.batchLoad σ w k r ≤ qty (I.worker w).res r := by
  by_cases hrow : I.resRow w k r = true
  · have := cRes_holds h hk hw hr hrow
    rw [eval_resE h] at this
    exact Int.ofNat_le.mp this
  · simp only [BInst.resRow, Bool.and_eq_true, bne_iff_ne, ne_eq, not_and, Bool.not_eq_true] at hrow
    by_cases hq : qty (I.worker w).res r = 0
    · have h1 : I.freeLoad σ w k r = 0 :=
        nsum_eq_zero (fun a ha => by
          obtain ⟨bi, _, rfl⟩ := List.mem_map.mp ha
          exact contrib_zero_of_qty_zero hq)
      have h2 := wf_running_fit hwf hk hw hr
      simp only [BInst.batchLoad, h1]
      omega
    · have hno := hrow hq
      have h1 : I.freeLoad σ w k r = 0 :=
        nsum_eq_zero (fun a ha => by
          obtain ⟨bi, hb, rfl⟩ := List.mem_map.mp ha
          exact contrib_zero_of_no_term hb hno)
      have h2 : I.runningLoad w k r = 0 :=
        nsum_eq_zero (fun a ha => by
          obtain ⟨bi, hb, rfl⟩ := List.mem_map.mp ha
          exact runDemand_zero_of_no_term hb hno)
      simp only [BInst.batchLoad, h1, h2]
      omega

/-! ### Decoding -/

theorem mem_decodeBatch {bi : Nat} {d : BDecision} (hd : d ∈ I.decodeBatch σ bi) :
    d.task ∈ (I.batch bi).members ∧
    (d.out = .unplaced ∨ ∃ q, I.chosen σ bi = some q ∧ d.out = .placed q.1 bi (I.slot q.2)) := by
  unfold BInst.decodeBatch at hd
  cases hc : I.chosen σ bi with
  | none =>
    simp only [hc, List.mem_map] at hd
    obtain ⟨t, ht, rfl⟩ := hd
    exact ⟨ht, Or.inl rfl⟩
  | some q =>
    obtain ⟨w, k⟩ := q
    simp only [hc, List.mem_map] at hd
    obtain ⟨t, ht, rfl⟩ := hd
    exact ⟨ht, Or.inr ⟨(w, k), rfl, rfl⟩⟩

theorem mem_decodeB {d : BDecision} (hd : d ∈ decodeB I σ) :
    (d.out = .cancel ∧ d.task ∈ I.cancelled) ∨ (∃ bi ∈ I.free, d ∈ I.decodeBatch σ bi) := by
  simp only [decodeB, List.mem_append, List.mem_map] at hd
  rcases hd with ⟨t, ht, rfl⟩ | hd
  · exact Or.inl ⟨rfl, ht⟩
  · have := mem_mergeB hd
    simp only [List.mem_flatMap] at this
    exact Or.inr this

/-- Where a placed answer comes from: the chosen cell of a batch the task is a member of. -/
theorem placed_origin {t w b : Nat} {time : Int} (hd : (⟨t, .placed w b time⟩ : BDecision) ∈ decodeB I σ) :
    b ∈ I.free ∧ t ∈ (I.batch b).members ∧ ∃ k, I.chosen σ b = some (w, k) ∧ time = I.slot k := by
  rcases mem_decodeB hd with ⟨hc, _⟩ | ⟨bi, hb, hdb⟩
  · simp at hc
  · obtain ⟨hm, hout⟩ := mem_decodeBatch hdb
    rcases hout with hu | ⟨q, hq, hp⟩
    · simp at hu
    · simp only [BOutcome.placed.injEq] at hp
      obtain ⟨rfl, rfl, rfl⟩ := hp
      exact ⟨hb, hm, q.2, by simpa using hq, rfl⟩

/-! ### Batch construction: members are active tasks of the call -/

theorem mem_insertBy {key : Nat → Int} {x y : Nat} {l : List Nat} (h : y ∈ insertBy key x l) : y = x ∨ y ∈ l := by
  induction l with
  | nil => simp [insertBy] at h; exact Or.inl h
  | cons a as ih =>
    simp only [insertBy] at h
    split at h
    · rcases List.mem_cons.mp h with rfl | h
      · exact Or.inr (by simp)
      · rcases ih h with h | h
        · exact Or.inl h
        · exact Or.inr (List.mem_cons_of_mem _ h)
    · rcases List.mem_cons.mp h with rfl | h
      · exact Or.inl rfl
      · exact Or.inr h

theorem mem_sortBy {key : Nat → Int} {y : Nat} {l : List Nat} (h : y ∈ sortBy key l) : y ∈ l := by
  induction l with
  | nil => simp [sortBy] at h
  | cons a as ih =>
    simp only [sortBy] at h
    rcases mem_insertBy h with rfl | h
    · simp
    · exact List.mem_cons_of_mem _ (ih h)

theorem mem_nameBatches {pn : String} {i : Nat} {bs : List Batch} {b : Batch} (h : b ∈ nameBatches pn i bs) :
    ∃ b' ∈ bs, b.members = b'.members ∧ b.strat = b'.strat := by
  induction bs generalizing i with
  | nil => simp [nameBatches] at h
  | cons a as ih =>
    simp only [nameBatches] at h
    rcases List.mem_cons.mp h with rfl | h
    · exact ⟨a, by simp, rfl, rfl⟩
    · obtain ⟨b', hb', hm⟩ := ih h
      exact ⟨b', List.mem_cons_of_mem _ hb', hm⟩

theorem mem_windowBatches {p : Nat} {U : List Nat} {b : Batch} (h : b ∈ I.windowBatches p U) :
    ∀ t ∈ b.members, t ∈ U := by
  induction U with
  | nil => simp [BInst.windowBatches] at h
  | cons x xs ih =>
    simp only [BInst.windowBatches, List.mem_append] at h
    rcases h with h | h
    · simp only [BInst.headBatches, List.mem_map, List.mem_filter] at h
      obtain ⟨s, _, rfl⟩ := h
      intro t ht
      exact List.mem_of_mem_take ht
    · intro t ht
      exact List.mem_cons_of_mem _ (ih h t ht)

theorem mem_priorBatches {p : Nat} {L : List Nat} {b : Batch} (h : b ∈ I.priorBatches p L) :
    ∀ t ∈ b.members, t ∈ L := by
  simp only [BInst.priorBatches, List.mem_map] at h
  obtain ⟨g, _, rfl⟩ := h
  intro t ht
  simp only [List.mem_filter] at ht
  exact ht.1.1

theorem mem_profBatches {p : Nat} {b : Batch} (h : b ∈ I.profBatches p) : ∀ t ∈ b.members, t ∈ I.profTasks p := by
  unfold BInst.profBatches at h
  obtain ⟨b', hb', hm, _⟩ := mem_nameBatches h
  rw [hm]
  rcases List.mem_append.mp hb' with hb' | hb'
  · exact mem_priorBatches hb'
  · intro t ht
    have := mem_windowBatches hb' t ht
    have := mem_sortBy this
    exact (List.mem_filter.mp this).1

/-- Members of a `BatchTask` are tasks of the call that survived the admission control. -/
theorem members_active {bi : Nat} (hb : bi < I.nB) {t : Nat} (ht : t ∈ (I.batch bi).members) :
    t < I.nT ∧ I.active t = true := by
  have hmem := batch_mem hb
  simp only [BInst.batches, List.mem_flatMap] at hmem
  obtain ⟨p, _, hp⟩ := hmem
  have := mem_profBatches hp t ht
  simp only [BInst.profTasks, List.mem_filter, Bool.and_eq_true, decide_eq_true_eq] at this
  exact ⟨this.2.1.1, this.2.1.2⟩

/-! ### Capacity at every instant of the row horizon -/

/-- Demand of batch `bi` on worker `w` at the instant `τ` (half-open occupancy
`[start, start + runtime)`), once per batch. -/
def BInst.contribAt (I : BInst) (σ : BVar → Int) (bi w : Nat) (τ : Int) (r : String) : Nat :=
  match I.chosen σ bi with
  | some q => if q.1 = w ∧ I.slot q.2 ≤ τ ∧ τ < I.slot q.2 + ((I.batch bi).strat.runtime : Nat) then I.req bi r else 0
  | none => 0

/-- Demand of a RUNNING batch at the instant `τ`: `[now, now + full runtime)`. -/
def BInst.runDemandAt (I : BInst) (bi w : Nat) (τ : Int) (r : String) : Nat :=
  if I.bPrevW (I.batch bi) = w ∧ I.now ≤ τ ∧ τ < I.now + ((I.batch bi).strat.runtime : Nat) then I.req bi r else 0

/-- Load of the decoded plan and the RUNNING batches at the instant `τ`, a batch counted once. -/
def BInst.loadAt (I : BInst) (σ : BVar → Int) (w : Nat) (τ : Int) (r : String) : Nat :=
  nsum (I.free.map (fun bi => I.contribAt σ bi w τ r)) + nsum (I.runningB.map (fun bi => I.runDemandAt bi w τ r))

theorem covers_of_instant {bi k' k : Nat} {τ : Int} (hd : 1 ≤ I.disc) (h1 : I.slot k ≤ τ)
    (h2 : τ < I.slot k + (I.disc : Nat)) (h3 : I.slot k' ≤ τ)
    (h4 : τ < I.slot k' + ((I.batch bi).strat.runtime : Nat)) : I.covers bi k' k = true := by
  simp only [BInst.slot] at h1 h2 h3 h4
  have hk : k' ≤ k := by
    by_cases hle : k' ≤ k
    · exact hle
    · exfalso
      have : (k + 1) * I.disc ≤ k' * I.disc := Nat.mul_le_mul_right _ (by omega)
      have e : (k + 1) * I.disc = k * I.disc + I.disc := by rw [Nat.add_mul, Nat.one_mul]
      generalize k * I.disc = a at *
      generalize k' * I.disc = b at *
      omega
  simp only [BInst.covers, Bool.and_eq_true, decide_eq_true_eq]
  refine ⟨hk, ?_⟩
  generalize k * I.disc = a at *
  generalize k' * I.disc = b at *
  omega

theorem contribAt_le {bi w k : Nat} {τ : Int} {r : String} (hd : 1 ≤ I.disc) (h1 : I.slot k ≤ τ)
    (h2 : τ < I.slot k + (I.disc : Nat)) : I.contribAt σ bi w τ r ≤ I.contrib σ bi w k r := by
  unfold BInst.contribAt BInst.contrib
  cases hc : I.chosen σ bi with
  | none => simp
  | some q =>
    simp only
    by_cases hcond : q.1 = w ∧ I.slot q.2 ≤ τ ∧ τ < I.slot q.2 + ((I.batch bi).strat.runtime : Nat)
    · rw [if_pos hcond, if_pos ⟨hcond.1, covers_of_instant hd h1 h2 hcond.2.1 hcond.2.2⟩]
      exact Nat.le_refl _
    · rw [if_neg hcond]
      exact Nat.zero_le _

theorem runDemandAt_le {bi w k : Nat} {τ : Int} {r : String} (hd : 1 ≤ I.disc) (h1 : I.slot k ≤ τ)
    (h2 : τ < I.slot k + (I.disc : Nat)) : I.runDemandAt bi w τ r ≤ I.runDemand bi w k r := by
  unfold BInst.runDemandAt BInst.runDemand
  by_cases hcond : I.bPrevW (I.batch bi) = w ∧ I.now ≤ τ ∧ τ < I.now + ((I.batch bi).strat.runtime : Nat)
  · have h0 : I.slot 0 = I.now := by simp [BInst.slot]
    rw [if_pos hcond, if_pos ⟨hcond.1, covers_of_instant hd h1 h2 (by rw [h0]; exact hcond.2.1) (by rw [h0]; exact hcond.2.2)⟩]
    exact Nat.le_refl _
  · rw [if_neg hcond]
    exact Nat.zero_le _

theorem wf_disc (hwf : I.wf = true) : 1 ≤ I.disc := by
  simp only [BInst.wf, BInst.wfGrid, Bool.and_eq_true, decide_eq_true_eq] at hwf
  exact hwf.1.1.2.1.1.1.1.1.1

/-- The load at an instant of the slot interval `[slot k, slot k + disc)` is bounded by the load
at slot `k` (all starts lie on the grid). -/
theorem loadAt_le (hwf : I.wf = true) {w k : Nat} {τ : Int} {r : String} (h1 : I.slot k ≤ τ)
    (h2 : τ < I.slot k + (I.disc : Nat)) : I.loadAt σ w τ r ≤ I.batchLoad σ w k r := by
  have hd := wf_disc hwf
  unfold BInst.loadAt BInst.batchLoad BInst.freeLoad BInst.runningLoad
  have a := nsum_map_le I.free (fun bi => I.contribAt σ bi w τ r) (fun bi => I.contrib σ bi w k r)
    (fun bi _ => contribAt_le hd h1 h2)
  have b := nsum_map_le I.runningB (fun bi => I.runDemandAt bi w τ r) (fun bi => I.runDemand bi w k r)
    (fun bi _ => runDemandAt_le hd h1 h2)
  omega

theorem eq_of_nodup_map {α β : Type} (f : α → β) {l : List α} (h : (l.map f).Nodup) {a b : α}
    (ha : a ∈ l) (hb : b ∈ l) (hab : f a = f b) : a = b := by
  induction l with
  | nil => simp at ha
  | cons x xs ih =>
    simp only [List.map_cons, List.nodup_cons, List.mem_map, not_exists, not_and] at h
    rcases List.mem_cons.mp ha with hax | ha'
    · rcases List.mem_cons.mp hb with hbx | hb'
      · rw [hax, hbx]
      · exact absurd (by rw [← hab, hax]) (h.1 b hb')
    · rcases List.mem_cons.mp hb with hbx | hb'
      · exact absurd (by rw [hab, hbx]) (h.1 a ha')
      · exact ih h.2 ha' hb'

/-! ### An example instance (the scenario of the seeded change `BatchTask.deadline = max`):
Tight (deadline 6) and Loose (20) share a batch-2 strategy of 5 µs, Urgent (another profile,
3 µs, deadline 3) competes for the only CPU -/

def exTight : BInst :=
  { now := 0, disc := 1, planAheadOpt := -1
    workers := [⟨"W0", "P0", [("CPU", 1)]⟩]
    profiles := [⟨"PR0", [⟨5, 2, [("CPU", 1)]⟩]⟩, ⟨"PR1", [⟨3, 1, [("CPU", 1)]⟩]⟩]
    prevStrats := []
    tasks := [⟨"Urgent@G0", .released, 0, 3, 1, 1, 0, 0⟩,
              ⟨"Tight@G1", .released, 0, 6, 0, 1, 0, 0⟩,
              ⟨"Loose@G2", .released, 0, 20, 0, 1, 0, 0⟩]
    nOffered := 3
    setOrder := [0, 1, 2]
    enforceDeadlines := true, retract := false }

end ErdosVerif.TetriBatch
