import ErdosVerif.Lemmas.SimCensusBase
import ErdosVerif.Lemmas.Event
/-!
Event order at simulator level, part 1: the invariant and the pure lemmas.

`QInv s`, proved for every reachable state of every run in `SimQueueRun.lean`:
* every queued event is well formed (it carries a task exactly when its type is one of
  the six TASK_* types) and the queue array is a heap w.r.t. `SEvent.lt` (`Event.__lt__`)
  — so that C16's heap theorems apply to the simulator's queue: the event `popEvent`
  returns is a minimum of the queue;
* the clock is the last value of the clock history;
* every `.pop t _` entry of the history was appended when the clock was `t`
  (`PopsAtClock`): an event takes effect at its own time.

Between `editEvent` (in-place re-timing of a queued event) and the `reheapify` that
follows it the heap order is broken; `QW` is what holds there.
-/
open Std.Do
set_option mvcgen.warning false

namespace ErdosVerif.Model

/-- The event types that carry a task (`Event.__init__`, simulator.py:81-90). -/
def taskType (ty : Nat) : Bool :=
  ty == ET.taskCancel || ty == ET.taskFinished || ty == ET.taskRelease || ty == ET.taskPreempt ||
  ty == ET.taskMigration || ty == ET.taskPlacement

/-- A queued event is well formed: it has a task name iff its type is a TASK_* type. -/
def SEvent.WF (e : SEvent) : Prop := Event.WF taskType e.ev

theorem sevent_swo : Heap.SWO SEvent.lt SEvent.WF where
  asymm := fun hx hy h => (Event.lt_swo taskType).asymm hx hy h
  le_trans := fun hx hy hz h1 h2 => (Event.lt_swo taskType).le_trans hx hy hz h1 h2

/-- `a` is not later than `b` when `b < a` is false. -/
theorem SEvent.time_le_of_not_lt {a b : SEvent} (h : SEvent.lt b a = false) : a.ev.time ≤ b.ev.time := by
  apply Int.not_lt.mp
  intro hlt
  have : SEvent.lt b a = true := by
    unfold SEvent.lt
    rw [Event.lt_iff]
    exact .inl hlt
  rw [h] at this
  cases this

namespace Heap

variable {α : Type}

theorem foldl_insert_mem (f : List α → α → Nat) (rest acc : List α) (y : α)
    (h : y ∈ rest.foldl (fun acc x => acc.take (f acc x) ++ x :: acc.drop (f acc x)) acc) : y ∈ acc ∨ y ∈ rest := by
  induction rest generalizing acc with
  | nil => exact .inl h
  | cons x rest ih =>
    simp only [List.foldl_cons] at h
    rcases ih _ h with h | h
    · simp only [List.mem_append, List.mem_cons] at h
      rcases h with h | rfl | h
      · exact .inl (List.mem_of_mem_take h)
      · exact .inr (List.mem_cons_self ..)
      · exact .inl (List.mem_of_mem_drop h)
    · exact .inr (List.mem_cons_of_mem _ h)

/-- `sorted(events)` returns elements of its argument. -/
theorem pySorted_mem (lt : α → α → Bool) (l : List α) (y : α) (h : y ∈ pySorted lt l) : y ∈ l := by
  unfold pySorted at h
  simp only at h
  rcases foldl_insert_mem (fun acc x => bisectRight lt acc.toArray x 0 acc.length) _ _ y h with h | h
  · split at h
    · exact List.mem_of_mem_take (List.mem_reverse.mp h)
    · exact List.mem_of_mem_take h
  · exact List.mem_of_mem_drop h

end Heap

namespace Sim
open Heap

/-- Clock entries of the history log (same function as `clockOf` of `Lemmas/SimInv.lean`). -/
def clk : LogE → Option Int
  | .clock n => some n
  | _ => none

def isPop : LogE → Bool
  | .pop _ _ => true
  | _ => false

/-- The time of a `.pop` entry. -/
def popTime : LogE → Option Int
  | .pop t _ => some t
  | _ => none

theorem popTime_of_not_pop (e : LogE) (h : isPop e = false) : popTime e = none := by
  cases e <;> first | rfl | cases h

/-- The clock according to the history: the last clock entry (0 before the first). -/
def curClock (l : List LogE) : Int := ((l.filterMap clk).getLast?).getD 0

/-- Every `.pop t _` entry was appended when the clock was `t`. -/
def PopsAtClock (l : List LogE) : Prop := ∀ pre t ty post, l = pre ++ LogE.pop t ty :: post → t = curClock pre

/-- Well-formed events only (what holds between an in-place edit and `reheapify`). -/
structure QW (s : SimS) : Prop where
  wf : AllP SEvent.WF s.queue
  now : s.now = curClock s.log.toList
  pops : PopsAtClock s.log.toList
  popsLe : ∀ t ∈ s.log.toList.filterMap popTime, t ≤ s.now
  popsMono : (s.log.toList.filterMap popTime).Pairwise (· ≤ ·)

/-- The queue invariant. -/
structure QInv (s : SimS) : Prop where
  wf : AllP SEvent.WF s.queue
  heap : HeapFrom SEvent.lt s.queue 0
  now : s.now = curClock s.log.toList
  pops : PopsAtClock s.log.toList
  /-- no event was popped at a time later than the current clock -/
  popsLe : ∀ t ∈ s.log.toList.filterMap popTime, t ≤ s.now
  /-- the times of the popped events, in pop order, are non-decreasing -/
  popsMono : (s.log.toList.filterMap popTime).Pairwise (· ≤ ·)

theorem QInv.weak {s : SimS} (h : QInv s) : QW s := ⟨h.wf, h.now, h.pops, h.popsLe, h.popsMono⟩

theorem QInv.congr (s s' : SimS) (h : QInv s) (hq : s'.queue = s.queue) (hl : s'.log = s.log) (hn : s'.now = s.now) :
    QInv s' := by
  obtain ⟨a, b, c, d, e, f⟩ := h
  exact ⟨by rw [hq]; exact a, by rw [hq]; exact b, by rw [hn, hl]; exact c, by rw [hl]; exact d,
    by rw [hl, hn]; exact e, by rw [hl]; exact f⟩

theorem QW.congr (s s' : SimS) (h : QW s) (hq : s'.queue = s.queue) (hl : s'.log = s.log) (hn : s'.now = s.now) :
    QW s' := by
  obtain ⟨a, c, d, e, f⟩ := h
  exact ⟨by rw [hq]; exact a, by rw [hn, hl]; exact c, by rw [hl]; exact d, by rw [hl, hn]; exact e,
    by rw [hl]; exact f⟩

theorem curClock_push_other (l : List LogE) (e : LogE) (he : clk e = none) : curClock (l ++ [e]) = curClock l := by
  simp [curClock, List.filterMap_append, he]

theorem curClock_push_clock (l : List LogE) (n : Int) : curClock (l ++ [.clock n]) = n := by
  simp [curClock, List.filterMap_append, clk]

theorem popsAtClock_nil : PopsAtClock [] := by
  intro pre t ty post h
  cases pre <;> simp at h

/-- Appending an entry keeps `PopsAtClock` if the entry is not a pop, or is a pop at the
current clock. -/
theorem popsAtClock_push (l : List LogE) (e : LogE) (h : PopsAtClock l)
    (he : ∀ t ty, e = .pop t ty → t = curClock l) : PopsAtClock (l ++ [e]) := by
  intro pre t ty post hx
  rcases List.eq_nil_or_concat post with rfl | ⟨post', y, rfl⟩
  · have : l = pre ∧ e = .pop t ty := by simpa using hx
    obtain ⟨rfl, rfl⟩ := this
    exact he t ty rfl
  · have hx' : l ++ [e] = (pre ++ LogE.pop t ty :: post') ++ [y] := by simpa using hx
    have := List.append_inj' hx' (by simp)
    exact h pre t ty post' this.1

/-- Appending a history entry that is neither a clock entry nor a pop. -/
theorem QInv.log (s : SimS) (e : LogE) (h : QInv s) (h1 : clk e = none) (h2 : isPop e = false) :
    QInv { s with log := s.log.push e } := by
  obtain ⟨a, b, c, d, e', f⟩ := h
  have hp := popTime_of_not_pop e h2
  refine ⟨a, b, ?_, ?_, ?_, ?_⟩
  · simp only [Array.toList_push]; rw [curClock_push_other _ _ h1]; exact c
  · simp only [Array.toList_push]
    exact popsAtClock_push _ _ d (fun t ty he => by subst he; cases h2)
  · simpa [List.filterMap_append, hp] using e'
  · simpa [List.filterMap_append, hp] using f

theorem QW.log (s : SimS) (e : LogE) (h : QW s) (h1 : clk e = none) (h2 : isPop e = false) :
    QW { s with log := s.log.push e } := by
  obtain ⟨a, c, d, e', f⟩ := h
  have hp := popTime_of_not_pop e h2
  refine ⟨a, ?_, ?_, ?_, ?_⟩
  · simp only [Array.toList_push]; rw [curClock_push_other _ _ h1]; exact c
  · simp only [Array.toList_push]
    exact popsAtClock_push _ _ d (fun t ty he => by subst he; cases h2)
  · simpa [List.filterMap_append, hp] using e'
  · simpa [List.filterMap_append, hp] using f

/-- The pop entry of an event handled at its own time. -/
theorem QInv.logPop (s : SimS) (t : Int) (ty : Nat) (h : QInv s) (ht : s.now = t) :
    QInv { s with log := s.log.push (.pop t ty) } := by
  obtain ⟨a, b, c, d, e, f⟩ := h
  refine ⟨a, b, ?_, ?_, ?_, ?_⟩
  · simp only [Array.toList_push]; rw [curClock_push_other _ _ rfl]; exact c
  · simp only [Array.toList_push]
    refine popsAtClock_push _ _ d (fun t' ty' he => ?_)
    cases he
    rw [← ht]; exact c
  · intro x hx
    simp only [Array.toList_push, List.filterMap_append, List.filterMap_cons, popTime, List.filterMap_nil,
      List.mem_append, List.mem_singleton] at hx
    rcases hx with hx | rfl
    · exact e x hx
    · exact Int.le_of_eq ht.symm
  · simp only [Array.toList_push, List.filterMap_append, List.filterMap_cons, popTime, List.filterMap_nil]
    rw [List.pairwise_append]
    refine ⟨f, by simp, ?_⟩
    intro x hx y hy
    rw [List.mem_singleton.mp hy, ← ht]
    exact e x hx

/-- Advancing the clock. -/
theorem QInv.clock (s : SimS) (dt : Int) (h : QInv s) (hdt : 0 ≤ dt) :
    QInv { s with now := s.now + dt, log := s.log.push (.clock (s.now + dt)) } := by
  obtain ⟨a, b, c, d, e, f⟩ := h
  refine ⟨a, b, ?_, ?_, ?_, ?_⟩
  · simp only [Array.toList_push]; rw [curClock_push_clock]
  · simp only [Array.toList_push]
    exact popsAtClock_push _ _ d (fun t ty he => by cases he)
  · intro x hx
    simp only [Array.toList_push, List.filterMap_append, List.filterMap_cons, popTime, List.filterMap_nil,
      List.append_nil] at hx
    have := e x hx
    show x ≤ s.now + dt
    omega
  · simp only [Array.toList_push, List.filterMap_append, List.filterMap_cons, popTime, List.filterMap_nil,
      List.append_nil]
    exact f

/-! ### queue operations -/

theorem allP_push {P : SEvent → Prop} {q : Array SEvent} {e : SEvent} (h : AllP P q) (he : P e) :
    AllP P (q.push e) := by
  rw [allP_iff_mem] at *
  intro y hy
  rcases Array.mem_push.mp hy with hy | rfl
  · exact h y hy
  · exact he

theorem QInv.add (s : SimS) (e : SEvent) (h : QInv s) (he : e.WF) :
    QInv { s with queue := heappush SEvent.lt s.queue e } :=
  ⟨AllP.of_perm (heappush_perm ..) (allP_push h.wf he), heappush_heap sevent_swo s.queue e h.wf he h.heap, h.now, h.pops,
    h.popsLe, h.popsMono⟩

theorem QW.heapify (s : SimS) (h : QW s) : QInv { s with queue := heapify SEvent.lt s.queue } :=
  ⟨AllP.of_perm (heapify_perm ..) h.wf, heapify_heap sevent_swo s.queue h.wf, h.now, h.pops, h.popsLe, h.popsMono⟩

theorem allP_erase {P : SEvent → Prop} {q : Array SEvent} (h : AllP P q) (i : Nat) : AllP P (q.eraseIdxIfInBounds i) := by
  rw [allP_iff_mem] at *
  intro y hy
  rw [Array.eraseIdxIfInBounds_eq] at hy
  split at hy
  · exact h y (Array.mem_of_mem_eraseIdx hy)
  · exact h y hy

theorem QInv.remove (s : SimS) (i : Nat) (h : QInv s) :
    QInv { s with queue := heapify SEvent.lt (s.queue.eraseIdxIfInBounds i) } :=
  QW.heapify { s with queue := s.queue.eraseIdxIfInBounds i } ⟨allP_erase h.wf i, h.now, h.pops, h.popsLe, h.popsMono⟩

theorem QInv.edit (s : SimS) (eid : Nat) (f : SEvent → SEvent) (h : QInv s) (hf : ∀ e, e.WF → (f e).WF) :
    QW { s with queue := s.queue.map (fun e => if e.ev.eid == eid then f e else e) } := by
  refine ⟨?_, h.now, h.pops, h.popsLe, h.popsMono⟩
  have hw := allP_iff_mem.mp h.wf
  rw [allP_iff_mem]
  intro y hy
  obtain ⟨x, hx, rfl⟩ := Array.mem_map.mp hy
  split
  · exact hf x (hw x hx)
  · exact hw x hx

theorem QInv.pop (s : SimS) (e : SEvent) (q : Array SEvent) (h : QInv s) (hp : heappop SEvent.lt s.queue = some (e, q)) :
    QInv { s with queue := q } := by
  refine ⟨?_, heappop_heap sevent_swo s.queue e q h.wf h.heap hp, h.now, h.pops, h.popsLe, h.popsMono⟩
  have hperm := heappop_perm SEvent.lt s.queue e q hp
  have hw := allP_iff_mem.mp h.wf
  rw [allP_iff_mem]
  intro y hy
  exact hw y ((hperm.mem_iff).mp (Array.mem_push.mpr (.inl hy)))

/-- **The popped event is a minimum of the queue**: it is the root of the heap, it is
well formed, and nothing that stays queued is `<` it. -/
theorem pop_is_min (s : SimS) (e : SEvent) (q : Array SEvent) (h : QInv s) (hp : heappop SEvent.lt s.queue = some (e, q)) :
    (∃ h0 : 0 < s.queue.size, e = s.queue[0]) ∧ e.WF ∧ (∀ y ∈ q, SEvent.lt y e = false) ∧
    (∀ y ∈ s.queue, SEvent.lt y e = false) := by
  obtain ⟨h0, rfl⟩ := heappop_fst s.queue e q hp
  refine ⟨⟨h0, rfl⟩, h.wf 0 h0, heappop_min sevent_swo s.queue _ q h.wf h.heap hp, ?_⟩
  intro y hy
  obtain ⟨j, hj, rfl⟩ := Array.getElem_of_mem hy
  exact root_min sevent_swo s.queue h.wf h.heap j hj

end Sim
end ErdosVerif.Model
