import ErdosVerif.Lemmas.SimResidentHandlers
/-!
Part 3: scheduler start / finish, task release, task cancellation, workload update,
task-graph release, profiles.
-/
open Std.Do
set_option mvcgen.warning false

namespace ErdosVerif.Model.Sim

theorem restart_type (f : SimFlags) (a b : Int) (i : RestartIn) :
    (restart f a b i).1 = ET.simulatorEnd ∨ (restart f a b i).1 = ET.schedulerStart := by
  unfold restart
  simp only []
  repeat' split
  all_goals simp

theorem restart_noFin (f : SimFlags) (a b : Int) (i : RestartIn) : (restart f a b i).1 ≠ ET.taskFinished := by
  rcases restart_type f a b i with h | h <;> rw [h] <;> decide

/-- Side condition `e.ev.etype ≠ TASK_FINISHED` from the post-condition of `mkEvent`. -/
macro "etype_close" : tactic => `(tactic| first
  | (rs_hyps h => (rw [h.2.1]; first | decide | exact restart_noFin _ _ _ _))
  | (rs_hyps h => (rw [h.2]; first | decide | exact restart_noFin _ _ _ _))
  | (rs_hyps h => exact h.2))

/-- The weak invariant when only fields it does not read differ from a state with the invariant. -/
macro "wk_close" : tactic => `(tactic| first
  | (rs_hyps h => exact WInv.congr _ _ (AP.weak h.1) rfl rfl rfl)
  | (rs_hyps h => exact WInv.congr _ _ (AP.weak h) rfl rfl rfl)
  | (rs_hyps h => exact WInv.congr _ _ (AP.weak h.1.1) rfl rfl rfl))

theorem nextSchedulerEvent_rspec (n : Int) (ex : List SEvent) (evTime : Int) :
    ⦃RA n ex⦄ nextSchedulerEvent evTime
    ⦃post⟨fun r s => ⌜(AP RunOK ex s ∧ s.now = n) ∧ r.ev.etype ≠ ET.taskFinished⌝, fun _ s => ⌜WInv s⌝⟩⦄ := by
  have h_mk := mkEvent_rspec' n ex
  have h_sched := schedulable_rspec n ex
  have h_liftE : ∀ e : Except SErr Int, KeepsR n ex (liftE e) := fun e => liftE_rspec n ex e
  rmvcgen [nextSchedulerEvent, placedTasks, getTask, getGraph, nextOfType, h_mk, h_sched, h_liftE]
  case inv1 => exact loopR n ex
  all_goals first
    | ev_close
    | (refine ⟨by first | efadd_close | ev_close | (rs_hyps h => exact h.1), ?_⟩; etype_close)
    | (intro h1 h2 h3 _ _ _ _; exact ⟨⟨h1, h2⟩, by rw [h3]; decide⟩)

theorem handleSchedulerStart_rspec (n : Int) (ex : List SEvent) (ev : SEvent) : KeepsR n ex (handleSchedulerStart ev) := by
  have h_mk := mkEvent_rspec n ex
  have h_sched := schedulable_rspec n ex
  have h_row := row_rspec n ex
  have h_util := logUtilization_rspec n ex
  have h_add := addEvent_rspec n ex
  rmvcgen [handleSchedulerStart, placedTasks, h_mk, h_sched, h_row, h_util, h_add]
  all_goals first
    | ev_close
    | etype_close
    | wk_close
    | (ap_step; exact EF_none _ _)
    | (intro s _ _ h3 _ _; rw [h3]; decide)

theorem handleTaskCancel_rspec (n : Int) (ex : List SEvent) (ev : SEvent) : KeepsR n ex (handleTaskCancel ev) := by
  have h_row := row_rspec n ex
  have h_rm := removeEvent_rspec n ex
  rmvcgen [handleTaskCancel, getTask, getGraph, h_row, h_rm]
  all_goals first
    | ev_close
    | wk_close

theorem handleTaskRelease_rspec (n : Int) (ex : List SEvent) (ev : SEvent) : KeepsR n ex (handleTaskRelease ev) := by
  have h_row := row_rspec n ex
  have h_edit := editEvent_rspec n ex
  have h_heap := reheapify_rspec n ex
  rmvcgen [handleTaskRelease, getTask, getGraph, taskCall, setGraph, raiseTask, logE, findEvent, h_row, h_edit, h_heap]
  all_goals first
    | ev_close
    | quiet_close
    | (intro _; trivial)
    | wk_close
    | (rs_hyps h => exact ⟨h, Or.inr ‹_›⟩)

theorem handleTaskGraphRelease_rspec (n : Int) (ex : List SEvent) (ev : SEvent) :
    KeepsR n ex (handleTaskGraphRelease ev) := by
  have h_row := row_rspec n ex
  rmvcgen [handleTaskGraphRelease, getGraph, h_row]
  all_goals first
    | ev_close
    | wk_close

end ErdosVerif.Model.Sim
