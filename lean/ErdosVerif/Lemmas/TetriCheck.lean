/-
The executable checker `validB` decides the specification `ValidPlan` (so the driver's
`addable` list — computed with `validB` — is exactly the set of cells whose addition keeps the
plan valid).
-/
import ErdosVerif.Lemmas.TetriMaximal
namespace ErdosVerif.Tetri
open ErdosVerif.Mip ErdosVerif.TetriSpec

variable {I : Inst} {plan : Plan}

theorem cellOk_compatible {t w k s : Nat} (h : I.cellOk t w k s = true) :
    compatible (I.worker w) ((I.task t).strat s) = true := by
  simp only [Inst.cellOk, Bool.and_eq_true] at h
  exact h.1.1

/-- The cell a locally well-formed plan gives a task sits on a worker that can hold it. -/
theorem local_compatible (hwf : I.wf = true) {t : Nat} (ht : t ∈ I.act) (hl : localB I plan t = true)
    {c : Cell} (hp : plan.get t = some c) :
    compatible (I.worker c.1) ((I.task t).strat c.2.2) = true := by
  unfold localB at hl
  simp only [(mem_act.mp ht).2, Bool.not_true, Bool.false_eq_true, if_false] at hl
  by_cases hr : I.running t = true
  · simp only [hr, if_true, hp, beq_iff_eq, Option.some.injEq] at hl
    simp only [Inst.wf, Bool.and_eq_true] at hwf
    have hR := List.all_eq_true.mp hwf.1.1.1 t ht
    simp only [hr, Bool.not_true, Bool.false_or, Bool.and_eq_true, decide_eq_true_eq] at hR
    subst hl
    exact hR.1.2
  · have hr' : I.running t = false := by simpa using hr
    simp only [hr', Bool.false_eq_true, if_false, hp, Bool.and_eq_true, decide_eq_true_eq] at hl
    exact cellOk_compatible hl.2

theorem capacity_of_B (hwf : I.wf = true) (hloc : ∀ t, t < I.nT → localB I plan t = true)
    (hcap : capacityB I plan = true) {w : Nat} (hw : w < I.nW) {k : Nat} (hk : k < I.nSlots) (r : String) :
    load I plan w k r ≤ qty (I.worker w).res r := by
  by_cases hty : r ∈ (I.worker w).types
  · have h1 := List.all_eq_true.mp hcap w (List.mem_range.mpr hw)
    have h2 := List.all_eq_true.mp h1 k (List.mem_range.mpr hk)
    have h3 := List.all_eq_true.mp h2 r hty
    simpa using h3
  · have hq : qty (I.worker w).res r = 0 :=
      qty_eq_zero_of_not_mem (by simpa [WorkerI.types, List.mem_eraseDups] using hty)
    have : load I plan w k r = 0 := by
      unfold load
      apply nsum_eq_zero
      intro a ha
      obtain ⟨t, ht, rfl⟩ := List.mem_map.mp ha
      unfold demandAt
      cases hp : plan.get t with
      | none => rfl
      | some c =>
        simp only
        split
        · next hc =>
          have := local_compatible hwf ht (hloc t (mem_act.mp ht).1) hp
          rw [hc.1] at this
          exact req_zero_of_compatible this hq
        · rfl
    omega

/-- **The executable checker decides the specification.** -/
theorem validB_iff (hwf : I.wf = true) : validB I plan = true ↔ ValidPlan I plan := by
  constructor
  · intro h
    simp only [validB, Bool.and_eq_true, beq_iff_eq, List.all_eq_true, List.mem_range] at h
    obtain ⟨⟨hlen, hall⟩, hcap⟩ := h
    have hloc : ∀ t, t < I.nT → localB I plan t = true := fun t ht => (hall t ht).1
    refine ⟨hlen, ?_, ?_, ?_, ?_, ?_, ?_⟩
    · intro t ht ha
      have := hloc t ht
      simpa [localB, ha] using this
    · intro t ht ha hr
      have := hloc t ht
      simpa [localB, ha, hr] using this
    · intro t c ht hr hp
      have := hloc t ht
      unfold localB at this
      by_cases ha : I.active t = true
      · simp only [ha, Bool.not_true, Bool.false_eq_true, if_false, hr, hp, Bool.and_eq_true,
          decide_eq_true_eq] at this
        exact ⟨this.1.1.1, this.1.1.2, this.1.2, this.2⟩
      · simp [ha, hp] at this
    · intro t ht ha hmu
      have := hloc t ht
      unfold localB at this
      simp only [ha, Bool.not_true, Bool.false_eq_true, if_false] at this
      by_cases hr : I.running t = true
      · simp only [hr, if_true, beq_iff_eq] at this
        simp [this]
      · have hr' : I.running t = false := by simpa using hr
        simp only [hr', Bool.false_eq_true, if_false] at this
        cases hp : plan.get t with
        | none => simp [hp, hmu] at this
        | some c => rfl
    · intro hG c cc hc hr hp
      have := (hall c hc).2
      unfold precB at this
      simp only [hG, hr, Bool.or_self, Bool.false_eq_true, if_false, hp, Bool.and_eq_true, Bool.or_eq_true,
        List.isEmpty_iff, beq_iff_eq, List.all_eq_true] at this
      constructor
      · intro hne
        rcases this.1 with h1 | h1
        · exact absurd h1 hne
        · exact h1
      · intro p hpp
        have h2 := this.2 p hpp
        cases hcp : plan.get p with
        | none => simp [hcp] at h2
        | some cp =>
          refine ⟨cp, rfl, ?_⟩
          simpa [hcp] using h2
    · intro w hw k hk r
      exact capacity_of_B hwf hloc hcap hw hk r
  · intro hv
    simp only [validB, Bool.and_eq_true, beq_iff_eq, List.all_eq_true, List.mem_range]
    refine ⟨⟨hv.len, ?_⟩, ?_⟩
    · intro t ht
      constructor
      · unfold localB
        by_cases ha : I.active t = true
        · simp only [ha, Bool.not_true, Bool.false_eq_true, if_false]
          by_cases hr : I.running t = true
          · simp [hr, hv.running t ht ha hr]
          · have hr' : I.running t = false := by simpa using hr
            simp only [hr', Bool.false_eq_true, if_false]
            cases hp : plan.get t with
            | none =>
              simp only [Bool.not_eq_true']
              cases hmu : I.must t with
              | false => rfl
              | true =>
                have := hv.required t ht ha hmu
                simp [hp] at this
            | some c =>
              obtain ⟨h1, h2, h3, h4⟩ := hv.wf t c ht hr' hp
              simp [h1, h2, h3, h4]
        · have ha' : I.active t = false := by simpa using ha
          simp [ha', hv.inactive t ht ha']
      · unfold precB
        by_cases hG : I.cplex = true
        · simp [hG]
        · have hG' : I.cplex = false := by simpa using hG
          by_cases hr : I.running t = true
          · simp [hr]
          · have hr' : I.running t = false := by simpa using hr
            simp only [hG', hr', Bool.or_self, Bool.false_eq_true, if_false]
            cases hp : plan.get t with
            | none => rfl
            | some cc =>
              obtain ⟨hlen, hpar⟩ := hv.prec hG' t cc ht hr' hp
              simp only [Bool.and_eq_true, Bool.or_eq_true, List.isEmpty_iff, beq_iff_eq, List.all_eq_true]
              constructor
              · by_cases he : I.parentVars t = []
                · exact Or.inl he
                · exact Or.inr (hlen he)
              · intro p hpp
                obtain ⟨cp, hcp, hle⟩ := hpar p hpp
                simp [hcp, hle]
    · simp only [capacityB, List.all_eq_true, List.mem_range, decide_eq_true_eq]
      intro w hw k hk r _
      exact hv.capacity w hw k hk r

/-- Every cell the driver lists as addable keeps the plan valid, and every key that keeps the
plan valid is listed. -/
theorem mem_addable (hwf : I.wf = true) {t w k s : Nat} :
    (t, w, k, s) ∈ addable I plan ↔
      t ∈ I.nonRunning ∧ plan.get t = none ∧ (w, k, s) ∈ I.keys t ∧ ValidPlan I (plan.set t (some (w, k, s))) := by
  simp only [addable, List.mem_flatMap, List.mem_filter, List.mem_map, beq_iff_eq, Prod.mk.injEq]
  constructor
  · rintro ⟨t', ⟨ht, hn⟩, q, ⟨hq, hvb⟩, rfl, rfl, rfl, rfl⟩
    exact ⟨ht, hn, hq, (validB_iff hwf).mp hvb⟩
  · rintro ⟨ht, hn, hq, hv⟩
    exact ⟨t, ⟨ht, hn⟩, (w, k, s), ⟨hq, (validB_iff hwf).mpr hv⟩, rfl, rfl, rfl, rfl⟩

end ErdosVerif.Tetri
