import ErdosVerif.Lemmas.GreedyWf
/-!
`schedule` returns normally on the inputs the loaders build: every task has at least one
strategy, strategies are plain `ExecutionStrategy` objects whose requirement has one entry per
resource name (Python: a dict keyed by `Resource(name, "any")`), the cluster satisfies the ledger
invariant, `copy(worker_pools)` succeeds and the LSF keys are defined.  Core Lean only.
-/
namespace ErdosVerif.Model

/-- An allocation of key `k` does not touch the availability of another resource name. -/
theorem scan_sumMatching_other (k x : Res) (hne : k.name ≠ x.name) (v : Vec) (n : Nat) :
    sumMatching x (Resources.scan k v n).1 = sumMatching x v := by
  induction v generalizing n with
  | nil => simp [Resources.scan]
  | cons p rest ih =>
    obtain ⟨r, q⟩ := p
    simp only [Resources.scan]
    split
    · rename_i hm
      have hname : r.name = k.name := by
        simp only [Res.matches, Bool.and_eq_true, beq_iff_eq] at hm; exact hm.1
      have hx : r.matches x = false := by
        simp only [Res.matches, Bool.and_eq_false_iff, beq_eq_false_iff_ne]
        exact .inl (fun e => hne (hname.symm.trans e))
      split
      · simp [sumMatching, hx]
      · split
        · simp [sumMatching, hx, ih]
        · simp [sumMatching, hx, ih]
    · split
      · rfl
      · simp [sumMatching, ih]

namespace Resources

/-- One entry per resource name. -/
def NiceReq (req : Vec) : Prop := (req.map (·.1.name)).Nodup

theorem allocate_ok (r : Resources) (k : Res) (c : Comp) (q : Nat) (h : q ≤ r.availQ k) :
    (r.allocate k c q).2 = .ok := by
  unfold allocate
  split
  · omega
  · rfl

theorem allocate_availQ_other (r : Resources) (k x : Res) (c : Comp) (q : Nat) (hne : k.name ≠ x.name) :
    (r.allocate k c q).1.availQ x = r.availQ x := by
  unfold allocate
  split
  · rfl
  · exact scan_sumMatching_other k x hne r.avail q

theorem allocateEach_ok (r : Resources) (c : Comp) (req : Vec) (hcheck : r.checkAll req = true)
    (hnice : NiceReq req) : (r.allocateEach c req).2 = .ok := by
  induction req generalizing r with
  | nil => rfl
  | cons p rest ih =>
    obtain ⟨k, q⟩ := p
    simp only [checkAll, Bool.and_eq_true, decide_eq_true_eq] at hcheck
    simp only [NiceReq, List.map_cons, List.nodup_cons, List.mem_map, not_exists, not_and] at hnice
    simp only [allocateEach]
    have hok := allocate_ok r k c q hcheck.1
    cases hres : r.allocate k c q with
    | mk r' o =>
      rw [hres] at hok
      simp only at hok
      subst hok
      simp only
      apply ih r' _ hnice.2
      -- the rest of the request still passes the check: other names are untouched
      have hrest : ∀ p ∈ rest, p.1.name ≠ k.name := fun p hp e => hnice.1 p hp e
      clear ih hnice
      induction rest with
      | nil => rfl
      | cons p' rest' ih' =>
        obtain ⟨k', q'⟩ := p'
        simp only [checkAll, Bool.and_eq_true, decide_eq_true_eq] at hcheck ⊢
        have hne : k.name ≠ k'.name := fun e => hrest (k', q') (List.mem_cons_self ..) e.symm
        have := allocate_availQ_other r k k' c q hne
        rw [hres] at this
        simp only at this
        refine ⟨by rw [this]; exact hcheck.2.1, ?_⟩
        exact ih' ⟨hcheck.1, hcheck.2.2⟩ (fun p hp => hrest p (List.mem_cons_of_mem _ hp))

theorem checkAll_congr (r' r : Resources) (h : r'.avail = r.avail) (req : Vec) :
    r'.checkAll req = r.checkAll req := by
  induction req with
  | nil => rfl
  | cons p rest ih =>
    obtain ⟨k, q⟩ := p
    show (decide (q ≤ r'.availQ k) && r'.checkAll rest) = (decide (q ≤ r.availQ k) && r.checkAll rest)
    rw [ih]
    unfold availQ
    rw [h]

theorem allocateMultiple_ok (r : Resources) (req : Vec) (c : Comp) (hcheck : r.checkAll req = true)
    (hnice : NiceReq req) : (r.allocateMultiple req c).2 = .ok := by
  unfold allocateMultiple
  simp only [hcheck, if_true]
  have h1 := allocateEach_ok { r with allocs := record r.allocs c [] } c req
    (by rw [checkAll_congr { r with allocs := record r.allocs c [] } r rfl req]; exact hcheck) hnice
  cases hres : allocateEach { r with allocs := record r.allocs c [] } c req with
  | mk r' o =>
    rw [hres] at h1
    simp only at h1
    subst h1
    rfl

end Resources

theorem Worker.placeTask_ok (w : Worker) (t : Nat) (s : Strategy) (hb : s.isBatch = false)
    (hfit : w.canAccommodate s = true) (hnice : Resources.NiceReq s.req) : (w.placeTask t s).2 = .ok := by
  simp only [Worker.canAccommodate, hb, Bool.false_and, Bool.or_false, Resources.fits] at hfit
  unfold Worker.placeTask
  simp only [hb]
  have := Resources.allocateMultiple_ok w.res s.req (.task t) hfit hnice
  cases hres : w.res.allocateMultiple s.req (.task t) with
  | mk r o =>
    rw [hres] at this
    simp only at this
    subst this
    rfl

theorem Pool.findIdx_go_some (f : Worker → Bool) (ws : List Worker) (k i : Nat)
    (h : Pool.findIdx.go f ws k = some i) : ∃ j w, i = k + j ∧ ws[j]? = some w ∧ f w = true := by
  induction ws generalizing k with
  | nil => simp [Pool.findIdx.go] at h
  | cons w r ih =>
    simp only [Pool.findIdx.go] at h
    split at h
    · rename_i hf
      cases h
      exact ⟨0, w, rfl, rfl, hf⟩
    · obtain ⟨j, w', hi, hw', hf'⟩ := ih (k + 1) h
      exact ⟨j + 1, w', by omega, by simpa using hw', hf'⟩

theorem Pool.pickAny_some (ws : List Worker) (strats : List Strategy) (k i : Nat) (x : Option Strategy)
    (h : Pool.placeTask.pickAny ws strats k = some (i, x)) :
    ∃ j w s, i = k + j ∧ x = some s ∧ s ∈ strats ∧ ws[j]? = some w ∧ w.canAccommodate s = true := by
  induction ws generalizing k with
  | nil => simp [Pool.placeTask.pickAny] at h
  | cons w r ih =>
    simp only [Pool.placeTask.pickAny] at h
    split at h
    · rename_i s hs
      cases h
      exact ⟨0, w, s, rfl, rfl, List.mem_of_find?_eq_some hs, rfl, by simpa using List.find?_some hs⟩
    · obtain ⟨j, w', s, hi, hx, hs, hw', hc⟩ := ih (k + 1) h
      exact ⟨j + 1, w', s, by omega, hx, hs, by simpa using hw', hc⟩

/-- `WorkerPool.place_task(task[, strategy])` without a worker id does not raise when the
strategies are plain and nice. -/
theorem Pool.placeTask_ok (p : Pool) (t : Nat) (strats : List Strategy) (s? : Option Strategy)
    (hs : ∀ s, s? = some s → s.isBatch = false ∧ Resources.NiceReq s.req)
    (hstrats : ∀ s ∈ strats, s.isBatch = false ∧ Resources.NiceReq s.req) :
    ∃ b, (p.placeTask t strats s? none).2 = .ok b := by
  unfold Pool.placeTask
  cases s? with
  | some s =>
    simp only
    cases hf : Pool.findIdx p.workers (·.canAccommodate s) with
    | none => exact ⟨false, by simp⟩
    | some i =>
      obtain ⟨j, w, hi, hw, hc⟩ := Pool.findIdx_go_some _ p.workers 0 i hf
      have hji : j = i := by omega
      subst hji
      have hok := Worker.placeTask_ok w t s (hs s rfl).1 hc (hs s rfl).2
      simp only [Option.map, hw]
      cases hres : w.placeTask t s with
      | mk w' o =>
        rw [hres] at hok
        simp only at hok
        subst hok
        exact ⟨true, rfl⟩
  | none =>
    simp only
    cases hf : Pool.placeTask.pickAny p.workers strats 0 with
    | none => exact ⟨false, rfl⟩
    | some ix =>
      obtain ⟨i, x⟩ := ix
      obtain ⟨j, w, s, hi, hx, hsm, hw, hc⟩ := Pool.pickAny_some p.workers strats 0 i x hf
      have hji : j = i := by omega
      subst hji
      subst hx
      have hok := Worker.placeTask_ok w t s (hstrats s hsm).1 hc (hstrats s hsm).2
      simp only [hw]
      cases hres : w.placeTask t s with
      | mk w' o =>
        rw [hres] at hok
        simp only at hok
        subst hok
        exact ⟨true, rfl⟩

namespace Greedy

/-- A task as the loaders build it: at least one strategy, all plain and nice. -/
def NiceTask (o : Offered) : Prop :=
  o.task.strategies ≠ [] ∧ ∀ s ∈ o.task.strategies, s.isBatch = false ∧ Resources.NiceReq s.req

theorem step_ok (cfg : Cfg) (V : List Pool) (o : Offered) (hn : NiceTask o) :
    ∃ d V', step cfg V o = .ok (d, V') := by
  unfold step
  have hh : ∃ b, hopeless cfg o = .ok b := by
    unfold hopeless
    split
    · cases hf : TaskS.fastest? o.task.strategies with
      | none =>
        cases hl : o.task.strategies with
        | nil => exact absurd hl hn.1
        | cons a b => simp [hl, TaskS.fastest?] at hf
      | some f => exact ⟨_, rfl⟩
    · exact ⟨false, rfl⟩
  obtain ⟨b, hb⟩ := hh
  rw [hb]
  cases b with
  | true => exact ⟨_, _, rfl⟩
  | false =>
    simp only
    cases hc : choose V o.task.strategies with
    | none => exact ⟨_, _, rfl⟩
    | some si =>
      obtain ⟨s, i⟩ := si
      obtain ⟨a, b', hab, _, hf⟩ := choose_some V _ s i hc
      obtain ⟨j, p, hij, hp, _, _⟩ := firstPool_some s V 0 i hf
      have hji : j = i := by omega
      subst hji
      have hsm : s ∈ o.task.strategies := by rw [hab]; simp
      obtain ⟨bb, hpl⟩ := Pool.placeTask_ok p o.lid o.task.strategies (passed cfg s)
        (by
          intro s' hs'
          unfold passed at hs'
          split at hs'
          · cases hs'; exact hn.2 s hsm
          · cases hs')
        hn.2
      simp only [hp]
      cases hres : p.placeTask o.lid o.task.strategies (passed cfg s) none with
      | mk p' e =>
        rw [hres] at hpl
        simp only at hpl
        subst hpl
        exact ⟨_, _, rfl⟩

theorem run_ok (cfg : Cfg) (V : List Pool) (os : List Offered) (hn : ∀ o ∈ os, NiceTask o) :
    ∃ ds Vf, run cfg V os = .ok (ds, Vf) := by
  induction os generalizing V with
  | nil => exact ⟨[], V, rfl⟩
  | cons o rest ih =>
    obtain ⟨d, V', hs⟩ := step_ok cfg V o (hn o (List.mem_cons_self ..))
    obtain ⟨ds, Vf, hr⟩ := ih V' (fun x hx => hn x (List.mem_cons_of_mem _ hx))
    exact ⟨d :: ds, Vf, run_cons_intro cfg V V' Vf o rest d ds hs hr⟩

theorem schedule_ok_of_nice (cfg : Cfg) (offer : List Offered) (live V0 : List Pool)
    (hcopy : copyPools live = .ok V0) (hkey : keyError? cfg offer = none)
    (hn : ∀ o ∈ offer, NiceTask o) : ∃ r, schedule cfg offer live = .ok r := by
  obtain ⟨ds, Vf, hr⟩ := run_ok cfg V0 (order cfg offer)
    (fun o ho => hn o ((mem_sortBy o offer).mp ho))
  exact ⟨⟨order cfg offer, ds, V0, Vf⟩, by simp only [schedule, hcopy, hkey, hr]⟩

/-- The LSF keys are defined for RELEASED / VIRTUAL tasks with a strategy and for tasks that
carry a remaining time. -/
theorem keyError_none (cfg : Cfg) (offer : List Offered)
    (h : ∀ o ∈ offer, (o.task.strategies ≠ [] ∧ (o.task.state = .released ∨ o.task.state = .virtual)) ∨
      o.task.remaining.isSome ∧ o.task.state = .preempted) : keyError? cfg offer = none := by
  unfold keyError?
  split
  · split
    · rename_i hany
      exfalso
      obtain ⟨o, ho, hb⟩ := List.any_eq_true.mp hany
      rcases h o ho with ⟨hne, hst⟩ | ⟨hrem, hst⟩
      · have hs : ∃ x, TaskS.slowest? o.task.strategies = some x := by
          cases hl : o.task.strategies with
          | nil => exact absurd hl hne
          | cons a b => exact ⟨_, rfl⟩
        obtain ⟨x, hx⟩ := hs
        rcases hst with e | e <;> simp [TaskS.remainingTime, e, hx] at hb
      · obtain ⟨x, hx⟩ := Option.isSome_iff_exists.mp hrem
        simp [TaskS.remainingTime, hst, hx] at hb
    · rfl
  · rfl

end Greedy
end ErdosVerif.Model
