import ErdosVerif.Lemmas.GreedyRun
/-!
Shape of the decisions of the greedy policies (well-formedness, admission test) and the
witness of finding D13.  Core Lean only.
-/
namespace ErdosVerif.Model.Greedy
open ErdosVerif.Model

/-- A well-formed answer for the offered task `o` on a cluster of `n` pools:
a cancellation, a "not placed" answer, or a placement that names an existing pool, one of
the task's own strategies, the invocation time, and no worker. -/
def Wf (cfg : Cfg) (n : Nat) (o : Offered) (d : PlacementS) : Prop :=
  d.task = o.id ∧ d.worker = none ∧
  ((d.kind = .cancel ∧ d.pool = none ∧ d.strat = none ∧ d.time = none) ∨
   (d.kind = .place ∧ d.pool = none ∧ d.strat = none ∧ d.time = none) ∨
   (d.kind = .place ∧ ∃ i s, d.pool = some i ∧ i < n ∧ d.strat = some s ∧ s ∈ o.task.strategies ∧
      d.time = some cfg.now))

theorem step_wf (cfg : Cfg) (V : List Pool) (o : Offered) (d : PlacementS) (V' : List Pool)
    (h : step cfg V o = .ok (d, V')) : Wf cfg V.length o d ∧ V'.length = V.length := by
  rcases step_cases cfg V o d V' h with ⟨_, rfl, rfl⟩ | ⟨_, _, rfl, rfl⟩ | ⟨s, i, p, p', b, _, hc, hp, _, rfl, rfl⟩
  · exact ⟨⟨rfl, rfl, .inl ⟨rfl, rfl, rfl, rfl⟩⟩, rfl⟩
  · exact ⟨⟨rfl, rfl, .inr (.inl ⟨rfl, rfl, rfl, rfl⟩)⟩, rfl⟩
  · obtain ⟨a, b', hab, _, _⟩ := choose_some V _ s i hc
    have hi : i < V.length := (List.getElem?_eq_some_iff.mp hp).1
    refine ⟨⟨rfl, rfl, .inr (.inr ⟨rfl, i, s, rfl, hi, rfl, ?_, rfl⟩)⟩, by simp⟩
    rw [hab]; simp

theorem run_wf (cfg : Cfg) (V : List Pool) (os : List Offered) (ds : List PlacementS)
    (Vf : List Pool) (h : run cfg V os = .ok (ds, Vf)) :
    ∀ o d, (o, d) ∈ os.zip ds → Wf cfg V.length o d := by
  induction os generalizing V ds with
  | nil => intro o d hm; simp at hm
  | cons x rest ih =>
    obtain ⟨d0, V', ds', hs, hr, rfl⟩ := run_cons cfg V x rest ds Vf h
    have h1 := step_wf cfg V x d0 V' hs
    intro o d hm
    simp only [List.zip_cons_cons, List.mem_cons, Prod.mk.injEq] at hm
    rcases hm with ⟨rfl, rfl⟩ | hm
    · exact h1.1
    · have := ih V' ds' hr o d hm
      rw [h1.2] at this; exact this

/-! ### the admission test -/

theorem fastest_fold (s : Strategy) (r : List Strategy) :
    let f := r.foldl (fun b x => if x.runtime < b.runtime then x else b) s
    f ∈ s :: r ∧ ∀ x ∈ s :: r, f.runtime ≤ x.runtime := by
  induction r generalizing s with
  | nil => simp
  | cons y ys ih =>
    simp only [List.foldl_cons]
    have hm : (if y.runtime < s.runtime then y else s).runtime ≤ s.runtime ∧
        (if y.runtime < s.runtime then y else s).runtime ≤ y.runtime := by
      split <;> omega
    have hmem : (if y.runtime < s.runtime then y else s) = s ∨ (if y.runtime < s.runtime then y else s) = y := by
      split <;> simp
    generalize (if y.runtime < s.runtime then y else s) = m at hm hmem
    have := ih m
    simp only at this ⊢
    obtain ⟨hf, hmin⟩ := this
    constructor
    · rcases List.mem_cons.mp hf with e | hf
      · rw [e]; rcases hmem with e' | e' <;> simp [e']
      · exact List.mem_cons_of_mem _ (List.mem_cons_of_mem _ hf)
    · intro x hx
      have h0 := hmin _ (List.mem_cons_self ..)
      rcases List.mem_cons.mp hx with rfl | hx
      · omega
      · rcases List.mem_cons.mp hx with rfl | hx
        · omega
        · exact hmin x (List.mem_cons_of_mem _ hx)

/-- `get_fastest_strategy()` is a strategy of the task with the least runtime. -/
theorem fastest_min (l : List Strategy) (f : Strategy) (h : TaskS.fastest? l = some f) :
    f ∈ l ∧ ∀ x ∈ l, f.runtime ≤ x.runtime := by
  cases l with
  | nil => simp [TaskS.fastest?] at h
  | cons s r =>
    simp only [TaskS.fastest?, Option.some.injEq] at h
    subst h
    exact fastest_fold s r

theorem step_hopeless (cfg : Cfg) (V : List Pool) (o : Offered) (d : PlacementS) (V' : List Pool)
    (h : step cfg V o = .ok (d, V')) :
    (hopeless cfg o = .ok true ∧ d.kind = .cancel ∧ d.pool = none ∧ d.strat = none) ∨
    (hopeless cfg o = .ok false ∧ d.kind = .place) := by
  rcases step_cases cfg V o d V' h with ⟨hh, rfl, _⟩ | ⟨hh, _, rfl, _⟩ | ⟨s, i, p, p', b, hh, _, _, _, rfl, _⟩
  · exact .inl ⟨hh, rfl, rfl, rfl⟩
  · exact .inr ⟨hh, rfl⟩
  · exact .inr ⟨hh, rfl⟩

/-! ### the witness of finding D13 -/

namespace Witness

def cpuReq : Vec := [(⟨"CPU", none⟩, 1)]
def gpuReq : Vec := [(⟨"GPU", none⟩, 1)]
def sAgpu : Strategy := ⟨0, false, 1, 2, gpuReq⟩
def sAcpu : Strategy := ⟨1, false, 1, 2, cpuReq⟩
def sB : Strategy := ⟨2, false, 1, 2, cpuReq⟩
def sC : Strategy := ⟨3, false, 1, 2, gpuReq⟩

def mkTask (strats : List Strategy) (deadline : Int) : TaskS :=
  { name := "", conditional := false, terminal := false, prob := 1000, strategies := strats,
    profile := 0, state := .released, release := 0, deadline := deadline }

/-- A (GPU or CPU), B (CPU), C (GPU), deadlines 5 < 6 < 7, all released at 0, same runtimes:
the same order under EDF, FIFO (stable) and LSF. -/
def offer : List Offered :=
  [⟨⟨0, 0⟩, "G0", mkTask [sAgpu, sAcpu] 5⟩, ⟨⟨1, 0⟩, "G1", mkTask [sB] 6⟩, ⟨⟨2, 0⟩, "G2", mkTask [sC] 7⟩]

/-- One pool: worker 0 has one CPU, worker 1 has one GPU; nothing is running. -/
def live : List Pool :=
  [⟨[Worker.ofVec [(⟨"CPU", some 0⟩, 1)], Worker.ofVec [(⟨"GPU", some 1⟩, 1)]], []⟩]

def cfg (p : Policy) : Cfg := ⟨p, false, 0⟩

/-- (task, pool, strategy id) of every decision. -/
def summary (r : Result) : List (TaskId × Option Nat × Option Nat) :=
  r.placements.map (fun d => (d.task, d.pool, d.strat.map (·.sid)))

end Witness

theorem ok_of_match {ε α} (x : Except ε α) (f : α → Bool)
    (h : (match x with | .ok r => f r | .error _ => false) = true) : ∃ r, x = .ok r ∧ f r = true := by
  cases x with
  | ok r => exact ⟨r, rfl, h⟩
  | error e => simp at h

end ErdosVerif.Model.Greedy
