/-
C15 helper lemmas, part 2: the inference loop (`loopStep` / `loopRun` /
`inferWorker` / `inferFrom`) preserves the scheduler invariant and every batch
it emits is well formed.
-/
import ErdosVerif.Lemmas.Clockwork

namespace ErdosVerif.Clockwork
open List

/-! ### What is recorded about emitted batches -/

/-- Well-formedness of one batch emitted at time `now` on worker `w` whose loaded models are `loaded`. -/
structure BatchOK (c : Cfg) (now : Int) (w : Nat) (loaded : List Nat) (b : Batch) : Prop where
  worker : b.worker = w
  isLoaded : b.model ∈ loaded
  strat : ∃ s, (c.strategiesOf b.model)[b.strategy]? = some s ∧ b.tids.length = s.batch ∧
    ∀ tid ∈ b.tids, ∃ t, c.tasks[tid]? = some t ∧ t.model = b.model ∧ now + s.runtime ≤ t.deadline
  nodup : b.tids.Nodup

/-- Replays the allocations of a list of batches on an availability vector; `none` if one
batch is not covered (`Resources.__gt__`) when its turn comes. -/
def fitsRun (c : Cfg) : ResVec → List Batch → Option ResVec
  | a, [] => some a
  | a, b :: bs =>
    match (c.strategiesOf b.model)[b.strategy]? with
    | some s => if resGe a s.req then fitsRun c (resSub a s.req) bs else none
    | none => none

theorem fitsRun_append {c : Cfg} {a a' : ResVec} {bs : List Batch} {b : Batch} {s : Strategy}
    (h : fitsRun c a bs = some a') (hs : (c.strategiesOf b.model)[b.strategy]? = some s)
    (hge : resGe a' s.req = true) : fitsRun c a (bs ++ [b]) = some (resSub a' s.req) := by
  induction bs generalizing a with
  | nil =>
    simp only [fitsRun] at h
    cases h
    simp [fitsRun, hs, hge]
  | cons x xs ih =>
    simp only [List.cons_append, fitsRun] at h ⊢
    split at h
    · split at h
      · rename_i hge'
        simp only [hge', if_true]
        exact ih h
      · cases h
    · cases h

/-- Bookkeeping of placed task ids between two scheduler states. -/
structure PlacedSpec (st st' : SState) (bs : List Batch) : Prop where
  sub : ∀ tid ∈ allTids st', tid ∈ allTids st
  from0 : ∀ b ∈ bs, ∀ tid ∈ b.tids, tid ∈ allTids st
  gone : ∀ b ∈ bs, ∀ tid ∈ b.tids, tid ∉ allTids st'
  nodup : (bs.flatMap (·.tids)).Nodup

theorem PlacedSpec.refl (st : SState) : PlacedSpec st st [] :=
  ⟨fun _ h => h, by simp, by simp, by simp⟩

theorem PlacedSpec.trans {st st1 st2 : SState} {bs1 bs2 : List Batch}
    (h1 : PlacedSpec st st1 bs1) (h2 : PlacedSpec st1 st2 bs2) : PlacedSpec st st2 (bs1 ++ bs2) where
  sub := fun tid h => h1.sub tid (h2.sub tid h)
  from0 := fun b hb tid ht => by
    rcases List.mem_append.mp hb with hb | hb
    · exact h1.from0 b hb tid ht
    · exact h1.sub tid (h2.from0 b hb tid ht)
  gone := fun b hb tid ht => by
    rcases List.mem_append.mp hb with hb | hb
    · exact fun hin => h1.gone b hb tid ht (h2.sub tid hin)
    · exact h2.gone b hb tid ht
  nodup := by
    rw [List.flatMap_append, List.nodup_append]
    refine ⟨h1.nodup, h2.nodup, ?_⟩
    intro x hx1 y hy2 hxy
    subst hxy
    obtain ⟨b1, hb1, ht1⟩ := List.mem_flatMap.mp hx1
    obtain ⟨b2, hb2, ht2⟩ := List.mem_flatMap.mp hy2
    exact h1.gone b1 hb1 x ht1 (h2.from0 b2 hb2 x ht2)

/-! ### Work-queue validity -/

/-- Every strategy listed for a model in the work queue is available on the model's
current queues; a model appears at most once. -/
def WQValid (c : Cfg) (now : Int) (st : SState) (wq : WQ) : Prop :=
  (wq.map (·.1)).Nodup ∧
  ∀ e ∈ wq, ∀ i ∈ e.2, ∃ ms s r rest, getModel st e.1 = some ms ∧
    (c.strategiesOf e.1)[i]? = some s ∧ ms.queues[i]? = some (r :: rest) ∧
    s.batch ≤ (r :: rest).length ∧ now + s.runtime ≤ r.deadline

theorem WQValid.tail {c : Cfg} {now : Int} {st : SState} {e : Nat × List Nat} {wq : WQ}
    (h : WQValid c now st (e :: wq)) : WQValid c now st wq :=
  ⟨(List.nodup_cons.mp (by simpa using h.1)).2, fun e' he' => h.2 e' (List.mem_cons_of_mem _ he')⟩

theorem WQValid.perm {c : Cfg} {now : Int} {st : SState} {wq wq' : WQ} (hp : wq'.Perm wq)
    (h : WQValid c now st wq) : WQValid c now st wq' :=
  ⟨(hp.map _).nodup_iff.mpr h.1, fun e he => h.2 e (hp.mem_iff.mp he)⟩

theorem sortWQ_perm (g : Goal) (st : SState) (wq : WQ) : (sortWQ g st wq).Perm wq := by
  unfold sortWQ
  cases g
  · exact List.Perm.refl _
  · exact pySort_perm _ _

end ErdosVerif.Clockwork

namespace ErdosVerif.Clockwork
open List

/-! ### The loop invariant -/

structure LInv (c : Cfg) (now : Int) (w : Nat) (loaded : List Nat) (a0 : ResVec) (st0 : SState)
    (ls : LoopState) : Prop where
  sinv : SInv c ls.st
  wqv : WQValid c now ls.st ls.wq
  ok : ∀ b ∈ ls.out, BatchOK c now w loaded b
  fits : fitsRun c a0 ls.out = some ls.avail
  placed : PlacedSpec st0 ls.st ls.out

theorem LInv.dropHead {c : Cfg} {now : Int} {w : Nat} {loaded : List Nat} {a0 : ResVec}
    {st0 : SState} {ls ls' : LoopState} (h : LInv c now w loaded a0 st0 ls) {e : Nat × List Nat}
    {wq : WQ} (hwq : ls.wq = e :: wq) (h1 : ls'.st = ls.st) (h2 : ls'.avail = ls.avail)
    (h3 : ls'.out = ls.out) (h4 : ls'.wq = wq) : LInv c now w loaded a0 st0 ls' where
  sinv := h1 ▸ h.sinv
  wqv := by rw [h1, h4]; exact (hwq ▸ h.wqv).tail
  ok := h3 ▸ h.ok
  fits := by rw [h3, h2]; exact h.fits
  placed := by rw [h1, h3]; exact h.placed

theorem placedSpec_single {c : Cfg} {st : SState} (hinv : SInv c st) {m : Nat} {ms ms1 ms2 : MState}
    (hg : getModel st m = some ms) (hs1 : Shrunk c ms ms1) (hs2 : Shrunk c ms1 ms2)
    {b : Batch} (hnd : b.tids.Nodup) (hin : ∀ tid ∈ b.tids, tid ∈ taskIds ms)
    (hgone : ∀ tid ∈ b.tids, tid ∉ taskIds ms1) :
    PlacedSpec st (updModel st m (fun _ => ms2)) [b] where
  sub := (updModel_shrunk hinv hg (hs1.trans hs2)).2
  from0 := fun b' hb' tid ht => by
    have : b' = b := by simpa using hb'
    subst this
    exact mem_allTids.mpr ⟨ms, (getModel_mem hg).1, hin tid ht⟩
  gone := fun b' hb' tid ht hmem => by
    have : b' = b := by simpa using hb'
    subst this
    obtain ⟨s', hs', hts'⟩ := mem_allTids.mp hmem
    obtain ⟨s, hsm, h1 | h1⟩ := mem_updModel hs'
    · rw [h1.2] at hts'
      exact hgone tid ht (hs2.2.2.subset hts')
    · rw [h1.2] at hts'
      have := tid_model_unique (hinv.1 s hsm) (hinv.1 ms (getModel_mem hg).1) hts' (hin tid ht)
      exact h1.1 (this.trans (getModel_mem hg).2)
  nodup := by simpa using hnd

theorem loopStep_inv {c : Cfg} {now : Int} {w : Nat} {loaded : List Nat} {a0 : ResVec}
    {st0 : SState} {ls : LoopState} (h : LInv c now w loaded a0 st0 ls) :
    LInv c now w loaded a0 st0 (loopStep c now w loaded ls) := by
  unfold loopStep
  split
  · exact h
  · rename_i m strats wq hwq
    split
    · exact h.dropHead hwq rfl rfl rfl rfl
    · rename_i hloaded
      simp only []
      split
      · exact h.dropHead hwq rfl rfl rfl rfl
      · rename_i sidx ctail hcompat
        split
        · rename_i s ms hsc hgm
          split
          · exact h.dropHead hwq rfl rfl rfl rfl
          · rename_i tids ms1 htake
            -- facts about the chosen strategy
            have hsidx_mem : sidx ∈ sidx :: ctail := List.mem_cons_self
            rw [← hcompat] at hsidx_mem
            have hsidx_strats := (List.mem_filter.mp hsidx_mem).1
            have hpred := (List.mem_filter.mp hsidx_mem).2
            have hge : resGe ls.avail s.req = true := by simpa [hsc] using hpred
            have hwqv := h.wqv
            rw [hwq] at hwqv
            obtain ⟨ms', s', r, rest, hg', hs', hq, hb, hd⟩ :=
              hwqv.2 (m, strats) List.mem_cons_self sidx hsidx_strats
            simp only [] at hg' hs'
            rw [hgm] at hg'; cases hg'
            rw [hsc] at hs'; cases hs'
            have hnd0 := List.nodup_cons.mp (show (m :: wq.map (·.1)).Nodup from hwqv.1)
            have hmsIn := (getModel_mem hgm).1
            have hmsMid := (getModel_mem hgm).2
            obtain ⟨tids', ms1', htb, hlen, hnd, hfacts, hshr, hgone⟩ :=
              takeBatch_spec (h.sinv.1 ms hmsIn) hq hb hd
            rw [htake] at htb
            cases htb
            have hshr2 := expire_shrunk (c := c) now (c.strategiesOf m) hshr.1
            have hm2 : (ms1.expire now (c.strategiesOf m)).mid = m :=
              (hshr2.2.1.trans hshr.2.1).trans hmsMid
            have hupd := updModel_shrunk h.sinv hgm (hshr.trans hshr2)
            -- validity of the remaining queue entries w.r.t. the new state
            have htailv : WQValid c now
                (updModel ls.st m (fun _ => ms1.expire now (c.strategiesOf m))) wq := by
              refine ⟨hwqv.tail.1, ?_⟩
              intro e he i hi
              have hne : e.1 ≠ m := by
                intro heq
                exact hnd0.1 (heq ▸ List.mem_map_of_mem (f := (·.1)) he)
              rw [getModel_updModel_other hm2 hne]
              exact hwqv.tail.2 e he i hi
            have hloadedm : m ∈ loaded := by
              have : loaded.contains m = true := by simpa using hloaded
              simpa using this
            refine ⟨hupd.1, ?_, ?_, ?_, ?_⟩
            · -- work queue
              simp only []
              split
              · exact htailv
              · refine WQValid.perm (sortWQ_perm _ _ _) ⟨?_, ?_⟩
                · rw [List.map_append, List.nodup_append]
                  refine ⟨htailv.1, by simp, ?_⟩
                  intro x hx y hy hxy
                  simp only [List.map_cons, List.map_nil, List.mem_singleton] at hy
                  subst hxy; subst hy
                  exact hnd0.1 hx
                · intro e he i hi
                  rcases List.mem_append.mp he with he | he
                  · exact htailv.2 e he i hi
                  · have : e = (m, availableStrats now (c.strategiesOf m)
                        (ms1.expire now (c.strategiesOf m))) := by simpa using he
                    subst this
                    obtain ⟨st', r', rest', a1, a2, a3, a4⟩ := availableStrats_sound hi
                    exact ⟨_, st', r', rest', getModel_updModel_self hm2 hgm, a1, a2, a3, a4⟩
            · -- batches
              intro b hb
              rcases List.mem_append.mp hb with hb | hb
              · exact h.ok b hb
              · have : b = { model := m, strategy := sidx, worker := w, tids := tids } := by
                  simpa using hb
                subst this
                refine ⟨rfl, hloadedm, ⟨s, hsc, hlen, ?_⟩, hnd⟩
                intro tid htid
                obtain ⟨_, t, ht1, ht2, ht3⟩ := hfacts tid htid
                exact ⟨t, ht1, ht2.trans hmsMid, ht3⟩
            · exact fitsRun_append h.fits hsc hge
            · exact h.placed.trans
                (placedSpec_single h.sinv hgm hshr hshr2 hnd (fun tid ht => (hfacts tid ht).1) hgone)
        · exact h.dropHead hwq rfl rfl rfl rfl

end ErdosVerif.Clockwork

namespace ErdosVerif.Clockwork
open List

theorem loopRun_inv {c : Cfg} {now : Int} {w : Nat} {loaded : List Nat} {a0 : ResVec}
    {st0 : SState} (fuel : Nat) {ls : LoopState} (h : LInv c now w loaded a0 st0 ls) :
    LInv c now w loaded a0 st0 (loopRun c now w loaded fuel ls).1 := by
  induction fuel generalizing ls with
  | zero => exact h
  | succ n ih =>
    unfold loopRun
    split
    · exact h
    · exact h
    · exact ih (loopStep_inv h)

theorem map_shrunk {c : Cfg} {st : SState} (h : SInv c st) {f : MState → MState}
    (hf : ∀ s ∈ st, Shrunk c s (f s)) :
    SInv c (st.map f) ∧ ∀ tid ∈ allTids (st.map f), tid ∈ allTids st := by
  refine ⟨⟨?_, ?_⟩, ?_⟩
  · intro s' hs'
    obtain ⟨s, hs, rfl⟩ := List.mem_map.mp hs'
    exact (hf s hs).1
  · have : (st.map f).map (·.mid) = st.map (·.mid) := by
      rw [List.map_map]
      apply List.map_congr_left
      intro s hs
      exact (hf s hs).2.1
    rw [this]; exact h.2
  · intro tid htid
    obtain ⟨s', hs', ht⟩ := mem_allTids.mp htid
    obtain ⟨s, hs, rfl⟩ := List.mem_map.mp hs'
    exact mem_allTids.mpr ⟨s, hs, (hf s hs).2.2.subset ht⟩

theorem expireAll_spec {c : Cfg} (now : Int) {st : SState} (h : SInv c st) :
    SInv c (expireAll c now st) ∧ ∀ tid ∈ allTids (expireAll c now st), tid ∈ allTids st :=
  map_shrunk h (fun s hs => expire_shrunk now _ (h.1 s hs))

theorem initialWQ_valid {c : Cfg} (now : Int) {st : SState} (h : SInv c st) :
    WQValid c now st (initialWQ c now st) := by
  unfold initialWQ
  refine ⟨?_, ?_⟩
  · have hsub : (((st.map (fun s => (s.mid, availableStrats now (c.strategiesOf s.mid) s))).filter
        (fun e => !e.2.isEmpty)).map (·.1)).Sublist (st.map (·.mid)) := by
      have h1 := (List.filter_sublist (p := fun e : Nat × List Nat => !e.2.isEmpty)
        (l := st.map (fun s => (s.mid, availableStrats now (c.strategiesOf s.mid) s)))).map (·.1)
      rw [List.map_map] at h1
      exact h1
    exact h.2.sublist hsub
  · intro e he i hi
    obtain ⟨s, hs, rfl⟩ := List.mem_map.mp (List.mem_filter.mp he).1
    obtain ⟨st', r, rest, a1, a2, a3, a4⟩ := availableStrats_sound hi
    exact ⟨s, st', r, rest, getModel_of_mem h.2 hs, a1, a2, a3, a4⟩

/-- Post-condition of the inference over one worker. -/
theorem inferWorker_spec {c : Cfg} (now : Int) (w : Nat) (wv : WorkerView) {st : SState}
    (h : SInv c st) :
    SInv c (inferWorker c now w wv st).1 ∧
    (∀ b ∈ (inferWorker c now w wv st).2.1, BatchOK c now w wv.loaded b) ∧
    (∃ a, fitsRun c wv.avail (inferWorker c now w wv st).2.1 = some a) ∧
    PlacedSpec st (inferWorker c now w wv st).1 (inferWorker c now w wv st).2.1 := by
  have h1 := expireAll_spec now h
  have hwq : WQValid c now (expireAll c now st)
      (sortWQ c.goal (expireAll c now st) (initialWQ c now (expireAll c now st))) :=
    WQValid.perm (sortWQ_perm _ _ _) (initialWQ_valid now h1.1)
  have hl0 : LInv c now w wv.loaded wv.avail (expireAll c now st)
      { st := expireAll c now st, avail := wv.avail,
        wq := sortWQ c.goal (expireAll c now st) (initialWQ c now (expireAll c now st)),
        out := [], err := none } :=
    ⟨h1.1, hwq, by simp, rfl, PlacedSpec.refl _⟩
  have hl := loopRun_inv (totalQueued (expireAll c now st) + (expireAll c now st).length + 1) hl0
  have hp0 : PlacedSpec st (expireAll c now st) [] := ⟨h1.2, by simp, by simp, by simp⟩
  unfold inferWorker
  simp only []
  exact ⟨hl.sinv, hl.ok, ⟨_, hl.fits⟩, by simpa using hp0.trans hl.placed⟩

end ErdosVerif.Clockwork

namespace ErdosVerif.Clockwork
open List

/-- Post-condition of `run_inference` over the workers `wvs`, numbered from `w0`. -/
structure InferSpec (c : Cfg) (now : Int) (w0 : Nat) (wvs : List WorkerView) (st st' : SState)
    (bs : List Batch) : Prop where
  sinv : SInv c st'
  placed : PlacedSpec st st' bs
  ok : ∀ b ∈ bs, ∃ k wv, b.worker = w0 + k ∧ wvs[k]? = some wv ∧ BatchOK c now (w0 + k) wv.loaded b
  fits : ∀ k wv, wvs[k]? = some wv →
    (fitsRun c wv.avail (bs.filter (fun b => b.worker == w0 + k))).isSome

theorem filter_worker_self {bs : List Batch} {w : Nat} (h : ∀ b ∈ bs, b.worker = w) :
    bs.filter (fun b => b.worker == w) = bs :=
  List.filter_eq_self.mpr (fun b hb => by simp [h b hb])

theorem filter_worker_none {bs : List Batch} {w : Nat} (h : ∀ b ∈ bs, b.worker ≠ w) :
    bs.filter (fun b => b.worker == w) = [] :=
  List.filter_eq_nil_iff.mpr (fun b hb => by simpa using h b hb)

theorem inferFrom_spec {c : Cfg} (now : Int) (w0 : Nat) (wvs : List WorkerView) {st : SState}
    (h : SInv c st) :
    InferSpec c now w0 wvs st (inferFrom c now w0 wvs st).1 (inferFrom c now w0 wvs st).2.1 := by
  induction wvs generalizing w0 st with
  | nil =>
    simp only [inferFrom]
    exact ⟨h, PlacedSpec.refl _, by simp, by simp⟩
  | cons wv wvs ih =>
    have hw := inferWorker_spec now w0 wv h
    unfold inferFrom
    split
    · -- an exception stopped the loop: only this worker's batches
      rename_i st1 bs e fo heq
      rw [heq] at hw
      simp only [] at hw ⊢
      obtain ⟨h1, h2, ⟨a, h3⟩, h4⟩ := hw
      refine ⟨h1, h4, ?_, ?_⟩
      · intro b hb
        exact ⟨0, wv, (h2 b hb).worker, by simp, h2 b hb⟩
      · intro k wv' hk
        cases k with
        | zero =>
          simp only [List.getElem?_cons_zero, Option.some.injEq] at hk
          subst hk
          rw [Nat.add_zero, filter_worker_self (fun b hb => (h2 b hb).worker)]
          simp [h3]
        | succ k =>
          rw [filter_worker_none (fun b hb => by have := (h2 b hb).worker; omega)]
          simp [fitsRun]
    · rename_i st1 bs fo heq
      rw [heq] at hw
      simp only [] at hw ⊢
      obtain ⟨h1, h2, ⟨a, h3⟩, h4⟩ := hw
      have hr := ih (w0 + 1) h1
      refine ⟨hr.sinv, h4.trans hr.placed, ?_, ?_⟩
      · intro b hb
        rcases List.mem_append.mp hb with hb | hb
        · exact ⟨0, wv, (h2 b hb).worker, by simp, h2 b hb⟩
        · obtain ⟨k, wv', e1, e2, e3⟩ := hr.ok b hb
          refine ⟨k + 1, wv', by omega, by simpa using e2, ?_⟩
          have : w0 + (k + 1) = w0 + 1 + k := by omega
          rw [this]; exact e3
      · intro k wv' hk
        rw [List.filter_append]
        cases k with
        | zero =>
          simp only [List.getElem?_cons_zero, Option.some.injEq] at hk
          subst hk
          rw [Nat.add_zero, filter_worker_self (fun b hb => (h2 b hb).worker),
              filter_worker_none (fun b hb => by
                obtain ⟨k, _, e1, _, _⟩ := hr.ok b hb
                omega)]
          simp [h3]
        | succ k =>
          rw [filter_worker_none (fun b hb => by have := (h2 b hb).worker; omega)]
          have : w0 + (k + 1) = w0 + 1 + k := by omega
          rw [this]
          simpa using hr.fits k wv' (by simpa using hk)

end ErdosVerif.Clockwork
