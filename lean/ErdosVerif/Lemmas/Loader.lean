/-
Helper lemmas for C19: `instantiate` / `generateOne` (structure-preserving
fresh copy of a job graph) and the SLO bookkeeping of `loadJobs`.
-/
import ErdosVerif.Model.Loader
import ErdosVerif.Lemmas.Release

namespace ErdosVerif.Loader
open ErdosVerif.Release

theorem instantiate_length (jg : JobGraph) (nm : String) (ts rel dl : Int) (fid : Nat) :
    (instantiate jg nm ts rel dl fid).tasks.length = jg.jobs.length := by
  simp [instantiate]

theorem instantiate_children (jg : JobGraph) (nm : String) (ts rel dl : Int) (fid : Nat) :
    (instantiate jg nm ts rel dl fid).children = jg.children := rfl

theorem instantiate_getElem (jg : JobGraph) (nm : String) (ts rel dl : Int) (fid : Nat)
    (i : Nat) (h : i < jg.jobs.length) :
    (instantiate jg nm ts rel dl fid).tasks[i]? =
      some { id := fid + i, name := (jg.jobs.getD i default).name, taskGraph := nm, job := i,
             timestamp := ts, release := if isSource jg.children i then rel else -1,
             deadline := dl, profile := (jg.jobs.getD i default).profile,
             prob := (jg.jobs.getD i default).prob } := by
  simp [instantiate, h]

theorem instantiate_ids (jg : JobGraph) (nm : String) (ts rel dl : Int) (fid : Nat) :
    (instantiate jg nm ts rel dl fid).tasks.map (·.id) = List.range' fid jg.jobs.length := by
  simp [instantiate, List.range'_eq_map_range]

theorem instantiate_deadline (jg : JobGraph) (nm : String) (ts rel dl : Int) (fid : Nat) :
    ∀ t ∈ (instantiate jg nm ts rel dl fid).tasks, t.deadline = dl := by
  intro t ht
  simp only [instantiate, List.mem_map] at ht
  obtain ⟨i, _, rfl⟩ := ht
  rfl

/-- What a successful `_generate_task_graph` returns. -/
theorem generateOne_spec (insts : List ProfileInst) (f : Flags) (jg : JobGraph) (idx rel : Int)
    (gs gs' : GenState) (tg : TaskGraph)
    (h : generateOne insts f jg idx rel gs = .ok (gs', tg)) :
    ∃ T, completionTime insts jg = .ok T ∧
      tg = instantiate jg s!"{jg.name}@{idx}" idx rel
            (Release.deadline rel T jg.variance.1 jg.variance.2 f.minDeadline f.maxDeadline
              ((gs.tape.drop 1).headD 0)) gs.nextId ∧
      gs'.nextId = gs.nextId + jg.jobs.length ∧ gs'.tape = gs.tape.drop 2 := by
  unfold generateOne at h
  cases hT : completionTime insts jg with
  | error e => simp [hT, bind, Except.bind] at h
  | ok T =>
    simp only [hT, bind, Except.bind] at h
    split at h
    · simp at h
    · simp only [pure, Except.pure, Except.ok.injEq, Prod.mk.injEq] at h
      obtain ⟨h1, h2⟩ := h
      refine ⟨T, rfl, h2.symm, ?_, ?_⟩ <;> simp [← h1]

/-- Pass 1 of `load_job_graph` with an override SLO: every job gets the override. -/
theorem loadJobs_slo_override (origNames : List String) (pmap : List Nat) (nodes : List NodeD)
    (slo : Int) (hs : slo ≠ -1) (st st' : LState) (acc jobs : List Job)
    (hacc : ∀ j ∈ acc, j.slo = slo)
    (h : loadJobs origNames pmap nodes slo st acc = .ok (st', jobs)) :
    ∀ j ∈ jobs, j.slo = slo := by
  induction nodes generalizing st acc with
  | nil =>
    simp only [loadJobs, Except.ok.injEq, Prod.mk.injEq] at h
    obtain ⟨_, rfl⟩ := h
    exact hacc
  | cons nd nds ih =>
    unfold loadJobs at h
    cases hr : resolveProfile origNames pmap nd st with
    | error e => simp [hr] at h
    | ok v =>
      obtain ⟨st1, pidx⟩ := v
      have hk : nextSlo slo nd = slo := by simp [nextSlo, hs]
      simp only [hr, hk] at h
      refine ih st1 _ ?_ h
      intro j hj
      simp only [List.mem_append, List.mem_singleton] at hj
      rcases hj with hj | rfl
      · exact hacc j hj
      · rfl

/-- Pass 1 without override on nodes that carry no SLO: nobody gets one. -/
theorem loadJobs_slo_none (origNames : List String) (pmap : List Nat) (nodes : List NodeD)
    (hn : ∀ nd ∈ nodes, nd.slo = none) (st st' : LState) (acc jobs : List Job)
    (hacc : ∀ j ∈ acc, j.slo = -1)
    (h : loadJobs origNames pmap nodes (-1) st acc = .ok (st', jobs)) :
    ∀ j ∈ jobs, j.slo = -1 := by
  induction nodes generalizing st acc with
  | nil =>
    simp only [loadJobs, Except.ok.injEq, Prod.mk.injEq] at h
    obtain ⟨_, rfl⟩ := h
    exact hacc
  | cons nd nds ih =>
    unfold loadJobs at h
    cases hr : resolveProfile origNames pmap nd st with
    | error e => simp [hr] at h
    | ok v =>
      obtain ⟨st1, pidx⟩ := v
      have hnd : nd.slo = none := hn nd (by simp)
      have hk : nextSlo (-1) nd = -1 := by simp [nextSlo, hnd]
      simp only [hr, hk] at h
      refine ih (fun x hx => hn x (by simp [hx])) st1 _ ?_ h
      intro j hj
      simp only [List.mem_append, List.mem_singleton] at hj
      rcases hj with hj | rfl
      · exact hacc j hj
      · rfl

end ErdosVerif.Loader
