/-
Helper lemmas for C19: `instantiate` / `generateOne` (structure-preserving
fresh copy of a job graph) and the SLO bookkeeping of `loadJobs`.
-/
import ErdosVerif.Model.Loader
import ErdosVerif.Lemmas.Release

namespace ErdosVerif.Loader
open ErdosVerif.Release

theorem instantiate_length (jg : JobGraph) (nm : String) (ts rel dl : Int) (fid : Nat) :
    (instantiate jg nm ts rel dl fid).tasks.length = jg.jobs.length := by
  simp [instantiate]

theorem instantiate_children (jg : JobGraph) (nm : String) (ts rel dl : Int) (fid : Nat) :
    (instantiate jg nm ts rel dl fid).children = jg.children := rfl

theorem instantiate_getElem (jg : JobGraph) (nm : String) (ts rel dl : Int) (fid : Nat)
    (i : Nat) (h : i < jg.jobs.length) :
    (instantiate jg nm ts rel dl fid).tasks[i]? =
      some { id := fid + i, name := (jg.jobs.getD i default).name, taskGraph := nm, job := i,
             timestamp := ts, release := if isSource jg.children i then rel else -1,
             deadline := dl, profile := (jg.jobs.getD i default).profile,
             prob := (jg.jobs.getD i default).prob } := by
  simp [instantiate, h]

theorem instantiate_ids (jg : JobGraph) (nm : String) (ts rel dl : Int) (fid : Nat) :
    (instantiate jg nm ts rel dl fid).tasks.map (·.id) = List.range' fid jg.jobs.length := by
  simp [instantiate, List.range'_eq_map_range]

theorem instantiate_deadline (jg : JobGraph) (nm : String) (ts rel dl : Int) (fid : Nat) :
    ∀ t ∈ (instantiate jg nm ts rel dl fid).tasks, t.deadline = dl := by
  intro t ht
  simp only [instantiate, List.mem_map] at ht
  obtain ⟨i, _, rfl⟩ := ht
  rfl

/-- What a successful `_generate_task_graph` returns. -/
theorem generateOne_spec (insts : List ProfileInst) (f : Flags) (jg : JobGraph) (idx rel : Int)
    (gs gs' : GenState) (tg : TaskGraph)
    (h : generateOne insts f jg idx rel gs = .ok (gs', tg)) :
    ∃ T, completionTime insts jg = .ok T ∧
      tg = instantiate jg s!"{jg.name}@{idx}" idx rel
            (Release.deadline rel T jg.variance.1 jg.variance.2 f.minDeadline f.maxDeadline
              ((gs.tape.drop 1).headD 0)) gs.nextId ∧
      gs'.nextId = gs.nextId + jg.jobs.length ∧ gs'.tape = gs.tape.drop 2 := by
  unfold generateOne at h
  cases hT : completionTime insts jg with
  | error e => simp [hT, bind, Except.bind] at h
  | ok T =>
    simp only [hT, bind, Except.bind] at h
    split at h
    · simp at h
    · simp only [pure, Except.pure, Except.ok.injEq, Prod.mk.injEq] at h
      obtain ⟨h1, h2⟩ := h
      refine ⟨T, rfl, h2.symm, ?_, ?_⟩ <;> simp [← h1]

/-- Pass 1 of `load_job_graph`: job `k` carries `jobSlo override node_k`. -/
theorem loadJobs_slo (origNames : List String) (pmap : List Nat) (nodes : List NodeD)
    (slo : Int) (st st' : LState) (acc jobs : List Job)
    (h : loadJobs origNames pmap nodes slo st acc = .ok (st', jobs)) :
    jobs.map (·.slo) = acc.map (·.slo) ++ nodes.map (jobSlo slo) := by
  induction nodes generalizing st acc with
  | nil =>
    simp only [loadJobs, Except.ok.injEq, Prod.mk.injEq] at h
    obtain ⟨_, rfl⟩ := h
    simp
  | cons nd nds ih =>
    unfold loadJobs at h
    cases hr : resolveProfile origNames pmap nd st with
    | error e => simp [hr] at h
    | ok v =>
      obtain ⟨st1, pidx⟩ := v
      simp only [hr] at h
      rw [ih st1 _ h]
      simp

/-- Pass 1 keeps names, flags and probabilities too. -/
theorem loadJobs_names (origNames : List String) (pmap : List Nat) (nodes : List NodeD)
    (slo : Int) (st st' : LState) (acc jobs : List Job)
    (h : loadJobs origNames pmap nodes slo st acc = .ok (st', jobs)) :
    jobs.map (·.name) = acc.map (·.name) ++ nodes.map (·.name) := by
  induction nodes generalizing st acc with
  | nil =>
    simp only [loadJobs, Except.ok.injEq, Prod.mk.injEq] at h
    obtain ⟨_, rfl⟩ := h
    simp
  | cons nd nds ih =>
    unfold loadJobs at h
    cases hr : resolveProfile origNames pmap nd st with
    | error e => simp [hr] at h
    | ok v =>
      obtain ⟨st1, pidx⟩ := v
      simp only [hr] at h
      rw [ih st1 _ h]
      simp

/-- The loop of `generate_task_graphs`: one task graph per release, in order,
each a fresh copy released at its release time. -/
theorem generateList_spec (insts : List ProfileInst) (f : Flags) (jg : JobGraph)
    (rel : List Int) (i : Nat) (gs gs' : GenState) (tgs : List TaskGraph)
    (h : generateList insts f jg i rel gs = .ok (gs', tgs)) :
    tgs.length = rel.length ∧
    ∀ k, k < rel.length → ∃ dl fid,
      tgs[k]? = some (instantiate jg s!"{jg.name}@{((i + k : Nat) : Int)}" ((i + k : Nat) : Int) (rel.getD k 0) dl fid) := by
  induction rel generalizing i gs gs' tgs with
  | nil =>
    simp only [generateList, Except.ok.injEq, Prod.mk.injEq] at h
    obtain ⟨_, rfl⟩ := h
    simp
  | cons r rs ih =>
    unfold generateList at h
    simp only [Int.ofNat_eq_natCast] at h
    cases h1 : generateOne insts f jg (i : Int) r gs with
    | error e => simp [h1] at h
    | ok v =>
      obtain ⟨g1, tg⟩ := v
      simp only [h1] at h
      cases h2 : generateList insts f jg (i + 1) rs g1 with
      | error e => simp [h2] at h
      | ok w =>
        obtain ⟨g2, rest⟩ := w
        simp only [h2, Except.ok.injEq, Prod.mk.injEq] at h
        obtain ⟨_, rfl⟩ := h
        obtain ⟨hl, hk⟩ := ih (i + 1) g1 g2 rest h2
        obtain ⟨T, _, e, _, _⟩ := generateOne_spec insts f jg (i : Int) r gs g1 tg h1
        refine ⟨by simp [hl], ?_⟩
        intro k hklt
        cases k with
        | zero => subst e; exact ⟨_, _, rfl⟩
        | succ k =>
          obtain ⟨dl, fid, hh⟩ := hk k (by simp at hklt; omega)
          refine ⟨dl, fid, ?_⟩
          have : i + 1 + k = i + (k + 1) := by omega
          simpa [this] using hh

end ErdosVerif.Loader
