import ErdosVerif.Lemmas.SimResidentInit
/-!
Progress of the `simulate()` loop, part 1: the invariant `PG` and its state-level lemmas.

`PG skip ex s` ("pending-finish invariant"):
* `due`  — **every RUNNING task whose remaining time is 0 has a TASK_FINISHED event, due now
  or earlier, in the queue** (or in `ex`, the events that exist outside the queue: the event
  being handled, the events `__step` has created and not yet pushed); `skip` exempts one task
  (between `Task.start` and the queueing of its completion event in `__handle_task_placement`);
* `pre`  — `_pre_scheduling_state` is VIRTUAL / RELEASED (so that `unschedule` cannot make a
  task RUNNING);
* `eids` — the event ids kept for in-place edits / removals are never ids of TASK_FINISHED
  events (`EInv` of the residency slice);
* `allQ`, `tmplQ` — loader graphs and job templates contain no RUNNING task;
* `lg`   — the shape of the history log: between two adjacent clock entries the clock value
  strictly grows unless the second one is immediately followed by a pop (`SF`), and a trailing
  clock entry carries the current clock value.

Unlike the residency invariant `AP` this invariant does not mention the worker pools.
Core Lean only.
-/
namespace ErdosVerif.Model.Sim

/-! ### the clock / pop skeleton of the history log -/

/-- Clock entries (`some c`) and pops (`none`) of the history, in order. -/
def pg_sk : LogE → Option (Option Int)
  | .clock c => some (some c)
  | .pop _ _ => some none
  | _ => none

def pg_skel (l : List LogE) : List (Option Int) := l.filterMap pg_sk

/-- **No zero-length-step stall**: of two adjacent clock entries (no pop in between) the
second is strictly later, unless it is immediately followed by a pop. -/
def SF (k : List (Option Int)) : Prop :=
  ∀ i a b, k[i]? = some (some a) → k[i + 1]? = some (some b) → a < b ∨ k[i + 2]? = some none

/-- The log shape at a loop head / inside a handler. -/
def LG (l : List LogE) (now : Int) : Prop :=
  SF (pg_skel l) ∧ ∀ a, (pg_skel l).getLast? = some (some a) → a = now

theorem pg_skel_append (l l' : List LogE) : pg_skel (l ++ l') = pg_skel l ++ pg_skel l' := by
  simp [pg_skel, List.filterMap_append]

theorem pg_skel_push_other (l : Array LogE) (e : LogE) (he : pg_sk e = none) :
    pg_skel (l.push e).toList = pg_skel l.toList := by
  simp [pg_skel, List.filterMap_append, he]

theorem SF.nil : SF [] := by intro i a b h; simp at h

/-- Appending a pop. -/
theorem SF.pop {k : List (Option Int)} (h : SF (k ++ [none])) : SF (k ++ [none]) := h

/-- Appending a strictly later clock value after a trailing clock entry (or after a pop / at
the start). -/
theorem SF.clock_strict {k : List (Option Int)} {now b : Int} (h : SF k)
    (hl : ∀ a, k.getLast? = some (some a) → a = now) (hb : now < b) : SF (k ++ [some b]) := by
  intro i a c h1 h2
  by_cases hi : i + 1 < k.length
  · rw [List.getElem?_append_left (by omega)] at h1
    rw [List.getElem?_append_left hi] at h2
    rcases h i a c h1 h2 with h3 | h3
    · exact Or.inl h3
    · right
      have : i + 2 < k.length := by
        rcases Nat.lt_or_ge (i + 2) k.length with h4 | h4
        · exact h4
        · rw [List.getElem?_eq_none h4] at h3; cases h3
      rw [List.getElem?_append_left this]; exact h3
  · by_cases hi2 : i + 1 = k.length
    · -- the new pair: (last of k, b)
      rw [List.getElem?_append_left (by omega)] at h1
      rw [List.getElem?_append_right (by omega)] at h2
      have h0 : i + 1 - k.length = 0 := by omega
      rw [h0] at h2
      simp only [List.getElem?_cons_zero, Option.some.injEq] at h2
      have hlast : k.getLast? = some (some a) := by
        rw [List.getLast?_eq_getElem?]
        have : k.length - 1 = i := by omega
        rw [this]; exact h1
      have := hl a hlast
      left; omega
    · rw [List.getElem?_append_right (by omega)] at h2
      have : i + 1 - k.length = (i - k.length) + 1 := by omega
      rw [this] at h2
      simp at h2

/-- After any clock entry, the pop that follows makes the last pair harmless. -/
theorem SF.clock_pop {k : List (Option Int)} {b : Int} (h : SF k) : SF (k ++ [some b] ++ [none]) := by
  intro i a c h1 h2
  by_cases hi : i + 1 < k.length
  · rw [List.append_assoc, List.getElem?_append_left (by omega)] at h1
    rw [List.append_assoc, List.getElem?_append_left hi] at h2
    rcases h i a c h1 h2 with h3 | h3
    · exact Or.inl h3
    · right
      have : i + 2 < k.length := by
        rcases Nat.lt_or_ge (i + 2) k.length with h4 | h4
        · exact h4
        · rw [List.getElem?_eq_none h4] at h3; cases h3
      rw [List.append_assoc, List.getElem?_append_left this]; exact h3
  · by_cases hi2 : i + 1 = k.length
    · right
      rw [List.getElem?_append_right (by simp; omega)]
      have : i + 2 - (k ++ [some b]).length = 0 := by simp; omega
      rw [this]; rfl
    · exfalso
      by_cases hi3 : i = k.length
      · rw [List.getElem?_append_right (by simp; omega)] at h2
        have : i + 1 - (k ++ [some b]).length = 0 := by simp; omega
        rw [this] at h2
        simp at h2
      · have : (k ++ [some b] ++ [none]).length ≤ i + 1 := by simp; omega
        rw [List.getElem?_eq_none this] at h2; cases h2

theorem getLast?_append_single {α : Type} (k : List α) (x : α) : (k ++ [x]).getLast? = some x := by
  simp

/-! ### the invariant -/

/-- A TASK_FINISHED event of task `t`, due now or earlier, is among `l`. -/
def pg_Due (l : List SEvent) (now : Int) (t : TaskId) : Prop :=
  ∃ e ∈ l, e.ev.etype = ET.taskFinished ∧ e.tid = some t ∧ e.ev.time ≤ now

structure PG (skip : Option TaskId) (ex : List SEvent) (s : SimS) : Prop where
  pre : ∀ t x, taskAt s.graphs t = some x → x.PreOK
  due : ∀ t x, taskAt s.graphs t = some x → x.state = .running → x.remaining = some 0 → some t ≠ skip →
    pg_Due (s.queue.toList ++ ex) s.now t
  eids : EInv (s.queue.toList ++ ex) s.future s.nextSched s.nextEid
  allQ : ∀ g ∈ s.allGraphs.toList, g.Quiet
  tmplQ : ∀ j ∈ s.jobs.toList, j.template.Quiet
  lg : LG s.log.toList s.now

/-- Pure frame: none of the fields the invariant reads changed (the log may have received
entries that are neither clock entries nor pops). -/
theorem PG.congr {sk : Option TaskId} {ex : List SEvent} (s s' : SimS) (h : PG sk ex s)
    (hg : s'.graphs = s.graphs) (hn : s'.now = s.now) (hl : pg_skel s'.log.toList = pg_skel s.log.toList)
    (hq : s'.queue = s.queue) (hf : s'.future = s.future) (hns : s'.nextSched = s.nextSched)
    (hid : s'.nextEid = s.nextEid) (ha : s'.allGraphs = s.allGraphs) (hj : s'.jobs = s.jobs) : PG sk ex s' := by
  obtain ⟨h1, h2, h3, h4, h5, h6⟩ := h
  refine ⟨?_, ?_, ?_, ?_, ?_, ?_⟩
  · rw [hg]; exact h1
  · rw [hg, hq, hn]; exact h2
  · rw [hq, hf, hns, hid]; exact h3
  · rw [ha]; exact h4
  · rw [hj]; exact h5
  · unfold LG; rw [hl, hn]; exact h6

/-- **Benign steps**: the RUNNING tasks are untouched and no task became RUNNING (`TRel`),
the clock did not go back, the TASK_FINISHED events outside and inside the queue are the
same, kept ids are old or fresh, the log skeleton is unchanged. -/
theorem PG.benign {sk : Option TaskId} {ex ex' : List SEvent} (s s' : SimS) (h : PG sk ex s)
    (hg : TRel (taskAt s.graphs) (taskAt s'.graphs))
    (hn : s'.now = s.now) (hl : pg_skel s'.log.toList = pg_skel s.log.toList)
    (hq : ∀ e ∈ s'.queue.toList ++ ex', e.ev.etype = ET.taskFinished → e ∈ s.queue.toList ++ ex)
    (hq2 : ∀ e ∈ s.queue.toList ++ ex, e.ev.etype = ET.taskFinished → e ∈ s'.queue.toList ++ ex')
    (hef : ∀ x, EF s'.future s'.nextSched x → EF s.future s.nextSched x ∨ (s.nextEid ≤ x ∧ x < s'.nextEid))
    (hid : s.nextEid ≤ s'.nextEid)
    (ha : s'.allGraphs = s.allGraphs) (hj : ∀ j ∈ s'.jobs.toList, j.template.Quiet) : PG sk ex' s' := by
  have back : ∀ t x', taskAt s'.graphs t = some x' → x'.state = .running → taskAt s.graphs t = some x' := by
    intro t x' ht hs
    rcases hg.new t x' ht with ⟨x, hx⟩ | ⟨hn, _, _⟩
    · obtain ⟨y, hy, r⟩ := hg.old t x hx
      rw [ht] at hy; cases hy
      rcases r with r | r
      · rw [r]; exact hx
      · exact absurd hs r.2.1
    · exact absurd hs hn
  refine ⟨?_, ?_, h.eids.benign hq hef hid, by rw [ha]; exact h.allQ, hj, ?_⟩
  · intro t x' ht
    rcases hg.new t x' ht with ⟨x, hx⟩ | ⟨_, hp, _⟩
    · obtain ⟨y, hy, r⟩ := hg.old t x hx
      rw [ht] at hy; cases hy
      rcases r with r | r
      · rw [r]; exact h.pre t x hx
      · exact r.2.2.1
    · exact hp
  · intro t x' ht hs hr hsk
    obtain ⟨e, he, h1, h2, h3⟩ := h.due t x' (back t x' ht hs) hs hr hsk
    exact ⟨e, hq2 e he h1, h1, h2, by rw [hn]; exact h3⟩
  · unfold LG; rw [hl, hn]; exact h.lg

/-- Field-wise form of `PG.benign` for the common case (kept ids not extended by fresh ones,
jobs unchanged). -/
theorem PG.step {sk : Option TaskId} {ex ex' : List SEvent} (s s' : SimS) (h : PG sk ex s)
    (hg : TRel (taskAt s.graphs) (taskAt s'.graphs)) (hn : s'.now = s.now)
    (hl : pg_skel s'.log.toList = pg_skel s.log.toList)
    (hq : ∀ e ∈ s'.queue.toList ++ ex', e.ev.etype = ET.taskFinished → e ∈ s.queue.toList ++ ex)
    (hq2 : ∀ e ∈ s.queue.toList ++ ex, e.ev.etype = ET.taskFinished → e ∈ s'.queue.toList ++ ex')
    (hef : ∀ x, EF s'.future s'.nextSched x → EF s.future s.nextSched x) (hid : s.nextEid ≤ s'.nextEid)
    (ha : s'.allGraphs = s.allGraphs) (hj : s'.jobs = s.jobs) : PG sk ex' s' :=
  PG.benign s s' h hg hn hl hq hq2 (fun x hx => Or.inl (hef x hx)) hid ha (by rw [hj]; exact h.tmplQ)

theorem PG.allPre {sk : Option TaskId} {ex : List SEvent} {s : SimS} (h : PG sk ex s)
    (gi : Nat) (g : GraphS) (hg : s.graphs[gi]? = some g) : g.AllPre := by
  intro k x hx
  exact h.pre ⟨gi, k⟩ x (taskAt_of s.graphs ⟨gi, k⟩ g x hg hx)

/-- The exemption is dropped when the exempted task has its event. -/
theorem PG.unskip_ev {t : TaskId} {ex : List SEvent} {s : SimS} (h : PG (some t) ex s)
    (hd : pg_Due (s.queue.toList ++ ex) s.now t) : PG none ex s := by
  refine { h with due := ?_ }
  intro u x hu hs hr _
  by_cases hut : u = t
  · subst hut; exact hd
  · exact h.due u x hu hs hr (by intro he; cases he; exact hut rfl)

/-- … or when it is not a RUNNING task with remaining time 0. -/
theorem PG.unskip_ne {t : TaskId} {ex : List SEvent} {s : SimS} (h : PG (some t) ex s)
    (hd : ∀ x, taskAt s.graphs t = some x → x.state = .running → x.remaining ≠ some 0) : PG none ex s := by
  refine { h with due := ?_ }
  intro u x hu hs hr _
  by_cases hut : u = t
  · subst hut; exact absurd hr (hd x hu hs)
  · exact h.due u x hu hs hr (by intro he; cases he; exact hut rfl)

theorem PG.toSkip {t : TaskId} {ex : List SEvent} {s : SimS} (h : PG none ex s) : PG (some t) ex s :=
  { h with due := fun u x hu hs hr _ => h.due u x hu hs hr (by simp) }

end ErdosVerif.Model.Sim
