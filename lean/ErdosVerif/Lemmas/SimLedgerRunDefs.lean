import ErdosVerif.Lemmas.LedgerCopy
import ErdosVerif.Lemmas.LedgerPool
import ErdosVerif.Lemmas.LedgerResident
import ErdosVerif.Lemmas.SimResidentPool
/-!
What a worker's ledger holds — "held iff resident, and each resident holds the demand of the
strategy it was placed with" — as an invariant `Worker.TOK` of the worker record, preserved
by every worker / pool operation the simulator issues (pure lemmas; the lift to whole runs is in
`SimLedgerRun*.lean`). Core Lean only. Helper names are prefixed `lr_`.
-/
namespace ErdosVerif.Model

/-! ### association lists, any key type -/
section
variable {κ υ : Type} [DecidableEq κ]

theorem AList.lr_keys_erase (l : AList κ υ) (k : κ) : AList.keys (AList.erase l k) = (AList.keys l).erase k := by
  induction l with
  | nil => rfl
  | cons p t ih =>
    obtain ⟨a, b⟩ := p
    simp only [AList.erase, AList.keys_cons]
    by_cases h : a = k
    · subst h; simp
    · simp only [h, if_false, AList.keys_cons, ih]
      rw [List.erase_cons_tail]
      simpa using h

theorem AList.lr_nodup_erase (l : AList κ υ) (k : κ) (h : (AList.keys l).Nodup) : (AList.keys (AList.erase l k)).Nodup := by
  rw [AList.lr_keys_erase]; exact h.erase _

theorem AList.lr_nodup_set (l : AList κ υ) (k : κ) (v : υ) (h : (AList.keys l).Nodup) :
    (AList.keys (AList.set l k v)).Nodup := by
  by_cases hk : k ∈ AList.keys l
  · rw [AList.keys_set_of_mem _ _ _ hk]; exact h
  · rw [AList.keys_set_of_not_mem _ _ _ hk, List.nodup_append]
    refine ⟨h, by simp, ?_⟩
    intro a ha b hb
    simp only [List.mem_singleton] at hb
    subst hb
    intro e; subst e; exact hk ha

theorem AList.lr_get?_erase (l : AList κ υ) (k x : κ) (h : (AList.keys l).Nodup) :
    AList.get? (AList.erase l k) x = if k = x then none else AList.get? l x := by
  by_cases e : k = x
  · subst e
    simp only [if_true]
    apply AList.get?_eq_none_of_not_mem
    rw [AList.lr_keys_erase]
    intro hm
    exact (List.Nodup.mem_erase_iff h).mp hm |>.1 rfl
  · simp only [e, if_false]
    exact AList.get?_erase_ne l k x e

theorem AList.lr_has_erase_ne (l : AList κ υ) (k x : κ) (h : k ≠ x) : (AList.erase l k).has x = l.has x := by
  unfold AList.has; rw [AList.get?_erase_ne l k x h]

theorem AList.lr_has_iff_mem (l : AList κ υ) (x : κ) : l.has x = true ↔ x ∈ AList.keys l := by
  constructor
  · intro h
    unfold AList.has at h
    cases hg : AList.get? l x with
    | none => simp [hg] at h
    | some v => exact AList.mem_keys_of_get?_some _ _ _ hg
  · intro h; exact AList.get?_isSome_of_mem l x h

end

/-- The recorded pairs `l` hold, per resource type, exactly the demand `req`. -/
def Amt (l : List (Res × Nat)) (req : Vec) : Prop := ∀ n, pairsByName l n = byName req n

theorem Amt.nil : Amt [] [] := fun _ => rfl

/-! ### what a successful `allocate_multiple` records -/
namespace Resources

theorem lr_allocateEach_ok (r : Resources) (c : Comp) (req : Vec) (hnd : (AList.keys r.avail).Nodup)
    (l : List (Res × Nat)) (hl : AList.get? r.allocs c = some l) (hok : (r.allocateEach c req).2 = .ok) :
    ∃ recs, Ext c r (r.allocateEach c req).1 recs ∧ Amt recs req := by
  induction req generalizing r l with
  | nil => exact ⟨[], Ext.refl c r l hl, Amt.nil⟩
  | cons p rest ih =>
    obtain ⟨k, q⟩ := p
    simp only [allocateEach] at hok ⊢
    cases hres : r.allocate k c q with
    | mk r' o =>
      rw [hres] at hok
      cases o with
      | ok =>
        simp only at hok ⊢
        have hok1 : (r.allocate k c q).2 = .ok := by rw [hres]
        have e1 := ext_allocate r k c q hnd hok1
        rw [hres] at e1
        have hnd' : (AList.keys r'.avail).Nodup := e1.keys ▸ hnd
        have hl' : AList.get? r'.allocs c = some (l ++ (scan k r.avail q).2) := by
          rw [e1.allocs, AList.get?_set_self, hl]; rfl
        obtain ⟨recs, e2, hamt⟩ := ih r' hnd' _ hl' hok
        refine ⟨_, e1.trans e2, ?_⟩
        intro n
        rw [pairsByName_append, hamt n, scan_total_byName]
        have hge : q ≤ sumMatching k r.avail := by
          unfold allocate at hok1
          split at hok1
          · simp at hok1
          · rename_i hge; unfold availQ at hge; omega
        rw [scan_total k r.avail q hge]
        simp only [byName]
      | raised e => simp at hok

/-- A successful `allocate_multiple` appends to the entry of `c` pairs that hold exactly the
request (per resource type); no other entry changes. -/
theorem lr_allocateMultiple_ok (r : Resources) (req : Vec) (c : Comp) (h : r.Inv)
    (hok : (r.allocateMultiple req c).2 = .ok) :
    ∃ recs, (r.allocateMultiple req c).1.allocs = AList.set r.allocs c ((AList.get? r.allocs c).getD [] ++ recs) ∧
      Amt recs req := by
  unfold allocateMultiple at hok ⊢
  split
  · rename_i hchk
    simp only [hchk, if_true] at hok
    have hnd : (AList.keys r.avail).Nodup := h.keys_eq ▸ h.nodup
    have hl0 : AList.get? (record r.allocs c []) c = some ((AList.get? r.allocs c).getD []) := by
      simp [record, AList.get?_set_self]
    cases hres : allocateEach { r with allocs := record r.allocs c [] } c req with
    | mk r' o =>
      rw [hres] at hok
      cases o with
      | raised err => simp at hok
      | ok =>
        obtain ⟨recs, e, hamt⟩ := lr_allocateEach_ok { r with allocs := record r.allocs c [] } c req hnd _ hl0
          (by rw [hres])
        rw [hres] at e
        refine ⟨recs, ?_, hamt⟩
        simp only
        rw [e.allocs]
        simp only [hl0, Option.getD_some]
        simp only [record, AList.set_set]
  · rename_i hchk; simp [hchk] at hok

end Resources

/-! ### the worker invariant -/

/-- **Held iff resident, with amounts (non-batch tasks)**: the ledger entries keyed by a task
are exactly the residents placed with a non-batch strategy, each holds (per resource type) the
demand of the strategy the task was placed with; the placeholder of a batch is a `.batch`
computation; every profile entry belongs to a profile that is loaded or loading. -/
structure Worker.TOK (w : Worker) : Prop where
  rinv : w.res.Inv
  anodup : (AList.keys w.res.allocs).Nodup
  pnodup : (AList.keys w.placed).Nodup
  taskHeld : ∀ t s, AList.get? w.placed t = some s → s.isBatch = false →
    ∃ l, AList.get? w.res.allocs (.task t) = some l ∧ Amt l s.req
  heldTask : ∀ t l, AList.get? w.res.allocs (.task t) = some l → ∃ s, AList.get? w.placed t = some s ∧ s.isBatch = false
  btKind : ∀ sid c, (sid, c) ∈ w.batchTask → ∃ g, c = .batch g
  heldProf : ∀ p l, AList.get? w.res.allocs (.profile p) = some l → w.availProf.has p = true ∨ w.pendProf.has p = true

namespace Worker.TOK

theorem ofVec (v : Vec) (h : (AList.keys v).Nodup) : (Worker.ofVec v).TOK :=
  ⟨Resources.inv_ofVec v h, List.nodup_nil, List.nodup_nil, fun _ _ h => by simp [Worker.ofVec, AList.get?] at h,
   fun _ _ h => by simp [Worker.ofVec, Resources.ofVec, AList.get?] at h,
   fun _ _ h => by simp [Worker.ofVec] at h,
   fun _ _ h => by simp [Worker.ofVec, Resources.ofVec, AList.get?] at h⟩

variable {w w' : Worker}

/-- Effect: a task that is not resident is placed with a non-batch strategy. -/
theorem placeNB {t : Nat} {s : Strategy} {recs : List (Res × Nat)} (h : w.TOK) (hn : t ∉ AList.keys w.placed)
    (hs : s.isBatch = false) (hinv : w'.res.Inv)
    (ha : w'.res.allocs = AList.set w.res.allocs (.task t) ((AList.get? w.res.allocs (.task t)).getD [] ++ recs))
    (hamt : Amt recs s.req) (hp : w'.placed = AList.set w.placed t s) (hbt : w'.batchTask = w.batchTask)
    (hav : w'.availProf = w.availProf) (hpe : w'.pendProf = w.pendProf) : w'.TOK := by
  have hnone : AList.get? w.res.allocs (.task t) = none := by
    cases hg : AList.get? w.res.allocs (.task t) with
    | none => rfl
    | some l =>
      obtain ⟨s0, h0, _⟩ := h.heldTask t l hg
      exact absurd (AList.mem_keys_of_get?_some _ _ _ h0) hn
  rw [hnone] at ha
  simp only [Option.getD_none, List.nil_append] at ha
  refine ⟨hinv, ?_, ?_, ?_, ?_, ?_, ?_⟩
  · rw [ha]; exact AList.lr_nodup_set _ _ _ h.anodup
  · rw [hp]; exact AList.lr_nodup_set _ _ _ h.pnodup
  · intro u su hu hb
    rw [hp, AList.get?_set] at hu
    rw [ha, AList.get?_set]
    by_cases e : t = u
    · subst e
      simp only [if_true, Option.some.injEq] at hu
      subst hu
      exact ⟨recs, by simp, hamt⟩
    · simp only [e, if_false] at hu
      simp only [Comp.task.injEq, e, if_false]
      exact h.taskHeld u su hu hb
  · intro u l hu
    rw [ha, AList.get?_set] at hu
    rw [hp, AList.get?_set]
    by_cases e : t = u
    · subst e; exact ⟨s, by simp, hs⟩
    · simp only [Comp.task.injEq, e, if_false] at hu
      simp only [e, if_false]
      exact h.heldTask u l hu
  · rw [hbt]; exact h.btKind
  · intro p l hu
    rw [ha, AList.get?_set] at hu
    simp only [reduceCtorEq, if_false] at hu
    rw [hav, hpe]; exact h.heldProf p l hu

/-- Effect: a task that is not resident is placed with a batch strategy (the entry of a `.batch`
placeholder may be created / extended, the placeholder map may get a `.batch` value). -/
theorem placeB {t : Nat} {s : Strategy} (h : w.TOK) (hn : t ∉ AList.keys w.placed) (hs : s.isBatch = true)
    (hinv : w'.res.Inv)
    (ha : w'.res.allocs = w.res.allocs ∨ ∃ g l, w'.res.allocs = AList.set w.res.allocs (.batch g) l)
    (hp : w'.placed = AList.set w.placed t s)
    (hbt : w'.batchTask = w.batchTask ∨ ∃ sid g, w'.batchTask = AList.set w.batchTask sid (.batch g))
    (hav : w'.availProf = w.availProf) (hpe : w'.pendProf = w.pendProf) : w'.TOK := by
  have hget : ∀ c, (∀ g, c ≠ .batch g) → AList.get? w'.res.allocs c = AList.get? w.res.allocs c := by
    intro c hc
    rcases ha with ha | ⟨g, l, ha⟩
    · rw [ha]
    · rw [ha, AList.get?_set]
      have : ¬ Comp.batch g = c := fun e => hc g e.symm
      simp [this]
  have hnt : ∀ u, u ≠ t → AList.get? w'.placed u = AList.get? w.placed u := by
    intro u hu
    rw [hp, AList.get?_set]
    have : ¬ t = u := fun e => hu e.symm
    simp [this]
  refine ⟨hinv, ?_, ?_, ?_, ?_, ?_, ?_⟩
  · rcases ha with ha | ⟨g, l, ha⟩
    · rw [ha]; exact h.anodup
    · rw [ha]; exact AList.lr_nodup_set _ _ _ h.anodup
  · rw [hp]; exact AList.lr_nodup_set _ _ _ h.pnodup
  · intro u su hu hb
    by_cases e : u = t
    · subst e
      rw [hp, AList.get?_set] at hu
      simp only [if_true, Option.some.injEq] at hu
      subst hu; rw [hs] at hb; cases hb
    · rw [hnt u e] at hu
      rw [hget _ (by intro g; simp)]
      exact h.taskHeld u su hu hb
  · intro u l hu
    rw [hget _ (by intro g; simp)] at hu
    obtain ⟨s0, h0, h1⟩ := h.heldTask u l hu
    have : u ≠ t := fun e => hn (e ▸ AList.mem_keys_of_get?_some _ _ _ h0)
    exact ⟨s0, by rw [hnt u this]; exact h0, h1⟩
  · intro sid c hc
    rcases hbt with hbt | ⟨sid0, g, hbt⟩
    · rw [hbt] at hc; exact h.btKind sid c hc
    · rw [hbt] at hc
      rcases AList.mem_set _ _ _ _ hc with e | e
      · simp only [Prod.mk.injEq] at e; exact ⟨g, e.2⟩
      · exact h.btKind sid c e
  · intro p l hu
    rw [hget _ (by intro g; simp)] at hu
    rw [hav, hpe]; exact h.heldProf p l hu

/-- Effect: a resident task leaves; its own entry (non-batch) or possibly the entry of the batch
placeholder (batch) is deallocated. -/
theorem remove {t : Nat} {s : Strategy} (h : w.TOK) (hg : AList.get? w.placed t = some s) (hinv : w'.res.Inv)
    (ha : (s.isBatch = false ∧ w'.res.allocs = AList.erase w.res.allocs (.task t)) ∨
          (s.isBatch = true ∧ (w'.res.allocs = w.res.allocs ∨ ∃ g, w'.res.allocs = AList.erase w.res.allocs (.batch g))))
    (hp : w'.placed = AList.erase w.placed t)
    (hbt : w'.batchTask = w.batchTask ∨ ∃ sid, w'.batchTask = AList.erase w.batchTask sid)
    (hav : w'.availProf = w.availProf) (hpe : w'.pendProf = w.pendProf) : w'.TOK := by
  have hnt : ∀ u, AList.get? w'.placed u = if t = u then none else AList.get? w.placed u := by
    intro u; rw [hp]; exact AList.lr_get?_erase _ _ _ h.pnodup
  have hget : ∀ c, (∀ g, c ≠ .batch g) → c ≠ .task t → AList.get? w'.res.allocs c = AList.get? w.res.allocs c := by
    intro c hc hct
    rcases ha with ⟨_, ha⟩ | ⟨_, ha | ⟨g, ha⟩⟩
    · rw [ha]; exact AList.get?_erase_ne _ _ _ (fun e => hct e.symm)
    · rw [ha]
    · rw [ha]; exact AList.get?_erase_ne _ _ _ (fun e => hc g e.symm)
  refine ⟨hinv, ?_, ?_, ?_, ?_, ?_, ?_⟩
  · rcases ha with ⟨_, ha⟩ | ⟨_, ha | ⟨g, ha⟩⟩
    · rw [ha]; exact AList.lr_nodup_erase _ _ h.anodup
    · rw [ha]; exact h.anodup
    · rw [ha]; exact AList.lr_nodup_erase _ _ h.anodup
  · rw [hp]; exact AList.lr_nodup_erase _ _ h.pnodup
  · intro u su hu hb
    rw [hnt u] at hu
    by_cases e : t = u
    · simp [e] at hu
    · simp only [e, if_false] at hu
      rw [hget _ (by intro g; simp) (by simp; exact fun e' => e e'.symm)]
      exact h.taskHeld u su hu hb
  · intro u l hu
    by_cases e : t = u
    · subst e
      exfalso
      rcases ha with ⟨_, ha⟩ | ⟨hb, ha⟩
      · rw [ha, AList.lr_get?_erase _ _ _ h.anodup] at hu; simp at hu
      · have hu' : AList.get? w.res.allocs (.task t) = some l := by
          rcases ha with ha | ⟨g, ha⟩
          · rw [ha] at hu; exact hu
          · rw [ha, AList.get?_erase_ne _ _ _ (by simp)] at hu; exact hu
        obtain ⟨s0, h0, h1⟩ := h.heldTask t l hu'
        rw [hg] at h0; cases h0; rw [hb] at h1; cases h1
    · rw [hget _ (by intro g; simp) (by simp; exact fun e' => e e'.symm)] at hu
      obtain ⟨s0, h0, h1⟩ := h.heldTask u l hu
      exact ⟨s0, by rw [hnt u]; simp [e, h0], h1⟩
  · intro sid c hc
    rcases hbt with hbt | ⟨sid0, hbt⟩
    · rw [hbt] at hc; exact h.btKind sid c hc
    · rw [hbt] at hc
      exact h.btKind sid c (AList.mem_erase _ _ _ hc)
  · intro p l hu
    rw [hget _ (by intro g; simp) (by simp)] at hu
    rw [hav, hpe]; exact h.heldProf p l hu

/-- Effect: only entries of `.batch` placeholders were created / overwritten. -/
theorem frameB (h : w.TOK) (hinv : w'.res.Inv)
    (ha : w'.res.allocs = w.res.allocs ∨ ∃ g l, w'.res.allocs = AList.set w.res.allocs (.batch g) l)
    (hp : w'.placed = w.placed) (hbt : w'.batchTask = w.batchTask)
    (hav : w'.availProf = w.availProf) (hpe : w'.pendProf = w.pendProf) : w'.TOK := by
  have hget : ∀ c, (∀ g, c ≠ .batch g) → AList.get? w'.res.allocs c = AList.get? w.res.allocs c := by
    intro c hc
    rcases ha with ha | ⟨g, l, ha⟩
    · rw [ha]
    · rw [ha, AList.get?_set]
      have : ¬ Comp.batch g = c := fun e => hc g e.symm
      simp [this]
  refine ⟨hinv, ?_, by rw [hp]; exact h.pnodup, ?_, ?_, by rw [hbt]; exact h.btKind, ?_⟩
  · rcases ha with ha | ⟨g, l, ha⟩
    · rw [ha]; exact h.anodup
    · rw [ha]; exact AList.lr_nodup_set _ _ _ h.anodup
  · intro u su hu hb
    rw [hp] at hu
    rw [hget _ (by intro g; simp)]
    exact h.taskHeld u su hu hb
  · intro u l hu
    rw [hget _ (by intro g; simp)] at hu
    rw [hp]; exact h.heldTask u l hu
  · intro p l hu
    rw [hget _ (by intro g; simp)] at hu
    rw [hav, hpe]; exact h.heldProf p l hu

/-- Effect: a profile starts loading (its entry is created or extended). -/
theorem load {p : Nat} {s : Strategy} {l0 : List (Res × Nat)} (h : w.TOK) (hinv : w'.res.Inv)
    (ha : w'.res.allocs = AList.set w.res.allocs (.profile p) l0)
    (hp : w'.placed = w.placed) (hbt : w'.batchTask = w.batchTask)
    (hav : w'.availProf = w.availProf) (hpe : w'.pendProf = AList.set w.pendProf p s) : w'.TOK := by
  have hget : ∀ c, c ≠ .profile p → AList.get? w'.res.allocs c = AList.get? w.res.allocs c := by
    intro c hc
    rw [ha, AList.get?_set]
    have : ¬ Comp.profile p = c := fun e => hc e.symm
    simp [this]
  refine ⟨hinv, by rw [ha]; exact AList.lr_nodup_set _ _ _ h.anodup, by rw [hp]; exact h.pnodup, ?_, ?_,
    by rw [hbt]; exact h.btKind, ?_⟩
  · intro u su hu hb
    rw [hp] at hu
    rw [hget _ (by simp)]
    exact h.taskHeld u su hu hb
  · intro u l hu
    rw [hget _ (by simp)] at hu
    rw [hp]; exact h.heldTask u l hu
  · intro q l hu
    rw [hav, hpe, AList.has_set]
    by_cases e : p = q
    · right; simp [e]
    · rw [hget _ (by simp; exact fun e' => e e'.symm)] at hu
      rcases h.heldProf q l hu with h1 | h1
      · exact Or.inl h1
      · right; simp [h1]

/-- Effect: a profile is evicted (its entry is deallocated; it leaves one of the two profile maps). -/
theorem evict {p : Nat} (h : w.TOK) (hinv : w'.res.Inv)
    (ha : w'.res.allocs = AList.erase w.res.allocs (.profile p))
    (hp : w'.placed = w.placed) (hbt : w'.batchTask = w.batchTask)
    (hav : w'.availProf = w.availProf ∨ w'.availProf = AList.erase w.availProf p)
    (hpe : w'.pendProf = w.pendProf ∨ w'.pendProf = AList.erase w.pendProf p) : w'.TOK := by
  have hget : ∀ c, c ≠ .profile p → AList.get? w'.res.allocs c = AList.get? w.res.allocs c := by
    intro c hc
    rw [ha]; exact AList.get?_erase_ne _ _ _ (fun e => hc e.symm)
  refine ⟨hinv, by rw [ha]; exact AList.lr_nodup_erase _ _ h.anodup, by rw [hp]; exact h.pnodup, ?_, ?_,
    by rw [hbt]; exact h.btKind, ?_⟩
  · intro u su hu hb
    rw [hp] at hu
    rw [hget _ (by simp)]
    exact h.taskHeld u su hu hb
  · intro u l hu
    rw [hget _ (by simp)] at hu
    rw [hp]; exact h.heldTask u l hu
  · intro q l hu
    by_cases e : p = q
    · subst e
      rw [ha, AList.lr_get?_erase _ _ _ h.anodup] at hu; simp at hu
    · rw [hget _ (by simp; exact fun e' => e e'.symm)] at hu
      have h1 : w'.availProf.has q = w.availProf.has q := by
        rcases hav with hav | hav
        · rw [hav]
        · rw [hav]; exact AList.lr_has_erase_ne _ _ _ e
      have h2 : w'.pendProf.has q = w.pendProf.has q := by
        rcases hpe with hpe | hpe
        · rw [hpe]
        · rw [hpe]; exact AList.lr_has_erase_ne _ _ _ e
      rw [h1, h2]; exact h.heldProf q l hu

/-- Effect: loading profiles progress (loaded or loading stays loaded or loading). -/
theorem profStep (h : w.TOK) (hr : w'.res = w.res) (hp : w'.placed = w.placed) (hbt : w'.batchTask = w.batchTask)
    (hmono : ∀ p, w.availProf.has p = true ∨ w.pendProf.has p = true →
      w'.availProf.has p = true ∨ w'.pendProf.has p = true) : w'.TOK :=
  ⟨by rw [hr]; exact h.rinv, by rw [hr]; exact h.anodup, by rw [hp]; exact h.pnodup,
   by rw [hr, hp]; exact h.taskHeld, by rw [hr, hp]; exact h.heldTask, by rw [hbt]; exact h.btKind,
   fun p l hu => hmono p (h.heldProf p l (by rw [hr] at hu; exact hu))⟩

end Worker.TOK

theorem Resources.lr_deallocate_ok (r : Resources) (c : Comp) (h : (r.deallocate c).2 = .ok) :
    (r.deallocate c).1.allocs = AList.erase r.allocs c := by
  unfold deallocate at h ⊢
  split
  · rename_i hg; simp [hg] at h
  · rfl

theorem Resources.lr_getAllocated (r : Resources) (c : Comp) :
    (r.getAllocated c).1.allocs = r.allocs ∨
    (AList.get? r.allocs c = none ∧ (r.getAllocated c).1.allocs = AList.set r.allocs c []) := by
  unfold getAllocated
  split
  · left; rfl
  · rename_i hg; right; exact ⟨hg, rfl⟩

namespace Worker

/-- **`Worker.place_task` of a task that is not resident on the worker keeps the invariant.** -/
theorem lr_placeTask (w : Worker) (t : Nat) (s : Strategy) (h : w.TOK) (hn : t ∉ AList.keys w.placed)
    (hok : (w.placeTask t s).2 = .ok) : (w.placeTask t s).1.TOK := by
  have hinv := Worker.inv_placeTask w t s h.rinv
  revert hok hinv
  unfold placeTask
  split
  · rename_i hb
    split
    · split
      · intro hok; simp at hok
      · cases hres : w.res.allocateMultiple s.req (.batch w.fresh) with
        | mk r o =>
          cases o with
          | ok =>
            intro _ hinv
            obtain ⟨recs, ha, _⟩ := Resources.lr_allocateMultiple_ok w.res s.req (.batch w.fresh) h.rinv (by rw [hres])
            rw [hres] at ha
            exact h.placeB hn hb hinv (Or.inr ⟨_, _, ha⟩) rfl (Or.inr ⟨_, _, rfl⟩) rfl rfl
          | raised e => intro hok; simp at hok
    · split
      · intro hok; simp at hok
      · intro _ hinv
        exact h.placeB hn hb hinv (Or.inl rfl) rfl (Or.inl rfl) rfl rfl
  · rename_i hb
    have hb' : s.isBatch = false := by simpa using hb
    cases hres : w.res.allocateMultiple s.req (.task t) with
    | mk r o =>
      cases o with
      | ok =>
        intro _ hinv
        obtain ⟨recs, ha, hamt⟩ := Resources.lr_allocateMultiple_ok w.res s.req (.task t) h.rinv (by rw [hres])
        rw [hres] at ha
        exact h.placeNB hn hb' hinv ha hamt rfl rfl rfl rfl
      | raised e => intro hok; simp at hok

/-- **A successful `Worker.remove_task` keeps the invariant.** -/
theorem lr_removeTask (w : Worker) (t : Nat) (h : w.TOK) (hok : (w.removeTask t).2 = .ok) : (w.removeTask t).1.TOK := by
  have hinv := Worker.inv_removeTask w t h.rinv
  revert hok hinv
  unfold removeTask
  split
  · intro hok; simp at hok
  · rename_i s hs
    split
    · rename_i hb
      split
      · intro hok; simp at hok
      · split
        · intro hok; simp at hok
        · simp only []
          split
          · split
            · intro hok; simp at hok
            · rename_i bt hbt
              obtain ⟨g, hg⟩ := h.btKind _ _ (AList.mem_of_get?_some _ _ _ hbt)
              cases hd : w.res.deallocate bt with
              | mk r o =>
                cases o with
                | ok =>
                  intro _ hinv
                  have ha := Resources.lr_deallocate_ok w.res bt (by rw [hd])
                  rw [hd, hg] at ha
                  exact h.remove hs hinv (Or.inr ⟨hb, Or.inr ⟨g, ha⟩⟩) rfl (Or.inr ⟨_, rfl⟩) rfl rfl
                | raised e => intro hok; simp at hok
          · intro _ hinv
            exact h.remove hs hinv (Or.inr ⟨hb, Or.inl rfl⟩) rfl (Or.inl rfl) rfl rfl
    · rename_i hb
      have hb' : s.isBatch = false := by simpa using hb
      cases hd : w.res.deallocate (.task t) with
      | mk r o =>
        cases o with
        | ok =>
          intro _ hinv
          have ha := Resources.lr_deallocate_ok w.res (.task t) (by rw [hd])
          rw [hd] at ha
          exact h.remove hs hinv (Or.inl ⟨hb', ha⟩) rfl (Or.inl rfl) rfl rfl
        | raised e => intro hok; simp at hok

/-- **A successful `Worker.load_profile` keeps the invariant.** -/
theorem lr_loadProfile (w : Worker) (p : Nat) (s : Strategy) (h : w.TOK) (hok : (w.loadProfile p s).2 = .ok) :
    (w.loadProfile p s).1.TOK := by
  have hinv := Worker.inv_loadProfile w p s h.rinv
  revert hok hinv
  unfold loadProfile
  cases hres : w.res.allocateMultiple s.req (.profile p) with
  | mk r o =>
    cases o with
    | ok =>
      intro _ hinv
      obtain ⟨recs, ha, _⟩ := Resources.lr_allocateMultiple_ok w.res s.req (.profile p) h.rinv (by rw [hres])
      rw [hres] at ha
      exact h.load hinv ha rfl rfl rfl rfl
    | raised e => intro hok; simp at hok

/-- **A successful `Worker.evict_profile` keeps the invariant.** -/
theorem lr_evictProfile (w : Worker) (p : Nat) (h : w.TOK) (hok : (w.evictProfile p).2 = .ok) :
    (w.evictProfile p).1.TOK := by
  have hinv := Worker.inv_evictProfile w p h.rinv
  revert hok hinv
  unfold evictProfile
  split
  · intro hok; simp at hok
  · cases hd : w.res.deallocate (.profile p) with
    | mk r o =>
      cases o with
      | ok =>
        have ha := Resources.lr_deallocate_ok w.res (.profile p) (by rw [hd])
        rw [hd] at ha
        simp only []
        split
        · intro _ hinv
          exact h.evict hinv ha rfl rfl (Or.inr rfl) (Or.inl rfl)
        · intro _ hinv
          exact h.evict hinv ha rfl rfl (Or.inl rfl) (Or.inr rfl)
      | raised e => intro hok; simp at hok

theorem lr_foldl_set_has (done : List (Nat × Strategy)) (f : Strategy → Strategy) (a : AList Nat Strategy) (p : Nat) :
    (done.foldl (fun a q => a.set q.1 (f q.2)) a).has p = (a.has p || done.any (fun q => q.1 == p)) := by
  induction done generalizing a with
  | nil => simp
  | cons q rest ih =>
    simp only [List.foldl_cons, ih, AList.has_set, List.any_cons]
    by_cases e : q.1 = p <;> simp [e, Bool.or_comm, Bool.or_left_comm]

theorem lr_has_true_iff (l : AList Nat Strategy) (p : Nat) : l.has p = true ↔ ∃ s, (p, s) ∈ l := by
  constructor
  · intro h
    unfold AList.has at h
    cases hg : AList.get? l p with
    | none => simp [hg] at h
    | some v => exact ⟨v, AList.mem_of_get?_some _ _ _ hg⟩
  · intro ⟨s, hs⟩
    rw [AList.lr_has_iff_mem]
    exact List.mem_map.mpr ⟨(p, s), hs, rfl⟩

/-- **The profile part of `Worker.step` keeps the invariant.** -/
theorem lr_stepProfiles (w : Worker) (dt : Int) (h : w.TOK) : (w.stepProfiles dt).TOK := by
  apply h.profStep (w' := w.stepProfiles dt) rfl rfl rfl
  intro p hp
  simp only [stepProfiles]
  rw [lr_foldl_set_has _ (fun s => { s with runtime := 0 })]
  rcases hp with hp | hp
  · left; simp [hp]
  · obtain ⟨s, hs⟩ := (lr_has_true_iff _ _).mp hp
    by_cases hd : s.runtime - dt ≤ 0
    · left
      rw [Bool.or_eq_true]; right
      rw [List.any_eq_true]
      exact ⟨(p, s), List.mem_filter.mpr ⟨hs, by simpa using hd⟩, by simp⟩
    · right
      rw [lr_has_true_iff]
      refine ⟨{ s with runtime := s.runtime - dt }, ?_⟩
      rw [List.mem_map]
      exact ⟨(p, s), List.mem_filter.mpr ⟨hs, by simpa using hd⟩, rfl⟩

/-- **`Worker.get_allocated_resources` (a read that may insert an empty entry) keeps the invariant.** -/
theorem lr_getAllocated (w : Worker) (t : Nat) (h : w.TOK) : (w.getAllocated t).1.TOK := by
  have hinv := Worker.inv_getAllocated w t h.rinv
  revert hinv
  unfold getAllocated
  split
  · intro _; exact h
  · rename_i s hs
    split
    · split
      · intro _; exact h
      · rename_i bt hbt
        obtain ⟨g, hg⟩ := h.btKind _ _ (AList.mem_of_get?_some _ _ _ hbt)
        subst hg
        have hga := Resources.lr_getAllocated w.res (.batch g)
        cases hres : w.res.getAllocated (.batch g) with
        | mk r l =>
          rw [hres] at hga
          intro hinv
          refine h.frameB hinv ?_ rfl rfl rfl rfl
          rcases hga with hga | ⟨_, hga⟩
          · exact Or.inl hga
          · exact Or.inr ⟨_, _, hga⟩
    · rename_i hb
      obtain ⟨l, hl, _⟩ := h.taskHeld t s hs (by simpa using hb)
      have hga := Resources.lr_getAllocated w.res (.task t)
      cases hres : w.res.getAllocated (.task t) with
      | mk r l' =>
        rw [hres] at hga
        intro hinv
        refine h.frameB hinv ?_ rfl rfl rfl rfl
        rcases hga with hga | ⟨hn, _⟩
        · exact Or.inl hga
        · rw [hl] at hn; cases hn

end Worker

end ErdosVerif.Model
