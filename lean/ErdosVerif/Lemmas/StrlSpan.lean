/-
C20 helper lemmas, part 7: span soundness (placements of a satisfied node lie within its
reported start / end) and the order of what the two children of a satisfied LessThan report.
-/
import ErdosVerif.Lemmas.StrlStruct
namespace ErdosVerif.Strl

/-- A satisfied `Min` (utility and indicator 1) has all its children satisfied. -/
theorem min_children_sat (ctx : Ctx) (σ : Assign) (path : Path) (name : String) (cs : List Expr)
    (hok : childrenOK ctx σ path 0 cs)
    (hc : ∀ c ∈ (compileNode ctx path (.min name cs)).cons, Constr.holds σ c = true)
    (hu : (compileNode ctx path (.min name cs)).pr.util = true)
    (h1 : indVal σ (compileNode ctx path (.min name cs)).pr = 1) :
    ∀ x ∈ compileList ctx path 0 cs, x.2.pr.util = true ∧ indVal σ x.2.pr = 1 := by
  obtain ⟨hmv, hmu, hmr⟩ := min_facts ctx path name cs
  obtain ⟨hall, hind⟩ := hmu hu
  have hcok := childrenOK_mem ctx σ path cs 0 hok
  have hf := minFold σ name ⟨path, .minStart⟩ ⟨path, .minEnd⟩ (minChildren ctx path cs) {}
  have hcount : ((minAcc path name (minChildren ctx path cs)).count : Int)
      = sumBy (fun x : String × Out => if isVarInd x.2.pr then (1 : Int) else 0) (compileList ctx path 0 cs) := by
    have := hf.2
    unfold minAcc
    rw [this]
    simp [minChildren, sumBy_map]
  have hs := (minAcc_sums σ ctx path name cs).1
  simp only [evalTerms] at hs
  have hsum : sumBy (fun x => varInd σ x.2.pr) (compileList ctx path 0 cs)
      = sumBy (fun x : String × Out => if isVarInd x.2.pr then (1 : Int) else 0) (compileList ctx path 0 cs) := by
    by_cases h0 : ((minAcc path name (minChildren ctx path cs)).count == 0) = true
    · have h0' : (minAcc path name (minChildren ctx path cs)).count = 0 := by simpa using h0
      have := (minAcc_sums σ ctx path name cs).2 (by omega)
      omega
    · have hcnt : (minAcc path name (minChildren ctx path cs)).count ≠ 0 := by simpa using h0
      rw [if_neg h0] at hind
      simp only [indVal, hind, resolveTV] at h1
      have hrow := hc _ (hmr hcnt)
      simp only [Constr.holds, decide_eq_true_eq, evalTerms_append] at hrow
      simp only [evalTerms, List.map_cons, List.map_nil, List.sum_cons, List.sum_nil, h1,
        Int.ofNat_eq_natCast] at hrow
      omega
  have hpt := pointwise_of_sum_eq σ (compileList ctx path 0 cs) hcok hsum
  intro x hx
  exact ⟨hall x hx, satisfied_of_varInd σ x.2.pr (hall x hx) (hcok x hx) (hpt x hx)⟩


theorem minFold_cons_mono (name : String) (ms me : VarId) (children : List (String × PR)) :
    ∀ (acc : MinAcc) (c : Constr), c ∈ acc.cons →
      c ∈ (children.foldl (fun a x => minStep name ms me a x.1 x.2) acc).cons := by
  induction children with
  | nil => intro acc c h; exact h
  | cons x xs ih =>
    intro acc c h
    simp only [List.foldl_cons]
    apply ih
    unfold minStep
    split
    · exact h
    · exact List.mem_append_left _ h

theorem minFold_cons (name : String) (ms me : VarId) (children : List (String × PR)) :
    ∀ (acc : MinAcc), ∀ x ∈ children, x.2.util = true →
      (⟨name ++ "_min_start_time_constr_child_" ++ x.1, .ge, 0 + (tvTerm 1 x.2.start).2,
          (tvTerm 1 x.2.start).1 ++ [(-1, ms)]⟩ : Constr)
        ∈ (children.foldl (fun a x => minStep name ms me a x.1 x.2) acc).cons ∧
      (⟨name ++ "_min_end_time_constr_child_" ++ x.1, .le, 0 + (tvTerm 1 x.2.stop).2,
          (tvTerm 1 x.2.stop).1 ++ [(-1, me)]⟩ : Constr)
        ∈ (children.foldl (fun a x => minStep name ms me a x.1 x.2) acc).cons := by
  induction children with
  | nil => intro acc x hx; simp at hx
  | cons y ys ih =>
    intro acc x hx hu
    simp only [List.foldl_cons]
    rcases List.mem_cons.mp hx with rfl | hx
    · constructor
      · apply minFold_cons_mono
        unfold minStep
        simp [hu]
      · apply minFold_cons_mono
        unfold minStep
        simp [hu]
    · exact ih _ x hx hu

theorem minAcc_cons_sub (ctx : Ctx) (path : Path) (name : String) (cs : List Expr) :
    ∀ c ∈ (minAcc path name (minChildren ctx path cs)).cons, c ∈ (compileNode ctx path (.min name cs)).cons := by
  intro c hc
  simp only [compileNode, finishMin]
  apply List.mem_append_right
  split
  · exact hc
  · exact List.mem_append_left _ hc

/-- The start / end rows of a `Min`: its start is no later than, and its end no earlier than,
the (parse-result) start and end of every child that provides utility. -/
theorem min_rows (ctx : Ctx) (σ : Assign) (path : Path) (name : String) (cs : List Expr)
    (hc : ∀ c ∈ (compileNode ctx path (.min name cs)).cons, Constr.holds σ c = true) :
    ∀ x ∈ compileList ctx path 0 cs, x.2.pr.util = true →
      σ ⟨path, .minStart⟩ ≤ resolveTV σ x.2.pr.start ∧ resolveTV σ x.2.pr.stop ≤ σ ⟨path, .minEnd⟩ := by
  intro x hx hu
  have hmem : (x.1, x.2.pr) ∈ minChildren ctx path cs := List.mem_map.mpr ⟨x, hx, rfl⟩
  have ⟨h1, h2⟩ := minFold_cons name ⟨path, .minStart⟩ ⟨path, .minEnd⟩ (minChildren ctx path cs) {} _ hmem hu
  have r1 := hc _ (minAcc_cons_sub ctx path name cs _ h1)
  have r2 := hc _ (minAcc_cons_sub ctx path name cs _ h2)
  simp only [Constr.holds, decide_eq_true_eq, evalTerms_append] at r1 r2
  simp only [evalTerms, List.map_cons, List.map_nil, List.sum_cons, List.sum_nil] at r1 r2
  have e1 := tvTerm_eval σ 1 x.2.pr.start
  have e2 := tvTerm_eval σ 1 x.2.pr.stop
  simp only [evalTerms] at e1 e2
  constructor <;> omega


/-- Weighted contribution of a child to the start / end rows of its `Max`. -/
def wStart (σ : Assign) (r : PR) : Int := if r.util then tvConst r.start * resolveTV σ r.ind else 0
def wEnd (σ : Assign) (r : PR) : Int := if r.util then tvConst r.stop * resolveTV σ r.ind else 0

theorem maxFold_st_en (σ : Assign) (children : List PR) : ∀ acc : MaxAcc,
    evalTerms σ (children.foldl maxStep acc).st - (children.foldl maxStep acc).stRhs
      = evalTerms σ acc.st - acc.stRhs + sumBy (wStart σ) children ∧
    evalTerms σ (children.foldl maxStep acc).en - (children.foldl maxStep acc).enRhs
      = evalTerms σ acc.en - acc.enRhs + sumBy (wEnd σ) children := by
  induction children with
  | nil => intro acc; simp
  | cons r rs ih =>
    intro acc
    simp only [List.foldl_cons, sumBy_cons]
    have := ih (maxStep acc r)
    rw [this.1, this.2]
    unfold maxStep wStart wEnd
    by_cases hu : r.util = true
    · simp only [hu, Bool.not_true, Bool.false_eq_true, if_false, if_true, evalTerms_append]
      have e1 := tvTerm_eval σ (tvConst r.start) r.ind
      have e2 := tvTerm_eval σ (tvConst r.stop) r.ind
      constructor <;> omega
    · simp [hu]

/-- If the indicators are non-negative and sum to 1, the weighted sum is the weight of the
child whose indicator is 1. -/
theorem weighted_pick (σ : Assign) (w : PR → Int) (l : List PR)
    (hnn : ∀ r ∈ l, 0 ≤ indTerm σ r) (hsum : sumBy (indTerm σ) l = 1) :
    ∀ r ∈ l, indTerm σ r = 1 →
      sumBy (fun x => if x.util then w x * resolveTV σ x.ind else 0) l = w r := by
  induction l with
  | nil => intro r hr; simp at hr
  | cons y ys ih =>
    intro r hr h1
    simp only [sumBy_cons] at hsum ⊢
    have hy := hnn y (by simp)
    have hys : 0 ≤ sumBy (indTerm σ) ys := sumBy_nonneg _ _ (fun z hz => hnn z (by simp [hz]))
    have zero_tail : sumBy (indTerm σ) ys = 0 →
        sumBy (fun x => if x.util then w x * resolveTV σ x.ind else 0) ys = 0 := by
      intro h0
      apply sumBy_zero
      intro z hz
      have hz0 : indTerm σ z = 0 := by
        have hzn := hnn z (by simp [hz])
        have := sumBy_mem_le (indTerm σ) ys (fun a ha => hnn a (by simp [ha])) z hz
        omega
      unfold indTerm at hz0
      by_cases hu : z.util = true
      · simp [hu] at hz0; simp [hu, hz0]
      · simp [hu]
    rcases List.mem_cons.mp hr with rfl | hr
    · -- the head is the chosen one
      have : sumBy (indTerm σ) ys = 0 := by omega
      rw [zero_tail this]
      unfold indTerm at h1
      by_cases hu : r.util = true
      · simp [hu] at h1; simp [hu, h1]
      · simp [hu] at h1
    · have hge : 1 ≤ sumBy (indTerm σ) ys := by
        have := sumBy_mem_le (indTerm σ) ys (fun a ha => hnn a (by simp [ha])) r hr
        omega
      have hy0 : indTerm σ y = 0 := by omega
      have := ih (fun z hz => hnn z (by simp [hz])) (by omega) r hr h1
      rw [this]
      unfold indTerm at hy0
      by_cases hu : y.util = true
      · simp [hu] at hy0; simp [hu, hy0]
      · simp [hu]


theorem choose_pl_info (ctx : Ctx) (σ : Assign) (path : Path) (e : Expr) (he : isLeafChoose e = true)
    (hv : ∀ v ∈ (compileNode ctx path e).vars, Var.holds σ v = true) :
    0 ≤ indTerm σ (compileNode ctx path e).pr ∧
    ((compileNode ctx path e).pr.util = true →
      tvConst (compileNode ctx path e).pr.start ≤ tvConst (compileNode ctx path e).pr.stop ∧
      resolveTV σ (compileNode ctx path e).pr.start = tvConst (compileNode ctx path e).pr.start ∧
      resolveTV σ (compileNode ctx path e).pr.stop = tvConst (compileNode ctx path e).pr.stop) ∧
    ∀ pl ∈ (populateNode ctx σ path e).placements,
      (compileNode ctx path e).pr.util = true ∧ indTerm σ (compileNode ctx path e).pr = 1 ∧
      pl.start = tvConst (compileNode ctx path e).pr.start ∧ pl.stop = tvConst (compileNode ctx path e).pr.stop := by
  cases e with
  | choose name strategy parts n start dur u =>
    simp only [populateNode, compileNode] at hv ⊢
    unfold compileChoose at hv ⊢
    unfold indTerm
    by_cases h1 : ctx.now > start
    · simp [h1, baseSol, PR.none, Sol.none]
    · simp only [h1, if_false] at hv ⊢
      by_cases h2 : (schedulable ctx parts).isEmpty = true
      · simp [h2, baseSol, PR.none, Sol.none]
      · simp only [h2] at hv ⊢
        simp only [Bool.false_eq_true, if_false] at hv ⊢
        have hind := hv ⟨⟨path, .placed⟩, chooseVarName name start strategy, .bin, some 0, .none⟩ (by simp)
        simp [Var.holds] at hind
        simp only [baseSol, Bool.not_true, Bool.false_eq_true, if_false, mergeChildren, List.foldl_nil,
          if_true, resolveTV, tvConst]
        refine ⟨hind.1, fun _ => ⟨by omega, trivial, trivial⟩, ?_⟩
        split
        · simp
        · rename_i hu
          have hne : σ ⟨path, .placed⟩ ≠ 0 := by
            intro h0
            apply hu
            simp [evalU, h0]
          intro pl hpl
          have hpl := List.mem_singleton.mp hpl
          subst hpl
          exact ⟨trivial, by omega, rfl, rfl⟩
  | _ => simp [isLeafChoose] at he

/-- Children of a `Max`, in lock step: facts about the parse results, and where every
placement of every child solution comes from. -/
theorem maxList_info (ctx : Ctx) (σ : Assign) : ∀ (cs : List Expr) (path : Path) (i : Nat),
    cs.all isLeafChoose = true →
    (∀ v ∈ (compileList ctx path i cs).flatMap (·.2.vars), Var.holds σ v = true) →
    (∀ r ∈ (compileList ctx path i cs).map (·.2.pr), 0 ≤ indTerm σ r ∧
      (r.util = true → tvConst r.start ≤ tvConst r.stop)) ∧
    ∀ s ∈ populateList ctx σ path i cs, ∀ pl ∈ s.placements,
      ∃ r ∈ (compileList ctx path i cs).map (·.2.pr), r.util = true ∧ indTerm σ r = 1 ∧
        pl.start = tvConst r.start ∧ pl.stop = tvConst r.stop
  | [], _, _, _, _ => by simp [populateList, compileList]
  | e :: es, path, i, hcs, hv => by
    simp only [List.all_cons, Bool.and_eq_true] at hcs
    simp only [compileList, List.flatMap_cons] at hv
    have h1 := choose_pl_info ctx σ (i :: path) e hcs.1 (fun v h => hv v (List.mem_append_left _ h))
    have h2 := maxList_info ctx σ es path (i + 1) hcs.2 (fun v h => hv v (List.mem_append_right _ h))
    simp only [populateList, compileList, List.map_cons]
    constructor
    · intro r hr
      rcases List.mem_cons.mp hr with rfl | hr
      · exact ⟨h1.1, fun hu => (h1.2.1 hu).1⟩
      · exact h2.1 r hr
    · intro s hs pl hpl
      rcases List.mem_cons.mp hs with rfl | hs
      · exact ⟨_, by simp, h1.2.2 pl hpl⟩
      · obtain ⟨r, hr, hrest⟩ := h2.2 s hs pl hpl
        exact ⟨r, by simp [hr], hrest⟩


theorem max_rows_mem (ctx : Ctx) (path : Path) (name : String) (cs : List Expr) :
    (⟨name ++ "_max_start_time_constr", .ge,
        (((compileList ctx path 0 cs).map (·.2.pr)).foldl maxStep {}).stRhs
          - (((compileList ctx path 0 cs).map (·.2.pr)).foldl maxStep {}).sLo,
        (((compileList ctx path 0 cs).map (·.2.pr)).foldl maxStep {}).st ++
          [(-(((compileList ctx path 0 cs).map (·.2.pr)).foldl maxStep {}).sLo, ⟨path, .maxInd⟩),
           (-1, ⟨path, .maxStart⟩)]⟩ : Constr) ∈ (compileNode ctx path (.max name cs)).cons ∧
    (⟨name ++ "_max_end_time_constr", .le,
        (((compileList ctx path 0 cs).map (·.2.pr)).foldl maxStep {}).enRhs,
        (((compileList ctx path 0 cs).map (·.2.pr)).foldl maxStep {}).en ++ [(-1, ⟨path, .maxEnd⟩)]⟩ : Constr)
      ∈ (compileNode ctx path (.max name cs)).cons ∧
    (compileNode ctx path (.max name cs)).pr.start = .var ⟨path, .maxStart⟩ ∧
    (compileNode ctx path (.max name cs)).pr.stop = .var ⟨path, .maxEnd⟩ := by
  simp only [compileNode, finishMax]
  refine ⟨?_, ?_, trivial, trivial⟩
  · apply List.mem_append_right; simp
  · apply List.mem_append_right; simp

theorem exists_one_of_sum_one {α : Type} (f : α → Int) (l : List α) (hnn : ∀ a ∈ l, 0 ≤ f a)
    (hsum : sumBy f l = 1) : ∃ a ∈ l, f a = 1 := by
  induction l with
  | nil => simp at hsum
  | cons y ys ih =>
    simp only [sumBy_cons] at hsum
    have hy := hnn y (by simp)
    have hys : 0 ≤ sumBy f ys := sumBy_nonneg _ _ (fun z hz => hnn z (by simp [hz]))
    by_cases h : f y = 1
    · exact ⟨y, by simp, h⟩
    · have : f y = 0 := by omega
      obtain ⟨a, ha, h1⟩ := ih (fun z hz => hnn z (by simp [hz])) (by omega)
      exact ⟨a, by simp [ha], h1⟩

/-- A satisfied `Max` (indicator 1): its start / end variables enclose the chosen child. -/
theorem max_span (ctx : Ctx) (σ : Assign) (path : Path) (name : String) (cs : List Expr)
    (hcs : cs.all isLeafChoose = true)
    (hv : ∀ v ∈ (compileNode ctx path (.max name cs)).vars, Var.holds σ v = true)
    (hc : ∀ c ∈ (compileNode ctx path (.max name cs)).cons, Constr.holds σ c = true)
    (h1 : σ ⟨path, .maxInd⟩ = 1) :
    σ ⟨path, .maxStart⟩ ≤ σ ⟨path, .maxEnd⟩ ∧
    ∀ pl ∈ (populateNode ctx σ path (.max name cs)).placements,
      σ ⟨path, .maxStart⟩ ≤ pl.start ∧ pl.stop ≤ σ ⟨path, .maxEnd⟩ := by
  have ⟨_, hmc⟩ := max_pr_vars_cons ctx path name cs
  have ⟨hS, hE, _, _⟩ := max_rows_mem ctx path name cs
  have rC := hc _ hmc
  have rS := hc _ hS
  have rE := hc _ hE
  simp only [Constr.holds, decide_eq_true_eq, evalTerms_append] at rC rS rE
  simp only [evalTerms, List.map_cons, List.map_nil, List.sum_cons, List.sum_nil, h1] at rC rS rE
  have hsub := maxFold_sub σ ((compileList ctx path 0 cs).map (·.2.pr)) {}
  have hse := maxFold_st_en σ ((compileList ctx path 0 cs).map (·.2.pr)) {}
  simp only [evalTerms, List.map_nil, List.sum_nil] at hsub hse
  have hinfo := maxList_info ctx σ cs path 0 hcs (fun v h => hv v (max_vars ctx path name cs v h))
  have hnn : ∀ r ∈ (compileList ctx path 0 cs).map (·.2.pr), 0 ≤ indTerm σ r := fun r hr => (hinfo.1 r hr).1
  have hsum : sumBy (indTerm σ) ((compileList ctx path 0 cs).map (·.2.pr)) = 1 := by omega
  have pickS := weighted_pick σ (fun x => tvConst x.start) _ hnn hsum
  have pickE := weighted_pick σ (fun x => tvConst x.stop) _ hnn hsum
  have hws : sumBy (wStart σ) ((compileList ctx path 0 cs).map (·.2.pr))
      = sumBy (fun x => if x.util then tvConst x.start * resolveTV σ x.ind else 0) ((compileList ctx path 0 cs).map (·.2.pr)) := rfl
  have hwe : sumBy (wEnd σ) ((compileList ctx path 0 cs).map (·.2.pr))
      = sumBy (fun x => if x.util then tvConst x.stop * resolveTV σ x.ind else 0) ((compileList ctx path 0 cs).map (·.2.pr)) := rfl
  constructor
  · obtain ⟨r, hr, hr1⟩ := exists_one_of_sum_one _ _ hnn hsum
    have hru : r.util = true := by
      unfold indTerm at hr1
      by_cases hu : r.util = true
      · exact hu
      · simp [hu] at hr1
    have := (hinfo.1 r hr).2 hru
    have := pickS r hr hr1
    have := pickE r hr hr1
    simp only at *
    omega
  · intro pl hpl
    simp only [populateNode] at hpl
    obtain ⟨s, hs, hps⟩ := mem_baseSol _ _ _ _ hpl
    obtain ⟨r, hr, _, hr1, hst, hen⟩ := hinfo.2 s hs pl hps
    have := pickS r hr hr1
    have := pickE r hr hr1
    simp only at *
    omega


def childrenSpan (ctx : Ctx) (σ : Assign) (path : Path) : Nat → List Expr → Prop
  | _, [] => True
  | i, e :: es => Span ctx σ (i :: path) e ∧ childrenSpan ctx σ path (i + 1) es

theorem children_span_use (ctx : Ctx) (σ : Assign) (path : Path) (lo hi : Int) :
    ∀ (cs : List Expr) (i : Nat), childrenSpan ctx σ path i cs →
    (∀ x ∈ compileList ctx path i cs, x.2.pr.util = true ∧ indVal σ x.2.pr = 1 ∧
      lo ≤ resolveTV σ x.2.pr.start ∧ resolveTV σ x.2.pr.stop ≤ hi) →
    (∀ x ∈ compileList ctx path i cs, resolveTV σ x.2.pr.start ≤ resolveTV σ x.2.pr.stop) ∧
    ∀ s ∈ populateList ctx σ path i cs, ∀ pl ∈ s.placements, lo ≤ pl.start ∧ pl.stop ≤ hi
  | [], _, _, _ => by simp [compileList, populateList]
  | e :: es, i, hsp, hx => by
    simp only [childrenSpan] at hsp
    simp only [compileList] at hx
    have hhead := hx (e.name, compileNode ctx (i :: path) e) (by simp)
    have ⟨s1, s2⟩ := hsp.1 hhead.1 hhead.2.1
    have hrest := children_span_use ctx σ path lo hi es (i + 1) hsp.2 (fun x h => hx x (by simp [h]))
    simp only [compileList, populateList]
    constructor
    · intro x hxm
      rcases List.mem_cons.mp hxm with rfl | hxm
      · exact s1
      · exact hrest.1 x hxm
    · intro s hs pl hpl
      rcases List.mem_cons.mp hs with rfl | hs
      · have := s2 pl hpl
        have h3 := hhead.2.2
        simp only at h3
        omega
      · exact hrest.2 s hs pl hpl

theorem min_span (ctx : Ctx) (σ : Assign) (path : Path) (name : String) (cs : List Expr)
    (hne : cs ≠ [])
    (hok : childrenOK ctx σ path 0 cs) (hsp : childrenSpan ctx σ path 0 cs)
    (hc : ∀ c ∈ (compileNode ctx path (.min name cs)).cons, Constr.holds σ c = true) :
    Span ctx σ path (.min name cs) := by
  intro hu h1
  have hsat := min_children_sat ctx σ path name cs hok hc hu h1
  have hrows := min_rows ctx σ path name cs hc
  have hpr : (compileNode ctx path (.min name cs)).pr.start = .var ⟨path, .minStart⟩ ∧
      (compileNode ctx path (.min name cs)).pr.stop = .var ⟨path, .minEnd⟩ := by
    have : (compileNode ctx path (.min name cs)).pr.util = true := hu
    simp only [compileNode, finishMin] at this ⊢
    split at this
    · split at this
      · rename_i h0 hall; simp [h0, hall]
      · simp [PR.none] at this
    · split at this
      · rename_i h0 hall; simp [h0, hall]
      · simp [PR.none] at this
  rw [hpr.1, hpr.2]
  simp only [resolveTV]
  have huse := children_span_use ctx σ path (σ ⟨path, .minStart⟩) (σ ⟨path, .minEnd⟩) cs 0 hsp (by
    intro x hx
    have := hsat x hx
    have := hrows x hx this.1
    exact ⟨(hsat x hx).1, (hsat x hx).2, this.1, this.2⟩)
  constructor
  · cases cs with
    | nil => exact absurd rfl hne
    | cons e es =>
      have hmem : (e.name, compileNode ctx (0 :: path) e) ∈ compileList ctx path 0 (e :: es) := by
        simp [compileList]
      have := huse.1 _ hmem
      have := hrows _ hmem (hsat _ hmem).1
      omega
  · intro pl hpl
    simp only [populateNode] at hpl
    obtain ⟨s, hs, hps⟩ := mem_baseSol _ _ _ _ hpl
    exact huse.2 s hs pl hps


theorem lt_span (ctx : Ctx) (σ : Assign) (path : Path) (name : String) (a b : Expr)
    (hns : ¬((compileNode ctx (0 :: path) a).pr.util = true ∧ (compileNode ctx (1 :: path) b).pr.util = true ∧
      isConst (compileNode ctx (0 :: path) a).pr.stop = true ∧ isConst (compileNode ctx (1 :: path) b).pr.start = true))
    (ha : IndOK σ (compileNode ctx (0 :: path) a).pr) (hb : IndOK σ (compileNode ctx (1 :: path) b).pr)
    (hsa : Span ctx σ (0 :: path) a) (hsb : Span ctx σ (1 :: path) b)
    (hc : ∀ c ∈ (compileNode ctx path (.lt name a b)).cons, Constr.holds σ c = true) :
    Span ctx σ path (.lt name a b) := by
  unfold Span at hsa hsb ⊢
  simp only [populateNode]
  simp only [compileNode] at hc ⊢
  generalize hpa : (compileNode ctx (0 :: path) a).pr = pa at *
  generalize hpb : (compileNode ctx (1 :: path) b).pr = pb at *
  unfold finishLt at hc ⊢
  by_cases hu : (pa.util && pb.util) = true
  · have hua : pa.util = true := by simp at hu; exact hu.1
    have hub : pb.util = true := by simp at hu; exact hu.2
    have hst : (isConst pa.stop && isConst pb.start) = false := by
      cases h : (isConst pa.stop && isConst pb.start) with
      | false => rfl
      | true => simp at h; exact absurd ⟨hua, hub, h.1, h.2⟩ hns
    simp only [hu, Bool.not_true, Bool.false_eq_true, if_false, hst] at hc ⊢
    intro _ h1
    simp only [indVal, resolveTV] at h1
    -- both children are satisfied
    have hrow := hc ⟨name ++ "_less_than_indicator_constraint", .eq, 0,
      (indTermOf pa.ind).1 ++ (indTermOf pb.ind).1 ++
        [(-(Int.ofNat ((indTermOf pa.ind).2 + (indTermOf pb.ind).2)), ⟨path, .ltSat⟩)]⟩ (by simp)
    simp only [Constr.holds, decide_eq_true_eq, evalTerms_append, evalTerms_indTermOf σ pa hua,
      evalTerms_indTermOf σ pb hub] at hrow
    simp only [evalTerms, List.map_cons, List.map_nil, List.sum_cons, List.sum_nil, h1] at hrow
    have ⟨la, ea⟩ := indTermOf_count_le σ pa ha hua
    have ⟨lb, eb⟩ := indTermOf_count_le σ pb hb hub
    simp only [Int.ofNat_eq_natCast, Int.natCast_add] at hrow
    have sa := hsa hua (ea (by omega))
    have sb := hsb hub (eb (by omega))
    -- the order row
    have horder := hc ⟨name ++ "_happens_before_constraint", .le,
      0 + (tvTerm 1 pa.stop).2 + (tvTerm (-1) pb.start).2, (tvTerm 1 pa.stop).1 ++ (tvTerm (-1) pb.start).1⟩ (by simp)
    simp only [Constr.holds, decide_eq_true_eq, evalTerms_append] at horder
    have e1 := tvTerm_eval σ 1 pa.stop
    have e2 := tvTerm_eval σ (-1) pb.start
    constructor
    · omega
    · intro pl hpl
      obtain ⟨s, hs, hps⟩ := mem_baseSol _ _ _ _ hpl
      simp only [List.mem_cons, List.not_mem_nil, or_false] at hs
      rcases hs with rfl | rfl
      · have := sa.2 pl hps; omega
      · have := sb.2 pl hps; omega
  · have hu' : (pa.util && pb.util) = false := by simpa using hu
    simp only [hu', Bool.not_false, if_true]
    intro h; simp [PR.none] at h

theorem lt_order (ctx : Ctx) (σ : Assign) (path : Path) (name : String) (a b : Expr)
    (hns : ¬((compileNode ctx (0 :: path) a).pr.util = true ∧ (compileNode ctx (1 :: path) b).pr.util = true ∧
      isConst (compileNode ctx (0 :: path) a).pr.stop = true ∧ isConst (compileNode ctx (1 :: path) b).pr.start = true))
    (ha : IndOK σ (compileNode ctx (0 :: path) a).pr) (hb : IndOK σ (compileNode ctx (1 :: path) b).pr)
    (hsa : Span ctx σ (0 :: path) a) (hsb : Span ctx σ (1 :: path) b)
    (hc : ∀ c ∈ (compileNode ctx path (.lt name a b)).cons, Constr.holds σ c = true) :
    LtOrder ctx σ path name a b := by
  unfold Span at hsa hsb
  unfold LtOrder
  simp only [compileNode] at hc ⊢
  generalize hpa : (compileNode ctx (0 :: path) a).pr = pa at *
  generalize hpb : (compileNode ctx (1 :: path) b).pr = pb at *
  unfold finishLt at hc ⊢
  by_cases hu : (pa.util && pb.util) = true
  · have hua : pa.util = true := by simp at hu; exact hu.1
    have hub : pb.util = true := by simp at hu; exact hu.2
    have hst : (isConst pa.stop && isConst pb.start) = false := by
      cases h : (isConst pa.stop && isConst pb.start) with
      | false => rfl
      | true => simp at h; exact absurd ⟨hua, hub, h.1, h.2⟩ hns
    simp only [hu, Bool.not_true, Bool.false_eq_true, if_false, hst] at hc ⊢
    intro _ h1
    simp only [indVal, resolveTV] at h1
    -- both children are satisfied
    have hrow := hc ⟨name ++ "_less_than_indicator_constraint", .eq, 0,
      (indTermOf pa.ind).1 ++ (indTermOf pb.ind).1 ++
        [(-(Int.ofNat ((indTermOf pa.ind).2 + (indTermOf pb.ind).2)), ⟨path, .ltSat⟩)]⟩ (by simp)
    simp only [Constr.holds, decide_eq_true_eq, evalTerms_append, evalTerms_indTermOf σ pa hua,
      evalTerms_indTermOf σ pb hub] at hrow
    simp only [evalTerms, List.map_cons, List.map_nil, List.sum_cons, List.sum_nil, h1] at hrow
    have ⟨la, ea⟩ := indTermOf_count_le σ pa ha hua
    have ⟨lb, eb⟩ := indTermOf_count_le σ pb hb hub
    simp only [Int.ofNat_eq_natCast, Int.natCast_add] at hrow
    have sa := hsa hua (ea (by omega))
    have sb := hsb hub (eb (by omega))
    -- the order row
    have horder := hc ⟨name ++ "_happens_before_constraint", .le,
      0 + (tvTerm 1 pa.stop).2 + (tvTerm (-1) pb.start).2, (tvTerm 1 pa.stop).1 ++ (tvTerm (-1) pb.start).1⟩ (by simp)
    simp only [Constr.holds, decide_eq_true_eq, evalTerms_append] at horder
    have e1 := tvTerm_eval σ 1 pa.stop
    have e2 := tvTerm_eval σ (-1) pb.start
    intro qa hqa qb hqb
    have := sa.2 qa hqa
    have := sb.2 qb hqb
    omega
  · have hu' : (pa.util && pb.util) = false := by simpa using hu
    simp only [hu', Bool.not_false, if_true]
    intro h; simp [PR.none] at h

theorem scale_span (ctx : Ctx) (σ : Assign) (path : Path) (name : String) (f : Int) (d : Bool) (c : Expr)
    (hsc : Span ctx σ (0 :: path) c) : Span ctx σ path (.scale name f d c) := by
  unfold Span at hsc ⊢
  simp only [populateNode]
  simp only [compileNode]
  generalize (compileNode ctx (0 :: path) c).pr = pc at *
  unfold finishScale
  by_cases hu : pc.util = true
  · simp only [hu, Bool.not_true, Bool.false_eq_true, if_false]
    have key : ∀ pr', indVal σ pc = 1 →
        resolveTV σ pc.start ≤ resolveTV σ pc.stop ∧
        ∀ pl ∈ (baseSol σ pr' [populateNode ctx σ (0 :: path) c]).placements,
          resolveTV σ pc.start ≤ pl.start ∧ pl.stop ≤ resolveTV σ pc.stop := by
      intro pr' h1
      have ⟨s1, s2⟩ := hsc hu h1
      refine ⟨s1, ?_⟩
      intro pl hpl
      obtain ⟨s, hs, hps⟩ := mem_baseSol _ _ _ _ hpl
      simp only [List.mem_cons, List.not_mem_nil, or_false] at hs
      subst hs
      exact s2 pl hps
    by_cases hd : d = true
    · simp only [hd, if_true]
      intro _ h1
      exact key _ (by simpa [indVal] using h1)
    · simp only [hd, Bool.false_eq_true, if_false]
      intro _ h1
      exact key _ (by simpa [indVal] using h1)
  · have hu' : pc.util = false := by simpa using hu
    simp only [hu', Bool.not_false, if_true]
    intro h; simp [PR.none] at h


theorem forallNodes_here (P : Path → Expr → Prop) (path : Path) (e : Expr)
    (h : forallNodes P path e) : P path e := by
  cases e <;> simp only [forallNodes] at h
  · exact h
  · exact h
  · exact h.1
  · exact h.1
  · exact h.1
  · exact h.1
  · exact h.1

/-- Leaf Chooses (the children of a `Max`): their span clause needs only the variable bounds. -/
theorem leaves_span (ctx : Ctx) (σ : Assign) : ∀ (cs : List Expr) (path : Path) (i : Nat),
    cs.all isLeafChoose = true →
    (∀ v ∈ (compileList ctx path i cs).flatMap (·.2.vars), Var.holds σ v = true) →
    forallNodesL (spanClause ctx σ) path i cs
  | [], _, _, _, _ => by simp [forallNodesL]
  | e :: es, path, i, hcs, hv => by
    simp only [List.all_cons, Bool.and_eq_true] at hcs
    simp only [compileList, List.flatMap_cons] at hv
    simp only [forallNodesL]
    refine ⟨?_, leaves_span ctx σ es path (i + 1) hcs.2 (fun v h => hv v (List.mem_append_right _ h))⟩
    cases e with
    | choose name strategy parts n start dur u =>
      simp only [forallNodes, spanClause]
      refine ⟨?_, trivial⟩
      have h := choose_pl_info ctx σ (i :: path) (.choose name strategy parts n start dur u) rfl
        (fun v h => hv v (List.mem_append_left _ h))
      intro hu _
      obtain ⟨t1, t2, t3⟩ := h.2.1 hu
      rw [t2, t3]
      refine ⟨t1, ?_⟩
      intro pl hpl
      obtain ⟨_, _, p1, p2⟩ := h.2.2 pl hpl
      omega
    | _ => simp [isLeafChoose] at hcs

mutual
theorem node_span (ctx : Ctx) (σ : Assign) :
    ∀ (e : Expr) (path : Path), buildErr e = none → wfNode ctx path e = none →
      noStaticLt ctx path e = true →
      (∀ v ∈ (compileNode ctx path e).vars, Var.holds σ v = true) →
      (∀ c ∈ (compileNode ctx path e).cons, Constr.holds σ c = true) →
      forallNodes (spanClause ctx σ) path e
  | .choose name strategy parts n start dur u, path, _, _, _, hv, _ => by
    simp only [forallNodes, spanClause]
    refine ⟨?_, trivial⟩
    have h := choose_pl_info ctx σ path (.choose name strategy parts n start dur u) rfl hv
    intro hu _
    obtain ⟨t1, t2, t3⟩ := h.2.1 hu
    rw [t2, t3]
    refine ⟨t1, ?_⟩
    intro pl hpl
    obtain ⟨_, _, p1, p2⟩ := h.2.2 pl hpl
    omega
  | .alloc name allocs start dur, path, _, _, _, _, _ => by
    simp only [forallNodes, spanClause]
    refine ⟨?_, trivial⟩
    intro _ _
    simp only [compileNode, compileAlloc, populateNode, baseSol, mergeChildren, resolveTV]
    refine ⟨by omega, by simp⟩
  | .obj name cs, path, _, hw, _, _, _ => by
    simp [wfNode] at hw
  | .min name cs, path, hb, hw, hn, hv, hc => by
    simp only [forallNodes, spanClause]
    simp only [buildErr] at hb
    simp only [noStaticLt] at hn
    simp only [wfNode] at hw
    have hne : cs ≠ [] := by
      intro h; subst h; simp at hw
    have hwl : wfList ctx path 0 cs = none := by
      split at hw
      · simp at hw
      · exact hw
    have hv' := fun v h => hv v (min_vars ctx path name cs v h)
    have hc' := fun c h => hc c (min_cons ctx path name cs c h)
    have hl := list_span ctx σ cs path 0 hb hwl hn hv' hc'
    exact ⟨⟨min_span ctx σ path name cs hne (list_quiet ctx σ cs path 0 hb hn hv' hc') hl.1 hc, trivial⟩, hl.2⟩
  | .max name cs, path, hb, hw, hn, hv, hc => by
    simp only [forallNodes, spanClause]
    simp only [buildErr] at hb
    simp only [noStaticLt] at hn
    have hcs : cs.all isLeafChoose = true := by
      split at hb
      · simp at hb
      · split at hb
        · simp at hb
        · rename_i h; simpa using h
    have hbl : buildErrList cs = none := by
      split at hb
      · simp at hb
      · assumption
    -- the children of a Max are leaves: their clauses do not need the parse-time check
    have hl : forallNodesL (spanClause ctx σ) path 0 cs :=
      leaves_span ctx σ cs path 0 hcs (fun v h => hv v (max_vars ctx path name cs v h))
    refine ⟨⟨?_, trivial⟩, hl⟩
    intro hu h1
    have ⟨_, _, ps, pe⟩ := max_rows_mem ctx path name cs
    have hind : (compileNode ctx path (.max name cs)).pr.ind = .var ⟨path, .maxInd⟩ := by
      simp [compileNode, finishMax]
    rw [ps, pe]
    simp only [indVal, hind, resolveTV] at h1 ⊢
    exact max_span ctx σ path name cs hcs hv hc h1
  | .lt name a b, path, hb, hw, hn, hv, hc => by
    simp only [forallNodes, spanClause]
    simp only [buildErr] at hb
    have hba : buildErr a = none := by
      split at hb
      · simp at hb
      · assumption
    have hbb : buildErr b = none := by
      split at hb
      · simp at hb
      · exact hb
    simp only [wfNode] at hw
    have hwa : wfNode ctx (0 :: path) a = none := by
      split at hw
      · simp at hw
      · assumption
    have hwb : wfNode ctx (1 :: path) b = none := by
      split at hw
      · simp at hw
      · exact hw
    simp only [noStaticLt, Bool.and_eq_true, Bool.not_eq_true'] at hn
    obtain ⟨⟨hna, hnb⟩, hns⟩ := hn
    have hva := fun v h => hv v (lt_vars ctx path name a b v (Or.inl h))
    have hca := fun c h => hc c (lt_cons ctx path name a b c (Or.inl h))
    have hvb := fun v h => hv v (lt_vars ctx path name a b v (Or.inr h))
    have hcb := fun c h => hc c (lt_cons ctx path name a b c (Or.inr h))
    have sa := node_span ctx σ a (0 :: path) hba hwa hna hva hca
    have sb := node_span ctx σ b (1 :: path) hbb hwb hnb hvb hcb
    have qa := node_quiet ctx σ a (0 :: path) hba hna hva hca
    have qb := node_quiet ctx σ b (1 :: path) hbb hnb hvb hcb
    have hns' : ¬((compileNode ctx (0 :: path) a).pr.util = true ∧ (compileNode ctx (1 :: path) b).pr.util = true ∧
        isConst (compileNode ctx (0 :: path) a).pr.stop = true ∧ isConst (compileNode ctx (1 :: path) b).pr.start = true) := by
      rintro ⟨h1, h2, h3, h4⟩
      simp [h1, h2, h3, h4] at hns
    have spa : Span ctx σ (0 :: path) a := (forallNodes_here (spanClause ctx σ) (0 :: path) a sa).1
    have spb : Span ctx σ (1 :: path) b := (forallNodes_here (spanClause ctx σ) (1 :: path) b sb).1
    exact ⟨⟨lt_span ctx σ path name a b hns' qa.1 qb.1 spa spb hc,
      lt_order ctx σ path name a b hns' qa.1 qb.1 spa spb hc⟩, sa, sb⟩
  | .scale name f d c, path, hb, hw, hn, hv, hc => by
    simp only [forallNodes, spanClause]
    simp only [buildErr] at hb
    simp only [noStaticLt] at hn
    simp only [wfNode] at hw
    have sc := node_span ctx σ c (0 :: path) hb hw hn
      (fun v h => hv v (by simp only [compileNode]; exact h))
      (fun c' h => hc c' (by simp only [compileNode]; exact h))
    exact ⟨⟨scale_span ctx σ path name f d c (forallNodes_here (spanClause ctx σ) (0 :: path) c sc).1, trivial⟩, sc⟩
theorem list_span (ctx : Ctx) (σ : Assign) :
    ∀ (cs : List Expr) (path : Path) (i : Nat), buildErrList cs = none → wfList ctx path i cs = none →
      noStaticLtL ctx path i cs = true →
      (∀ v ∈ (compileList ctx path i cs).flatMap (·.2.vars), Var.holds σ v = true) →
      (∀ c ∈ (compileList ctx path i cs).flatMap (·.2.cons), Constr.holds σ c = true) →
      childrenSpan ctx σ path i cs ∧ forallNodesL (spanClause ctx σ) path i cs
  | [], _, _, _, _, _, _, _ => by simp [childrenSpan, forallNodesL]
  | e :: es, path, i, hb, hw, hn, hv, hc => by
    simp only [buildErrList] at hb
    simp only [wfList] at hw
    simp only [noStaticLtL, Bool.and_eq_true] at hn
    simp only [compileList, List.flatMap_cons] at hv hc
    have hbe : buildErr e = none := by
      split at hb
      · simp at hb
      · assumption
    have hbes : buildErrList es = none := by
      split at hb
      · simp at hb
      · exact hb
    have hwe : wfNode ctx (i :: path) e = none := by
      split at hw
      · simp at hw
      · assumption
    have hwes : wfList ctx path (i + 1) es = none := by
      split at hw
      · simp at hw
      · exact hw
    have h1 := node_span ctx σ e (i :: path) hbe hwe hn.1
      (fun v h => hv v (List.mem_append_left _ h)) (fun c h => hc c (List.mem_append_left _ h))
    have h2 := list_span ctx σ es path (i + 1) hbes hwes hn.2
      (fun v h => hv v (List.mem_append_right _ h)) (fun c h => hc c (List.mem_append_right _ h))
    simp only [childrenSpan, forallNodesL]
    exact ⟨⟨(forallNodes_here (spanClause ctx σ) (i :: path) e h1).1, h2.1⟩, h1, h2.2⟩
end

/-- A Choose whose indicator is 1 and whose utility is not 0 reports its placement. -/
theorem choose_placed (ctx : Ctx) (σ : Assign) (path : Path) (name strategy : String)
    (parts : List Nat) (n start dur : Nat) (u : Int) (hu : u ≠ 0)
    (hutil : (compileNode ctx path (.choose name strategy parts n start dur u)).pr.util = true)
    (h1 : indVal σ (compileNode ctx path (.choose name strategy parts n start dur u)).pr = 1) :
    ∃ allocs, (populateNode ctx σ path (.choose name strategy parts n start dur u)).placements
      = [⟨name, start, (start : Int) + dur, allocs⟩] := by
  simp only [populateNode, compileNode] at hutil h1 ⊢
  unfold compileChoose at hutil h1 ⊢
  by_cases h1' : ctx.now > start
  · simp [h1', PR.none] at hutil
  · simp only [h1', if_false] at hutil h1 ⊢
    by_cases h2 : (schedulable ctx parts).isEmpty = true
    · simp [h2, PR.none] at hutil
    · simp only [h2] at hutil h1 ⊢
      simp only [Bool.false_eq_true, if_false] at hutil h1 ⊢
      simp only [indVal, resolveTV] at h1
      simp only [baseSol, Bool.not_true, Bool.false_eq_true, if_false, mergeChildren, List.foldl_nil]
      have : ¬ ((some (evalU σ [(u, some (⟨path, .placed⟩ : VarId))]) == some 0) = true) := by
        simp [evalU, h1, hu]
      simp only [Bool.false_or, this]
      exact ⟨_, rfl⟩


end ErdosVerif.Strl
