import ErdosVerif.Lemmas.SimCensusBase
import ErdosVerif.Lemmas.GraphInv
/-!
Census against the task states, part 1: counting tasks by state, and what every operation
of the task / task-graph layer does to the counts.

* `isDone t` — the task is COMPLETED or EVICTED (`Task.is_complete()`); `isCanc t` — CANCELLED.
* `GraphS.cnt p g` — number of tasks of a graph satisfying `p`; `totalCnt p gs` — over a workload.
* A `Task` API call other than `finish` never changes `isDone`; other than `cancel` never
  changes `isCanc` (`call_done`, `call_canc`); a successful `finish` turns exactly one
  not-done task into a done one; a failed one changes nothing.
* `TaskGraph.cancel` / `notify_task_completion` never change the number of done tasks and
  raise the number of cancelled tasks by exactly the length of the list they report (when
  they do not raise; never lower it).
-/
namespace ErdosVerif.Model

def isDone (t : TaskS) : Bool := t.isComplete
def isCanc (t : TaskS) : Bool := t.state == .cancelled

theorem list_countP_set {α} (p : α → Bool) : ∀ (l : List α) (n : Nat) (x x' : α), l[n]? = some x →
    (l.set n x').countP p + (if p x then 1 else 0) = l.countP p + (if p x' then 1 else 0)
  | [], n, x, x', h => by simp at h
  | a :: l, 0, x, x', h => by
    simp only [List.getElem?_cons_zero, Option.some.injEq] at h
    subst h
    simp only [List.set_cons_zero, List.countP_cons]
    omega
  | a :: l, n + 1, x, x', h => by
    simp only [List.getElem?_cons_succ] at h
    have := list_countP_set p l n x x' h
    simp only [List.set_cons_succ, List.countP_cons]
    omega

theorem list_sum_set {α} (f : α → Nat) : ∀ (l : List α) (n : Nat) (x x' : α), l[n]? = some x →
    ((l.set n x').map f).sum + f x = (l.map f).sum + f x'
  | [], n, x, x', h => by simp at h
  | a :: l, 0, x, x', h => by
    simp only [List.getElem?_cons_zero, Option.some.injEq] at h
    subst h
    simp only [List.set_cons_zero, List.map_cons, List.sum_cons]
    omega
  | a :: l, n + 1, x, x', h => by
    simp only [List.getElem?_cons_succ] at h
    have := list_sum_set f l n x x' h
    simp only [List.set_cons_succ, List.map_cons, List.sum_cons]
    omega

namespace GraphS

/-- Number of tasks of the graph satisfying `p`. -/
def cnt (p : TaskS → Bool) (g : GraphS) : Nat := g.tasks.toList.countP p

theorem cnt_setTask (p : TaskS → Bool) (g : GraphS) (n : Nat) (x x' : TaskS) (h : g.task? n = some x) :
    cnt p (g.setTask n x') + (if p x then 1 else 0) = cnt p g + (if p x' then 1 else 0) := by
  unfold cnt setTask
  simp only [Array.toList_setIfInBounds]
  apply list_countP_set
  simpa [task?] using h

/-- Replacing a task by one with the same `p`-value keeps the count. -/
theorem cnt_setTask_same (p : TaskS → Bool) (g : GraphS) (n : Nat) (x x' : TaskS) (h : g.task? n = some x)
    (hp : p x' = p x) : cnt p (g.setTask n x') = cnt p g := by
  have := cnt_setTask p g n x x' h
  rw [hp] at this
  omega

theorem cnt_fresh_done (g : GraphS) (h : g.Fresh) : cnt isDone g = 0 := by
  unfold cnt
  rw [List.countP_eq_zero]
  intro t ht
  obtain ⟨i, hi, rfl⟩ := List.getElem_of_mem ht
  have := (h i g.tasks.toList[i] (by simp [task?])).1
  simp only [Array.getElem_toList] at this ⊢
  simp [isDone, TaskS.isComplete, this]

theorem cnt_fresh_canc (g : GraphS) (h : g.Fresh) : cnt isCanc g = 0 := by
  unfold cnt
  rw [List.countP_eq_zero]
  intro t ht
  obtain ⟨i, hi, rfl⟩ := List.getElem_of_mem ht
  have := (h i g.tasks.toList[i] (by simp [task?])).1
  simp only [Array.getElem_toList] at this ⊢
  simp [isCanc, this]

end GraphS

/-- Number of tasks of the workload satisfying `p`. -/
def totalCnt (p : TaskS → Bool) (gs : Array GraphS) : Nat := (gs.toList.map (GraphS.cnt p)).sum

theorem totalCnt_set (p : TaskS → Bool) (gs : Array GraphS) (gi : Nat) (g g' : GraphS) (h : gs[gi]? = some g) :
    totalCnt p (gs.setIfInBounds gi g') + g.cnt p = totalCnt p gs + g'.cnt p := by
  unfold totalCnt
  simp only [Array.toList_setIfInBounds]
  apply list_sum_set
  simpa using h

theorem totalCnt_set_same (p : TaskS → Bool) (gs : Array GraphS) (gi : Nat) (g g' : GraphS) (h : gs[gi]? = some g)
    (hc : g'.cnt p = g.cnt p) : totalCnt p (gs.setIfInBounds gi g') = totalCnt p gs := by
  have := totalCnt_set p gs gi g g' h
  omega

theorem totalCnt_push (p : TaskS → Bool) (gs : Array GraphS) (g : GraphS) :
    totalCnt p (gs.push g) = totalCnt p gs + g.cnt p := by
  simp [totalCnt]

theorem totalCnt_empty (p : TaskS → Bool) : totalCnt p #[] = 0 := rfl

theorem totalCnt_zero (p : TaskS → Bool) (gs : Array GraphS) (h : ∀ g ∈ gs.toList, g.cnt p = 0) : totalCnt p gs = 0 := by
  unfold totalCnt
  generalize gs.toList = l at h
  induction l with
  | nil => rfl
  | cons a l ih =>
    simp only [List.map_cons, List.sum_cons]
    rw [h a (List.mem_cons_self ..), ih (fun g hg => h g (List.mem_cons_of_mem _ hg))]

/-! ### the `Task` API -/

def TaskCall.isFinish : TaskCall → Bool
  | .finish _ => true
  | _ => false
def TaskCall.isCancel : TaskCall → Bool
  | .cancel _ => true
  | _ => false

theorem updateRemaining_done (t : TaskS) (r : Int) : isDone (t.updateRemaining r).1 = isDone t := by
  simp only [isDone, TaskS.isComplete, (updateRemaining_state t r).1]
theorem updateRemaining_canc (t : TaskS) (r : Int) : isCanc (t.updateRemaining r).1 = isCanc t := by
  simp only [isCanc, (updateRemaining_state t r).1]

theorem preOK_not_done (s : TState) (h : s = .virtual ∨ s = .released) :
    (s == .evicted || s == .completed) = false ∧ (s == .cancelled) = false := by
  rcases h with h | h <;> subst h <;> exact ⟨rfl, rfl⟩

/-- A call other than `finish` never changes whether the task is done. -/
theorem call_done (t : TaskS) (c : TaskCall) (h : t.PreOK) (hc : c.isFinish = false) :
    isDone (t.call c).1 = isDone t := by
  have hp := preOK_not_done t.pre h
  cases c with
  | finish time => cases hc
  | release time =>
    simp only [TaskS.call, TaskS.doRelease, isDone, TaskS.isComplete]
    split
    · rfl
    · split
      · rfl
      · cases time <;> simp only [] <;> split <;> simp_all <;>
          (cases hs : t.state <;> simp_all [TState.val] <;> rfl)
  | schedule time p =>
    simp only [TaskS.call, TaskS.doSchedule]
    split
    · rfl
    · rename_i hg
      cases p.strat with
      | none => cases hs : t.state <;> simp_all [isDone, TaskS.isComplete] <;> rfl
      | some st =>
        simp only [updateRemaining_done]
        cases hs : t.state <;> simp_all [isDone, TaskS.isComplete] <;> rfl
  | unschedule =>
    simp only [TaskS.call, TaskS.doUnschedule, isDone, TaskS.isComplete]
    split
    · rfl
    · rename_i hg
      have : t.state = .scheduled := by simpa using hg
      simp [this, hp.1]
  | start time fuzzed =>
    simp only [TaskS.call, TaskS.doStart]
    split
    · rfl
    · rename_i hg
      have hs : t.state = .scheduled := by simpa using hg
      split
      · rfl
      · split
        · simp [isDone, TaskS.isComplete, hs]
        · rw [updateRemaining_done]; simp [isDone, TaskS.isComplete, hs]; rfl
  | step now dt =>
    simp only [TaskS.call, TaskS.doStep, isDone, TaskS.isComplete]
    split
    · rfl
    · split
      · rfl
      · split
        · rfl
        · split <;> rfl
  | cancel time =>
    simp only [TaskS.call, TaskS.doCancel]
    split
    · rfl
    · cases hs : t.state <;> simp_all [isDone, TaskS.isComplete] <;> rfl
  | preempt =>
    simp only [TaskS.call, TaskS.doPreempt]
    split
    · rfl
    · rename_i hg
      have hs : t.state = .running := by simpa using hg
      simp [isDone, TaskS.isComplete, hs]; rfl
  | updateRemaining r => exact updateRemaining_done t r

/-- A call other than `cancel` never changes whether the task is cancelled. -/
theorem call_canc (t : TaskS) (c : TaskCall) (h : t.PreOK) (hc : c.isCancel = false) :
    isCanc (t.call c).1 = isCanc t := by
  have hp := preOK_not_done t.pre h
  cases c with
  | cancel time => cases hc
  | release time =>
    simp only [TaskS.call, TaskS.doRelease, isCanc]
    split
    · rfl
    · split
      · rfl
      · cases time <;> simp only [] <;> split <;> simp_all <;>
          (cases hs : t.state <;> simp_all [TState.val] <;> rfl)
  | schedule time p =>
    simp only [TaskS.call, TaskS.doSchedule]
    split
    · rfl
    · rename_i hg
      cases p.strat with
      | none => cases hs : t.state <;> simp_all [isCanc] <;> rfl
      | some st =>
        simp only [updateRemaining_canc]
        cases hs : t.state <;> simp_all [isCanc] <;> rfl
  | unschedule =>
    simp only [TaskS.call, TaskS.doUnschedule, isCanc]
    split
    · rfl
    · rename_i hg
      have : t.state = .scheduled := by simpa using hg
      simp [this, hp.2]
  | start time fuzzed =>
    simp only [TaskS.call, TaskS.doStart]
    split
    · rfl
    · rename_i hg
      have hs : t.state = .scheduled := by simpa using hg
      split
      · rfl
      · split
        · simp [isCanc, hs]
        · rw [updateRemaining_canc]; simp [isCanc, hs]; rfl
  | step now dt =>
    simp only [TaskS.call, TaskS.doStep, isCanc]
    split
    · rfl
    · split
      · rfl
      · split
        · rfl
        · split <;> rfl
  | finish time =>
    simp only [TaskS.call, TaskS.doFinish]
    split
    · rfl
    · cases hs : t.state <;> simp_all [isCanc] <;> (try split) <;> rfl
  | preempt =>
    simp only [TaskS.call, TaskS.doPreempt]
    split
    · rfl
    · rename_i hg
      have hs : t.state = .running := by simpa using hg
      simp [isCanc, hs]; rfl
  | updateRemaining r => exact updateRemaining_canc t r

/-- A refused `finish` changes nothing; an accepted one turns a task that was not done into
a done one. -/
theorem finish_done (t : TaskS) (time : Option Int) :
    ((t.doFinish time).2 = none → isDone (t.doFinish time).1 = true ∧ isDone t = false) ∧
    ((t.doFinish time).2 ≠ none → (t.doFinish time).1 = t) := by
  unfold TaskS.doFinish
  split
  · exact ⟨fun h => (by cases h), fun _ => rfl⟩
  · rename_i hg
    refine ⟨fun _ => ?_, fun h => absurd rfl h⟩
    cases hs : t.state <;> simp_all [isDone, TaskS.isComplete] <;>
      (by_cases hr : t.remaining = some 0 <;> simp [hr])

theorem doStart_done (t : TaskS) (time fuzzed : Int) : isDone (t.doStart time fuzzed).1 = isDone t := by
  simp only [TaskS.doStart]
  split
  · rfl
  · rename_i hg
    have hs : t.state = .scheduled := by simpa using hg
    split
    · rfl
    · split
      · simp [isDone, TaskS.isComplete, hs]
      · rw [updateRemaining_done]; simp [isDone, TaskS.isComplete, hs]; rfl

theorem doStart_canc (t : TaskS) (time fuzzed : Int) : isCanc (t.doStart time fuzzed).1 = isCanc t := by
  simp only [TaskS.doStart]
  split
  · rfl
  · rename_i hg
    have hs : t.state = .scheduled := by simpa using hg
    split
    · rfl
    · split
      · simp [isCanc, hs]
      · rw [updateRemaining_canc]; simp [isCanc, hs]; rfl

/-- An accepted `cancel` cancels a task that was neither cancelled nor done; a refused one
changes nothing. -/
theorem doCancel_counts (t : TaskS) (time : Int) (t' : TaskS) (e : Option SErr) (h : t.doCancel time = (t', e)) :
    (e = none → isCanc t' = true ∧ isCanc t = false ∧ isDone t' = false ∧ isDone t = false) ∧
    (e ≠ none → t' = t) := by
  unfold TaskS.doCancel at h
  split at h
  · simp only [Prod.mk.injEq] at h
    obtain ⟨rfl, rfl⟩ := h
    exact ⟨fun h => (by cases h), fun _ => rfl⟩
  · simp only [Prod.mk.injEq] at h
    obtain ⟨rfl, rfl⟩ := h
    refine ⟨fun _ => ?_, fun h => absurd rfl h⟩
    cases hs : t.state <;> simp_all [isCanc, isDone, TaskS.isComplete]

namespace GraphS

/-- What a cancellation walk does to the counts. -/
structure WalkCnt (g r : GraphS) (acc out : List Nat) (err : Option SErr) : Prop where
  done : cnt isDone r = cnt isDone g
  mono : cnt isCanc g ≤ cnt isCanc r
  exact : err = none → cnt isCanc r + acc.length = cnt isCanc g + out.length

theorem cancel_go_cnt (root : Nat) (time : Int) :
    ∀ (fuel : Nat) (g : GraphS) (stack visited acc : List Nat),
      WalkCnt g (cancel.go root time fuel g stack visited acc).g acc
        (cancel.go root time fuel g stack visited acc).cancelled (cancel.go root time fuel g stack visited acc).err := by
  intro fuel
  induction fuel with
  | zero =>
    intro g stack visited acc
    simp only [cancel.go]
    exact ⟨rfl, Nat.le_refl _, fun h => by cases h⟩
  | succ fuel ih =>
    intro g stack visited acc
    cases stack with
    | nil =>
      simp only [cancel.go]
      exact ⟨rfl, Nat.le_refl _, fun _ => by simp⟩
    | cons c stack =>
      simp only [cancel.go]
      split
      · exact ih g stack visited acc
      · cases htc : g.task? c with
        | none => exact ⟨rfl, Nat.le_refl _, fun h => by cases h⟩
        | some tc =>
          simp only []
          split
          · exact ih g stack visited acc
          · split
            · exact ih g stack (c :: visited) acc
            · cases hdc : tc.doCancel time with
              | mk t' e =>
                have hcnt := doCancel_counts tc time t' e hdc
                cases e with
                | some e =>
                  have : t' = tc := hcnt.2 (by simp)
                  subst this
                  simp only []
                  refine ⟨cnt_setTask_same _ g c t' t' htc rfl, ?_, fun h => by cases h⟩
                  rw [cnt_setTask_same _ g c t' t' htc rfl]
                  exact Nat.le_refl _
                | none =>
                  simp only []
                  obtain ⟨h1, h2, h3, h4⟩ := hcnt.1 rfl
                  have hd : cnt isDone (g.setTask c t') = cnt isDone g :=
                    cnt_setTask_same _ g c tc t' htc (by rw [h3, h4])
                  have hc : cnt isCanc (g.setTask c t') = cnt isCanc g + 1 := by
                    have := cnt_setTask isCanc g c tc t' htc
                    rw [h1, h2] at this
                    simpa using this
                  have := ih (g.setTask c t') ((g.kids c).reverse ++ stack) (c :: visited) (c :: acc)
                  refine ⟨this.done.trans hd, ?_, fun he => ?_⟩
                  · have := this.mono; omega
                  · have := this.exact he
                    simp only [List.length_cons] at this
                    omega

/-- `TaskGraph.cancel`: the number of done tasks is unchanged; the number of cancelled tasks
never decreases and, when the call does not raise, grows by the number of tasks it reports. -/
theorem cancel_cnt (g : GraphS) (n : Nat) (time : Int) :
    cnt isDone (g.cancel n time).g = cnt isDone g ∧ cnt isCanc g ≤ cnt isCanc (g.cancel n time).g ∧
    ((g.cancel n time).err = none → cnt isCanc (g.cancel n time).g = cnt isCanc g + (g.cancel n time).cancelled.length) := by
  have := cancel_go_cnt n time (g.size * g.size + g.size + 1) g [n] [] []
  unfold cancel
  exact ⟨this.done, this.mono, fun h => by simpa using this.exact h⟩

theorem cancelBranches_cnt (finish : Int) (skip : Option Nat) :
    ∀ (kids : List Nat) (g : GraphS) (acc : List Nat),
      WalkCnt g (cancelBranches g finish skip kids acc).1 acc (cancelBranches g finish skip kids acc).2.1
        (cancelBranches g finish skip kids acc).2.2 := by
  intro kids
  induction kids with
  | nil => intro g acc; exact ⟨rfl, Nat.le_refl _, fun _ => rfl⟩
  | cons c rest ih =>
    intro g acc
    simp only [cancelBranches]
    split
    · cases htc : g.task? c with
      | none => exact ih g acc
      | some tc =>
        simp only []
        have hd : cnt isDone (g.setTask c { tc with prob := 1000 }) = cnt isDone g := cnt_setTask_same _ g c tc _ htc rfl
        have hc : cnt isCanc (g.setTask c { tc with prob := 1000 }) = cnt isCanc g := cnt_setTask_same _ g c tc _ htc rfl
        have := ih (g.setTask c { tc with prob := 1000 }) acc
        exact ⟨this.done.trans hd, by rw [← hc]; exact this.mono, fun he => by rw [← hc]; exact this.exact he⟩
    · have hcc := cancel_cnt g c finish
      cases he : (g.cancel c finish).err with
      | some e =>
        simp only []
        exact ⟨hcc.1, hcc.2.1, fun h => by cases h⟩
      | none =>
        simp only []
        have := ih (g.cancel c finish).g (acc ++ (g.cancel c finish).cancelled)
        have hx := hcc.2.2 he
        refine ⟨this.done.trans hcc.1, Nat.le_trans hcc.2.1 this.mono, fun h => ?_⟩
        have := this.exact h
        simp only [List.length_append] at this
        omega

theorem notify_go_cancelled (g : GraphS) :
    ∀ (kids acc : List Nat) (tape : List Draw), (notifyCompletion.go g kids acc tape).cancelled = [] := by
  intro kids
  induction kids with
  | nil => intro acc tape; rfl
  | cons c rest ih =>
    intro acc tape
    simp only [notifyCompletion.go]
    cases g.task? c with
    | none => rfl
    | some tc =>
      simp only []
      split
      · rfl
      · split
        · exact ih acc tape
        · split
          · exact ih _ tape
          · exact ih acc tape

/-- The accounting of one call, as a predicate of its result. -/
def NotifyCnt (g : GraphS) (r : NotifyRes) : Prop :=
  cnt isDone r.g = cnt isDone g ∧ cnt isCanc g ≤ cnt isCanc r.g ∧
  (r.err = none → cnt isCanc r.g = cnt isCanc g + r.cancelled.length)

theorem notifyCnt_err (g : GraphS) (a b : List Nat) (e : SErr) (tp : List Draw) : NotifyCnt g ⟨g, a, b, some e, tp⟩ :=
  ⟨rfl, Nat.le_refl _, fun h => by cases h⟩

theorem notifyCnt_branches (g : GraphS) (finish : Int) (skip : Option Nat) (kids rel : List Nat) (tp : List Draw) :
    NotifyCnt g ⟨(cancelBranches g finish skip kids []).1, rel, (cancelBranches g finish skip kids []).2.1,
      (cancelBranches g finish skip kids []).2.2, tp⟩ := by
  have := cancelBranches_cnt finish skip kids g []
  exact ⟨this.done, this.mono, fun h => by simpa using this.exact h⟩

/-- `notify_task_completion`: same accounting. -/
theorem notifyCompletion_cnt (g : GraphS) (n : Nat) (finish : Int) (tape : List Draw) :
    NotifyCnt g (g.notifyCompletion n finish tape) := by
  unfold notifyCompletion
  cases g.task? n with
  | none => exact notifyCnt_err ..
  | some t =>
    simp only []
    split
    · exact notifyCnt_err ..
    · split
      · split
        · have := notifyCnt_branches g finish none (g.kids n) [] tape
          revert this
          cases cancelBranches g finish none (g.kids n) [] with
          | mk g' r => obtain ⟨a, b⟩ := r; intro hh; exact hh
        · split
          · exact notifyCnt_err ..
          · cases tape with
            | nil => exact notifyCnt_err ..
            | cons d tape' =>
              cases d with
              | choices i =>
                simp only []
                cases hk : (g.kids n)[i]? with
                | none => exact notifyCnt_err ..
                | some chosen =>
                  simp only []
                  split
                  · exact notifyCnt_err ..
                  · have h1 := notifyCnt_branches g finish (some chosen) (g.kids n) [] tape'
                    have h2 := notifyCnt_branches g finish (some chosen) (g.kids n) [chosen] tape'
                    revert h1 h2
                    cases cancelBranches g finish (some chosen) (g.kids n) [] with
                    | mk g' r =>
                      obtain ⟨a, b⟩ := r
                      intro h1 h2
                      cases b with
                      | some e => exact h1
                      | none => exact h2
              | choice i => exact notifyCnt_err ..
              | coin b => exact notifyCnt_err ..
              | fuzz v => exact notifyCnt_err ..
      · refine ⟨by rw [ginv_notify_go], by rw [ginv_notify_go]; exact Nat.le_refl _, fun _ => ?_⟩
        rw [ginv_notify_go, notify_go_cancelled]; rfl

end GraphS
end ErdosVerif.Model
