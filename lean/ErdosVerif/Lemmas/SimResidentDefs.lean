import ErdosVerif.Model.Sim
import ErdosVerif.Lemmas.Ledger
import ErdosVerif.Lemmas.CancelClosure
import ErdosVerif.Lemmas.TaskLegal
/-!
Residency and exact-runtime invariants of the simulator model — definitions and the
pure (non-monadic) lemmas.

The invariants are stated over *views* of the simulator state, so that most state
changes are frame steps:

* `views pools`   : per pool, per worker, the list of resident task ids (`_placed_tasks` keys);
* `pmaps pools`   : per pool, the pool-level map task ↦ worker index (`_placed_tasks` of the pool);
* `taskAt graphs` : task identity ↦ task record.

Core Lean only.
-/
namespace ErdosVerif.Model

/-! ### views -/

/-- Task lookup in the workload. -/
def taskAt (gs : Array GraphS) (t : TaskId) : Option TaskS := (gs[t.g]?).bind (·.task? t.t)

/-- Resident task ids of every worker of a pool. -/
def Pool.view (p : Pool) : List (List Nat) := p.workers.map (fun w => AList.keys w.placed)

def views (ps : Array Pool) : List (List (List Nat)) := ps.toList.map Pool.view
def pmaps (ps : Array Pool) : List (AList Nat Nat) := ps.toList.map (·.placed)

/-- Task id `n` is resident on worker `i` of pool `pi`. -/
def At (vs : List (List (List Nat))) (pi i n : Nat) : Prop :=
  ∃ v ks, vs[pi]? = some v ∧ v[i]? = some ks ∧ n ∈ ks

theorem Sim.gid_ungid (n : Nat) : Sim.gid (Sim.ungid n) = n := by
  simp only [Sim.gid, Sim.ungid]; omega

theorem Sim.ungid_gid (t : TaskId) (h : t.t < 65536) : Sim.ungid (Sim.gid t) = t := by
  obtain ⟨g, n⟩ := t
  simp only [Sim.gid, Sim.ungid] at h ⊢
  congr 1 <;> omega

theorem Sim.gid_inj (t u : TaskId) (ht : t.t < 65536) (hu : u.t < 65536) (h : Sim.gid t = Sim.gid u) : t = u := by
  rw [← Sim.ungid_gid t ht, ← Sim.ungid_gid u hu, h]

/-! ### the relation "nothing that concerns a RUNNING task changed" -/

/-- One task before / after a change that leaves RUNNING tasks alone: either nothing
changed, or the task was not RUNNING and is not RUNNING, its pre-scheduling state stays
VIRTUAL / RELEASED, and a finished task stays finished. -/
def TR (x x' : TaskS) : Prop :=
  x' = x ∨ (x.state ≠ .running ∧ x'.state ≠ .running ∧ x'.PreOK ∧ (x.isComplete = true → x'.isComplete = true))

theorem TR.refl (x : TaskS) : TR x x := Or.inl rfl

theorem TR.trans {x y z : TaskS} (h1 : TR x y) (h2 : TR y z) : TR x z := by
  rcases h1 with rfl | ⟨a1, a2, a3, a4⟩
  · exact h2
  · rcases h2 with rfl | ⟨b1, b2, b3, b4⟩
    · exact Or.inr ⟨a1, a2, a3, a4⟩
    · exact Or.inr ⟨a1, b2, b3, fun h => b4 (a4 h)⟩

/-- The `Task` API calls the simulator issues on tasks that are not running. -/
def TaskCall.isQuiet : TaskCall → Bool
  | .release _ => true
  | .schedule _ _ => true
  | .unschedule => true
  | .cancel _ => true
  | _ => false

theorem updateRemaining_state' (t : TaskS) (r : Int) : (t.updateRemaining r).1.state = t.state := by
  unfold TaskS.updateRemaining; split
  · rfl
  · split <;> rfl

/-- `release`, `schedule`, `unschedule`, `cancel` are refused by a RUNNING task and never
make a task RUNNING. -/
theorem call_TR (x : TaskS) (c : TaskCall) (hp : x.PreOK) (hc : c.isQuiet = true) : TR x (x.call c).1 := by
  have hpre := call_preOK x c hp
  cases c with
  | release time =>
    simp only [TaskS.call] at hpre ⊢
    unfold TaskS.doRelease at hpre ⊢
    split
    · exact Or.inl rfl
    · split
      · exact Or.inl rfl
      · rename_i h1 hst
        rw [if_neg h1, if_neg hst] at hpre
        right
        have hs : x.state = .virtual ∨ x.state = .scheduled ∨ x.state = .preempted := by
          cases hs : x.state <;> simp [hs] at hst ⊢
        cases time with
        | none =>
          simp only [] at hpre ⊢
          split
          · refine ⟨?_, by simp, ?_, ?_⟩
            · rcases hs with h | h | h <;> simp [h]
            · rename_i hlt; rw [if_pos hlt] at hpre; exact hpre
            · rcases hs with h | h | h <;> simp [TaskS.isComplete, h]
          · refine ⟨?_, ?_, hp, fun h => h⟩ <;> rcases hs with h | h | h <;> simp [h]
        | some v =>
          simp only [] at hpre ⊢
          split
          · refine ⟨?_, by simp, ?_, ?_⟩
            · rcases hs with h | h | h <;> simp [h]
            · rename_i hlt; rw [if_pos hlt] at hpre; exact hpre
            · rcases hs with h | h | h <;> simp [TaskS.isComplete, h]
          · refine ⟨?_, ?_, hp, ?_⟩
            · rcases hs with h | h | h <;> simp [h]
            · rcases hs with h | h | h <;> simp [h]
            · rcases hs with h | h | h <;> simp [TaskS.isComplete, h]
  | schedule time p =>
    simp only [TaskS.call] at hpre ⊢
    unfold TaskS.doSchedule at hpre ⊢
    split
    · exact Or.inl rfl
    · rename_i hst
      rw [if_neg hst] at hpre
      right
      have hs : x.state = .virtual ∨ x.state = .released ∨ x.state = .preempted ∨ x.state = .scheduled := by
        cases hs : x.state <;> simp [hs] at hst ⊢
      have hnr : x.state ≠ .running := by rcases hs with h | h | h | h <;> simp [h]
      have hnc : x.isComplete = false := by rcases hs with h | h | h | h <;> simp [TaskS.isComplete, h]
      cases hps : p.strat with
      | none =>
        simp only [hps] at hpre ⊢
        exact ⟨hnr, by simp, hpre, fun h => by rw [hnc] at h; cases h⟩
      | some st =>
        simp only [hps] at hpre ⊢
        refine ⟨hnr, ?_, hpre, fun h => by rw [hnc] at h; cases h⟩
        rw [updateRemaining_state']; simp
  | unschedule =>
    simp only [TaskS.call] at hpre ⊢
    unfold TaskS.doUnschedule at hpre ⊢
    split
    · exact Or.inl rfl
    · rename_i hst
      rw [if_neg hst] at hpre
      have hs : x.state = .scheduled := by simpa using hst
      right
      refine ⟨by simp [hs], ?_, hpre, fun h => by simp [TaskS.isComplete, hs] at h⟩
      rcases hp with h | h <;> simp [h]
  | cancel time =>
    simp only [TaskS.call] at hpre ⊢
    unfold TaskS.doCancel at hpre ⊢
    split
    · exact Or.inl rfl
    · rename_i hst
      rw [if_neg hst] at hpre
      have hs : x.state = .virtual ∨ x.state = .released ∨ x.state = .scheduled := by
        cases hs : x.state <;> simp [hs] at hst ⊢
      right
      refine ⟨?_, by simp, hpre, ?_⟩
      · rcases hs with h | h | h <;> simp [h]
      · rcases hs with h | h | h <;> simp [TaskS.isComplete, h]
  | start a b => simp [TaskCall.isQuiet] at hc
  | step a b => simp [TaskCall.isQuiet] at hc
  | finish a => simp [TaskCall.isQuiet] at hc
  | preempt => simp [TaskCall.isQuiet] at hc
  | updateRemaining r => simp [TaskCall.isQuiet] at hc

/-- The same relation between two task lookups; the second may know more tasks, none
of them RUNNING. -/
structure TRel (T T' : TaskId → Option TaskS) : Prop where
  old : ∀ t x, T t = some x → ∃ x', T' t = some x' ∧ TR x x'
  new : ∀ t x', T' t = some x' → (∃ x, T t = some x) ∨ (x'.state ≠ .running ∧ x'.PreOK ∧ t.t < 65536)

theorem TRel.refl (T : TaskId → Option TaskS) : TRel T T :=
  ⟨fun _ x h => ⟨x, h, TR.refl x⟩, fun _ x' h => Or.inl ⟨x', h⟩⟩

/-- Graph-level version: same size, every task related by `TR`. -/
structure RFrame (g g' : GraphS) : Prop where
  size : g'.tasks.size = g.tasks.size
  rel : ∀ n x, g.task? n = some x → ∃ x', g'.task? n = some x' ∧ TR x x'

theorem RFrame.refl (g : GraphS) : RFrame g g := ⟨rfl, fun _ x h => ⟨x, h, TR.refl x⟩⟩

theorem RFrame.trans {a b c : GraphS} (h1 : RFrame a b) (h2 : RFrame b c) : RFrame a c := by
  refine ⟨h2.size.trans h1.size, ?_⟩
  intro n x hx
  obtain ⟨y, hy, r1⟩ := h1.rel n x hx
  obtain ⟨z, hz, r2⟩ := h2.rel n y hy
  exact ⟨z, hz, r1.trans r2⟩

theorem task?_lt (g : GraphS) (n : Nat) (x : TaskS) (h : g.task? n = some x) : n < g.tasks.size := by
  simp only [GraphS.task?] at h
  exact (Array.getElem?_eq_some_iff.mp h).1

/-- Replacing one task by a `TR`-related one. -/
theorem RFrame.setTask (g : GraphS) (n : Nat) (x x' : TaskS) (hx : g.task? n = some x) (h : TR x x') :
    RFrame g (g.setTask n x') := by
  have hlt := task?_lt g n x hx
  refine ⟨by simp [GraphS.setTask], ?_⟩
  intro k y hy
  rw [GraphS.task?_setTask]
  by_cases hk : k = n
  · subst hk
    rw [hx] at hy
    cases hy
    exact ⟨x', by simp [hlt], h⟩
  · exact ⟨y, by simp [hk, hy], TR.refl y⟩

theorem taskAt_set (gs : Array GraphS) (gi : Nat) (g' : GraphS) (t : TaskId) :
    taskAt (gs.setIfInBounds gi g') t = if t.g = gi ∧ gi < gs.size then g'.task? t.t else taskAt gs t := by
  unfold taskAt
  rw [Array.getElem?_setIfInBounds]
  by_cases h : gi = t.g
  · subst h
    by_cases h2 : t.g < gs.size
    · simp [h2]
    · simp [h2]
  · have : ¬ t.g = gi := fun e => h e.symm
    simp [h, this]

theorem taskAt_some (gs : Array GraphS) (t : TaskId) (x : TaskS) (h : taskAt gs t = some x) :
    ∃ g, gs[t.g]? = some g ∧ g.task? t.t = some x := by
  unfold taskAt at h
  cases hg : gs[t.g]? with
  | none => simp [hg] at h
  | some g => exact ⟨g, rfl, by simpa [hg] using h⟩

theorem taskAt_of (gs : Array GraphS) (t : TaskId) (g : GraphS) (x : TaskS) (hg : gs[t.g]? = some g)
    (hx : g.task? t.t = some x) : taskAt gs t = some x := by
  unfold taskAt; simp [hg, hx]

/-- Writing back a graph that is `RFrame`-related to the one stored. -/
theorem TRel.setGraph (gs : Array GraphS) (gi : Nat) (g g' : GraphS) (hg : gs[gi]? = some g) (h : RFrame g g') :
    TRel (taskAt gs) (taskAt (gs.setIfInBounds gi g')) := by
  have hlt : gi < gs.size := (Array.getElem?_eq_some_iff.mp hg).1
  constructor
  · intro t x hx
    rw [taskAt_set]
    by_cases ht : t.g = gi
    · simp only [ht, hlt, and_self, if_true]
      obtain ⟨g0, h0, h1⟩ := taskAt_some gs t x hx
      rw [ht, hg] at h0
      cases h0
      exact h.rel t.t x h1
    · simp only [ht, false_and, if_false]
      exact ⟨x, hx, TR.refl x⟩
  · intro t x' hx'
    rw [taskAt_set] at hx'
    by_cases ht : t.g = gi
    · simp only [ht, hlt, and_self, if_true] at hx'
      left
      have hlt' : t.t < g.tasks.size := by rw [← h.size]; exact task?_lt g' t.t x' hx'
      have : ∃ x, g.task? t.t = some x := by
        simp only [GraphS.task?]
        exact ⟨g.tasks[t.t], Array.getElem?_eq_getElem hlt'⟩
      obtain ⟨x, hx⟩ := this
      exact ⟨x, taskAt_of gs t g x (by rw [ht]; exact hg) hx⟩
    · simp only [ht, false_and, if_false] at hx'
      exact Or.inl ⟨x', hx'⟩

/-- A task graph none of whose tasks is RUNNING (a graph the loader hands over, a job
template), small enough for the task-id encoding of the worker pools. -/
structure GraphS.Quiet (g : GraphS) : Prop where
  small : g.tasks.size ≤ 65536
  quiet : ∀ n x, g.task? n = some x → x.state ≠ .running ∧ x.PreOK

/-- Appending a quiet graph. -/
theorem TRel.push (gs : Array GraphS) (g : GraphS) (hq : g.Quiet) : TRel (taskAt gs) (taskAt (gs.push g)) := by
  constructor
  · intro t x hx
    obtain ⟨g0, h0, h1⟩ := taskAt_some gs t x hx
    have hlt : t.g < gs.size := (Array.getElem?_eq_some_iff.mp h0).1
    refine ⟨x, ?_, TR.refl x⟩
    unfold taskAt
    rw [Array.getElem?_push_lt hlt, ← Array.getElem?_eq_getElem hlt, h0]
    simpa using h1
  · intro t x' hx'
    obtain ⟨g0, h0, h1⟩ := taskAt_some _ t x' hx'
    rw [Array.getElem?_push] at h0
    split at h0
    · have e : g = g0 := Option.some.inj h0
      subst e
      have := hq.quiet t.t x' h1
      have hlt := task?_lt g t.t x' h1
      exact Or.inr ⟨this.1, this.2, by have := hq.small; omega⟩
    · exact Or.inl ⟨x', taskAt_of gs t g0 x' h0 h1⟩

/-- Adopting the loader's graphs into an empty workload. -/
theorem TRel.load (gs' : Array GraphS) (hq : ∀ g ∈ gs'.toList, g.Quiet) : TRel (taskAt #[]) (taskAt gs') := by
  constructor
  · intro t x hx; simp [taskAt] at hx
  · intro t x' hx'
    obtain ⟨g0, h0, h1⟩ := taskAt_some _ t x' hx'
    have hm : g0 ∈ gs'.toList := Array.mem_toList_iff.mpr (Array.mem_of_getElem? h0)
    have := (hq g0 hm).quiet t.t x' h1
    have hlt := task?_lt g0 t.t x' h1
    exact Or.inr ⟨this.1, this.2, by have := (hq g0 hm).small; omega⟩

end ErdosVerif.Model
