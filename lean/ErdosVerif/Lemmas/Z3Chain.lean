/-
Precedence facts every satisfying assignment of the Z3 scheduler's assertions has:
the two implications of `_add_task_dependency_constraints`, and their transitive closure
along chains of offered tasks.
-/
import ErdosVerif.Lemmas.Z3Sat
namespace ErdosVerif.Z3m

theorem parents_placed {I : Inst} {σ : Assign Var} (h : sat σ (gen I)) {c p : Nat}
    (hc : c < I.nT) (hp : p ∈ I.parentVars c) (hpl : σ.b (.placed c) = true) :
    σ.b (.placed p) = true := by
  have hm : BoolT.imp (I.placedT c) (.and ((I.parentVars c).map I.placedT)) ∈ I.cDeps c := by
    simp [Inst.cDeps]
  have := sat_hard h (cDeps_sub hc hm)
  simp only [eval_imp, eval_and, Inst.placedT, eval_bvar, hpl, Bool.not_true, Bool.false_or,
    List.all_map, List.all_eq_true, Function.comp] at this
  exact this p hp

theorem start_ge_parent_end {I : Inst} {σ : Assign Var} (h : sat σ (gen I)) {c p : Nat}
    (hc : c < I.nT) (hp : p ∈ I.parentVars c) (hpl : σ.b (.placed c) = true) :
    σ.i (.start c) ≥ σ.i (.start p) + (I.rem p : Int) := by
  have hm : BoolT.imp (I.placedT c)
      (.and ((I.parentVars c).map (fun p => .ge (I.startT c) (I.endT p)))) ∈ I.cDeps c := by
    simp [Inst.cDeps]
  have := sat_hard h (cDeps_sub hc hm)
  simp only [eval_imp, eval_and, Inst.placedT, eval_bvar, hpl, Bool.not_true, Bool.false_or,
    List.all_map, List.all_eq_true, Function.comp] at this
  have := this p hp
  simpa [Inst.startT, Inst.endT] using this

theorem mem_descIn_lt {I : Inst} : ∀ {k a b : Nat}, b ∈ I.descIn k a → b < I.nT := by
  intro k
  induction k with
  | zero => intro a b hb; simp [Inst.descIn] at hb
  | succ k ih =>
    intro a b hb
    simp only [Inst.descIn, List.mem_append, List.mem_filter, List.mem_range, List.mem_flatMap] at hb
    rcases hb with ⟨hb, _⟩ | ⟨c, _, hb⟩
    · exact hb
    · exact ih hb

/-- Along a chain of offered tasks: a placed descendant starts no earlier than the ancestor's
start plus the ancestor's remaining time, and the ancestor is placed. -/
theorem linked_ordered {I : Inst} {σ : Assign Var} (h : sat σ (gen I)) :
    ∀ {k a b : Nat}, b ∈ I.descIn k a → σ.b (.placed b) = true →
      σ.b (.placed a) = true ∧ σ.i (.start b) ≥ σ.i (.start a) + (I.rem a : Int) := by
  intro k
  induction k with
  | zero => intro a b hb; simp [Inst.descIn] at hb
  | succ k ih =>
    intro a b hb hpl
    simp only [Inst.descIn, List.mem_append, List.mem_filter, List.mem_range, List.mem_flatMap,
      List.contains_iff_mem] at hb
    rcases hb with ⟨hb, hab⟩ | ⟨c, ⟨hc, hac⟩, hb⟩
    · exact ⟨parents_placed h hb hab hpl, start_ge_parent_end h hb hab hpl⟩
    · have ⟨hcp, hcb⟩ := ih hb hpl
      have h1 := start_ge_parent_end h hc hac hcp
      refine ⟨parents_placed h hc hac hcp, ?_⟩
      have : (0 : Int) ≤ (I.rem c : Int) := Int.natCast_nonneg _
      omega

end ErdosVerif.Z3m
