import ErdosVerif.Lemmas.CancelClosure
import ErdosVerif.Lemmas.TaskLegal
/-!
The per-graph invariant behind C02: a task that has started (is RUNNING, or
finished) was released no later than it started, and its predecessors are done
(all of them; for a terminal / join task at least one). Because COMPLETED and
EVICTED are final, "the predecessors are done now" is the same as "they were done
when the task started". Core Lean only.
-/
namespace ErdosVerif.Model

/-- The task has started: it is running or has finished. -/
def TaskS.started (t : TaskS) : Bool :=
  t.state == .running || t.state == .evicted || t.state == .completed

namespace GraphS

/-- What `is_ready_to_run` demands of the predecessors. -/
def parentsOK (g : GraphS) (n : Nat) (t : TaskS) : Bool :=
  if t.terminal then (g.pars n).any g.completeOf else (g.pars n).all g.completeOf

structure GInv (g : GraphS) : Prop where
  preOK : ∀ n t, g.task? n = some t → t.PreOK
  noPreempt : ∀ n t, g.task? n = some t → t.state ≠ .preempted   -- preemption is outside the simulator model
  started : ∀ n t, g.task? n = some t → t.started = true → t.release ≤ t.start ∧ g.parentsOK n t = true

/-- All tasks are untouched (as in a freshly instantiated task graph). -/
def Fresh (g : GraphS) : Prop := ∀ n t, g.task? n = some t → t.state = .virtual ∧ t.pre = .virtual

theorem ginv_of_fresh (g : GraphS) (h : g.Fresh) : g.GInv :=
  ⟨fun n t ht => Or.inl (h n t ht).2, fun n t ht => by simp [(h n t ht).1],
   fun n t ht hs => by simp [TaskS.started, (h n t ht).1] at hs⟩

/-- A harmless change of one task: it does not start it, keeps what a started task's
invariant mentions, and does not un-complete it. -/
structure Benign (t t' : TaskS) : Prop where
  pre : t'.PreOK
  noPreempt : t'.state ≠ .preempted
  terminal : t'.terminal = t.terminal
  complete : t.isComplete = true → t'.isComplete = true
  started : t'.started = true → t.started = true ∧ t'.release = t.release ∧ t'.start = t.start

theorem completeOf_setTask_mono (g : GraphS) (n : Nat) (t t' : TaskS) (ht : g.task? n = some t)
    (hc : t.isComplete = true → t'.isComplete = true) (p : Nat) (h : g.completeOf p = true) :
    (g.setTask n t').completeOf p = true := by
  have hlt : n < g.tasks.size := by
    simp only [task?] at ht
    exact (Array.getElem?_eq_some_iff.mp ht).1
  simp only [completeOf, task?_setTask] at h ⊢
  by_cases hp : p = n
  · subst hp
    simp only [hlt, and_self, if_true, Option.map_some, Option.getD_some]
    apply hc
    simpa [ht] using h
  · simpa [hp] using h

theorem parentsOK_mono (g g' : GraphS) (n : Nat) (t t' : TaskS) (hterm : t'.terminal = t.terminal)
    (hpars : g'.pars n = g.pars n) (hmono : ∀ p, g.completeOf p = true → g'.completeOf p = true)
    (h : g.parentsOK n t = true) : g'.parentsOK n t' = true := by
  unfold parentsOK at h ⊢
  rw [hterm, hpars]
  split at h
  · rename_i ht
    simp only [ht, if_true]
    rw [List.any_eq_true] at h ⊢
    obtain ⟨p, hp, hc⟩ := h
    exact ⟨p, hp, hmono p hc⟩
  · rename_i ht
    simp only [ht, Bool.false_eq_true, if_false]
    rw [List.all_eq_true] at h ⊢
    intro p hp
    exact hmono p (h p hp)

/-- A benign change of one task keeps the graph invariant. -/
theorem ginv_setTask (g : GraphS) (n : Nat) (t t' : TaskS) (hg : g.GInv) (ht : g.task? n = some t)
    (hb : Benign t t') : (g.setTask n t').GInv := by
  have hlt : n < g.tasks.size := by
    simp only [task?] at ht
    exact (Array.getElem?_eq_some_iff.mp ht).1
  have hmono := completeOf_setTask_mono g n t t' ht hb.complete
  have hget : ∀ k x, (g.setTask n t').task? k = some x → (k = n ∧ x = t') ∨ (k ≠ n ∧ g.task? k = some x) := by
    intro k x hx
    rw [task?_setTask] at hx
    by_cases hk : k = n
    · simp only [hk, hlt, and_self, if_true, Option.some.injEq] at hx
      exact Or.inl ⟨hk, hx.symm⟩
    · simp only [hk, false_and, if_false] at hx
      exact Or.inr ⟨hk, hx⟩
  refine ⟨?_, ?_, ?_⟩
  · intro k x hx
    rcases hget k x hx with ⟨_, rfl⟩ | ⟨_, h2⟩
    · exact hb.pre
    · exact hg.preOK k x h2
  · intro k x hx
    rcases hget k x hx with ⟨_, rfl⟩ | ⟨_, h2⟩
    · exact hb.noPreempt
    · exact hg.noPreempt k x h2
  · intro k x hx hs
    rcases hget k x hx with ⟨hk, rfl⟩ | ⟨_, h2⟩
    · obtain ⟨h1, h2, h3⟩ := hb.started hs
      obtain ⟨i1, i2⟩ := hg.started n t ht h1
      refine ⟨by rw [h2, h3]; exact i1, ?_⟩
      rw [hk]
      exact parentsOK_mono g _ n t x hb.terminal rfl hmono i2
    · obtain ⟨i1, i2⟩ := hg.started k x h2 hs
      exact ⟨i1, parentsOK_mono g _ k x x rfl rfl hmono i2⟩

/-- Changing only the probability of a task is benign. -/
theorem benign_prob (t : TaskS) (p : Int) (h : t.PreOK) (hn : t.state ≠ .preempted) : Benign t { t with prob := p } :=
  ⟨h, hn, rfl, fun hc => hc, fun hs => ⟨hs, rfl, rfl⟩⟩

theorem benign_refl (t : TaskS) (h : t.PreOK) (hn : t.state ≠ .preempted) : Benign t t :=
  ⟨h, hn, rfl, fun hc => hc, fun hs => ⟨hs, rfl, rfl⟩⟩

/-- Three ways a change is benign: nothing changed; the task was not done and is not
started afterwards; or it had started and keeps its release / start times. -/
theorem benign_of (t t' : TaskS) (hpre : t'.PreOK) (hnp : t'.state ≠ .preempted) (hterm : t'.terminal = t.terminal)
    (h : t' = t ∨ (t'.started = false ∧ t.isComplete = false) ∨
         (t.started = true ∧ t'.release = t.release ∧ t'.start = t.start ∧ (t.isComplete = true → t'.isComplete = true))) :
    Benign t t' := by
  rcases h with h | ⟨h1, h2⟩ | ⟨h1, h2, h3, h4⟩
  · subst h; exact ⟨hpre, hnp, rfl, fun hc => hc, fun hs => ⟨hs, rfl, rfl⟩⟩
  · refine ⟨hpre, hnp, hterm, ?_, ?_⟩
    · intro hc; rw [h2] at hc; cases hc
    · intro hs; rw [h1] at hs; cases hs
  · exact ⟨hpre, hnp, hterm, h4, fun _ => ⟨h1, h2, h3⟩⟩

theorem updateRemaining_fields (t : TaskS) (r : Int) :
    (t.updateRemaining r).1.state = t.state ∧ (t.updateRemaining r).1.release = t.release ∧
    (t.updateRemaining r).1.start = t.start ∧ (t.updateRemaining r).1.terminal = t.terminal ∧
    (t.updateRemaining r).1.pre = t.pre := by
  unfold TaskS.updateRemaining; split
  · exact ⟨rfl, rfl, rfl, rfl, rfl⟩
  · split <;> exact ⟨rfl, rfl, rfl, rfl, rfl⟩

/-- Every API call except `start` and `preempt` is benign (on a task that is not PREEMPTED). -/
theorem benign_call (t : TaskS) (c : TaskCall) (h : t.PreOK) (hn : t.state ≠ .preempted) (hc : c.isBenign = true) :
    Benign t (t.call c).1 := by
  -- a result with the same state, release, start, terminal flag and pre-scheduling state as `t`
  have same : ∀ t' : TaskS, t'.pre = t.pre → t'.state = t.state → t'.release = t.release → t'.start = t.start →
      t'.terminal = t.terminal → Benign t t' := by
    intro t' p1 p2 p3 p4 p5
    refine ⟨by simpa [TaskS.PreOK, p1] using h, by rw [p2]; exact hn, p5,
      fun hc => by simpa [TaskS.isComplete, p2] using hc, fun hs => ?_⟩
    exact ⟨by simpa [TaskS.started, p2] using hs, p3, p4⟩
  cases c with
  | start a b => simp [TaskCall.isBenign] at hc
  | preempt => simp [TaskCall.isBenign] at hc
  | release time =>
    simp only [TaskS.call]
    unfold TaskS.doRelease
    split
    · exact benign_refl t h hn
    · split
      · exact benign_refl t h hn
      · rename_i hst
        have hstate : t.state = .virtual ∨ t.state = .scheduled := by
          cases hs : t.state <;> simp [hs] at hst hn ⊢
        cases time with
        | none =>
          simp only []
          split
          · rename_i hlt
            have hv : t.state = .virtual := val_lt_released _ hlt
            exact benign_of t _ (Or.inr rfl) (by simp) rfl
              (Or.inr (Or.inl ⟨by simp [TaskS.started], by simp [TaskS.isComplete, hv]⟩))
          · exact benign_refl t h hn
        | some x =>
          simp only []
          split
          · rename_i hlt
            have hv : t.state = .virtual := val_lt_released _ hlt
            exact benign_of t _ (Or.inr rfl) (by simp) rfl
              (Or.inr (Or.inl ⟨by simp [TaskS.started], by simp [TaskS.isComplete, hv]⟩))
          · rename_i hge
            have hs : t.state = .scheduled := by
              rcases hstate with hs | hs
              · exact absurd (by simp [hs, TState.val]) hge
              · exact hs
            exact benign_of t _ (by simpa [TaskS.PreOK] using h) (by simp [hs]) rfl
              (Or.inr (Or.inl ⟨by simp [TaskS.started, hs], by simp [TaskS.isComplete, hs]⟩))
  | schedule time p =>
    simp only [TaskS.call]
    unfold TaskS.doSchedule
    split
    · exact benign_refl t h hn
    · rename_i hst
      have hnc : t.isComplete = false := by
        cases hs : t.state <;> simp [hs] at hst ⊢ <;> simp [TaskS.isComplete, hs]
      cases hp : p.strat with
      | none =>
        simp only []
        exact benign_of t _ (by simpa [TaskS.PreOK] using h) (by simp) rfl
          (Or.inr (Or.inl ⟨by simp [TaskS.started], hnc⟩))
      | some st =>
        simp only []
        obtain ⟨f1, _, _, f4, f5⟩ := updateRemaining_fields
          { t with state := .scheduled, schedTime := some time, placement := some p, pool := p.pool } st.runtime
        exact benign_of t _ (by simpa [TaskS.PreOK, f5] using h) (by rw [f1]; simp) f4
          (Or.inr (Or.inl ⟨by simp [TaskS.started, f1], hnc⟩))
  | unschedule =>
    simp only [TaskS.call]
    unfold TaskS.doUnschedule
    split
    · exact benign_refl t h hn
    · rename_i hst
      have hs : t.state = .scheduled := by simpa using hst
      refine benign_of t _ (by simpa [TaskS.PreOK] using h) ?_ rfl
        (Or.inr (Or.inl ⟨?_, by simp [TaskS.isComplete, hs]⟩))
      · rcases h with h | h <;> simp [h]
      · rcases h with h | h <;> simp [TaskS.started, h]
  | step now dt =>
    simp only [TaskS.call]
    unfold TaskS.doStep
    split
    · exact benign_refl t h hn
    · split
      · exact benign_refl t h hn
      · split
        · exact benign_refl t h hn
        · simp only []
          split <;> exact same _ rfl rfl rfl rfl rfl
  | finish time =>
    simp only [TaskS.call]
    unfold TaskS.doFinish
    split
    · exact benign_refl t h hn
    · rename_i hst
      have hs : t.state = .running := by
        cases hs : t.state <;> simp [hs] at hst hn ⊢
      refine benign_of t _ (by simpa [TaskS.PreOK] using h) ?_ rfl
        (Or.inr (Or.inr ⟨by simp [TaskS.started, hs], rfl, rfl, ?_⟩))
      · simp only []; split <;> simp
      · intro hc; simp [TaskS.isComplete, hs] at hc
  | cancel time =>
    simp only [TaskS.call]
    unfold TaskS.doCancel
    split
    · exact benign_refl t h hn
    · rename_i hst
      have hnc : t.isComplete = false := by
        cases hs : t.state <;> simp [hs] at hst ⊢ <;> simp [TaskS.isComplete, hs]
      exact benign_of t _ (by simpa [TaskS.PreOK] using h) (by simp) rfl
        (Or.inr (Or.inl ⟨by simp [TaskS.started], hnc⟩))
  | updateRemaining r =>
    simp only [TaskS.call]
    obtain ⟨f1, f2, f3, f4, f5⟩ := updateRemaining_fields t r
    exact same _ f5 f1 f2 f3 f4

/-- **Starting a task that is ready to run keeps the invariant**: the start time is not
before the release (the `assert` of `Task.start`) and the predecessors are done
(`is_ready_to_run`). -/
theorem ginv_start (g : GraphS) (n : Nat) (t : TaskS) (time fuzzed : Int) (hg : g.GInv)
    (ht : g.task? n = some t) (hready : g.isReadyToRun n = true) :
    (g.setTask n (t.doStart time fuzzed).1).GInv := by
  have hlt : n < g.tasks.size := by
    simp only [task?] at ht
    exact (Array.getElem?_eq_some_iff.mp ht).1
  have hp := hg.preOK n t ht
  have hn := hg.noPreempt n t ht
  have hpok : g.parentsOK n t = true := by
    simp only [isReadyToRun, ht, Bool.and_eq_true] at hready
    unfold parentsOK
    split <;> simp_all [List.any_map, List.all_map]
  -- either nothing changed, or the task is now RUNNING with start = time ≥ release
  have key : (t.doStart time fuzzed).1 = t ∨ (t.doStart time fuzzed).1 = { t with start := time } ∨
      (t.state = .scheduled ∧ t.release ≤ time ∧
       (t.doStart time fuzzed).1.state = .running ∧ (t.doStart time fuzzed).1.start = time ∧
       (t.doStart time fuzzed).1.release = t.release ∧ (t.doStart time fuzzed).1.terminal = t.terminal ∧
       (t.doStart time fuzzed).1.pre = t.pre) := by
    unfold TaskS.doStart
    split
    · exact Or.inl rfl
    · rename_i hst
      have hs : t.state = .scheduled := by simpa using hst
      split
      · exact Or.inl rfl
      · simp only []
        split
        · exact Or.inr (Or.inl rfl)
        · rename_i hge
          right; right
          obtain ⟨f1, f2, f3, f4, f5⟩ := updateRemaining_fields
            { t with start := time, lastStep := time, state := .running } fuzzed
          exact ⟨hs, by omega, f1, f3, f2, f4, f5⟩
  rcases key with e | e | ⟨hs, hrel, k1, k2, k3, k4, k5⟩
  · rw [e]; exact ginv_setTask g n t t hg ht (benign_refl t hp hn)
  · rw [e]
    -- only the start time was assigned before the assertion failed: the task is still SCHEDULED
    have hs : t.state = .scheduled := by
      simp only [isReadyToRun, ht, Bool.and_eq_true, Bool.or_eq_true, beq_iff_eq] at hready
      rcases hready.2 with h | h
      · exact h
      · exact absurd h hn
    exact ginv_setTask g n t _ hg ht (benign_of t _ hp (by simp [hs]) rfl
      (Or.inr (Or.inl ⟨by simp [TaskS.started, hs], by simp [TaskS.isComplete, hs]⟩)))
  · have hcomp : t.isComplete = false := by simp [TaskS.isComplete, hs]
    have hcomp' : (t.doStart time fuzzed).1.isComplete = false := by simp [TaskS.isComplete, k1]
    have hmono : ∀ p, g.completeOf p = true → (g.setTask n (t.doStart time fuzzed).1).completeOf p = true :=
      completeOf_setTask_mono g n t _ ht (fun hc => by rw [hcomp] at hc; cases hc)
    have hget : ∀ k x, (g.setTask n (t.doStart time fuzzed).1).task? k = some x →
        (k = n ∧ x = (t.doStart time fuzzed).1) ∨ (k ≠ n ∧ g.task? k = some x) := by
      intro k x hx
      rw [task?_setTask] at hx
      by_cases hk : k = n
      · simp only [hk, hlt, and_self, if_true, Option.some.injEq] at hx
        exact Or.inl ⟨hk, hx.symm⟩
      · simp only [hk, false_and, if_false] at hx
        exact Or.inr ⟨hk, hx⟩
    refine ⟨?_, ?_, ?_⟩
    · intro k x hx
      rcases hget k x hx with ⟨_, rfl⟩ | ⟨_, h2⟩
      · simpa [TaskS.PreOK, k5] using hp
      · exact hg.preOK k x h2
    · intro k x hx
      rcases hget k x hx with ⟨_, rfl⟩ | ⟨_, h2⟩
      · simp [k1]
      · exact hg.noPreempt k x h2
    · intro k x hx hstart
      rcases hget k x hx with ⟨hk, rfl⟩ | ⟨_, h2⟩
      · refine ⟨by rw [k2, k3]; exact hrel, ?_⟩
        rw [hk]
        exact parentsOK_mono g _ n t _ k4 rfl hmono hpok
      · obtain ⟨i1, i2⟩ := hg.started k x h2 hstart
        exact ⟨i1, parentsOK_mono g _ k x x rfl rfl hmono i2⟩

/-- `TaskGraph.cancel` keeps the invariant (also when it stops on an exception). -/
theorem ginv_cancel_go (root : Nat) (time : Int) :
    ∀ (fuel : Nat) (g : GraphS) (stack visited acc : List Nat), g.GInv →
      (cancel.go root time fuel g stack visited acc).g.GInv := by
  intro fuel
  induction fuel with
  | zero => intro g stack visited acc h; simpa [cancel.go] using h
  | succ fuel ih =>
    intro g stack visited acc h
    cases stack with
    | nil => simpa [cancel.go] using h
    | cons c stack =>
      simp only [cancel.go]
      split
      · exact ih g stack visited acc h
      · cases htc : g.task? c with
        | none => simpa using h
        | some tc =>
          simp only []
          split
          · exact ih g stack visited acc h
          · split
            · exact ih g stack (c :: visited) acc h
            · have hb := benign_call tc (.cancel time) (h.preOK c tc htc) (h.noPreempt c tc htc) rfl
              have hg' := ginv_setTask g c tc _ h htc hb
              simp only [TaskS.call] at hg'
              cases hdc : tc.doCancel time with
              | mk t' e =>
                rw [hdc] at hg'
                cases e with
                | some e => exact hg'
                | none => exact ih _ _ _ _ hg'

theorem ginv_cancel (g : GraphS) (n : Nat) (time : Int) (h : g.GInv) : (g.cancel n time).g.GInv := by
  unfold cancel; exact ginv_cancel_go n time _ g [n] [] [] h

theorem ginv_cancelBranches (finish : Int) (skip : Option Nat) :
    ∀ (kids : List Nat) (g : GraphS) (acc : List Nat), g.GInv →
      (cancelBranches g finish skip kids acc).1.GInv := by
  intro kids
  induction kids with
  | nil => intro g acc h; simpa [cancelBranches] using h
  | cons c rest ih =>
    intro g acc h
    simp only [cancelBranches]
    split
    · cases htc : g.task? c with
      | none => exact ih g acc h
      | some tc =>
        simp only []
        exact ih _ acc (ginv_setTask g c tc _ h htc (benign_prob tc 1000 (h.preOK c tc htc) (h.noPreempt c tc htc)))
    · have hc := ginv_cancel g c finish h
      cases he : (g.cancel c finish).err with
      | some e => simpa [he] using hc
      | none => simp only [he]; exact ih _ _ hc

theorem ginv_notify_go (g : GraphS) :
    ∀ (kids acc : List Nat) (tape : List Draw), (notifyCompletion.go g kids acc tape).g = g := by
  intro kids
  induction kids with
  | nil => intro acc tape; rfl
  | cons c rest ih =>
    intro acc tape
    simp only [notifyCompletion.go]
    cases g.task? c with
    | none => rfl
    | some tc =>
      simp only []
      split
      · rfl
      · split
        · exact ih acc tape
        · split
          · exact ih _ tape
          · exact ih acc tape

/-- `notify_task_completion` keeps the invariant (also when it raises). -/
theorem ginv_notifyCompletion (g : GraphS) (n : Nat) (finish : Int) (tape : List Draw) (h : g.GInv) :
    (g.notifyCompletion n finish tape).g.GInv := by
  unfold notifyCompletion
  cases g.task? n with
  | none => exact h
  | some t =>
    simp only []
    split
    · exact h
    · split
      · split
        · have := ginv_cancelBranches finish none (g.kids n) g [] h
          revert this
          cases cancelBranches g finish none (g.kids n) [] with
          | mk g' r => obtain ⟨a, b⟩ := r; intro hh; exact hh
        · split
          · exact h
          · cases tape with
            | nil => exact h
            | cons d tape' =>
              cases d with
              | choices i =>
                simp only []
                cases hk : (g.kids n)[i]? with
                | none => exact h
                | some chosen =>
                  simp only []
                  split
                  · exact h
                  · have := ginv_cancelBranches finish (some chosen) (g.kids n) g [] h
                    revert this
                    cases cancelBranches g finish (some chosen) (g.kids n) [] with
                    | mk g' r =>
                      obtain ⟨a, b⟩ := r
                      intro hh
                      cases b <;> exact hh
              | choice i => exact h
              | coin b => exact h
              | fuzz v => exact h
      · rw [ginv_notify_go]; exact h

end GraphS
end ErdosVerif.Model
