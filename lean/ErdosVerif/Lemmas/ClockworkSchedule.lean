/-
C15 helper lemmas, part 4: one `schedule` invocation, histories.
-/
import ErdosVerif.Lemmas.ClockworkLoop
import ErdosVerif.Lemmas.ClockworkAdmit

namespace ErdosVerif.Clockwork
open List

/-- The three shapes of a `schedule` result. -/
theorem schedule_cases (c : Cfg) (st : SState) (inv : Invocation) :
    (∃ e fo, schedule c st inv =
        ((admitAll c inv.now st inv.offered).1,
         { err := some e, cancels := [], batches := [], fuelOut := fo })) ∨
    (∃ e fo, schedule c st inv =
        ((inferFrom c inv.now 0 inv.workers (admitAll c inv.now st inv.offered).1).1,
         { err := some e, cancels := [], batches := [], fuelOut := fo })) ∨
    ((admitAll c inv.now st inv.offered).2.2 = none ∧ ∃ fo, schedule c st inv =
        ((inferFrom c inv.now 0 inv.workers (admitAll c inv.now st inv.offered).1).1,
         { err := none, cancels := (admitAll c inv.now st inv.offered).2.1,
           batches := (inferFrom c inv.now 0 inv.workers (admitAll c inv.now st inv.offered).1).2.1,
           fuelOut := fo })) := by
  unfold schedule
  split
  · rename_i st1 cs e heq
    left; exact ⟨e, false, by rw [heq]⟩
  · rename_i st1 cs heq
    split
    · rename_i e _
      left; exact ⟨e, false, by rw [heq]⟩
    · split
      · rename_i st2 bs e fo heq2
        right; left; exact ⟨e, fo, by rw [heq]; simp only []; rw [heq2]⟩
      · rename_i st2 bs fo heq2
        right; right
        refine ⟨by rw [heq], fo, ?_⟩
        rw [heq]; simp only []; rw [heq2]

/-- Everything the property theorems need about one invocation from an invariant state. -/
structure StepSpec (c : Cfg) (st : SState) (inv : Invocation) : Prop where
  sinv : SInv c (schedule c st inv).1
  tids_sub : ∀ x ∈ allTids (schedule c st inv).1, x ∈ allTids st ∨ x ∈ inv.offered
  placed_from : ∀ b ∈ (schedule c st inv).2.batches, ∀ tid ∈ b.tids,
    tid ∈ allTids st ∨ tid ∈ inv.offered
  placed_gone : ∀ b ∈ (schedule c st inv).2.batches, ∀ tid ∈ b.tids,
    tid ∉ allTids (schedule c st inv).1
  placed_nodup : ((schedule c st inv).2.batches.flatMap (·.tids)).Nodup
  ok : ∀ b ∈ (schedule c st inv).2.batches, ∃ wv, inv.workers[b.worker]? = some wv ∧
    BatchOK c inv.now b.worker wv.loaded b
  fits : ∀ w wv, inv.workers[w]? = some wv →
    (fitsRun c wv.avail ((schedule c st inv).2.batches.filter (fun b => b.worker == w))).isSome
  cancel_hopeless : (schedule c st inv).2.err = none → ∀ tid ∈ inv.offered,
    Hopeless c inv.now tid → tid ∈ (schedule c st inv).2.cancels
  cancel_only : ∀ x ∈ (schedule c st inv).2.cancels, x ∈ inv.offered ∧ Hopeless c inv.now x

theorem schedule_spec {c : Cfg} {st : SState} (h : SInv c st) (inv : Invocation) :
    StepSpec c st inv := by
  have ha := admitAll_spec inv.now inv.offered h
  have hi := inferFrom_spec inv.now 0 inv.workers ha.1
  have hsub2 : ∀ x ∈ allTids (inferFrom c inv.now 0 inv.workers
      (admitAll c inv.now st inv.offered).1).1, x ∈ allTids st ∨ x ∈ inv.offered :=
    fun x hx => ha.2.1 x (hi.placed.sub x hx)
  -- shape shared by every branch without batches
  have nob : ∀ (st' : SState) (e : String) (fo : Bool), SInv c st' →
      (∀ x ∈ allTids st', x ∈ allTids st ∨ x ∈ inv.offered) →
      schedule c st inv = (st', { err := some e, cancels := [], batches := [], fuelOut := fo }) →
      StepSpec c st inv := by
    intro st' e fo h1 h2 heq
    refine ⟨?_, ?_, ?_, ?_, ?_, ?_, ?_, ?_, ?_⟩ <;> rw [heq] <;> simp only []
    · exact h1
    · exact h2
    · simp
    · simp
    · simp
    · simp
    · intro w wv _; simp [fitsRun]
    · intro he; cases he
    · simp
  rcases schedule_cases c st inv with ⟨e, fo, heq⟩ | ⟨e, fo, heq⟩ | ⟨hnone, fo, heq⟩
  · exact nob _ e fo ha.1 ha.2.1 heq
  · exact nob _ e fo hi.sinv hsub2 heq
  · have hc := ha.2.2 hnone
    refine ⟨?_, ?_, ?_, ?_, ?_, ?_, ?_, ?_, ?_⟩ <;> rw [heq] <;> simp only []
    · exact hi.sinv
    · exact hsub2
    · exact fun b hb tid ht => ha.2.1 tid (hi.placed.from0 b hb tid ht)
    · exact hi.placed.gone
    · exact hi.placed.nodup
    · intro b hb
      obtain ⟨k, wv, e1, e2, e3⟩ := hi.ok b hb
      have : b.worker = k := by omega
      subst this
      exact ⟨wv, e2, by simpa using e3⟩
    · intro w wv hw
      simpa using hi.fits w wv hw
    · exact fun _ => hc.1
    · exact hc.2

end ErdosVerif.Clockwork
