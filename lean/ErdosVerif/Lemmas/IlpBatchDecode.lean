/-
Facts about `decodeB`: the merge loop of `schedule()` that turns the Placements of the
BatchTasks into one decision per member task (`mergeOne`, `task_placement_map`).
-/
import ErdosVerif.Lemmas.IlpBatchSat
namespace ErdosVerif.IlpBatch
open ErdosVerif.Mip ErdosVerif.Ilp

/-! ### One step of the merge -/

theorem find_none_task {acc : List BDecision} {t : Nat}
    (h : acc.find? (fun e => e.task == t) = none) : t ∉ acc.map BDecision.task := by
  intro hm
  obtain ⟨e, he, het⟩ := List.mem_map.mp hm
  have := List.find?_eq_none.mp h e he
  simp [het] at this

theorem find_some_task {acc : List BDecision} {t : Nat} {e : BDecision}
    (h : acc.find? (fun e => e.task == t) = some e) : e ∈ acc ∧ e.task = t := by
  have h1 := List.mem_of_find?_eq_some h
  have h2 := List.find?_some h
  exact ⟨h1, by simpa using h2⟩

/-- Every element after a merge step was there before, or is the new Placement. -/
theorem mem_mergeOne {acc : List BDecision} {d e : BDecision} (h : e ∈ mergeOne acc d) :
    e ∈ acc ∨ e = d := by
  unfold mergeOne at h
  split at h
  · rcases List.mem_append.mp h with h | h
    · exact Or.inl h
    · right; simpa using h
  · split at h
    · exact Or.inl h
    · obtain ⟨x, hx, rfl⟩ := List.mem_map.mp h
      by_cases hc : (x.task == d.task) = true
      · right; simp [hc]
      · left; simp [hc]; exact hx

/-- The tasks answered so far only grow by the task of the new Placement, and keep their order. -/
theorem tasks_mergeOne (acc : List BDecision) (d : BDecision) :
    (mergeOne acc d).map BDecision.task =
      if d.task ∈ acc.map BDecision.task then acc.map BDecision.task
      else acc.map BDecision.task ++ [d.task] := by
  unfold mergeOne
  split
  · rename_i hf
    have := find_none_task hf
    simp [this]
  · rename_i e hf
    have he := find_some_task hf
    have hin : d.task ∈ acc.map BDecision.task := List.mem_map.mpr ⟨e, he.1, he.2⟩
    simp only [hin, if_true]
    split
    · rfl
    · rw [List.map_map]
      apply List.map_congr_left
      intro x _
      by_cases hc : (x.task == d.task) = true
      · have : x.task = d.task := by simpa using hc
        simp [Function.comp, hc, this]
      · simp [Function.comp, hc]

theorem nodup_mergeOne {acc : List BDecision} (d : BDecision) (h : (acc.map BDecision.task).Nodup) :
    ((mergeOne acc d).map BDecision.task).Nodup := by
  rw [tasks_mergeOne]
  split
  · exact h
  · rename_i hn
    rw [List.nodup_append]
    refine ⟨h, by simp, ?_⟩
    intro a ha b hb
    simp at hb
    subst hb
    intro e; subst e
    exact hn ha

theorem task_mem_mergeOne {acc : List BDecision} {d : BDecision} {t : Nat}
    (h : t ∈ acc.map BDecision.task ∨ t = d.task) : t ∈ (mergeOne acc d).map BDecision.task := by
  rw [tasks_mergeOne]
  split
  · rename_i hin
    rcases h with h | h
    · exact h
    · rw [h]; exact hin
  · rcases h with h | h
    · exact List.mem_append.mpr (Or.inl h)
    · exact List.mem_append.mpr (Or.inr (by simp [h]))

/-! ### The whole merge -/

theorem foldl_merge_sub (L acc : List BDecision) {e : BDecision} (h : e ∈ L.foldl mergeOne acc) :
    e ∈ acc ∨ e ∈ L := by
  induction L generalizing acc with
  | nil => exact Or.inl (by simpa using h)
  | cons x xs ih =>
    simp only [List.foldl_cons] at h
    rcases ih _ h with h1 | h1
    · rcases mem_mergeOne h1 with h2 | h2
      · exact Or.inl h2
      · exact Or.inr (by simp [h2])
    · exact Or.inr (by simp [h1])

theorem foldl_merge_nodup (L acc : List BDecision) (h : (acc.map BDecision.task).Nodup) :
    ((L.foldl mergeOne acc).map BDecision.task).Nodup := by
  induction L generalizing acc with
  | nil => simpa using h
  | cons x xs ih => simp only [List.foldl_cons]; exact ih _ (nodup_mergeOne x h)

theorem foldl_merge_covers (L acc : List BDecision) {t : Nat}
    (h : t ∈ acc.map BDecision.task ∨ t ∈ L.map BDecision.task) :
    t ∈ (L.foldl mergeOne acc).map BDecision.task := by
  induction L generalizing acc with
  | nil => rcases h with h | h
           · simpa using h
           · simp at h
  | cons x xs ih =>
    simp only [List.foldl_cons]
    apply ih
    rcases h with h | h
    · exact Or.inl (task_mem_mergeOne (Or.inl h))
    · simp only [List.map_cons, List.mem_cons] at h
      rcases h with h | h
      · exact Or.inl (task_mem_mergeOne (Or.inr h))
      · exact Or.inr h

/-- A *placed* Placement `D` survives the merge when every other placed Placement of the same
task (in the accumulator and in the rest of the input) is `D` itself. -/
theorem foldl_merge_keeps (D : BDecision) (hD : D.placed.isSome = true) (L acc : List BDecision)
    (hN : (acc.map BDecision.task).Nodup)
    (hP : ∀ e ∈ acc, e.task = D.task → e.placed.isSome = true → e = D)
    (hL : ∀ e ∈ L, e.task = D.task → e.placed.isSome = true → e = D)
    (h : D ∈ acc ∨ D ∈ L) : D ∈ L.foldl mergeOne acc := by
  induction L generalizing acc with
  | nil => rcases h with h | h
           · simpa using h
           · cases h
  | cons x xs ih =>
    simp only [List.foldl_cons]
    have hx : x.task = D.task → x.placed.isSome = true → x = D := hL x (by simp)
    have hP' : ∀ e ∈ mergeOne acc x, e.task = D.task → e.placed.isSome = true → e = D := by
      intro e he h1 h2
      rcases mem_mergeOne he with h3 | h3
      · exact hP e h3 h1 h2
      · subst h3; exact hx h1 h2
    apply ih (mergeOne acc x) (nodup_mergeOne x hN) hP' (fun e he => hL e (by simp [he]))
    -- D is in the new accumulator, or still to come
    by_cases hin : D ∈ acc
    · left
      -- D stays: the entry found for x's task is D itself (placed) or another task's entry
      unfold mergeOne
      split
      · exact List.mem_append.mpr (Or.inl hin)
      · rename_i e hf
        have he := find_some_task hf
        split
        · exact hin
        · rename_i hnp
          by_cases hxt : x.task = D.task
          · -- then e = D by Nodup, but D is placed: contradiction
            exfalso
            have heD : e = D := by
              have h1 : e.task = D.task := by rw [he.2, hxt]
              -- two elements of acc with the same task are equal
              clear ih hP' hL hx h hP
              induction acc with
              | nil => cases hin
              | cons a as iha =>
                simp only [List.map_cons, List.nodup_cons] at hN
                simp only [List.mem_cons] at hin
                have he1 := he.1
                simp only [List.mem_cons] at he1
                rcases hin with rfl | hin <;> rcases he1 with rfl | he1
                · rfl
                · exact absurd (List.mem_map.mpr ⟨e, he1, h1⟩) hN.1
                · exact absurd (List.mem_map.mpr ⟨D, hin, h1.symm⟩) hN.1
                · -- both in the tail: the find? on the tail also returns e
                  have hne : (a.task == x.task) = false := by
                    cases hc : (a.task == x.task) with
                    | false => rfl
                    | true =>
                      exfalso
                      have : a.task = x.task := by simpa using hc
                      exact hN.1 (List.mem_map.mpr ⟨D, hin, by rw [this, hxt]⟩)
                  have hf' : as.find? (fun e => e.task == x.task) = some e := by
                    simpa [List.find?_cons, hne] using hf
                  exact iha hN.2 hin hf' ⟨he1, he.2⟩
            rw [heD] at hnp
            exact hnp hD
          · -- x answers another task: D is not touched by the replacement
            apply List.mem_map.mpr
            refine ⟨D, hin, ?_⟩
            have : (D.task == x.task) = false := by
              cases hc : (D.task == x.task) with
              | false => rfl
              | true => exact absurd (by simpa using hc : D.task = x.task).symm hxt
            simp [this]
    · -- D not yet in acc
      have hrest : D = x ∨ D ∈ xs := by
        rcases h with h | h
        · exact absurd h hin
        · simpa using h
      rcases hrest with rfl | hxs
      · left
        unfold mergeOne
        split
        · exact List.mem_append.mpr (Or.inr (by simp))
        · rename_i e hf
          have he := find_some_task hf
          split
          · rename_i hpl
            have := hP e he.1 he.2 hpl
            rw [← this]; exact he.1
          · apply List.mem_map.mpr
            exact ⟨e, he.1, by simp [he.2]⟩
      · exact Or.inr hxs

/-! ### `decodeB` -/

/-- The Placements of all BatchTasks, before the merge. -/
def BInst.rawPlacements (I : BInst) (σ : Var → Int) : List BDecision :=
  I.nonRunning.flatMap (I.placementsOf σ)

theorem decodeB_eq (I : BInst) (σ : Var → Int) : decodeB I σ = (I.rawPlacements σ).foldl mergeOne [] := rfl

theorem mem_rawPlacements {I : BInst} {σ : Var → Int} {e : BDecision} :
    e ∈ I.rawPlacements σ ↔ ∃ b ∈ I.nonRunning, ∃ m ∈ I.members b,
      e = ⟨m, (I.chosen σ b).map (fun w => (b, w, σ (.start b)))⟩ := by
  simp only [BInst.rawPlacements, List.mem_flatMap, BInst.placementsOf, List.mem_map]
  constructor
  · rintro ⟨b, hb, m, hm, rfl⟩; exact ⟨b, hb, m, hm, rfl⟩
  · rintro ⟨b, hb, m, hm, rfl⟩; exact ⟨b, hb, m, hm, rfl⟩

/-- Every returned decision is the Placement some BatchTask produced for one of its members. -/
theorem decision_from_batch {I : BInst} {σ : Var → Int} {d : BDecision} (h : d ∈ decodeB I σ) :
    ∃ b ∈ I.nonRunning, d.task ∈ I.members b ∧
      d.placed = (I.chosen σ b).map (fun w => (b, w, σ (.start b))) := by
  rw [decodeB_eq] at h
  rcases foldl_merge_sub _ _ h with h | h
  · cases h
  · obtain ⟨b, hb, m, hm, rfl⟩ := mem_rawPlacements.mp h
    exact ⟨b, hb, hm, rfl⟩

/-- A placed decision names a BatchTask that holds the task, was chosen on that worker, and
carries that BatchTask's start. -/
theorem placed_decision_spec {I : BInst} {σ : Var → Int} {d : BDecision} (h : d ∈ decodeB I σ)
    {b w : Nat} {time : Int} (hp : d.placed = some (b, w, time)) :
    b ∈ I.nonRunning ∧ d.task ∈ I.members b ∧ I.chosen σ b = some w ∧ time = σ (.start b) := by
  obtain ⟨b', hb', hm, hpl⟩ := decision_from_batch h
  rw [hp] at hpl
  cases hc : I.chosen σ b' with
  | none => rw [hc] at hpl; cases hpl
  | some w' =>
    rw [hc] at hpl
    simp only [Option.map_some, Option.some.injEq, Prod.mk.injEq] at hpl
    obtain ⟨rfl, rfl, rfl⟩ := hpl
    exact ⟨hb', hm, hc, rfl⟩

end ErdosVerif.IlpBatch
