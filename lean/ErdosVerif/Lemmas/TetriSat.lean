/-
Extraction lemmas: what `sat σ (gen I)` says about the TetriSched models, in semantic
form (the *picked* cell of every task), so that the property theorems never unfold `gen`
again.
-/
import ErdosVerif.Lemmas.TetriSum
namespace ErdosVerif.Tetri
open ErdosVerif.Mip ErdosVerif.TetriSpec

/-! ### Membership in the generated model -/

theorem mem_act {I : Inst} {t : Nat} : t ∈ I.act ↔ t < I.nT ∧ I.active t = true := by
  simp [Inst.act, List.mem_filter, List.mem_range]

theorem mem_nonRunning {I : Inst} {t : Nat} :
    t ∈ I.nonRunning ↔ t < I.nT ∧ I.active t = true ∧ I.running t = false := by
  simp [Inst.nonRunning, List.mem_filter, mem_act, and_assoc]

theorem cellVars_sub {I : Inst} {t : Nat} (ht : t ∈ I.nonRunning) {d : VarDecl Var}
    (hd : d ∈ I.cellVars t) : d ∈ (gen I).vars := by
  unfold gen
  split
  · simp only [genC, Inst.varsC, List.mem_flatMap]
    exact ⟨t, ht, by simp [Inst.taskVarsC, hd]⟩
  · simp only [genG, Inst.varsG, List.mem_append, List.mem_flatMap]
    exact Or.inl ⟨t, ht, by simp [Inst.taskVarsG, hd]⟩

theorem placedVar_sub {I : Inst} {t : Nat} (ht : t ∈ I.nonRunning) {d : VarDecl Var}
    (hd : d ∈ I.placedVar t) : d ∈ (gen I).vars := by
  unfold gen
  split
  · simp only [genC, Inst.varsC, List.mem_flatMap]
    exact ⟨t, ht, by simp [Inst.taskVarsC, hd]⟩
  · simp only [genG, Inst.varsG, List.mem_append, List.mem_flatMap]
    exact Or.inl ⟨t, ht, by simp [Inst.taskVarsG, hd]⟩

theorem cPlace_sub {I : Inst} {t : Nat} (ht : t ∈ I.nonRunning) {c : Constr Var}
    (hc : c ∈ I.cPlace t) : c ∈ (gen I).constrs := by
  unfold gen
  split
  · simp only [genC, Inst.constrsC, List.mem_append, List.mem_flatMap]
    exact Or.inl ⟨t, ht, Or.inl hc⟩
  · simp only [genG, Inst.constrsG, List.mem_append, List.mem_flatMap]
    exact Or.inl (Or.inl ⟨t, ht, Or.inr hc⟩)

theorem cRes_sub {I : Inst} {c : Constr Var} (hc : c ∈ I.cRes) : c ∈ (gen I).constrs := by
  unfold gen
  split
  · simp only [genC, Inst.constrsC, List.mem_append]
    exact Or.inr hc
  · simp only [genG, Inst.constrsG, List.mem_append]
    exact Or.inr hc

theorem cSlotsG_sub {I : Inst} (hG : I.cplex = false) {t : Nat} (ht : t ∈ I.nonRunning) {c : Constr Var}
    (hc : c ∈ I.cSlotsG t) : c ∈ (gen I).constrs := by
  simp only [gen, hG, Bool.false_eq_true, if_false, genG, Inst.constrsG, List.mem_append, List.mem_flatMap]
  exact Or.inl (Or.inl ⟨t, ht, Or.inl hc⟩)

theorem cDeps_sub {I : Inst} (hG : I.cplex = false) {t : Nat} (ht : t ∈ I.nonRunning) {c : Constr Var}
    (hc : c ∈ I.cDeps t) : c ∈ (gen I).constrs := by
  simp only [gen, hG, Bool.false_eq_true, if_false, genG, Inst.constrsG, List.mem_append, List.mem_flatMap]
  exact Or.inl (Or.inr ⟨t, ht, hc⟩)

theorem taskVarsG_sub {I : Inst} (hG : I.cplex = false) {t : Nat} (ht : t ∈ I.nonRunning) {d : VarDecl Var}
    (hd : d ∈ I.taskVarsG t) : d ∈ (gen I).vars := by
  simp only [gen, hG, Bool.false_eq_true, if_false, genG, Inst.varsG, List.mem_append, List.mem_flatMap]
  exact Or.inl ⟨t, ht, hd⟩

theorem cRewardC_sub {I : Inst} (hC : I.cplex = true) {t : Nat} (ht : t ∈ I.nonRunning) :
    I.cRewardC t ∈ (gen I).constrs := by
  simp only [gen, hC, if_true, genC, Inst.constrsC, List.mem_append, List.mem_flatMap]
  exact Or.inl ⟨t, ht, by simp⟩

/-! ### Binary facts -/

theorem bin_of_decl {σ : Var → Int} {m : Model Var} (h : sat σ m) {v : Var}
    (hd : binDecl v ∈ m.vars) : σ v = 0 ∨ σ v = 1 := by
  have := (h.1 _ hd).1
  simpa [binDecl] using this

theorem cell_binary {I : Inst} {σ : Var → Int} (h : sat σ (gen I)) {t : Nat} (ht : t ∈ I.nonRunning)
    {q : Nat × Nat × Nat} (hq : q ∈ I.keys t) (hv : I.hasVar t q.1 q.2.1 q.2.2 = true) :
    σ (.cell t q.1 q.2.1 q.2.2) = 0 ∨ σ (.cell t q.1 q.2.1 q.2.2) = 1 := by
  apply bin_of_decl h
  apply cellVars_sub ht
  simp only [Inst.cellVars, List.mem_map, List.mem_filter]
  exact ⟨q, ⟨hq, hv⟩, rfl⟩

theorem cellVal_nonRunning {I : Inst} (σ : Var → Int) {t : Nat} (hr : I.running t = false)
    (q : Nat × Nat × Nat) :
    cellVal I σ t q = if I.hasVar t q.1 q.2.1 q.2.2 then σ (.cell t q.1 q.2.1 q.2.2) else 0 := by
  simp only [cellVal, Inst.cellE, hr, Inst.hasVar, Bool.false_eq_true, if_false, Bool.not_false, Bool.true_and]
  split <;> simp

theorem cellVal_running {I : Inst} (σ : Var → Int) {t : Nat} (hr : I.running t = true)
    (q : Nat × Nat × Nat) :
    cellVal I σ t q = if q = runningCell I t then 1 else 0 := by
  obtain ⟨w, k, s⟩ := q
  simp only [cellVal, Inst.cellE, hr, if_true, runningCell, Prod.mk.injEq]
  split <;> simp

/-! ### The picked cell -/

/-- The cell a task occupies under `σ`: fixed for a RUNNING task, the decoded one otherwise. -/
def pick (I : Inst) (σ : Var → Int) (t : Nat) : Option Cell :=
  if I.running t then some (runningCell I t) else I.chosen σ t

theorem planOf_get {I : Inst} (σ : Var → Int) {t : Nat} (ht : t < I.nT) :
    (planOf I σ).get t = if I.active t then pick I σ t else none := by
  simp only [Plan.get, planOf, List.getD_eq_getElem?_getD, List.getElem?_map, List.getElem?_range ht,
    Option.map_some, Option.getD_some, pick]
  cases I.active t <;> simp

theorem planOf_length (I : Inst) (σ : Var → Int) : (planOf I σ).length = I.nT := by
  simp [planOf]

theorem chosen_spec {I : Inst} {σ : Var → Int} {t : Nat} {q : Nat × Nat × Nat}
    (h : I.chosen σ t = some q) :
    q ∈ I.keys t ∧ I.hasVar t q.1 q.2.1 q.2.2 = true ∧ σ (.cell t q.1 q.2.1 q.2.2) = 1 := by
  have h1 := List.mem_of_find?_eq_some h
  have h2 := List.find?_some h
  simp only [Bool.and_eq_true, beq_iff_eq] at h2
  exact ⟨h1, h2.1, h2.2⟩

theorem chosen_none {I : Inst} {σ : Var → Int} {t : Nat} (h : I.chosen σ t = none)
    {q : Nat × Nat × Nat} (hq : q ∈ I.keys t) (hv : I.hasVar t q.1 q.2.1 q.2.2 = true) :
    σ (.cell t q.1 q.2.1 q.2.2) ≠ 1 := by
  have := List.find?_eq_none.mp h q hq
  simpa [hv] using this

theorem running_key {I : Inst} (hwf : I.wf = true) {t : Nat} (ht : t ∈ I.act) (hr : I.running t = true)
    (hm : I.noModel = false) : runningCell I t ∈ I.keys t := by
  simp only [Inst.wf, Bool.and_eq_true] at hwf
  obtain ⟨⟨⟨hR, _⟩, hG⟩, _⟩ := hwf
  have hR' := List.all_eq_true.mp hR t ht
  simp only [hr, Bool.not_true, Bool.false_or, Bool.and_eq_true, decide_eq_true_eq] at hR'
  simp only [Inst.wfGrid, Bool.and_eq_true, decide_eq_true_eq, hm, Bool.false_or] at hG
  exact mem_keys.mpr ⟨hR'.1.1.1, by simp [runningCell]; omega, hR'.1.1.2⟩

theorem pick_mem_keys {I : Inst} {σ : Var → Int} (hwf : I.wf = true) (hm : I.noModel = false)
    {t : Nat} (ht : t ∈ I.act) {q : Cell} (h : pick I σ t = some q) : q ∈ I.keys t := by
  unfold pick at h
  split at h
  · next hr =>
    have := running_key hwf ht hr hm
    simp only [Option.some.injEq] at h
    exact h ▸ this
  · exact (chosen_spec h).1

/-- The placement rows bound the number of chosen cells by one. -/
theorem sum_le_one {I : Inst} {σ : Var → Int} (h : sat σ (gen I)) {t : Nat} (ht : t ∈ I.nonRunning) :
    ksum I t (cellVal I σ t) ≤ 1 := by
  rw [← eval_sumCells]
  by_cases hm : I.must t = true
  · have hc : Constr.lin s!"{I.tname t}_previously_scheduled_required_worker_placement" (I.sumCells t) .eq 1
        ∈ I.cPlace t := by simp [Inst.cPlace, hm]
    have := h.2 _ (cPlace_sub ht hc)
    simp only [Constr.holds, Sense.holds] at this
    omega
  · have hc : Constr.lin s!"{I.tname t}_consistent_worker_placement" (I.sumCells t) .le 1
        ∈ I.cPlace t := by simp [Inst.cPlace, hm]
    have := h.2 _ (cPlace_sub ht hc)
    simpa only [Constr.holds, Sense.holds] using this

theorem cellVal_nonneg {I : Inst} {σ : Var → Int} (h : sat σ (gen I)) {t : Nat} (ht : t ∈ I.nonRunning)
    {q : Nat × Nat × Nat} (hq : q ∈ I.keys t) : 0 ≤ cellVal I σ t q ∧ cellVal I σ t q ≤ 1 := by
  rw [cellVal_nonRunning σ (mem_nonRunning.mp ht).2.2]
  split
  · next hv => rcases cell_binary h ht hq hv with h0 | h1 <;> omega
  · omega

/-- Two different keys cannot both be chosen. -/
theorem ksum_two_le {I : Inst} {t : Nat} (F : Nat × Nat × Nat → Int) (hF : ∀ q ∈ I.keys t, 0 ≤ F q)
    {q0 q : Nat × Nat × Nat} (h0 : q0 ∈ I.keys t) (hq : q ∈ I.keys t) (hne : q ≠ q0) :
    F q0 + F q ≤ ksum I t F := by
  have hsplit : ksum I t F = ksum I t (fun p => if p = q0 then 0 else F p) +
      ksum I t (fun p => if p = q0 then F q0 else 0) := by
    unfold ksum
    rw [← isum_map_add]
    apply isum_map_congr
    intro p _
    by_cases hp : p = q0 <;> simp [hp]
  have h1 : ksum I t (fun p => if p = q0 then F q0 else 0) = F q0 := by
    rw [ksum_single I t _ q0 h0]
    · simp
    · intro p _ hp; simp [hp]
  have h2 : F q ≤ ksum I t (fun p => if p = q0 then 0 else F p) := by
    have hm : (fun p => if p = q0 then 0 else F p) q ∈ (I.keys t).map (fun p => if p = q0 then 0 else F p) :=
      List.mem_map.mpr ⟨q, hq, rfl⟩
    have := le_isum_of_mem (l := (I.keys t).map (fun p => if p = q0 then 0 else F p)) (by
      intro a ha
      obtain ⟨p, hp, rfl⟩ := List.mem_map.mp ha
      by_cases hpq : p = q0
      · simp [hpq]
      · simpa [hpq] using hF p hp) hm
    simpa [hne, ksum] using this
  omega

/-- Every matrix entry of a task with variables is 1 at the picked cell and 0 elsewhere. -/
theorem cellVal_pick {I : Inst} {σ : Var → Int} (h : sat σ (gen I)) (_hwf : I.wf = true)
    {t : Nat} (ht : t ∈ I.act) {q : Nat × Nat × Nat} (hq : q ∈ I.keys t) :
    cellVal I σ t q = if pick I σ t = some q then 1 else 0 := by
  by_cases hr : I.running t = true
  · rw [cellVal_running σ hr, pick]
    simp only [hr, if_true, Option.some.injEq]
    by_cases hqr : q = runningCell I t
    · simp [hqr]
    · have : ¬ runningCell I t = q := fun e => hqr e.symm
      simp [hqr, this]
  · have hr' : I.running t = false := by simpa using hr
    have htn : t ∈ I.nonRunning := mem_nonRunning.mpr ⟨(mem_act.mp ht).1, (mem_act.mp ht).2, hr'⟩
    simp only [pick, hr', Bool.false_eq_true, if_false]
    cases hc : I.chosen σ t with
    | none =>
      simp only [reduceCtorEq, if_false]
      rw [cellVal_nonRunning σ hr']
      split
      · next hv =>
        have hne := chosen_none hc hq hv
        rcases cell_binary h htn hq hv with h0 | h1
        · exact h0
        · exact absurd h1 hne
      · rfl
    | some q0 =>
      obtain ⟨h0k, h0v, h01⟩ := chosen_spec hc
      have hv0 : cellVal I σ t q0 = 1 := by rw [cellVal_nonRunning σ hr']; simp [h0v, h01]
      by_cases hqq : q = q0
      · subst hqq; simp [hv0]
      · have : ¬ q0 = q := fun e => hqq e.symm
        simp only [Option.some.injEq, this, if_false]
        have hle := sum_le_one h htn
        have h2 := ksum_two_le (I := I) (t := t) (cellVal I σ t)
          (fun p hp => (cellVal_nonneg h htn hp).1) h0k hq hqq
        have := (cellVal_nonneg h htn hq).1
        omega

/-- Any key sum of terms that vanish with the cell value collapses to the picked cell. -/
theorem ksum_pick {I : Inst} {σ : Var → Int} (h : sat σ (gen I)) (hwf : I.wf = true)
    (hm : I.noModel = false) {t : Nat} (ht : t ∈ I.act) (F : Nat × Nat × Nat → Int → Int)
    (hF : ∀ q, F q 0 = 0) :
    ksum I t (fun q => F q (cellVal I σ t q)) =
      match pick I σ t with
      | some q0 => F q0 1
      | none => 0 := by
  cases hp : pick I σ t with
  | none =>
    apply ksum_zero
    intro q hq
    rw [cellVal_pick h hwf ht hq, hp]
    simp [hF]
  | some q0 =>
    have hk := pick_mem_keys hwf hm ht hp
    rw [ksum_single I t _ q0 hk]
    · rw [cellVal_pick h hwf ht hk, hp]; simp
    · intro q hq hne
      rw [cellVal_pick h hwf ht hq, hp]
      have : ¬ q0 = q := fun e => hne e.symm
      simp [this, hF]

theorem sumCells_pick {I : Inst} {σ : Var → Int} (h : sat σ (gen I)) (hwf : I.wf = true)
    (hm : I.noModel = false) {t : Nat} (ht : t ∈ I.act) :
    (I.sumCells t).eval σ = if (pick I σ t).isSome then 1 else 0 := by
  rw [eval_sumCells]
  have := ksum_pick h hwf hm ht (fun _ v => v) (fun _ => rfl)
  rw [this]
  cases pick I σ t <;> simp

/-- `is_placed` is 1 exactly when the task has a picked cell. -/
theorem isPlacedE_eval {I : Inst} {σ : Var → Int} (h : sat σ (gen I)) (hwf : I.wf = true)
    (hm : I.noModel = false) {t : Nat} (ht : t ∈ I.act) :
    (I.isPlacedE t).eval σ = if (pick I σ t).isSome then 1 else 0 := by
  by_cases hr : I.running t = true
  · simp [Inst.isPlacedE, hr, pick]
  · have hr' : I.running t = false := by simpa using hr
    have htn : t ∈ I.nonRunning := mem_nonRunning.mpr ⟨(mem_act.mp ht).1, (mem_act.mp ht).2, hr'⟩
    have hs := sumCells_pick h hwf hm ht
    by_cases hmu : I.must t = true
    · have hc : Constr.lin s!"{I.tname t}_previously_scheduled_required_worker_placement" (I.sumCells t) .eq 1
          ∈ I.cPlace t := by simp [Inst.cPlace, hmu]
      have := h.2 _ (cPlace_sub htn hc)
      simp only [Constr.holds, Sense.holds] at this
      simp only [Inst.isPlacedE, hr', hmu, Bool.false_or, if_true, LinExpr.eval_ofConst]
      rw [hs] at this
      split <;> simp_all
    · have hc : Constr.lin s!"{I.tname t}_is_placed_constraint"
          (LinExpr.sub (LinExpr.ofVar (.isPlaced t)) (I.sumCells t)) .eq 0 ∈ I.cPlace t := by
        simp [Inst.cPlace, hmu]
      have := h.2 _ (cPlace_sub htn hc)
      simp only [Constr.holds, Sense.holds, LinExpr.eval_sub, LinExpr.eval_ofVar] at this
      have hmu' : I.must t = false := by simpa using hmu
      simp only [Inst.isPlacedE, hr', hmu', Bool.false_or, Bool.false_eq_true, if_false, LinExpr.eval_ofVar]
      omega

/-- A task that must be placed (SCHEDULED, non-retracting mode) has a picked cell. -/
theorem must_picked {I : Inst} {σ : Var → Int} (h : sat σ (gen I)) (hwf : I.wf = true)
    (hm : I.noModel = false) {t : Nat} (ht : t ∈ I.act) (hmu : I.must t = true) :
    (pick I σ t).isSome = true := by
  by_cases hr : I.running t = true
  · simp [pick, hr]
  · have hr' : I.running t = false := by simpa using hr
    have htn : t ∈ I.nonRunning := mem_nonRunning.mpr ⟨(mem_act.mp ht).1, (mem_act.mp ht).2, hr'⟩
    have hc : Constr.lin s!"{I.tname t}_previously_scheduled_required_worker_placement" (I.sumCells t) .eq 1
        ∈ I.cPlace t := by simp [Inst.cPlace, hmu]
    have := h.2 _ (cPlace_sub htn hc)
    simp only [Constr.holds, Sense.holds] at this
    rw [sumCells_pick h hwf hm ht] at this
    by_cases hp : (pick I σ t).isSome = true
    · exact hp
    · simp [hp] at this

end ErdosVerif.Tetri
