import ErdosVerif.Lemmas.SimLedgerRun
/-!
# C04 over a whole run — held iff resident

The ledger-level laws of `Props/C04.lean` quantify over arbitrary operation histories on one
pool. Here: in every state a run of the simulator model `Model/Sim.lean` can be in — at the head
of the `simulate()` loop, at a normal end, out of fuel, or at the raise point of an aborted
handler (any world satisfying the decidable predicate `lwf0`, any decision tape, any draw tape,
any fuel) — for every worker of every pool the ledger
entries keyed by tasks are exactly the residents placed with a non-batch strategy, the entries
keyed by batch placeholders are exactly the placeholders of the live batches (whose members are
exactly the residents placed with the batch's strategy), and every profile entry belongs to a
profile that is loaded or loading (`Lemmas/SimLedgerRun*.lean`).
-/
namespace ErdosVerif.C04
open ErdosVerif.Model ErdosVerif.Model.Sim

/-- The set equations for one worker (task keys, batch placeholders and batch membership), and
the inclusion for profile keys. -/
def HeldIffResident (w : Worker) : Prop :=
  (∀ t, Comp.task t ∈ AList.keys w.res.allocs ↔ ∃ s, AList.get? w.placed t = some s ∧ s.isBatch = false) ∧
  (∀ p, Comp.profile p ∈ AList.keys w.res.allocs → p ∈ AList.keys w.availProf ∨ p ∈ AList.keys w.pendProf) ∧
  (AList.keys w.res.allocs).Nodup ∧ (AList.keys w.placed).Nodup ∧
  (∀ g, Comp.batch g ∈ AList.keys w.res.allocs ↔
    ∃ sid, AList.get? w.batchTask sid = some (.batch g) ∧ sid ∈ AList.keys w.batches) ∧
  (∀ t s, AList.get? w.placed t = some s → s.isBatch = true → ∃ ms, AList.get? w.batches s.sid = some ms ∧ t ∈ ms) ∧
  (∀ sid ms, AList.get? w.batches sid = some ms → ms.Nodup ∧ ms ≠ [] ∧
    ∀ t ∈ ms, ∃ s, AList.get? w.placed t = some s ∧ s.isBatch = true ∧ s.sid = sid) ∧
  (∀ sid sid' c, AList.get? w.batchTask sid = some c → AList.get? w.batchTask sid' = some c → sid = sid')

theorem heldIffResident_of_tok (w : Worker) (hl : w.LOK) : HeldIffResident w := by
  obtain ⟨h, hb⟩ := hl
  refine ⟨?_, ?_, h.anodup, h.pnodup, ?_, hb.memBatch, hb.batchMem, hb.btInj⟩
  rotate_left 2
  · intro g
    constructor
    · intro hm
      have := AList.get?_isSome_of_mem _ _ hm
      cases hg : AList.get? w.res.allocs (.batch g) with
      | none => simp [hg] at this
      | some l =>
        obtain ⟨sid, h1, h2⟩ := hb.heldBatch g l hg
        exact ⟨sid, h1, (AList.lr_has_iff_mem _ _).mp h2⟩
    · rintro ⟨sid, h1, h2⟩
      have := AList.get?_isSome_of_mem _ _ h2
      cases hms : AList.get? w.batches sid with
      | none => simp [hms] at this
      | some ms =>
        obtain ⟨g', l, s0, h3, h4, _⟩ := hb.batchHeld sid ms hms
        rw [h1] at h3; cases h3
        exact AList.mem_keys_of_get?_some _ _ _ h4
  · intro t
    constructor
    · intro hm
      have := AList.get?_isSome_of_mem _ _ hm
      cases hg : AList.get? w.res.allocs (.task t) with
      | none => simp [hg] at this
      | some l => exact h.heldTask t l hg
    · rintro ⟨s, hs, hb⟩
      obtain ⟨l, hl, _⟩ := h.taskHeld t s hs hb
      exact AList.mem_keys_of_get?_some _ _ _ hl
  · intro p hm
    have := AList.get?_isSome_of_mem _ _ hm
    cases hg : AList.get? w.res.allocs (.profile p) with
    | none => simp [hg] at this
    | some l =>
      rcases h.heldProf p l hg with h1 | h1
      · exact Or.inl ((AList.lr_has_iff_mem _ _).mp h1)
      · exact Or.inr ((AList.lr_has_iff_mem _ _).mp h1)

/-- **Held iff resident in every state a run can be in** — after the constructor and any number
of loop iterations, ended normally, out of fuel or aborted by an exception at any point of any
handler: for every worker, a task key is in the ledger iff the task is resident with a non-batch
strategy; a `.batch` key is in the ledger iff it is the placeholder of a live batch, whose members
are exactly the residents placed with the batch's strategy; profile entries belong to loaded or
loading profiles; no key occurs twice. -/
theorem held_iff_resident (s0 : SimS) (fuel : Nat) (h : lwf0 s0 = true) :
    ∀ p ∈ (simulate s0 fuel).2.pools.toList, ∀ w ∈ p.workers, HeldIffResident w :=
  fun p hp w hw => heldIffResident_of_tok w ((simulate_ledger_weak s0 fuel (good_initial s0 h)).2 p hp w hw)

/-- The same when the run ended normally (a corollary, kept for the registry). -/
theorem held_iff_resident_at_end (s0 : SimS) (fuel : Nat) (h : lwf0 s0 = true) (_hok : (simulate s0 fuel).1 = none) :
    ∀ p ∈ (simulate s0 fuel).2.pools.toList, ∀ w ∈ p.workers, HeldIffResident w :=
  held_iff_resident s0 fuel h

/-- **… and at the head of the `simulate()` loop after any number `k` of completed iterations**
(and at the raise point if one of them raised). -/
theorem held_iff_resident_at_loop_head (s0 : SimS) (k : Nat) (h : lwf0 s0 = true) :
    HoldsAfter (fun _ s => ∀ p ∈ s.pools.toList, ∀ w ∈ p.workers, HeldIffResident w)
      (fun s => ∀ p ∈ s.pools.toList, ∀ w ∈ p.workers, HeldIffResident w)
      ((ExceptT.run (do init; runK k : SimM Bool)).run s0) := by
  have := loop_head_ledger s0 k (good_initial s0 h)
  revert this
  cases (StateT.run (ExceptT.run (do init; runK k : SimM Bool)) s0) with
  | mk r s =>
    cases r with
    | ok a => intro hA p hp w hw; exact heldIffResident_of_tok w (hA.2 p hp w hw)
    | error e => intro hW p hp w hw; exact heldIffResident_of_tok w (hW.2 p hp w hw)

/-- **In every reachable state a refused `Worker.remove_task` changes nothing, and `remove_task` of
a resident task is never refused** — batch members included (the full form of
`refusal_noop_remove_partial`, under the invariant of the run). -/
theorem refusal_noop_remove_in_run (s0 : SimS) (fuel : Nat) (h : lwf0 s0 = true) :
    ∀ p ∈ (simulate s0 fuel).2.pools.toList, ∀ w ∈ p.workers, ∀ t,
      ((w.removeTask t).2 ≠ .ok → (w.removeTask t).1 = w) ∧
      (t ∈ AList.keys w.placed → (w.removeTask t).2 = .ok) := by
  intro p hp w hw t
  have hl := (simulate_ledger_weak s0 fuel (good_initial s0 h)).2 p hp w hw
  refine ⟨Worker.removeTask_refused_of_LOK w t hl, ?_⟩
  intro hm
  have := AList.get?_isSome_of_mem _ _ hm
  cases hs : AList.get? w.placed t with
  | none => simp [hs] at this
  | some s => exact Worker.removeTask_ok_of_LOK w t s hl hs

/-- **`sim_idle_full` over every run**: in every state a run can be in, a worker on which no task
is resident and no profile is loaded or loading has an empty ledger and its whole capacity
available. -/
theorem idle_worker_full_in_run (s0 : SimS) (fuel : Nat) (h : lwf0 s0 = true) :
    ∀ p ∈ (simulate s0 fuel).2.pools.toList, ∀ w ∈ p.workers,
      w.placed = [] → w.availProf = [] → w.pendProf = [] → w.res.allocs = [] ∧ w.res.avail = w.res.total := by
  intro p hp w hw hpl hav hpe
  obtain ⟨ht, hb⟩ := (simulate_ledger_weak s0 fuel (good_initial s0 h)).2 p hp w hw
  have hempty : w.res.allocs = [] := by
    cases ha : w.res.allocs with
    | nil => rfl
    | cons e rest =>
      exfalso
      obtain ⟨c, l⟩ := e
      have hg : AList.get? w.res.allocs c = some l := by rw [ha]; simp [AList.get?]
      cases c with
      | task t =>
        obtain ⟨s, hs, _⟩ := ht.heldTask t l hg
        rw [hpl] at hs; simp [AList.get?] at hs
      | profile q =>
        rcases ht.heldProf q l hg with h1 | h1
        · rw [hav] at h1; simp [AList.has, AList.get?] at h1
        · rw [hpe] at h1; simp [AList.has, AList.get?] at h1
      | batch g =>
        obtain ⟨sid, _, h2⟩ := hb.heldBatch g l hg
        cases hms : AList.get? w.batches sid with
        | none => simp [AList.has, hms] at h2
        | some ms =>
          obtain ⟨_, hne, hmem⟩ := hb.batchMem sid ms hms
          cases ms with
          | nil => exact hne rfl
          | cons t0 _ =>
            obtain ⟨s, hs, _⟩ := hmem t0 (List.mem_cons_self ..)
            rw [hpl] at hs; simp [AList.get?] at hs
  exact ⟨hempty, Resources.empty_full w.res ht.rinv hempty⟩

/-- Non-vacuity: a worker with one resident task satisfies the set equation, a worker whose
ledger forgot the task does not; a worker with a two-member batch (one placeholder entry). -/
example :
    let st : Strategy := ⟨0, false, 1, 5, [(⟨"GPU", none⟩, 1)]⟩
    let w1 := ((Worker.ofVec [(⟨"GPU", some 1⟩, 1)]).placeTask 7 st).1
    HeldIffResident w1 ∧ ¬ HeldIffResident { w1 with res := { w1.res with allocs := [] } } := by
  intro st w1
  refine ⟨?_, ?_⟩
  · exact heldIffResident_of_tok _ (Worker.lk_placeTask _ 7 _ (Worker.LOK.ofVec _ (by decide)) (by decide) (by decide))
  · intro h
    have : Comp.task 7 ∈ AList.keys ([] : AList Comp (List (Res × Nat))) := (h.1 7).mpr ⟨st, by decide, rfl⟩
    cases this

/-- Non-vacuity (batches): two members of one batch strategy on a one-GPU worker — one live batch
with both members, one placeholder entry in the ledger. -/
example :
    let bs : Strategy := ⟨3, true, 2, 5, [(⟨"GPU", none⟩, 1)]⟩
    let w0 := Worker.ofVec [(⟨"GPU", some 1⟩, 1)]
    let w1 := (w0.placeTask 7 bs).1
    let w2 := (w1.placeTask 8 bs).1
    HeldIffResident w2 ∧ AList.keys w2.res.allocs = [.batch 0] ∧ AList.get? w2.batches 3 = some [7, 8] := by
  intro bs w0 w1 w2
  have h1 : w1.LOK := Worker.lk_placeTask _ 7 _ (Worker.LOK.ofVec _ (by decide)) (by decide) (by decide)
  have h2 : w2.LOK := Worker.lk_placeTask _ 8 _ h1 (by decide) (by decide)
  exact ⟨heldIffResident_of_tok _ h2, by decide, by decide⟩

/-! ### profiles: the converse inclusion is FALSE of the model (finding)

`Worker.load_profile` of a profile that is already loaded puts it into `_pending_profiles` as well
(and charges the ledger entry a second time); `evict_profile` then deallocates the whole entry but
removes the profile from `_available_profiles` only. The profile stays in `_pending_profiles`,
later becomes available again, and holds nothing. The decision tape is arbitrary in the model: a
policy that emits LOAD_PROFILE for a loaded profile and then EVICT_PROFILE reaches this state. -/

/-- The worker of the counterexample worlds: pool 0, worker 0. -/
def cxWorker (s : SimS) : Option Worker := (s.pools[0]?).bind (fun p => p.workers[0]?)

def cxLoadNow : Strategy := ⟨9, false, 1, 0, [(⟨"GPU", none⟩, 1)]⟩
def cxLoadSlow : Strategy := ⟨9, false, 1, 100, [(⟨"GPU", none⟩, 1)]⟩

/-- One pool with one two-GPU worker, no task graph; the first scheduler answer loads profile 5
(at 1), loads it again (at 2) and evicts it (at 3). -/
def cxWorld : SimS :=
  { flags := { loopTimeout := 1000 }, jobs := #[], allGraphs := #[], allMeta := #[],
    pools := #[⟨[Worker.ofVec [(⟨"GPU", some 1⟩, 2)]], []⟩], poolNames := #["pool"], tape := [],
    decisions := [⟨[{ kind := .load, task := ⟨0, 0⟩, profile := 5, time := some 1, pool := some 0, worker := some 0,
                      strat := some cxLoadNow },
                    { kind := .load, task := ⟨0, 0⟩, profile := 5, time := some 2, pool := some 0, worker := some 0,
                      strat := some cxLoadSlow },
                    { kind := .evict, task := ⟨0, 0⟩, profile := 5, time := some 3, pool := some 0, worker := some 0 }],
                   1, none⟩,
                  ⟨[], 1, none⟩, ⟨[], 1, none⟩, ⟨[], 1, none⟩, ⟨[], 1, none⟩] }

set_option maxRecDepth 100000 in
/-- **COUNTEREXAMPLE (finding): "loaded ⇒ held" fails for profiles.** A run from a well-formed
world ends normally with profile 5 loaded (`_available_profiles`) on a worker whose ledger is
empty and whose capacity is entirely available. -/
theorem profile_loaded_without_entry_counterexample :
    lwf0 cxWorld = true ∧ (simulate cxWorld 30).1 = none ∧
    (cxWorker (simulate cxWorld 30).2).map (fun w => AList.keys w.availProf) = some [5] ∧
    (cxWorker (simulate cxWorld 30).2).map (fun w => w.res.allocs) = some [] ∧
    (cxWorker (simulate cxWorld 30).2).map (fun w => decide (w.res.avail = w.res.total)) = some true := by
  decide +kernel

end ErdosVerif.C04
