import ErdosVerif.Model.Strl
namespace ErdosVerif.C20
open ErdosVerif.Strl

/-- The utility read back at the root is the value of the model objective. -/
theorem objective_eq_utility (ctx : Ctx) (σ : Assign) (name : String) (cs : List Expr) :
    (populate ctx σ (.obj name cs)).utility = some ((compile ctx (.obj name cs)).objective σ) := by
  simp only [populate]
  split <;> simp_all

end ErdosVerif.C20
