/-
C20 — STRL compilation: every model solution is a valid space-time allocation.
Property theorems over the model `ErdosVerif.Strl` (Model/Strl.lean, Model/StrlSem.lean).
-/
import ErdosVerif.Lemmas.StrlCap
import ErdosVerif.Lemmas.StrlExact
import ErdosVerif.Lemmas.StrlMax
import ErdosVerif.Lemmas.StrlStruct
import ErdosVerif.Lemmas.StrlSpan
namespace ErdosVerif.C20
open ErdosVerif.Strl

/-- The utility read back at the root is the value of the model objective. -/
theorem objective_eq_utility (ctx : Ctx) (σ : Assign) (name : String) (cs : List Expr) :
    (populate ctx σ (.obj name cs)).utility = some ((compile ctx (.obj name cs)).objective σ) := by
  simp only [populate]
  split
  · rename_i h
    have h' : (compile ctx (.obj name cs)).objective σ = 0 := by simpa using h
    rw [h']
  · rfl

/- Full statement (NOT claimed; false for the current code, see
`capacity_unaligned_counterexample`):

  theorem capacity_sound_full (ctx) (name) (cs) (σ) (hg : 0 < ctx.gran)
      (hfeas : (compile ctx (.obj name cs)).feasible σ = true)
      (pid) (p) (hp : ctx.find pid = some p) (t : Nat) :
      usageAt (populate ctx σ (.obj name cs)).placements pid t
        + allocUsageAt pid t (.obj name cs) ≤ p.qty

The proved theorem adds the hypothesis `Aligned ctx.gran root` (all leaf start times agree
modulo the granularity), which excludes exactly the failing class C20-F1. -/

/-- **Capacity.** For every tree whose leaf start times agree modulo the granularity
(always the case for granularity 1), every assignment that satisfies the compiled model,
every partition the context knows and every time `t`: what the placements read back by
`populateResults` hold of the partition at `t`, plus what the Allocation leaves hold, is
within the partition's quantity. -/
theorem capacity_sound_partial (ctx : Ctx) (name : String) (cs : List Expr) (σ : Assign)
    (hg : 0 < ctx.gran) (hal : Aligned ctx.gran (.obj name cs))
    (hfeas : (compile ctx (.obj name cs)).feasible σ = true)
    (pid : Nat) (p : Partition) (hp : ctx.find pid = some p) (t : Nat) :
    usageAt (populate ctx σ (.obj name cs)).placements pid t
      + allocUsageAt pid t (.obj name cs) ≤ p.qty := by
  obtain ⟨r, hr⟩ := hal
  simp only [alignedTo] at hr
  rw [compile_obj] at hfeas
  simp only [MipModel.feasible, Bool.and_eq_true, List.all_eq_true] at hfeas
  obtain ⟨hvars, hcons⟩ := hfeas
  have hl := list_inv ctx σ pid t r p hg hp cs [] 0 hr hvars
  have hm := mergeChildren_le (populateList ctx σ [] 0 cs) pid t hl.1
  have hok := list_regs_ok ctx cs [] 0
  generalize compileList ctx [] 0 cs = outs at hl hcons hok
  have hcons' : ∀ c ∈ capConstrs (outs.flatMap (·.2.regs)), Constr.holds σ c = true :=
    fun c hc => hcons c (List.mem_append_right _ hc)
  have hcap : regSum σ pid (slotKey ctx.gran r t) (outs.flatMap (·.2.regs)) ≤ p.qty :=
    cap_bound _ _ _ _ _ _ hp hok hcons'

  rw [populate_obj_placements]
  simp only [allocUsageAt]
  have := hl.2
  have := hm.2
  omega

/-- **Exact demand and duration, nothing for unsatisfied Chooses.** Every placement read back
from an assignment that satisfies the compiled model is exactly one Choose leaf of the tree:
its task name, its start, end = start + duration, start not in the past, quantities that sum
to the requested amount, every entry dated at the start, positive, taken from a partition the
Choose listed and that is available, within that partition's quantity. (A Choose whose
indicator is 0 yields no placement: `populate` only builds one when `utility·indicator ≠ 0`.) -/
theorem choose_exact (ctx : Ctx) (name : String) (cs : List Expr) (σ : Assign)
    (hfeas : (compile ctx (.obj name cs)).feasible σ = true) :
    ∀ pl ∈ (populate ctx σ (.obj name cs)).placements,
      ∃ c ∈ chooseLeaves (.obj name cs), pl.matches ctx c := by
  intro pl hpl
  rw [compile_obj] at hfeas
  simp only [MipModel.feasible, Bool.and_eq_true, List.all_eq_true] at hfeas
  obtain ⟨hvars, hcons⟩ := hfeas
  rw [populate_obj_placements] at hpl
  obtain ⟨s, hs, hps⟩ := mem_mergeChildren _ _ hpl
  simp only [chooseLeaves]
  exact list_matches ctx σ cs [] 0 hvars (fun c h => hcons c (List.mem_append_left _ h)) s hs pl hps


/-- **Max: at most one child.** In every tree the C++ accepts at construction time (`buildErr`:
the children of a `Max` are Choose leaves), for every assignment that satisfies the compiled
model, the solution of every `Max` node of the tree carries at most one placement. -/
theorem max_at_most_one (ctx : Ctx) (name : String) (cs : List Expr) (σ : Assign)
    (hb : buildErr (.obj name cs) = none)
    (hfeas : (compile ctx (.obj name cs)).feasible σ = true) :
    forallMax (fun path n ch => (populateNode ctx σ path (.max n ch)).placements.length ≤ 1)
      [] (.obj name cs) := by
  rw [compile_obj] at hfeas
  simp only [MipModel.feasible, Bool.and_eq_true, List.all_eq_true] at hfeas
  obtain ⟨hvars, hcons⟩ := hfeas
  simp only [forallMax]
  simp only [buildErr] at hb
  exact list_max_one ctx σ cs [] 0 hb hvars (fun c h => hcons c (List.mem_append_left _ h))

/- Full statement (NOT claimed; false for the current code, see
`static_lessthan_counterexample`): `structure_sound_full` = the theorem below without the
hypothesis `noStaticLt`. -/

/-- **Min / Max / LessThan structure.** In every tree the C++ accepts at construction time in
which no `LessThan` is decided at compile time (`noStaticLt`, excludes exactly the class
C20-F2), for every assignment that satisfies the compiled model, at every node of the tree
(`nodeClause`): a node without utility or with indicator 0 reports no placement ("nothing for
unsatisfied ones"); a `Min` that reports a placement has every child with utility and
indicator 1 ("all children"); a `Max` reports at most one placement; for a `LessThan` whose
children both provide utility the first child's end time is no later than the second child's
start time, and if it reports a placement both children have indicator 1. -/
theorem structure_sound_partial (ctx : Ctx) (name : String) (cs : List Expr) (σ : Assign)
    (hb : buildErr (.obj name cs) = none)
    (hns : noStaticLt ctx [] (.obj name cs) = true)
    (hfeas : (compile ctx (.obj name cs)).feasible σ = true) :
    forallNodesL (nodeClause ctx σ) [] 0 cs := by
  rw [compile_obj] at hfeas
  simp only [MipModel.feasible, Bool.and_eq_true, List.all_eq_true] at hfeas
  obtain ⟨hvars, hcons⟩ := hfeas
  simp only [buildErr] at hb
  simp only [noStaticLt] at hns
  exact list_structure ctx σ cs [] 0 hb hns hvars (fun c h => hcons c (List.mem_append_left _ h))

/-- **LessThan: first child ends before the second starts (on the placements).** In every
tree the C++ compiles without an exception (`wf`) and in which no `LessThan` is decided at
compile time, for every assignment that satisfies the compiled model, at every node
(`spanClause`): if the node provides utility and has indicator 1, its reported start is no
later than its reported end and every placement it reports lies in between (`Span`); and for a
satisfied `LessThan`, every placement reported by the first child ends no later than any
placement reported by the second child starts (`LtOrder`). -/
theorem span_sound_partial (ctx : Ctx) (name : String) (cs : List Expr) (σ : Assign)
    (hw : wf ctx (.obj name cs) = none)
    (hns : noStaticLt ctx [] (.obj name cs) = true)
    (hfeas : (compile ctx (.obj name cs)).feasible σ = true) :
    forallNodesL (spanClause ctx σ) [] 0 cs := by
  rw [compile_obj] at hfeas
  simp only [MipModel.feasible, Bool.and_eq_true, List.all_eq_true] at hfeas
  obtain ⟨hvars, hcons⟩ := hfeas
  simp only [noStaticLt] at hns
  unfold wf at hw
  have hb : buildErr (.obj name cs) = none := by
    split at hw
    · simp at hw
    · assumption
  have hwl : wfList ctx [] 0 cs = none := by
    rw [hb] at hw
    simp only at hw
    split at hw
    · simp at hw
    · exact hw
  simp only [buildErr] at hb
  exact (list_span ctx σ cs [] 0 hb hwl hns hvars (fun c h => hcons c (List.mem_append_left _ h))).2

/-- **A satisfied Choose gets its placement.** A Choose that provides utility, has indicator 1
under the assignment and a non-zero utility reports exactly one placement carrying its task
name, its start and its end = start + duration (its allocation is described by `choose_exact`).
The hypothesis `u ≠ 0` excludes exactly the class C20-F5. -/
theorem choose_satisfied_placed (ctx : Ctx) (σ : Assign) (path : Path) (name strategy : String)
    (parts : List Nat) (n start dur : Nat) (u : Int) (hu : u ≠ 0)
    (hutil : (compileNode ctx path (.choose name strategy parts n start dur u)).pr.util = true)
    (h1 : indVal σ (compileNode ctx path (.choose name strategy parts n start dur u)).pr = 1) :
    ∃ allocs, (populateNode ctx σ path (.choose name strategy parts n start dur u)).placements
      = [⟨name, start, (start : Int) + dur, allocs⟩] :=
  choose_placed ctx σ path name strategy parts n start dur u hu hutil h1

/-- Non-vacuity of `capacity_sound_partial` and `choose_exact`: an aligned tree (granularity 2, starts 0 and 2), a feasible
assignment that places `A` and `B` on one slot each of the 2-slot partition `P0` during [2,4). -/
def ctxOK : Ctx := ⟨[⟨0, "P0", 2⟩], [0], 0, 2⟩
def treeOK : Expr :=
  .obj "O" [.max "M" [.choose "A" "" [0] 1 0 2 3, .choose "A" "" [0] 1 2 2 1],
            .min "N" [.choose "B" "" [0] 1 2 2 2, .alloc "R" [(0, 1)] 0 2]]
def σOK : Assign := fun v =>
  if v = ⟨[1, 0], .placed⟩ ∨ v = ⟨[1, 0], .using 0⟩ ∨ v = ⟨[0, 1], .placed⟩ ∨ v = ⟨[0, 1], .using 0⟩
    ∨ v = ⟨[0], .maxInd⟩ ∨ v = ⟨[1], .minInd⟩ then 1
  else if v = ⟨[0], .maxStart⟩ then 2
  else if v = ⟨[0], .maxEnd⟩ ∨ v = ⟨[1], .minEnd⟩ then 4 else 0

example : (compile ctxOK treeOK).feasible σOK = true ∧ alignedTo ctxOK.gran 0 treeOK = true ∧
    buildErr treeOK = none ∧ wf ctxOK treeOK = none ∧ noStaticLt ctxOK [] treeOK = true ∧
    (populate ctxOK σOK treeOK).placements.map (·.name) = ["A", "B"] ∧
    usageAt (populate ctxOK σOK treeOK).placements 0 2 = 2 := by
  refine ⟨by decide, by decide, by decide, by decide, by decide, by decide, by decide⟩

/-! ### Witnesses -/

def p1 : List Partition := [⟨0, "P0", 1⟩]

/-- F1: granularity 2, `A` occupies [0,2), `B` occupies [1,3) on a 1-slot partition. -/
def ctxF1 : Ctx := ⟨p1, [0], 0, 2⟩
def treeF1 : Expr := .obj "O" [.choose "A" "" [0] 1 0 2 2, .choose "B" "" [0] 1 1 2 3]
/-- Both placed, one slot each. -/
def σAll1 : Assign := fun _ => 1

theorem capacity_unaligned_counterexample :
    (compile ctxF1 treeF1).feasible σAll1 = true ∧
    usageAt (populate ctxF1 σAll1 treeF1).placements 0 1 = 2 ∧
    ctxF1.find 0 = some ⟨0, "P0", 1⟩ ∧ ¬ Aligned ctxF1.gran treeF1 := by
  refine ⟨by decide, by decide, rfl, ?_⟩
  rintro ⟨r, hr⟩
  simp [treeF1, alignedTo, alignedToL, ctxF1] at hr
  omega


/-- F2: `LessThan(A [0,1), B [1,2))` is ordered at compile time; `B` asks for 2 slots of a
1-slot partition and can never be placed; the `Min` above still reports `A`. -/
def ctxG1 : Ctx := ⟨p1, [0], 0, 1⟩
def treeF2 : Expr :=
  .obj "O" [.min "N" [.lt "L" (.choose "A" "" [0] 1 0 1 2) (.choose "B" "" [0] 2 1 1 3)]]
def σF2 : Assign := fun v =>
  if v = ⟨[0, 0, 0], .placed⟩ ∨ v = ⟨[0, 0, 0], .using 0⟩ then 1
  else if v = ⟨[0], .minEnd⟩ then 2 else 0

theorem static_lessthan_counterexample :
    (compile ctxG1 treeF2).feasible σF2 = true ∧
    (populate ctxG1 σF2 treeF2).placements.map (·.name) = ["A"] ∧
    (populate ctxG1 σF2 treeF2).utility = some 3 ∧
    -- the LessThan node reports a placement although its second child has indicator 0
    (populateNode ctxG1 σF2 [0, 0] (.lt "L" (.choose "A" "" [0] 1 0 1 2) (.choose "B" "" [0] 2 1 1 3))).placements ≠ [] ∧
    indVal σF2 (compileNode ctxG1 [1, 0, 0] (.choose "B" "" [0] 2 1 1 3)).pr = 0 ∧
    noStaticLt ctxG1 [] treeF2 = false := by
  refine ⟨by decide, by decide, by decide, by decide, by decide, by decide⟩

/-- F3: a `Min` over an Allocation is worth 1 although the tree has no Choose at all. -/
def treeF3 : Expr := .obj "O" [.min "N" [.alloc "A" [(0, 1)] 0 1]]
def σF3 : Assign := fun v => if v = ⟨[0], .minEnd⟩ then 1 else 0

theorem constant_utility_counterexample :
    (compile ctxG1 treeF3).feasible σF3 = true ∧ chooseLeaves treeF3 = [] ∧
    (compile ctxG1 treeF3).objective σF3 = 1 := by
  refine ⟨by decide, by decide, by decide⟩

/-- F4: `LessThan(A [4,6), Max(B@2))`: the happens-before row `6 ≤ maxStart` is emitted
unconditionally while `maxStart ≤ 2`: no assignment at all satisfies the model, although
placing nothing is a valid schedule. -/
def treeF4 : Expr :=
  .obj "O" [.lt "L" (.choose "A" "" [0] 1 4 2 1) (.max "M" [.choose "B" "" [0] 1 2 1 1])]

theorem unconditional_order_counterexample (σ : Assign) :
    (compile ctxG1 treeF4).feasible σ = false := by
  cases h : (compile ctxG1 treeF4).feasible σ with
  | false => rfl
  | true =>
    exfalso
    simp only [MipModel.feasible, Bool.and_eq_true, List.all_eq_true] at h
    have hv := h.1 ⟨⟨[1, 0], .maxStart⟩, "M_max_start_time", .int, some (-2), some 2⟩ (by decide)
    have hc := h.2 ⟨"L_happens_before_constraint", .le, -6, [(-1, ⟨[1, 0], .maxStart⟩)]⟩ (by decide)
    simp [Var.holds] at hv
    simp [Constr.holds, evalTerms] at hc
    omega

end ErdosVerif.C20
