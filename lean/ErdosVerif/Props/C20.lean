/-
C20 — STRL compilation: every model solution is a valid space-time allocation.
Property theorems over the model `ErdosVerif.Strl` (Model/Strl.lean, Model/StrlSem.lean).
-/
import ErdosVerif.Lemmas.StrlCap
namespace ErdosVerif.C20
open ErdosVerif.Strl

/-- The utility read back at the root is the value of the model objective. -/
theorem objective_eq_utility (ctx : Ctx) (σ : Assign) (name : String) (cs : List Expr) :
    (populate ctx σ (.obj name cs)).utility = some ((compile ctx (.obj name cs)).objective σ) := by
  simp only [populate]
  split
  · rename_i h
    have h' : (compile ctx (.obj name cs)).objective σ = 0 := by simpa using h
    rw [h']
  · rfl

/-- **Capacity.** For every tree whose leaf start times agree modulo the granularity
(always the case for granularity 1), every assignment that satisfies the compiled model,
every partition the context knows and every time `t`: what the placements read back by
`populateResults` hold of the partition at `t`, plus what the Allocation leaves hold, is
within the partition's quantity. -/
theorem capacity_sound (ctx : Ctx) (name : String) (cs : List Expr) (σ : Assign)
    (hg : 0 < ctx.gran) (hal : Aligned ctx.gran (.obj name cs))
    (hfeas : (compile ctx (.obj name cs)).feasible σ = true)
    (pid : Nat) (p : Partition) (hp : ctx.find pid = some p) (t : Nat) :
    usageAt (populate ctx σ (.obj name cs)).placements pid t
      + allocUsageAt pid t (.obj name cs) ≤ p.qty := by
  obtain ⟨r, hr⟩ := hal
  simp only [alignedTo] at hr
  rw [compile_obj] at hfeas
  simp only [MipModel.feasible, Bool.and_eq_true, List.all_eq_true] at hfeas
  obtain ⟨hvars, hcons⟩ := hfeas
  have hl := list_inv ctx σ pid t r p hg hp cs [] 0 hr hvars
  have hm := mergeChildren_le (populateList ctx σ [] 0 cs) pid t hl.1
  have hok := list_regs_ok ctx cs [] 0
  generalize compileList ctx [] 0 cs = outs at hl hcons hok
  have hcons' : ∀ c ∈ capConstrs (outs.flatMap (·.2.regs)), Constr.holds σ c = true :=
    fun c hc => hcons c (List.mem_append_right _ hc)
  have hcap : regSum σ pid (slotKey ctx.gran r t) (outs.flatMap (·.2.regs)) ≤ p.qty :=
    cap_bound _ _ _ _ _ _ hp hok hcons'

  rw [populate_obj_placements]
  simp only [allocUsageAt]
  have := hl.2
  have := hm.2
  omega
end ErdosVerif.C20
