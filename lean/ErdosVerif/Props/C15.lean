/-
C15 — Clockwork batching: full, same-model, loaded, on-time batches only.

Theorems over the executable model `ErdosVerif.Clockwork` (Model/Clockwork.lean) of
`/repo/schedulers/clockwork_scheduler.py`, for every history of invocations
`(now, offered tasks, loading state)`: a state is `Reachable` when it is produced by
`start` followed by any sequence of `schedule` calls with arbitrary invocations
(arbitrary times, offered lists, worker views, load-phase outcomes).

The load / evict phase (`run_load`, float priorities) is a tape input: the theorems
speak about the worker views the inference loop is given. See docs/C15.md.
-/
import ErdosVerif.Lemmas.ClockworkSchedule

namespace ErdosVerif.C15
open ErdosVerif.Clockwork List

/-- States reachable by a history: `start(models)` then any invocations. -/
inductive Reachable (c : Cfg) : SState → Prop
  | start (ms : List Nat) : Reachable c (startModels c ms)
  | step {st : SState} (inv : Invocation) : Reachable c st → Reachable c (schedule c st inv).1

theorem start_inv (c : Cfg) (ms : List Nat) : SInv c (startModels c ms) := by
  unfold startModels
  have : ∀ (l : List Nat) (st : SState), SInv c st → SInv c (l.foldl (addModel c) st) := by
    intro l
    induction l with
    | nil => intro st h; exact h
    | cons m l ih => intro st h; exact ih _ (addModel_spec h m).1
  exact this ms [] ⟨by simp, by simp⟩

theorem reachable_inv {c : Cfg} {st : SState} (h : Reachable c st) : SInv c st := by
  induction h with
  | start ms => exact start_inv c ms
  | step inv _ ih => exact (schedule_spec ih inv).sinv

/-- The driver's `run` only visits reachable states and its outputs are `schedule` results. -/
theorem run_outputs {c : Cfg} {st : SState} (h : Reachable c st) (invs : List Invocation) :
    ∀ r ∈ run c st invs, ∃ st' inv, Reachable c st' ∧ inv ∈ invs ∧ r = schedule c st' inv := by
  induction invs generalizing st with
  | nil => simp [run]
  | cons inv rest ih =>
    intro r hr
    simp only [run, List.mem_cons] at hr
    rcases hr with rfl | hr
    · exact ⟨st, inv, h, List.mem_cons_self, rfl⟩
    · obtain ⟨st', inv', h1, h2, h3⟩ := ih (Reachable.step inv h) r hr
      exact ⟨st', inv', h1, List.mem_cons_of_mem _ h2, h3⟩

/-! ### Queue invariants -/

/-- Every per-strategy request queue is sorted by deadline and holds a request at most once. -/
theorem queues_sorted_nodup {c : Cfg} {st : SState} (h : Reachable c st) :
    ∀ s ∈ st, ∀ q ∈ s.queues,
      q.Pairwise (fun a b => a.deadline ≤ b.deadline) ∧ (q.map (·.tid)).Nodup := by
  intro s hs q hq
  have hi := (reachable_inv h).1 s hs
  exact ⟨hi.qsorted q hq, List.pairwise_map.mpr (hi.qnodup q hq)⟩

/-- A queued request is a task of that model, with its own deadline, and is in the model's
task table (`Model._tasks`); the table has no duplicates. -/
theorem queues_consistent {c : Cfg} {st : SState} (h : Reachable c st) :
    ∀ s ∈ st, (s.tasks.map (·.tid)).Nodup ∧ ∀ q ∈ s.queues, ∀ r ∈ q,
      r.tid ∈ s.tasks.map (·.tid) ∧
      ∃ t, c.tasks[r.tid]? = some t ∧ t.model = s.mid ∧ t.deadline = r.deadline := by
  intro s hs
  have hi := (reachable_inv h).1 s hs
  exact ⟨hi.tnodup, fun q hq r hr => ⟨hi.qsub q hq r hr, hi.qcfg q hq r hr⟩⟩

/-- A task placed by an invocation is afterwards in no queue of any model. -/
theorem placed_in_no_queue {c : Cfg} {st : SState} (h : Reachable c st) (inv : Invocation) :
    ∀ b ∈ (schedule c st inv).2.batches, ∀ tid ∈ b.tids,
      ∀ s ∈ (schedule c st inv).1, ∀ q ∈ s.queues, ∀ r ∈ q, r.tid ≠ tid := by
  intro b hb tid ht s hs q hq r hr heq
  have sp := schedule_spec (reachable_inv h) inv
  apply sp.placed_gone b hb tid ht
  exact mem_allTids.mpr ⟨s, hs, heq ▸ (sp.sinv.1 s hs).qsub q hq r hr⟩

/-! ### Batches -/

/-- Every placement batch: members of one model, as many as the `batch_size` of the strategy
it was derived from, on a worker where the profile is available, and on time
(`now + runtime ≤` every member's deadline, in particular the earliest). -/
theorem batch_wellformed {c : Cfg} {st : SState} (h : Reachable c st) (inv : Invocation) :
    ∀ b ∈ (schedule c st inv).2.batches, ∃ s wv,
      (c.strategiesOf b.model)[b.strategy]? = some s ∧
      b.tids.length = s.batch ∧
      (∀ tid ∈ b.tids, ∃ t, c.tasks[tid]? = some t ∧ t.model = b.model ∧
        inv.now + s.runtime ≤ t.deadline) ∧
      inv.workers[b.worker]? = some wv ∧ b.model ∈ wv.loaded := by
  intro b hb
  obtain ⟨wv, hw, hok⟩ := (schedule_spec (reachable_inv h) inv).ok b hb
  obtain ⟨s, h1, h2, h3⟩ := hok.strat
  exact ⟨s, wv, h1, h2, h3, hw, hok.isLoaded⟩

/-- The worker accommodated every batch placed on it: replaying the batches of worker `w`
in order on the availability vector the inference loop was given, each strategy's
requirement is covered (`Resources.__gt__`) by what the earlier batches left. -/
theorem batches_fit_worker {c : Cfg} {st : SState} (h : Reachable c st) (inv : Invocation) :
    ∀ w wv, inv.workers[w]? = some wv →
      (fitsRun c wv.avail ((schedule c st inv).2.batches.filter (fun b => b.worker == w))).isSome :=
  (schedule_spec (reachable_inv h) inv).fits

/-- Within one invocation no task is placed twice (neither in one batch nor in two). -/
theorem placed_once_invocation {c : Cfg} {st : SState} (h : Reachable c st) (inv : Invocation) :
    ((schedule c st inv).2.batches.flatMap (·.tids)).Nodup :=
  (schedule_spec (reachable_inv h) inv).placed_nodup

/-! ### Placed at most once over the whole history -/

/-- All task ids placed by a list of invocation results. -/
def placedOf (outs : List (SState × StepOut)) : List Nat :=
  outs.flatMap (fun r => r.2.batches.flatMap (·.tids))

/-- "A placed task is not offered again": no invocation offers a task placed earlier
(`placed` = tasks placed before the history starts). -/
def NoReoffer (c : Cfg) : SState → List Nat → List Invocation → Prop
  | _, _, [] => True
  | st, placed, inv :: rest =>
    (∀ tid ∈ inv.offered, tid ∉ placed) ∧
    NoReoffer c (schedule c st inv).1
      (placed ++ (schedule c st inv).2.batches.flatMap (·.tids)) rest

theorem placed_once_aux {c : Cfg} (invs : List Invocation) {st : SState} {placed : List Nat}
    (hi : SInv c st) (hd : ∀ tid ∈ placed, tid ∉ allTids st) (hn : placed.Nodup)
    (hno : NoReoffer c st placed invs) : (placed ++ placedOf (run c st invs)).Nodup := by
  induction invs generalizing st placed with
  | nil => simpa [run, placedOf] using hn
  | cons inv rest ih =>
    have sp := schedule_spec hi inv
    obtain ⟨hoff, hrest⟩ := hno
    have hn' : (placed ++ (schedule c st inv).2.batches.flatMap (·.tids)).Nodup := by
      refine List.nodup_append.mpr ⟨hn, sp.placed_nodup, ?_⟩
      intro x hx y hy hxy
      subst hxy
      obtain ⟨b, hb, ht⟩ := List.mem_flatMap.mp hy
      rcases sp.placed_from b hb x ht with h1 | h1
      · exact hd x hx h1
      · exact hoff x h1 hx
    have hd' : ∀ tid ∈ placed ++ (schedule c st inv).2.batches.flatMap (·.tids),
        tid ∉ allTids (schedule c st inv).1 := by
      intro tid htid hin
      rcases List.mem_append.mp htid with h1 | h1
      · rcases sp.tids_sub tid hin with h2 | h2
        · exact hd tid h1 h2
        · exact hoff tid h2 h1
      · obtain ⟨b, hb, ht⟩ := List.mem_flatMap.mp h1
        exact sp.placed_gone b hb tid ht hin
    have := ih sp.sinv hd' hn' hrest
    simpa [run, placedOf, List.append_assoc] using this

/-- `placed_once`: under "a placed task is not offered again" no task is placed twice over
the whole history. -/
theorem placed_once {c : Cfg} (ms : List Nat) (invs : List Invocation)
    (hno : NoReoffer c (startModels c ms) [] invs) :
    (placedOf (run c (startModels c ms) invs)).Nodup := by
  have := placed_once_aux invs (start_inv c ms) (by simp) (by simp) hno
  simpa using this

/-! ### Hopeless requests -/

/-- A batch never contains a request that cannot meet its deadline with the fastest strategy. -/
theorem never_places_hopeless {c : Cfg} {st : SState} (h : Reachable c st) (inv : Invocation) :
    ∀ b ∈ (schedule c st inv).2.batches, ∀ tid ∈ b.tids, ¬ Hopeless c inv.now tid := by
  intro b hb tid ht hh
  obtain ⟨s, _, h1, _, h3, _, _⟩ := batch_wellformed h inv b hb
  obtain ⟨t, e1, e2, e3⟩ := h3 tid ht
  obtain ⟨t', f, e1', e2', e3'⟩ := hh
  rw [e1] at e1'; cases e1'
  rw [e2] at e2'
  have := fastest_le e2' s (List.mem_of_getElem? h1)
  omega

/-- `hopeless_cancelled`: an offered request with `deadline < now + fastest` gets a cancel
decision (when `schedule` returns) and is not placed. -/
theorem hopeless_cancelled {c : Cfg} {st : SState} (h : Reachable c st) (inv : Invocation)
    (herr : (schedule c st inv).2.err = none) :
    ∀ tid ∈ inv.offered, Hopeless c inv.now tid →
      tid ∈ (schedule c st inv).2.cancels ∧
      ∀ b ∈ (schedule c st inv).2.batches, tid ∉ b.tids :=
  fun tid ht hh =>
    ⟨(schedule_spec (reachable_inv h) inv).cancel_hopeless herr tid ht hh,
     fun b hb hin => never_places_hopeless h inv b hb tid hin hh⟩

/-- Only offered hopeless requests are cancelled, and a cancelled request is not placed by
the same invocation. -/
theorem cancel_only_hopeless {c : Cfg} {st : SState} (h : Reachable c st) (inv : Invocation) :
    ∀ tid ∈ (schedule c st inv).2.cancels, tid ∈ inv.offered ∧ Hopeless c inv.now tid ∧
      ∀ b ∈ (schedule c st inv).2.batches, tid ∉ b.tids :=
  fun tid ht =>
    have hc := (schedule_spec (reachable_inv h) inv).cancel_only tid ht
    ⟨hc.1, hc.2, fun b hb hin => never_places_hopeless h inv b hb tid hin hc.2⟩

/-! ### Non-vacuity: a concrete history -/

/-- One model with a batch-2 strategy (runtime 10) and a batch-1 strategy (runtime 5), both
needing one unit of resource 0; four requests, the last hopeless at time 20. -/
def exCfg : Cfg :=
  { models := [{ strategies := [{ batch := 2, runtime := 10, req := [(0, 1)] },
                                { batch := 1, runtime := 5, req := [(0, 1)] }], hasLoad := true }],
    tasks := [{ model := 0, deadline := 30 }, { model := 0, deadline := 40 },
              { model := 0, deadline := 50 }, { model := 0, deadline := 22 }],
    goal := .clockwork }

def exInvs : List Invocation :=
  [ { now := 0, offered := [0, 1, 2], workers := [{ pool := 0, loaded := [0], avail := [(0, 1)] }] },
    { now := 20, offered := [2, 3], workers := [{ pool := 0, loaded := [], avail := [(0, 1)] },
                                                { pool := 0, loaded := [0], avail := [(0, 2)] }] } ]

/-- First invocation: the full batch {0,1} is placed (one unit free: the third request waits);
second invocation: request 3 is hopeless (22 < 20 + 5) and cancelled, request 2 is placed
alone on the second worker (the first has not loaded the model). -/
example : (run exCfg (startModels exCfg []) exInvs).map (fun r => (r.2.cancels, r.2.batches)) =
    [([], [{ model := 0, strategy := 0, worker := 0, tids := [0, 1] }]),
     ([3], [{ model := 0, strategy := 1, worker := 1, tids := [2] }])] := by decide

example : NoReoffer exCfg (startModels exCfg []) [] exInvs :=
  ⟨by decide, by decide, trivial⟩
example : Hopeless exCfg 20 3 := ⟨_, 5, rfl, rfl, by decide⟩
example : placedOf (run exCfg (startModels exCfg []) exInvs) = [0, 1, 2] := by decide

/-- Expiry leaves a request only in the queue of the strategy it can still meet: at time 25
request 2 (deadline 32) left the runtime-10 queue but stays in the runtime-5 queue. -/
example :
    (schedule { exCfg with tasks := [{ model := 0, deadline := 32 }] } []
      { now := 25, offered := [0], workers := [{ pool := 0, loaded := [], avail := [] }] }).1
    = [{ mid := 0, tasks := [{ tid := 0, deadline := 32, cnt := 1 }],
         queues := [[], [{ tid := 0, deadline := 32 }]] }] := by decide

end ErdosVerif.C15
