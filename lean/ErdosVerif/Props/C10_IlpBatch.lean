/-
C10 (ILP clause, BATCHING mode): the decision `ILPScheduler(batching=True).schedule()`
returns, read off ANY feasible point `σ` of the model it builds (`decodeB inst σ`: the
Placements of the BatchTasks merged back to the member tasks), or the all-unplaced answer
when the solver finds nothing (`decodeFailB`).

Proved for every instance / every `σ`:
* `one_decision_per_task` (no hypothesis on `σ`): the merge never answers a task twice;
* `only_members_never_running`, `answers_every_batched_task`: decisions exist exactly for the
  members of the BatchTasks that are not RUNNING;
* `at_most_one_placed_batch`, `member_gets_batch_placement`, `batch_members_agree`: for every
  feasible `σ` a task is in at most one placed BatchTask, and every member of a placed
  BatchTask is returned with that BatchTask (its `BatchStrategy`), its worker and its start;
* `placement_wellformed`: existing worker that can hold the batch strategy, start ≥ now + 1 and
  ≥ the release of every member;
* `fail_answers`.

NOT proved, because false of the code (counterexamples below, findings C10-ILPB-1…5):
* "every offered task is answered": a task that joins no BatchTask gets no decision
  (`answers_all_offered_partial` is the part that holds; `unanswered_counterexample`);
* "returns normally": `sort_crash_counterexample`, `slack_crash_counterexample`;
* joint capacity at every planned instant: a RUNNING BatchTask holds no capacity in the model
  (`running_batch_uncharged_counterexample`), dependent tasks that no precedence row separates
  are exempt from the capacity rows (`dependent_overlap_counterexample`).  What IS proved is the
  exact complement, `jointly_feasible_partial`: at every instant, on every worker and resource
  type of it, the BatchTasks that are not RUNNING, placed there and occupying the instant
  (closed occupancy, each BatchTask counted once) stay within the worker's quantity PROVIDED no
  two of them are dependent.

`I.wfShared` (two BatchTasks share a member only if both come from the queue) is a decidable
fact about the batch formation, evaluated by the driver on every extracted instance.
-/
import ErdosVerif.Lemmas.IlpBatchCapacity
namespace ErdosVerif.C10_IlpBatch
open ErdosVerif.Mip ErdosVerif.IlpBatch
open ErdosVerif.Ilp (Var compatible qty nsum)

/-- No task is answered twice, whatever the assignment: the merge keeps one Placement per task. -/
theorem one_decision_per_task (I : BInst) (σ : Var → Int) :
    ((decodeB I σ).map BDecision.task).Nodup := by
  rw [decodeB_eq]
  exact foldl_merge_nodup _ [] (by simp)

/-- Decisions only for member tasks of BatchTasks that are not RUNNING. -/
theorem only_members_never_running {I : BInst} {σ : Var → Int} {d : BDecision} (hd : d ∈ decodeB I σ) :
    ∃ b, b < I.nB ∧ I.bRunning b = false ∧ d.task ∈ I.members b := by
  obtain ⟨b, hb, hm, _⟩ := decision_from_batch hd
  exact ⟨b, (mem_nonRunning.mp hb).1, (mem_nonRunning.mp hb).2, hm⟩

/-- Every member of a BatchTask that is not RUNNING is answered. -/
theorem answers_every_batched_task (I : BInst) (σ : Var → Int) {b m : Nat} (hb : b < I.nB)
    (hr : I.bRunning b = false) (hm : m ∈ I.members b) : ∃ d ∈ decodeB I σ, d.task = m := by
  have : m ∈ (decodeB I σ).map BDecision.task := by
    rw [decodeB_eq]
    apply foldl_merge_covers
    right
    apply List.mem_map.mpr
    exact ⟨⟨m, (I.chosen σ b).map (fun w => (b, w, σ (.start b)))⟩,
      mem_rawPlacements.mpr ⟨b, mem_nonRunning.mpr ⟨hb, hr⟩, m, hm, rfl⟩, rfl⟩
  obtain ⟨d, hd, hdt⟩ := List.mem_map.mp this
  exact ⟨d, hd, hdt⟩

/-- Full statement (FALSE, see `unanswered_counterexample`): every offered task that is not
RUNNING is answered.  Proved part: every offered task *that joined a non-RUNNING BatchTask*. -/
theorem answers_all_offered_partial (I : BInst) (σ : Var → Int) {t : Nat} (_ht : t < I.nOffered)
    (hb : ∃ b, b < I.nB ∧ I.bRunning b = false ∧ t ∈ I.members b) : ∃ d ∈ decodeB I σ, d.task = t := by
  obtain ⟨b, hb, hr, hm⟩ := hb
  exact answers_every_batched_task I σ hb hr hm

/-- A task belongs to at most one placed BatchTask (⇒ the merged decision is unambiguous). -/
theorem at_most_one_placed_batch {I : BInst} {σ : Var → Int} (h : sat σ (genB I))
    (hws : I.wfShared = true) {a b m wa wb : Nat} (ha : a < I.nB) (hb : b < I.nB) (hm : m < I.nT)
    (hma : m ∈ I.members a) (hmb : m ∈ I.members b)
    (hca : I.chosen σ a = some wa) (hcb : I.chosen σ b = some wb) : a = b := by
  by_cases hab : a = b
  · exact hab
  · exact absurd (IlpBatch.at_most_one_placed_batch h hws ha hb hab hm hma hmb hca hcb) id

/-- Every member of a placed BatchTask is returned with that BatchTask's placement. -/
theorem member_gets_batch_placement {I : BInst} {σ : Var → Int} (h : sat σ (genB I))
    (hws : I.wfShared = true) {b w m : Nat} (hb : b < I.nB) (hm : m < I.nT)
    (hmb : m ∈ I.members b) (hc : I.chosen σ b = some w) :
    (⟨m, some (b, w, σ (.start b))⟩ : BDecision) ∈ decodeB I σ :=
  IlpBatch.member_gets_batch_placement h hws hb hm hmb hc

/-- Two members of one placed BatchTask are returned on the same worker at the same time with the
same BatchTask: the batch is one unit of work (this is what lets the cluster hold it once). -/
theorem batch_members_agree {I : BInst} {σ : Var → Int} (h : sat σ (genB I))
    (hws : I.wfShared = true) {d1 d2 : BDecision} (h1 : d1 ∈ decodeB I σ) (h2 : d2 ∈ decodeB I σ)
    {b w1 w2 : Nat} {t1 t2 : Int} (hp1 : d1.placed = some (b, w1, t1)) (hp2 : d2.placed = some (b, w2, t2)) :
    w1 = w2 ∧ t1 = t2 := by
  have s1 := placed_decision_spec h1 hp1
  have s2 := placed_decision_spec h2 hp2
  rw [s1.2.2.1] at s2
  have : w1 = w2 := by simpa using s2.2.2.1
  exact ⟨this, by rw [s1.2.2.2, s2.2.2.2]⟩

/-- A placement names an existing worker that can hold the batch's strategy, and a time not
before `now + 1` nor before the (known) release of the task. -/
theorem placement_wellformed {I : BInst} {σ : Var → Int} (h : sat σ (genB I)) {d : BDecision}
    (hd : d ∈ decodeB I σ) {b w : Nat} {time : Int} (hp : d.placed = some (b, w, time)) :
    w < I.nW ∧ compatible (I.worker w) (I.bstrat b) = true ∧
    I.now + 1 ≤ time ∧ (I.task d.task).release ≤ time := by
  obtain ⟨hb, hm, hc, rfl⟩ := placed_decision_spec hd hp
  have hs := chosen_spec hc
  have hlb := start_lb h hb
  have h1 : I.now + 1 ≤ I.startLb b := by simp [BInst.startLb]; omega
  have h2 : I.bRelease b ≤ I.startLb b := by simp [BInst.startLb]; omega
  have h3 := release_le_bRelease hm
  have hcomp : compatible (I.worker w) (I.bstrat b) = true := by
    have := hs.2.1; simp [BInst.hasVar] at this; exact this.2
  exact ⟨hs.1, hcomp, by omega, by omega⟩

/-- Full statement (FALSE: `running_batch_uncharged_counterexample`,
`dependent_overlap_counterexample`): all placements together with the RUNNING work never exceed
any worker's capacity at any planned instant.  Proved part: the load of the not-RUNNING
BatchTasks occupying `τ` on `w` (`loadNR`, each BatchTask once, closed occupancy
`[start, start + runtime]` ⊇ the simulator's half-open one) is within the worker's quantity of
every resource type it has, provided no two of these BatchTasks are dependent. -/
theorem jointly_feasible_partial {I : BInst} {σ : Var → Int} (h : sat σ (genB I)) {w : Nat}
    (hw : w < I.nW) {r : String} (hr : r ∈ (I.worker w).types) (τ : Int)
    (hind : ∀ a b, a < I.nB → b < I.nB → b ≠ a → occ I σ w τ a → occ I σ w τ b → I.dependent a b = false) :
    loadNR I σ w r τ ≤ (qty (I.worker w).res r : Nat) :=
  capacity_at_instant_partial h hw hr τ hind

/-- When no solution is found: every offered task is answered "not placed", nothing else. -/
theorem fail_answers (I : BInst) :
    (decodeFailB I).map BDecision.task = List.range I.nOffered ∧ ∀ d ∈ decodeFailB I, d.placed = none := by
  constructor
  · simp [decodeFailB, List.map_map, Function.comp_def]
  · intro d hd
    simp [decodeFailB] at hd
    obtain ⟨t, _, rfl⟩ := hd
    rfl

/-! ### Non-vacuity: two chains Camera → Perception offered whole, Camera has a fast batch-of-1
and a slow batch-of-2 strategy (the instance behind seeded change C11-3) -/

def exInst : BInst :=
  { now := 0
    workers := [⟨"W0", "P0", [("CPU", 20)]⟩]
    tasks := [⟨"Cam@G1", "Cam", 0, "G1", .released, 0, 32, "Cam", 0, 0, ⟨0, 0, []⟩⟩,
              ⟨"Per@G1", "Per", 0, "G1", .virtual, -1, 32, "Per", 0, 0, ⟨0, 0, []⟩⟩,
              ⟨"Cam@G2", "Cam", 0, "G2", .released, 0, 32, "Cam", 0, 0, ⟨0, 0, []⟩⟩,
              ⟨"Per@G2", "Per", 0, "G2", .virtual, -1, 32, "Per", 0, 0, ⟨0, 0, []⟩⟩]
    nOffered := 4
    nodes := [⟨"Cam@G1", "Cam", 0, "G1", .released⟩, ⟨"Per@G1", "Per", 0, "G1", .virtual⟩, ⟨"Cam@G2", "Cam", 0, "G2", .released⟩, ⟨"Per@G2", "Per", 0, "G2", .virtual⟩]
    edges := [("Cam@G1", "Per@G1"), ("Cam@G2", "Per@G2")]
    enforceDeadlines := true, retract := false, releaseTaskgraphs := true, goalSlack := false
    allowed0 := []
    profiles := [⟨"Cam", [⟨1, 10, [("CPU", 10)]⟩, ⟨2, 25, [("CPU", 12)]⟩], [2, 0]⟩, ⟨"Per", [⟨1, 10, [("CPU", 10)]⟩], [3, 1]⟩] }

/-- The solver's answer on `exInst`: the two batch-of-1 Camera BatchTasks at 1, the Perceptions at 12. -/
def exSigma : Var → Int
  | .start 0 => 1
  | .start 1 => 1
  | .x 1 0 0 => 1
  | .start 2 => 1
  | .x 2 0 0 => 1
  | .start 3 => 12
  | .x 3 0 0 => 1
  | .start 4 => 12
  | .x 4 0 0 => 1
  | .allParents 3 => 1
  | .allParents 4 => 1
  | .overlap 0 1 => 1
  | .overlap 0 2 => 1
  | .overlap 1 0 => 1
  | .overlap 1 2 => 1
  | .overlap 2 0 => 1
  | .overlap 2 1 => 1
  | .overlap 3 4 => 1
  | .overlap 4 3 => 1
  | .before 1 4 => 1
  | .before 2 3 => 1
  | .after 3 2 => 1
  | .after 4 1 => 1
  | .greward 0 => 1
  | .greward 1 => 1
  | .treward 3 => 1
  | .treward 1 => 1
  | _ => 0

example : exInst.wf = true ∧ exInst.crash = none := by decide
example : sat exSigma (genB exInst) := by decide
/-- Cam@G2 (task 2) is a member of BatchTask 0 (batch of 2, not chosen) and of BatchTask 1 (chosen):
it is returned with BatchTask 1's placement. -/
example : decodeB exInst exSigma =
    [⟨2, some (1, 0, 1)⟩, ⟨0, some (2, 0, 1)⟩, ⟨3, some (3, 0, 12)⟩, ⟨1, some (4, 0, 12)⟩] := by decide

/-- At `τ = 1` the two chosen Camera BatchTasks (1 and 2, not dependent) fill the 20 CPUs exactly. -/
example : loadNR exInst exSigma 0 "CPU" 1 = 20 ∧ exInst.dependent 1 2 = false ∧
    "CPU" ∈ (exInst.worker 0).types ∧ qty (exInst.worker 0).res "CPU" = 20 := by decide

/-! ### Finding C10-ILPB-2: an offered task that joins no BatchTask is not answered -/

/-- `now = 5`; T@G0 (deadline 6) cannot finish with any strategy started now, T@G1 can. -/
def unansweredInst : BInst :=
  { now := 5
    workers := [⟨"W0", "P0", [("CPU", 2)]⟩]
    tasks := [⟨"T@G0", "T", 0, "G0", .released, 4, 6, "A", 0, 0, ⟨0, 0, []⟩⟩,
              ⟨"T@G1", "T", 0, "G1", .released, 4, 30, "A", 0, 0, ⟨0, 0, []⟩⟩]
    nOffered := 2
    nodes := [⟨"T@G0", "T", 0, "G0", .released⟩, ⟨"T@G1", "T", 0, "G1", .released⟩]
    edges := []
    enforceDeadlines := true, retract := false, releaseTaskgraphs := false, goalSlack := false
    allowed0 := []
    profiles := [⟨"A", [⟨1, 3, [("CPU", 1)]⟩, ⟨2, 4, [("CPU", 1)]⟩], [1, 0]⟩] }

/-- The offered task 0 receives no decision, whatever the solver answers. -/
theorem unanswered_counterexample :
    unansweredInst.wf = true ∧ unansweredInst.crash = none ∧ 0 < unansweredInst.nOffered ∧
    ∀ σ : Var → Int, ∀ d ∈ decodeB unansweredInst σ, d.task ≠ 0 := by
  refine ⟨by decide, by decide, by decide, ?_⟩
  intro σ d hd
  obtain ⟨b, hb, _, hm⟩ := only_members_never_running hd
  have key : ∀ b, b < unansweredInst.nB → ∀ m ∈ unansweredInst.members b, m ≠ 0 := by decide
  exact key b hb _ hm

/-! ### Findings C10-ILPB-3 / C10-ILPB-4: the call raises -/

/-- One profile, C@G0 (its parent completed: graph G0 joins `_allowed_to_miss_deadlines`) next to
a source task of G1: the deadline sort compares an `EventTime` with `float('inf')`. -/
def sortCrashInst : BInst :=
  { now := 5
    workers := [⟨"W0", "P0", [("CPU", 2)]⟩]
    tasks := [⟨"C@G0", "C", 0, "G0", .released, 4, 30, "A", 0, 0, ⟨0, 0, []⟩⟩,
              ⟨"S@G1", "S", 0, "G1", .released, 4, 30, "A", 0, 0, ⟨0, 0, []⟩⟩]
    nOffered := 2
    nodes := [⟨"P@G0", "P", 0, "G0", .other⟩, ⟨"C@G0", "C", 0, "G0", .released⟩, ⟨"S@G1", "S", 0, "G1", .released⟩]
    edges := [("P@G0", "C@G0")]
    enforceDeadlines := true, retract := false, releaseTaskgraphs := false, goalSlack := false
    allowed0 := []
    profiles := [⟨"A", [⟨1, 3, [("CPU", 1)]⟩], [0, 1]⟩] }

theorem sort_crash_counterexample : sortCrashInst.crash = some "AttributeError" := by decide

/-- `goal = max_slack` with one BatchTask. -/
def slackCrashInst : BInst := { unansweredInst with goalSlack := true }

theorem slack_crash_counterexample : slackCrashInst.crash = some "AttributeError" := by decide

/-! ### Findings C10-ILPB-1 / C10-ILPB-5: joint capacity fails -/

/-- Demand on worker `w` for resource `r` at instant `τ` of the work the decision leaves on the
cluster: every placed BatchTask once (occupancy `[start, start + runtime)`), every RUNNING
BatchTask once on the worker of its members (`[now, now + runtime)`). -/
def loadAt (I : BInst) (σ : Var → Int) (w : Nat) (r : String) (τ : Int) : Nat :=
  nsum ((List.range I.nB).map (fun b =>
    if I.bRunning b then
      (if (I.task ((I.members b).headD 0)).prevW = w ∧ I.now ≤ τ ∧ τ < I.now + I.runtime b
        then qty (I.bstrat b).req r else 0)
    else
      (if I.chosen σ b = some w ∧ σ (.start b) ≤ τ ∧ τ < σ (.start b) + I.runtime b
        then qty (I.bstrat b).req r else 0)))

/-- A RUNNING batch of two (2 of 3 CPUs, started at 2, runtime 6) and two new tasks of the
same profile, `now = 3`. -/
def runningInst : BInst :=
  { now := 3
    workers := [⟨"W0", "P0", [("CPU", 3)]⟩]
    tasks := [⟨"T@G2", "T", 0, "G2", .released, 3, 40, "A", 0, 0, ⟨0, 0, []⟩⟩,
              ⟨"T@G3", "T", 0, "G3", .released, 3, 40, "A", 0, 0, ⟨0, 0, []⟩⟩,
              ⟨"T@G0", "T", 0, "G0", .running, 1, 40, "A", 0, 1, ⟨2, 6, [("CPU", 2)]⟩⟩,
              ⟨"T@G1", "T", 0, "G1", .running, 1, 40, "A", 0, 1, ⟨2, 6, [("CPU", 2)]⟩⟩]
    nOffered := 2
    nodes := [⟨"T@G2", "T", 0, "G2", .released⟩, ⟨"T@G3", "T", 0, "G3", .released⟩, ⟨"T@G0", "T", 0, "G0", .running⟩, ⟨"T@G1", "T", 0, "G1", .running⟩]
    edges := []
    enforceDeadlines := true, retract := false, releaseTaskgraphs := false, goalSlack := false
    allowed0 := []
    profiles := [⟨"A", [⟨2, 6, [("CPU", 2)]⟩], [0, 2, 1, 3]⟩] }

/-- The solver's answer: the new batch of two on W0 at 4. -/
def runningSigma : Var → Int
  | .start 1 => 4
  | .x 1 0 0 => 1
  | .before 0 1 => 1
  | .after 1 0 => 1
  | .greward 0 => 1
  | .greward 1 => 1
  | .greward 2 => 1
  | .greward 3 => 1
  | .treward 2 => 1
  | .treward 3 => 1
  | .treward 0 => 1
  | .treward 1 => 1
  | _ => 0

/-- A feasible point of the model whose decision puts 4 CPUs of work on the 3-CPU worker at
`τ = 4`: the RUNNING BatchTask appears in no capacity row. -/
theorem running_batch_uncharged_counterexample :
    runningInst.wf = true ∧ runningInst.crash = none ∧ sat runningSigma (genB runningInst) ∧
    loadAt runningInst runningSigma 0 "CPU" 4 = 4 ∧ qty (runningInst.worker 0).res "CPU" = 3 := by
  decide

/-- Chain T0 → T1 → T2 offered whole on a 1-CPU worker; T1 is alone in a profile whose only
strategy needs two tasks (joins no BatchTask), T0 and T2 must both start at 1. -/
def dependentInst : BInst :=
  { now := 0
    workers := [⟨"W0", "P0", [("CPU", 1)]⟩]
    tasks := [⟨"T0@G0", "T0", 0, "G0", .released, 0, 2, "A", 0, 0, ⟨0, 0, []⟩⟩,
              ⟨"T1@G0", "T1", 0, "G0", .virtual, -1, 20, "B", 0, 0, ⟨0, 0, []⟩⟩,
              ⟨"T2@G0", "T2", 0, "G0", .virtual, -1, 2, "A", 0, 0, ⟨0, 0, []⟩⟩]
    nOffered := 3
    nodes := [⟨"T0@G0", "T0", 0, "G0", .released⟩, ⟨"T1@G0", "T1", 0, "G0", .virtual⟩, ⟨"T2@G0", "T2", 0, "G0", .virtual⟩]
    edges := [("T0@G0", "T1@G0"), ("T1@G0", "T2@G0")]
    enforceDeadlines := true, retract := false, releaseTaskgraphs := false, goalSlack := false
    allowed0 := []
    profiles := [⟨"A", [⟨1, 1, [("CPU", 1)]⟩], [2, 0]⟩, ⟨"B", [⟨2, 3, [("CPU", 1)]⟩], [1]⟩] }

def dependentSigma : Var → Int
  | .start 0 => 1
  | .x 0 0 0 => 1
  | .start 1 => 1
  | .x 1 0 0 => 1
  | .greward 0 => 1
  | .treward 0 => 1
  | .treward 2 => 1
  | _ => 0

/-- T0 and T2 (ancestor / descendant, `Overlap = 0`, no precedence rows because T1 has no
variables) both occupy the single CPU at `τ = 1`. -/
theorem dependent_overlap_counterexample :
    dependentInst.wf = true ∧ dependentInst.crash = none ∧ sat dependentSigma (genB dependentInst) ∧
    loadAt dependentInst dependentSigma 0 "CPU" 1 = 2 ∧ qty (dependentInst.worker 0).res "CPU" = 1 := by
  decide

end ErdosVerif.C10_IlpBatch
