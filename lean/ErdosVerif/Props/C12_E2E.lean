import ErdosVerif.Props.C03
/-!
# C12 — the end-to-end consequence (task level)

"Consequently, in runs of those planners with exact runtimes, every task that completes
does so by its deadline."

A planner decision for a task is a `PlacementS` (start time, strategy).  The simulator
hands every decision to `Task.schedule` (`doSchedule`) — also when the task is already
SCHEDULED by an earlier decision with another strategy (a re-planning policy) —, later
calls `Task.start` (`doStart`) at the time the TASK_PLACEMENT event fires, and steps the
task at every clock advance (`C03.runSteps`).  The theorems below are for ALL tasks, states,
placements, times and step sequences:

* the remaining time after a successful `schedule` is the runtime of the strategy of THAT
  decision, whatever the task held before (`schedule_takes_runtime_of_this_decision`,
  `reschedule_takes_runtime_of_last_decision`);
* with exact runtimes (`fuzz((0, 0))` returns the remaining time itself) the task then
  completes at `start + runtime of the last decision`
  (`completes_at_start_plus_runtime_of_last_decision`);
* hence a task whose last decision meets its deadline and whose start is not deferred
  completes by its deadline (`completed_by_deadline`), and in general it completes by its
  deadline iff `actual start + runtime ≤ deadline` (`completed_by_deadline_iff`): a deferred
  start (TASK_NOT_READY / WORKER_NOT_READY) is the only way to miss
  (`deferred_start_misses_counterexample`).

That the simulator (a) calls `schedule` with the last decision, (b) starts the task at the
decided time unless it defers it, (c) steps every running task at every advance is the
trace correspondence of the end-to-end suites plus the run-level oracle
(`harness/suites/_e2e_common.py: planner_run_oracle`); that the planners' decisions meet the
deadline is `C12_Ilp.decision_meets_deadline` / `C12_Tetri.decision_meets_deadline`.
-/
namespace ErdosVerif.C12_E2E
open ErdosVerif.Model

/-- **Every successful `schedule` installs the runtime of the strategy of THIS decision**, from
every state in which the call is accepted — in particular for a task that is already
SCHEDULED with another strategy.  State, placement, pool follow the decision; the deadline is
untouched. -/
theorem schedule_takes_runtime_of_this_decision (t t' : TaskS) (time : Int) (p : PlacementS)
    (h : t.doSchedule time p = (t', none)) :
    ∃ s, p.strat = some s ∧ t'.remaining = some s.runtime ∧ t'.state = .scheduled ∧
      t'.placement = some p ∧ t'.pool = p.pool ∧ t'.deadline = t.deadline ∧ t'.release = t.release := by
  unfold TaskS.doSchedule at h
  split at h
  · simp at h
  · cases hs : p.strat with
    | none => simp [hs] at h
    | some s =>
      simp only [hs, TaskS.updateRemaining] at h
      split at h
      · simp at h
      · split at h
        · simp at h
        · simp only [Prod.mk.injEq, and_true] at h
          subst h
          exact ⟨s, rfl, rfl, rfl, rfl, rfl, rfl, rfl⟩

/-- **Re-planning**: after two successive decisions the task carries the runtime of the LAST
one (the first one's runtime does not survive). -/
theorem reschedule_takes_runtime_of_last_decision (t t1 t2 : TaskS) (τ1 τ2 : Int) (p1 p2 : PlacementS)
    (_h1 : t.doSchedule τ1 p1 = (t1, none)) (h2 : t1.doSchedule τ2 p2 = (t2, none)) :
    ∃ s2, p2.strat = some s2 ∧ t2.remaining = some s2.runtime ∧ t2.placement = some p2 := by
  obtain ⟨s, hs, hr, _, hp, _⟩ := schedule_takes_runtime_of_this_decision t1 t2 τ2 p2 h2
  exact ⟨s, hs, hr, hp⟩

/-- A SCHEDULED task accepts a further decision whenever that decision names a strategy with a
non-negative runtime (so the hypotheses of the two theorems above are satisfiable for every
such re-decision). -/
theorem scheduled_accepts_redecision (t : TaskS) (τ : Int) (p : PlacementS) (s : Strategy)
    (hst : t.state = .scheduled) (hp : p.strat = some s) (hr : 0 ≤ s.runtime) :
    (t.doSchedule τ p).2 = none := by
  have hneg : ¬ s.runtime < 0 := by omega
  simp [TaskS.doSchedule, hst, hp, TaskS.updateRemaining, TaskS.isComplete, hneg]

/-- `start` with exact runtimes: the task runs from `time` with the remaining time it was
given; deadline unchanged. -/
theorem exact_start (t t' : TaskS) (time r : Int) (h : t.doStart time r = (t', none)) :
    t'.state = .running ∧ t'.start = time ∧ t'.lastStep = time ∧ t'.remaining = some r ∧
      t'.deadline = t.deadline := by
  unfold TaskS.doStart at h
  split at h
  · simp at h
  · split at h
    · simp at h
    · dsimp only at h
      split at h
      · simp at h
      · simp only [TaskS.updateRemaining] at h
        split at h
        · simp at h
        · split at h
          · simp at h
          · simp only [Prod.mk.injEq, and_true] at h
            subst h
            exact ⟨rfl, rfl, rfl, rfl, rfl⟩

theorem doStep_deadline (t : TaskS) (now dt : Int) : (t.doStep now dt).1.deadline = t.deadline := by
  unfold TaskS.doStep
  split
  · rfl
  · split
    · rfl
    · split
      · rfl
      · dsimp only
        split <;> rfl

theorem runSteps_deadline (dts : List Int) : ∀ (t : TaskS) (now : Int), (C03.runSteps t now dts).1.deadline = t.deadline := by
  induction dts with
  | nil => intro t now; rfl
  | cons d ds ih =>
    intro t now
    simp only [C03.runSteps]
    split
    · exact doStep_deadline t now d
    · rw [ih]; exact doStep_deadline t now d

theorem doFinish_deadline (t : TaskS) (time : Option Int) : (t.doFinish time).1.deadline = t.deadline := by
  unfold TaskS.doFinish
  split <;> rfl

/-- **Completion = start + runtime of the LAST decision** (exact runtimes): a task — in any
state in which `schedule` is accepted, e.g. SCHEDULED by an earlier decision with another
strategy — that is given the decision `p` (strategy `s`, `0 < s.runtime`), is started at
`start` with the remaining time unfuzzed and is stepped at every clock advance, is reported
COMPLETED at exactly `start + s.runtime`. -/
theorem completes_at_start_plus_runtime_of_last_decision
    (t t1 t2 : TaskS) (τ start : Int) (p : PlacementS) (s : Strategy) (dts : List Int)
    (hp : p.strat = some s) (hpos : 0 < s.runtime)
    (hsched : t.doSchedule τ p = (t1, none))
    (hstart : t1.doStart start s.runtime = (t2, none))
    (hd : ∀ d ∈ dts, 0 ≤ d) (hfin : (C03.runSteps t2 start dts).2.1 = true) :
    ((C03.runSteps t2 start dts).1.doFinish none).1.completion = start + s.runtime ∧
    ((C03.runSteps t2 start dts).1.doFinish none).1.state = .completed ∧
    ((C03.runSteps t2 start dts).1.doFinish none).1.deadline = t.deadline := by
  obtain ⟨s', hs', _, _, _, _, hdl1, _⟩ := schedule_takes_runtime_of_this_decision t t1 τ p hsched
  have hss : s' = s := by rw [hp] at hs'; exact (Option.some.inj hs').symm
  subst hss
  obtain ⟨hrun, hst, hls, hrem, hdl2⟩ := exact_start t1 t2 start s'.runtime hstart
  have hfin' : (C03.runSteps t2 t2.start dts).2.1 = true := by rw [hst]; exact hfin
  have h := C03.completes_at_start_plus_runtime t2 s'.runtime dts hrun (by rw [hls, hst]) hrem hpos hd hfin'
  rw [hst] at h
  refine ⟨h.1, h.2.1, ?_⟩
  rw [doFinish_deadline, runSteps_deadline, hdl2, hdl1]

/-- **The consequence, in general**: under the hypotheses above the task completes by its
deadline iff its ACTUAL start plus the runtime of its last decision does. -/
theorem completed_by_deadline_iff
    (t t1 t2 : TaskS) (τ start : Int) (p : PlacementS) (s : Strategy) (dts : List Int)
    (hp : p.strat = some s) (hpos : 0 < s.runtime)
    (hsched : t.doSchedule τ p = (t1, none))
    (hstart : t1.doStart start s.runtime = (t2, none))
    (hd : ∀ d ∈ dts, 0 ≤ d) (hfin : (C03.runSteps t2 start dts).2.1 = true) :
    (((C03.runSteps t2 start dts).1.doFinish none).1.completion ≤
      ((C03.runSteps t2 start dts).1.doFinish none).1.deadline) ↔ start + s.runtime ≤ t.deadline := by
  obtain ⟨hc, _, hdl⟩ := completes_at_start_plus_runtime_of_last_decision t t1 t2 τ start p s dts hp hpos hsched hstart hd hfin
  rw [hc, hdl]

/-- **The consequence**: the last decision meets the deadline (`ptime + runtime ≤ deadline`,
what `C12_Ilp.decision_meets_deadline` / `C12_Tetri.decision_meets_deadline` give for the
planners) and the task starts at the decided time (not deferred) ⟹ it completes by its
deadline. -/
theorem completed_by_deadline
    (t t1 t2 : TaskS) (τ ptime : Int) (p : PlacementS) (s : Strategy) (dts : List Int)
    (hp : p.strat = some s) (hpt : p.time = some ptime) (hpos : 0 < s.runtime)
    (hmeets : ptime + s.runtime ≤ t.deadline)
    (hsched : t.doSchedule τ p = (t1, none))
    (hstart : t1.doStart ptime s.runtime = (t2, none))
    (hd : ∀ d ∈ dts, 0 ≤ d) (hfin : (C03.runSteps t2 ptime dts).2.1 = true) :
    ((C03.runSteps t2 ptime dts).1.doFinish none).1.completion ≤
      ((C03.runSteps t2 ptime dts).1.doFinish none).1.deadline := by
  have _ := hpt
  exact (completed_by_deadline_iff t t1 t2 τ ptime p s dts hp hpos hsched hstart hd hfin).2 hmeets

/-! ### Concrete instances -/

private def slow : Strategy := { sid := 0, isBatch := false, batchSize := 1, runtime := 20, req := [] }
private def fast : Strategy := { sid := 1, isBatch := false, batchSize := 1, runtime := 5, req := [] }
private def tid : TaskId := ⟨0, 0⟩
/-- a task released at 30 with deadline 45 -/
private def t0 : TaskS :=
  { name := "T", conditional := false, terminal := false, prob := 1000, strategies := [slow, fast], profile := 0,
    state := .released, pre := .released, release := 30, deadline := 45 }
private def pSlow : PlacementS := { kind := .place, task := tid, time := some 31, pool := some 0, strat := some slow }
private def pFast : PlacementS := { kind := .place, task := tid, time := some 34, pool := some 0, strat := some fast }

/-- Non-vacuity (the shape of the regression this slice was built for): a task first decided with
the 20 µs strategy is re-decided, while still SCHEDULED, to start at 34 with the 5 µs strategy
(deadline 45); it is started at 34 and stepped 2 + 2 + 3: COMPLETED at 39 ≤ 45 — not at
34 + 20 = 54. -/
example :
    let t1 := (t0.doSchedule 30 pSlow).1
    let t2 := (t1.doSchedule 32 pFast).1
    let t3 := (t2.doStart 34 5).1
    (t0.doSchedule 30 pSlow).2 = none ∧ t1.state = .scheduled ∧ t1.remaining = some 20 ∧
    (t1.doSchedule 32 pFast).2 = none ∧ t2.remaining = some 5 ∧
    (t2.doStart 34 5).2 = none ∧ (C03.runSteps t3 34 [2, 2, 3]).2.1 = true ∧
    ((C03.runSteps t3 34 [2, 2, 3]).1.doFinish none).1.completion = 39 ∧
    ((C03.runSteps t3 34 [2, 2, 3]).1.doFinish none).1.state = .completed := by decide

/-- **A deferred start can miss the deadline although the decision met it** (what the known
finding C12-E2E-1 shows on real runs of TetriSched-CPLEX with lookahead): decided 34 + 5 ≤ 45,
started at 42 because a parent was still running, completed at 47 > 45. -/
theorem deferred_start_misses_counterexample :
    let t2 := (t0.doSchedule 32 pFast).1
    let t3 := (t2.doStart 42 5).1
    (34 : Int) + fast.runtime ≤ t0.deadline ∧
    (t0.doSchedule 32 pFast).2 = none ∧ (t2.doStart 42 5).2 = none ∧
    (C03.runSteps t3 42 [5]).2.1 = true ∧
    ¬ (((C03.runSteps t3 42 [5]).1.doFinish none).1.completion ≤ ((C03.runSteps t3 42 [5]).1.doFinish none).1.deadline) := by
  decide

end ErdosVerif.C12_E2E
