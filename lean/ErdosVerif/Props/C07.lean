import ErdosVerif.Lemmas.Conditional
import ErdosVerif.Lemmas.Frontier
/-!
# C07 — conditional branches: exactly one branch runs, the others are cancelled
Model: `Model/TaskGraph.lean` (`notify_task_completion`, `cancel`).
The index returned by `random.choices` is an input (tape); that `random.choices`
never returns a zero-weight element is part of the trusted base.
-/
namespace ErdosVerif.C07
open ErdosVerif.Model

/-- **Exactly one child is released; every other child is cancelled; the cancelled
set is closed downstream up to (excluding) joins that still have a live parent.** -/
theorem conditional_completion (g : GraphS) (n : Nat) (finish : Int) (tape tape' : List Draw) (t : TaskS)
    (i chosen : Nat) (hwf : g.EdgesWF) (ht : g.task? n = some t) (hc : t.isComplete = true)
    (hcond : t.conditional = true)
    (hp : ((g.kids n).map (fun c => ((g.task? c).map (·.prob)).getD 0)).all (· ≤ 0) = false)
    (hsum : ((g.kids n).map (fun c => ((g.task? c).map (·.prob)).getD 0)).foldl (· + ·) 0 = 1000)
    (htape : tape = .choices i :: tape') (hch : (g.kids n)[i]? = some chosen)
    (herr : (g.notifyCompletion n finish tape).err = none) :
    (g.notifyCompletion n finish tape).released = [chosen] ∧
    (g.notifyCompletion n finish tape).tape = tape' ∧
    (∀ c ∈ g.kids n, c ≠ chosen → (g.notifyCompletion n finish tape).g.stateOf c = .cancelled) ∧
    GraphS.DownClosed g (g.notifyCompletion n finish tape).g (g.notifyCompletion n finish tape).cancelled :=
  GraphS.conditional_completion g n finish tape tape' t i chosen hwf ht hc hcond hp hsum htape hch herr

/-- The join of a conditional is released by its first completed parent (and only
non-cancelled children are released): the release rule for non-conditional tasks. -/
theorem join_released_by_first_parent (g : GraphS) (n : Nat) (finish : Int) (tape : List Draw) (t : TaskS)
    (ht : g.task? n = some t) (hc : t.isComplete = true) (hnc : t.conditional = false)
    (herr : (g.notifyCompletion n finish tape).err = none) :
    (g.notifyCompletion n finish tape).released = (g.kids n).filter g.releasedBy :=
  (GraphS.notify_nonconditional g n finish tape t ht hc hnc herr).1

/-- A cancelled task can never start (so nothing on an untaken branch runs). -/
theorem untaken_never_starts (t : TaskS) (time fuzzed : Int) (h : t.state = .cancelled) :
    (t.doStart time fuzzed).2 = some .valueError := by
  simp [TaskS.doStart, h]

/-! ### non-vacuity: the fork-in-branch graph, branch B2 taken -/
example :
    let mk (nm : String) (cond term : Bool) (p : Int) (st : TState) : TaskS :=
      { name := nm, conditional := cond, terminal := term, prob := p, strategies := [], profile := 0,
        deadline := 10, state := st, remaining := some 0 }
    let g : GraphS := ⟨"G", #[mk "C" true false 1000 .completed, mk "B1" false false 500 .virtual,
        mk "B2" false false 500 .virtual, mk "X" false false 1000 .virtual, mk "Y" false false 1000 .virtual,
        mk "J" false true 1000 .virtual],
      #[[1, 2], [3, 4], [5], [5], [5], []], #[[], [0], [0], [1], [1], [2, 3, 4]], [0, 1, 2, 3, 4, 5]⟩
    let r := g.notifyCompletion 0 5 [.choices 1]
    r.err = none ∧ r.released = [2] ∧ r.cancelled = [1, 4, 3] ∧ r.g.stateOf 5 = .virtual := by
  decide

end ErdosVerif.C07
