import ErdosVerif.Model.TaskGraph
namespace ErdosVerif.C07
open ErdosVerif.Model
theorem placeholder : TState.virtual.val = 1 := rfl
end ErdosVerif.C07
