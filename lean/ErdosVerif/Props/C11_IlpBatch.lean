/-
C11 (ILP clause, BATCHING mode): for EVERY feasible point `σ` of the model that
`ILPScheduler(batching=True)` builds (`genB inst`), not only the solver's answer.

"Parent variable" of a BatchTask `c` (`p ∈ I.parentVars c`, characterised by
`parent_variable_iff`): a BatchTask that holds a graph parent of some member of `c`.

* `child_batch_after_parent_batch`: a placed parent BatchTask finishes (`start + runtime + 1`)
  before the child BatchTask starts — whether or not the child is placed;
* `child_not_before_parent_var`: `start c ≥ start p` even for an unplaced parent variable;
* `self_parent_never_placed`: a BatchTask that holds a parent of one of its own members is never
  placed (a parent and its child are never returned in one batch);
* `placed_child_parents_counted`, `child_placed_parents_placed_partial`,
  `decision_parents_placed_partial`: a placed child BatchTask with at least one parent variable
  has `all_parents_placed = 1`, hence (exchange of the double sum + at most one placed BatchTask
  per task) every graph parent of every member in a RUNNING or placed BatchTask — also on the
  returned decisions; without a parent variable nothing holds (C11-ILPB-2);
* `decisions_ordered`: the same on what `schedule()` returns (`decodeB`): a task returned placed
  through BatchTask `c` starts at or after `start + runtime + 1` of every returned-placed
  graph parent whose BatchTask is a parent variable of `c`.

FALSE of the code (counterexamples below):
* `running_parent_counterexample` (C11-ILPB-1): a RUNNING parent BatchTask contributes runtime 0;
* `unbatched_parent_counterexample` (C11-ILPB-2): an offered parent that joins no BatchTask has no
  variables; its child (here even its grandchild next to the grandparent) is placed freely.
-/
import ErdosVerif.Props.C10_IlpBatch
import ErdosVerif.Lemmas.IlpBatchParents
namespace ErdosVerif.C11_IlpBatch
open ErdosVerif.Mip ErdosVerif.IlpBatch
open ErdosVerif.Ilp (Var compatible qty nsum)

/-- `p` is a parent variable of `c` iff it holds a graph parent of some member of `c`. -/
theorem parent_variable_iff {I : BInst} {c p : Nat} :
    p ∈ I.parentVars c ↔ p < I.nB ∧
      ∃ m ∈ I.members c, ∃ u ∈ I.base.parentsOf (I.task m).uniq, I.hasMember p u = true := by
  rw [mem_parentVars, nParentsIn_ne_zero]

/-- **Child batch after parent batch**: a parent BatchTask placed on worker `w` ends
(`start + runtime + 1`) before the child BatchTask starts. -/
theorem child_batch_after_parent_batch {I : BInst} {σ : Var → Int} (h : sat σ (genB I)) {c p w : Nat}
    (hc : c < I.nB) (hcr : I.bRunning c = false) (hp : p ∈ I.parentVars c)
    (hpl : I.chosen σ p = some w) :
    σ (.start p) + I.runtime p + 1 ≤ σ (.start c) := by
  have hrow := start_after_row h (mem_nonRunning.mpr ⟨hc, hcr⟩) hp (chosen_spec hpl).1
  rw [chosen_xval hpl, sval_var (chosen_nonRunning hpl), sval_var hcr] at hrow
  omega

/-- The child's start variable is never before the parent variable's start (`now` for a RUNNING
parent BatchTask), placed or not. -/
theorem child_not_before_parent_var {I : BInst} {σ : Var → Int} (h : sat σ (genB I)) {c p : Nat}
    (hc : c < I.nB) (hcr : I.bRunning c = false) (hp : p ∈ I.parentVars c) (hw : 0 < I.nW) :
    sval I σ p ≤ σ (.start c) := by
  have hrow := start_after_row h (mem_nonRunning.mpr ⟨hc, hcr⟩) hp hw
  have hx := xval_nonneg h (mem_parentVars.mp hp).1 hw
  have hr : (0 : Int) ≤ I.runtime p + 1 := by simp [BInst.runtime]; omega
  have := Int.mul_nonneg hr hx
  rw [sval_var hcr] at hrow
  omega

/-- A BatchTask holding a parent of one of its own members can never be placed. -/
theorem self_parent_never_placed {I : BInst} {σ : Var → Int} (h : sat σ (genB I)) {c : Nat}
    (hc : c < I.nB) (hp : c ∈ I.parentVars c) : I.chosen σ c = none := by
  cases hch : I.chosen σ c with
  | none => rfl
  | some w =>
    exfalso
    have := child_batch_after_parent_batch h hc (chosen_nonRunning hch) hp hch
    have hr : (0 : Int) ≤ I.runtime c := by simp [BInst.runtime]
    omega

/-- The counting row a placed child BatchTask satisfies: `all_parents_placed = 1` and
`Σ_p (#parents in p) · Σ x_p` = number of distinct graph parents of its members. -/
theorem placed_child_parents_counted {I : BInst} {σ : Var → Int} (h : sat σ (genB I)) {c w : Nat}
    (hc : c < I.nB) (hne : I.parentVars c ≠ []) (hpl : I.chosen σ c = some w) :
    σ (.allParents c) = 1 ∧ (I.parentExpr c).eval σ = ((I.parentTasks c).length : Int) := by
  have hcn := mem_nonRunning.mpr ⟨hc, chosen_nonRunning hpl⟩
  obtain ⟨r0, r1, rb⟩ := parents_rows h hcn hne
  have h1 := one_le_psum_of_chosen h hc hpl
  rcases rb with h0 | h1'
  · have := r0 h0; omega
  · exact ⟨h1', r1 h1'⟩

/-- Full statement (FALSE without the hypothesis `hne`, see `unbatched_parent_counterexample`):
a placed child BatchTask has every graph parent of every member in a BatchTask that is RUNNING
or placed.  Proved for every child BatchTask with at least one parent variable (then also the
parents that joined no BatchTask are counted, and block the child). -/
theorem child_placed_parents_placed_partial {I : BInst} {σ : Var → Int} (h : sat σ (genB I))
    (hws : I.wfShared = true) (hwu : I.wfUniq = true) {c w m : Nat} (hc : c < I.nB)
    (hne : I.parentVars c ≠ []) (hpl : I.chosen σ c = some w) (hm : m ∈ I.members c)
    {u : String} (hu : u ∈ I.base.parentsOf (I.task m).uniq) :
    ∃ p, p < I.nB ∧ I.hasMember p u = true ∧ (I.bRunning p = true ∨ (I.chosen σ p).isSome = true) := by
  apply placed_child_all_parents_placed h hws hwu hc hne hpl
  unfold BInst.parentTasks
  simp only [List.mem_eraseDups]
  exact List.mem_flatMap.mpr ⟨m, hm, hu⟩

/-- The same on the returned decisions: if task `d.task` is returned placed through a BatchTask
with a parent variable, every graph parent `t` that is a task of the call is a member of a RUNNING
BatchTask or is itself returned placed. -/
theorem decision_parents_placed_partial {I : BInst} {σ : Var → Int} (h : sat σ (genB I))
    (hws : I.wfShared = true) (hwu : I.wfUniq = true) {d : BDecision} (hd : d ∈ decodeB I σ)
    {c w : Nat} {time : Int} (hp : d.placed = some (c, w, time)) (hne : I.parentVars c ≠ [])
    {t : Nat} (ht : t < I.nT) (hu : (I.task t).uniq ∈ I.base.parentsOf (I.task d.task).uniq) :
    (∃ p, p < I.nB ∧ I.bRunning p = true ∧ t ∈ I.members p) ∨
    (∃ d' ∈ decodeB I σ, d'.task = t ∧ d'.placed.isSome = true) := by
  obtain ⟨hcn, hm, hcc, _⟩ := placed_decision_spec hd hp
  obtain ⟨p, hpb, hmem, hor⟩ :=
    child_placed_parents_placed_partial h hws hwu (mem_nonRunning.mp hcn).1 hne hcc hm hu
  have htp : t ∈ I.members p := (hasMember_iff hwu hpb ht).mp hmem
  rcases hor with hr | hs
  · exact Or.inl ⟨p, hpb, hr, htp⟩
  · right
    cases hch : I.chosen σ p with
    | none => rw [hch] at hs; cases hs
    | some w' =>
      exact ⟨_, IlpBatch.member_gets_batch_placement h hws hpb ht htp hch, rfl, rfl⟩

/-- **What `schedule()` returns is ordered**: two returned decisions, both placed, the BatchTask of
the parent task being a parent variable of the BatchTask of the child task. -/
theorem decisions_ordered {I : BInst} {σ : Var → Int} (h : sat σ (genB I)) {dc dp : BDecision}
    (hdc : dc ∈ decodeB I σ) (hdp : dp ∈ decodeB I σ) {c p wc wp : Nat} {tc tp : Int}
    (hpc : dc.placed = some (c, wc, tc)) (hpp : dp.placed = some (p, wp, tp))
    (hpar : p ∈ I.parentVars c) : tp + I.runtime p + 1 ≤ tc := by
  obtain ⟨hcn, _, hcc, rfl⟩ := placed_decision_spec hdc hpc
  obtain ⟨_, _, hcp, rfl⟩ := placed_decision_spec hdp hpp
  exact child_batch_after_parent_batch h (mem_nonRunning.mp hcn).1 (mem_nonRunning.mp hcn).2 hpar hcp

/-- The parent variable relation holds in particular for a graph edge between the two tasks. -/
theorem parent_variable_of_edge {I : BInst} {c p mc mp : Nat} (hp : p < I.nB)
    (hmc : mc ∈ I.members c) (hmp : mp ∈ I.members p)
    (hedge : (I.task mp).uniq ∈ I.base.parentsOf (I.task mc).uniq) : p ∈ I.parentVars c := by
  rw [parent_variable_iff]
  refine ⟨hp, mc, hmc, _, hedge, ?_⟩
  simp only [BInst.hasMember, List.any_eq_true]
  exact ⟨mp, hmp, by simp⟩

/-! ### Non-vacuity (the two-chain instance of `C10_IlpBatch`) -/

open C10_IlpBatch in
/-- Per@G2 (BatchTask 3) is a child of Cam@G2, held by BatchTasks 0 (batch of 2) and 1 (chosen). -/
example : sat exSigma (genB exInst) ∧ 1 ∈ exInst.parentVars 3 ∧ 0 ∈ exInst.parentVars 3 ∧
    exInst.chosen exSigma 1 = some 0 ∧ exInst.chosen exSigma 3 = some 0 ∧
    exSigma (.start 1) + exInst.runtime 1 + 1 ≤ exSigma (.start 3) := by decide

/-! ### Finding C11-ILPB-1: RUNNING parent -/

/-- `now = 3`; P runs since 2 with a 6 µs strategy; its child C is offered ahead (lookahead). -/
def runningParentInst : BInst :=
  { now := 3
    workers := [⟨"W0", "P0", [("CPU", 4)]⟩]
    tasks := [⟨"C@G0", "C", 0, "G0", .virtual, -1, 40, "B", 0, 0, ⟨0, 0, []⟩⟩,
              ⟨"P@G0", "P", 0, "G0", .running, 1, 40, "A", 0, 1, ⟨1, 6, [("CPU", 1)]⟩⟩]
    nOffered := 1
    nodes := [⟨"P@G0", "P", 0, "G0", .running⟩, ⟨"C@G0", "C", 0, "G0", .virtual⟩]
    edges := [("P@G0", "C@G0")]
    enforceDeadlines := true, retract := false, releaseTaskgraphs := false, goalSlack := false
    allowed0 := []
    profiles := [⟨"B", [⟨1, 2, [("CPU", 1)]⟩], [0]⟩, ⟨"A", [⟨1, 6, [("CPU", 1)]⟩], [1]⟩] }

def runningParentSigma : Var → Int
  | .start 0 => 4
  | .x 0 0 0 => 1
  | .allParents 0 => 1
  | .greward 0 => 1
  | .treward 0 => 1
  | _ => 0

/-- A feasible point in which the child starts at `now + 1 = 4`, although its RUNNING parent
(BatchTask 1, a parent variable of BatchTask 0) started at 2 with runtime 6: the non-batching
bound `now + runtime + 1` (`C11_Ilp.after_running_parent`) fails. -/
theorem running_parent_counterexample :
    runningParentInst.wf = true ∧ runningParentInst.crash = none ∧
    sat runningParentSigma (genB runningParentInst) ∧
    1 ∈ runningParentInst.parentVars 0 ∧ runningParentInst.bRunning 1 = true ∧
    decodeB runningParentInst runningParentSigma = [⟨0, some (0, 0, 4)⟩] ∧
    ¬ (runningParentInst.now + runningParentInst.runtime 1 + 1 ≤ runningParentSigma (.start 0)) := by
  decide

/-! ### Finding C11-ILPB-2: a parent without BatchTask -/

open C10_IlpBatch in
/-- In `dependentInst` (T0 → T1 → T2) the offered T1 joins no BatchTask; T2 (task 2) is returned
placed at 1 although its parent T1 (task 1) gets no decision, at the same instant as its
grandparent T0 (task 0). -/
theorem unbatched_parent_counterexample :
    sat dependentSigma (genB dependentInst) ∧
    (("T1@G0", "T2@G0") ∈ dependentInst.edges) ∧ 1 < dependentInst.nOffered ∧
    decodeB dependentInst dependentSigma = [⟨2, some (0, 0, 1)⟩, ⟨0, some (1, 0, 1)⟩] ∧
    dependentInst.parentVars 0 = [] := by
  decide

end ErdosVerif.C11_IlpBatch
