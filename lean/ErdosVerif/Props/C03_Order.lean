import ErdosVerif.Lemmas.SimQueueRun3
import ErdosVerif.Lemmas.SimInv
import ErdosVerif.Props.C16
/-!
# C03 / C16 (run level) — events take effect in time order

C16 proves the heap theorems for the queue data structure in isolation, C03 that the clock
never moves backwards. Here both are connected over **whole runs** of the simulator model
(`Sim.simulate`; every world, decision tape, draw tape, number of iterations; normal or
aborted), via the invariant `Sim.QInv` (`Lemmas/SimQueue*.lean`, Hoare triples over every
handler, including the `editEvent` / `reheapify` and `removeEvent` paths):

* `queue_is_heap` — in every reachable state the event queue holds well-formed events (a
  task exactly for the six TASK_* types, `task_types_match_source`) in heap order w.r.t.
  `Event.__lt__`; hence (`popped_event_is_minimum`) the event `popEvent` hands to the
  dispatcher is the root and nothing queued is smaller;
* `pop_at_own_time` — every `.pop t _` entry of the history was appended when the clock
  (the last clock entry) was `t`: an event takes effect exactly at its time;
* `pops_nondecreasing_run` — the times of the popped events, in pop order, are
  non-decreasing, and none is later than the final clock;
* `step_then_pop` — the mechanism: after `step (head.time − now)` the popped event has the
  clock's time and nothing that stays queued is overdue.

**Finding (`end_event_in_the_past_counterexample`).** "Nothing is queued in the past" is
false: when a scheduler invocation finishes after the loop timeout,
`__get_next_scheduler_event` queues SIMULATOR_END at the timeout, i.e. before the clock, and
the next loop iteration raises `ValueError: Simulator cannot step backwards`
(`past_end_event_aborts_run`). The pop order is not affected (the event is never popped).
-/
namespace ErdosVerif.C03
open ErdosVerif.Model ErdosVerif.Model.Sim ErdosVerif.Model.Heap

/-- The `EventType` values the simulator model uses are the ones of the source. -/
theorem event_type_values_match_source :
    Gen.eventTypeTable = [("SIMULATOR_START", ET.simulatorStart), ("TASK_CANCEL", ET.taskCancel),
      ("EVICT_PROFILE", ET.evictProfile), ("TASK_FINISHED", ET.taskFinished),
      ("TASK_GRAPH_RELEASE", ET.taskGraphRelease), ("TASK_RELEASE", ET.taskRelease),
      ("UPDATE_WORKLOAD", ET.updateWorkload), ("TASK_PREEMPT", ET.taskPreempt), ("TASK_MIGRATION", ET.taskMigration),
      ("LOAD_PROFILE", ET.loadProfile), ("TASK_PLACEMENT", ET.taskPlacement), ("SCHEDULER_START", ET.schedulerStart),
      ("SCHEDULER_FINISHED", ET.schedulerFinished), ("SIMULATOR_END", ET.simulatorEnd),
      ("LOG_UTILIZATION", ET.logUtilization)] := by decide

/-- The types for which the model creates events with a task are the task-carrying types
of the source (`Event.__init__`), by value in the generated `EventType` table. -/
theorem task_types_match_source : ∀ v < 32, taskType v = C16.sourceHasTask v := by decide

/-- The clock entries used here are C03's. -/
theorem clk_eq_clockOf : clk = clockOf := by
  funext e; cases e <;> rfl

/-- **The simulator's queue is a heap in every reachable state.** -/
theorem queue_is_heap (s0 : SimS) (fuel : Nat) (h0 : QInv s0) :
    AllP SEvent.WF (simulate s0 fuel).2.queue ∧ HeapFrom SEvent.lt (simulate s0 fuel).2.queue 0 :=
  ⟨(simulate_qinv s0 fuel h0).wf, (simulate_qinv s0 fuel h0).heap⟩

/-- **The popped event is a minimum**: in a state satisfying the invariant (every reachable
state does), `heappop` returns the root, and neither what stays queued nor anything that
was queued is `<` it. -/
theorem popped_event_is_minimum (s : SimS) (e : SEvent) (q : Array SEvent) (h : QInv s)
    (hp : heappop SEvent.lt s.queue = some (e, q)) :
    (∃ h0 : 0 < s.queue.size, e = s.queue[0]) ∧ (∀ y ∈ q, SEvent.lt y e = false) ∧
    (∀ y ∈ s.queue, SEvent.lt y e = false) ∧ QInv { s with queue := q } :=
  ⟨(pop_is_min s e q h hp).1, (pop_is_min s e q h hp).2.2.1, (pop_is_min s e q h hp).2.2.2, QInv.pop s e q h hp⟩

/-- **An event takes effect at its own time**: whenever the history of a run is
`pre ++ [.pop t ty] ++ post`, the clock after `pre` (its last clock entry, 0 if none) is `t`. -/
theorem pop_at_own_time (s0 : SimS) (fuel : Nat) (h0 : QInv s0) (pre post : List LogE) (t : Int) (ty : Nat)
    (hlog : (simulate s0 fuel).2.log.toList = pre ++ LogE.pop t ty :: post) : t = curClock pre :=
  (simulate_qinv s0 fuel h0).pops pre t ty post hlog

/-- **Pop times never decrease** along a run, and no event was popped later than the final
clock, which is the last clock entry of the history. -/
theorem pops_nondecreasing_run (s0 : SimS) (fuel : Nat) (h0 : QInv s0) :
    ((simulate s0 fuel).2.log.toList.filterMap popTime).Pairwise (· ≤ ·) ∧
    (∀ t ∈ (simulate s0 fuel).2.log.toList.filterMap popTime, t ≤ (simulate s0 fuel).2.now) ∧
    (simulate s0 fuel).2.now = curClock (simulate s0 fuel).2.log.toList :=
  ⟨(simulate_qinv s0 fuel h0).popsMono, (simulate_qinv s0 fuel h0).popsLe, (simulate_qinv s0 fuel h0).now⟩

/-- **The mechanism** (`simulate()`: `__step(peek().time − now)` then `next()`): from a state
satisfying the invariant, if the step succeeds, the event popped next has exactly the
clock's time, nothing that stays queued is overdue, and the invariant holds again. -/
theorem step_then_pop (s s1 : SimS) (head e : SEvent) (q : Array SEvent) (h : QInv s)
    (hh : s.queue[0]? = some head) (hs : StepOK s (head.ev.time - s.now) s1)
    (hp : heappop SEvent.lt s1.queue = some (e, q)) :
    s1.now = e.ev.time ∧ (∀ y ∈ q, s1.now ≤ y.ev.time) ∧ QInv { s1 with queue := q } :=
  ⟨(pop_after_step s s1 head e q h hh hs hp).2, nothing_overdue_at_pop s s1 head e q h hh hs hp,
   (pop_after_step s s1 head e q h hh hs hp).1⟩

/-- Non-vacuity: the initial state of any world (empty queue, empty history, clock 0). -/
example : QInv { flags := { loopTimeout := 100 }, jobs := #[], allGraphs := #[], allMeta := #[],
                 pools := #[], poolNames := #[], tape := [], decisions := [] } :=
  qinv_initial _ rfl rfl rfl

/-! ### the finding: SIMULATOR_END queued in the past -/

/-- The state in which a SCHEDULER_FINISHED event is handled at time 50 (the scheduler ran
from 0 to 50) in a run with loop timeout 20. -/
def pastEndState : SimS :=
  { flags := { loopTimeout := 20 }, now := 50, jobs := #[], allGraphs := #[], allMeta := #[], pools := #[],
    poolNames := #[], tape := [], decisions := [], lastPlacements := some ⟨[], 50, none⟩, loaderReleased := true }

/-- **Counterexample to "nothing is queued in the past".** The event that
`handleSchedulerFinish` queues next (`__get_next_scheduler_event`) is SIMULATOR_END (type 13)
at the loop timeout 20, while the clock is 50. -/
theorem end_event_in_the_past_counterexample :
    let out := (ExceptT.run (nextSchedulerEvent 50)).run pastEndState
    out.1.toOption.map (fun e => (e.ev.etype, e.ev.time)) = some (ET.simulatorEnd, 20) ∧ out.2.now = 50 := by
  decide

/-- The same state with that event at the head of the queue (and the history of a clock at 50). -/
def pastEndQueued : SimS :=
  { pastEndState with queue := #[{ ev := ⟨4, 20, ET.simulatorEnd, none⟩ }], log := #[.clock 50] }

/-- … and then the next loop iteration aborts the run: `__step` is asked to go back 30 µs and
raises ValueError; the event is never popped (the history is unchanged). The state satisfies
the queue invariant, so the invariant does not exclude it. -/
theorem past_end_event_aborts_run :
    QInv pastEndQueued ∧
    ((ExceptT.run iter).run pastEndQueued).1.toOption.isNone = true ∧
    (match ((ExceptT.run iter).run pastEndQueued).1 with | .error .valueError => true | _ => false) = true ∧
    ((ExceptT.run iter).run pastEndQueued).2.log.size = 1 := by
  refine ⟨⟨?_, ?_, by decide, ?_, by decide, by decide⟩, by decide, by decide, by decide⟩
  · rw [allP_iff_mem]
    intro x hx
    have : x = { ev := ⟨4, 20, ET.simulatorEnd, none⟩ } := by simpa [pastEndQueued] using hx
    subst this; rfl
  · intro j hj hj0; simp [pastEndQueued] at hj; omega
  · intro pre t ty post h
    have : pre ++ LogE.pop t ty :: post ≠ [LogE.clock 50] := by
      cases pre with
      | nil => simp
      | cons a pre => cases pre <;> simp
    exact absurd h.symm this

/-- Non-vacuity of the hypotheses of `popped_event_is_minimum`: the state above satisfies the
invariant and its queue can be popped. -/
example : QInv pastEndQueued ∧ ∃ e q, heappop SEvent.lt pastEndQueued.queue = some (e, q) :=
  ⟨past_end_event_aborts_run.1, _, _, rfl⟩

end ErdosVerif.C03
