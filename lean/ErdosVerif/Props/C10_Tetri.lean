/-
C10 (TetriSched clauses, both formulations): the decision `schedule()` returns, read off ANY
feasible point `σ` of the model (`decode I σ`), the all-unplaced answer when the solver finds
nothing (`decodeFail I`) or the answer without a model (`decodeNoModel I`), is complete,
feasible and side-effect free:

* exactly one decision per task: the cancellations of the CPLEX admission control followed by
  one decision per task with variables that is not RUNNING, in `tasks_to_variables` order
  (`one_decision_per_task`, `no_duplicate_decisions`);
* only for tasks of this invocation — offered, or SCHEDULED earlier and re-optimised in
  non-retracting mode — and never a placement for a RUNNING task (`only_known_never_running`);
* every offered task that is not RUNNING is answered (`answers_all_offered`, `fail_answers`);
  when no model is built, Gurobi was offered SCHEDULED tasks only and CPLEX cancelled every
  offered task (`nomodel_answers`);
* a placement names a worker of this invocation (hence its pool), a strategy of the task that
  this worker can hold, a time on the grid, `≥ now` and `≥` the known release
  (`placement_wellformed`);
* all placements together with the RUNNING tasks respect every worker's total quantity of every
  resource at every planned slot (`jointly_feasible`: this is what the per-slot rows say) and
  therefore at every instant `τ ≥ now` with half-open occupancy `[start, start + runtime)`
  (`capacity_at_instant`: all starts lie on the grid);
* `pure`: in the model `decode` is a function of the instance and the assignment and returns
  decisions only; the tie is the suite, which snapshots every live getter before and after the
  real call.
-/
import ErdosVerif.Lemmas.TetriSound
namespace ErdosVerif.C10_Tetri
open ErdosVerif.Mip ErdosVerif.Tetri ErdosVerif.TetriSpec

variable {I : Inst} {σ : Var → Int}

/-- Cancellations first, then one decision per non-RUNNING task with variables, in order. -/
theorem one_decision_per_task (I : Inst) (σ : Var → Int) :
    (decode I σ).map Decision.task = I.cancelled ++ I.nonRunning := by
  simp [decode, List.map_map, Function.comp_def]

theorem range_nodup (n : Nat) : (List.range n).Nodup := by
  induction n with
  | zero => simp
  | succ n ih =>
    rw [List.range_succ, List.nodup_append]
    refine ⟨ih, by simp, ?_⟩
    intro a ha b hb
    simp at hb
    have := List.mem_range.mp ha
    omega

/-- No task is answered twice. -/
theorem no_duplicate_decisions (I : Inst) (σ : Var → Int) :
    ((decode I σ).map Decision.task).Nodup := by
  rw [one_decision_per_task, List.nodup_append]
  refine ⟨List.Nodup.sublist List.filter_sublist (range_nodup _),
    List.Nodup.sublist List.filter_sublist (List.Nodup.sublist List.filter_sublist (range_nodup _)), ?_⟩
  intro a ha b hb hab
  subst hab
  have h1 := (mem_cancelled.mp ha).2
  have h2 := (mem_nonRunning.mp hb).2.1
  simp [h1] at h2

/-- Decisions only for tasks of this invocation; a cancellation only for an offered task; a
placement / non-placement never for a RUNNING task. -/
theorem only_known_never_running {d : Decision} (hd : d ∈ decode I σ) (hwf : I.wf = true) :
    d.task < I.nT ∧ (d.out = .cancel → d.task < I.nOffered) ∧ (d.out ≠ .cancel → I.running d.task = false) := by
  have hoff : I.nOffered ≤ I.nT := by
    simp only [Inst.wf, Inst.wfGrid, Bool.and_eq_true, decide_eq_true_eq] at hwf
    exact hwf.1.2.1.2
  rcases mem_decode.mp hd with ⟨t, ht, rfl⟩ | ⟨t, ht, rfl⟩
  · have := (mem_cancelled.mp ht).1
    exact ⟨by simp only; omega, fun _ => this, fun h => absurd rfl h⟩
  · obtain ⟨h1, _, h3⟩ := mem_nonRunning.mp ht
    simp only [decodeTask_task]
    exact ⟨h1, fun h => absurd h (decodeTask_ne_cancel I σ t), fun _ => h3⟩

/-- Every offered task that is not RUNNING is answered. -/
theorem answers_all_offered (σ : Var → Int) (hwf : I.wf = true) {t : Nat} (ht : t < I.nOffered)
    (hr : I.running t = false) : ∃ d ∈ decode I σ, d.task = t := by
  have hoff : I.nOffered ≤ I.nT := by
    simp only [Inst.wf, Inst.wfGrid, Bool.and_eq_true, decide_eq_true_eq] at hwf
    exact hwf.1.2.1.2
  by_cases ha : I.active t = true
  · exact ⟨I.decodeTask σ t, mem_decode.mpr (Or.inr ⟨t, mem_nonRunning.mpr ⟨by omega, ha, hr⟩, rfl⟩), by simp⟩
  · exact ⟨⟨t, .cancel⟩, mem_decode.mpr (Or.inl ⟨t, mem_cancelled.mpr ⟨ht, by simpa using ha⟩, rfl⟩), rfl⟩

/-- When the solver finds no solution every offered task is still answered (cancelled or
"not placed"). -/
theorem fail_answers {t : Nat} (ht : t < I.nOffered) : ∃ d ∈ decodeFail I, d.task = t := by
  by_cases ha : I.active t = true
  · refine ⟨⟨t, .unplaced⟩, ?_, rfl⟩
    simp only [decodeFail, List.mem_append, List.mem_map]
    exact Or.inr ⟨t, mem_offeredAct.mpr ⟨ht, ha⟩, rfl⟩
  · refine ⟨⟨t, .cancel⟩, ?_, rfl⟩
    simp only [decodeFail, List.mem_append, List.mem_map]
    exact Or.inl ⟨t, mem_cancelled.mpr ⟨ht, by simpa using ha⟩, rfl⟩

/-- Without a model: the Gurobi scheduler was offered nothing but SCHEDULED tasks (which keep
their placement), the CPLEX scheduler has cancelled every offered task. -/
theorem nomodel_answers (hm : I.noModel = true) {t : Nat} (ht : t < I.nOffered) :
    (I.cplex = false ∧ (I.task t).state = .scheduled) ∨
    (I.cplex = true ∧ (⟨t, .cancel⟩ : Decision) ∈ decodeNoModel I) := by
  unfold Inst.noModel at hm
  split at hm
  · next hc =>
    right
    refine ⟨hc, ?_⟩
    have hemp : I.offeredAct = [] := by simpa using hm
    have hna : I.active t = false := by
      cases ha : I.active t with
      | false => rfl
      | true =>
        have : t ∈ I.offeredAct := mem_offeredAct.mpr ⟨ht, ha⟩
        rw [hemp] at this; simp at this
    simp only [decodeNoModel, List.mem_map]
    exact ⟨t, mem_cancelled.mpr ⟨ht, hna⟩, rfl⟩
  · next hc =>
    left
    refine ⟨by simpa using hc, ?_⟩
    simp only [Bool.or_eq_true, beq_iff_eq, List.all_eq_true, List.mem_range] at hm
    rcases hm with h0 | hall
    · omega
    · exact hall t ht

/-- A placement names an existing worker, a strategy of the task that fits the worker, and a grid
time not before `now` nor before the known release. -/
theorem placement_wellformed {d : Decision} (hd : d ∈ decode I σ) {w s : Nat} {time : Int}
    (hp : d.out = .placed w s time) :
    w < I.nW ∧ s < (I.task d.task).nS ∧
    compatible (I.worker w) ((I.task d.task).strat s) = true ∧
    I.now ≤ time ∧ (I.task d.task).release ≤ time ∧ ∃ k, k < I.nSlots ∧ time = I.slot k := by
  rcases mem_decode.mp hd with ⟨t, _, rfl⟩ | ⟨t, _, rfl⟩
  · simp at hp
  · obtain ⟨k, hc, rfl⟩ := decodeTask_placed hp
    obtain ⟨hk, hv, _⟩ := chosen_spec hc
    obtain ⟨h1, h2, h3⟩ := mem_keys.mp hk
    obtain ⟨_, hcomp, hrel, _⟩ := hasVar_spec hv
    simp only [decodeTask_task]
    exact ⟨h1, h3, hcomp, slot_ge_now I k, hrel, k, h2, rfl⟩

/-- **Joint feasibility at every planned slot**: the decoded plan plus the RUNNING tasks never
exceed any worker's total quantity of any resource. -/
theorem jointly_feasible (h : sat σ (gen I)) (hwf : I.wf = true) (hm : I.noModel = false)
    {w : Nat} (hw : w < I.nW) {k : Nat} (hk : k < I.nSlots) (r : String) :
    load I (planOf I σ) w k r ≤ qty (I.worker w).res r :=
  capacity_at_slot h hwf hm hw hk r

/-- A task occupying the instant `τ` occupies the last grid slot at or before `τ`. -/
theorem demandInstant_le {plan : Plan} (hv : ValidPlan I plan) (hd : 1 ≤ I.disc) {w : Nat} {τ : Int}
    (hτ : I.now ≤ τ) (r : String) {t : Nat} (ht : t ∈ I.act) (hwfR : I.wf = true) (hm : I.noModel = false) :
    demandInstant I plan w τ r t ≤ demandAt I plan w (min ((τ - I.now).toNat / I.disc) (I.nSlots - 1)) r t := by
  unfold demandInstant demandAt
  cases hp : plan.get t with
  | none => simp
  | some c =>
    simp only
    split
    · next hc =>
      have hkc : c.2.1 < I.nSlots := by
        by_cases hr : I.running t = true
        · have := hv.running t (mem_act.mp ht).1 (mem_act.mp ht).2 hr
          rw [hp] at this
          simp only [Option.some.injEq] at this
          have hk := running_key hwfR ht hr hm
          rw [← this] at hk
          exact (mem_keys.mp hk).2.1
        · exact (hv.wf t c (mem_act.mp ht).1 (by simpa using hr) hp).2.1
      have hcov : I.covers t c.2.1 c.2.2 (min ((τ - I.now).toNat / I.disc) (I.nSlots - 1)) = true := by
        obtain ⟨_, h1, h2⟩ := hc
        simp only [Inst.slot] at h1 h2
        simp only [Inst.covers, Bool.and_eq_true, decide_eq_true_eq]
        have hn : ((τ - I.now).toNat : Int) = τ - I.now := Int.toNat_of_nonneg (by omega)
        have hle : c.2.1 * I.disc ≤ (τ - I.now).toNat := by omega
        have hdiv : c.2.1 ≤ (τ - I.now).toNat / I.disc := (Nat.le_div_iff_mul_le (by omega)).mpr hle
        have hmul : (τ - I.now).toNat / I.disc * I.disc ≤ (τ - I.now).toNat := Nat.div_mul_le_self _ _
        constructor
        · omega
        · have hmin : min ((τ - I.now).toNat / I.disc) (I.nSlots - 1) ≤ (τ - I.now).toNat / I.disc :=
            Nat.min_le_left _ _
          have := Nat.mul_le_mul_right I.disc hmin
          omega
      simp [hc.1, hcov]
    · omega

/-- **Capacity at every instant** `τ ≥ now` (half-open occupancy `[start, start + runtime)`), for
any valid plan of the specification — in particular for the plan decoded from a feasible point. -/
theorem capacity_at_instant_of_valid {plan : Plan} (hv : ValidPlan I plan) (hwf : I.wf = true)
    (hm : I.noModel = false) {w : Nat} (hw : w < I.nW) {τ : Int} (hτ : I.now ≤ τ) (r : String) :
    loadInstant I plan w τ r ≤ qty (I.worker w).res r := by
  have hG : 1 ≤ I.disc ∧ 1 ≤ I.nSlots := by
    simp only [Inst.wf, Inst.wfGrid, Bool.and_eq_true, decide_eq_true_eq, hm, Bool.false_or] at hwf
    exact ⟨hwf.1.2.1.1.1.1, hwf.1.2.1.1.2⟩
  have hk : min ((τ - I.now).toNat / I.disc) (I.nSlots - 1) < I.nSlots := by
    have := Nat.min_le_right ((τ - I.now).toNat / I.disc) (I.nSlots - 1)
    omega
  have h1 : loadInstant I plan w τ r ≤ load I plan w (min ((τ - I.now).toNat / I.disc) (I.nSlots - 1)) r :=
    nsum_map_le _ _ _ (fun t ht => demandInstant_le hv hG.1 hτ r ht hwf hm)
  have h2 := hv.capacity w hw _ hk r
  omega

theorem capacity_at_instant (h : sat σ (gen I)) (hwf : I.wf = true) (hm : I.noModel = false)
    {w : Nat} (hw : w < I.nW) {τ : Int} (hτ : I.now ≤ τ) (r : String) :
    loadInstant I (planOf I σ) w τ r ≤ qty (I.worker w).res r :=
  capacity_at_instant_of_valid (tetri_sound h hwf hm) hwf hm hw hτ r

/-- The decision is a function of the instance and the assignment only (`pure` clause, model
side): equal inputs give equal decisions. -/
theorem plan_is_decision (I : Inst) (σ τ : Var → Int) (h : ∀ v, σ v = τ v) : decode I σ = decode I τ := by
  have : σ = τ := funext h
  rw [this]

/-! ### Non-vacuity (CPLEX formulation; the Gurobi one is exercised in C11_Tetri / C12_Tetri) -/

/-- One worker (CPU 2), a RUNNING task (1 CPU, runtime 3) and two offered 1-CPU tasks, three
slots of width 2. -/
def exInst : Inst :=
  { cplex := true, now := 1, disc := 2, planAheadOpt := 4
    workers := [⟨"W0", "P0", [("CPU", 2)]⟩]
    tasks := [⟨"A@G0", "A", 0, "G0", .released, 0, 9, [⟨2, [("CPU", 1)]⟩], 0, 0, 0⟩,
              ⟨"B@G1", "B", 0, "G1", .released, 0, 9, [⟨2, [("CPU", 1)]⟩], 0, 0, 0⟩,
              ⟨"R@G2", "R", 0, "G2", .running, 0, 9, [⟨3, [("CPU", 1)]⟩], 0, 0, 2⟩]
    nOffered := 2
    nodes := [⟨"A@G0", "A", 0, "G0"⟩, ⟨"B@G1", "B", 0, "G1"⟩, ⟨"R@G2", "R", 0, "G2"⟩]
    edges := []
    enforceDeadlines := true, retract := false, releaseTaskgraphs := false }

/-- `A` next to the RUNNING task at slot 0, `B` at slot 1 (time 3) — the RUNNING task is booked
for `[1, 4)`, so at slot 1 (time 3) it still holds a CPU. -/
def exSigma : Var → Int
  | .cell 0 0 0 0 => 1
  | .cell 1 0 1 0 => 1
  | .isPlaced _ => 1
  | .reward 0 => 8
  | .reward 1 => 6
  | _ => 0

example : exInst.wf = true ∧ exInst.noModel = false ∧ exInst.den = 4 := by decide
example : sat exSigma (gen exInst) := by decide
example : decode exInst exSigma = [⟨0, .placed 0 0 1⟩, ⟨1, .placed 0 0 3⟩] := by decide
example : load exInst (planOf exInst exSigma) 0 0 "CPU" = 2 ∧ load exInst (planOf exInst exSigma) 0 1 "CPU" = 2 := by
  decide
/-- Both offered tasks at slot 0 would need 3 CPUs: not a feasible point. -/
example : ¬ sat (fun v => match v with
    | .cell 1 0 1 0 => 0 | .cell 1 0 0 0 => 1 | .reward 1 => 8 | v => exSigma v) (gen exInst) := by decide

end ErdosVerif.C10_Tetri
