/-
C12 (ILP clause, BATCHING mode): deadline enforcement, for EVERY feasible point of `genB inst`.

The deadline of a BatchTask is the earliest deadline of its members; its deadline row exists iff
`I.bEnforce b`: `enforce_deadlines` is on and NOT all members belong to graphs in
`_allowed_to_miss_deadlines` (`enforce_iff`).

* `batch_deadline_row`, `placed_batch_meets_deadline`: an enforced, placed BatchTask finishes by
  the deadline of every member;
* `decision_meets_deadline`: the same on the returned decisions;
* `hopeless_member_unplaced`, `hopeless_decision_unplaced`: an enforced BatchTask with a member
  that cannot finish from `now + 1` (in particular from `now`) with the batch's strategy is never
  placed.

FALSE of the code in task-by-task mode (`unenforced_counterexample`, finding C12-ILPB-1): the
property says enforcement is unconditional without `release_taskgraphs`; the batching branch
drops the row for every graph whose sources are not all offered.  `enforce_unconditional_partial`
is what remains: enforcement is unconditional for BatchTasks with a member whose graph is not in
`_allowed_to_miss_deadlines`.
-/
import ErdosVerif.Props.C10_IlpBatch
namespace ErdosVerif.C12_IlpBatch
open ErdosVerif.Mip ErdosVerif.IlpBatch
open ErdosVerif.Ilp (Var compatible qty nsum)

/-- When the deadline row of a BatchTask exists. -/
theorem enforce_iff (I : BInst) (b : Nat) :
    I.bEnforce b = true ↔ I.enforceDeadlines = true ∧ ∃ m ∈ I.members b, I.isAllowed m = false := by
  unfold BInst.bEnforce
  by_cases hall : (I.members b).all I.isAllowed = true
  · simp only [hall, if_true]
    constructor
    · intro h; cases h
    · rintro ⟨_, m, hm, hf⟩
      have := List.all_eq_true.mp hall m hm
      rw [hf] at this; cases this
  · simp only [hall]
    constructor
    · intro h
      refine ⟨h, ?_⟩
      have : ¬ ∀ m ∈ I.members b, I.isAllowed m = true := fun hh => hall (List.all_eq_true.mpr hh)
      apply Classical.byContradiction
      intro hne
      apply this
      intro m hm
      cases hv : I.isAllowed m with
      | true => rfl
      | false => exact absurd ⟨m, hm, hv⟩ hne
    · rintro ⟨h, _⟩; exact h

/-- Full statement (FALSE, `unenforced_counterexample`): in task-by-task mode
(`release_taskgraphs = false`) every BatchTask's deadline is enforced.  Proved part: every
BatchTask with a member whose graph is not in `_allowed_to_miss_deadlines`. -/
theorem enforce_unconditional_partial (I : BInst) (b : Nat) (he : I.enforceDeadlines = true)
    {m : Nat} (hm : m ∈ I.members b) (hna : I.isAllowed m = false) : I.bEnforce b = true :=
  (enforce_iff I b).mpr ⟨he, m, hm, hna⟩

/-- The deadline row. -/
theorem batch_deadline_row {I : BInst} {σ : Var → Int} (h : sat σ (genB I)) {b : Nat} (hb : b < I.nB)
    (hr : I.bRunning b = false) (he : I.bEnforce b = true) :
    σ (.start b) + dur I σ b ≤ I.bDeadline b := by
  have := deadline_row h (mem_nonRunning.mpr ⟨hb, hr⟩) he
  rwa [sval_var hr] at this

/-- A placed BatchTask whose deadline is enforced finishes by the deadline of every member. -/
theorem placed_batch_meets_deadline {I : BInst} {σ : Var → Int} (h : sat σ (genB I)) {b w m : Nat}
    (hb : b < I.nB) (he : I.bEnforce b = true) (hc : I.chosen σ b = some w) (hm : m ∈ I.members b) :
    σ (.start b) + I.runtime b ≤ (I.task m).deadline := by
  have h1 := batch_deadline_row h hb (chosen_nonRunning hc) he
  have h2 := runtime_le_dur h hb (chosen_spec hc).1 (chosen_xval hc)
  have h3 := bDeadline_le_deadline hm
  omega

/-- **No returned placement misses an enforced deadline.** -/
theorem decision_meets_deadline {I : BInst} {σ : Var → Int} (h : sat σ (genB I)) {d : BDecision}
    (hd : d ∈ decodeB I σ) {b w : Nat} {time : Int} (hp : d.placed = some (b, w, time))
    (he : I.bEnforce b = true) : time + I.runtime b ≤ (I.task d.task).deadline := by
  obtain ⟨hb, hm, hc, rfl⟩ := placed_decision_spec hd hp
  exact placed_batch_meets_deadline h (mem_nonRunning.mp hb).1 he hc hm

/-- An enforced BatchTask with a member that cannot finish with the batch's strategy started at
`now + 1` is never placed (a fortiori a member with `deadline < now + runtime`). -/
theorem hopeless_member_unplaced {I : BInst} {σ : Var → Int} (h : sat σ (genB I)) {b m : Nat}
    (hb : b < I.nB) (he : I.bEnforce b = true) (hm : m ∈ I.members b)
    (hopeless : (I.task m).deadline < I.now + 1 + I.runtime b) : I.chosen σ b = none := by
  cases hc : I.chosen σ b with
  | none => rfl
  | some w =>
    exfalso
    have h1 := placed_batch_meets_deadline h hb he hc hm
    have h2 := IlpBatch.start_lb h (mem_nonRunning.mpr ⟨hb, chosen_nonRunning hc⟩)
    have h3 : I.now + 1 ≤ I.startLb b := by unfold BInst.startLb; omega
    omega

/-- The same on the returned decisions: such a task is not returned placed through that BatchTask. -/
theorem hopeless_decision_unplaced {I : BInst} {σ : Var → Int} (h : sat σ (genB I)) {d : BDecision}
    (hd : d ∈ decodeB I σ) {b w : Nat} {time : Int} (hp : d.placed = some (b, w, time))
    (he : I.bEnforce b = true) : I.now + 1 + I.runtime b ≤ (I.task d.task).deadline := by
  obtain ⟨hb, hm, hc, _⟩ := placed_decision_spec hd hp
  apply Classical.byContradiction
  intro hn
  have := hopeless_member_unplaced h (mem_nonRunning.mp hb).1 he hm (by omega)
  rw [this] at hc; cases hc

/-! ### Non-vacuity -/

open C10_IlpBatch in
example : sat exSigma (genB exInst) ∧ exInst.bEnforce 3 = true ∧ exInst.chosen exSigma 3 = some 0 ∧
    exSigma (.start 3) + exInst.runtime 3 ≤ (exInst.task 3).deadline := by decide

/-! ### Finding C12-ILPB-1 -/

/-- Task-by-task mode, `enforce_deadlines` on; two graphs P → C whose parents completed; the two
C's (4 µs, 2 of 2 CPUs, deadline 10) are offered at `now = 5`. -/
def unenforcedInst : BInst :=
  { now := 5
    workers := [⟨"W0", "P0", [("CPU", 2)]⟩]
    tasks := [⟨"C@G0", "C", 0, "G0", .released, 4, 10, "B", 0, 0, ⟨0, 0, []⟩⟩,
              ⟨"C@G1", "C", 0, "G1", .released, 4, 10, "B", 0, 0, ⟨0, 0, []⟩⟩]
    nOffered := 2
    nodes := [⟨"P@G0", "P", 0, "G0", .other⟩, ⟨"C@G0", "C", 0, "G0", .released⟩, ⟨"P@G1", "P", 0, "G1", .other⟩, ⟨"C@G1", "C", 0, "G1", .released⟩]
    edges := [("P@G0", "C@G0"), ("P@G1", "C@G1")]
    enforceDeadlines := true, retract := false, releaseTaskgraphs := false, goalSlack := false
    allowed0 := []
    profiles := [⟨"B", [⟨1, 4, [("CPU", 2)]⟩], [0, 1]⟩] }

/-- The solver's answer: C@G0 at 6, C@G1 at 11. -/
def unenforcedSigma : Var → Int
  | .start 0 => 6
  | .x 0 0 0 => 1
  | .start 1 => 11
  | .x 1 0 0 => 1
  | .before 0 1 => 1
  | .after 1 0 => 1
  | .greward 0 => 1
  | .greward 1 => 1
  | .treward 0 => 1
  | .treward 1 => 1
  | _ => 0

/-- A feasible point of the model built with `enforce_deadlines = True`, `release_taskgraphs =
False`, whose decision starts C@G1 at 11 with a 4 µs strategy against the deadline 10. -/
theorem unenforced_counterexample :
    unenforcedInst.wf = true ∧ unenforcedInst.crash = none ∧
    unenforcedInst.enforceDeadlines = true ∧ unenforcedInst.releaseTaskgraphs = false ∧
    sat unenforcedSigma (genB unenforcedInst) ∧
    (⟨1, some (1, 0, 11)⟩ : BDecision) ∈ decodeB unenforcedInst unenforcedSigma ∧
    ¬ ((11 : Int) + unenforcedInst.runtime 1 ≤ (unenforcedInst.task 1).deadline) := by
  decide

end ErdosVerif.C12_IlpBatch
