/-
C16 — simulated time is an exact, totally ordered integer quantity; pending events come
out of the queue in (time, type, task name) order, also after removals and in-place
re-timings.

Models: `Model/Time.lean` (utils.EventTime), `Model/Heap.lean` (CPython heapq, exact),
`Model/Event.lean` (Event.__lt__, EventQueue). Lemmas in `Lemmas/{Time,Heap,Event}.lean`.
`Small a` is the property's bound `|a| < 2^53 µs`; `toUs` is the specification function
"value in integer microseconds". All statements about Python exceptions are outcomes
(`Except String _` carrying the class name).
-/
import ErdosVerif.Lemmas.Time
import ErdosVerif.Lemmas.Heap
import ErdosVerif.Lemmas.Event

namespace ErdosVerif.C16
open ErdosVerif.Model ErdosVerif.Model.Time ErdosVerif.Model.Heap

/-! ## Time (M1) -/

/-- The unit factors of the model are the ones the source declares (generated table). -/
theorem unit_table_matches_source : Time.unitTable = Gen.timeUnitTable := by decide

/-- Below 2^53 the "round to double" of the model is the identity: the float factor in
`to()` cannot lose anything inside the property's bound. -/
theorem rounding_is_identity_below_2_53 (x : Int) (h1 : -B53 < x) (h2 : x < B53) : rnd53 x = x :=
  rnd53_of_small h1 h2

/-- `to` refuses (ValueError) exactly the coarsening conversions — for every magnitude. -/
theorem to_refuses_coarsening (a : EventTime) (u : TUnit) :
    a.to u = .error "ValueError" ↔ a.unit.factor < u.factor :=
  to_valueError_iff a u

/-- A permitted conversion keeps the microseconds. -/
theorem to_preserves_us (a : EventTime) (u : TUnit) (hs : Small a) (hu : u.factor ≤ a.unit.factor) :
    ∃ a', a.to u = .ok a' ∧ a'.unit = u ∧ a'.toUs = a.toUs := by
  obtain ⟨e1, e2⟩ := to_exact a u hs hu
  exact ⟨_, e1, rfl, e2⟩

example : Small ⟨9007199254740, .MS⟩ ∧ TUnit.US.factor ≤ TUnit.MS.factor := by decide

/-- `toUs (a + b) = toUs a + toUs b`, any unit combination. -/
theorem add_us (a b : EventTime) (ha : Small a) (hb : Small b) :
    ∃ c, a.add b = .ok c ∧ c.toUs = a.toUs + b.toUs := by
  obtain ⟨c, h1, h2, -⟩ := add_exact a b ha.wide hb.wide
  exact ⟨c, h1, h2⟩

/-- `toUs (a - b) = toUs a - toUs b`, any unit combination. -/
theorem sub_us (a b : EventTime) (ha : Small a) (hb : Small b) :
    ∃ c, a.sub b = .ok c ∧ c.toUs = a.toUs - b.toUs :=
  sub_exact a b ha.wide hb.wide

example : Small ⟨5, .S⟩ ∧ Small ⟨-1, .US⟩ ∧ (EventTime.add ⟨5, .S⟩ ⟨-1, .US⟩) = .ok ⟨4999999, .US⟩ := by decide

/-- Mixed-unit arithmetic loses nothing over three operands either: both bracketings of
`a + b + c` succeed and carry the exact sum (the intermediate sum may exceed 2^53). -/
theorem add_assoc_us (a b c : EventTime) (ha : Small a) (hb : Small b) (hc : Small c) :
    ∃ l r, (a.add b >>= fun x => x.add c) = .ok l ∧ (b.add c >>= fun x => a.add x) = .ok r ∧
      l.toUs = a.toUs + b.toUs + c.toUs ∧ r.toUs = a.toUs + b.toUs + c.toUs := by
  obtain ⟨ab, h1, h2, -⟩ := add_exact a b ha.wide hb.wide
  obtain ⟨bc, h3, h4, -⟩ := add_exact b c hb.wide hc.wide
  have wab : Wide ab := by
    unfold Small B53 at ha hb; unfold Wide B56; omega
  have wbc : Wide bc := by
    unfold Small B53 at hb hc; unfold Wide B56; omega
  obtain ⟨l, h5, h6, -⟩ := add_exact ab c wab hc.wide
  obtain ⟨r, h7, h8, -⟩ := add_exact a bc ha.wide wbc
  refine ⟨l, r, ?_, ?_, by omega, by omega⟩
  · rw [h1]; exact h5
  · rw [h3]; exact h7

example : Small ⟨9007199254, .S⟩ ∧ Small ⟨-9007199254740, .MS⟩ ∧ Small ⟨9007199254740991, .US⟩ ∧
    (EventTime.add ⟨9007199254, .S⟩ ⟨-9007199254740, .MS⟩ >>= fun x => x.add ⟨9007199254740991, .US⟩)
      = .ok ⟨9007199254000991, .US⟩ := by decide

/-- `a == b ↔ toUs a = toUs b`. -/
theorem eq_iff_us (a b : EventTime) (ha : Small a) (hb : Small b) :
    a.eq b = .ok (decide (a.toUs = b.toUs)) :=
  eq_exact a b ha.wide hb.wide

/-- `a < b ↔ toUs a < toUs b`. -/
theorem lt_iff_us (a b : EventTime) (ha : Small a) (hb : Small b) :
    a.lt b = .ok (decide (a.toUs < b.toUs)) :=
  lt_exact a b ha.wide hb.wide

/-- The operators `functools.total_ordering` derives (`<=`, `>`, `>=`) and `!=` agree with
the microsecond integers as well. -/
theorem derived_order_agrees_with_us (a b : EventTime) (ha : Small a) (hb : Small b) :
    a.le b = .ok (decide (a.toUs ≤ b.toUs)) ∧ a.gt b = .ok (decide (b.toUs < a.toUs)) ∧
      a.ge b = .ok (decide (b.toUs ≤ a.toUs)) ∧ a.ne b = .ok (decide (a.toUs ≠ b.toUs)) :=
  ⟨le_exact a b ha.wide hb.wide, gt_exact a b ha.wide hb.wide, ge_exact a b ha.wide hb.wide,
    ne_exact a b ha.wide hb.wide⟩

/-- `<` is a strict total order up to `==` on values within the bound. -/
theorem lt_strict_total_order (a b c : EventTime) (ha : Small a) (hb : Small b) (hc : Small c) :
    a.lt a = .ok false ∧
      (a.lt b = .ok true → b.lt c = .ok true → a.lt c = .ok true) ∧
      (a.lt b = .ok true ∨ a.eq b = .ok true ∨ b.lt a = .ok true) ∧
      (a.lt b = .ok true → b.lt a = .ok false ∧ a.eq b = .ok false) := by
  rw [lt_iff_us a a ha ha, lt_iff_us a b ha hb, lt_iff_us b c hb hc, lt_iff_us a c ha hc,
    lt_iff_us b a hb ha, eq_iff_us a b ha hb]
  simp only [Except.ok.injEq, decide_eq_true_eq, decide_eq_false_iff_not]
  refine ⟨by omega, by omega, by omega, by omega⟩

example : EventTime.lt ⟨-1, .US⟩ ⟨0, .S⟩ = .ok true ∧ EventTime.lt ⟨999, .US⟩ ⟨1, .MS⟩ = .ok true ∧
    EventTime.gt ⟨1, .S⟩ ⟨999, .MS⟩ = .ok true ∧ EventTime.le ⟨1, .S⟩ ⟨1000, .MS⟩ = .ok true := by decide

/-- `min`/`max` of Python on two time values return the µs minimum / maximum. -/
theorem min_max_us (a b : EventTime) (ha : Small a) (hb : Small b) :
    (∃ c, a.min b = .ok c ∧ c.toUs = min a.toUs b.toUs) ∧
      (∃ c, a.max b = .ok c ∧ c.toUs = max a.toUs b.toUs) :=
  ⟨min_exact a b ha.wide hb.wide, max_exact a b ha.wide hb.wide⟩

/-- `hash(a)` is the microsecond integer … -/
theorem hash_eq_us (a : EventTime) (ha : Small a) : a.hash = .ok a.toUs := hash_exact a ha

/-- … hence equal values hash equally, whatever their units. -/
theorem hash_consistent (a b : EventTime) (ha : Small a) (hb : Small b)
    (h : a.eq b = .ok true) : a.hash = b.hash := by
  rw [eq_iff_us a b ha hb] at h
  simp only [Except.ok.injEq, decide_eq_true_eq] at h
  rw [hash_eq_us a ha, hash_eq_us b hb, h]

example : EventTime.eq ⟨5, .MS⟩ ⟨5000, .US⟩ = .ok true ∧ EventTime.hash ⟨5, .MS⟩ = .ok 5000 := by decide

/-- Multiplication by an `int` scales the microseconds (no bound needed). -/
theorem mul_us (a : EventTime) (k : Int) : (a.mul k).toUs = a.toUs * k := by
  unfold EventTime.mul EventTime.toUs
  rw [Int.mul_assoc, Int.mul_comm k, ← Int.mul_assoc]

/-- `invalid()` is the ordinary value −1 µs and `zero()` is 0 µs. -/
theorem invalid_zero_us : EventTime.invalid.toUs = -1 ∧ EventTime.zero.toUs = 0 ∧
    Small EventTime.invalid ∧ Small EventTime.zero := by decide

/-- The bound is needed: at 2^53 + 1 µs a same-unit `to` (hence `hash`) already rounds … -/
theorem to_beyond_bound_witness :
    EventTime.to ⟨9007199254740993, .US⟩ .US = .ok ⟨9007199254740992, .US⟩ := by decide

/-- … and far above it two spellings of the same instant compare unequal. -/
theorem eq_beyond_bound_witness :
    (EventTime.mk 72057594037929 .MS).toUs = (EventTime.mk 72057594037929000 .US).toUs ∧
      EventTime.eq ⟨72057594037929, .MS⟩ ⟨72057594037929000, .US⟩ = .ok false := by decide

/-! ## Event order (M2) -/

/-- The task-carrying types of the source, as a `ht` for the examples below. -/
def sourceHasTask (v : Nat) : Bool :=
  taskEventTypeNames.any fun n => eventTypeValue? n == some v


/-- `Event.__lt__` is a strict weak order on well-formed events (task present exactly when
the type says so): irreflexive, asymmetric, transitive, and "not less" is transitive. -/
theorem event_lt_strict_weak_order (ht : Nat → Bool) (x y z : Event)
    (hx : Event.WF ht x) (hy : Event.WF ht y) (hz : Event.WF ht z) :
    Event.lt x x = false ∧
      (Event.lt x y = true → Event.lt y x = false) ∧
      (Event.lt x y = true → Event.lt y z = true → Event.lt x z = true) ∧
      (Event.lt x y = false → Event.lt y z = false → Event.lt x z = false) := by
  have swo := Event.lt_swo ht
  refine ⟨swo.irrefl hx, swo.asymm hx hy, ?_, fun h1 h2 => swo.le_trans hz hy hx h2 h1⟩
  intro h1 h2
  cases h : Event.lt x z with
  | true => rfl
  | false =>
    -- z ≤ x and x < y give … contradiction with y < z
    have h3 : Event.lt y z = false := swo.le_trans hz hx hy h (swo.asymm hx hy h1)
    rw [h2] at h3; cases h3

example : Event.WF sourceHasTask ⟨0, 5, 3, some "a@g"⟩ ∧ Event.WF sourceHasTask ⟨1, 5, 3, some "b@g"⟩ ∧
    Event.WF sourceHasTask ⟨2, 5, 11, none⟩ ∧ Event.lt ⟨0, 5, 3, some "a@g"⟩ ⟨1, 5, 3, some "b@g"⟩ = true ∧
    Event.lt ⟨1, 5, 3, some "b@g"⟩ ⟨2, 5, 11, none⟩ = true := by decide

/-- It is the lexicographic order on (time µs, type value, task name). -/
theorem event_lt_is_lexicographic (a b : Event) :
    Event.lt a b = true ↔
      a.time < b.time ∨ (a.time = b.time ∧ (a.etype < b.etype ∨
        (a.etype = b.etype ∧ ∃ x y, a.task = some x ∧ b.task = some y ∧ x < y))) :=
  Event.lt_iff a b

/-- Without well-formedness `__lt__` is not a weak order: a task-less event of the same type
and time is "equal" to two events that are strictly ordered by name. (The simulator never
builds such a mix; `Event.__init__` would allow it for the types that do not require a task.) -/
theorem event_lt_illformed_counterexample :
    let a : Event := ⟨0, 0, 11, some "a"⟩
    let n : Event := ⟨1, 0, 11, none⟩
    let b : Event := ⟨2, 0, 11, some "b"⟩
    Event.lt b n = false ∧ Event.lt n a = false ∧ Event.lt b a = false ∧ Event.lt a b = true ∧
      Event.lt a n = false ∧ Event.lt n b = false := by decide

/-! ## heapq (M2): invariant and multiset, for CPython's exact algorithms -/

section heap
variable {α : Type} {lt : α → α → Bool} {P : α → Prop}

/-- `heappush` keeps the heap property and adds exactly the pushed element. -/
theorem heap_inv_push (swo : SWO lt P) (a : Array α) (x : α) (hP : AllP P a) (hx : P x)
    (h : HeapFrom lt a 0) :
    HeapFrom lt (heappush lt a x) 0 ∧ (heappush lt a x).Perm (a.push x) :=
  ⟨heappush_heap swo a x hP hx h, heappush_perm lt a x⟩

/-- `heappop` keeps the heap property, removes exactly the returned element, and that element
is not greater than anything left. -/
theorem heap_inv_pop (swo : SWO lt P) (a : Array α) (x : α) (a' : Array α) (hP : AllP P a)
    (h : HeapFrom lt a 0) (hpop : heappop lt a = some (x, a')) :
    HeapFrom lt a' 0 ∧ (a'.push x).Perm a ∧ ∀ y ∈ a', lt y x = false :=
  ⟨heappop_heap swo a x a' hP h hpop, heappop_perm lt a x a' hpop, heappop_min swo a x a' hP h hpop⟩

/-- `heapify` establishes the heap property from any array and keeps the multiset. -/
theorem heap_inv_heapify (swo : SWO lt P) (a : Array α) (hP : AllP P a) :
    HeapFrom lt (heapify lt a) 0 ∧ (heapify lt a).Perm a :=
  ⟨heapify_heap swo a hP, heapify_perm lt a⟩

/-- `heappop` fails (IndexError) exactly on the empty list. -/
theorem heappop_none_iff_empty (a : Array α) : heappop lt a = none ↔ a.size = 0 := by
  have := heappop_isSome (lt := lt) a
  cases h : heappop lt a with
  | none =>
    rw [h] at this
    have hz : ¬ 0 < a.size := by intro hz; simp [hz] at this
    exact ⟨fun _ => by omega, fun _ => rfl⟩
  | some r =>
    rw [h] at this
    have hz : 0 < a.size := by
      by_cases hz : 0 < a.size
      · exact hz
      · simp [hz] at this
    exact ⟨fun h' => (by cases h'), fun h' => (by omega)⟩

/-- Popping a heap until it is empty returns all its elements in non-decreasing order. -/
theorem heap_drain_sorted (swo : SWO lt P) (a : Array α) (hP : AllP P a) (h : HeapFrom lt a 0) :
    (drain lt a.size a).Pairwise (fun x y => lt y x = false) ∧ (drain lt a.size a).Perm a.toList :=
  ⟨drain_sorted swo a hP h a.size, drain_perm a a.size (Nat.le_refl _)⟩

end heap

example : heapify (fun (x y : Nat) => decide (x < y)) #[5, 3, 8, 1, 9, 2] = #[1, 3, 2, 5, 9, 8] := by decide +kernel
example : heappop (fun (x y : Nat) => decide (x < y)) #[1, 3, 2, 5, 9, 8] = some (1, #[2, 3, 8, 5, 9]) := by decide +kernel

/-! ## The event queue over whole histories -/

/-- **pop_min.** After every history of add / remove / retime+reheapify / reheapify / pop from
the empty queue (inserted events well-formed), `next()` returns an event that no pending event
is less than, and removes exactly that event. -/
theorem pop_min (ht : Nat → Bool) (ops : List QOp)
    (hops : ∀ e, QOp.add e ∈ ops → Event.WF ht e)
    (x : Event) (q' : EventQueue) (hn : (EventQueue.run ops).next = .ok (x, q')) :
    (∀ y ∈ q', Event.lt y x = false) ∧ (q'.push x).Perm (EventQueue.run ops) := by
  have hg := EventQueue.good_run (ht := ht) ops hops
  exact ⟨EventQueue.next_min hg hn, heappop_perm _ _ _ _ (EventQueue.next_eq hn)⟩

/-- `next()` raises IndexError exactly when nothing is pending. -/
theorem pop_error_iff_empty (q : EventQueue) :
    (∃ c, q.next = .error c) ↔ q.size = 0 := by
  constructor
  · rintro ⟨c, h⟩; exact (EventQueue.next_error h).2
  · intro h
    have := (heappop_none_iff_empty (lt := Event.lt) q).mpr h
    exact ⟨"IndexError", by unfold EventQueue.next; rw [this]⟩

/-- `peek()` after any history is a minimum of the pending events. -/
theorem peek_min (ht : Nat → Bool) (ops : List QOp)
    (hops : ∀ e, QOp.add e ∈ ops → Event.WF ht e) (x : Event)
    (hp : (EventQueue.run ops).peek = some x) :
    ∀ y ∈ EventQueue.run ops, Event.lt y x = false :=
  EventQueue.peek_min (EventQueue.good_run (ht := ht) ops hops) hp

/-- `get_next_event_of_type(t)` after any history returns a pending event of type `t` that no
pending event of type `t` is less than. -/
theorem next_of_type_min (ht : Nat → Bool) (ops : List QOp)
    (hops : ∀ e, QOp.add e ∈ ops → Event.WF ht e) (t : Nat) (x : Event)
    (hx : (EventQueue.run ops).nextOfType t = some x) :
    x ∈ EventQueue.run ops ∧ x.etype = t ∧
      ∀ y ∈ EventQueue.run ops, y.etype = t → Event.lt y x = false :=
  EventQueue.nextOfType_min (EventQueue.good_run (ht := ht) ops hops).1 hx

/-- Draining the queue reached by any history yields all pending events in non-decreasing
order: time never goes backwards, ties are broken by type, then by task name. -/
theorem pops_nondecreasing (ht : Nat → Bool) (ops : List QOp)
    (hops : ∀ e, QOp.add e ∈ ops → Event.WF ht e) :
    let q := EventQueue.run ops
    (drain Event.lt q.size q).Pairwise (fun x y => Event.lt y x = false) ∧
      (drain Event.lt q.size q).Perm q.toList := by
  have hg := EventQueue.good_run (ht := ht) ops hops
  exact heap_drain_sorted (Event.lt_swo ht) _ hg.1 hg.2

/-- What each operation does to the multiset of pending events. -/
theorem history_step_contents (q : EventQueue) :
    (∀ e, (q.addEvent e).Perm (q.push e)) ∧
    (q.reheapify).Perm q ∧
    (∀ eid t, (q.retimeReheapify eid t).Perm (q.retime eid t)) ∧
    (∀ eid q', q.removeEvent eid = .ok q' →
      ∃ (i : Nat) (hi : i < q.size), q[i].eid = eid ∧ (∀ j (hj : j < i), q[j].eid ≠ eid) ∧
        (q'.push q[i]).Perm q) ∧
    (∀ eid c, q.removeEvent eid = .error c → c = "ValueError" ∧ ∀ e ∈ q, e.eid ≠ eid) := by
  refine ⟨fun e => heappush_perm _ _ _, heapify_perm _ _, fun eid t => heapify_perm _ _, ?_, ?_⟩
  · intro eid q' h
    obtain ⟨i, hi, h1, h2, -, h4⟩ := EventQueue.removeEvent_spec h
    exact ⟨i, hi, h1, h2, h4⟩
  · intro eid c h; exact EventQueue.removeEvent_error h

/-- The type priority at equal times, from the *generated* enum table: the source orders
`EventType` by value and TASK_FINISHED < TASK_PLACEMENT < SCHEDULER_START. -/
theorem type_priority_table :
    Gen.eventTypeLtIsValueOrder = true ∧
    (do let f ← eventTypeValue? "TASK_FINISHED"
        let p ← eventTypeValue? "TASK_PLACEMENT"
        let s ← eventTypeValue? "SCHEDULER_START"
        pure (decide (f < p ∧ p < s))) = some true := by decide

/-- Corollary: in any reachable queue, an event popped while another event with the same time
is pending has a type value not above the pending one; so a TASK_PLACEMENT never leaves before
a pending TASK_FINISHED of the same instant, and a SCHEDULER_START leaves after both. -/
theorem equal_time_type_priority (ht : Nat → Bool) (ops : List QOp)
    (hops : ∀ e, QOp.add e ∈ ops → Event.WF ht e)
    (x : Event) (q' : EventQueue) (hn : (EventQueue.run ops).next = .ok (x, q'))
    (y : Event) (hy : y ∈ q') (ht' : y.time = x.time) (f p s : Nat)
    (hf : eventTypeValue? "TASK_FINISHED" = some f) (hp : eventTypeValue? "TASK_PLACEMENT" = some p)
    (hs : eventTypeValue? "SCHEDULER_START" = some s) :
    x.etype ≤ y.etype ∧ (x.etype = p → y.etype ≠ f) ∧ (x.etype = s → y.etype ≠ f ∧ y.etype ≠ p) := by
  have hmin := (pop_min ht ops hops x q' hn).1 y hy
  have hle : x.etype ≤ y.etype := by
    apply Nat.le_of_not_lt
    intro hlt
    have : Event.lt y x = true := (Event.lt_iff y x).mpr (.inr ⟨ht', .inl hlt⟩)
    rw [hmin] at this; cases this
  have htab := type_priority_table.2
  rw [hf, hp, hs] at htab
  simp only [Option.bind_eq_bind, Option.bind_some, Option.pure_def, Option.some.injEq,
    decide_eq_true_eq] at htab
  obtain ⟨h1, h2⟩ := htab
  refine ⟨hle, ?_, ?_⟩
  · intro hx hyf; omega
  · intro hx; constructor <;> intro hyy <;> omega

/-- Non-vacuity: a concrete history (same-instant TASK_FINISHED / TASK_PLACEMENT /
SCHEDULER_START inserted in the wrong order, a removal, a re-timing) meets the hypotheses,
and the model pops FINISHED, PLACEMENT, SCHEDULER_START. -/
example :
    let fin : Event := ⟨0, 5, 3, some "t@g"⟩
    let plc : Event := ⟨1, 9, 10, some "t@g"⟩
    let sch : Event := ⟨2, 5, 11, none⟩
    let oth : Event := ⟨3, 1, 11, none⟩
    let ops := [QOp.add sch, .add plc, .add oth, .add fin, .remove 3, .retime 1 5]
    (∀ e, QOp.add e ∈ ops → Event.WF sourceHasTask e) ∧
      (drain Event.lt 3 (EventQueue.run ops)).map (·.eid) = [0, 1, 2] := by
  refine ⟨?_, by decide +kernel⟩
  intro e he
  simp only [List.mem_cons, QOp.add.injEq, List.not_mem_nil, or_false, reduceCtorEq] at he
  rcases he with rfl | rfl | rfl | rfl <;> decide

end ErdosVerif.C16
