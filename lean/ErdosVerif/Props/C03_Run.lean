import ErdosVerif.Props.C01_Run
/-!
# C03 over a whole run — a task is reported complete at exactly start + runtime

Invariants of every run of the simulator model `Model/Sim.lean` (any decision tape, any
draw tape, any fuel), proved with Hoare triples in `Lemmas/SimResident*.lean`:

* `__step` steps every RUNNING task exactly as far as the clock moves (a RUNNING task is
  resident on exactly one worker — `C01_Run` — and the step never overshoots a placed task),
  so for every RUNNING task `start + remaining-at-start = now + remaining`, the remaining time
  at the start being the (fuzzed) value recorded in the task's `.start` log entry;
* a TASK_FINISHED event is queued exactly when the remaining time reaches 0 (at once for a
  task that starts with no work left), is never re-timed, and is due at that instant;
* hence **every `.finish t τ` entry of the history log is preceded by a `.start t σ r _` entry
  with `τ = σ + r`** — in every state a run can be in, also where a handler raised.
-/
namespace ErdosVerif.C03
open ErdosVerif.Model ErdosVerif.Model.Sim

/-- **Exact runtime over every run.** In the history log of the state a simulation is in after
the constructor and any number of loop iterations (ended normally, out of fuel, or aborted),
every completion `.finish t τ` is preceded by a start `.start t σ r pool` of the same task with
`τ = σ + r`: the task is reported complete exactly `r` after it started, where `r` is the
remaining time `Task.start` fixed (the fuzzed runtime of the chosen strategy; `r = 0` included). -/
theorem finish_at_start_plus_runtime (s0 : SimS) (fuel : Nat) (h : wf0 s0 = true) (i : Nat) (t : TaskId) (τ : Int)
    (hf : (simulate s0 fuel).2.log.toList[i]? = some (LogE.finish t τ)) :
    ∃ j : Nat, j < i ∧ ∃ σ r pool, (simulate s0 fuel).2.log.toList[j]? = some (LogE.start t σ r pool) ∧ τ = σ + r :=
  (simulate_weak s0 fuel (ap_initial s0 h)).log i t τ hf

/-- **Every RUNNING task has been stepped exactly as far as the clock moved**, when the run
ended normally: its last step is the current clock value, and
`start + remaining-at-start = now + remaining` with the remaining time at the start taken from
the task's `.start` log entry. -/
theorem running_task_exact_at_end (s0 : SimS) (fuel : Nat) (h : wf0 s0 = true) (hok : (simulate s0 fuel).1 = none)
    (t : TaskId) (x : TaskS) (ht : taskAt (simulate s0 fuel).2.graphs t = some x) (hs : x.state = .running) :
    ∃ r, x.remaining = some r ∧ 0 ≤ r ∧ x.lastStep = (simulate s0 fuel).2.now ∧ x.start ≤ (simulate s0 fuel).2.now ∧
      ∃ r0 pool, LogE.start t x.start r0 pool ∈ (simulate s0 fuel).2.log.toList ∧
        x.start + r0 = (simulate s0 fuel).2.now + r :=
  (simulate_strong s0 fuel (ap_initial s0 h) hok).core.run t x ht hs

/-- The same at the head of the `simulate()` loop after any number `k` of completed iterations
(`runK`: the loop of `simulate()` cut after `k` iterations); if one of them raised, the weak
invariant — which contains the log property — holds at the raise point. -/
theorem running_task_exact_at_loop_head (s0 : SimS) (k : Nat) (h : wf0 s0 = true) :
    HoldsAfter
      (fun _ s => ∀ t x, taskAt s.graphs t = some x → x.state = .running →
        ∃ r, x.remaining = some r ∧ 0 ≤ r ∧ x.lastStep = s.now ∧ x.start ≤ s.now ∧
          ∃ r0 pool, LogE.start t x.start r0 pool ∈ s.log.toList ∧ x.start + r0 = s.now + r)
      WInv ((ExceptT.run (do init; runK k : SimM Bool)).run s0) := by
  have := loop_head_strong s0 k (ap_initial s0 h)
  revert this
  cases (StateT.run (ExceptT.run (do init; runK k : SimM Bool)) s0) with
  | mk r s =>
    cases r with
    | ok a => intro hA t x ht hs; exact hA.core.run t x ht hs
    | error e => intro hW; exact hW

/-- **A queued TASK_FINISHED event is due exactly when its task runs out of work**: at the head
of the loop, for every queued TASK_FINISHED event of a RUNNING task with remaining time `r`,
the event time is `now + r`. -/
theorem finish_event_due (s0 : SimS) (fuel : Nat) (h : wf0 s0 = true) (hok : (simulate s0 fuel).1 = none)
    (e : SEvent) (he : e ∈ (simulate s0 fuel).2.queue.toList) (hty : e.ev.etype = ET.taskFinished)
    (t : TaskId) (htid : e.tid = some t) :
    ∃ x, taskAt (simulate s0 fuel).2.graphs t = some x ∧ (x.state = .running ∨ x.isComplete = true) ∧
      (x.state = .running → ∀ r, x.remaining = some r → e.ev.time = (simulate s0 fuel).2.now + r) := by
  have hA := simulate_strong s0 fuel (ap_initial s0 h) hok
  obtain ⟨x, hx, h1, h2⟩ := hA.core.fin e (List.mem_append_left _ he) hty t htid
  refine ⟨x, hx, h1, fun hs r hr => ?_⟩
  obtain ⟨r', hr', _, hls, _⟩ := hA.core.run t x hx hs
  rw [h2 hs r hr, hls]

/-- Non-vacuity: the theorems apply to the world `C01.exWorld` (two workers, a two-task chain, a
closed-loop job), whatever the fuel. -/
example : ∀ fuel i t τ, (simulate C01.exWorld fuel).2.log.toList[i]? = some (LogE.finish t τ) →
    ∃ j : Nat, j < i ∧ ∃ σ r pool, (simulate C01.exWorld fuel).2.log.toList[j]? = some (LogE.start t σ r pool) ∧ τ = σ + r :=
  fun fuel => finish_at_start_plus_runtime C01.exWorld fuel C01.exWorld_wf

/-- The log property is not vacuous: a log with a start at 2 with remaining time 5 and the
completion at 7 satisfies it, one with the completion at 8 does not. -/
example : LogOK [.start ⟨0, 0⟩ 2 5 0, .clock 7, .finish ⟨0, 0⟩ 7] ∧ ¬ LogOK [.start ⟨0, 0⟩ 2 5 0, .clock 8, .finish ⟨0, 0⟩ 8] := by
  constructor
  · intro i t τ hi
    match i with
    | 0 => simp at hi
    | 1 => simp at hi
    | 2 =>
      simp only [List.getElem?_cons_succ, List.getElem?_cons_zero, Option.some.injEq, LogE.finish.injEq] at hi
      obtain ⟨rfl, rfl⟩ := hi
      exact ⟨0, by omega, 2, 5, 0, rfl, rfl⟩
    | k + 3 => simp at hi
  · intro h
    obtain ⟨j, hj, σ, r, p, h1, h2⟩ := h 2 ⟨0, 0⟩ 8 rfl
    match j with
    | 0 => simp at h1; omega
    | 1 => simp at h1

end ErdosVerif.C03
