import ErdosVerif.Lemmas.LedgerPool
import ErdosVerif.Lemmas.LedgerCopy
/-!
# C04 — resource ledger conservation: nothing leaks, nothing is double-counted

Model: `ErdosVerif.Model.Ledger` (`Resources`, `Worker`, `Pool`, `Op`, `Pool.run`).
A history is *any* list of operations (raw `Resources` calls, worker and pool
API calls, in any order, including calls that raise); exceptions do not stop the
caller, the state at the raise point is kept.

Everything here is proved for every pool, every history and every request; the
only hypothesis is that the worker's resource vector has no duplicate key,
which is what a Python `dict` guarantees (`initial_inv`).
-/
namespace ErdosVerif.C04
open ErdosVerif.Model

/-- What `WorkerLoader` builds satisfies the invariant: a dict has no duplicate keys. -/
theorem initial_inv (vs : List Vec) (h : ∀ v ∈ vs, (AList.keys v).Nodup) :
    (⟨vs.map Worker.ofVec, []⟩ : Pool).Inv := by
  intro w hw
  simp only [List.mem_map] at hw
  obtain ⟨v, hv, rfl⟩ := hw
  exact Resources.inv_ofVec v (h v hv)

/-- **Conservation** — for any sequence of operations on a pool, for every worker
and every exact resource key: available + allocated (over all tasks, batches and
profiles) = configured total. -/
theorem conservation (p : Pool) (ops : List Op) (h : p.Inv) :
    ∀ w ∈ (p.run ops).workers, ∀ k : Res,
      getQ w.res.avail k + allocAt w.res.allocs k = getQ w.res.total k :=
  fun w hw k => (Pool.inv_run p ops h w hw).conserve k

/-- Conservation per resource *type* (all instances of a name together). -/
theorem conservation_by_type (p : Pool) (ops : List Op) (h : p.Inv) :
    ∀ w ∈ (p.run ops).workers, ∀ n : String,
      byName w.res.avail n + allocByName w.res.allocs n = byName w.res.total n :=
  fun w hw n => Resources.conserve_byName w.res (Pool.inv_run p ops h w hw) n

/-- Nothing is double-counted: what is held never exceeds the configured capacity. -/
theorem never_overallocated (p : Pool) (ops : List Op) (h : p.Inv) :
    ∀ w ∈ (p.run ops).workers, ∀ n : String, allocByName w.res.allocs n ≤ byName w.res.total n := by
  intro w hw n
  have := conservation_by_type p ops h w hw n
  omega

/-- The totals never change under worker / pool API calls or (de)allocations
(only `add_resource` extends them): stated for the key list. -/
theorem keys_stable (p : Pool) (ops : List Op) (h : p.Inv) :
    ∀ w ∈ (p.run ops).workers, AList.keys w.res.avail = AList.keys w.res.total :=
  fun w hw => (Pool.inv_run p ops h w hw).keys_eq

/-- **Removing everything restores full capacity**: a ledger with no entry means
the availability vector *is* the total vector. -/
theorem empty_full (p : Pool) (ops : List Op) (h : p.Inv) :
    ∀ w ∈ (p.run ops).workers, w.res.allocs = [] → w.res.avail = w.res.total :=
  fun w hw he => Resources.empty_full w.res (Pool.inv_run p ops h w hw) he

/-! ### a refused request changes nothing (exact state equality) -/

theorem refusal_noop_allocate (r : Resources) (k : Res) (c : Comp) (q : Nat)
    (hr : (r.allocate k c q).2 ≠ .ok) : (r.allocate k c q).1 = r :=
  Resources.allocate_refused r k c q hr

theorem refusal_noop_allocate_multiple (r : Resources) (req : Vec) (c : Comp) (h : r.Inv)
    (hr : (r.allocateMultiple req c).2 ≠ .ok) : (r.allocateMultiple req c).1 = r :=
  Resources.allocateMultiple_refused r req c h hr

theorem refusal_noop_deallocate (r : Resources) (c : Comp)
    (hr : (r.deallocate c).2 ≠ .ok) : (r.deallocate c).1 = r :=
  Resources.deallocate_refused r c hr

theorem refusal_noop_place (w : Worker) (t : Nat) (s : Strategy) (h : w.res.Inv)
    (hr : (w.placeTask t s).2 ≠ .ok) : (w.placeTask t s).1 = w :=
  Worker.placeTask_refused w t s h hr

theorem refusal_noop_load (w : Worker) (p : Nat) (s : Strategy) (h : w.res.Inv)
    (hr : (w.loadProfile p s).2 ≠ .ok) : (w.loadProfile p s).1 = w :=
  Worker.loadProfile_refused w p s h hr

theorem refusal_noop_evict (w : Worker) (p : Nat)
    (hr : (w.evictProfile p).2 ≠ .ok) : (w.evictProfile p).1 = w :=
  Worker.evictProfile_refused w p hr

/-- PARTIAL: removal of a task placed with a plain (non-batch) strategy.
Full statement (not proved): the same for batch members; it needs the
bookkeeping invariant "every placed batch has its placeholder in the ledger",
which the correspondence suite and the oracle check on the implementation. -/
theorem refusal_noop_remove_partial (w : Worker) (t : Nat)
    (hs : ∀ s, AList.get? w.placed t = some s → s.isBatch = false)
    (hr : (w.removeTask t).2 ≠ .ok) : (w.removeTask t).1 = w :=
  Worker.removeTask_refused w t hs hr

/-! ### deallocation is exact -/

/-- `deallocate` gives back exactly the quantities recorded for the computation. -/
theorem dealloc_returns_recorded (r : Resources) (c : Comp) (l : List (Res × Nat))
    (hg : AList.get? r.allocs c = some l) (x : Res) :
    getQ (r.deallocate c).1.avail x = getQ r.avail x + pairsAt l x :=
  Resources.deallocate_getQ r c l hg x

/-- Allocate-then-deallocate restores the exact pre-allocation state. -/
theorem dealloc_exact (r : Resources) (req : Vec) (c : Comp) (h : r.Inv)
    (hc : c ∉ AList.keys r.allocs) (hok : (r.allocateMultiple req c).2 = .ok) :
    (r.allocateMultiple req c).1.deallocate c = (r, .ok) :=
  Resources.deallocate_allocateMultiple r req c h hc hok

/-- A successful allocation of `q` units of key `k` charges exactly `q` units of
type `k.name` (and nothing of any other type) to the ledger. -/
theorem allocate_amount (r : Resources) (k : Res) (c : Comp) (q : Nat) (n : String)
    (hok : (r.allocate k c q).2 = .ok) :
    allocByName (r.allocate k c q).1.allocs n = allocByName r.allocs n + (if k.name = n then q else 0) :=
  Resources.allocate_allocByName r k c q n hok

/-! ### copies -/

/-- A deep copy is an independent *empty* cluster with the same totals. -/
theorem deepcopy_empty (w : Worker) :
    w.deepcopy.res.avail = w.res.total ∧ w.deepcopy.res.total = w.res.total ∧
    w.deepcopy.res.allocs = [] ∧ w.deepcopy.placed = [] ∧ w.deepcopy.batches = [] ∧
    w.deepcopy.availProf = [] ∧ w.deepcopy.pendProf = [] :=
  Worker.deepcopy_empty w

/-- A shallow copy keeps the placed tasks, batches and profiles … -/
theorem copy_residents (w : Worker) :
    w.copy.1.placed = w.placed ∧ w.copy.1.batches = w.batches ∧ w.copy.1.batchTask = w.batchTask ∧
    w.copy.1.availProf = w.availProf ∧ w.copy.1.pendProf = w.pendProf :=
  Worker.copy_residents w

/-- … has the same totals and the same availability per resource type … -/
theorem copy_same_occupancy (r r' : Resources) (h : r.Inv) (hc : r.copy = (r', .ok)) (n : String) :
    r'.total = r.total ∧ byName r'.avail n = byName r.avail n :=
  Resources.copy_same_occupancy r r' h hc n

/-- … and is itself a consistent ledger, so every theorem above applies to any
history run on the copy (independence of copy and original is structural in
the model: values are immutable; the correspondence suite applies divergent
histories to both and compares each with its own model object). -/
theorem copy_inv (p : Pool) (h : p.Inv) : p.copy.1.Inv ∧ p.deepcopy.Inv :=
  ⟨Pool.inv_copy p h, Pool.inv_deepcopy p h⟩

/-! ### non-vacuity -/

/-- A worker with two instances of one type and an `any` entry satisfies the hypothesis. -/
example : (⟨[[(⟨"GPU", some 1⟩, 1), (⟨"GPU", some 2⟩, 1), (⟨"CPU", none⟩, 4)]].map Worker.ofVec, []⟩ : Pool).Inv :=
  initial_inv _ (by decide)

/-- A refused `allocate_multiple` exists (so the refusal theorems are not vacuous):
`GPU:any` + `GPU:1` on a worker with a single GPU passes the per-key check and
fails in the second phase; the state is exactly restored. -/
example :
    let r := Resources.ofVec [(⟨"GPU", some 1⟩, 1)]
    r.allocateMultiple [(⟨"GPU", none⟩, 1), (⟨"GPU", some 1⟩, 1)] (.task 7) = (r, .raised .valueError) := by
  decide

/-- A successful place / remove round trip on a concrete worker. -/
example :
    let w := Worker.ofVec [(⟨"GPU", some 1⟩, 1), (⟨"GPU", some 2⟩, 1)]
    let s : Strategy := ⟨0, false, 1, 5, [(⟨"GPU", none⟩, 2)]⟩
    (w.placeTask 3 s).2 = .ok ∧ (w.placeTask 3 s).1.res.avail = [(⟨"GPU", some 1⟩, 0), (⟨"GPU", some 2⟩, 0)]
      ∧ ((w.placeTask 3 s).1.removeTask 3).1.res.avail = w.res.total := by
  decide

end ErdosVerif.C04
