import ErdosVerif.Model.Ledger
/-! C04 — resource ledger conservation (theorems added incrementally). -/
namespace ErdosVerif.C04
open ErdosVerif.Model

theorem placeholder : (Resources.ofVec []).avail = [] := rfl

end ErdosVerif.C04
