import ErdosVerif.Lemmas.SimCancelRun5
import ErdosVerif.Props.C08_States
/-!
# C08 (run level) — the cancelled-task counter against the `.cancel` history entries

`cancelledTasks` is incremented by the handler of a TASK_CANCEL event. `.cancel` history
entries are written where tasks are cancelled (`__create_events_from_task_placement_skip` for
a CANCEL_TASK decision or a dropped placement, `__handle_task_finished` →
`notify_task_completion`, `__handle_task_placement` of a task whose graph was cancelled), each
immediately followed by the creation of exactly one TASK_CANCEL event, which is queued at
once or collected in a local list and queued at the end of `__handle_scheduler_finish`.

For whole runs of the simulator model (every world, decision tape, draw tape, number of
iterations; normal end, out of fuel, or aborted by an exception), from Hoare triples over
every primitive and handler (`Lemmas/SimCancel*.lean`, invariant `CC.Inv`):

* `cancelled_counter_le_cancel_entries` — always `cancelledTasks ≤ #.cancel entries`;
* `cancel_entries_account` — at a normal return `#.cancel entries = cancelledTasks +
  #TASK_CANCEL events still queued`: every `.cancel` entry has exactly one TASK_CANCEL event,
  pending or handled (and no TASK_CANCEL event is ever lost: `remove_event` is only called
  with cached ids of placement events, which are never ids of TASK_CANCEL events);
* `cancelled_counter_eq_cancel_entries_at_end` — hence equality when no TASK_CANCEL event is
  queued at the end (e.g. the queue is empty);
* `cancelled_counter_eq_cancelled_tasks_at_end` — and then `cancelledTasks` = number of
  CANCELLED tasks of the workload (with `C08.cancel_entries_are_cancelled_tasks`).

Not proved here: that no TASK_CANCEL event can still be queued when SIMULATOR_END is popped.
-/
namespace ErdosVerif.C08
open ErdosVerif.Model ErdosVerif.Model.Sim

/-- The initial states the theorems are about: no `.cancel` entry in the history, counter 0,
no TASK_CANCEL event queued, every cached placement-event id below the id counter. -/
structure CancelInit (s0 : SimS) : Prop where
  log : s0.log.toList.countP isCancelLog = 0
  counter : s0.cancelledTasks = 0
  queue : ∀ e ∈ s0.queue.toList, (e.ev.etype == ET.taskCancel) = false
  future : ∀ p ∈ s0.future, p.2 < s0.nextEid

theorem CancelInit.inv {s0 : SimS} (h : CancelInit s0) : CC.Inv [] s0 :=
  CC.inv_initial s0 h.log h.counter h.queue h.future

/-- What the constructor starts from: empty queue, empty history, zero counter, no cached id. -/
theorem cancelInit_of_empty (s0 : SimS) (hq : s0.queue = #[]) (hl : s0.log = #[]) (hc : s0.cancelledTasks = 0)
    (hf : s0.future = []) : CancelInit s0 := by
  refine ⟨by rw [hl]; rfl, hc, ?_, ?_⟩
  · intro e he; rw [hq] at he; cases he
  · intro p hp; rw [hf] at hp; cases hp

/-- Number of TASK_CANCEL events in the queue. -/
def queuedCancels (s : SimS) : Nat := s.queue.toList.countP (fun e => e.ev.etype == ET.taskCancel)

/-- **(a) `cancelledTasks ≤ #.cancel entries`, in the final state of every run** (normal end,
out of fuel, or aborted by an exception). -/
theorem cancelled_counter_le_cancel_entries (s0 : SimS) (fuel : Nat) (h0 : CancelInit s0) :
    (simulate s0 fuel).2.cancelledTasks ≤ (simulate s0 fuel).2.log.toList.countP isCancelLog :=
  (CC.simulate_cc s0 fuel h0.inv).1

/-- **(b) Every `.cancel` entry has exactly one TASK_CANCEL event.** At a normal return the
number of `.cancel` entries is `cancelledTasks` (the handled TASK_CANCEL events) plus the
number of TASK_CANCEL events still queued. -/
theorem cancel_entries_account (s0 : SimS) (fuel : Nat) (h0 : CancelInit s0)
    (hend : (simulate s0 fuel).1 = none) :
    (simulate s0 fuel).2.log.toList.countP isCancelLog =
      (simulate s0 fuel).2.cancelledTasks + queuedCancels (simulate s0 fuel).2 := by
  have := ((CC.simulate_cc s0 fuel h0.inv).2 hend).acct
  rw [List.append_nil] at this
  exact this

/-- Equality at a normal end with no TASK_CANCEL event left in the queue. -/
theorem cancelled_counter_eq_cancel_entries_at_end (s0 : SimS) (fuel : Nat) (h0 : CancelInit s0)
    (hend : (simulate s0 fuel).1 = none) (hq : queuedCancels (simulate s0 fuel).2 = 0) :
    (simulate s0 fuel).2.cancelledTasks = (simulate s0 fuel).2.log.toList.countP isCancelLog := by
  have := cancel_entries_account s0 fuel h0 hend
  omega

/-- … in particular when the queue is empty. -/
theorem cancelled_counter_eq_cancel_entries_empty_queue (s0 : SimS) (fuel : Nat) (h0 : CancelInit s0)
    (hend : (simulate s0 fuel).1 = none) (hq : (simulate s0 fuel).2.queue = #[]) :
    (simulate s0 fuel).2.cancelledTasks = (simulate s0 fuel).2.log.toList.countP isCancelLog :=
  cancelled_counter_eq_cancel_entries_at_end s0 fuel h0 hend (by unfold queuedCancels; rw [hq]; rfl)

/-- **`cancelledTasks` = number of CANCELLED tasks** at a normal end with no TASK_CANCEL event
left in the queue (with `cancel_entries_are_cancelled_tasks`). -/
theorem cancelled_counter_eq_cancelled_tasks_at_end (s0 : SimS) (fuel : Nat) (h0 : CancelInit s0) (ht : Tally s0)
    (hend : (simulate s0 fuel).1 = none) (hq : queuedCancels (simulate s0 fuel).2 = 0) :
    (simulate s0 fuel).2.cancelledTasks = tasksWhere (fun t => t.state == .cancelled) (simulate s0 fuel).2 := by
  rw [cancelled_counter_eq_cancel_entries_at_end s0 fuel h0 hend hq]
  exact cancel_entries_are_cancelled_tasks s0 fuel ht hend

/-- In every final state (also aborted) the counter is at most the number of CANCELLED tasks. -/
theorem cancelled_counter_le_cancelled_tasks (s0 : SimS) (fuel : Nat) (h0 : CancelInit s0) (ht : Tally s0) :
    (simulate s0 fuel).2.cancelledTasks ≤ tasksWhere (fun t => t.state == .cancelled) (simulate s0 fuel).2 :=
  Nat.le_trans (cancelled_counter_le_cancel_entries s0 fuel h0) (cancel_entries_le_cancelled_tasks s0 fuel ht)

/-- Non-vacuity: an initial state as the constructor finds it (one pristine loader graph). -/
example : CancelInit { flags := { loopTimeout := 100 }, jobs := #[], allGraphs := #[freshGraph],
                       allMeta := #[], pools := #[], poolNames := #[], tape := [], decisions := [] } :=
  cancelInit_of_empty _ rfl rfl rfl rfl

/-- … and a state in which a CANCEL_TASK decision will really cancel a task (`lagState` of
`Props/C08_States.lean`: one RELEASED task, `--drop_skipped_tasks`; there
`cancelled_counter_lags_counterexample` shows one `.cancel` entry, one TASK_CANCEL event owed to
the queue and the counter still 0 after the decision is applied). -/
example : CancelInit lagState := cancelInit_of_empty _ rfl rfl rfl rfl

/-- The invariant on a non-trivial state: one `.cancel` entry whose TASK_CANCEL event (id 3) is
queued and not yet counted, one cached placement-event id (2), id counter 4. -/
example : CC.Inv []
    { flags := { loopTimeout := 100 }, jobs := #[], allGraphs := #[], allMeta := #[], pools := #[], poolNames := #[],
      tape := [], decisions := [], nextEid := 4, future := [(⟨0, 1⟩, 2)],
      queue := #[{ ev := ⟨3, 5, ET.taskCancel, some "a@g"⟩, tid := some ⟨0, 0⟩ }],
      log := #[.cancel ⟨0, 0⟩ 5] } := by
  refine ⟨by decide, ?_, ?_, ?_⟩
  · intro p hp
    have : p = (⟨0, 1⟩, 2) := by simpa using hp
    subst this; decide
  · intro e he _
    have : e = { ev := ⟨3, 5, ET.taskCancel, some "a@g"⟩, tid := some ⟨0, 0⟩ } := by simpa using he
    subst this; decide
  · intro e he _ p hp
    have h1 : e = { ev := ⟨3, 5, ET.taskCancel, some "a@g"⟩, tid := some ⟨0, 0⟩ } := by simpa using he
    have h2 : p = (⟨0, 1⟩, 2) := by simpa using hp
    subst h1 h2; decide

end ErdosVerif.C08
