/-
C14 (TetriSched clause, both formulations): the returned plan is *maximal* — no further
offered task can be added at any allowed start slot, worker and strategy without breaking
capacity, release, precedence or deadline limits.

The limits are stated once, independently of the optimisation model, as `ValidPlan I plan`
(`Model/TetriSpec.lean`, the planner's own time model: grid slots, half-open occupancy
`[slot, slot + runtime)`, RUNNING tasks booked for the full runtime of their strategy, a child
`≥ parent slot + slowest runtime + 1`).

* `tetri_sound` — every feasible point of `gen I` decodes to a valid plan;
* `tetri_complete` — every valid plan is the decoded plan of a feasible point (all helper
  variables can be chosen consistently; Gurobi: when the dependencies among the tasks of the
  call are acyclic, `wfAcyclic`, evaluated by the driver on every instance);
* `objective_eq_reward`, `tetri_exact` — the objective values attained by feasible points are
  exactly the rewards of valid plans: the model is exact for the specification;
* `cell_reward_ge_one` — every cell earns at least one unit of reward (`den` in the scaled model);
* **`tetri_maximal`** — if `σ` is feasible, `OPT` bounds the objective of every feasible point,
  `obj σ ≥ 0.9·OPT` and `OPT < 10` units, then no cell of a *rewarded* unplaced task can be added
  to the decoded plan; `tetri_maximal_gap` is the same in terms of the solver's own stopping rule
  (`bound − obj ≤ 0.1·obj`), `tetri_maximal_addable` in terms of the driver's `addable` list
  (`validB_iff`, `mem_addable`: the executable check decides `ValidPlan`);
* `objective_le_bound` — the cheap bound the check uses to establish `OPT < 10` per instance.

Every task is rewarded in the CPLEX formulation and in the Gurobi formulation without
`release_taskgraphs`.  With `release_taskgraphs` the Gurobi objective only rewards sink tasks:
`unrewarded_counterexample` shows that the hypothesis `rewarded t` cannot be dropped (finding
C14-TETRI-1).  `running_booking_counterexample` shows the gap between the planner's limits and
the real ones: a RUNNING task is booked for its full runtime (finding C14-TETRI-2);
`shifted_grid_counterexample` exhibits an infeasible model caused by a previously SCHEDULED task
that must be re-placed on the grid of the current call (finding C14-TETRI-3);
`parent_count_counterexample` shows that the precedence limit as coded (parents with variables =
all graph parents) keeps a join with a COMPLETED parent unplaced (finding C14-TETRI-4).
-/
import ErdosVerif.Lemmas.TetriCheck
namespace ErdosVerif.C14_Tetri
open ErdosVerif.Mip ErdosVerif.Tetri ErdosVerif.TetriSpec

variable {I : Inst} {σ : Var → Int}

/-- **Soundness**: the decoded plan of a feasible point respects every limit. -/
theorem tetri_sound (h : sat σ (gen I)) (hwf : I.wf = true) (hm : I.noModel = false) :
    ValidPlan I (planOf I σ) := Tetri.tetri_sound h hwf hm

/-- **Completeness**: every plan within the limits is realised by a feasible point. -/
theorem tetri_complete {plan : Plan} (hv : ValidPlan I plan) (hwf : I.wf = true) (hm : I.noModel = false)
    (hac : I.cplex = false → wfAcyclic I = true) :
    ∃ σ, sat σ (gen I) ∧ planOf I σ = plan ∧ objective σ (gen I) = planReward I plan :=
  Tetri.tetri_complete hv hwf hm hac

/-- The objective of a feasible point is the reward of its decoded plan. -/
theorem objective_eq_reward (h : sat σ (gen I)) (hwf : I.wf = true) (hm : I.noModel = false) :
    objective σ (gen I) = planReward I (planOf I σ) := objective_eq_planReward h hwf hm

/-- **Exactness**: the objective values of feasible points are exactly the rewards of valid plans. -/
theorem tetri_exact (hwf : I.wf = true) (hm : I.noModel = false)
    (hac : I.cplex = false → wfAcyclic I = true) (v : Int) :
    (∃ σ, sat σ (gen I) ∧ objective σ (gen I) = v) ↔ (∃ plan, ValidPlan I plan ∧ planReward I plan = v) := by
  constructor
  · rintro ⟨σ, hs, rfl⟩
    exact ⟨planOf I σ, Tetri.tetri_sound hs hwf hm, (objective_eq_planReward hs hwf hm).symm⟩
  · rintro ⟨plan, hv, rfl⟩
    obtain ⟨σ, hs, _, ho⟩ := Tetri.tetri_complete hv hwf hm hac
    exact ⟨σ, hs, ho⟩

/-- Every cell earns at least one unit of reward (`den` in the scaled model): `np.interp` maps
the slots onto `[2, 1]`. -/
theorem cell_reward_ge_one (I : Inst) {k : Nat} (hk : k < I.nSlots) : (I.den : Int) ≤ I.rew k :=
  den_le_rew I hk

/-- **Maximality.**  Let `σ` be feasible with `obj σ ≥ 0.9·OPT`, where `OPT < 10` (units of
reward) bounds the objective of every feasible point.  Then no rewarded task that `σ` leaves
unplaced can be added to the decoded plan at any cell: the extended plan breaks a capacity,
release, deadline or precedence limit. -/
theorem tetri_maximal (h : sat σ (gen I)) (hwf : I.wf = true) (hm : I.noModel = false)
    (hac : I.cplex = false → wfAcyclic I = true) {OPT : Int}
    (hopt : ∀ τ, sat τ (gen I) → objective τ (gen I) ≤ OPT)
    (hgap : 9 * OPT ≤ 10 * objective σ (gen I)) (hsmall : OPT < 10 * (I.den : Int))
    {t : Nat} (ht : t ∈ I.nonRunning) (hrew : I.rewarded t = true)
    (hun : (planOf I σ).get t = none) (q : Cell) :
    ¬ ValidPlan I ((planOf I σ).set t (some q)) := by
  intro hv'
  obtain ⟨σ', hs', _, ho'⟩ := Tetri.tetri_complete hv' hwf hm hac
  have hset := planReward_set (planOf_length I σ) ht hrew hun q
  have hq : q.2.1 < I.nSlots := by
    have hg : Plan.get ((planOf I σ).set t (some q)) t = some q := by
      rw [plan_get_set (by rw [planOf_length]; exact (mem_nonRunning.mp ht).1)]; simp
    exact (hv'.wf t q (mem_nonRunning.mp ht).1 (mem_nonRunning.mp ht).2.2 hg).2.1
  have h1 := den_le_rew I hq
  have h2 := objective_eq_planReward h hwf hm
  exact gap_lemma (hopt σ' hs') hgap hsmall (by omega)

/-- Naming convention of the framework: `tetri_maximal` is the *partial* form of the property's
clause "no further offered task can be added" — the full-strength statement (without
`rewarded t`) is refuted by `unrewarded_counterexample` below. -/
theorem tetri_maximal_partial (h : sat σ (gen I)) (hwf : I.wf = true) (hm : I.noModel = false)
    (hac : I.cplex = false → wfAcyclic I = true) {OPT : Int}
    (hopt : ∀ τ, sat τ (gen I) → objective τ (gen I) ≤ OPT)
    (hgap : 9 * OPT ≤ 10 * objective σ (gen I)) (hsmall : OPT < 10 * (I.den : Int))
    {t : Nat} (ht : t ∈ I.nonRunning) (hrew : I.rewarded t = true)
    (hun : (planOf I σ).get t = none) (q : Cell) :
    ¬ ValidPlan I ((planOf I σ).set t (some q)) :=
  tetri_maximal h hwf hm hac hopt hgap hsmall ht hrew hun q

/-- The same in terms of the solvers' stopping rule: `B` is the solver's bound
(`obj τ ≤ B` for all feasible `τ`), the search stops when `B − obj ≤ 0.1·obj`, and the returned
objective is below ten units. -/
theorem tetri_maximal_gap (h : sat σ (gen I)) (hwf : I.wf = true) (hm : I.noModel = false)
    (hac : I.cplex = false → wfAcyclic I = true) {B : Int}
    (hB : ∀ τ, sat τ (gen I) → objective τ (gen I) ≤ B)
    (hgap : 10 * (B - objective σ (gen I)) ≤ objective σ (gen I))
    (hsmall : objective σ (gen I) < 10 * (I.den : Int))
    {t : Nat} (ht : t ∈ I.nonRunning) (hrew : I.rewarded t = true)
    (hun : (planOf I σ).get t = none) (q : Cell) :
    ¬ ValidPlan I ((planOf I σ).set t (some q)) := by
  intro hv'
  obtain ⟨σ', hs', _, ho'⟩ := Tetri.tetri_complete hv' hwf hm hac
  have hset := planReward_set (planOf_length I σ) ht hrew hun q
  have hq : q.2.1 < I.nSlots := by
    have hg : Plan.get ((planOf I σ).set t (some q)) t = some q := by
      rw [plan_get_set (by rw [planOf_length]; exact (mem_nonRunning.mp ht).1)]; simp
    exact (hv'.wf t q (mem_nonRunning.mp ht).1 (mem_nonRunning.mp ht).2.2 hg).2.1
  have h1 := den_le_rew I hq
  have h2 := objective_eq_planReward h hwf hm
  have h3 := hB σ' hs'
  omega

/-- No feasible point earns more than `objBound` (each rewarded task at its best cell): the
check establishes `OPT < 10` units per instance through this bound. -/
theorem objective_le_bound (h : sat σ (gen I)) (hwf : I.wf = true) (hm : I.noModel = false) :
    objective σ (gen I) ≤ objBound I := objective_le_objBound h hwf hm

/-- The executable checker decides the specification. -/
theorem validB_iff {plan : Plan} (hwf : I.wf = true) : validB I plan = true ↔ ValidPlan I plan :=
  Tetri.validB_iff hwf

/-- **Maximality, as evaluated by the driver**: under the hypotheses of `tetri_maximal` every
cell the driver lists as addable belongs to a task the objective does not reward. -/
theorem tetri_maximal_addable (h : sat σ (gen I)) (hwf : I.wf = true) (hm : I.noModel = false)
    (hac : I.cplex = false → wfAcyclic I = true) {OPT : Int}
    (hopt : ∀ τ, sat τ (gen I) → objective τ (gen I) ≤ OPT)
    (hgap : 9 * OPT ≤ 10 * objective σ (gen I)) (hsmall : OPT < 10 * (I.den : Int))
    {t w k s : Nat} (hadd : (t, w, k, s) ∈ addable I (planOf I σ)) : I.rewarded t = false := by
  obtain ⟨ht, hun, _, hv'⟩ := (mem_addable hwf).mp hadd
  cases hr : I.rewarded t with
  | false => rfl
  | true => exact absurd hv' (tetri_maximal h hwf hm hac hopt hgap hsmall ht hr hun (w, k, s))

/-- In the CPLEX formulation, and in the Gurobi one without `release_taskgraphs`, every task is
rewarded: the plan is maximal without exception. -/
theorem all_rewarded (hr : I.cplex = true ∨ I.releaseTaskgraphs = false) (t : Nat) : I.rewarded t = true := by
  rcases hr with h | h <;> simp [Inst.rewarded, h]

/-! ### Non-vacuity and counterexamples -/

/-- Finding C14-TETRI-1.  Gurobi with `release_taskgraphs`, chain `B → C`, four slots; `C`
(deadline 0) has no allowed cell, so the objective — which rewards only the sink `C` — is 0 for
every feasible point, and the all-unplaced point is optimal although `B` fits everywhere. -/
def exUnrew : Inst :=
  { cplex := false, now := 0, disc := 1, planAheadOpt := 3
    workers := [⟨"W0", "P0", [("CPU", 1)]⟩]
    tasks := [⟨"B@G", "B", 0, "G", .released, 0, 9, [⟨1, [("CPU", 1)]⟩], 0, 0, 0⟩,
              ⟨"C@G", "C", 0, "G", .virtual, -1, 0, [⟨1, [("CPU", 1)]⟩], 0, 0, 0⟩]
    nOffered := 2
    nodes := [⟨"B@G", "B", 0, "G"⟩, ⟨"C@G", "C", 0, "G"⟩]
    edges := [("B@G", "C@G")]
    enforceDeadlines := true, retract := true, releaseTaskgraphs := true }

theorem exUnrew_facts : exUnrew.wf = true ∧ exUnrew.noModel = false ∧ wfAcyclic exUnrew = true ∧
    exUnrew.rewarded 0 = false ∧ objBound exUnrew = 0 := by decide

/-- **The hypothesis `rewarded t` of `tetri_maximal` cannot be dropped**: an *optimal* feasible
point whose decoded plan can be extended by the unrewarded task `B`. -/
theorem unrewarded_counterexample :
    ∃ σ : Var → Int, sat σ (gen exUnrew) ∧
      (∀ τ, sat τ (gen exUnrew) → objective τ (gen exUnrew) ≤ objective σ (gen exUnrew)) ∧
      (0 : Nat) ∈ exUnrew.nonRunning ∧ (planOf exUnrew σ).get 0 = none ∧
      ValidPlan exUnrew ((planOf exUnrew σ).set 0 (some (0, 0, 0))) := by
  obtain ⟨hwf, hm, hac, _, hb⟩ := exUnrew_facts
  have hv0 : ValidPlan exUnrew [none, none] := (Tetri.validB_iff hwf).mp (by decide)
  obtain ⟨σ, hs, hp, ho⟩ := Tetri.tetri_complete hv0 hwf hm (fun _ => hac)
  refine ⟨σ, hs, ?_, by decide, by rw [hp]; rfl, ?_⟩
  · intro τ hτ
    have h1 := objective_le_objBound hτ hwf hm
    have h2 : planReward exUnrew [none, none] = 0 := by decide
    rw [ho, h2, ← hb]; exact h1
  · rw [hp]
    exact (Tetri.validB_iff hwf).mp (by decide)

/-- Finding C14-TETRI-2.  One 1-CPU worker, a RUNNING task (runtime 3, remaining 1) and an
offered task `T` (runtime 1, deadline 2), `now = 0`. -/
def exRun : Inst :=
  { cplex := true, now := 0, disc := 1, planAheadOpt := 2
    workers := [⟨"W0", "P0", [("CPU", 1)]⟩]
    tasks := [⟨"T@G0", "T", 0, "G0", .released, 0, 2, [⟨1, [("CPU", 1)]⟩], 0, 0, 0⟩,
              ⟨"R@G1", "R", 0, "G1", .running, 0, 9, [⟨3, [("CPU", 1)]⟩], 0, 0, 1⟩]
    nOffered := 1
    nodes := [⟨"T@G0", "T", 0, "G0"⟩, ⟨"R@G1", "R", 0, "G1"⟩]
    edges := []
    enforceDeadlines := true, retract := false, releaseTaskgraphs := false }

/-- **The planner's limits are tighter than the real ones**: slot 1 is an allowed cell of `T`
and the RUNNING task is expected to have finished by then (`now + remaining = 1`), yet no valid
plan — hence no feasible point of either formulation's model — places `T` at slot 1, because the
RUNNING task is booked for `[0, 3)`. -/
theorem running_booking_counterexample :
    exRun.wf = true ∧ exRun.noModel = false ∧ exRun.cellOk 0 0 1 0 = true ∧
    exRun.now + ((exRun.task 1).remaining : Nat) ≤ exRun.slot 1 ∧
    (∀ plan, ValidPlan exRun plan → plan.get 0 ≠ some (0, 1, 0)) ∧
    (∀ σ, sat σ (gen exRun) → (planOf exRun σ).get 0 ≠ some (0, 1, 0)) := by
  have hwf : exRun.wf = true := by decide
  have hm : exRun.noModel = false := by decide
  have key : ∀ plan, ValidPlan exRun plan → plan.get 0 ≠ some (0, 1, 0) := by
    intro plan hv h0
    have h1 := hv.running 1 (by decide) (by decide) (by decide)
    have hc := hv.capacity 0 (by decide) 1 (by decide) "CPU"
    have hl : load exRun plan 0 1 "CPU" = 2 := by
      have hact : exRun.act = [0, 1] := by decide
      simp only [load, hact, List.map_cons, List.map_nil, nsum, demandAt, h0, h1]
      decide
    rw [hl] at hc
    exact absurd hc (by decide)
  refine ⟨hwf, hm, by decide, by decide, key, ?_⟩
  intro σ hs
  exact key _ (Tetri.tetri_sound hs hwf hm)

/-- Finding C14-TETRI-3.  Non-retracting mode, discretisation 3, `now = 5`: `S` was SCHEDULED
(runtime 3, 2 CPUs, deadline 10) by an earlier call, a RUNNING task holds 2 of the 3 CPUs until 7,
`T` (1 CPU) is offered.  On the grid 5, 8, 11 of *this* call `S` can only start at 5 (8 + 3 > 10),
where it collides with the RUNNING task. -/
def exShift : Inst :=
  { cplex := true, now := 5, disc := 3, planAheadOpt := 6
    workers := [⟨"W0", "P0", [("CPU", 3)]⟩]
    tasks := [⟨"T@G0", "T", 0, "G0", .released, 5, 10, [⟨2, [("CPU", 1)]⟩], 0, 0, 0⟩,
              ⟨"S@G1", "S", 0, "G1", .scheduled, 3, 10, [⟨3, [("CPU", 2)]⟩], 0, 0, 0⟩,
              ⟨"R@G2", "R", 0, "G2", .running, 5, 9, [⟨2, [("CPU", 2)]⟩], 0, 0, 2⟩]
    nOffered := 1
    nodes := [⟨"T@G0", "T", 0, "G0"⟩, ⟨"S@G1", "S", 0, "G1"⟩, ⟨"R@G2", "R", 0, "G2"⟩]
    edges := []
    enforceDeadlines := true, retract := false, releaseTaskgraphs := false }

/-- **A SCHEDULED task that cannot be re-placed on the shifted grid makes the whole model
infeasible**: no assignment satisfies `gen exShift`, `schedule()` answers the offered task `T`
with "not placed", although `T` fits next to the RUNNING task right now. -/
theorem shifted_grid_counterexample :
    exShift.wf = true ∧ exShift.noModel = false ∧ (∀ σ, ¬ sat σ (gen exShift)) ∧
    decodeFail exShift = [⟨0, .unplaced⟩] ∧
    exShift.cellOk 0 0 0 0 = true ∧ exShift.runningLoad 0 0 "CPU" + exShift.req 0 0 "CPU" ≤ 3 := by
  have hwf : exShift.wf = true := by decide
  have hm : exShift.noModel = false := by decide
  refine ⟨hwf, hm, ?_, by decide, by decide, by decide⟩
  intro σ hs
  have hv := Tetri.tetri_sound hs hwf hm
  have hreq := hv.required 1 (by decide) (by decide) (by decide)
  obtain ⟨c, hc⟩ := Option.isSome_iff_exists.mp hreq
  obtain ⟨h1, h2, h3, h4⟩ := hv.wf 1 c (by decide) (by decide) hc
  have hw : c.1 = 0 := by have : exShift.nW = 1 := by decide
                          omega
  have hs' : c.2.2 = 0 := by have : (exShift.task 1).nS = 1 := by decide
                             omega
  have hk : c.2.1 = 0 := by
    have hn : exShift.nSlots = 3 := by decide
    rw [hw, hs'] at h4
    rcases Nat.lt_or_ge c.2.1 1 with h | h
    · omega
    · rcases Nat.lt_or_ge c.2.1 2 with h' | h'
      · have : c.2.1 = 1 := by omega
        rw [this] at h4
        exact absurd h4 (by decide)
      · have : c.2.1 = 2 := by omega
        rw [this] at h4
        exact absurd h4 (by decide)
  have hrun := hv.running 2 (by decide) (by decide) (by decide)
  have hcap := hv.capacity 0 (by decide) 0 (by decide) "CPU"
  have hact : exShift.act = [0, 1, 2] := by decide
  have hce : c = (0, 0, 0) := by
    obtain ⟨a, b, d⟩ := c
    simp only at hw hk hs'
    simp [hw, hk, hs']
  rw [hce] at hc
  have hl : 4 ≤ load exShift (planOf exShift σ) 0 0 "CPU" := by
    simp only [load, hact, List.map_cons, List.map_nil, nsum]
    have e1 : demandAt exShift (planOf exShift σ) 0 0 "CPU" 1 = 2 := by
      simp only [demandAt, hc]; decide
    have e2 : demandAt exShift (planOf exShift σ) 0 0 "CPU" 2 = 2 := by
      simp only [demandAt, hrun]; decide
    omega
  have : qty (exShift.worker 0).res "CPU" = 3 := by decide
  omega

/-- Finding C14-TETRI-4.  Gurobi formulation, join `J` with the parents `A` (COMPLETED, hence
without variables) and `B` (offered in the same call). -/
def exJoin : Inst :=
  { cplex := false, now := 2, disc := 1, planAheadOpt := 9
    workers := [⟨"W0", "P0", [("CPU", 2)]⟩]
    tasks := [⟨"B@G", "B", 0, "G", .released, 2, 12, [⟨2, [("CPU", 1)]⟩], 0, 0, 0⟩,
              ⟨"J@G", "J", 0, "G", .virtual, -1, 12, [⟨2, [("CPU", 1)]⟩], 0, 0, 0⟩]
    nOffered := 2
    nodes := [⟨"A@G", "A", 0, "G"⟩, ⟨"B@G", "B", 0, "G"⟩, ⟨"J@G", "J", 0, "G"⟩]
    edges := [("A@G", "J@G"), ("B@G", "J@G")]
    enforceDeadlines := true, retract := false, releaseTaskgraphs := false }

/-- **The all-parents-placed rows count parents without variables**: `J` has one parent with
variables but two graph parents, so no valid plan — hence no feasible point — ever places `J`,
although `J` is rewarded and all its cells from slot `2 + 2 + 1` on are allowed. -/
theorem parent_count_counterexample :
    exJoin.wf = true ∧ exJoin.noModel = false ∧ exJoin.rewarded 1 = true ∧
    exJoin.parentVars 1 = [0] ∧ exJoin.nParents 1 = 2 ∧ exJoin.cellOk 1 0 3 0 = true ∧
    (∀ plan, ValidPlan exJoin plan → plan.get 1 = none) := by
  refine ⟨by decide, by decide, by decide, by decide, by decide, by decide, ?_⟩
  intro plan hv
  cases hp : plan.get 1 with
  | none => rfl
  | some c =>
    have := (hv.prec (by decide) 1 c (by decide) (by decide) hp).1 (by decide)
    exact absurd this (by decide)

/-- Non-vacuity of `tetri_maximal`: in `exRun` the all-unplaced point is feasible, optimal
(`OPT` = its own objective: the constant of the RUNNING task) and indeed nothing can be added. -/
example : addable exRun [none, some (runningCell exRun 1)] = [] := by decide
example : validB exRun [none, some (runningCell exRun 1)] = true := by decide
/-- … while in `exUnrew` the driver lists the cells of the unrewarded task `B`. -/
example : addable exUnrew [none, none] = [(0, 0, 0, 0), (0, 0, 1, 0), (0, 0, 2, 0), (0, 0, 3, 0)] := by decide

end ErdosVerif.C14_Tetri
