import ErdosVerif.Lemmas.SimProgressMain
import ErdosVerif.Props.C01_Run
/-!
# C05 (run level) — progress of the `simulate()` loop: no zero-length-step livelock

`simulate()` is `while True:` — pop the next event after stepping to its time, *or*, when a
placed task finishes earlier, step by the smallest remaining time of the placed tasks and go
round again **without** popping. An iteration of the second kind with step size 0 changes
nothing but the history: if it can happen once it happens forever (defect D4 of the design:
a strategy with runtime 0 used to make `Task.step` never report completion).

For whole runs of the simulator model (`Model/Sim.lean`; every world, every decision tape =
scheduler, every draw tape, any number of loop iterations) from a well-formed initial state
(`Sim.wfP`, decidable) this file proves, at **every loop head** (the state after the
constructor and `k` completed iterations, for every `k`) and at the normal end of a run:

* `running_zero_remaining_has_finish_event` — every RUNNING task with remaining time 0 has a
  TASK_FINISHED event in the queue, due now or earlier (the invariant the model's
  `placementPlace` / `step` maintain: a task that starts with no work left gets its event at
  once; `__step` creates the event when the remaining time reaches 0; `removeEvent` /
  in-place edits never hit a TASK_FINISHED event);
* `placed_tasks_are_running` — every task `get_placed_tasks()` returns is RUNNING (the
  pool-level map only mentions resident tasks, `Sim.PFM`; resident ⇒ RUNNING, C01);
* `head_due_when_zero_remaining` — hence, whenever a placed task has remaining time 0, the
  event at the head of the queue is due now or earlier, so the loop takes the popping branch;
* `no_zero_length_step_livelock` — **in the history, of two adjacent clock entries (no pop
  in between) the second is strictly later, unless it is immediately followed by a pop**:
  an iteration that does not end the run either pops an event or advances the clock by a
  strictly positive amount; `three_clock_entries_advance` is the corollary "between two
  consecutive pops a clock value is never written more than twice".
* `stall_state_counterexample` — the states that *would* stall (a RUNNING placed task with
  remaining time 0, no TASK_FINISHED event queued, next event in the future): `iter` returns
  without popping and without moving the clock, and the state after it stalls again. Such
  states violate the invariant, i.e. they are unreachable from well-formed initial states.

Not proved here (PARTIAL for C05): a bound on the number of events handled at one instant (a
per-handler same-instant causality table) and termination of the loop for all fuel above an
explicit bound. Runs aborted by an exception: the theorems hold at the last loop head before
the aborting iteration (the exceptional post-condition of the triples is trivial).
-/
namespace ErdosVerif.C05
open ErdosVerif.Model ErdosVerif.Model.Sim

/-- `P` holds of the state at the loop head after the constructor and `k` completed iterations
of the loop (nothing is claimed if an exception was raised before). -/
def AtLoopHead (s0 : SimS) (k : Nat) (P : SimS → Prop) : Prop :=
  HoldsAfter (fun _ s => P s) (fun _ => True) ((ExceptT.run (do init; runK k : SimM Bool)).run s0)

theorem atLoopHead_of_pj (s0 : SimS) (k : Nat) (h : wfP s0 = true) (P : SimS → Prop) (hP : ∀ s, PJ s → P s) :
    AtLoopHead s0 k P := by
  have := loop_head_pj s0 k h
  unfold AtLoopHead
  revert this
  cases (StateT.run (ExceptT.run (do init; runK k : SimM Bool)) s0) with
  | mk r s =>
    cases r with
    | ok a => intro hA; exact hP s hA
    | error e => intro _; trivial

/-- A TASK_FINISHED event of task `t`, due now or earlier, is queued. -/
def FinishQueued (s : SimS) (t : TaskId) : Prop :=
  ∃ e ∈ s.queue.toList, e.ev.etype = ET.taskFinished ∧ e.tid = some t ∧ e.ev.time ≤ s.now

theorem finishQueued_of_pj {s : SimS} (h : PJ s) (t : TaskId) (x : TaskS) (ht : taskAt s.graphs t = some x)
    (hs : x.state = .running) (hr : x.remaining = some 0) : FinishQueued s t := by
  obtain ⟨e, he, h1, h2, h3⟩ := h.pg.due t x ht hs hr (by simp)
  exact ⟨e, by simpa using he, h1, h2, h3⟩

/-- **Every RUNNING task with remaining time 0 has its TASK_FINISHED event queued, due now or
earlier** — at every loop head of every run. -/
theorem running_zero_remaining_has_finish_event (s0 : SimS) (k : Nat) (h : wfP s0 = true) :
    AtLoopHead s0 k (fun s => ∀ t x, taskAt s.graphs t = some x → x.state = .running → x.remaining = some 0 →
      FinishQueued s t) :=
  atLoopHead_of_pj s0 k h _ (fun _ hJ t x => finishQueued_of_pj hJ t x)

/-- **Every task `get_placed_tasks()` returns is RUNNING** — at every loop head of every run. -/
theorem placed_tasks_are_running (s0 : SimS) (k : Nat) (h : wfP s0 = true) :
    AtLoopHead s0 k (fun s => ∀ t ∈ placedList s, ∃ x, taskAt s.graphs t = some x ∧ x.state = .running) :=
  atLoopHead_of_pj s0 k h _ (fun _ hJ t ht => hJ.placed_running t ht)

/-- **Whenever a placed task has remaining time 0, the event at the head of the queue is due
now or earlier**: the loop cannot take the non-popping branch with step size 0. -/
theorem head_due_when_zero_remaining (s0 : SimS) (k : Nat) (h : wfP s0 = true) :
    AtLoopHead s0 k NoStallPre :=
  atLoopHead_of_pj s0 k h _ (fun _ hJ => hJ.noStall)

/-- **No zero-length-step livelock.** In the clock / pop skeleton of the history (`some c` = the
clock was set to `c` by `__step`, `none` = an event was popped) at any loop head: of two adjacent
clock entries the second is strictly later, unless it is immediately followed by a pop — every
iteration that does not end the run pops an event or advances the clock by a strictly positive
amount. -/
theorem no_zero_length_step_livelock (s0 : SimS) (k : Nat) (h : wfP s0 = true) :
    AtLoopHead s0 k (fun s => ∀ i a b, (pg_skel s.log.toList)[i]? = some (some a) →
      (pg_skel s.log.toList)[i + 1]? = some (some b) → a < b ∨ (pg_skel s.log.toList)[i + 2]? = some none) :=
  atLoopHead_of_pj s0 k h _ (fun _ hJ => hJ.pg.lg.1)

/-- Between two consecutive pops a clock value is written at most twice: of three consecutive
clock entries the first two differ (strictly increase). -/
theorem three_clock_entries_advance (s0 : SimS) (k : Nat) (h : wfP s0 = true) :
    AtLoopHead s0 k (fun s => ∀ i a b c, (pg_skel s.log.toList)[i]? = some (some a) →
      (pg_skel s.log.toList)[i + 1]? = some (some b) → (pg_skel s.log.toList)[i + 2]? = some (some c) → a < b) :=
  atLoopHead_of_pj s0 k h _ (fun _ hJ i a b c h1 h2 h3 => by
    rcases hJ.pg.lg.1 i a b h1 h2 with h4 | h4
    · exact h4
    · rw [h3] at h4; cases h4)

/-- The same at the normal end of a run (`simulate` returned without exception). -/
theorem no_zero_length_step_livelock_at_end (s0 : SimS) (fuel : Nat) (h : wfP s0 = true)
    (hok : (simulate s0 fuel).1 = none) :
    let l := pg_skel (simulate s0 fuel).2.log.toList
    ∀ i a b, l[i]? = some (some a) → l[i + 1]? = some (some b) → a < b ∨ l[i + 2]? = some none :=
  (simulate_pj s0 fuel h hok).pg.lg.1

/-- The clock entry written last (if no pop followed it) carries the current clock value. -/
theorem trailing_clock_entry_is_now (s0 : SimS) (k : Nat) (h : wfP s0 = true) :
    AtLoopHead s0 k (fun s => ∀ a, (pg_skel s.log.toList).getLast? = some (some a) → a = s.now) :=
  atLoopHead_of_pj s0 k h _ (fun _ hJ => hJ.pg.lg.2)

/-! ### non-vacuity -/

/-- The world of `C01.exWorld` (two workers, a two-task chain, a closed-loop job) is a
well-formed initial state. -/
theorem exWorld_wfP : wfP C01.exWorld = true := by
  simp [wfP, wf0, quietB, C01.exWorld, Worker.ofVec, Resources.ofVec]

example : ∀ k, AtLoopHead C01.exWorld k NoStallPre := fun k => head_due_when_zero_remaining _ k exWorld_wfP

/-- The skeleton property is not trivially true: it fails for a history that writes the same
clock value twice and then a third clock entry, and holds when a pop follows. -/
example : ¬ SF [some 5, some 5, some 7] ∧ SF [some 5, some 5, none, some 7] := by
  constructor
  · intro h
    rcases h 0 5 5 rfl rfl with h1 | h1
    · omega
    · simp at h1
  · intro i a b h1 h2
    match i with
    | 0 => right; rfl
    | 1 => simp at h2
    | 2 => simp at h1
    | (n + 3) => simp at h2

/-! ### the states that would stall -/

/-- A RUNNING task with remaining time 0 resident on a worker, **no** TASK_FINISHED event
queued, the next event (SIMULATOR_END) at time 100, clock 0. -/
def stallState : SimS :=
  let st : Strategy := ⟨0, false, 1, 0, []⟩
  let w : Worker := { Worker.ofVec [] with placed := [(0, st)] }
  let x : TaskS :=
    { name := "a", conditional := false, terminal := false, prob := 1000, strategies := [st], profile := 0, deadline := 100,
      state := .running, pre := .released, release := 0, start := 0, lastStep := 0, remaining := some 0, pool := some 0 }
  let g : GraphS := { name := "g", tasks := #[x], children := #[[]], parents := #[[]], topo := [0] }
  { flags := { loopTimeout := 100 }, jobs := #[], allGraphs := #[], allMeta := #[], graphs := #[g],
    metas := #[⟨0, 0, 0⟩], loaderReleased := true, pools := #[⟨[w], [(0, 0)]⟩], poolNames := #["p"],
    queue := #[{ ev := ⟨0, 100, ET.simulatorEnd, none⟩ }], nextEid := 1, tape := [], decisions := [] }

/-- **The stall.** From `stallState` an iteration of the loop returns `false` (the run goes
on) without popping anything and without moving the clock; it only appends a clock entry
with the same value — and the state it leaves stalls in exactly the same way. The state
violates `running_zero_remaining_has_finish_event`, so it is unreachable. -/
theorem stall_state_counterexample :
    let r1 := (ExceptT.run iter).run stallState
    let r2 := (ExceptT.run iter).run r1.2
    (match r1.1 with | .ok b => b == false | _ => false) = true ∧ r1.2.now = stallState.now ∧
    r1.2.queue.size = 1 ∧ r1.2.log.size = 1 ∧ pg_skel r1.2.log.toList = [some 0] ∧
    (match r2.1 with | .ok b => b == false | _ => false) = true ∧ r2.2.now = stallState.now ∧
    r2.2.queue.size = 1 ∧ r2.2.log.size = 2 ∧ pg_skel r2.2.log.toList = [some 0, some 0] ∧
    ¬ FinishQueued stallState ⟨0, 0⟩ := by
  refine ⟨by decide, by decide, by decide, by decide, by decide, by decide, by decide, by decide, by decide, by decide, ?_⟩
  rintro ⟨e, he, h1, _, _⟩
  have : e = { ev := ⟨0, 100, ET.simulatorEnd, none⟩ } := by simpa [stallState] using he
  subst this
  cases h1

end ErdosVerif.C05
