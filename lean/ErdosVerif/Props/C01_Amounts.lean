import ErdosVerif.Lemmas.SimLedgerRun
import ErdosVerif.Lemmas.SimLedgerRunSum
import ErdosVerif.Props.C01_Run
/-!
# C01 over a whole run — what the ledgers hold

In every state a run of the simulator model can be in — at the head of the `simulate()` loop, at
a normal end, out of fuel or at the raise point of an aborted handler (any world satisfying
`lwf0`, any decision tape, any draw tape, any fuel) — for every worker of every pool:

* every resident task placed with a non-batch strategy has a ledger entry that holds, per
  resource type, exactly the demand of that strategy (`resident_holds_demand_*`);
* every live batch has one placeholder entry (whatever the number of members) that holds the
  demand of a strategy with the batch's identity — the one that opened the batch;
* per resource type, Σ demand of the strategies of the resident (non-batch) tasks + what the
  batch placeholders and the profiles hold = total − available, hence ≤ total (`demand_sum_*`:
  C01's statement with the *demands of the placed strategies* instead of the ledger's own sums).
-/
namespace ErdosVerif.C01
open ErdosVerif.Model ErdosVerif.Model.Sim

/-- Amounts for one worker: every resident non-batch task holds its strategy's demand, and the
sums per resource type add up to total − available. -/
def HoldsDemands (w : Worker) : Prop :=
  (∀ t s, AList.get? w.placed t = some s → s.isBatch = false →
    ∃ l, AList.get? w.res.allocs (.task t) = some l ∧ ∀ n, pairsByName l n = byName s.req n) ∧
  (∀ n, byName w.res.avail n + (taskDemand w.placed n + heldBy Comp.isBatch w.res.allocs n +
      heldBy Comp.isProfile w.res.allocs n) = byName w.res.total n) ∧
  (∀ n, taskDemand w.placed n ≤ byName w.res.total n) ∧
  (∀ sid ms, AList.get? w.batches sid = some ms → ∃ (g : Nat) (l : List (Res × Nat)) (s0 : Strategy),
    AList.get? w.batchTask sid = some (.batch g) ∧ AList.get? w.res.allocs (.batch g) = some l ∧
    s0.sid = sid ∧ s0.isBatch = true ∧ ∀ n, pairsByName l n = byName s0.req n)

theorem holdsDemands_of_tok (w : Worker) (hl : w.LOK) : HoldsDemands w :=
  ⟨hl.1.taskHeld, fun n => (hl.1.demand_eq n).1, fun n => (hl.1.demand_eq n).2, hl.2.batchHeld⟩

/-- **In every state a run can be in** — after the constructor and any number of loop iterations,
ended normally, out of fuel or aborted by an exception at any point of any handler — **every
resident holds the demand of the strategy it was placed with** (a batch once, in its placeholder's
entry) **and Σ demand of the resident strategies (+ batch placeholders + profiles) = total −
available ≤ total**, per worker and resource type. -/
theorem resident_demands (s0 : SimS) (fuel : Nat) (h : lwf0 s0 = true) :
    ∀ p ∈ (simulate s0 fuel).2.pools.toList, ∀ w ∈ p.workers, HoldsDemands w :=
  fun p hp w hw => holdsDemands_of_tok w ((simulate_ledger_weak s0 fuel (good_initial s0 h)).2 p hp w hw)

/-- The same when the run ended normally (a corollary, kept for the registry). -/
theorem resident_demands_at_end (s0 : SimS) (fuel : Nat) (h : lwf0 s0 = true) (_hok : (simulate s0 fuel).1 = none) :
    ∀ p ∈ (simulate s0 fuel).2.pools.toList, ∀ w ∈ p.workers, HoldsDemands w :=
  resident_demands s0 fuel h

/-- **… and at the head of the `simulate()` loop after any number `k` of completed iterations**
(and at the raise point if one of them raised). -/
theorem resident_demands_at_loop_head (s0 : SimS) (k : Nat) (h : lwf0 s0 = true) :
    HoldsAfter (fun _ s => ∀ p ∈ s.pools.toList, ∀ w ∈ p.workers, HoldsDemands w)
      (fun s => ∀ p ∈ s.pools.toList, ∀ w ∈ p.workers, HoldsDemands w)
      ((ExceptT.run (do init; runK k : SimM Bool)).run s0) := by
  have := loop_head_ledger s0 k (good_initial s0 h)
  revert this
  cases (StateT.run (ExceptT.run (do init; runK k : SimM Bool)) s0) with
  | mk r s =>
    cases r with
    | ok a => intro hA p hp w hw; exact holdsDemands_of_tok w (hA.2 p hp w hw)
    | error e => intro hW p hp w hw; exact holdsDemands_of_tok w (hW.2 p hp w hw)

/-- C01's inequality alone: in every state no worker's resident strategies demand more of a
resource type than the worker has. -/
theorem resident_demand_le_total (s0 : SimS) (fuel : Nat) (h : lwf0 s0 = true) :
    ∀ p ∈ (simulate s0 fuel).2.pools.toList, ∀ w ∈ p.workers, ∀ n, taskDemand w.placed n ≤ byName w.res.total n :=
  fun p hp w hw => (resident_demands s0 fuel h p hp w hw).2.2.1

/-- Non-vacuity of the hypothesis: the example world of `C01_Run` is well-formed for the ledger theorems. -/
theorem exWorld_lwf : lwf0 exWorld = true := by
  simp [lwf0, wf0, quietB, workerFresh, exWorld, Worker.ofVec, Resources.ofVec]

example : ∀ fuel, (simulate exWorld fuel).1 = none →
    ∀ p ∈ (simulate exWorld fuel).2.pools.toList, ∀ w ∈ p.workers, HoldsDemands w :=
  fun fuel => resident_demands_at_end exWorld fuel exWorld_lwf

/-- Non-vacuity of the conclusion: a worker with a resident task that demands one GPU satisfies
`HoldsDemands` with a non-zero sum; the same worker with a doubled ledger entry does not. -/
example :
    let st : Strategy := ⟨0, false, 1, 5, [(⟨"GPU", none⟩, 1)]⟩
    let w1 := ((Worker.ofVec [(⟨"GPU", some 1⟩, 2)]).placeTask 7 st).1
    HoldsDemands w1 ∧ taskDemand w1.placed "GPU" = 1 ∧
    ¬ HoldsDemands { w1 with res := { w1.res with allocs := [(.task 7, [(⟨"GPU", some 1⟩, 2)])] } } := by
  intro st w1
  refine ⟨?_, by decide, ?_⟩
  · exact holdsDemands_of_tok _ (Worker.lk_placeTask _ 7 _ (Worker.LOK.ofVec _ (by decide)) (by decide) (by decide))
  · intro h
    obtain ⟨l, hl, hamt⟩ := h.1 7 st (by decide) rfl
    have hl' : l = [(⟨"GPU", some 1⟩, 2)] := by
      have : AList.get? [(Comp.task 7, [((⟨"GPU", some 1⟩ : Res), 2)])] (Comp.task 7) = some l := hl
      simp [AList.get?] at this
      exact this.symm
    have := hamt "GPU"
    rw [hl'] at this
    revert this
    decide

/-! ### profiles: "each profile holds its loading strategy's demand" is FALSE of the model (finding) -/

def cxLoad : Strategy := ⟨9, false, 1, 5, [(⟨"GPU", none⟩, 1)]⟩

/-- One pool with one two-GPU worker, no task graph; the first scheduler answer loads profile 5 twice. -/
def cxWorld2 : SimS :=
  { flags := { loopTimeout := 1000 }, jobs := #[], allGraphs := #[], allMeta := #[],
    pools := #[⟨[Worker.ofVec [(⟨"GPU", some 1⟩, 2)]], []⟩], poolNames := #["pool"], tape := [],
    decisions := [⟨[{ kind := .load, task := ⟨0, 0⟩, profile := 5, time := some 1, pool := some 0, worker := some 0,
                      strat := some cxLoad },
                    { kind := .load, task := ⟨0, 0⟩, profile := 5, time := some 1, pool := some 0, worker := some 0,
                      strat := some cxLoad }], 1, none⟩] }

set_option maxRecDepth 100000 in
/-- **COUNTEREXAMPLE (finding): a profile can hold twice its loading strategy's demand.** After 8
iterations of the `simulate()` loop (a loop head) of a run from a well-formed world, profile 5 is
loading with a strategy that demands 1 GPU and its ledger entry holds 2 GPUs: `load_profile` of a
profile that is already loading charges the entry again and overwrites the recorded strategy. -/
theorem profile_double_charge_counterexample :
    lwf0 cxWorld2 = true ∧
    (match ((ExceptT.run (do init; runK 8 : SimM Bool)).run cxWorld2).1 with | .ok false => true | _ => false) = true ∧
    (let w := (((ExceptT.run (do init; runK 8 : SimM Bool)).run cxWorld2).2.pools[0]?).bind (fun p => p.workers[0]?)
     w.map (fun w => w.pendProf) = some [(5, cxLoad)] ∧
     w.map (fun w => (AList.get? w.res.allocs (.profile 5)).map (fun l => pairsByName l "GPU")) = some (some 2) ∧
     byName cxLoad.req "GPU" = 1) := by
  decide +kernel

/-! ### the same task placed twice in one scheduler answer: the model follows the second placement

When one scheduler answer places the same task twice, `__create_events_from_task_placement` re-schedules the
task and mutates the cached TASK_PLACEMENT event *object* — which at that moment is still in the local list
`simulator_events` of `__handle_scheduler_finish`, not in the queue. `Model/Sim.lean` used to edit queued events
only (`editEvent`), so the pending event kept the first placement while the task recorded the second one's pool
(a model-fidelity defect found by the ledger slice, `docs/ledger_run.md` Findings 3). Repaired:
`handleSchedulerFinish` applies the same edit to its pending list (`Sim.cachedOf` / `Sim.editPending`); the
end-to-end correspondence covers it with a duplicate-placing policy (`docs/dupfix.md`). -/

def cxStrat3 : Strategy := ⟨0, false, 1, 5, [(⟨"GPU", none⟩, 1)]⟩

/-- Two one-GPU pools, one task released at 0; the first scheduler answer places it at time 2 on pool 0 and,
in the same answer, on pool 1. -/
def cxWorld3 : SimS :=
  let w : Worker := Worker.ofVec [(⟨"GPU", some 1⟩, 1)]
  let tk : TaskS :=
    { name := "a", conditional := false, terminal := false, prob := 1000, strategies := [cxStrat3], profile := 0,
      deadline := 100, release := 0, intendedRelease := 0 }
  let g : GraphS := { name := "g", tasks := #[tk], children := #[[]], parents := #[[]], topo := [0] }
  { flags := { loopTimeout := 1000 }, jobs := #[⟨"j", false, 0, 0, g, 5⟩], allGraphs := #[g], allMeta := #[⟨0, 0, 5⟩],
    pools := #[⟨[w], []⟩, ⟨[w], []⟩], poolNames := #["p0", "p1"], tape := [.fuzz 5, .fuzz 5],
    decisions := [⟨[{ kind := .place, task := ⟨0, 0⟩, time := some 2, pool := some 0, strat := some cxStrat3 },
                    { kind := .place, task := ⟨0, 0⟩, time := some 2, pool := some 1, strat := some cxStrat3 }], 1, none⟩,
                  ⟨[], 1, none⟩, ⟨[], 1, none⟩, ⟨[], 1, none⟩] }

/-- The two placements of the first answer, processed as `handleSchedulerFinish` (`__handle_scheduler_finish`)
does: the events of all placements are collected first — the second placement re-times the cached event of the
first one, which is still in the local list (`cachedOf` / `editPending`) — and queued afterwards, sorted. -/
def cxTwice : SimM Unit := do
  let p1 : PlacementS := { kind := .place, task := ⟨0, 0⟩, time := some 2, pool := some 0, strat := some cxStrat3 }
  let p2 : PlacementS := { kind := .place, task := ⟨0, 0⟩, time := some 2, pool := some 1, strat := some cxStrat3 }
  let e1 ← placementEvents 1 p1
  let c := cachedOf (← get) p2
  let e2 ← placementEvents 1 p2
  for e in Heap.pySorted SEvent.lt (editPending c p2 e1 ++ e2) do addEvent e

/-- The same without the edit of the pending list (the model before the repair: `editEvent` reaches queued
events only). -/
def cxTwiceOld : SimM Unit := do
  let e1 ← placementEvents 1 { kind := .place, task := ⟨0, 0⟩, time := some 2, pool := some 0, strat := some cxStrat3 }
  let e2 ← placementEvents 1 { kind := .place, task := ⟨0, 0⟩, time := some 2, pool := some 1, strat := some cxStrat3 }
  for e in e1 ++ e2 do addEvent e

/-- `cxWorld3` after the loader handed over its task graph. -/
def cxState3 : SimS := { cxWorld3 with graphs := cxWorld3.allGraphs, metas := cxWorld3.allMeta, loaderReleased := true }

set_option maxRecDepth 100000 in
/-- **The repaired model follows the second placement** (as /repo does: the cached event object is mutated
wherever it is). After the two placements of one answer for the same task, the only queued event is the
TASK_PLACEMENT event created by the first placement (id 0), it carries the SECOND placement (pool 1, its time),
and the task is SCHEDULED with `pool = some 1`: event and task agree. (`#eval` of the whole run
`Sim.simulate cxWorld3 50`: TASK_PLACEMENT row on `p1` at time 2, TASK_FINISHED at 7, normal end at 9. The whole
run is not evaluated in the kernel here: `get_schedulable_tasks` of the graph model does not reduce by `decide`.) -/
theorem duplicate_placement_follows_second :
    let s := ((ExceptT.run cxTwice).run cxState3).2
    s.queue.toList.map (fun e => (e.ev.eid, e.ev.etype, e.ev.time, e.placement.bind (·.pool))) =
      [(0, ET.taskPlacement, 2, some 1)] ∧
    s.future.get? ⟨0, 0⟩ = some 0 ∧
    (taskAt s.graphs ⟨0, 0⟩).map (fun x => (decide (x.state = .scheduled), x.pool)) = some (true, some 1) := by
  decide +kernel

set_option maxRecDepth 100000 in
/-- What the edit of the pending list is needed for: without it (the model as it was, `cxTwiceOld`) the queued
event keeps the first placement (pool 0) while the task records pool 1 — `__handle_task_placement` would make
the task resident in pool 0 and `__handle_task_finished` would try to remove it from pool 1. -/
theorem duplicate_placement_needs_pending_edit :
    let s := ((ExceptT.run cxTwiceOld).run cxState3).2
    s.queue.toList.map (fun e => (e.ev.etype, e.placement.bind (·.pool))) = [(ET.taskPlacement, some 0)] ∧
    (taskAt s.graphs ⟨0, 0⟩).map (fun x => (decide (x.state = .scheduled), x.pool)) = some (true, some 1) := by
  decide +kernel

end ErdosVerif.C01
