import ErdosVerif.Lemmas.Frontier
/-!
# C18 — the scheduling frontier offers exactly the work that may be decided now
Model: `Model/TaskGraph.lean` (`get_schedulable_tasks` selection loop `selectLoop`,
`get_releasable_tasks`, `notify_task_completion`).
`ect` is the `estimated_completion_time` map computed by the first two phases of
`get_schedulable_tasks` (it depends on the random tape for the RANDOM branch
policy but not on the lookahead or on `release_taskgraphs`).
-/
namespace ErdosVerif.C18
open ErdosVerif.Model

/-- **No ready task is starved**: every RELEASED task (in the traversal order) whose
release time is within `time + lookahead` is offered; so is every PREEMPTED / EVICTED task. -/
theorem ready_offered (g : GraphS) (ect : List (Nat × Int)) (time lookahead : Int) (retract rtg : Bool)
    (L : List Nat) (h : GraphS.selectLoop g ect time lookahead retract rtg g.topo false [] = .ok L) :
    ∀ n ∈ g.topo, ∀ t, g.task? n = some t →
      (t.state = .released ∧ t.release ≤ time + lookahead ∨ t.state = .preempted ∨ t.state = .evicted) →
      n ∈ L :=
  GraphS.selectLoop_complete g ect time lookahead retract rtg g.topo false [] L h

/-- **Never a completed, cancelled or running task; a scheduled task only under retraction.** -/
theorem only_decidable_work (g : GraphS) (ect : List (Nat × Int)) (time lookahead : Int) (retract rtg : Bool)
    (L : List Nat) (h : GraphS.selectLoop g ect time lookahead retract rtg g.topo false [] = .ok L) :
    ∀ n ∈ L, n ∈ g.topo ∧ ∃ t, g.task? n = some t ∧
      t.state ≠ .completed ∧ t.state ≠ .cancelled ∧ t.state ≠ .running ∧
      (t.state = .scheduled → retract = true) := by
  intro n hn
  rcases GraphS.selectLoop_sound g ect time lookahead retract rtg g.topo false [] L h n hn with h | h
  · simp at h
  · exact h

/-- **Increasing the lookahead only adds tasks to the offer.** -/
theorem lookahead_mono (g : GraphS) (ect : List (Nat × Int)) (time l1 l2 : Int) (retract rtg : Bool)
    (L1 L2 : List Nat) (hl : l1 ≤ l2)
    (h1 : GraphS.selectLoop g ect time l1 retract rtg g.topo false [] = .ok L1)
    (h2 : GraphS.selectLoop g ect time l2 retract rtg g.topo false [] = .ok L2) :
    ∀ n ∈ L1, n ∈ L2 :=
  GraphS.selectLoop_mono g ect time l1 l2 retract rtg rtg hl id g.topo false false [] [] L1 L2 id
    (fun _ h => h) h1 h2

/-- **Releasing whole task graphs only adds tasks to the offer.** -/
theorem release_taskgraphs_mono (g : GraphS) (ect : List (Nat × Int)) (time l : Int) (retract : Bool)
    (L1 L2 : List Nat)
    (h1 : GraphS.selectLoop g ect time l retract false g.topo false [] = .ok L1)
    (h2 : GraphS.selectLoop g ect time l retract true g.topo false [] = .ok L2) :
    ∀ n ∈ L1, n ∈ L2 :=
  GraphS.selectLoop_mono g ect time l l retract false true (Int.le_refl l) (fun h => by cases h) g.topo
    false false [] [] L1 L2 id (fun _ h => h) h1 h2

/-- `get_releasable_tasks` = VIRTUAL / SCHEDULED / PREEMPTED tasks all of whose parents are complete. -/
theorem releasable_spec (g : GraphS) (n : Nat) :
    n ∈ g.getReleasable ↔
      n < g.tasks.size ∧
      (g.stateOf n = .virtual ∨ g.stateOf n = .scheduled ∨ g.stateOf n = .preempted) ∧
      ∀ p ∈ g.pars n, g.completeOf p = true :=
  GraphS.getReleasable_spec g n

/-- **Release on completion** (non-conditional task): exactly the non-cancelled
children that are a join or have every parent complete, in child order. -/
theorem release_on_completion (g : GraphS) (n : Nat) (finish : Int) (tape : List Draw) (t : TaskS)
    (ht : g.task? n = some t) (hc : t.isComplete = true) (hnc : t.conditional = false)
    (herr : (g.notifyCompletion n finish tape).err = none) :
    (g.notifyCompletion n finish tape).released = (g.kids n).filter g.releasedBy ∧
    (g.notifyCompletion n finish tape).cancelled = [] ∧
    (g.notifyCompletion n finish tape).g = g ∧
    (g.notifyCompletion n finish tape).tape = tape :=
  GraphS.notify_nonconditional g n finish tape t ht hc hnc herr

/-! ### non-vacuity: a chain A→B with A RELEASED at time 3 -/
example :
    let mk (nm : String) (st : TState) (rel : Int) : TaskS :=
      { name := nm, conditional := false, terminal := false, prob := 1000,
        strategies := [⟨0, false, 1, 4, []⟩], profile := 0, deadline := 10, state := st, release := rel }
    let g : GraphS := ⟨"G", #[mk "A" .released 3, mk "B" .virtual (-1)], #[[1], []], #[[], [0]], [0, 1]⟩
    GraphS.selectLoop g [(0, 7), (1, 11)] 3 0 false false g.topo false [] = .ok [0] ∧
    GraphS.selectLoop g [(0, 7), (1, 11)] 3 10 false false g.topo false [] = .ok [0, 1] := by
  exact ⟨rfl, rfl⟩

end ErdosVerif.C18
