import ErdosVerif.Lemmas.SimInv
import ErdosVerif.Lemmas.LedgerCopy
import ErdosVerif.Lemmas.LedgerResident
/-!
# C01 — no worker is ever oversubscribed during a simulation

Model: `Model/Sim.lean` (the whole simulator loop; the scheduler is a decision
tape, so "every policy and flag combination" is the universal quantifier over the
tape) on top of the ledger model `Model/Ledger.lean`.
-/
namespace ErdosVerif.C01
open ErdosVerif.Model ErdosVerif.Model.Sim

/-- The initial state of any world whose workers' resource vectors have no duplicate
key (a Python dict cannot have one) satisfies the invariant. -/
theorem initial_state_ok (s0 : SimS) (vs : Array (List Vec))
    (hp : s0.pools = vs.map (fun ws => (⟨ws.map Worker.ofVec, []⟩ : Pool)))
    (hnd : ∀ ws ∈ vs.toList, ∀ v ∈ ws, (AList.keys v).Nodup) (hl : s0.log = #[]) (hn : s0.now = 0)
    (hg : s0.graphs = #[]) (ha : ∀ g ∈ s0.allGraphs.toList, g.Fresh)
    (hj : ∀ j ∈ s0.jobs.toList, j.template.Fresh) :
    Inv s0 := by
  apply inv_initial s0 _ hl hn hg ha hj
  intro p hpm
  rw [hp] at hpm
  simp only [Array.toList_map, List.mem_map] at hpm
  obtain ⟨ws, hws, rfl⟩ := hpm
  intro w hw
  simp only [List.mem_map] at hw
  obtain ⟨v, hv, rfl⟩ := hw
  exact Resources.inv_ofVec v (hnd ws hws v hv)

/-- **At every instant of every run** (after the constructor and any number of loop
iterations, normal or aborted), for every pool, worker and exact resource key:
available + allocated = total. -/
theorem ledger_conserved (s0 : SimS) (fuel : Nat) (h : Inv s0) :
    ∀ p ∈ (simulate s0 fuel).2.pools.toList, ∀ w ∈ p.workers, ∀ k : Res,
      getQ w.res.avail k + allocAt w.res.allocs k = getQ w.res.total k :=
  fun p hp w hw k => ((simulate_inv s0 fuel h).1 p hp w hw).conserve k

/-- **No worker is ever oversubscribed**: at every instant, for every worker and every
resource type, what the ledger holds for the resident tasks, batches and profiles does
not exceed the configured capacity (and availability + held = capacity). -/
theorem never_oversubscribed (s0 : SimS) (fuel : Nat) (h : Inv s0) :
    ∀ p ∈ (simulate s0 fuel).2.pools.toList, ∀ w ∈ p.workers, ∀ n : String,
      allocByName w.res.allocs n ≤ byName w.res.total n ∧
      byName w.res.avail n + allocByName w.res.allocs n = byName w.res.total n := by
  intro p hp w hw n
  have := Resources.conserve_byName w.res ((simulate_inv s0 fuel h).1 p hp w hw) n
  exact ⟨by omega, this⟩

/-- Whenever a worker's ledger is empty it is back at full capacity (C04's
`sim_idle_full` at every instant of every run). -/
theorem idle_worker_full (s0 : SimS) (fuel : Nat) (h : Inv s0) :
    ∀ p ∈ (simulate s0 fuel).2.pools.toList, ∀ w ∈ p.workers, w.res.allocs = [] → w.res.avail = w.res.total :=
  fun p hp w hw he => Resources.empty_full w.res ((simulate_inv s0 fuel h).1 p hp w hw) he

/-- What a successful placement charges: exactly the requested quantity of each
requested key's type (links the ledger to the strategy's demand for one request key). -/
theorem placement_charges_demand (r : Resources) (k : Res) (c : Comp) (q : Nat) (n : String)
    (hok : (r.allocate k c q).2 = .ok) :
    allocByName (r.allocate k c q).1.allocs n = allocByName r.allocs n + (if k.name = n then q else 0) :=
  Resources.allocate_allocByName r k c q n hok

/-- **A task never draws resources from more than one worker** (pool level, every pool
state, every request): a successful `WorkerPool.place_task` of a task that is resident on
no worker of the pool leaves it resident on exactly one worker and changes the residency
of no other task. (The hypothesis is the simulator's discipline: it places a task only
when it starts it, `Task.start` is refused unless the task is SCHEDULED, and a started
task is never SCHEDULED again — `C02.starts_at_most_once`.) -/
theorem single_host_on_placement (p : Pool) (t : Nat) (strats : List Strategy) (s? : Option Strategy) (wid? : Option Nat)
    (hnone : ∀ x ∈ p.workers, x.placed.has t = false)
    (hok : (p.placeTask t strats s? wid?).2 = .ok true) :
    (∃ i, (p.placeTask t strats s? wid?).1.hostsOf t = [i]) ∧
    ∀ u, u ≠ t → (p.placeTask t strats s? wid?).1.hostsOf u = p.hostsOf u :=
  Pool.placeTask_single_host p t strats s? wid? hnone hok

/-- Non-vacuity: two one-GPU workers, the first one busy: the task lands on worker 1 only. -/
example :
    let w : Worker := Worker.ofVec [(⟨"GPU", some 1⟩, 1)]
    let s : Strategy := ⟨0, false, 1, 5, [(⟨"GPU", none⟩, 1)]⟩
    let p0 : Pool := ⟨[w, w], []⟩
    let p1 := (p0.placeTask 7 [s] (some s) none).1
    (match (p1.placeTask 8 [s] (some s) none).2 with | .ok true => true | _ => false) = true ∧
    (p1.placeTask 8 [s] (some s) none).1.hostsOf 8 = [1] ∧
    (p1.placeTask 8 [s] (some s) none).1.hostsOf 7 = [0] := by decide

end ErdosVerif.C01
