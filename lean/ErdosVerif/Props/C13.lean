import ErdosVerif.Lemmas.GreedyOk
/-!
# C13 — EDF, FIFO and LSF honour their priority order (no priority inversion)

Model: `ErdosVerif.Model.Greedy` (`schedule`, `run`, `step`, `order`) over the ledger model
`Model.Pool`.  `schedule cfg offer live = .ok r` is one invocation of the policy `cfg.policy`
at time `cfg.now` on the offered tasks `offer` (what `get_schedulable_tasks` returned, in its
order) and the live cluster `live`; `r.order` is `ordered_tasks`, `r.placements` the returned
`Placements`, `r.virt0` the virtual cluster right after `copy(worker_pools)`, `r.virt` the
virtual cluster at return.

Everything is for all offers (ties included), all strategy lists, all clusters (any number of
pools and workers, any occupancy); the only hypothesis about the cluster is the ledger
invariant `ClusterInv live` (C04: it holds in every reachable state).

`fitsSomewhere V s` = some worker of some pool of `V` can accommodate `s`
(`fitsSomewhere_false_iff` spells the negation out worker by worker).

**LSF (finding D13, fixed in /repo 366b4de).**  `LSFScheduler` used to call
`worker_pool.place_task(task)` without the strategy it had just tested, so its virtual cluster was
not the cluster charged with the reported placements.  It now passes the strategy
(`Policy.passesStrategy` is `true` for all three policies, `passes_all`), and every theorem below
holds for EDF, FIFO and LSF alike; the former witness is kept as a positive example.
-/
namespace ErdosVerif.C13
open ErdosVerif.Model ErdosVerif.Model.Greedy

/-! ### the processing order is the stable sort of the offer by the policy's key -/

/-- `ordered_tasks` is a permutation of the offer, sorted by the policy's priority
(`prioLt cfg a b` = "a strictly before b": earlier deadline, then smaller graph name (EDF);
earlier release (FIFO); less slack `deadline − now − remaining` (LSF)), and stable: any
sub-sequence of the offer that is already in priority order — in particular two tasks of equal
priority — keeps its order. These three facts determine the list uniquely. -/
theorem order_is_stable_sort (cfg : Cfg) (offer : List Offered) (live : List Pool) (r : Result)
    (h : schedule cfg offer live = .ok r) :
    r.order.Perm offer ∧ SortedBy (prioLt cfg) r.order ∧
    ∀ c : List Offered, c.Sublist offer → SortedBy (prioLt cfg) c → c.Sublist r.order := by
  obtain ⟨_, _, ho, _⟩ := schedule_ok cfg offer live r h
  rw [ho]
  exact ⟨sortBy_perm offer, sortBy_sorted (prioLt_strictWeak cfg) offer,
    fun c hc hs => sortBy_stable c offer hc hs⟩

/-- Ties: if `a` was offered before `b` and `b` is not of strictly higher priority, `a` is
processed before `b`. -/
theorem ties_keep_offer_order (cfg : Cfg) (offer : List Offered) (live : List Pool) (r : Result)
    (h : schedule cfg offer live = .ok r) (a b : Offered) (hab : [a, b].Sublist offer)
    (hprio : prioLt cfg b a = false) : [a, b].Sublist r.order :=
  (order_is_stable_sort cfg offer live r h).2.2 [a, b] hab (by simp [SortedBy, hprio])

/-- The decisions are returned in processing order, one per processed task. -/
theorem decisions_in_order (cfg : Cfg) (offer : List Offered) (live : List Pool) (r : Result)
    (h : schedule cfg offer live = .ok r) : r.placements.map (·.task) = r.order.map (·.id) := by
  obtain ⟨_, _, _, hr⟩ := schedule_ok cfg offer live r h
  exact run_tasks cfg r.virt0 r.order r.placements r.virt hr

/-- Everything processed before `t` has priority at least `t`'s; nothing processed after `t`
has strictly higher priority. -/
theorem priority_split (cfg : Cfg) (offer : List Offered) (live : List Pool) (r : Result)
    (h : schedule cfg offer live = .ok r) (pre post : List Offered) (t : Offered)
    (hsplit : r.order = pre ++ t :: post) :
    (∀ u ∈ pre, prioLt cfg t u = false) ∧ (∀ u ∈ post, prioLt cfg u t = false) := by
  have hs := (order_is_stable_sort cfg offer live r h).2.1
  rw [hsplit] at hs
  have := List.pairwise_append.mp hs
  exact ⟨fun u hu => this.2.2 u hu t (List.mem_cons_self ..),
    fun u hu => (List.pairwise_cons.mp this.2.1).1 u hu⟩

/-! ### unplaced means no fit -/

/-- If `t` is answered "not placed", then in the virtual cluster `Vpre` reached after exactly
the tasks processed before `t` (computed from the copy of the live cluster and those tasks
alone) no strategy of `t` can be accommodated by any worker of any pool. -/
theorem unplaced_means_no_fit (cfg : Cfg) (offer : List Offered) (live : List Pool) (r : Result)
    (h : schedule cfg offer live = .ok r) (pre post : List Offered) (t : Offered)
    (hsplit : r.order = pre ++ t :: post) :
    ∃ dpre Vpre d dpost, run cfg r.virt0 pre = .ok (dpre, Vpre) ∧
      r.placements = dpre ++ d :: dpost ∧ dpre.length = pre.length ∧ d.task = t.id ∧
      (d.kind = .place → d.pool = none →
        ∀ s ∈ t.task.strategies, ∀ p ∈ Vpre, ∀ w ∈ p.workers, w.canAccommodate s = false) := by
  obtain ⟨_, _, _, hr⟩ := schedule_ok cfg offer live r h
  rw [hsplit] at hr
  obtain ⟨dpre, Vpre, db, h1, h2, hds, hl⟩ := run_append cfg r.virt0 pre (t :: post) _ _ hr
  obtain ⟨d, Vt, dpost, hst, _, rfl⟩ := run_cons cfg Vpre t post db r.virt h2
  refine ⟨dpre, Vpre, d, dpost, h1, hds, hl, step_task cfg Vpre t d Vt hst, ?_⟩
  intro hk hp s hs
  rcases step_cases cfg Vpre t d Vt hst with ⟨_, rfl, _⟩ | ⟨_, hc, _, _⟩ | ⟨s', i, p, p', b, _, _, _, _, rfl, _⟩
  · simp [cancelP] at hk
  · exact (fitsSomewhere_false_iff Vpre s).mp (choose_none Vpre _ hc s hs)
  · simp [placedP] at hp

/-! ### placing more never makes a strategy fit -/

/-- One placement through the ledger API never increases any availability, so a (non-batch)
strategy that a worker of the pool accommodates afterwards was accommodated before. -/
theorem fit_antitone_place (p : Pool) (t : Nat) (strats : List Strategy) (s? : Option Strategy)
    (wid? : Option Nat) (hinv : p.Inv) (s : Strategy) (hb : s.isBatch = false)
    (hfit : (p.placeTask t strats s? wid?).1.canAccommodate s = true) : p.canAccommodate s = true :=
  Pool.canAccommodate_antitone (Pool.placeTask_le p t strats s? wid? hinv) s hb hfit

/-- **fit_antitone** — along the scheduling loop availability only decreases: whatever fits
the virtual cluster after more tasks were processed fitted it before. -/
theorem fit_antitone (cfg : Cfg) (V : List Pool) (os : List Offered) (ds : List PlacementS)
    (Vf : List Pool) (hinv : ClusterInv V) (h : run cfg V os = .ok (ds, Vf)) (s : Strategy)
    (hb : s.isBatch = false) (hfit : fitsSomewhere Vf s = true) : fitsSomewhere V s = true :=
  fitsSomewhere_antitone (run_le cfg V os ds Vf hinv h).2 s hb hfit

/-! ### the virtual cluster is the reported placements, charged in order -/

/-- Every policy hands the tested strategy to `WorkerPool.place_task`. -/
theorem passes_all (p : Policy) : p.passesStrategy = true := by cases p <;> rfl

/-- **reported_accounting** — for EDF, FIFO and LSF: the virtual cluster at return is exactly the
copy of the live cluster charged, in order, with the reported placements (each through
`WorkerPool.place_task(task, strategy)` on the pool it names). -/
theorem reported_accounting (cfg : Cfg) (offer : List Offered) (live : List Pool) (r : Result)
    (h : schedule cfg offer live = .ok r) (hinv : ClusterInv live) :
    accountAll r.virt0 r.order r.placements = r.virt := by
  obtain ⟨hc, _, _, hr⟩ := schedule_ok cfg offer live r h
  exact run_account cfg r.virt0 r.order r.placements r.virt (.inl (passes_all cfg.policy))
    (copyPools_inv live r.virt0 hinv hc) hr

/-! ### no inversion -/

/-- **no_inversion** — EDF, FIFO and LSF. Let `t` be answered "not placed". Then
* every task processed before `t` has priority higher than or equal to `t`'s and none
  processed after it has strictly higher priority;
* the copy of the live cluster charged with exactly the reported placements of the tasks
  processed before `t` (all of higher or equal priority) and nothing else — in particular with no
  lower-priority task — accommodates no strategy of `t` on any worker of any pool;
* a fortiori neither does the final virtual cluster, where every placed task is accounted for. -/
theorem no_inversion (cfg : Cfg) (offer : List Offered) (live : List Pool) (r : Result)
    (h : schedule cfg offer live = .ok r) (hinv : ClusterInv live)
    (pre post : List Offered) (t : Offered) (hsplit : r.order = pre ++ t :: post)
    (d : PlacementS) (hd : r.placements[pre.length]? = some d) (hk : d.kind = .place)
    (hun : d.pool = none) :
    (∀ u ∈ pre, prioLt cfg t u = false) ∧ (∀ u ∈ post, prioLt cfg u t = false) ∧
    ∀ s ∈ t.task.strategies,
      fitsSomewhere (accountAll r.virt0 pre (r.placements.take pre.length)) s = false ∧
      (s.isBatch = false → fitsSomewhere r.virt s = false) := by
  obtain ⟨hp1, hp2⟩ := priority_split cfg offer live r h pre post t hsplit
  refine ⟨hp1, hp2, ?_⟩
  obtain ⟨hc, _, _, hr⟩ := schedule_ok cfg offer live r h
  have hinv0 := copyPools_inv live r.virt0 hinv hc
  obtain ⟨dpre, Vpre, d', dpost, hrun, hds, hl, _, hno⟩ :=
    unplaced_means_no_fit cfg offer live r h pre post t hsplit
  have hd' : d' = d := by
    rw [hds] at hd
    rw [← hl, List.getElem?_append_right (Nat.le_refl _)] at hd
    simpa using hd
  subst hd'
  have htake : r.placements.take pre.length = dpre := by rw [hds, ← hl]; simp
  have hacc := run_account cfg r.virt0 pre dpre Vpre (.inl (passes_all cfg.policy)) hinv0 hrun
  intro s hsm
  have hfalse : fitsSomewhere Vpre s = false :=
    (fitsSomewhere_false_iff Vpre s).mpr (hno hk hun s hsm)
  refine ⟨by rw [htake, hacc]; exact hfalse, ?_⟩
  intro hb
  cases hfin : fitsSomewhere r.virt s with
  | false => rfl
  | true =>
    rw [hsplit] at hr
    obtain ⟨da, Va, db, h1, h2, _, _⟩ := run_append cfg r.virt0 pre (t :: post) _ _ hr
    rw [hrun] at h1
    cases h1
    have hinvV := (run_le cfg r.virt0 pre dpre Vpre hinv0 hrun).1
    have := fit_antitone cfg Vpre (t :: post) db r.virt hinvV h2 s hb hfin
    rw [hfalse] at this
    exact absurd this (by simp)

theorem take_succ_append {α} (pre : List α) (t : α) (x : List α) :
    (pre ++ t :: x).take (pre.length + 1) = pre ++ [t] := by
  induction pre with
  | nil => simp
  | cons a r ih => simpa using ih

/-- **Lower priority is irrelevant** — withdraw every task of strictly lower priority than `t`
from the offer: the decisions for `t` and for everything processed before it do not change.
Hence no lower-priority task ever occupies a resource that would have let `t` run. -/
theorem lower_priority_irrelevant (cfg : Cfg) (offer : List Offered) (live : List Pool) (r r' : Result)
    (h : schedule cfg offer live = .ok r) (pre post : List Offered) (t : Offered)
    (hsplit : r.order = pre ++ t :: post)
    (h' : schedule cfg (offer.filter (fun u => !prioLt cfg t u)) live = .ok r') :
    r'.order.take (pre.length + 1) = pre ++ [t] ∧
    r'.placements.take (pre.length + 1) = r.placements.take (pre.length + 1) := by
  obtain ⟨hp1, _⟩ := priority_split cfg offer live r h pre post t hsplit
  obtain ⟨hc, _, ho, hr⟩ := schedule_ok cfg offer live r h
  obtain ⟨hc', _, ho', hr'⟩ := schedule_ok cfg _ live r' h'
  have hv : r'.virt0 = r.virt0 := (Except.ok.inj (hc.symm.trans hc')).symm
  have hord : r'.order = (pre ++ [t]) ++ post.filter (fun u => !prioLt cfg t u) := by
    rw [ho', order, ← sortBy_filter (prioLt_strictWeak cfg), ← order, ← ho, hsplit]
    have hpre : pre.filter (fun u => !prioLt cfg t u) = pre :=
      List.filter_eq_self.mpr (fun u hu => by simp [hp1 u hu])
    simp [List.filter_append, hpre, (prioLt_strictWeak cfg).irrefl t]
  have hsplit' : r.order = (pre ++ [t]) ++ post := by simp [hsplit]
  rw [hsplit'] at hr
  rw [hord, hv] at hr'
  obtain ⟨da, Va, db, h1, _, hds, hl⟩ := run_append cfg r.virt0 (pre ++ [t]) post _ _ hr
  obtain ⟨da', Va', db', h1', _, hds', hl'⟩ := run_append cfg r.virt0 (pre ++ [t]) _ _ _ hr'
  rw [h1] at h1'
  cases h1'
  have hlen : da.length = pre.length + 1 := by simp [hl]
  refine ⟨by rw [hord]; simpa using take_succ_append pre t _, ?_⟩
  rw [hds, hds', ← hlen]
  simp

theorem keyError_filter (cfg : Cfg) (offer : List Offered) (p : Offered → Bool)
    (h : keyError? cfg offer = none) : keyError? cfg (offer.filter p) = none := by
  unfold keyError? at h ⊢
  split
  · rename_i hpol
    simp only [hpol] at h
    split at h
    · cases h
    · rename_i hany
      split
      · rename_i hany'
        exfalso
        apply hany
        obtain ⟨o, ho, hb⟩ := List.any_eq_true.mp hany'
        exact List.any_eq_true.mpr ⟨o, (List.mem_filter.mp ho).1, hb⟩
      · rfl
  · rfl

/-- On loader-built inputs (`NiceTask`: at least one strategy, plain strategies with one entry per
resource name) the reduced invocation of `lower_priority_irrelevant` does return, so that theorem
is not vacuous: the decisions for `t` and everything before it are those of the invocation from
which every strictly-lower-priority task was withdrawn. -/
theorem lower_priority_irrelevant_total (cfg : Cfg) (offer : List Offered) (live : List Pool) (r : Result)
    (h : schedule cfg offer live = .ok r) (hn : ∀ o ∈ offer, NiceTask o)
    (pre post : List Offered) (t : Offered) (hsplit : r.order = pre ++ t :: post) :
    ∃ r', schedule cfg (offer.filter (fun u => !prioLt cfg t u)) live = .ok r' ∧
      r'.order.take (pre.length + 1) = pre ++ [t] ∧
      r'.placements.take (pre.length + 1) = r.placements.take (pre.length + 1) := by
  obtain ⟨hc, hk, _, _⟩ := schedule_ok cfg offer live r h
  obtain ⟨r', h'⟩ := schedule_ok_of_nice cfg (offer.filter (fun u => !prioLt cfg t u)) live r.virt0 hc
    (keyError_filter cfg offer _ hk) (fun o ho => hn o (List.mem_filter.mp ho).1)
  exact ⟨r', h', lower_priority_irrelevant cfg offer live r r' h pre post t hsplit h'⟩

/-! ### the former D13 witness -/

open Witness in
/-- The input on which LSF used to report A on the GPU strategy, B not placed and C on the
(already taken) GPU (finding D13, fixed in /repo 366b4de): one pool, worker 0 with one CPU,
worker 1 with one GPU; A (deadline 5, [GPU, CPU]), B (deadline 6, [CPU]), C (deadline 7, [GPU]).
LSF now places A on the GPU, B on the CPU and leaves C unplaced, and its virtual cluster is the
reported accounting. -/
example :
    ∃ r, schedule (cfg .lsf) offer live = .ok r ∧
      (summary r == [(⟨0, 0⟩, some 0, some 0), (⟨1, 0⟩, some 0, some 2), (⟨2, 0⟩, none, none)]
        && !fitsSomewhere (accountAll r.virt0 (r.order.take 2) (r.placements.take 2)) sC
        && (r.virt == accountAll r.virt0 r.order r.placements)) = true :=
  ok_of_match _ _ (by decide)

open Witness in
/-- The same input under EDF and FIFO: A on the GPU, B on the CPU, C not placed — and C's GPU
strategy indeed does not fit once A is accounted for. -/
example :
    ∃ r, schedule (cfg .edf) offer live = .ok r ∧
      (summary r == [(⟨0, 0⟩, some 0, some 0), (⟨1, 0⟩, some 0, some 2), (⟨2, 0⟩, none, none)]
        && !fitsSomewhere (accountAll r.virt0 (r.order.take 2) (r.placements.take 2)) sC
        && (r.virt == accountAll r.virt0 r.order r.placements)) = true :=
  ok_of_match _ _ (by decide)

open Witness in
example :
    ∃ r, schedule (cfg .fifo) offer live = .ok r ∧
      (summary r == [(⟨0, 0⟩, some 0, some 0), (⟨1, 0⟩, some 0, some 2), (⟨2, 0⟩, none, none)]) = true :=
  ok_of_match _ _ (by decide)

/-! ### non-vacuity -/

/-- The witness cluster satisfies the only hypothesis about clusters. -/
example : ClusterInv Witness.live := by
  intro p hp
  simp only [Witness.live, List.mem_singleton] at hp
  subst hp
  intro w hw
  simp only [List.mem_cons, List.not_mem_nil, or_false] at hw
  rcases hw with rfl | rfl <;> exact Resources.inv_ofVec _ (by decide)

/-- A tie: two EDF tasks with the same deadline, graph names "G2" and "G10": "G10" < "G2" as
strings, so the task offered second is processed first; with equal names too the offer order
is kept. -/
example :
    (order (Witness.cfg .edf)
      [⟨⟨0, 0⟩, "G2", Witness.mkTask [Witness.sB] 9⟩, ⟨⟨1, 0⟩, "G10", Witness.mkTask [Witness.sB] 9⟩,
       ⟨⟨2, 0⟩, "G10", Witness.mkTask [Witness.sB] 9⟩]).map (·.id) = [⟨1, 0⟩, ⟨2, 0⟩, ⟨0, 0⟩] := by
  decide

end ErdosVerif.C13
