/-
C10 (TetriSched-CPLEX, **batching mode**): what the merged decision of `schedule()` guarantees.

For every assignment `σ` (structural, no feasibility needed):
* `one_decision_per_task`, `fail_one_decision` — at most one decision per task (the merge map is
  keyed by task; cancelled tasks are members of no batch);
* `only_known_tasks` — decisions only for offered tasks (cancellations) and for tasks of the call
  that survived the admission control (members of a batch);
* `batched_task_answered`, `cancelled_answered` — every member of a batch with variables and every
  cancelled task is answered;
* `placement_wellformed` — a placement names an existing worker that can hold the reported
  `BatchStrategy`, a start on the grid, not before `now` nor before the release of **the member
  task** (the batch release is the maximum), and the batch the task is a member of.

For every *feasible* `σ` (`sat σ (genB I)`):
* `placed_batch_unique` — at most one placed batch per task (the `…_not_placed` rows);
* `members_share_placement` — every member of a placed batch is answered with the batch's cell:
  the decoded plan consists exactly of the placed batches;
* **`batch_charged_once`** — at every slot that carries capacity rows, for every worker and
  resource, the requirement of each placed batch **counted once** (not once per member) plus the
  RUNNING batches fits the worker; `capacity_at_instant` — hence at every instant of those slots'
  intervals `[slot k, slot k + disc)` (all starts lie on the grid).

Counterexamples (the code violates the clause; findings C10-TETRI-B1..B3):
* `raises_counterexample` — a well-formed instance on which `schedule()` raises `ValueError`
  (a profile without `BatchTask`);
* `unanswered_counterexample` — an offered task that survives the admission control and gets no
  decision under any `σ` (it is a member of no batch): "every offered task is answered" is false;
* `horizon_counterexample` — a feasible point whose decoded plan over-subscribes a worker at a
  slot beyond the capacity rows (`nSlotsR ≤ k < nSlotsV`): `batch_charged_once` cannot be
  extended to all slots that carry variables.
-/
import ErdosVerif.Lemmas.TetriBatch
namespace ErdosVerif.C10_TetriBatch
open ErdosVerif.Mip ErdosVerif.Tetri ErdosVerif.TetriBatch

variable {I : BInst} {σ : BVar → Int}

theorem mem_cancelled {t : Nat} : t ∈ I.cancelled ↔ t < I.nOffered ∧ I.active t = false := by
  simp [BInst.cancelled]

/-- Where a decision comes from. -/
theorem decision_origin {d : BDecision} (hd : d ∈ decodeB I σ) :
    (d.out = .cancel ∧ d.task < I.nOffered ∧ I.active d.task = false) ∨
    (d.out ≠ .cancel ∧ ∃ bi ∈ I.free, d.task ∈ (I.batch bi).members) := by
  rcases mem_decodeB hd with ⟨hc, hm⟩ | ⟨bi, hb, hdb⟩
  · exact Or.inl ⟨hc, mem_cancelled.mp hm⟩
  · refine Or.inr ⟨?_, bi, hb, (mem_decodeBatch hdb).1⟩
    rcases (mem_decodeBatch hdb).2 with h | ⟨q, _, h⟩ <;> simp [h]

/-- **At most one decision per task**, for every assignment. -/
theorem one_decision_per_task (I : BInst) (σ : BVar → Int) : ((decodeB I σ).map (·.task)).Nodup := by
  simp only [decodeB, List.map_append, List.map_map, Function.comp_def, List.map_id']
  rw [List.nodup_append]
  refine ⟨?_, mergeB_nodup _, ?_⟩
  · unfold BInst.cancelled
    exact List.Nodup.sublist List.filter_sublist List.nodup_range
  · intro a ha b hb hab
    subst hab
    obtain ⟨d, hd, rfl⟩ := List.mem_map.mp hb
    have := mem_mergeB hd
    simp only [List.mem_flatMap] at this
    obtain ⟨bi, hbi, hdb⟩ := this
    have hact := (members_active (mem_free.mp hbi).1 (mem_decodeBatch hdb).1).2
    have := (mem_cancelled.mp ha).2
    rw [hact] at this
    exact Bool.noConfusion this

theorem no_duplicate_decisions (I : BInst) (σ : BVar → Int) {d e : BDecision} (hd : d ∈ decodeB I σ)
    (he : e ∈ decodeB I σ) (hde : d.task = e.task) : d = e := by
  have hn := one_decision_per_task I σ
  exact eq_of_nodup_map (·.task) hn hd he hde

/-- The same when the solver finds no solution. -/
theorem fail_one_decision (I : BInst) : ((decodeFailB I).map (·.task)).Nodup := by
  simp only [decodeFailB, List.map_append, List.map_map, Function.comp_def, List.map_id']
  rw [List.nodup_append]
  refine ⟨?_, ?_, ?_⟩
  · unfold BInst.cancelled
    exact List.Nodup.sublist List.filter_sublist List.nodup_range
  · unfold BInst.offeredAct
    exact List.Nodup.sublist List.filter_sublist List.nodup_range
  · intro a ha b hb hab
    subst hab
    simp only [BInst.offeredAct, List.mem_filter] at hb
    have := (mem_cancelled.mp ha).2
    rw [hb.2] at this
    exact Bool.noConfusion this

/-- Decisions only for tasks of the call: offered ones (cancellation) or members of a batch, which
survived the admission control. -/
theorem only_known_tasks {d : BDecision} (hd : d ∈ decodeB I σ) :
    d.task < I.nT ∨ d.task < I.nOffered := by
  rcases decision_origin hd with ⟨_, h, _⟩ | ⟨_, bi, hb, hm⟩
  · exact Or.inr h
  · exact Or.inl (members_active (mem_free.mp hb).1 hm).1

/-- Every member of a batch with variables is answered. -/
theorem batched_task_answered {bi t : Nat} (hb : bi ∈ I.free) (ht : t ∈ (I.batch bi).members) :
    ∃ d ∈ decodeB I σ, d.task = t := by
  have hmem : ∃ d ∈ I.free.flatMap (I.decodeBatch σ), d.task = t := by
    unfold BInst.decodeBatch
    cases hc : I.chosen σ bi with
    | none =>
      refine ⟨⟨t, .unplaced⟩, ?_, rfl⟩
      simp only [List.mem_flatMap]
      exact ⟨bi, hb, by simp only [hc, List.mem_map]; exact ⟨t, ht, rfl⟩⟩
    | some q =>
      obtain ⟨w, k⟩ := q
      refine ⟨⟨t, .placed w bi (I.slot k)⟩, ?_, rfl⟩
      simp only [List.mem_flatMap]
      exact ⟨bi, hb, by simp only [hc, List.mem_map]; exact ⟨t, ht, rfl⟩⟩
  obtain ⟨d, hd, hdt⟩ := hmem
  have := task_mem_mergeB hd
  obtain ⟨e, he, het⟩ := List.mem_map.mp this
  exact ⟨e, by simp only [decodeB, List.mem_append]; exact Or.inr he, by rw [het, hdt]⟩

/-- Every task removed by the admission control is answered (with a cancellation). -/
theorem cancelled_answered {t : Nat} (ht : t ∈ I.cancelled) : (⟨t, .cancel⟩ : BDecision) ∈ decodeB I σ := by
  simp only [decodeB, List.mem_append, List.mem_map]
  exact Or.inl ⟨t, ht, rfl⟩

theorem mem_keys {q : Nat × Nat} : q ∈ I.keys ↔ q.1 < I.nW ∧ q.2 < I.nSlotsV := by
  simp only [BInst.keys, List.mem_flatMap, List.mem_range, List.mem_map]
  constructor
  · rintro ⟨w, hw, k, hk, rfl⟩; exact ⟨hw, hk⟩
  · rintro ⟨hw, hk⟩; exact ⟨q.1, hw, q.2, hk, rfl⟩

/-- **A placement is well-formed**: existing worker that can hold the reported `BatchStrategy`, a
batch the task is a member of, a start on the grid, not before `now` nor before the member's own
release. -/
theorem placement_wellformed {t w b : Nat} {time : Int}
    (hd : (⟨t, .placed w b time⟩ : BDecision) ∈ decodeB I σ) :
    b < I.nB ∧ t ∈ (I.batch b).members ∧ w < I.nW ∧
    compatible (I.worker w) (I.batch b).strat.toStrat = true ∧
    (∃ k, k < I.nSlotsV ∧ time = I.slot k) ∧ I.now ≤ time ∧ (I.task t).release ≤ time := by
  obtain ⟨hb, hm, k, hc, rfl⟩ := placed_origin hd
  obtain ⟨hq, _, hok, _⟩ := chosen_spec hc
  have hk := mem_keys.mp hq
  simp only [BInst.cellOk, Bool.and_eq_true, decide_eq_true_eq] at hok
  refine ⟨(mem_free.mp hb).1, hm, hk.1, hok.1.1, ⟨k, hk.2, rfl⟩, ?_, ?_⟩
  · simp only [BInst.slot]; omega
  · exact Int.le_trans (le_bRelease I (I.batch b) hm) hok.1.2

/-- **At most one placed batch per task** in every feasible point. -/
theorem placed_batch_unique (h : sat σ (genB I)) {t b1 b2 : Nat} (h1 : b1 < I.nB) (h2 : b2 < I.nB)
    (m1 : t ∈ (I.batch b1).members) (m2 : t ∈ (I.batch b2).members)
    (p1 : (I.isPlacedE b1).eval σ = 1) (p2 : (I.isPlacedE b2).eval σ = 1) : b1 = b2 :=
  TetriBatch.placed_batch_unique h h1 h2 m1 m2 p1 p2

/-- **The merge is exact on feasible points**: every member of a placed batch is answered with
that batch's cell (worker, start, `BatchStrategy`). -/
theorem members_share_placement (h : sat σ (genB I)) {bi w k : Nat} (hb : bi ∈ I.free)
    (hc : I.chosen σ bi = some (w, k)) {t : Nat} (ht : t ∈ (I.batch bi).members) :
    (⟨t, .placed w bi (I.slot k)⟩ : BDecision) ∈ decodeB I σ := by
  simp only [decodeB, List.mem_append]
  refine Or.inr (mem_mergeB_of_unique ?_ rfl ?_)
  · simp only [List.mem_flatMap]
    refine ⟨bi, hb, ?_⟩
    simp only [BInst.decodeBatch, hc, List.mem_map]
    exact ⟨t, ht, rfl⟩
  · intro e he het hep
    simp only [List.mem_flatMap] at he
    obtain ⟨b', hb', hdb⟩ := he
    obtain ⟨hm', hout⟩ := mem_decodeBatch hdb
    rcases hout with hu | ⟨q, hq, hp⟩
    · rw [hu] at hep; exact Bool.noConfusion hep
    · simp only at het
      rw [het] at hm'
      have hbb : b' = bi := TetriBatch.placed_batch_unique h (mem_free.mp hb').1 (mem_free.mp hb).1 hm' ht
        (isPlaced_of_chosen h hb' hq) (isPlaced_of_chosen h hb hc)
      subst hbb
      rw [hc] at hq
      cases hq
      cases e
      simp_all

/-- **Capacity with a batch charged once.**  For every feasible point, every slot `k` that carries
capacity rows, every worker and resource of that worker: the requirement of every placed
`BatchTask` that occupies the slot — **once per batch**, not per member — plus the RUNNING
batches is within the worker's total quantity. -/
theorem batch_charged_once (h : sat σ (genB I)) (hwf : I.wf = true) {w k : Nat} {r : String}
    (hk : k < I.nSlotsR) (hw : w < I.nW) (hr : r ∈ (I.worker w).types) :
    I.batchLoad σ w k r ≤ qty (I.worker w).res r :=
  batchLoad_le h hwf hk hw hr

/-- **Capacity at every planned instant of the row horizon**, a batch counted once: for every
instant `τ` in `[slot k, slot k + disc)` with `k < nSlotsR` the batches of the decoded plan that
occupy `τ` (half-open `[start, start + runtime)`) plus the RUNNING batches fit the worker. -/
theorem capacity_at_instant (h : sat σ (genB I)) (hwf : I.wf = true) {w k : Nat} {τ : Int} {r : String}
    (hk : k < I.nSlotsR) (hw : w < I.nW) (hr : r ∈ (I.worker w).types)
    (h1 : I.slot k ≤ τ) (h2 : τ < I.slot k + (I.disc : Nat)) :
    I.loadAt σ w τ r ≤ qty (I.worker w).res r :=
  Nat.le_trans (loadAt_le hwf h1 h2) (batch_charged_once h hwf hk hw hr)

/-- `batch_charged_once` is the *partial* form of the property's clause "never exceed any worker's
capacity at any planned instant": it holds at the slots with capacity rows (`k < nSlotsR`), and
`horizon_counterexample` refutes it for the later slots that still carry variables. -/
theorem capacity_partial (h : sat σ (genB I)) (hwf : I.wf = true) {w k : Nat} {r : String}
    (hk : k < I.nSlotsR) (hw : w < I.nW) (hr : r ∈ (I.worker w).types) :
    I.batchLoad σ w k r ≤ qty (I.worker w).res r := batch_charged_once h hwf hk hw hr

/-! ### Non-vacuity and counterexamples -/

/-- Finding C10-TETRI-B1: one RELEASED task whose profile has a single strategy of `batch_size` 2. -/
def exRaise : BInst :=
  { now := 0, disc := 1, planAheadOpt := -1
    workers := [⟨"W0", "P0", [("CPU", 2)]⟩]
    profiles := [⟨"PR0", [⟨5, 2, [("CPU", 1)]⟩]⟩]
    prevStrats := []
    tasks := [⟨"A@G0", .released, 0, 10, 0, 1, 0, 0⟩]
    nOffered := 1
    setOrder := [0]
    enforceDeadlines := true, retract := false }

/-- **`schedule()` does not return normally on every reachable input**: the instance is
well-formed, a task is offered and survives the admission control, and the batching glue raises
(`min()` of the empty priority list). -/
theorem raises_counterexample : exRaise.wf = true ∧ exRaise.noModel = false ∧ exRaise.raises = true := by
  decide

/-- Finding C10-TETRI-B2: without enforcement `Late` (deadline 2 < now + 3) is in no batch. -/
def exLate : BInst :=
  { now := 0, disc := 1, planAheadOpt := -1
    workers := [⟨"W0", "P0", [("CPU", 2)]⟩]
    profiles := [⟨"PR0", [⟨3, 1, [("CPU", 1)]⟩]⟩]
    prevStrats := []
    tasks := [⟨"Late@G0", .released, 0, 2, 0, 1, 0, 0⟩, ⟨"B@G1", .released, 0, 9, 0, 1, 0, 0⟩]
    nOffered := 2
    setOrder := [0, 1]
    enforceDeadlines := false, retract := false }

/-- **Not every offered task is answered**: `Late` is offered, not cancelled, the call builds a
model and does not raise — and no assignment `σ` decodes to any decision for it. -/
theorem unanswered_counterexample :
    exLate.wf = true ∧ exLate.noModel = false ∧ exLate.raises = false ∧ (0 : Nat) < exLate.nOffered ∧
    exLate.active 0 = true ∧ ∀ σ, ∀ d ∈ decodeB exLate σ, d.task ≠ 0 := by
  refine ⟨by decide, by decide, by decide, by decide, by decide, ?_⟩
  intro σ d hd h0
  rcases decision_origin hd with ⟨_, _, ha⟩ | ⟨_, bi, hb, hm⟩
  · rw [h0] at ha
    exact absurd ha (by decide)
  · rw [h0] at hm
    have hbi : bi < 1 := (mem_free.mp hb).1
    have : bi = 0 := by omega
    subst this
    exact absurd hm (by decide)

/-- Finding C10-TETRI-B3: one 1-CPU worker; A(4) B(4) C(5) D(9) share a batch-2 strategy of 3 µs,
R (another profile, runtime 8, deadline 5) is RUNNING on the worker; no enforcement.  The batches
are `{A,B}`, `{B,C}`, `{C,D}` (deadlines 4, 4, 5) and the RUNNING `{R}` (5): capacity rows exist
for the slots 0..5, variables for the slots 0..9. -/
def exHorizon : BInst :=
  { now := 0, disc := 1, planAheadOpt := -1
    workers := [⟨"W0", "P0", [("CPU", 1)]⟩]
    profiles := [⟨"PR0", [⟨3, 2, [("CPU", 1)]⟩]⟩, ⟨"PR1", [⟨8, 1, [("CPU", 1)]⟩]⟩]
    prevStrats := [⟨8, 1, [("CPU", 1)]⟩]
    tasks := [⟨"A@G0", .released, 0, 4, 0, 1, 0, 0⟩, ⟨"B@G1", .released, 0, 4, 0, 1, 0, 0⟩,
              ⟨"C@G2", .released, 0, 5, 0, 1, 0, 0⟩, ⟨"D@G3", .released, 0, 9, 0, 1, 0, 0⟩,
              ⟨"R@G4", .running, 0, 5, 1, 0, 0, 8⟩]
    nOffered := 4
    setOrder := [0, 1, 2, 3, 4]
    enforceDeadlines := false, retract := false }

/-- Both free batches `{A,B}` (index 0) and `{C,D}` (index 2) start at slot 6. -/
def sigmaHorizon : BVar → Int
  | .cell 0 0 6 => 1
  | .cell 2 0 6 => 1
  | .isPlaced 0 => 1
  | .isPlaced 2 => 1
  | .reward 0 => 2448
  | .reward 2 => 2448
  | _ => 0

theorem exHorizon_facts : exHorizon.wf = true ∧ exHorizon.noModel = false ∧ exHorizon.raises = false ∧
    exHorizon.nSlotsR = 6 ∧ exHorizon.nSlotsV = 10 := by decide

/-- **The capacity guarantee stops where the capacity rows stop**: a feasible point of the model
whose decoded plan needs 3 CPUs of the 1-CPU worker at slot 6 (two batches and the RUNNING task),
a slot that carries variables but no capacity row. -/
theorem horizon_counterexample :
    sat sigmaHorizon (genB exHorizon) ∧ exHorizon.nSlotsR ≤ 6 ∧ 6 < exHorizon.nSlotsV ∧
    exHorizon.batchLoad sigmaHorizon 0 6 "CPU" = 3 ∧ qty (exHorizon.worker 0).res "CPU" = 1 := by
  decide

/-- Non-vacuity of `batch_charged_once` / `members_share_placement`: a feasible point of a
well-formed instance in which a two-member batch is placed; both members are answered with the
batch's cell and the batch is charged once (load 1 of 1 CPU at slot 3; `Urgent` stays unplaced). -/
example : ∃ σ, sat σ (genB exTight) ∧ exTight.wf = true ∧
    exTight.chosen σ 1 = some (0, 1) ∧
    exTight.batchLoad σ 0 3 "CPU" = 1 := by
  refine ⟨fun v => match v with
    | .cell 1 0 1 => 1 | .isPlaced 1 => 1 | .reward 1 => 204 * 39 | .notPlaced 0 => -1 | _ => 0, ?_⟩
  decide

end ErdosVerif.C10_TetriBatch
