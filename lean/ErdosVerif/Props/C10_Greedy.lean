import ErdosVerif.Props.C13
import ErdosVerif.Lemmas.GreedyOk
import ErdosVerif.Lemmas.GreedyCopy
import ErdosVerif.Lemmas.LedgerByName
/-!
# C10 (greedy clauses) — EDF / FIFO / LSF return a complete, feasible decision

Model: `ErdosVerif.Model.Greedy`. `schedule cfg offer live = .ok r`: see `Props/C13.lean`.
Clauses: at most one decision per task, only offered tasks, every offered task answered;
every placement names an existing pool, a strategy of the task, the invocation time (which is
not before the release of an offered task); all placements together with what is already
running keep every worker within its capacity (the virtual cluster at return satisfies the
ledger invariant and *is* the copy of the live cluster charged with the reported placements).

Side-effect freedom is structural in the model (`schedule` is a function of immutable values
and returns decisions only); the tie to the code is the suite, which snapshots every getter
of the live cluster and every task field before and after the real call.

LSF: finding D13 (the virtual cluster was charged with another strategy than the reported one, so
the reported placements could over-commit a worker) is fixed in /repo 366b4de; `jointly_feasible`
holds for all three policies.
-/
namespace ErdosVerif.C10_Greedy
open ErdosVerif.Model ErdosVerif.Model.Greedy

/-- The answered tasks are exactly the offered tasks, each as often as it was offered. -/
theorem decisions_perm_offer (cfg : Cfg) (offer : List Offered) (live : List Pool) (r : Result)
    (h : schedule cfg offer live = .ok r) :
    (r.placements.map (·.task)).Perm (offer.map (·.id)) := by
  rw [C13.decisions_in_order cfg offer live r h]
  exact ((C13.order_is_stable_sort cfg offer live r h).1).map _

/-- At most one decision per task (`get_schedulable_tasks` offers a task once). -/
theorem one_decision (cfg : Cfg) (offer : List Offered) (live : List Pool) (r : Result)
    (h : schedule cfg offer live = .ok r) (hnd : (offer.map (·.id)).Nodup) :
    (r.placements.map (·.task)).Nodup :=
  (decisions_perm_offer cfg offer live r h).nodup_iff.mpr hnd

/-- Decisions only for offered tasks. -/
theorem only_offered (cfg : Cfg) (offer : List Offered) (live : List Pool) (r : Result)
    (h : schedule cfg offer live = .ok r) : ∀ d ∈ r.placements, ∃ o ∈ offer, o.id = d.task := by
  intro d hd
  have : d.task ∈ offer.map (·.id) :=
    (decisions_perm_offer cfg offer live r h).mem_iff.mp (List.mem_map.mpr ⟨d, hd, rfl⟩)
  obtain ⟨o, ho, he⟩ := List.mem_map.mp this
  exact ⟨o, ho, he⟩

/-- Every offered task is answered. -/
theorem answers_all (cfg : Cfg) (offer : List Offered) (live : List Pool) (r : Result)
    (h : schedule cfg offer live = .ok r) : ∀ o ∈ offer, ∃ d ∈ r.placements, d.task = o.id := by
  intro o ho
  have : o.id ∈ r.placements.map (·.task) :=
    (decisions_perm_offer cfg offer live r h).mem_iff.mpr (List.mem_map.mpr ⟨o, ho, rfl⟩)
  obtain ⟨d, hd, he⟩ := List.mem_map.mp this
  exact ⟨d, hd, he⟩

/-- Every decision `d` (given for the offered task `o`) is a cancellation, a "not placed"
answer, or a placement naming an existing pool of the cluster, a strategy from the task's own
list, the invocation time, and no worker. -/
theorem placement_wellformed (cfg : Cfg) (offer : List Offered) (live : List Pool) (r : Result)
    (h : schedule cfg offer live = .ok r) :
    r.placements.length = r.order.length ∧
    ∀ o d, (o, d) ∈ r.order.zip r.placements → o ∈ offer ∧ Wf cfg live.length o d := by
  obtain ⟨hc, _, ho, hr⟩ := schedule_ok cfg offer live r h
  refine ⟨run_length cfg _ _ _ _ hr, ?_⟩
  intro o d hm
  have hw := run_wf cfg r.virt0 r.order r.placements r.virt hr o d hm
  rw [copyPools_length live r.virt0 hc] at hw
  refine ⟨?_, hw⟩
  have := (List.of_mem_zip hm).1
  rw [ho] at this
  exact (mem_sortBy o offer).mp this

/-- Placement time: the invocation time, hence not before now, and not before the release of
the task whenever the offer only contains tasks released by now (what
`get_schedulable_tasks` with lookahead 0 guarantees for RELEASED tasks). -/
theorem placement_time (cfg : Cfg) (offer : List Offered) (live : List Pool) (r : Result)
    (h : schedule cfg offer live = .ok r) (hrel : ∀ o ∈ offer, o.task.release ≤ cfg.now) :
    ∀ o d, (o, d) ∈ r.order.zip r.placements → ∀ τ, d.time = some τ →
      τ = cfg.now ∧ o.task.release ≤ τ := by
  intro o d hm τ hτ
  obtain ⟨hoff, _, _, hw⟩ := (placement_wellformed cfg offer live r h).2 o d hm
  rcases hw with ⟨_, _, _, ht⟩ | ⟨_, _, _, ht⟩ | ⟨_, i, s, _, _, _, _, ht⟩
  · rw [ht] at hτ; cases hτ
  · rw [ht] at hτ; cases hτ
  · rw [ht] at hτ; cases hτ
    exact ⟨rfl, hrel o hoff⟩

/-- **jointly_feasible** — EDF, FIFO and LSF. The copy the policy plans on and the virtual
cluster at return satisfy the ledger invariant; availability only went down; and the virtual
cluster at return is exactly the copy of the live cluster — running tasks included — charged in
order with the reported placements through the ledger API.  So the reported placements, performed
in order on the live occupancy, all succeed and leave a consistent ledger. -/
theorem jointly_feasible (cfg : Cfg) (offer : List Offered) (live : List Pool) (r : Result)
    (h : schedule cfg offer live = .ok r) (hinv : ClusterInv live) :
    ClusterInv r.virt0 ∧ ClusterInv r.virt ∧ ClusterLe r.virt r.virt0 ∧
    accountAll r.virt0 r.order r.placements = r.virt := by
  obtain ⟨hc, _, _, hr⟩ := schedule_ok cfg offer live r h
  have h0 := copyPools_inv live r.virt0 hinv hc
  have h1 := run_le cfg r.virt0 r.order r.placements r.virt h0 hr
  exact ⟨h0, h1.1, h1.2, C13.reported_accounting cfg offer live r h hinv⟩

/-- **The plan starts from the live occupancy**: the copy the policy plans on has the same pools
and workers as the live cluster, with the same totals, the same availability per resource type and
the same resident (running) tasks — so "charged to `r.virt0`" in `jointly_feasible` means "together
with the already running tasks". -/
theorem plans_on_live_occupancy (cfg : Cfg) (offer : List Offered) (live : List Pool) (r : Result)
    (h : schedule cfg offer live = .ok r) (hinv : ClusterInv live) :
    r.virt0.length = live.length ∧
    ∀ (i : Nat) p p0, live[i]? = some p → r.virt0[i]? = some p0 → SamePool p0 p :=
  copyPools_same live r.virt0 hinv (schedule_ok cfg offer live r h).1

/-- Consequence for every worker of the virtual cluster at return and every resource type:
what is held (by running tasks and by the new placements) never exceeds the capacity, and
available + held = capacity. -/
theorem within_capacity (cfg : Cfg) (offer : List Offered) (live : List Pool) (r : Result)
    (h : schedule cfg offer live = .ok r) (hinv : ClusterInv live) :
    ∀ p ∈ r.virt, ∀ w ∈ p.workers, ∀ n : String,
      byName w.res.avail n + allocByName w.res.allocs n = byName w.res.total n ∧
      allocByName w.res.allocs n ≤ byName w.res.total n := by
  obtain ⟨hc, _, _, hr⟩ := schedule_ok cfg offer live r h
  have h0 := copyPools_inv live r.virt0 hinv hc
  have h1 := (run_le cfg r.virt0 r.order r.placements r.virt h0 hr).1
  intro p hp w hw n
  have := Resources.conserve_byName w.res (h1 p hp w hw) n
  exact ⟨this, by omega⟩

/-- A placed task's strategy really fitted a worker of the pool it names, in the virtual
cluster reached after the tasks processed before it. -/
theorem placed_fits (cfg : Cfg) (offer : List Offered) (live : List Pool) (r : Result)
    (h : schedule cfg offer live = .ok r) (pre post : List Offered) (t : Offered)
    (hsplit : r.order = pre ++ t :: post) (d : PlacementS) (hd : r.placements[pre.length]? = some d)
    (i : Nat) (s : Strategy) (hp : d.pool = some i) (hst : d.strat = some s) :
    ∃ dpre Vpre p, run cfg r.virt0 pre = .ok (dpre, Vpre) ∧ Vpre[i]? = some p ∧
      p.canAccommodate s = true := by
  obtain ⟨_, _, _, hr⟩ := schedule_ok cfg offer live r h
  rw [hsplit] at hr
  obtain ⟨dpre, Vpre, db, h1, h2, hds, hl⟩ := run_append cfg r.virt0 pre (t :: post) _ _ hr
  obtain ⟨d', Vt, dpost, hstep, _, rfl⟩ := run_cons cfg Vpre t post db r.virt h2
  have hd' : d' = d := by
    rw [hds, ← hl, List.getElem?_append_right (Nat.le_refl _)] at hd
    simpa using hd
  subst hd'
  rcases step_cases cfg Vpre t d' Vt hstep with ⟨_, rfl, _⟩ | ⟨_, _, rfl, _⟩ | ⟨s', i', p, p', b, _, hc, hpi, _, rfl, _⟩
  · simp [cancelP] at hp
  · simp [unplacedP] at hp
  · simp only [placedP, Option.some.injEq] at hp hst
    subst hp; subst hst
    obtain ⟨_, _, _, _, hf⟩ := choose_some Vpre _ s' i' hc
    obtain ⟨j, q, hij, hq, hcq, _⟩ := firstPool_some s' Vpre 0 i' hf
    have : j = i' := by omega
    subst this
    exact ⟨dpre, Vpre, q, h1, hq, hcq⟩

/-! ### returns normally -/

/-- **Returns normally** on what the loaders build: every offered task has at least one strategy,
all strategies are plain `ExecutionStrategy` objects whose requirement has one entry per resource
name (`NiceTask`); `copy(worker_pools)` succeeds (C04: it does for clusters whose resources carry
concrete ids) and the LSF keys are defined (`lsf_keys_defined`). No hypothesis on occupancy,
deadlines, releases or the policy. -/
theorem returns_normally (cfg : Cfg) (offer : List Offered) (live V0 : List Pool)
    (hcopy : copyPools live = .ok V0) (hkey : keyError? cfg offer = none)
    (hn : ∀ o ∈ offer, NiceTask o) : ∃ r, schedule cfg offer live = .ok r :=
  schedule_ok_of_nice cfg offer live V0 hcopy hkey hn

/-- The sort keys never raise for EDF / FIFO, and for LSF when every offered task is RELEASED or
VIRTUAL with a strategy, or PREEMPTED with a recorded remaining time. -/
theorem lsf_keys_defined (cfg : Cfg) (offer : List Offered)
    (h : ∀ o ∈ offer, (o.task.strategies ≠ [] ∧ (o.task.state = .released ∨ o.task.state = .virtual)) ∨
      o.task.remaining.isSome ∧ o.task.state = .preempted) : keyError? cfg offer = none :=
  keyError_none cfg offer h

/-- The witness offer is `NiceTask` throughout (the hypothesis is satisfiable with multi-strategy
tasks and contention). -/
example : ∀ o ∈ Witness.offer, NiceTask o := by
  intro o ho
  simp only [Witness.offer, List.mem_cons, List.not_mem_nil, or_false] at ho
  rcases ho with rfl | rfl | rfl <;>
    refine ⟨by simp [Witness.mkTask], ?_⟩ <;>
    intro s hs <;>
    simp only [Witness.mkTask, List.mem_cons, List.not_mem_nil, or_false] at hs
  · rcases hs with rfl | rfl <;> exact ⟨rfl, by unfold Resources.NiceReq; decide⟩
  · subst hs; exact ⟨rfl, by unfold Resources.NiceReq; decide⟩
  · subst hs; exact ⟨rfl, by unfold Resources.NiceReq; decide⟩

/-! ### the former D13 witness -/

open Witness in
/-- On the input of the former finding D13 (LSF reported A and C both on the single GPU; fixed in
/repo 366b4de) every reported placement of LSF now fits the cluster charged with the earlier
reported placements: C is left unplaced and does not fit after A and B. -/
example :
    ∃ r, schedule (cfg .lsf) offer live = .ok r ∧
      (summary r == [(⟨0, 0⟩, some 0, some 0), (⟨1, 0⟩, some 0, some 2), (⟨2, 0⟩, none, none)]
        && !fitsSomewhere (accountAll r.virt0 (r.order.take 2) (r.placements.take 2)) sC) = true :=
  ok_of_match _ _ (by decide)

/-! ### non-vacuity -/

open Witness in
/-- EDF on the witness returns normally with three decisions, the hypotheses of the theorems
above hold for it (`C13`'s example shows `ClusterInv live`; the offer ids are distinct). -/
example : (∃ r, schedule (cfg .edf) offer live = .ok r ∧ (r.placements.length == 3) = true) ∧
    (offer.map (·.id)).Nodup :=
  ⟨ok_of_match _ _ (by decide), by decide⟩

/-- A partially occupied cluster: task 7 runs on the CPU worker of the witness pool; EDF then
leaves B unplaced (and A takes the GPU). -/
example :
    let liveBusy := Witness.live.map (fun p => (p.placeTask 7 [Witness.sB] (some Witness.sB) (some 0)).1)
    ∃ r, schedule (Witness.cfg .edf) Witness.offer liveBusy = .ok r ∧
      (Witness.summary r == [(⟨0, 0⟩, some 0, some 0), (⟨1, 0⟩, none, none), (⟨2, 0⟩, none, none)]) = true :=
  ok_of_match _ _ (by decide)

end ErdosVerif.C10_Greedy
