import ErdosVerif.Lemmas.SimInv
/-!
# C05 — every simulation terminates; it does not end while work remains

What is *proved* here (for all inputs): the decision logic of
`Simulator.__get_next_scheduler_event` (`Sim.restart`, the pure function the model's
`nextSchedulerEvent` delegates to after gathering what the source reads) never
schedules the scheduler in the past, never at the same instant when the scheduler
frequency is ≤ 0, never at or after the loop timeout, and produces SIMULATOR_END
before the timeout only when no event, no schedulable task and no placed task is left;
together with clock monotonicity (C03) this is the "time keeps advancing / stops no
later than the timeout / does not stop early" skeleton of the property.

What is *not* proved (PARTIAL): termination of the whole loop for every world, and
"feasible work is always finished under a work-conserving policy" — these need a
well-founded measure over the event queue and a model of the policies; they are decided
by exploration only (the watchdog and end-state oracles of the C05 suite over runs of
the real simulator, which are replayed through this model).
-/
namespace ErdosVerif.C05
open ErdosVerif.Model ErdosVerif.Model.Sim

/-- The restart decision is SIMULATOR_END or SCHEDULER_START. -/
theorem restart_kind (f : SimFlags) (l ev : Int) (i : RestartIn) :
    (restart f l ev i).1 = ET.simulatorEnd ∨ (restart f l ev i).1 = ET.schedulerStart := by
  unfold restart
  simp only []
  repeat' split
  all_goals first | exact Or.inl rfl | exact Or.inr rfl

/-- **The scheduler is never restarted in the past, never at or after the loop timeout,
and strictly later than the triggering event when the frequency is ≤ 0** (no
same-instant SCHEDULER_FINISHED → SCHEDULER_START cycle); with a positive frequency it
is at least one period after the previous start. For all flags, times and inputs. -/
theorem restart_start_bounds (f : SimFlags) (l ev : Int) (i : RestartIn)
    (h : (restart f l ev i).1 = ET.schedulerStart) :
    ev ≤ (restart f l ev i).2 ∧ (restart f l ev i).2 < f.loopTimeout ∧
    (f.schedFrequency ≤ 0 → ev < (restart f l ev i).2) ∧
    (0 < f.schedFrequency → l + f.schedFrequency ≤ (restart f l ev i).2) := by
  revert h
  unfold restart
  simp only [ET.simulatorEnd, ET.schedulerStart]
  repeat' split
  all_goals simp only [bne_iff_ne, ne_eq, reduceCtorEq, Nat.reduceEqDiff, false_implies, forall_const] at *
  all_goals (try omega)

/-- **The run is ended no later than the loop timeout**: a SIMULATOR_END decided here
is never after the timeout. -/
theorem restart_end_by_timeout (f : SimFlags) (l ev : Int) (i : RestartIn)
    (h : (restart f l ev i).1 = ET.simulatorEnd) : (restart f l ev i).2 ≤ f.loopTimeout := by
  revert h
  unfold restart
  simp only [ET.simulatorEnd, ET.schedulerStart]
  repeat' split
  all_goals simp only [bne_iff_ne, ne_eq, reduceCtorEq, Nat.reduceEqDiff, false_implies, forall_const] at *
  all_goals (try omega)

/-- **It never ends early while work remains**: SIMULATOR_END before the timeout is
decided only when the event queue is empty, nothing is schedulable and nothing is
placed or planned — and then it is the very next instant. -/
theorem restart_end_only_when_idle (f : SimFlags) (l ev : Int) (i : RestartIn)
    (h : (restart f l ev i).1 = ET.simulatorEnd) :
    (restart f l ev i).2 = f.loopTimeout ∨
    (i.queueEmpty = true ∧ i.schedEmpty = true ∧ i.runningEmpty = true ∧ (restart f l ev i).2 = ev + 1) := by
  revert h
  unfold restart
  simp only [ET.simulatorEnd, ET.schedulerStart]
  repeat' split
  all_goals simp only [bne_iff_ne, ne_eq, reduceCtorEq, Nat.reduceEqDiff, false_implies, forall_const,
    Bool.and_eq_true] at *
  all_goals first
    | exact Or.inl trivial
    | (right; simp_all)

/-- With `scheduler_run_at_worker_free` the restart waits for the earliest estimated
completion but is never pulled before the regular restart time. -/
theorem restart_worker_free (f : SimFlags) (l ev : Int) (i : RestartIn)
    (hw : f.runAtWorkerFree = true) (hr : i.runningEmpty = false)
    (h : (restart f l ev i).1 = ET.schedulerStart) :
    i.minCompletion + 1 ≤ (restart f l ev i).2 := by
  revert h
  unfold restart
  simp only [ET.simulatorEnd, ET.schedulerStart, hw, hr]
  repeat' split
  all_goals simp only [bne_iff_ne, ne_eq, reduceCtorEq, Nat.reduceEqDiff, false_implies, forall_const,
    Bool.and_eq_true, Bool.not_false, Bool.and_self, Bool.and_false, Bool.false_eq_true] at *
  all_goals first | omega | simp_all

/-- Simulated time never moves backwards along any run (C03's invariant, restated
because "time keeps advancing" is half of this property). -/
theorem clock_never_backwards (s0 : SimS) (fuel : Nat) (h : Inv s0) :
    ((simulate s0 fuel).2.log.toList.filterMap clockOf).Pairwise (· ≤ ·) :=
  (simulate_inv s0 fuel h).2.1.1

/-- Non-vacuity: concrete decisions of each kind. -/
example :
    let f : SimFlags := { loopTimeout := 100, schedFrequency := 0 }
    let busy : RestartIn := ⟨false, false, false, 50, false, false, false, 60, 70⟩
    let idle : RestartIn := ⟨true, true, true, 50, false, false, false, 60, 70⟩
    restart f 0 10 busy = (ET.schedulerStart, 11) ∧ restart f 0 10 idle = (ET.simulatorEnd, 11) ∧
    restart f 0 99 busy = (ET.simulatorEnd, 100) := by decide

end ErdosVerif.C05
