/-
C12 (TetriSched clauses, both formulations): with `enforce_deadlines`

* every cell `(worker, slot, strategy)` with `slot + runtime > deadline` is the constant 0 —
  it carries no solver variable (`late_cell_constant`, `late_cell_no_var`) — so whatever
  assignment the solver returns (feasible or not), any chosen cell meets the deadline
  (`chosen_meets_deadline`) and every placement returned by `schedule()` completes by the
  deadline (`decision_meets_deadline`);
* a hopeless task (`deadline < now + fastest runtime`) has no variable cell at all
  (`hopeless_no_cell`): the Gurobi formulation returns it unplaced (`hopeless_unplaced`), the
  CPLEX scheduler answers it with a cancellation and gives it no other decision
  (`hopeless_cancelled`), also when no model is built or the solver finds nothing
  (`hopeless_cancelled_fail`);
* the boundary `deadline = now + fastest` is not cancelled (`cancel_only_hopeless`).

All statements quantify over every assignment `σ`; none needs `sat`, because the guarantee is
structural (the offending cells do not exist), which is exactly the mechanism the property
names ("space-time cells past the deadline are fixed to 0").
-/
import ErdosVerif.Lemmas.TetriDecode
namespace ErdosVerif.C12_Tetri
open ErdosVerif.Mip ErdosVerif.Tetri ErdosVerif.TetriSpec

/-- A cell whose completion would be after the deadline is not a variable … -/
theorem late_cell_no_var {I : Inst} {t w k s : Nat} (he : I.enforceDeadlines = true)
    (hl : I.slot k + (I.runtime t s : Nat) > (I.task t).deadline) : I.hasVar t w k s = false := by
  simp [Inst.hasVar, Inst.cellOk, he, hl]

/-- … it is the constant 0 in every row and in the objective. -/
theorem late_cell_constant {I : Inst} {t w k s : Nat} (hr : I.running t = false)
    (he : I.enforceDeadlines = true)
    (hl : I.slot k + (I.runtime t s : Nat) > (I.task t).deadline) :
    I.cellE t w k s = LinExpr.ofConst 0 := by
  simp [Inst.cellE, hr, Inst.cellOk, he, hl]

/-- **C12, model level.** Whatever the assignment, the chosen cell of a task meets its deadline. -/
theorem chosen_meets_deadline {I : Inst} (σ : Var → Int) {t w k s : Nat}
    (he : I.enforceDeadlines = true) (hc : I.chosen σ t = some (w, k, s)) :
    I.slot k + (I.runtime t s : Nat) ≤ (I.task t).deadline :=
  (hasVar_spec (chosen_spec hc).2.1).2.2.2 he

/-- **C12, decision level.** Every placement returned by `schedule()` (decoded from any
assignment) completes by the task's deadline. -/
theorem decision_meets_deadline {I : Inst} (σ : Var → Int) (he : I.enforceDeadlines = true)
    {d : Decision} (hd : d ∈ decode I σ) {w s : Nat} {time : Int} (hp : d.out = .placed w s time) :
    time + (I.runtime d.task s : Nat) ≤ (I.task d.task).deadline := by
  rcases mem_decode.mp hd with ⟨t, _, rfl⟩ | ⟨t, _, rfl⟩
  · simp at hp
  · obtain ⟨k, hc, rfl⟩ := decodeTask_placed hp
    simpa using chosen_meets_deadline σ he hc

/-- A hopeless task has no variable cell on any worker, at any slot, with any strategy. -/
theorem hopeless_no_cell {I : Inst} {t : Nat} (hh : I.hopeless t = true) (w k : Nat) {s : Nat}
    (hs : s < (I.task t).nS) : I.hasVar t w k s = false := by
  simp only [Inst.hopeless, Bool.and_eq_true, decide_eq_true_eq] at hh
  apply late_cell_no_var hh.1
  have h1 := slot_ge_now I k
  have h2 := fastest_le (I := I) (t := t) hs
  omega

/-- **C12, hopeless tasks (Gurobi formulation; also any hopeless task that reaches a model).**
The task is returned unplaced, whatever the solver's assignment. -/
theorem hopeless_unplaced {I : Inst} (σ : Var → Int) {t : Nat} (hh : I.hopeless t = true) :
    I.decodeTask σ t = ⟨t, .unplaced⟩ := by
  apply decodeTask_unplaced
  cases hc : I.chosen σ t with
  | none => rfl
  | some q =>
    obtain ⟨hk, hv, _⟩ := chosen_spec hc
    have := hopeless_no_cell hh q.1 q.2.1 (mem_keys.mp hk).2.2
    simp [this] at hv

/-- In the Gurobi formulation every offered hopeless task that is not RUNNING is answered,
and answered "not placed". -/
theorem hopeless_unplaced_G {I : Inst} (σ : Var → Int) (hG : I.cplex = false) {t : Nat} (ht : t < I.nT)
    (hr : I.running t = false) (hh : I.hopeless t = true) :
    (⟨t, .unplaced⟩ : Decision) ∈ decode I σ ∧ ∀ d ∈ decode I σ, d.task = t → d.out = .unplaced := by
  have hact : I.active t = true := by simp [Inst.active, hG]
  constructor
  · exact mem_decode.mpr (Or.inr ⟨t, mem_nonRunning.mpr ⟨ht, hact, hr⟩, (hopeless_unplaced σ hh).symm⟩)
  · intro d hd hdt
    rcases mem_decode.mp hd with ⟨t', ht', rfl⟩ | ⟨t', _, rfl⟩
    · simp only at hdt; subst hdt
      simp [mem_cancelled, hact] at ht'
    · simp only [decodeTask_task] at hdt; subst hdt
      rw [hopeless_unplaced σ hh]

/-- **C12, hopeless tasks (CPLEX scheduler).** An offered hopeless task is answered with a
cancellation and receives no other decision. -/
theorem hopeless_cancelled {I : Inst} (σ : Var → Int) (hC : I.cplex = true) {t : Nat}
    (ht : t < I.nOffered) (hh : I.hopeless t = true) :
    (⟨t, .cancel⟩ : Decision) ∈ decode I σ ∧ ∀ d ∈ decode I σ, d.task = t → d.out = .cancel := by
  have hact : I.active t = false := by simp [Inst.active, hC, ht, hh]
  constructor
  · exact mem_decode.mpr (Or.inl ⟨t, mem_cancelled.mpr ⟨ht, hact⟩, rfl⟩)
  · intro d hd hdt
    rcases mem_decode.mp hd with ⟨t', _, rfl⟩ | ⟨t', ht', rfl⟩
    · rfl
    · simp only [decodeTask_task] at hdt; subst hdt
      have := (mem_nonRunning.mp ht').2.1
      simp [hact] at this

/-- The same when the solver finds no solution or when no model is built at all. -/
theorem hopeless_cancelled_fail {I : Inst} (hC : I.cplex = true) {t : Nat}
    (ht : t < I.nOffered) (hh : I.hopeless t = true) :
    (⟨t, .cancel⟩ : Decision) ∈ decodeFail I ∧ (⟨t, .cancel⟩ : Decision) ∈ decodeNoModel I := by
  have hact : I.active t = false := by simp [Inst.active, hC, ht, hh]
  have hm : t ∈ I.cancelled := mem_cancelled.mpr ⟨ht, hact⟩
  constructor
  · simp only [decodeFail, List.mem_append, List.mem_map]
    exact Or.inl ⟨t, hm, rfl⟩
  · simp only [decodeNoModel, List.mem_map]
    exact ⟨t, hm, rfl⟩

/-- Only hopeless tasks are cancelled: at the boundary `deadline = now + fastest` (and beyond)
the task reaches the model. -/
theorem cancel_only_hopeless {I : Inst} (σ : Var → Int) {d : Decision} (hd : d ∈ decode I σ)
    (hc : d.out = .cancel) :
    I.cplex = true ∧ d.task < I.nOffered ∧ I.enforceDeadlines = true ∧
    (I.task d.task).deadline < I.now + (I.fastest d.task : Nat) := by
  rcases mem_decode.mp hd with ⟨t, ht, rfl⟩ | ⟨t, _, rfl⟩
  · obtain ⟨hto, hact⟩ := mem_cancelled.mp ht
    simp only [Inst.active, Bool.not_eq_false', Bool.and_eq_true, decide_eq_true_eq, Inst.hopeless] at hact
    exact ⟨hact.1.1, hto, hact.2.1, hact.2.2⟩
  · exact absurd hc (decodeTask_ne_cancel I σ t)

/-! ### Non-vacuity: concrete instances -/

/-- One worker (CPU 2), `now = 2`, discretisation 2, two offered tasks: `T0` (runtime 3 or 5,
deadline 9) and the hopeless `T1` (runtime 4, deadline 5 < 2 + 4). -/
def exInst (cplex : Bool) : Inst :=
  { cplex := cplex, now := 2, disc := 2, planAheadOpt := -1
    workers := [⟨"W0", "P0", [("CPU", 2)]⟩]
    tasks := [⟨"T0@G0", "T0", 0, "G0", .released, 1, 9, [⟨3, [("CPU", 1)]⟩, ⟨5, [("CPU", 2)]⟩], 0, 0, 0⟩,
              ⟨"T1@G1", "T1", 0, "G1", .released, 1, 5, [⟨4, [("CPU", 1)]⟩], 0, 0, 0⟩]
    nOffered := 2
    nodes := [⟨"T0@G0", "T0", 0, "G0"⟩, ⟨"T1@G1", "T1", 0, "G1"⟩]
    edges := []
    enforceDeadlines := true, retract := false, releaseTaskgraphs := false }

/-- `T0` at slot index 1 (time 4) with the slow strategy: finishes exactly at its deadline 9. -/
def exSigma : Var → Int
  | .cell 0 0 1 1 => 1
  | _ => 0

example : (exInst false).hopeless 1 = true := by decide
example : (exInst false).hopeless 0 = false := by decide
example : (exInst false).nSlots = 5 := by decide
example : decode (exInst false) exSigma = [⟨0, .placed 0 1 4⟩, ⟨1, .unplaced⟩] := by decide
example : decode (exInst true) exSigma = [⟨1, .cancel⟩, ⟨0, .placed 0 1 4⟩] := by decide
/-- The boundary `slot + runtime = deadline` is a variable cell, one slot later is not. -/
example : (exInst false).hasVar 0 0 1 1 = true ∧ (exInst false).hasVar 0 0 2 1 = false := by decide

end ErdosVerif.C12_Tetri
