import ErdosVerif.Lemmas.SimInv
/-!
# C02 — tasks start only after release and after their predecessors finish

Models: `Model/Task.lean` (the `Task` state machine), `Model/TaskGraph.lean`
(`is_ready_to_run`, completion notification, cancellation), `Model/Sim.lean` (the
simulator loop, whose only way to start a task — `startTask` — demands a proof of
`is_ready_to_run`, exactly as `simulator.py` tests it before `Task.start`).

"Has started" is `RUNNING ∨ EVICTED ∨ COMPLETED`. COMPLETED / EVICTED are final and
`release` refuses a task that has started, so "the predecessors are complete *now*
and `release ≤ start` *now*" is the same as "when the task started".
-/
namespace ErdosVerif.C02
open ErdosVerif.Model ErdosVerif.Model.Sim

/-- **At every instant of every run** (any workload DAGs, any decision tape — including
placements in the future for unreleased tasks —, any draws, any flags, normal or aborted
runs), every task that has started was released no later than it started, and

* a non-terminal task has **all** its predecessors complete;
* a terminal (join) task has at least one predecessor complete — this is what
  `is_ready_to_run` tests, and it is weaker than "the branch that was taken"; see
  `join_partial` below and known finding C02-J1. -/
theorem started_after_release_and_parents (s0 : SimS) (fuel : Nat) (h : Inv s0) :
    ∀ g ∈ (simulate s0 fuel).2.graphs.toList, ∀ n t, g.task? n = some t → t.started = true →
      t.release ≤ t.start ∧
      (if t.terminal then (g.pars n).any g.completeOf else (g.pars n).all g.completeOf) = true := by
  intro g hg n t ht hs
  exact ((simulate_inv s0 fuel h).2.2.1 g hg).started n t ht hs

/-- Full-strength corollary for every non-join task. -/
theorem started_after_all_parents (s0 : SimS) (fuel : Nat) (h : Inv s0) :
    ∀ g ∈ (simulate s0 fuel).2.graphs.toList, ∀ n t, g.task? n = some t → t.started = true →
      t.terminal = false → ∀ p ∈ g.pars n, g.completeOf p = true := by
  intro g hg n t ht hs hterm p hp
  have := (started_after_release_and_parents s0 fuel h g hg n t ht hs).2
  simp only [hterm, Bool.false_eq_true, if_false, List.all_eq_true] at this
  exact this p hp

/-- What is proved for the join of a conditional is only "some branch has completed";
the property asks for "the branch that was taken has completed". The code tests the
former (`any(parent.is_complete())`), which differs when the taken branch forks before
the join (known finding C02-J1, reproduced on the implementation by the C02 oracle). -/
theorem join_partial (s0 : SimS) (fuel : Nat) (h : Inv s0) :
    ∀ g ∈ (simulate s0 fuel).2.graphs.toList, ∀ n t, g.task? n = some t → t.started = true →
      t.terminal = true → ∃ p ∈ g.pars n, g.completeOf p = true := by
  intro g hg n t ht hs hterm
  have := (started_after_release_and_parents s0 fuel h g hg n t ht hs).2
  simpa only [hterm, if_true, List.any_eq_true] using this

/-- `Task.start` itself refuses a start time earlier than the release time (and a task
that is not SCHEDULED): the state does not become RUNNING. -/
theorem start_before_release_refused (t : TaskS) (time fuzzed : Int) (h : time < t.release) :
    (t.doStart time fuzzed).2 ≠ none ∧ (t.doStart time fuzzed).1.state = t.state := by
  unfold TaskS.doStart
  split
  · exact ⟨by simp, rfl⟩
  · split
    · exact ⟨by simp, rfl⟩
    · simp [h]

/-- The simulator never preempts: no task is ever PREEMPTED in any run of the model. -/
theorem never_preempted (s0 : SimS) (fuel : Nat) (h : Inv s0) :
    ∀ g ∈ (simulate s0 fuel).2.graphs.toList, ∀ n t, g.task? n = some t → t.state ≠ .preempted := by
  intro g hg n t ht
  exact ((simulate_inv s0 fuel h).2.2.1 g hg).noPreempt n t ht

/-! ### A non-preempted task starts at most once and completes at most once -/

/-- Number of calls in the history at which the state enters the class `p`. -/
def enters (p : TState → Bool) (t : TaskS) : List TaskCall → Nat
  | [] => 0
  | c :: cs => (if !p t.state && p (t.call c).1.state then 1 else 0) + enters p (t.call c).1 cs

def isStarted (s : TState) : Bool := s == .running || s == .evicted || s == .completed
def isDone (s : TState) : Bool := s == .evicted || s == .completed

theorem notPreempt_stepOK (t : TaskS) (c : TaskCall) (h : t.PreOK) (hc : c ≠ .preempt) :
    (t.call c).1.state ≠ .preempted ∨ t.state = .preempted := by
  by_cases hp : t.state = .preempted
  · exact Or.inr hp
  left
  cases c with
  | preempt => exact absurd rfl hc
  | release time =>
    simp only [TaskS.call, TaskS.doRelease]
    split
    · exact hp
    · split
      · exact hp
      · cases time <;> simp only [] <;> split <;> first | exact hp | simp
  | schedule time p =>
    simp only [TaskS.call, TaskS.doSchedule]
    split
    · exact hp
    · cases p.strat with
      | none => simp
      | some s => simp only []; rw [(updateRemaining_state _ _).1]; simp
  | unschedule =>
    simp only [TaskS.call, TaskS.doUnschedule]
    split
    · exact hp
    · simp only []; rcases h with h | h <;> simp [h]
  | start time fuzzed =>
    simp only [TaskS.call, TaskS.doStart]
    split
    · exact hp
    · split
      · exact hp
      · split
        · exact hp
        · rw [(updateRemaining_state _ _).1]; simp
  | step now dt =>
    simp only [TaskS.call, TaskS.doStep]
    split
    · exact hp
    · split
      · exact hp
      · split
        · exact hp
        · split <;> exact hp
  | finish time =>
    simp only [TaskS.call, TaskS.doFinish]
    split
    · exact hp
    · simp only []; split <;> simp
  | cancel time =>
    simp only [TaskS.call, TaskS.doCancel]
    split
    · exact hp
    · simp
  | updateRemaining r =>
    simp only [TaskS.call]; rw [(updateRemaining_state _ _).1]; exact hp

/-- Without `preempt`, "has started" is absorbing. -/
theorem started_absorbing (t : TaskS) (c : TaskCall) (h : t.PreOK) (hc : c ≠ .preempt)
    (hs : isStarted t.state = true) : isStarted (t.call c).1.state = true := by
  rcases call_legal t c h with e | e
  · rw [← e]; exact hs
  · rcases notPreempt_stepOK t c h hc with hp | hp
    · revert e hp hs
      cases t.state <;> cases (t.call c).1.state <;> simp [Legal, isStarted]
    · rw [hp] at hs; simp [isStarted] at hs

/-- "Is complete" (COMPLETED / EVICTED) is absorbing, with or without preemption. -/
theorem done_absorbing (t : TaskS) (c : TaskCall) (h : t.PreOK)
    (hs : isDone t.state = true) : isDone (t.call c).1.state = true := by
  rcases call_legal t c h with e | e
  · rw [← e]; exact hs
  · revert e hs
    cases t.state <;> cases (t.call c).1.state <;> simp [Legal, isDone]

/-- Once a class is absorbing along the history, the state enters it at most once. -/
theorem enters_le_one (p : TState → Bool) (ok : TaskCall → Prop)
    (habs : ∀ (t : TaskS) (c : TaskCall), t.PreOK → ok c → p t.state = true → p (t.call c).1.state = true)
    (cs : List TaskCall) (hok : ∀ c ∈ cs, ok c) (t : TaskS) (h : t.PreOK) :
    enters p t cs ≤ 1 ∧ (p t.state = true → enters p t cs = 0) := by
  induction cs generalizing t with
  | nil => simp [enters]
  | cons c cs ih =>
    have hc := hok c (List.mem_cons_self ..)
    have ih' := ih (fun c hc => hok c (List.mem_cons_of_mem _ hc)) (t.call c).1 (call_preOK t c h)
    by_cases hp : p t.state = true
    · have := ih'.2 (habs t c h hc hp)
      simp [enters, hp, this]
    · by_cases hq : p (t.call c).1.state = true
      · have := ih'.2 hq
        simp [enters, hp, hq, this]
      · have := ih'.1
        simp only [enters, hq, Bool.and_false, Bool.false_eq_true, if_false, Nat.zero_add]
        exact ⟨this, fun hh => absurd hh hp⟩

/-- **A non-preempted task starts at most once**: along any history of `Task` API calls
that contains no `preempt`, the state becomes RUNNING (from a state that is not RUNNING)
at most once. -/
theorem starts_at_most_once (t : TaskS) (cs : List TaskCall) (h : t.PreOK) (hnp : ∀ c ∈ cs, c ≠ .preempt) :
    enters (· == .running) t cs ≤ 1 := by
  -- entering RUNNING is entering "started": EVICTED / COMPLETED never lead back to RUNNING
  have hle : ∀ (cs : List TaskCall) (t : TaskS), t.PreOK → (∀ c ∈ cs, c ≠ .preempt) →
      enters (· == .running) t cs ≤ enters isStarted t cs := by
    intro cs
    induction cs with
    | nil => intro t _ _; simp [enters]
    | cons c cs ih =>
      intro t h hnp
      have ih' := ih (t.call c).1 (call_preOK t c h) (fun c hc => hnp c (List.mem_cons_of_mem _ hc))
      have : (if (!(t.state == .running) && ((t.call c).1.state == .running)) = true then 1 else 0) ≤
             (if (!isStarted t.state && isStarted (t.call c).1.state) = true then 1 else 0) := by
        rcases call_legal t c h with e | e
        · rw [← e]; simp
        · revert e
          cases t.state <;> cases (t.call c).1.state <;> simp [Legal, isStarted]
      simp only [enters]
      omega
  exact Nat.le_trans (hle cs t h hnp)
    (enters_le_one isStarted (· ≠ .preempt) (fun t c hp hc hs => started_absorbing t c hp hc hs) cs hnp t h).1

/-- **A task completes at most once**: along any history of API calls the state
becomes COMPLETED / EVICTED at most once (and `finish` on a finished task is refused). -/
theorem completes_at_most_once (t : TaskS) (cs : List TaskCall) (h : t.PreOK) :
    enters isDone t cs ≤ 1 :=
  (enters_le_one isDone (fun _ => True) (fun t c hp _ hs => done_absorbing t c hp hs) cs
    (fun _ _ => trivial) t h).1

/-- Non-vacuity: a concrete history (release, schedule, start, step, finish, and a
second refused start) enters RUNNING exactly once and finishes exactly once. -/
example :
    let t : TaskS := { name := "a", conditional := false, terminal := false, prob := 1000,
                       strategies := [], profile := 0, deadline := 100 }
    let p : PlacementS := { kind := .place, task := ⟨0, 0⟩, pool := some 0, worker := some 0,
                            strat := some ⟨0, false, 1, 5, []⟩ }
    let cs : List TaskCall := [.release (some 1), .schedule 1 p, .start 2 5, .step 2 5, .finish none, .start 9 5]
    enters (· == .running) t cs = 1 ∧ enters isDone t cs = 1 := by decide

end ErdosVerif.C02
