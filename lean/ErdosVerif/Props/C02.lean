import ErdosVerif.Model.Sim
namespace ErdosVerif.C02
open ErdosVerif.Model
theorem placeholder : ET.taskFinished = 3 := rfl
end ErdosVerif.C02
