/-
C11 (ILP clause): for EVERY feasible point `σ` of the optimisation model that the ILP
scheduler builds (not only the optimum Gurobi happens to return), a task is placed only if
every predecessor that has variables in this invocation is placed, and it starts no earlier
than `parent start + runtime(chosen strategy of the parent) + 1`; for a RUNNING predecessor
no earlier than `now + runtime(strategy it runs with) + 1` (which is at least its expected
finish `now + remaining`, as `remaining ≤ runtime`).  A predecessor that is SCHEDULED in
non-retracting mode is re-optimised by the same model, has variables, and is covered by the
general clause with its *new* start.

"Placed" for a task with variables means `Σ x = 1`; a RUNNING task counts as placed.
-/
import ErdosVerif.Lemmas.IlpDecode
namespace ErdosVerif.C11_Ilp
open ErdosVerif.Mip ErdosVerif.Ilp

/-- The all-parents indicator variable is binary. -/
theorem allParents_binary {I : Inst} {σ : Var → Int} (h : sat σ (gen I)) {c : Nat} (hc : c < I.nT)
    (hr : I.running c = false) (hp : (I.parentVars c).isEmpty = false) :
    σ (.allParents c) = 0 ∨ σ (.allParents c) = 1 := by
  have hd : binDecl (.allParents c) ∈ I.vars := by
    simp only [Inst.vars, List.mem_append, List.mem_map, List.mem_filter]
    exact Or.inl (Or.inl (Or.inl (Or.inl (Or.inr ⟨c, ⟨mem_nonRunning.mpr ⟨hc, hr⟩, by simp [hp]⟩, rfl⟩))))
  have := (sat_var h hd).1 rfl
  simpa [binDecl] using this

theorem eval_parentExpr (I : Inst) (σ : Var → Int) (c : Nat) :
    (I.parentExpr c).eval σ = isum ((I.parentVars c).map (fun p => psum I σ p)) := by
  simp [Inst.parentExpr, LinExpr.eval_sumL, List.map_map, Function.comp_def, eval_sumX]

/-- `Σ x ≤ 1` for every task with or without variables (RUNNING tasks: the constants). -/
theorem psum_le_one_all {I : Inst} {σ : Var → Int} (h : sat σ (gen I)) (hwf : I.wfRunning = true)
    {t : Nat} (ht : t < I.nT) : psum I σ t ≤ 1 := by
  cases hr : I.running t with
  | false => exact psum_le_one h ht hr
  | true =>
    have := wfRunning_spec hwf ht hr
    rw [psum_running hr this.1 this.2]; omega

/-- **C11 (a), model level.** In every feasible point: if the child is placed, every parent
that has variables in this invocation is placed. -/
theorem child_placed_parents_placed {I : Inst} {σ : Var → Int} (h : sat σ (gen I))
    (hwr : I.wfRunning = true) (hwp : I.wfParents = true)
    {c p : Nat} (hc : c < I.nT) (hr : I.running c = false) (hp : p ∈ I.parentVars c)
    (hplaced : 1 ≤ psum I σ c) : psum I σ p = 1 := by
  have hne : (I.parentVars c).isEmpty = false := by
    cases hl : I.parentVars c with
    | nil => simp [hl] at hp
    | cons _ _ => simp
  have hm := mem_nonRunning.mpr ⟨hc, hr⟩
  -- all_parents_placed = 0 would force Σ x_c = 0
  have hF : Constr.ind s!"{I.tname c}_placement_False" (.allParents c) 0 (I.sumX c) .eq 0 ∈ I.constrs :=
    mem_constrs_deps hm (by simp [Inst.cDeps, hne])
  have hF' := sat_constr h hF
  simp only [Constr.holds, Sense.holds, eval_sumX] at hF'
  have hb := allParents_binary h hc hr hne
  have h1 : σ (.allParents c) = 1 := by
    rcases hb with h0 | h1
    · have := hF' h0; omega
    · exact h1
  -- hence Σ_p Σ x_p = number of all parents
  have hT : Constr.ind s!"{I.tname c}_parents_placed_True" (.allParents c) 1 (I.parentExpr c) .eq
      (I.nParents c : Int) ∈ I.constrs :=
    mem_constrs_deps hm (by simp [Inst.cDeps, hne])
  have hT' := sat_constr h hT h1
  simp only [Sense.holds, eval_parentExpr] at hT'
  have hlen := wfParents_spec hwp hc
  have hall := all_one_of_isum_eq_length (l := (I.parentVars c).map (fun p => psum I σ p))
    (by
      intro a ha
      simp only [List.mem_map] at ha
      obtain ⟨q, hq, rfl⟩ := ha
      exact psum_le_one_all h hwr (mem_parentVars.mp hq).1)
    (by rw [List.length_map, hT']; exact_mod_cast hlen)
  exact hall _ (List.mem_map.mpr ⟨p, hp, rfl⟩)

/-- **C11 (b), model level.** In every feasible point the child's start is at least the
parent's start plus the runtime of the strategy selected for the parent plus one, for every
parent with variables (for a RUNNING parent: its constants, see `after_running_parent`). -/
theorem start_after_parent {I : Inst} {σ : Var → Int} (h : sat σ (gen I))
    {c p w s : Nat} (hc : c < I.nT) (hr : I.running c = false) (hp : p ∈ I.parentVars c)
    (hw : w < I.nW) (hs : s < (I.task p).nS) (hx : xval I σ p w s = 1) :
    sval I σ p + I.runtime p s + 1 ≤ σ (.start c) := by
  have hne : (I.parentVars c).isEmpty = false := by
    cases hl : I.parentVars c with
    | nil => simp [hl] at hp
    | cons _ _ => simp
  have hm := mem_nonRunning.mpr ⟨hc, hr⟩
  have hrow : Constr.lin
      s!"{I.tname c}_start_after_{I.tname p}_on_worker_{(I.worker w).name}_with_batch_size_{((I.task p).strat s).batch}_runtime_{((I.task p).strat s).runtime}"
      (LinExpr.sub (I.startE c) (LinExpr.add (I.startE p) (LinExpr.smul (I.runtime p s + 1) (I.xE p w s))))
      .ge 0 ∈ I.constrs := by
    apply mem_constrs_deps hm
    simp only [Inst.cDeps, hne, Bool.false_eq_true, ↓reduceIte, List.mem_append, List.mem_flatMap]
    refine Or.inl ⟨p, hp, ?_⟩
    simp only [Inst.cStartAfter, List.mem_map]
    exact ⟨(w, s), mem_keys.mpr ⟨hw, hs⟩, rfl⟩
  have := sat_constr h hrow
  simp only [Constr.holds, Sense.holds, LinExpr.eval_sub, LinExpr.eval_add, LinExpr.eval_smul] at this
  have e1 : (I.startE c).eval σ = σ (.start c) := sval_var hr
  have e2 : (I.xE p w s).eval σ = 1 := hx
  have e3 : (I.startE p).eval σ = sval I σ p := rfl
  rw [e1, e2, e3] at this
  omega

/-- Even when the parent is *not* placed the child's start variable is not before the
parent's (the `x = 0` rows): kept because the phantom start of an unplaced task matters for
feasibility (see C14 findings). -/
theorem start_not_before_parent_var {I : Inst} {σ : Var → Int} (h : sat σ (gen I))
    {c p : Nat} (hc : c < I.nT) (hr : I.running c = false) (hp : p ∈ I.parentVars c)
    (hw : 0 < I.nW) (hs : 0 < (I.task p).nS) (hpt : p < I.nT) :
    sval I σ p ≤ σ (.start c) := by
  have hne : (I.parentVars c).isEmpty = false := by
    cases hl : I.parentVars c with
    | nil => simp [hl] at hp
    | cons _ _ => simp
  have hm := mem_nonRunning.mpr ⟨hc, hr⟩
  have hrow : Constr.lin
      s!"{I.tname c}_start_after_{I.tname p}_on_worker_{(I.worker 0).name}_with_batch_size_{((I.task p).strat 0).batch}_runtime_{((I.task p).strat 0).runtime}"
      (LinExpr.sub (I.startE c) (LinExpr.add (I.startE p) (LinExpr.smul (I.runtime p 0 + 1) (I.xE p 0 0))))
      .ge 0 ∈ I.constrs := by
    apply mem_constrs_deps hm
    simp only [Inst.cDeps, hne, Bool.false_eq_true, ↓reduceIte, List.mem_append, List.mem_flatMap]
    refine Or.inl ⟨p, hp, ?_⟩
    simp only [Inst.cStartAfter, List.mem_map]
    exact ⟨(0, 0), mem_keys.mpr ⟨hw, hs⟩, rfl⟩
  have := sat_constr h hrow
  simp only [Constr.holds, Sense.holds, LinExpr.eval_sub, LinExpr.eval_add, LinExpr.eval_smul] at this
  have e1 : (I.startE c).eval σ = σ (.start c) := sval_var hr
  have e3 : (I.startE p).eval σ = sval I σ p := rfl
  have e2 : 0 ≤ (I.xE p 0 0).eval σ := xval_nonneg h hpt hw hs
  have e4 : (0 : Int) ≤ I.runtime p 0 + 1 := by simp [Inst.runtime]; omega
  have := Int.mul_nonneg e4 e2
  omega

/-- **C11, RUNNING parent.** The child starts after `now + runtime + 1` of the strategy the
parent is running with. -/
theorem after_running_parent {I : Inst} {σ : Var → Int} (h : sat σ (gen I)) (hwr : I.wfRunning = true)
    {c p : Nat} (hc : c < I.nT) (hr : I.running c = false) (hp : p ∈ I.parentVars c)
    (hrp : I.running p = true) :
    I.now + I.runtime p (I.task p).prevS + 1 ≤ σ (.start c) := by
  have hpt := (mem_parentVars.mp hp).1
  have hwf := wfRunning_spec hwr hpt hrp
  have hx : xval I σ p (I.task p).prevW (I.task p).prevS = 1 := by simp [xval_running hrp]
  have := start_after_parent h hc hr hp hwf.1 hwf.2 hx
  rw [sval_running hrp] at this
  exact this

/-- **C11, decision level.** For the placements `schedule()` returns (decoded from any feasible
point): a placed child whose parent is also decided in this call has that parent placed, and
starts at least `runtime(chosen) + 1` after the parent's reported start. -/
theorem decisions_ordered {I : Inst} {σ : Var → Int} (h : sat σ (gen I))
    (hwr : I.wfRunning = true) (hwp : I.wfParents = true)
    {c p wc sc : Nat} {tc : Int} (hc : c < I.nT) (hr : I.running c = false)
    (hp : p ∈ I.parentVars c) (hrp : I.running p = false)
    (hdc : (I.decodeTask σ c).placed = some (wc, sc, tc)) :
    ∃ wp sp tp, (I.decodeTask σ p).placed = some (wp, sp, tp) ∧ tp + I.runtime p sp + 1 ≤ tc := by
  obtain ⟨hcc, rfl⟩ := decodeTask_placed hdc
  have hcs := chosen_spec hcc
  have hpt := (mem_parentVars.mp hp).1
  -- the child is placed, so the parent is
  have h1 : 1 ≤ psum I σ c := by
    have := xval_le_psum h hc hcs.1 hcs.2.1
    rw [chosen_xval hcc] at this; exact this
  have hpp := child_placed_parents_placed h hwr hwp hc hr hp h1
  -- the parent's decode finds a pair: otherwise every x of the parent is 0
  cases hch : I.chosen σ p with
  | some ws =>
    obtain ⟨wp, sp⟩ := ws
    refine ⟨wp, sp, σ (.start p), by simp [Inst.decodeTask, hch], ?_⟩
    have hps := chosen_spec hch
    have := start_after_parent h hc hr hp hps.1 hps.2.1 (chosen_xval hch)
    rw [sval_var hrp] at this
    exact this
  | none =>
    exfalso
    -- some pair has value 1 because the sum is 1 and all values are 0/1
    have hz : psum I σ p = 0 := by
      apply isum_map_zero
      intro k hk
      have hk' := mem_keys.mp (by simpa using hk : (k.1, k.2) ∈ I.keys p)
      rcases xval_binary h hpt hk'.1 hk'.2 with h0 | h1
      · exact h0
      · exfalso
        -- a pair with value 1 carries a variable, so the scan would have found one
        cases hv : I.hasVar p k.1 k.2 with
        | false => rw [xval_novar hrp hv] at h1; omega
        | true =>
          rw [xval_var hv] at h1
          have := chosen_isSome hk'.1 hk'.2 hv h1
          rw [hch] at this; simp at this
    omega

/-! ### Non-vacuity -/

/-- Chain A → B on one worker, both released to the scheduler (B by lookahead), plus a RUNNING
task R whose child C is offered as well. -/
def exInst : Inst :=
  { now := 10
    workers := [⟨"W0", "P0", [("CPU", 4)]⟩]
    tasks := [⟨"A@G0", "A", 0, "G0", .released, 10, 40, [⟨1, 3, [("CPU", 1)]⟩, ⟨1, 5, [("CPU", 1)]⟩], 0, 0⟩,
              ⟨"B@G0", "B", 0, "G0", .virtual, -1, 40, [⟨1, 2, [("CPU", 1)]⟩], 0, 0⟩,
              ⟨"C@G1", "C", 0, "G1", .virtual, -1, 40, [⟨1, 2, [("CPU", 1)]⟩], 0, 0⟩,
              ⟨"R@G1", "R", 0, "G1", .running, 5, 40, [⟨1, 6, [("CPU", 1)]⟩], 0, 0⟩]
    nOffered := 3
    nodes := [⟨"A@G0", "A", 0, "G0", .released⟩, ⟨"B@G0", "B", 0, "G0", .virtual⟩, ⟨"R@G1", "R", 0, "G1", .running⟩, ⟨"C@G1", "C", 0, "G1", .virtual⟩]
    edges := [("A@G0", "B@G0"), ("R@G1", "C@G1")]
    enforceDeadlines := true, retract := false, releaseTaskgraphs := false, goalSlack := false
    allowed0 := [] }

/-- A at 11 with the slow strategy (runtime 5), B at 17 = 11 + 5 + 1, C at 17 = 10 + 6 + 1. -/
def exSigma : Var → Int
  | .start 0 => 11 | .x 0 0 1 => 1
  | .start 1 => 17 | .x 1 0 0 => 1
  | .start 2 => 17 | .x 2 0 0 => 1
  | .allParents 1 => 1 | .allParents 2 => 1
  | .overlap 0 2 => 0 | .overlap 2 0 => 0 | .overlap 0 3 => 1 | .overlap 3 0 => 1
  | .overlap 1 2 => 1 | .overlap 2 1 => 1
  | .after 2 0 => 1 | .before 0 2 => 1
  | .after 1 3 => 1 | .before 3 1 => 1
  | .greward 0 => 1 | .greward 1 => 1 | .treward 1 => 1 | .treward 2 => 1
  | _ => 0

example : exInst.wf = true := by decide
example : exInst.parentVars 1 = [0] ∧ exInst.parentVars 2 = [3] := by decide
/-- The hypotheses of the theorems are met by a non-trivial feasible point … -/
example : sat exSigma (gen exInst) := by decide
example : decode exInst exSigma =
    [⟨0, some (0, 1, 11)⟩, ⟨1, some (0, 0, 17)⟩, ⟨2, some (0, 0, 17)⟩] := by decide
/-- … the bounds are tight: starting B one tick earlier is infeasible … -/
example : ¬ sat (fun v => if v = .start 1 then 16 else exSigma v) (gen exInst) := by decide
/-- … and so is starting C (child of the RUNNING task) at `now + runtime`. -/
example : ¬ sat (fun v => if v = .start 2 then 16 else exSigma v) (gen exInst) := by decide

end ErdosVerif.C11_Ilp
