import ErdosVerif.Model.Release
import ErdosVerif.Model.Loader
namespace ErdosVerif.C19
open ErdosVerif.Release

theorem fixed_length (n : Nat) (p s : Int) : (fixedReleases n p s).length = n := by
  simp [fixedReleases]

end ErdosVerif.C19
