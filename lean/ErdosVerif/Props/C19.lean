/-
C19 — workload and cluster descriptions are instantiated faithfully.

Theorems about the executable model of `Model/Release.lean` and
`Model/Loader.lean` (tied to /repo by harness/suites/c19.py).  Every random
draw of the code is a universally quantified input.
-/
import ErdosVerif.Lemmas.Release
import ErdosVerif.Lemmas.Loader

namespace ErdosVerif.C19
open ErdosVerif.Release ErdosVerif.Loader

/-! ## fixed: N releases one period apart from the start -/

/-- `get_release_times` of a FIXED policy is `[s + i·p | i < n]`, whatever the
horizon and the draws. -/
theorem fixed_releases (n : Nat) (p s : Int) (h : Option Int) (d : Draws) :
    getReleaseTimes { kind := .fixed, period := p, n := (n : Int), start := s } h d
      = .ok ((List.range n).map (fun (i : Nat) => s + (i : Int) * p)) := by
  unfold getReleaseTimes
  by_cases hn : n = 0
  · subst hn
    simp
  · have h2 : ¬ ((n : Int) < 0) := by omega
    simp [hn, h2, fixedReleases]

/-- Element-wise form: exactly `n` releases, the `i`-th at `s + i·p`. -/
theorem fixed_spacing (n : Nat) (p s : Int) :
    (fixedReleases n p s).length = n ∧
    ∀ i, i < n → (fixedReleases n p s)[i]? = some (s + (i : Int) * p) :=
  ⟨fixed_length n p s, fun i hi => fixed_getElem n p s i hi⟩

example : getReleaseTimes { kind := .fixed, period := 10, n := 3, start := 5 } none .none = .ok [5, 15, 25] := by
  decide

/-! ## periodic: every period until the horizon -/

/-- With an `EventTime` horizon the PERIODIC policy yields `np.arange(s, h, p)`. -/
theorem periodic_releases (s h p : Int) (hp : p ≠ 0) (d : Draws) :
    getReleaseTimes { kind := .periodic, period := p, n := -1, start := s } (some h) d
      = .ok (periodicReleases s h p) := by
  simp [getReleaseTimes, hp]

/-- All `s + i·p` below the horizon, none missing, nothing else (`p > 0`). -/
theorem periodic_complete (s h p : Int) (hp : 0 < p) (x : Int) :
    x ∈ periodicReleases s h p ↔ ∃ i : Nat, x = s + (i : Int) * p ∧ x < h := by
  unfold periodicReleases
  rw [mem_fixed]
  constructor
  · rintro ⟨i, hi, rfl⟩
    exact ⟨i, rfl, (lt_arangeLen s h p hp i).1 hi⟩
  · rintro ⟨i, rfl, hx⟩
    exact ⟨i, (lt_arangeLen s h p hp i).2 hx, rfl⟩

/-- …in increasing order, one period apart. -/
theorem periodic_spacing (s h p : Int) (i : Nat) (hi : i < arangeLen s h p) :
    (periodicReleases s h p)[i]? = some (s + (i : Int) * p) :=
  fixed_getElem _ p s i hi

example : periodicReleases 5 36 10 = [5, 15, 25, 35] := by decide
example : periodicReleases 5 35 10 = [5, 15, 25] := by decide

/-- Through the loader (after fix b2eb371, formerly finding C19-L1): the horizon
`WorkloadLoader` passes is `EventTime(flags.loop_timeout)`, so a periodic policy
releases `np.arange(start, loop_timeout, period)`. -/
theorem periodic_via_loader (p : Policy) (f : Flags) (d : Draws)
    (hk : p.kind = .periodic) (hn : p.n ≠ 0) (hp : p.period ≠ 0) :
    getReleaseTimes p (loaderHorizon f) d = .ok (periodicReleases p.start f.loopTimeout p.period) := by
  simp [getReleaseTimes, loaderHorizon, hk, hn, hp]

/-- …that is: every period from the start until `--loop_timeout`, none missing. -/
theorem periodic_via_loader_complete (p : Policy) (f : Flags) (d : Draws) (rel : List Int)
    (hk : p.kind = .periodic) (hn : p.n ≠ 0) (hp : 0 < p.period)
    (h : getReleaseTimes p (loaderHorizon f) d = .ok rel) (x : Int) :
    x ∈ rel ↔ ∃ i : Nat, x = p.start + (i : Int) * p.period ∧ x < f.loopTimeout := by
  rw [periodic_via_loader p f d hk hn (by omega)] at h
  simp only [Except.ok.injEq] at h
  rw [← h]
  exact periodic_complete p.start f.loopTimeout p.period hp x

/-- Every release of a policy becomes one task graph, in order: `generate_task_graphs`
turns release `k` into the fresh copy `name@k` (timestamp `k`) released at that time. -/
theorem generated_graphs_follow_releases (insts : List ProfileInst) (f : Flags) (jg : JobGraph)
    (h : Option Int) (d : Draws) (gs gs' : GenState) (tgs : List TaskGraph) (ls : LoopState)
    (hg : generateAll insts f jg h d gs = .ok (gs', tgs, ls)) :
    ∃ rel, getReleaseTimes jg.policy h d = .ok rel ∧ tgs.length = rel.length ∧
      ∀ k, k < rel.length → ∃ dl fid,
        tgs[k]? = some (instantiate jg s!"{jg.name}@{((0 + k : Nat) : Int)}" ((0 + k : Nat) : Int) (rel.getD k 0) dl fid) := by
  unfold generateAll at hg
  cases hr : getReleaseTimes jg.policy h d with
  | error e => simp [hr] at hg
  | ok rel =>
    simp only [hr] at hg
    cases hl : generateList insts f jg 0 rel gs with
    | error e => simp [hl] at hg
    | ok v =>
      obtain ⟨g1, l⟩ := v
      simp only [hl, Except.ok.injEq, Prod.mk.injEq] at hg
      obtain ⟨_, rfl, _⟩ := hg
      exact ⟨rel, rfl, generateList_spec insts f jg rel 0 gs g1 l hl⟩

-- period 100 from 0 with --loop_timeout=250: released at 0, 100, 200
example : getReleaseTimes { kind := .periodic, period := 100, n := -1, start := 0 }
    (loaderHorizon { loopTimeout := 250 }) .none = .ok [0, 100, 200] := by decide

/-! ## Poisson / Gamma: N non-decreasing releases from the start -/

/-- For every tape of non-negative integer draws (at least `n-1` of them). -/
theorem poisson_releases (n : Nat) (s : Int) (draws : List Int) (hn : 0 < n)
    (hlen : n - 1 ≤ draws.length) (hpos : ∀ d ∈ draws, 0 ≤ d) :
    (poissonReleases n s draws).length = n ∧
    (poissonReleases n s draws).head? = some s ∧
    (poissonReleases n s draws).Pairwise (· ≤ ·) := by
  have hn0 : n ≠ 0 := by omega
  have hp : ∀ d ∈ draws.take (n - 1), 0 ≤ d := fun d hd => hpos d (List.mem_of_mem_take hd)
  simp only [poissonReleases, hn0, if_false]
  refine ⟨?_, prefixSums_head _ _, prefixSums_sorted _ _ hp⟩
  rw [prefixSums_length, List.length_take]
  omega

/-- For every tape of non-negative (exact, dyadic) draws. -/
theorem gamma_releases (n : Nat) (s : Int) (den : Nat) (nums : List Int) (hn : 0 < n) (hden : 0 < den)
    (hlen : n - 1 ≤ nums.length) (hpos : ∀ d ∈ nums, 0 ≤ d) :
    (gammaReleases n s den nums).length = n ∧
    (gammaReleases n s den nums).head? = some s ∧
    (gammaReleases n s den nums).Pairwise (· ≤ ·) := by
  have hn0 : n ≠ 0 := by omega
  have hp : ∀ d ∈ nums.take (n - 1), 0 ≤ d := fun d hd => hpos d (List.mem_of_mem_take hd)
  simp only [gammaReleases, hn0, if_false]
  refine ⟨?_, ?_, ?_⟩
  · rw [List.length_map, prefixSums_length, List.length_take]
    omega
  · rw [List.head?_map, prefixSums_head]
    simp [rhe_exact s den hden]
  · exact List.Pairwise.map _ (fun a b hab => rhe_mono a b den hden hab) (prefixSums_sorted _ _ hp)

/-- The policy entry point agrees (Poisson). -/
theorem poisson_get_release_times (n : Nat) (s : Int) (l : List Int) (h : Option Int) (hn : 0 < n) :
    getReleaseTimes { kind := .poisson, n := (n : Int), start := s } h (.ints l)
      = .ok (poissonReleases n s l) := by
  have h1 : n ≠ 0 := by omega
  have h2 : ¬ ((n : Int) < 0) := by omega
  simp [getReleaseTimes, h1, h2, Draws.intList]

/-- The policy entry point agrees (Gamma). -/
theorem gamma_get_release_times (n : Nat) (s : Int) (den : Nat) (l : List Int) (h : Option Int) (hn : 0 < n) :
    getReleaseTimes { kind := .gamma, n := (n : Int), start := s } h (.dyadic den l)
      = .ok (gammaReleases n s den l) := by
  have h1 : n ≠ 0 := by omega
  have h2 : ¬ ((n : Int) < 0) := by omega
  simp [getReleaseTimes, h1, h2, Draws.den, Draws.nums]

example : poissonReleases 3 5 [112, 108] = [5, 117, 225] := by decide
-- draws 0.5, 1.0, 2.25: 5.5 → 6, 6.5 → 6 (ties to even), 8.75 → 9
example : gammaReleases 4 5 4 [2, 4, 9] = [5, 6, 6, 9] := by decide

/-! ## closed loop: never more than `concurrency` in flight, N in total -/

/-- The first batch: `min(concurrency, N)` releases at the start. -/
theorem closed_loop_initial (c n s : Int) (h : Option Int) (d : Draws) (hn : 0 < n) :
    getReleaseTimes { kind := .closedLoop, n := n, conc := c, start := s } h d
      = .ok (List.replicate (min c n).toNat s) := by
  have h1 : ¬ (n = 0) := by omega
  simp only [getReleaseTimes, h1, if_false, closedLoopInitial]
  by_cases h2 : n ≥ c
  · simp [h2]
  · have : min c n = n := Int.min_eq_right (by omega)
    simp [h2, this]

/-- Over any completion history, in flight ≤ concurrency. -/
theorem closed_loop_inflight_le (c n s : Int) (hc : 0 < c) (hn : 0 < n) (hist : List (Int × Int)) :
    ((loopRun (loopInit c n s) hist).inflight.length : Int) ≤ c :=
  (loopRun_inv c n hc hist _ (loopInit_inv c n s hc hn)).inflight_le

/-- Never more than N released… -/
theorem closed_loop_released_le (c n s : Int) (hc : 0 < c) (hn : 0 < n) (hist : List (Int × Int)) :
    ((loopRun (loopInit c n s) hist).released.length : Int) ≤ n := by
  have h := loopRun_inv c n hc hist _ (loopInit_inv c n s hc hn)
  have := h.total
  have := h.rem_nonneg
  omega

/-- …and exactly N once nothing is in flight any more. -/
theorem closed_loop_total (c n s : Int) (hc : 0 < c) (hn : 0 < n) (hist : List (Int × Int))
    (hdone : (loopRun (loopInit c n s) hist).inflight = []) :
    ((loopRun (loopInit c n s) hist).released.length : Int) = n := by
  have h := loopRun_inv c n hc hist _ (loopInit_inv c n s hc hn)
  have ht := h.total
  have hr := h.rem_nonneg
  have hf := h.full
  rw [hdone] at hf
  simp only [List.length_nil] at hf
  have : ¬ (0 < (loopRun (loopInit c n s) hist).remaining) := fun hp => by have := hf hp; omega
  omega

/-- A follow-up graph is released one microsecond after the completion. -/
theorem closed_loop_followup_time (st : LoopState) (g f i : Int)
    (h : (loopComplete st g f).2 = some i) :
    (loopComplete st g f).1.released.getLast? = some (i, f + 1) := by
  unfold loopComplete at h ⊢
  by_cases hm : g ∈ st.inflight
  · simp only [hm, if_true] at h ⊢
    unfold loopNext at h ⊢
    by_cases hr : st.remaining > 0
    · simp only [hr, if_true] at h ⊢
      simp only [Option.some.injEq] at h
      simp [h]
    · simp [hr] at h
  · simp [hm] at h

-- 5 invocations, concurrency 2; completions of graphs 1,0,2,3,4: 2,2,2,2,1,0 in flight, 5 released.
example : (loopRun (loopInit 2 5 0) [(1, 10), (0, 12), (2, 20), (3, 30), (4, 40)]).released
    = [(0, 0), (1, 0), (2, 11), (3, 13), (4, 21)] := by decide
example : (loopRun (loopInit 2 5 0) [(1, 10), (0, 12), (2, 20), (3, 30), (4, 40)]).inflight = [] := by decide

/-! ## each invocation is a fresh isomorphic copy of the job graph -/

/-- `instantiate` is the identity on shape: task `i` is made from job `i`, carries
its name, probability and *the same profile instance* (hence the described
strategies and resource vectors), the edge lists are the job graph's, sources
get the release time and every other task `-1`, all tasks share the deadline. -/
theorem instantiate_iso (jg : JobGraph) (nm : String) (ts rel dl : Int) (fid : Nat) :
    (instantiate jg nm ts rel dl fid).tasks.length = jg.jobs.length ∧
    (instantiate jg nm ts rel dl fid).children = jg.children ∧
    ∀ i, i < jg.jobs.length →
      (instantiate jg nm ts rel dl fid).tasks[i]? =
        some { id := fid + i, name := (jg.jobs.getD i default).name, taskGraph := nm, job := i,
               timestamp := ts, release := if isSource jg.children i then rel else -1,
               deadline := dl, profile := (jg.jobs.getD i default).profile,
               prob := (jg.jobs.getD i default).prob } :=
  ⟨instantiate_length .., instantiate_children .., fun i hi => instantiate_getElem jg nm ts rel dl fid i hi⟩

/-- The identifiers of one copy are `fid, fid+1, …`: pairwise different. -/
theorem instantiate_fresh (jg : JobGraph) (nm : String) (ts rel dl : Int) (fid : Nat) :
    ((instantiate jg nm ts rel dl fid).tasks.map (·.id)).Nodup ∧
    ∀ x ∈ (instantiate jg nm ts rel dl fid).tasks.map (·.id), fid ≤ x ∧ x < fid + jg.jobs.length := by
  rw [instantiate_ids]
  refine ⟨List.nodup_range', ?_⟩
  intro x hx
  have := List.mem_range'_1.1 hx
  omega

/-- Two successive invocations (of any two job graphs) share no identifier: the
first uses ids below the generator's next id, the second starts there. -/
theorem generate_fresh_across (insts : List ProfileInst) (f : Flags) (jg1 jg2 : JobGraph)
    (i1 r1 i2 r2 : Int) (g0 g1 g2 : GenState) (t1 t2 : TaskGraph)
    (h1 : generateOne insts f jg1 i1 r1 g0 = .ok (g1, t1))
    (h2 : generateOne insts f jg2 i2 r2 g1 = .ok (g2, t2)) :
    ∀ x ∈ t1.tasks.map (·.id), ∀ y ∈ t2.tasks.map (·.id), x < y := by
  obtain ⟨T1, _, e1, n1, _⟩ := generateOne_spec insts f jg1 i1 r1 g0 g1 t1 h1
  obtain ⟨T2, _, e2, _, _⟩ := generateOne_spec insts f jg2 i2 r2 g1 g2 t2 h2
  intro x hx y hy
  rw [e1] at hx
  rw [e2] at hy
  have a := (instantiate_fresh _ _ _ _ _ _).2 x hx
  have b := (instantiate_fresh _ _ _ _ _ _).2 y hy
  omega

example :
    (instantiate { name := "G", policy := { kind := .fixed }, variance := (0, 0)
                   jobs := [{ name := "a", profile := 0, slo := -1, cond := false, term := false, prob := 1000 },
                            { name := "b", profile := 1, slo := -1, cond := false, term := false, prob := 1000 }]
                   children := [[1], []] } "G@0" 0 5 105 7).tasks.map (fun t => (t.id, t.name, t.release, t.profile))
      = [(7, "a", 5, 0), (8, "b", -1, 1)] := by decide

/-! ## deadline = release + T stretched within variance and bounds -/

/-- Integer clamp used in the statement (`max(min_bound, min(max_bound, ·))`). -/
def clampI (minB maxB v : Int) : Int := max minB (min maxB v)

/-- `fuzz`: for every draw `r = rn/2^53 ∈ [0,1]`, with `lo%`/`hi%` the smaller /
larger of `|a|`,`|b|`:
`clamp ⌊T·lo/100⌋ ≤ fuzz(T) − T ≤ clamp ⌈T·hi/100⌉`. -/
theorem fuzz_interval (T a b minB maxB rn : Int) (hT : 0 ≤ T) (h0 : 0 ≤ rn) (h1 : rn ≤ (twoP53 : Int)) :
    clampI minB maxB (T * (min a.natAbs b.natAbs : Nat) / 100) ≤ fuzz T a b minB maxB rn - T ∧
    fuzz T a b minB maxB rn - T ≤ clampI minB maxB (-(-(T * (max a.natAbs b.natAbs : Nat)) / 100)) := by
  obtain ⟨hl, hu⟩ := uniformNum_bounds T a b rn hT h0 h1
  have hD : (fuzzDen : Int) = 100 * (twoP53 : Int) := by simp [fuzzDen]
  have hP : (0 : Int) < (twoP53 : Int) := by decide
  generalize hL : T * ((min a.natAbs b.natAbs : Nat) : Int) = L at *
  generalize hH : T * ((max a.natAbs b.natAbs : Nat) : Int) = H at *
  -- ⌊L/100⌋·D ≤ L·2^53 and H·2^53 ≤ ⌈H/100⌉·D
  have hLf : L / 100 * (fuzzDen : Int) ≤ fuzzUniformNum T a b rn := by
    have : L / 100 * 100 ≤ L := Int.ediv_mul_le L (by decide)
    have : L / 100 * (fuzzDen : Int) ≤ L * (twoP53 : Int) := by rw [hD]; nlinarith
    omega
  have hHc : fuzzUniformNum T a b rn ≤ -(-H / 100) * (fuzzDen : Int) := by
    have : -H / 100 * 100 ≤ -H := Int.ediv_mul_le (-H) (by decide)
    have : H * (twoP53 : Int) ≤ -(-H / 100) * (fuzzDen : Int) := by rw [hD]; nlinarith
    omega
  have lo := clampNum_mono minB maxB _ _ hLf
  have hi := clampNum_mono minB maxB _ _ hHc
  rw [clampNum_mul] at lo hi
  unfold fuzz clampI
  constructor
  · have := rhe_ge_of_mul_le (T + max minB (min maxB (L / 100)))
      (T * (fuzzDen : Int) + fuzzClampNum minB maxB (fuzzUniformNum T a b rn)) fuzzDen fuzzDen_pos
      (by rw [Int.add_mul]; omega)
    omega
  · have := rhe_le_of_le_mul (T + max minB (min maxB (-(-H / 100))))
      (T * (fuzzDen : Int) + fuzzClampNum minB maxB (fuzzUniformNum T a b rn)) fuzzDen fuzzDen_pos
      (by rw [Int.add_mul]; omega)
    omega

/-- `deadline − release − T` lies within the declared variance and bounds, for
every draw in range. -/
theorem deadline_interval (rel T a b minB maxB rn : Int) (hT : 0 ≤ T) (h0 : 0 ≤ rn)
    (h1 : rn ≤ (twoP53 : Int)) :
    clampI minB maxB (T * (min a.natAbs b.natAbs : Nat) / 100) ≤ deadline rel T a b minB maxB rn - rel - T ∧
    deadline rel T a b minB maxB rn - rel - T ≤ clampI minB maxB (-(-(T * (max a.natAbs b.natAbs : Nat)) / 100)) := by
  have := fuzz_interval T a b minB maxB rn hT h0 h1
  unfold deadline
  omega

/-- Without variance (and with the default bounds) the deadline is exactly
`release + T`. -/
theorem deadline_exact_without_variance (rel T maxB rn : Int) (hT : 0 ≤ T) (hm : 0 ≤ maxB)
    (h0 : 0 ≤ rn) (h1 : rn ≤ (twoP53 : Int)) :
    deadline rel T 0 0 0 maxB rn = rel + T := by
  have := deadline_interval rel T 0 0 0 maxB rn hT h0 h1
  simp only [clampI, Int.natAbs_zero, Nat.min_self, Nat.max_self] at this
  simp only [Nat.cast_zero, Int.mul_zero, Int.zero_ediv, Int.neg_zero] at this
  omega

/-- What the loader generates: every task of a generated graph carries
`release + fuzz(T)` with `T` the job graph's completion time, hence lies in the
declared interval. -/
theorem generated_deadline_interval (insts : List ProfileInst) (f : Flags) (jg : JobGraph)
    (idx rel : Int) (gs gs' : GenState) (tg : TaskGraph)
    (h : generateOne insts f jg idx rel gs = .ok (gs', tg))
    (hr0 : 0 ≤ (gs.tape.drop 1).headD 0) (hr1 : (gs.tape.drop 1).headD 0 ≤ (twoP53 : Int)) :
    ∃ T, completionTime insts jg = .ok T ∧ (0 ≤ T →
      ∀ t ∈ tg.tasks,
        clampI f.minDeadline f.maxDeadline (T * (min jg.variance.1.natAbs jg.variance.2.natAbs : Nat) / 100)
          ≤ t.deadline - rel - T ∧
        t.deadline - rel - T
          ≤ clampI f.minDeadline f.maxDeadline (-(-(T * (max jg.variance.1.natAbs jg.variance.2.natAbs : Nat)) / 100))) := by
  obtain ⟨T, hT, e, _, _⟩ := generateOne_spec insts f jg idx rel gs gs' tg h
  refine ⟨T, hT, fun hT0 t ht => ?_⟩
  rw [e] at ht
  rw [instantiate_deadline _ _ _ _ _ _ t ht]
  exact deadline_interval rel T _ _ _ _ _ hT0 hr0 hr1

-- T = 150 µs, variance 15 %..15 %: 150 + 22.5 = 172.5 → 172 (ties to even), inside [172, 173].
example : fuzz 150 15 15 0 9223372036854775807 123 = 172 := by decide
-- bounds: the *stretch* is clamped (max_deadline = 20): 100 + min(20, 50) = 120
example : fuzz 100 50 50 0 20 0 = 120 := by decide

/-! ## the loader: SLOs -/

/-- Every loaded job carries the override when `--override_slo` is active, else
its own described SLO, else none (after fix 8d52357, formerly finding C19-L2). -/
theorem slo_faithful (origNames : List String) (pmap : List Nat) (nodes : List NodeD)
    (slo : Int) (st st' : LState) (jobs : List Job)
    (h : loadJobs origNames pmap nodes slo st [] = .ok (st', jobs)) :
    jobs.map (·.slo) = nodes.map (fun nd => if slo = -1 then nd.slo.getD (-1) else slo) := by
  have := loadJobs_slo origNames pmap nodes slo st st' [] jobs h
  simp only [List.map_nil, List.nil_append] at this
  rw [this]
  apply List.map_congr_left
  intro nd _
  unfold jobSlo
  cases nd.slo <;> rfl

/-- …and its described name, in order. -/
theorem job_names_faithful (origNames : List String) (pmap : List Nat) (nodes : List NodeD)
    (slo : Int) (st st' : LState) (jobs : List Job)
    (h : loadJobs origNames pmap nodes slo st [] = .ok (st', jobs)) :
    jobs.map (·.name) = nodes.map (·.name) := by
  simpa using loadJobs_names origNames pmap nodes slo st st' [] jobs h

-- the two former counterexamples: `b` without SLO stays without, `b` with 900 keeps 900
example :
    (loadJobs ["P"] [0]
      [{ name := "a", profile := some "P", slo := some 500, cond := false, term := false, prob := none, children := some ["b"] },
       { name := "b", profile := some "P", slo := none, cond := false, term := false, prob := none, children := none }]
      (-1) { insts := [], copies := [] } []).toOption.map (fun r => r.2.map (·.slo)) = some [500, -1] := by
  decide
example :
    (loadJobs ["P"] [0]
      [{ name := "a", profile := some "P", slo := some 500, cond := false, term := false, prob := none, children := some ["b"] },
       { name := "b", profile := some "P", slo := some 900, cond := false, term := false, prob := none, children := none }]
      (-1) { insts := [], copies := [] } []).toOption.map (fun r => r.2.map (·.slo)) = some [500, 900] := by
  decide
example :
    (loadJobs ["P"] [0]
      [{ name := "a", profile := some "P", slo := some 500, cond := false, term := false, prob := none, children := none }]
      4000 { insts := [], copies := [] } []).toOption.map (fun r => r.2.map (·.slo)) = some [4000] := by
  decide

/-! ## the loader: `--override_num_invocation` -/

/-- An active `--override_num_invocation` is the invocation count of every
policy that has one (after fix d64eefe, formerly finding C19-L3). -/
theorem override_n_applies (g : GraphD) (f : Flags) (p : Policy)
    (h : createPolicy g f = .ok p) (hf : 0 < f.n) (hk : p.kind ≠ .periodic) : p.n = f.n := by
  unfold createPolicy mkClosedLoop at h
  simp only [hf, if_true] at h
  repeat' split at h
  all_goals first
    | (simp at h; done)
    | (simp only [pure, Except.pure, Except.ok.injEq] at h
       subst h
       first | rfl | (simp at hk))

example :
    ((createPolicy { name := some "G", nodes := some [], policy := some "poisson", period := none,
                     invocations := some 2, concurrency := none, start := none, rate := true,
                     coefficient := false, variance := none } { n := 4 }).toOption.map (·.n)) = some 4 ∧
    ((createPolicy { name := some "G", nodes := some [], policy := some "closed_loop", period := none,
                     invocations := some 2, concurrency := some 3, start := none, rate := false,
                     coefficient := false, variance := none } { n := 4 }).toOption.map (·.n)) = some 4 ∧
    ((createPolicy { name := some "G", nodes := some [], policy := some "gamma", period := none,
                     invocations := none, concurrency := none, start := none, rate := true,
                     coefficient := true, variance := none } { n := 4 }).toOption.map (·.n)) = some 4 := by
  decide

/-! ## the loader: release policy parameters come from the description (or the overrides) -/

/-- A `fixed` description yields the FIXED policy with the described period,
invocations and start, each replaced by its override flag when that is > 0. -/
theorem fixed_policy_from_description (g : GraphD) (f : Flags) (p n : Int)
    (hk : g.policy = some "fixed") (hp : g.period = some p) (hn : g.invocations = some n) :
    createPolicy g f = .ok { kind := .fixed
                             period := if f.period > 0 then f.period else p
                             n := if f.n > 0 then f.n else n
                             start := g.start.getD 0 } := by
  unfold createPolicy
  simp only [hk, hp, hn]
  by_cases h1 : f.period > 0 <;> by_cases h2 : f.n > 0 <;> simp [h1, h2] <;> rfl

/-- A `closed_loop` description yields the CLOSED_LOOP policy with the described
concurrency, invocations and start (zero is refused); without an invocation override. -/
theorem closed_loop_policy_from_description (g : GraphD) (f : Flags) (c n : Int)
    (hk : g.policy = some "closed_loop") (hc : g.concurrency = some c) (hn : g.invocations = some n)
    (hc0 : c ≠ 0) (hn0 : n ≠ 0) :
    createPolicy g { f with n := 0 } = .ok { kind := .closedLoop, n := n, conc := c, start := g.start.getD 0 } := by
  unfold createPolicy
  simp [hk, hc, hn, mkClosedLoop, hc0, hn0]

end ErdosVerif.C19
