import ErdosVerif.Lemmas.SimOrder
/-!
# C09 — runs are reproducible from the random seed

Property: two runs of the simulator with the same workload, cluster, flags and random
seed produce the same trace, differing only in measured wall-clock scheduler durations;
different processes and machines do not matter.

What a theorem can say.  The simulator model is a function, so "same inputs, same trace"
is definitional (`simulate_deterministic` below is the trivial theorem it is).  The content
of C09 is that the *implementation* has no input besides (description, flags, seed).  The
model makes every candidate hidden input explicit, and the theorems show what the trace
does and does not depend on:

* the iteration order of the `set` of resource names in `Simulator.__log_utilization`
  (a function of the per-process string hash, i.e. of `PYTHONHASHSEED`) is the parameter
  `ord` of `SimOrder.logUtilizationWith`;
* ids (`uuid`s drawn from `random.getrandbits`) are the labels `g<i>.t<j>` / `p<i>`;
* scheduler decisions, `random` draws, `EventTime.fuzz` draws are the tapes of `SimS`.

FULL STATEMENT (not claimed, see the registry's `not_proved`):
  `setorder_indep_full`: for every world, decision tape, draw tape and for all set orders
  `ord ord'`, the trace of the whole run under `ord` equals the trace under `ord'`.
This is FALSE of the current code (`setorder_dependent_counterexample`, finding D11).
What is proved is the content of D11's repair, for the one function that iterates the set:
under any order the rows of one call are the same multiset, pool block by pool block
(`setorder_indep_multiset`, `setorder_indep_blockwise`), nothing but `rows` is touched
(`setorder_frame`), and once the names are sorted the row list itself no longer depends on
the order (`setorder_indep_sorted`, `setorder_indep_sorted_state`).  Lifting these from one
`__log_utilization` call to the whole run needs the (unproved) 2-run statement that no
handler of the model reads `rows`; the end-to-end correspondence compares the real trace
with the model's after sorting each block, which is the same statement observed on runs.

The runtime behaviours no model can exhibit — str-hash randomisation, RNG seeding,
wall clock, uuid generation — are covered only by the repeated fresh-process runs of
`harness/suites/c09.py`.
-/
namespace ErdosVerif.C09
open ErdosVerif.Model ErdosVerif.Model.Sim ErdosVerif.Model.SimOrder

/-- `ord` is a possible iteration order of a set: it yields exactly the elements it is
given, each once, in some order. -/
def IsSetOrder (ord : Order) : Prop := ∀ i l, (ord i l).Perm l

theorem sortedOrder_isSetOrder : IsSetOrder sortedOrder := fun _ l => List.mergeSort_perm l _

/-- `ord` followed by `sorted(...)`: the order D11's repair `for n in sorted(set(...))` gives. -/
def sortAfter (ord : Order) : Order := fun i l => (ord i l).mergeSort (· ≤ ·)

/-! ## (a) the set iteration order -/

/-- The simulator model's `logUtilization` is the parameterised function at the canonical
(sorted) order — by definition, so everything proved about `logUtilizationWith` applies
to the model that the end-to-end correspondence ties to the code. -/
theorem logUtilization_is_sorted_instance (time : Int) :
    Sim.logUtilization time = logUtilizationWith sortedOrder time := rfl

/-- One `__log_utilization` call appends `utilRows ord time pools` to the trace, changes no
other component of the simulator state and never raises — whatever the order. -/
theorem logUtilizationWith_effect (ord : Order) (time : Int) (s : SimS) :
    (logUtilizationWith ord time).run.run s
      = (.ok (), { s with rows := s.rows ++ (utilRows ord time s.pools.toList).toArray }) :=
  logUtilizationWith_run ord time s

/-- Frame: the states reached under two orders agree on everything except `rows`; in
particular the set order never influences a decision, a time or a counter. -/
theorem setorder_frame (ord ord' : Order) (time : Int) (s : SimS) :
    let a := ((logUtilizationWith ord time).run.run s)
    let b := ((logUtilizationWith ord' time).run.run s)
    a.1 = b.1 ∧ { a.2 with rows := #[] } = { b.2 with rows := #[] } := by
  refine ⟨?_, ?_⟩ <;> simp only [logUtilizationWith_run]

/-- Block by block: the rows logged for one pool are the same multiset under any two set
orders — only the ORDER of the rows of one pool and instant can differ. -/
theorem setorder_indep_blockwise (ord ord' : Order) (h : IsSetOrder ord) (h' : IsSetOrder ord')
    (time : Int) (i : Nat) (res : Resources) :
    (poolRows time i res (ord i (nameSet res))).Perm (poolRows time i res (ord' i (nameSet res))) :=
  ((h i _).trans (h' i _).symm).map _

/-- The rows of one `__log_utilization` call are the same multiset under any two set orders. -/
theorem setorder_indep_multiset (ord ord' : Order) (h : IsSetOrder ord) (h' : IsSetOrder ord')
    (time : Int) (pools : List Pool) :
    (utilRows ord time pools).Perm (utilRows ord' time pools) := by
  unfold utilRows
  generalize pools.zipIdx = l
  induction l with
  | nil => exact .nil
  | cons a l ih =>
    simp only [List.flatMap_cons]
    exact (setorder_indep_blockwise ord ord' h h' time a.2 a.1.resources).append ih

/-- Sorting removes the dependence: two permutations of the same names sort to the same list. -/
theorem sorted_names_unique {l l' : List String} (h : l.Perm l') :
    l.mergeSort (· ≤ ·) = l'.mergeSort (· ≤ ·) := by
  have tr : ∀ a b c : String, decide (a ≤ b) = true → decide (b ≤ c) = true → decide (a ≤ c) = true := by
    intro a b c hab hbc
    simp only [decide_eq_true_eq] at *
    exact String.le_trans hab hbc
  have tot : ∀ a b : String, (decide (a ≤ b) || decide (b ≤ a)) = true := by
    intro a b
    simp only [Bool.or_eq_true, decide_eq_true_eq]
    exact String.le_total a b
  refine List.Perm.eq_of_pairwise (le := fun a b => decide (a ≤ b) = true) ?_
    (List.pairwise_mergeSort tr tot l) (List.pairwise_mergeSort tr tot l')
    ((List.mergeSort_perm l _).trans (h.trans (List.mergeSort_perm l' _).symm))
  intro a b _ _ hab hba
  simp only [decide_eq_true_eq] at hab hba
  exact String.le_antisymm hab hba

/-- D11's repair, row list: with `sorted(set(...))` the rows of one call are the same LIST
for every set order, and equal to the simulator model's. -/
theorem setorder_indep_sorted (ord : Order) (h : IsSetOrder ord) (time : Int) (pools : List Pool) :
    utilRows (sortAfter ord) time pools = utilRows sortedOrder time pools := by
  unfold utilRows
  congr 1
  funext x
  obtain ⟨p, i⟩ := x
  simp only [sortAfter, sortedOrder]
  rw [sorted_names_unique (h i (nameSet p.resources))]

/-- D11's repair, state: after the repaired log call the whole simulator state (trace
included) is the one the simulator model computes, for every set order. -/
theorem setorder_indep_sorted_state (ord : Order) (h : IsSetOrder ord) (time : Int) (s : SimS) :
    (logUtilizationWith (sortAfter ord) time).run.run s = (Sim.logUtilization time).run.run s := by
  rw [logUtilization_is_sorted_instance, logUtilizationWith_run, logUtilizationWith_run,
    setorder_indep_sorted ord h]

/-- A pool with at most one resource type is immune: every set order gives the same rows. -/
theorem setorder_irrelevant_single_type (ord ord' : Order) (h : IsSetOrder ord) (h' : IsSetOrder ord')
    (time : Int) (i : Nat) (res : Resources) (h1 : (nameSet res).length ≤ 1) :
    poolRows time i res (ord i (nameSet res)) = poolRows time i res (ord' i (nameSet res)) := by
  have e : ∀ {o : Order}, IsSetOrder o → o i (nameSet res) = nameSet res := by
    intro o ho
    have hp := ho i (nameSet res)
    match hn : nameSet res, h1 with
    | [], _ => rw [hn] at hp; exact hp.eq_nil
    | [a], _ => rw [hn] at hp; exact List.perm_singleton.mp hp
    | _ :: _ :: _, h2 => simp at h2
  rw [e h, e h']

/-! ### the current code: the order is observable (finding D11) -/

/-- One pool, one worker with a GPU and a CPU. -/
def pool2 : Pool := ⟨[Worker.ofVec [(⟨"GPU", some 1⟩, 2), (⟨"CPU", some 2⟩, 3)]], []⟩

/-- With two resource types in a pool, two legitimate set orders give different row lists:
the trace of the current code depends on `PYTHONHASHSEED`. -/
theorem setorder_dependent_counterexample :
    ∃ ord ord' : Order, IsSetOrder ord ∧ IsSetOrder ord' ∧ utilRows ord 0 [pool2] ≠ utilRows ord' 0 [pool2] := by
  refine ⟨fun _ l => l, fun _ l => l.reverse, fun _ _ => .refl _, fun _ l => List.reverse_perm l, ?_⟩
  intro h
  have h3 := congrArg (fun rows => rows.head?.bind (·[3]?)) h
  revert h3
  decide

/-- Non-vacuity: the names of `pool2` under the two orders, and the sorted order. -/
example : nameSet pool2.resources = ["GPU", "CPU"] := by decide
example : (utilRows (fun _ l => l) 0 [pool2]).length = 2 := by decide
example : (utilRows sortedOrder 0 [pool2]).length = 2 :=
  (setorder_indep_multiset sortedOrder (fun _ l => l) sortedOrder_isSetOrder (fun _ _ => .refl _) 0 [pool2]).length_eq.trans
    (by decide)
example : IsSetOrder (fun _ l => l.reverse) := fun _ l => List.reverse_perm l

/-! ## (b) ids are labels -/

/-- Task labels identify tasks. -/
theorem tlabel_injective : Function.Injective Sim.tlabel := fun _ _ h => tlabel_inj h
/-- Pool labels identify pools. -/
theorem plabel_injective : Function.Injective Sim.plabel := fun _ _ h => plabel_inj h
/-- A task label is never a pool label. -/
theorem labels_disjoint (t : TaskId) (p : Nat) : Sim.tlabel t ≠ Sim.plabel p := tlabel_ne_plabel t p

/-
FULL STATEMENT (not claimed): `id_equivariance` — running the model with any other injective
naming of tasks and pools yields the same trace with the names replaced and nothing else
changed.  Proved here is the part that does not need a second copy of the simulator:
the labels are injective with disjoint ranges, hence for ANY assignment of ids (the uuids a
real run happens to draw) one string map turns every label of the model trace into that id;
and in the rows of `__log_utilization` the pool label occupies one column and influences
nothing else.
-/
/-- For any assignment of ids to tasks and pools there is a single renaming of strings that
maps every model label to the assigned id. -/
theorem id_equivariance_partial (u : TaskId → String) (v : Nat → String) :
    ∃ f : String → String, (∀ t, f (Sim.tlabel t) = u t) ∧ (∀ p, f (Sim.plabel p) = v p) := by
  classical
  refine ⟨fun s => if h : ∃ t, Sim.tlabel t = s then u h.choose
                   else if h : ∃ p, Sim.plabel p = s then v h.choose else s, ?_, ?_⟩
  · intro t
    have h : ∃ t', Sim.tlabel t' = Sim.tlabel t := ⟨t, rfl⟩
    simp only [h, dite_true]
    rw [tlabel_inj h.choose_spec]
  · intro p
    have hn : ¬ ∃ t, Sim.tlabel t = Sim.plabel p := fun ⟨t, ht⟩ => tlabel_ne_plabel t p ht
    have h : ∃ p', Sim.plabel p' = Sim.plabel p := ⟨p, rfl⟩
    simp only [hn, h, dite_false, dite_true]
    rw [plabel_inj h.choose_spec]

/-- In a utilisation row the pool id is the third column and nothing else depends on it. -/
theorem utilRow_id_equivariant (time : Int) (i j : Nat) (res : Resources) (nm : String) :
    utilRow time i res nm = (utilRow time j res nm).set 2 (Sim.plabel i) := rfl

example : Sim.tlabel ⟨1, 12⟩ = "g1.t12" ∧ Sim.tlabel ⟨11, 2⟩ = "g11.t2" := by decide

/-! ## (c) determinism of the model (definitional) -/

/-- The simulator model is a function of its explicit inputs (initial state = world +
decision tape + draw tape, and the fuel).  This is `congrArg`; it is stated only to record
that "same inputs, same trace" carries no content for a model. -/
theorem simulate_deterministic (s0 s0' : SimS) (fuel fuel' : Nat) (hs : s0 = s0') (hf : fuel = fuel') :
    Sim.simulate s0 fuel = Sim.simulate s0' fuel' := by
  subst hs; subst hf; rfl

end ErdosVerif.C09
