import ErdosVerif.Lemmas.SimInv
/-!
# C08 — the CSV trace and the end-of-run counters tell the truth

What is *proved* here, for all tasks, graphs, times and decision lists, about the pure
functions the simulator model delegates its reporting to (`Sim.finishOut` for
`__handle_task_finished`, `Sim.placedCount` / `Sim.unplacedCount` for the
SCHEDULER_FINISHED row):

* the TASK_FINISHED row carries the task's own completion time and deadline;
* a MISSED_DEADLINE row is written **iff** the finish time is later than the deadline,
  and exactly then the missed-deadline counter is incremented (by one);
* TASK_GRAPH_FINISHED is written iff the graph is complete, exactly then the
  finished-graph counter is incremented, and the missed-graph-deadline counter is
  incremented iff additionally the deadline is earlier than the finish time;
* the SCHEDULER_FINISHED row's placed + unplaced counts partition the PLACE_TASK decisions.

PARTIAL: the whole-run statements (the SIMULATOR_END counters equal the number of
corresponding rows / final task states; every trace is accepted by `CSVReader`) are not
theorems: they are decided by the C08 oracle on runs of the real simulator (ground truth
from the live `Task` objects and the project's own `CSVReader`), whose complete traces
are compared row by row with this model.
-/
namespace ErdosVerif.C08
open ErdosVerif.Model ErdosVerif.Model.Sim

def kindOf (r : Row) : String := r[1]?.getD ""

/-- The first row is the TASK_FINISHED row and carries the task's true completion time
and deadline (columns 5 and 6), the task and graph names. -/
theorem finished_row_truthful (x : TaskS) (g : GraphS) (ts tl : String) (time : Int) :
    (finishOut x g ts tl time).rows.head? =
      some [istr time, "TASK_FINISHED", x.name, ts, g.name, istr x.completion, istr x.deadline, tl] := by
  simp [finishOut]

/-- **A deadline miss is reported exactly when the finish time is later than the
deadline**, with the true deadline, and exactly then the counter is incremented. -/
theorem missed_deadline_iff (x : TaskS) (g : GraphS) (ts tl : String) (time : Int) :
    ((∃ r ∈ (finishOut x g ts tl time).rows, kindOf r = "MISSED_DEADLINE") ↔ time > x.deadline) ∧
    ((finishOut x g ts tl time).dMissedTaskDeadlines = if time > x.deadline then 1 else 0) ∧
    (∀ r ∈ (finishOut x g ts tl time).rows, kindOf r = "MISSED_DEADLINE" →
       r = [istr time, "MISSED_DEADLINE", x.name, ts, istr x.deadline, tl]) := by
  refine ⟨?_, rfl, ?_⟩
  · by_cases h : time > x.deadline <;> by_cases h2 : g.isComplete <;> by_cases h3 : time > g.deadline <;>
      simp [finishOut, h, h2, h3, kindOf]
  · intro r hr hk
    by_cases h : time > x.deadline <;> by_cases h2 : g.isComplete <;> by_cases h3 : time > g.deadline <;>
      simp [finishOut, h, h2, h3] at hr <;>
      (rcases hr with rfl | hr <;> try (rcases hr with rfl | hr) <;> try (rcases hr with rfl | hr)) <;>
      simp_all [kindOf]

/-- The task-graph rows and counters: TASK_GRAPH_FINISHED iff the graph is complete (and
then one more finished graph); one more missed graph deadline iff, in addition, the graph
deadline is earlier than the finish time. -/
theorem graph_finished_iff (x : TaskS) (g : GraphS) (ts tl : String) (time : Int) :
    ((∃ r ∈ (finishOut x g ts tl time).rows, kindOf r = "TASK_GRAPH_FINISHED") ↔ g.isComplete = true) ∧
    ((finishOut x g ts tl time).dFinishedGraphs = if g.isComplete then 1 else 0) ∧
    ((finishOut x g ts tl time).dMissedGraphDeadlines = if g.isComplete && g.deadline < time then 1 else 0) := by
  refine ⟨?_, rfl, rfl⟩
  by_cases h : time > x.deadline <;> by_cases h2 : g.isComplete <;> by_cases h3 : time > g.deadline <;>
    simp [finishOut, h, h2, h3, kindOf]

/-- Every row written for a finished task is one of the four kinds, stamped with the
event time. -/
theorem finish_rows_kinds (x : TaskS) (g : GraphS) (ts tl : String) (time : Int) :
    ∀ r ∈ (finishOut x g ts tl time).rows, r.head? = some (istr time) ∧
      (kindOf r = "TASK_FINISHED" ∨ kindOf r = "TASK_GRAPH_FINISHED" ∨ kindOf r = "MISSED_DEADLINE" ∨
       kindOf r = "MISSED_TASK_GRAPH_DEADLINE") := by
  intro r hr
  by_cases h : time > x.deadline <;> by_cases h2 : g.isComplete <;> by_cases h3 : time > g.deadline <;>
    simp [finishOut, h, h2, h3] at hr <;>
    (rcases hr with rfl | hr <;> try (rcases hr with rfl | hr) <;> try (rcases hr with rfl | hr)) <;>
    (try subst hr) <;> simp [kindOf]

/-- **SCHEDULER_FINISHED counts are true**: placed + unplaced is the number of
PLACE_TASK decisions (every such decision is counted once, on the right side). -/
theorem scheduler_counts_partition (ps : List PlacementS) :
    placedCount ps + unplacedCount ps = (ps.filter (fun p => p.kind == .place)).length := by
  unfold placedCount unplacedCount
  induction ps with
  | nil => rfl
  | cons p ps ih =>
    simp only [List.filter_cons]
    cases hk : (p.kind == PKind.place) <;> cases hp : p.isPlaced <;> simp [hk, hp] <;> omega

/-- An unplaced PLACE_TASK decision is counted as unplaced, never as placed. -/
theorem unplaced_counted (ps : List PlacementS) (p : PlacementS) (hp : p ∈ ps) (hk : p.kind = .place)
    (hu : p.isPlaced = false) : 0 < unplacedCount ps := by
  unfold unplacedCount
  apply List.length_pos_of_mem (a := p)
  simp [List.mem_filter, hp, hk, hu]

/-- Non-vacuity. -/
example : placedCount [⟨.place, ⟨0, 0⟩, 0, some 1, some 0, some 0, none⟩, ⟨.place, ⟨0, 1⟩, 0, none, none, none, none⟩,
                       ⟨.cancel, ⟨0, 2⟩, 0, none, none, none, none⟩] = 1 ∧
          unplacedCount [⟨.place, ⟨0, 0⟩, 0, some 1, some 0, some 0, none⟩, ⟨.place, ⟨0, 1⟩, 0, none, none, none, none⟩,
                       ⟨.cancel, ⟨0, 2⟩, 0, none, none, none, none⟩] = 1 := by decide

end ErdosVerif.C08
