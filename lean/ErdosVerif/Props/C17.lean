/-
C17 — graph algorithms agree with their definitions on every DAG.

Model: `ErdosVerif.Model.Graph` (M3, `workload/graph.py`).  Vocabulary
(`Lemmas/GraphBasic.lean`): `Edge`, `Reach` (reflexive–transitive), `HasCycle`,
`Acyclic`, `IsPath`, `IsSourceSinkPath`, `Before l u v` (`u` strictly before `v`
in `l`), `Simple` (no parallel edges) and the reachable-state invariant `WF`
(distinct keys, every child is a node, parent lists mirror child lists), which
holds for every graph built through `Graph()`, `add_node`, `add_child`,
`Graph(nodes=…)` (`wf_*` below).

Every theorem is stated about the public model functions only.  The three
findings of the first round (C17-D1 `depth_first` duplicates, C17-D2
`breadth_first(node)` omissions, C17-D3 `remove` dangling children) were repaired
in /repo (71bd5c0, a5de234, ce9bde1); the model follows the repaired code and the
former counterexamples are replaced by the positive statements `dfs_spec`,
`bfs_from_node_spec`, `remove_spec`.
-/
import ErdosVerif.Lemmas.GraphWF
import ErdosVerif.Lemmas.GraphTopo
import ErdosVerif.Lemmas.GraphDfs
import ErdosVerif.Lemmas.GraphBfs
import ErdosVerif.Lemmas.GraphLongest
import ErdosVerif.Lemmas.GraphDepth
import ErdosVerif.Lemmas.GraphBfsNode
import ErdosVerif.Lemmas.GraphRemove

namespace ErdosVerif.C17
open ErdosVerif.Model ErdosVerif.Model.Graph

/-- The running example: `A→[B,C], C→[B]` with `A=0, B=1, C=2`. -/
def diamond : Graph := Graph.ofMapping [(0, [1, 2]), (2, [1])]

/-! ### The domain: graphs built through the public constructors are well formed -/

theorem wf_empty : Graph.empty.WF := Graph.wf_empty

theorem wf_add_node {g : Graph} (wf : g.WF) (n : Nat) (cs : List Nat) : (g.addNode n cs).WF :=
  Graph.wf_addNode wf n cs

theorem wf_add_child {g g' : Graph} (wf : g.WF) {n c : Nat} (h : g.addChild n c = .ok g') : g'.WF :=
  Graph.wf_addChild wf h

theorem wf_of_mapping (m : List (Nat × List Nat)) : (Graph.ofMapping m).WF := Graph.wf_ofMapping m

example : diamond.WF := wf_of_mapping _
example : diamond.topologicalSort = .ok [0, 2, 1] := by rfl
theorem diamond_acyclic : diamond.Acyclic :=
  Graph.topo_ok_acyclic (wf_of_mapping _) (l := [0, 2, 1]) (by rfl)
theorem diamond_simple : diamond.Simple := by
  intro u
  unfold Graph.childrenOf
  by_cases h0 : u = 0
  · subst h0; decide
  by_cases h1 : u = 1
  · subst h1; decide
  by_cases h2 : u = 2
  · subst h2; decide
  have e0 : (u == 0) = false := by simp [h0]
  have e1 : (u == 1) = false := by simp [h1]
  have e2 : (u == 2) = false := by simp [h2]
  simp [diamond, Graph.ofMapping, Graph.addNode, Graph.linkChild, Graph.touch, Graph.empty,
    Graph.childrenOf, Graph.parentsOf, Dict.set, List.lookup, e0, e1, e2]

/-! ### `remove` -/

/-- Second half of the reachable-state invariant, needed only by `remove`:
`_parent_graph` is a dict (distinct keys).  It holds for every graph built through
the public API (`parents_keys_*`). -/
def ParentKeysNodup (g : Graph) : Prop := (g.parents.map Prod.fst).Nodup

theorem parents_keys_empty : ParentKeysNodup Graph.empty := Graph.parentsKeysNodup_empty
theorem parents_keys_add_node {g : Graph} (hp : ParentKeysNodup g) (n : Nat) (cs : List Nat) :
    ParentKeysNodup (g.addNode n cs) := Graph.parentsKeysNodup_addNode hp n cs
theorem parents_keys_add_child {g g' : Graph} (hp : ParentKeysNodup g) {n c : Nat}
    (h : g.addChild n c = .ok g') : ParentKeysNodup g' := Graph.parentsKeysNodup_addChild hp h
theorem parents_keys_of_mapping (m : List (Nat × List Nat)) : ParentKeysNodup (Graph.ofMapping m) :=
  Graph.parentsKeysNodup_ofMapping m
theorem parents_keys_remove {g : Graph} (hp : ParentKeysNodup g) (x : Nat) :
    ParentKeysNodup (g.remove x).1 := Graph.parentsKeysNodup_remove hp x

/-- `remove_spec` (holds since /repo commit ce9bde1): removing a node raises
nothing, keeps the graph well formed, deletes exactly that key (the order of the
others is kept) and exactly the edges incident to it. -/
theorem remove_spec {g : Graph} (wf : g.WF) (hp : ParentKeysNodup g) {x : Nat}
    (hx : g.hasNode x = true) :
    (g.remove x).2 = none ∧ (g.remove x).1.WF ∧
    (g.remove x).1.getNodes = g.getNodes.filter (fun k => k != x) ∧
    (∀ u v, (g.remove x).1.Edge u v ↔ g.Edge u v ∧ u ≠ x ∧ v ≠ x) := by
  obtain ⟨h1, h2, h3, _, _⟩ := Graph.remove_spec wf hp hx
  exact ⟨h1, h2, h3, Graph.edge_remove wf hp hx⟩

/-- `remove` keeps well-formedness in every case; on a label outside the graph it
raises `ValueError` and changes nothing. -/
theorem wf_remove {g : Graph} (wf : g.WF) (hp : ParentKeysNodup g) (x : Nat) : (g.remove x).1.WF :=
  Graph.wf_remove wf hp x

theorem remove_absent {g : Graph} {x : Nat} (hx : g.hasNode x = false) :
    g.remove x = (g, some "ValueError") := Graph.remove_absent hx

example := remove_spec (wf_of_mapping _) (parents_keys_of_mapping _) (g := diamond) (x := 2) (by decide)
example : (diamond.remove 2).1 = { children := [(0, [1]), (1, [])], parents := [(1, [0])] } := by decide

/-! ### `TaskGraph.update_edges` -/

/-- `update_edges_spec`: after `update_edges(mapping)` the graph IS the graph of the
new mapping (nothing of the old adjacency or parent lists survives), hence well
formed with distinct `_parent_graph` keys, so every theorem of this file applies to
it with the edges of the new mapping. -/
theorem update_edges_spec (g : Graph) (m : List (Nat × List Nat)) :
    g.updateEdges m = Graph.ofMapping m ∧ (g.updateEdges m).WF ∧ ParentKeysNodup (g.updateEdges m) :=
  ⟨rfl, wf_of_mapping m, parents_keys_of_mapping m⟩

example : (diamond.updateEdges [(2, [1]), (0, [2]), (1, [])]).getSources = [0] ∧
    (diamond.updateEdges [(2, [1]), (0, [2]), (1, [])]).parentsOf 1 = [2] := by decide

/-! ### `topological_sort` -/

/-- `topo_ok`: a returned order lists every node exactly once (it is a
permutation of the dict keys) and every edge goes forward. -/
theorem topo_ok {g : Graph} (wf : g.WF) {l : List Nat} (h : g.topologicalSort = .ok l) :
    l.Perm g.getNodes ∧ ∀ u v, g.Edge u v → Before l u v :=
  Graph.topo_ok wf h

/-- `topo_err`: an error is reported exactly when the graph has a cycle … -/
theorem topo_err {g : Graph} (wf : g.WF) : (∃ e, g.topologicalSort = .error e) ↔ g.HasCycle := by
  constructor
  · rintro ⟨e, h⟩; exact (Graph.topo_error wf h).2
  · intro hc
    cases h : g.topologicalSort with
    | error e => exact ⟨e, rfl⟩
    | ok l => exact absurd hc (Graph.topo_ok_acyclic wf h)

/-- … and the error is `RuntimeError` (never `KeyError`, `ValueError` or the
model-only `OutOfFuel`: recursion fuel `|V|+1` and two evaluations of the
`while any(...)` condition suffice). -/
theorem topo_err_class {g : Graph} (wf : g.WF) {e : String} (h : g.topologicalSort = .error e) :
    e = "RuntimeError" :=
  (Graph.topo_error wf h).1

example : (Graph.ofMapping [(0, [1]), (1, [0])]).topologicalSort = .error "RuntimeError" := by rfl

/-- On a graph with a cycle every routine that sorts first reports the cycle as
`RuntimeError` (`get_node_depth`, `are_dependent`, `get_longest_path`). -/
theorem cycle_is_runtime_error {g : Graph} (wf : g.WF) (hc : g.HasCycle) :
    g.topologicalSort = .error "RuntimeError" ∧
    (∀ n useMin, g.hasNode n = true → g.getNodeDepth n useMin = .error "RuntimeError") ∧
    (∀ a b, g.hasNode a = true → g.areDependent a b = .error "RuntimeError") ∧
    (∀ w, g.getLongestPath w = .error "RuntimeError") := by
  obtain ⟨e, he⟩ := (topo_err wf).mpr hc
  have hE := topo_err_class wf he
  subst hE
  refine ⟨he, ?_, ?_, ?_⟩
  · intro n useMin hn
    unfold Graph.getNodeDepth
    simp [hn, he]
  · intro a b ha
    unfold Graph.areDependent Graph.getNodeDepth
    simp [ha, he]
  · intro w
    unfold Graph.getLongestPath
    simp [he]

/-! ### `get_longest_path` / `critical_path_runtime` -/

/-- `longest_path_spec`: on a non-empty DAG with positive weights the result is a
real path from a source to a sink whose total weight is maximal among all
source-to-sink paths. -/
theorem longest_path_spec {g : Graph} (wf : g.WF) (hac : g.Acyclic) (hne : g.getNodes ≠ [])
    (w : Nat → Int) (hw : ∀ n, 0 < w n) :
    ∃ p, g.getLongestPath w = .ok p ∧ g.IsSourceSinkPath p ∧
      ∀ q, g.IsSourceSinkPath q → pathSum w q ≤ pathSum w p := by
  obtain ⟨order, htopo⟩ := Graph.topo_total wf hac
  obtain ⟨hperm, hfwd⟩ := Graph.topo_ok wf htopo
  exact Graph.longest_path_spec wf htopo hperm hfwd hne w hw

/-- `TaskGraph.critical_path_runtime` equals the maximum source-to-sink path weight
(and that maximum is attained). -/
theorem critical_path_runtime_spec {g : Graph} (wf : g.WF) (hac : g.Acyclic) (hne : g.getNodes ≠ [])
    (w : Nat → Int) (hw : ∀ n, 0 < w n) :
    ∃ t, g.criticalPathRuntime w = .ok t ∧
      (∃ p, g.IsSourceSinkPath p ∧ pathSum w p = t) ∧
      ∀ q, g.IsSourceSinkPath q → pathSum w q ≤ t := by
  obtain ⟨order, htopo⟩ := Graph.topo_total wf hac
  obtain ⟨hperm, hfwd⟩ := Graph.topo_ok wf htopo
  exact Graph.critical_path_runtime_spec wf htopo hperm hfwd hne w hw

/-- `JobGraph.critical_path_runtime` (and `completion_time` without SLO overrides)
is the same quantity when every job is live (`probability > ε`). -/
theorem job_critical_path_eq (g : Graph) (runtime : Nat → Int) :
    g.jobPathCost runtime (fun _ => true) runtime = g.criticalPathRuntime runtime := by
  unfold Graph.jobPathCost Graph.criticalPathRuntime
  simp

/-- The default weights (1 for a source, 2 otherwise) are positive, so
`get_longest_path()` is covered by `longest_path_spec`. -/
theorem default_weight_pos (g : Graph) (n : Nat) : 0 < g.defaultWeight n := by
  unfold Graph.defaultWeight; split <;> decide

example := longest_path_spec (wf_of_mapping _) diamond_acyclic (g := diamond) (by decide)
  (fun n => (n : Int) + 1) (by intro n; omega)
example : diamond.getLongestPath (fun n => (n : Int) + 1) = .ok [0, 2, 1] := by rfl
example : diamond.criticalPathRuntime (fun n => (n : Int) + 1) = .ok 6 := by rfl

/-! ### `get_node_depth` / `are_dependent` -/

/-- `depth_spec`: depth 1 for a node without parents, otherwise one more than the
max (`useMin = false`) / min (`useMin = true`) of the parents' depths. -/
theorem depth_spec {g : Graph} (wf : g.WF) (hac : g.Acyclic) (useMin : Bool)
    {n : Nat} (hn : g.hasNode n = true) :
    ∃ d, g.getNodeDepth n useMin = .ok (some d) ∧
      (g.parentsOf n = [] → d = 1) ∧
      (g.parentsOf n ≠ [] → ∃ f : Nat → Nat,
        (∀ p ∈ g.parentsOf n, g.getNodeDepth p useMin = .ok (some (f p))) ∧
        d = aggregate useMin ((g.parentsOf n).map f) + 1) := by
  obtain ⟨order, htopo⟩ := Graph.topo_total wf hac
  obtain ⟨hperm, hfwd⟩ := Graph.topo_ok wf htopo
  exact Graph.depth_spec_of_topo wf htopo hperm hfwd useMin hn

example := depth_spec (wf_of_mapping _) diamond_acyclic false (g := diamond) (n := 1) (by decide)
example : diamond.getNodeDepth 1 = .ok (some 3) := by rfl
example : diamond.getNodeDepth 1 true = .ok (some 2) := by rfl

/-- `dependent_iff_reach`: two nodes of a DAG are reported dependent exactly when
they are distinct and one is reachable from the other. -/
theorem dependent_iff_reach {g : Graph} (wf : g.WF) (hac : g.Acyclic) {a b : Nat}
    (ha : g.hasNode a = true) (hb : g.hasNode b = true) :
    ∃ r, g.areDependent a b = .ok r ∧ (r = true ↔ a ≠ b ∧ (g.Reach a b ∨ g.Reach b a)) := by
  obtain ⟨order, htopo⟩ := Graph.topo_total wf hac
  obtain ⟨hperm, hfwd⟩ := Graph.topo_ok wf htopo
  refine Graph.dependent_spec_of wf htopo hperm hfwd ?_ ha hb
  intro n hn
  exact ⟨Graph.dfs_no_error _ wf.closed hn, Graph.dfs_mem_iff_reach _ wf.closed hn⟩

example := dependent_iff_reach (wf_of_mapping _) diamond_acyclic (g := diamond) (a := 1) (b := 2)
  (by decide) (by decide)
example : diamond.areDependent 1 2 = .ok true := by rfl

/-! ### sources / sinks -/

/-- `sources_spec`: exactly the nodes without incoming edge, in dict order. -/
theorem sources_spec {g : Graph} (wf : g.WF) :
    g.getSources.Sublist g.getNodes ∧
      ∀ n, n ∈ g.getSources ↔ g.hasNode n = true ∧ ∀ u, ¬ g.Edge u n :=
  Graph.sources_spec wf

/-- `sinks_spec`: exactly the nodes without outgoing edge, in dict order. -/
theorem sinks_spec (g : Graph) :
    g.getSinks.Sublist g.getNodes ∧
      ∀ n, n ∈ g.getSinks ↔ g.hasNode n = true ∧ ∀ v, ¬ g.Edge n v :=
  Graph.sinks_spec g

example : diamond.getSources = [0] ∧ diamond.getSinks = [1] := by decide

/-! ### `breadth_first()` -/

/-- `bfs_spec`: on a DAG without parallel edges the iteration raises nothing,
yields every node exactly once, and yields every node after all its parents. -/
theorem bfs_spec {g : Graph} (wf : g.WF) (hac : g.Acyclic) (hs : g.Simple) :
    (g.breadthFirst none).2 = none ∧
    (g.breadthFirst none).1.Perm g.getNodes ∧
    ∀ u v, g.Edge u v → Before (g.breadthFirst none).1 u v :=
  Graph.bfs_spec wf hac hs

example : diamond.breadthFirst none = ([0, 2, 1], none) := by decide
example := bfs_spec (wf_of_mapping _) diamond_acyclic diamond_simple

/-- `bfs_from_node_spec` (holds since /repo commit a5de234): on a DAG without
parallel edges `breadth_first(n)` raises nothing, yields exactly the nodes reachable
from `n`, each once, and every node after all of its parents that are reachable
from `n`. -/
theorem bfs_from_node_spec {g : Graph} (wf : g.WF) (hac : g.Acyclic) (hs : g.Simple)
    {n : Nat} (hn : g.hasNode n = true) :
    (g.breadthFirst (some n)).2 = none ∧
    (g.breadthFirst (some n)).1.Nodup ∧
    (∀ m, m ∈ (g.breadthFirst (some n)).1 ↔ g.Reach n m) ∧
    ∀ u v, g.Edge u v → g.Reach n u → Before (g.breadthFirst (some n)).1 u v :=
  Graph.bfs_from_node_spec wf hac hs hn

example : diamond.breadthFirst (some 2) = ([2, 1], none) := by decide
example := bfs_from_node_spec (wf_of_mapping _) diamond_acyclic diamond_simple (n := 2) (by decide)

/-! ### `depth_first(node)` -/

/-- `dfs_spec` (full clause, holds since /repo commit 71bd5c0): `depth_first(n)`
raises nothing and yields exactly the nodes reachable from `n`, each once. -/
theorem dfs_spec {g : Graph} (wf : g.WF) {n : Nat} (hn : g.hasNode n = true) :
    (g.depthFirst (some n)).2 = none ∧ (g.depthFirst (some n)).1.Nodup ∧
      ∀ m, m ∈ (g.depthFirst (some n)).1 ↔ g.Reach n m :=
  ⟨Graph.dfs_no_error _ wf.closed hn, Graph.dfs_nodup_of_skip g _,
    Graph.dfs_mem_iff_reach _ wf.closed hn⟩

/-- Same for `depth_first()` from the sources. -/
theorem dfs_spec_sources {g : Graph} (wf : g.WF) :
    (g.depthFirst none).2 = none ∧ (g.depthFirst none).1.Nodup ∧
      ∀ m, m ∈ (g.depthFirst none).1 ↔ ∃ s, s ∈ g.getSources ∧ g.Reach s m :=
  ⟨Graph.dfs_sources_no_error _ wf.closed, Graph.dfs_nodup_of_skip g _,
    Graph.dfs_sources_mem_iff _ wf.closed⟩

example := dfs_spec (wf_of_mapping _) (g := diamond) (n := 0) (by decide)
example : diamond.depthFirst (some 0) = ([0, 2, 1], none) := by decide

/-- Regression record for finding C17-D1 (repaired): the former generator
(`skip = false`) yielded `A,C,B,B` on `A→[B,C], C→[B]`; dropping its repeated
yields gives exactly the current output, on every graph and for every start. -/
theorem dfs_former_output_dedup (g : Graph) (start : Option Nat) :
    (g.depthFirstWith false start).1.eraseDups = (g.depthFirst start).1 :=
  Graph.dfs_dedup_eq_skip g start

/-! ### Fuel -/

/-- `fuel_suffices`: the model-only outcome `OutOfFuel` is never produced by
`depth_first` (any graph, any start), by `topological_sort` / `get_node_depth` /
`are_dependent` (well-formed graphs: `topo_err_class`, `depth_spec`,
`dependent_iff_reach`), by `breadth_first()` / `breadth_first(node)` on simple DAGs
(`bfs_spec`, `bfs_from_node_spec`) or by `get_longest_path` with positive weights
on DAGs (`longest_path_spec`). -/
theorem fuel_suffices_dfs (g : Graph) (start : Option Nat) :
    (g.depthFirst start).2 ≠ some "OutOfFuel" :=
  Graph.dfs_fuel_suffices _ g start

end ErdosVerif.C17
