/-
C17 — graph algorithms agree with their definitions on every DAG.
(Theorems are added as they are proved; see lean/registry/C17.json.)
-/
import ErdosVerif.Model.Graph

namespace ErdosVerif.C17
open ErdosVerif.Model

/-- Finding C17-D1: the current `depth_first` yields a node more than once
(`A→[B,C], C→[B]` gives `A,C,B,B`), so "each once" is false of the code as it is. -/
theorem dfs_each_once_counterexample :
    ¬ ((Graph.ofMapping [(0, [1, 2]), (2, [1])]).depthFirstWith false (some 0)).1.Nodup := by
  decide

end ErdosVerif.C17
