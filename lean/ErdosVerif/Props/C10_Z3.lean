/-
C10 (Z3 clauses): for EVERY assignment `σ` satisfying the hard assertions of the Z3 scheduler,
the decisions `decode inst σ` that `schedule()` returns are: exactly one per offered task and
for offered tasks only (none has started); a placement names an existing worker (hence pool)
that can accommodate the task now, at a time `≥ now` and `≥` the release time; and at every
instant the demands of the placed tasks on any resource entry of any worker stay within the
*available* quantity, i.e. together with the RUNNING tasks (which hold `total − available`)
within the worker's capacity.  Z3 placements carry no execution strategy (`Decision` has none).

Where the current code fails the property (docs/planner_z3.md):
* `schedule()` does not always return: `Inst.crash` (findings C10-Z3-1 / C10-Z3-2,
  `crash_extract_counterexample`, `crash_width_counterexample`, `returns_normally_partial`);
* SCHEDULED tasks that are not re-offered are invisible (C10-Z3-3,
  `scheduled_invisible_counterexample`): `jointly_feasible` speaks about RUNNING tasks only;
* two resource entries of one name on a worker break the exclusivity (C10-Z3-4,
  `double_entry_counterexample`): `jointly_feasible` assumes `wfSingleEntry`.

`pure` (nothing live changes) is covered by the suite's before/after snapshots, not by a theorem.
-/
import ErdosVerif.Lemmas.Z3Capacity
import ErdosVerif.Props.C11_Z3
namespace ErdosVerif.C10_Z3
open ErdosVerif.Z3m ErdosVerif.C11_Z3

theorem decodeTask_task (I : Inst) (σ : Assign Var) (t : Nat) : (I.decodeTask σ t).task = t := by
  unfold Inst.decodeTask; split <;> rfl

/-- Exactly one decision per offered task, in the order offered. -/
theorem one_decision_per_task (I : Inst) (σ : Assign Var) :
    (decode I σ).map (fun d => d.task) = List.range I.nT := by
  simp only [decode, List.map_map]
  conv => rhs; rw [← List.map_id (List.range I.nT)]
  apply List.map_congr_left
  intro t _
  simp [decodeTask_task]

theorem no_duplicate_decisions (I : Inst) (σ : Assign Var) :
    ((decode I σ).map (fun d => d.task)).Nodup := by
  rw [one_decision_per_task]; exact List.nodup_range

/-- Decisions are for offered tasks only, and no offered task has started. -/
theorem only_offered_not_started {I : Inst} {σ : Assign Var} (hst : I.wfStates = true) {d : Decision}
    (hd : d ∈ decode I σ) : d.task < I.nT ∧ (I.task d.task).state ≠ .running := by
  obtain ⟨t, ht, rfl⟩ := mem_decode.mp hd
  rw [decodeTask_task]
  refine ⟨ht, ?_⟩
  unfold Inst.wfStates at hst
  rw [List.all_eq_true] at hst
  have hm : I.task t ∈ I.tasks := by
    unfold Inst.task Inst.nT at *
    rw [List.getD_eq_getElem?_getD, List.getElem?_eq_getElem ht]
    exact List.getElem_mem ht
  have := hst _ hm
  intro hr
  simp [hr] at this

/-- Every offered task is answered. -/
theorem answers_all_offered (I : Inst) (σ : Assign Var) {t : Nat} (ht : t < I.nT) :
    ∃ d ∈ decode I σ, d.task = t :=
  ⟨I.decodeTask σ t, mem_decode.mpr ⟨t, ht, rfl⟩, decodeTask_task I σ t⟩

/-- When z3 reports no model, every offered task is answered "not placed". -/
theorem fail_answers (I : Inst) :
    (decodeFail I).map (fun d => d.task) = List.range I.nT ∧ ∀ d ∈ decodeFail I, d.placed = none := by
  constructor
  · simp only [decodeFail, List.map_map]
    conv => rhs; rw [← List.map_id (List.range I.nT)]
    apply List.map_congr_left; intro t _; rfl
  · intro d hd
    simp only [decodeFail, List.mem_map] at hd
    obtain ⟨t, _, rfl⟩ := hd; rfl

/-- What a placement decision says about σ. -/
theorem decision_spec {I : Inst} {σ : Assign Var} {t w : Nat} {time : Int}
    (hd : (⟨t, some (w, time)⟩ : Decision) ∈ decode I σ) :
    t < I.nT ∧ σ.b (.placed t) = true ∧ I.workerOf σ t = some w ∧ time = σ.i (.start t) := by
  obtain ⟨t', ht, hdt⟩ := mem_decode.mp hd
  have htt : t' = t := by
    have := congrArg Decision.task hdt
    rw [decodeTask_task] at this; exact this.symm
  subst htt
  have hpl : σ.b (.placed t') = true := by
    by_cases hb : σ.b (.placed t') = true
    · exact hb
    · simp [Inst.decodeTask, hb] at hdt
  simp only [Inst.decodeTask, hpl, if_true] at hdt
  cases hw : I.workerOf σ t' with
  | none => simp [hw] at hdt
  | some k =>
    simp [hw] at hdt
    exact ⟨ht, hpl, by rw [hdt.1], hdt.2⟩

/-- `model[is_placed]` true never ends in a `KeyError`: the decision is a placement. -/
theorem placed_has_decision {I : Inst} {σ : Assign Var} (h : sat σ (gen I)) {t : Nat} (ht : t < I.nT)
    (hpl : σ.b (.placed t) = true) :
    ∃ w, w < I.nW ∧ (⟨t, some (w, σ.i (.start t))⟩ : Decision) ∈ decode I σ := by
  obtain ⟨k, hk, hw⟩ := placed_has_worker h ht hpl
  exact ⟨k, hk, mem_decode.mpr ⟨t, ht, by simp [Inst.decodeTask, hpl, hw]⟩⟩

/-- A placement names an existing worker (whose pool is the reported pool) that passed
`can_be_placed` for the task, a time not before `now` and not before the release time. -/
theorem placement_wellformed {I : Inst} {σ : Assign Var} (h : sat σ (gen I)) {t w : Nat} {time : Int}
    (hd : (⟨t, some (w, time)⟩ : Decision) ∈ decode I σ) :
    w < I.nW ∧ I.canBePlaced t w = true ∧ time ≥ I.now ∧ time ≥ (I.task t).release := by
  obtain ⟨ht, hpl, hw, rfl⟩ := decision_spec hd
  have hb := start_bounds h ht (placed_hasRes h ht hpl)
  exact ⟨(workerOf_spec hw).1, placed_canBePlaced h ht hpl hw, hb.1, hb.2⟩

/-- The tasks counted by `Inst.load` are exactly the returned placements that occupy the worker. -/
theorem active_is_decision {I : Inst} {σ : Assign Var} {w t : Nat} {τ : Int} :
    t ∈ I.active σ w τ ↔ ∃ time, (⟨t, some (w, time)⟩ : Decision) ∈ decode I σ ∧
      time ≤ τ ∧ τ < time + (I.rem t : Int) := by
  constructor
  · intro ht
    obtain ⟨h0, hpl, hw, h1, h2⟩ := mem_active.mp ht
    exact ⟨σ.i (.start t), mem_decode.mpr ⟨t, h0, by simp [Inst.decodeTask, hpl, hw]⟩, h1, h2⟩
  · rintro ⟨time, hd, h1, h2⟩
    obtain ⟨ht, hpl, hw, rfl⟩ := decision_spec hd
    exact mem_active.mpr ⟨ht, hpl, hw, h1, h2⟩

/-- **Joint feasibility at every planned instant.**  For every worker, every resource entry of
it and every instant τ, the demand of the returned placements occupying the worker at τ is
within the quantity available on the entry — equivalently, together with what the RUNNING tasks
hold (`total − available`), within the entry's total capacity. -/
theorem jointly_feasible {I : Inst} {σ : Assign Var} (h : sat σ (gen I))
    (hcr : I.crashExtract = false) (hch : I.wfChains = true) (hse : I.wfSingleEntry = true)
    (hav : I.wfAvail = true) {w : Nat} (hw : w < I.nW) {e : ResEntry} (he : e ∈ (I.worker w).res)
    (τ : Int) :
    I.load σ w e.name τ ≤ e.avail ∧ I.load σ w e.name τ + (e.total - e.avail) ≤ e.total := by
  have h1 := capacity_at_instant h hcr hch hse hav hw he τ
  have h2 := avail_le_total hav hw he
  exact ⟨h1, by omega⟩

/-! ### "Returns normally" (findings C10-Z3-1, C10-Z3-2)

Full statement (FALSE for the current code): `∀ I, I.crash = none`. -/

/-- Partial: the call returns when no bit-vector has width 0 and no `Extract` reaches beyond its
argument; missing w.r.t. the full statement: both conditions fail on reachable states. -/
theorem returns_normally_partial {I : Inst} (h1 : I.crashWidth = false) (h2 : I.crashExtract = false) :
    I.crash = none := by simp [Inst.crash, h1, h2]

/-- now = 3, one 2-CPU worker with one CPU in use, two unrelated released 1-CPU tasks. -/
def exExtract : Inst :=
  { now := 3,
    workers := [⟨"W0", "P0", [⟨"CPU", 2, 1⟩]⟩],
    tasks := [⟨"B@G1", "G1", .released, 0, 30, 0, [⟨2, [("CPU", 1)]⟩]⟩,
              ⟨"C@G2", "G2", .released, 0, 30, 0, [⟨2, [("CPU", 1)]⟩]⟩],
    nodes := [⟨"B@G1", "G1", 30, -1⟩, ⟨"C@G2", "G2", 30, -1⟩],
    edges := [],
    enforceDeadlines := true }

/-- **Finding C10-Z3-1**: `Extract(total − 1, 0, ·)` on a bit-vector as wide as the largest
*available* quantity. -/
theorem crash_extract_counterexample :
    exExtract.wf = true ∧ exExtract.wfStates = true ∧
    exExtract.crash = some ("Z3Exception", "invalid extract application") := by decide

/-- A CPU-only worker; a task with a CPU strategy and a GPU strategy. -/
def exWidth : Inst :=
  { now := 0,
    workers := [⟨"W0", "P0", [⟨"CPU", 2, 2⟩]⟩],
    tasks := [⟨"A@G0", "G0", .released, 0, 30, 0, [⟨4, [("CPU", 1)]⟩, ⟨2, [("GPU", 1)]⟩]⟩],
    nodes := [⟨"A@G0", "G0", 30, -1⟩],
    edges := [],
    enforceDeadlines := true }

/-- **Finding C10-Z3-2**: `BitVec(name, 0)` for a resource type nobody has available. -/
theorem crash_width_counterexample :
    exWidth.wf = true ∧ exWidth.wfStates = true ∧
    exWidth.crash = some ("Z3Exception", "bit-vector size must be greater than zero") := by decide

/-! ### SCHEDULED tasks that are not re-offered (finding C10-Z3-3)

Full statement (FALSE): `… → I.load σ w e.name τ + I.reservedAt w e.name τ + (e.total − e.avail) ≤ e.total`. -/

/-- now = 3; X is SCHEDULED for t = 5 with both CPUs of W0 (runtime 4) and not re-offered;
Y (1 CPU, runtime 4) is released. -/
def exSched : Inst :=
  { now := 3,
    workers := [⟨"W0", "P0", [⟨"CPU", 2, 2⟩]⟩],
    tasks := [⟨"Y@G1", "G1", .released, 0, 30, 0, [⟨4, [("CPU", 1)]⟩]⟩],
    nodes := [⟨"Y@G1", "G1", 30, -1⟩],
    edges := [],
    enforceDeadlines := true,
    reserved := [⟨0, "CPU", 2, 5, 9⟩] }

/-- What z3 returns: Y on W0 at 3. -/
def exSchedσ : Assign Var :=
  { i := fun v => match v with
      | .start 0 => 3 | .penalty => -2000000000 | .slack _ => 23 | .slackSum => 23 | _ => 0,
    b := fun v => match v with | .placed 0 => true | _ => false,
    v := fun v => match v with | .worker 0 => [true] | .res 0 _ => [true, false] | _ => [] }

theorem scheduled_invisible_counterexample :
    exSched.crash = none ∧ exSched.wf = true ∧ sat exSchedσ (gen exSched) ∧
    decode exSched exSchedσ = [⟨0, some (0, 3)⟩] ∧
    exSched.load exSchedσ 0 "CPU" 5 + exSched.reservedAt 0 "CPU" 5 = 3 := by decide

/-! ### Two entries of one resource name (finding C10-Z3-4) -/

/-- One worker with entries CPU:2 and CPU:1; two unrelated tasks needing 2 CPUs each. -/
def exDouble : Inst :=
  { now := 0,
    workers := [⟨"W0", "P0", [⟨"CPU", 2, 2⟩, ⟨"CPU", 1, 1⟩]⟩],
    tasks := [⟨"A@G0", "G0", .released, 0, 30, 0, [⟨4, [("CPU", 2)]⟩]⟩,
              ⟨"B@G1", "G1", .released, 0, 30, 0, [⟨4, [("CPU", 2)]⟩]⟩],
    nodes := [⟨"A@G0", "G0", 30, -1⟩, ⟨"B@G1", "G1", 30, -1⟩],
    edges := [],
    enforceDeadlines := true }

/-- What z3 returns: both on W0 at 0 with patterns 110 and 101 (the two `…_independent_…`
constants of the model are one z3 constant; σ gives them the same value). -/
def exDoubleσ : Assign Var :=
  { i := fun v => match v with
      | .penalty => -2000000000 | .slack _ => 26 | .slackSum => 52 | _ => 0,
    b := fun v => match v with
      | .placed _ => true | .overlap 0 1 => true | .indep 0 _ 0 1 => true | _ => false,
    v := fun v => match v with
      | .worker _ => [true] | .res 0 _ => [false, true, true] | .res 1 _ => [true, false, true] | _ => [] }

theorem double_entry_counterexample :
    exDouble.crash = none ∧ exDouble.wfSingleEntry = false ∧ sat exDoubleσ (gen exDouble) ∧
    decode exDouble exDoubleσ = [⟨0, some (0, 0)⟩, ⟨1, some (0, 0)⟩] ∧
    exDouble.load exDoubleσ 0 "CPU" 0 = 4 ∧ (exDouble.worker 0).avail "CPU" = 3 := by decide

/-! ### Non-vacuity -/

/-- One 2-CPU worker, nothing running, two unrelated 1-CPU tasks run side by side. -/
def exPair : Inst :=
  { now := 0,
    workers := [⟨"W0", "P0", [⟨"CPU", 2, 2⟩]⟩],
    tasks := [⟨"A@G0", "G0", .released, 0, 30, 0, [⟨4, [("CPU", 1)]⟩]⟩,
              ⟨"B@G1", "G1", .released, 0, 30, 0, [⟨3, [("CPU", 1)]⟩]⟩],
    nodes := [⟨"A@G0", "G0", 30, -1⟩, ⟨"B@G1", "G1", 30, -1⟩],
    edges := [],
    enforceDeadlines := true }

def exPairσ : Assign Var :=
  { i := fun v => match v with
      | .penalty => -2000000000 | .slack "G0" => 26 | .slack _ => 27 | .slackSum => 53 | _ => 0,
    b := fun v => match v with
      | .placed _ => true | .overlap 0 1 => true | .indep 0 _ 0 1 => true | _ => false,
    v := fun v => match v with
      | .worker _ => [true] | .res 0 _ => [true, false] | .res 1 _ => [false, true] | _ => [] }

example : exPair.crash = none ∧ exPair.wf = true ∧ exPair.wfStates = true := by decide
example : sat exPairσ (gen exPair) := by decide
example : exPair.active exPairσ 0 0 = [0, 1] ∧ exPair.load exPairσ 0 "CPU" 0 = 2 := by decide
example : C11_Z3.exChain.crashExtract = false ∧ C11_Z3.exChain.wf = true ∧
    C11_Z3.exChain.capacityOK C11_Z3.exChainσ = true := by decide

end ErdosVerif.C10_Z3
