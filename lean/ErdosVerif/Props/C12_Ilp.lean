/-
C12 (ILP clause): with `enforce_deadlines`, in task-by-task mode (no
`release_taskgraphs`, where enforcement is unconditional), for EVERY feasible point
`σ` of the optimisation model the ILP scheduler builds:

* a placed task has `start + runtime(chosen strategy) ≤ deadline`;
* a task that cannot finish by its deadline even with its fastest strategy starting at
  the earliest start the model allows (`max(now+1, release)`, hence in particular a task
  with `deadline < now + fastest`) is placed by no feasible point: it is left unplaced.

Both are stated over `decode` (what `schedule()` returns) as well.
-/
import ErdosVerif.Lemmas.IlpDecode
namespace ErdosVerif.C12_Ilp
open ErdosVerif.Mip ErdosVerif.Ilp

/-- Task-by-task mode with enforcement: every task's deadline row is emitted. -/
theorem enforce_unconditional (I : Inst) (he : I.enforceDeadlines = true)
    (hm : I.releaseTaskgraphs = false) (t : Nat) : I.enforce t = true := by
  simp [Inst.enforce, he, hm]

/-- The deadline row `start + Σ x·runtime ≤ deadline`, semantically. -/
theorem deadline_row {I : Inst} {σ : Var → Int} (h : sat σ (gen I)) {t : Nat} (ht : t < I.nT)
    (hr : I.running t = false) (he : I.enforce t = true) :
    σ (.start t) + dur I σ t ≤ (I.task t).deadline := by
  have hc : Constr.lin s!"{I.tname t}_enforce_deadlines" (LinExpr.add (I.startE t) (I.durE t)) .le
      (I.task t).deadline ∈ I.constrs :=
    mem_constrs_task (mem_nonRunning.mpr ⟨ht, hr⟩) (by simp [Inst.cDeadline, he])
  have := sat_constr h hc
  simp only [Constr.holds, Sense.holds, LinExpr.eval_add, eval_durE] at this
  have hs : (I.startE t).eval σ = σ (.start t) := sval_var hr
  omega

/-- **C12, model level.** In every feasible point, a (worker, strategy) pair selected for a
task whose deadline is enforced finishes by the deadline. -/
theorem placed_meets_deadline {I : Inst} {σ : Var → Int} (h : sat σ (gen I)) {t w s : Nat}
    (ht : t < I.nT) (hw : w < I.nW) (hs : s < (I.task t).nS) (hr : I.running t = false)
    (he : I.enforce t = true) (hx : xval I σ t w s = 1) :
    σ (.start t) + I.runtime t s ≤ (I.task t).deadline := by
  have h1 := deadline_row h ht hr he
  have h2 := runtime_le_dur h ht hw hs hx
  omega

/-- **C12, decision level.** Every placement returned by `schedule()` (decoded from any
feasible point) for a task with an enforced deadline completes by that deadline. -/
theorem decision_meets_deadline {I : Inst} {σ : Var → Int} (h : sat σ (gen I))
    (he : I.enforceDeadlines = true) (hm : I.releaseTaskgraphs = false)
    {d : Decision} (hd : d ∈ decode I σ) {w s : Nat} {time : Int}
    (hp : d.placed = some (w, s, time)) :
    time + I.runtime d.task s ≤ (I.task d.task).deadline := by
  obtain ⟨t, ht, hr, rfl⟩ := mem_decode.mp hd
  obtain ⟨hc, rfl⟩ := decodeTask_placed hp
  have hsp := chosen_spec hc
  exact placed_meets_deadline h ht hsp.1 hsp.2.1 hr (enforce_unconditional I he hm t) (chosen_xval hc)

/-- Fastest runtime bound: `f ≤ runtime s` for every strategy `s` of `t`. -/
def fastestLB (I : Inst) (t : Nat) (f : Int) : Prop := ∀ s, s < (I.task t).nS → f ≤ I.runtime t s

/-- **C12, hopeless tasks.** If even the fastest strategy started at the earliest start the
model allows misses the deadline, no feasible point selects any pair for the task. -/
theorem hopeless_unplaced {I : Inst} {σ : Var → Int} (h : sat σ (gen I)) {t : Nat} (ht : t < I.nT)
    (hr : I.running t = false) (he : I.enforce t = true) {f : Int} (hf : fastestLB I t f)
    (hopeless : (I.task t).deadline < I.startLb t + f) {w s : Nat} (hw : w < I.nW)
    (hs : s < (I.task t).nS) : xval I σ t w s = 0 := by
  rcases xval_binary h ht hw hs with h0 | h1
  · exact h0
  · have h2 := placed_meets_deadline h ht hw hs hr he h1
    have h3 := start_lb h ht hr
    have h4 := hf s hs
    omega

/-- The property's wording: `deadline < now + fastest` is hopeless. -/
theorem hopeless_from_now {I : Inst} {t : Nat} {f : Int}
    (hopeless : (I.task t).deadline < I.now + f) : (I.task t).deadline < I.startLb t + f := by
  have : I.now + 1 ≤ I.startLb t := by simp [Inst.startLb]; omega
  omega

/-- **C12, decision level, hopeless tasks.** Such a task is reported unplaced. -/
theorem hopeless_decision_unplaced {I : Inst} {σ : Var → Int} (h : sat σ (gen I))
    (he : I.enforceDeadlines = true) (hm : I.releaseTaskgraphs = false)
    {t : Nat} (ht : t < I.nT) (hr : I.running t = false) {f : Int} (hf : fastestLB I t f)
    (hopeless : (I.task t).deadline < I.now + f) :
    (I.decodeTask σ t).placed = none := by
  cases hp : (I.decodeTask σ t).placed with
  | none => rfl
  | some p =>
    obtain ⟨w, s, time⟩ := p
    obtain ⟨hc, _⟩ := decodeTask_placed hp
    have hsp := chosen_spec hc
    have h0 := hopeless_unplaced h ht hr (enforce_unconditional I he hm t) hf
      (hopeless_from_now hopeless) hsp.1 hsp.2.1
    have h1 := chosen_xval hc
    omega

/-! ### Non-vacuity: a concrete instance and a feasible point -/

/-- One worker (CPU 2), one released task (runtime 3 or 5, deadline 9), now = 2. -/
def exInst : Inst :=
  { now := 2
    workers := [⟨"W0", "P0", [("CPU", 2)]⟩]
    tasks := [⟨"T0@G0", "T0", 0, "G0", .released, 1, 9,
               [⟨1, 3, [("CPU", 1)]⟩, ⟨1, 5, [("CPU", 2)]⟩], 0, 0⟩]
    nOffered := 1
    nodes := [⟨"T0@G0", "T0", 0, "G0", .released⟩]
    edges := []
    enforceDeadlines := true, retract := false, releaseTaskgraphs := false, goalSlack := false
    allowed0 := [] }

/-- Start at 4 with the slow strategy (finishes exactly at the deadline 9). -/
def exSigma : Var → Int
  | .start 0 => 4
  | .x 0 0 1 => 1
  | .greward 0 => 1
  | .treward 0 => 1
  | _ => 0

example : sat exSigma (gen exInst) := by decide
example : (decode exInst exSigma) = [⟨0, some (0, 1, 4)⟩] := by decide
/-- The boundary `start + runtime = deadline` is allowed … -/
example : (4 : Int) + exInst.runtime 0 1 = (exInst.task 0).deadline := by decide
/-- … and one tick later is not feasible. -/
example : ¬ sat (fun v => if v = .start 0 then 5 else exSigma v) (gen exInst) := by decide

end ErdosVerif.C12_Ilp
