import ErdosVerif.Lemmas.TaskLegal
import ErdosVerif.Lemmas.CancelClosure
/-!
# C06 — task lifecycle is a legal state machine; cancellation is closed downstream

Models: `Model/Task.lean` (every mutating call of the `Task` API),
`Model/TaskGraph.lean` (`TaskGraph.cancel`).
-/
namespace ErdosVerif.C06
open ErdosVerif.Model

/-- **Legal step**: for every task state and every API call (`release`, `schedule`,
`unschedule`, `start`, `step`, `finish`, `cancel`, `preempt`, `update_remaining_time`)
with any arguments, the call either leaves the state alone (refused or no-op) or
takes a step of the life-cycle relation `Legal`. -/
theorem legal_step (t : TaskS) (c : TaskCall) (h : t.PreOK) : StepOK t.state (t.call c).1.state :=
  call_legal t c h

/-- The hypothesis of `legal_step` is an invariant of the API and holds initially. -/
theorem pre_ok_invariant (t : TaskS) (c : TaskCall) (h : t.PreOK) : (t.call c).1.PreOK := call_preOK t c h

/-- Along any sequence of API calls every consecutive pair of states is equal or legal. -/
theorem legal_history (t : TaskS) (cs : List TaskCall) (h : t.PreOK) :
    (cs.foldl (fun x c => (x.call c).1) t).PreOK ∧
    ∀ (pre : List TaskCall) (c : TaskCall) (post : List TaskCall), cs = pre ++ c :: post →
      StepOK (pre.foldl (fun x c => (x.call c).1) t).state
             (((pre.foldl (fun x c => (x.call c).1) t).call c).1).state := by
  have inv : ∀ (l : List TaskCall) (x : TaskS), x.PreOK → (l.foldl (fun x c => (x.call c).1) x).PreOK := by
    intro l
    induction l with
    | nil => intro x hx; exact hx
    | cons c r ih => intro x hx; exact ih _ (call_preOK x c hx)
  refine ⟨inv cs t h, ?_⟩
  intro pre c post _
  exact call_legal _ c (inv pre t h)

/-- COMPLETED and CANCELLED are final. -/
theorem final (t : TaskS) (c : TaskCall) (h : t.PreOK)
    (hf : t.state = .completed ∨ t.state = .cancelled) : (t.call c).1.state = t.state :=
  final_states t c h hf

/-- A task becomes CANCELLED only before it runs. -/
theorem cancelled_only_before_running (t : TaskS) (c : TaskCall) (h : t.PreOK)
    (hc : (t.call c).1.state = .cancelled) (hne : t.state ≠ .cancelled) :
    t.state = .virtual ∨ t.state = .released ∨ t.state = .scheduled :=
  Model.cancelled_only_before_running t c h hc hne

/-- A cancelled task never starts: `start` on it is refused. -/
theorem cancelled_never_starts (t : TaskS) (time fuzzed : Int) (h : t.state = .cancelled) :
    (t.doStart time fuzzed).2 = some .valueError ∧ (t.doStart time fuzzed).1 = t := by
  simp [TaskS.doStart, h]

/-- The state numbering and `RELEASABLE_TASK_STATES` of the source are the model's. -/
theorem tables_match :
    Gen.taskStateTable = [TState.virtual, .released, .scheduled, .running, .preempted, .evicted,
      .completed, .cancelled].map (fun s => (s.name, s.val)) ∧
    Gen.releasableTaskStates = [TState.virtual.name, TState.scheduled.name, TState.preempted.name] :=
  state_table_matches

/-- **Cancellation is closed downstream**: when `TaskGraph.cancel(task)` returns,
every child of every task it cancelled is CANCELLED as well, except a terminal
(join) task that still has a parent which is not cancelled. -/
theorem cancel_closure (g : GraphS) (n : Nat) (time : Int) (hwf : g.EdgesWF)
    (herr : (g.cancel n time).err = none) :
    ∀ c ∈ (g.cancel n time).cancelled, ∀ k ∈ g.kids c,
      (g.cancel n time).g.stateOf k = .cancelled ∨
      (g.terminalOf k = true ∧ k ≠ n ∧ ∃ p ∈ g.pars k, (g.cancel n time).g.stateOf p ≠ .cancelled) :=
  GraphS.cancel_closed g n time hwf herr

/-- **Frame**: nothing but the reported tasks changes; each reported task was
VIRTUAL / RELEASED / SCHEDULED and is now CANCELLED. -/
theorem cancel_frame (g : GraphS) (n : Nat) (time : Int) (herr : (g.cancel n time).err = none) :
    ∀ k, (g.cancel n time).g.stateOf k = g.stateOf k ∨
      (k ∈ (g.cancel n time).cancelled ∧ (g.cancel n time).g.stateOf k = .cancelled ∧
       GraphS.Cancellable (g.stateOf k)) :=
  GraphS.cancel_frame g n time herr

/-! ### non-vacuity -/

/-- A fresh task satisfies the hypothesis. -/
example : ({ name := "T", conditional := false, terminal := false, prob := 1000, strategies := [],
             profile := 0, deadline := 10 } : TaskS).PreOK := Or.inl rfl

/-- The fork-in-branch graph `C→{B1→{X,Y}→J, B2→J}` (J terminal): cancelling `C`
cancels all six tasks (the shape on which the repository's `break` used to stop). -/
example :
    let mk (nm : String) (term : Bool) : TaskS :=
      { name := nm, conditional := false, terminal := term, prob := 1000, strategies := [], profile := 0, deadline := 10 }
    let g : GraphS := ⟨"G", #[mk "C" false, mk "B1" false, mk "B2" false, mk "X" false, mk "Y" false, mk "J" true],
      #[[1, 2], [3, 4], [5], [5], [5], []], #[[], [0], [0], [1], [1], [2, 3, 4]], [0, 1, 2, 3, 4, 5]⟩
    (g.cancel 0 7).err = none ∧ (g.cancel 0 7).cancelled.length = 6 := by
  decide

end ErdosVerif.C06
