/-
C10 (ILP clause): the decision `schedule()` returns, read off ANY feasible point `σ` of the
model (`decode inst σ`), or the all-unplaced answer when the solver finds nothing
(`decodeFail inst`), is complete, feasible and side-effect free:

* exactly one decision per task that has variables and is not RUNNING, in
  `tasks_to_variables` order: no duplicates, none for a RUNNING task, only for tasks that
  were offered or that the scheduler itself had SCHEDULED earlier (the instance's task list);
* every offered task that is not RUNNING is answered;
* a placement names a worker of this invocation (hence its pool), a strategy of the task
  that this worker can hold, and a start `≥ max(now + 1, release) ≥ max(now, release)`;
* all placements together with the RUNNING tasks never exceed any worker's total quantity of
  any resource at any instant (occupancy `[start, start + runtime]`, RUNNING tasks
  `[now, now + runtime]`);
* `pure`: in the model `decode` is a function of the instance and the assignment and returns
  decisions only; the live cluster and task state are not part of its result.  The tie is the
  suite, which snapshots every live getter before and after the real call.

Hypotheses: `I.crash = none` is *not* needed by these theorems (they speak about the model
that is built); but when `I.crash ≠ none` the real `schedule()` raises before building it —
`crash_counterexample` below, finding C10-ILP-1.  `wfRunning`, `wfParents`, `wfChains`,
`wfOffered` are decidable well-formedness facts about the instance, evaluated by the driver
on every instance extracted from the real call.
-/
import ErdosVerif.Lemmas.IlpCapacity
namespace ErdosVerif.C10_Ilp
open ErdosVerif.Mip ErdosVerif.Ilp ErdosVerif.IlpSpec

/-- One decision per non-RUNNING task with variables, in order. -/
theorem one_decision_per_task (I : Inst) (σ : Var → Int) :
    (decode I σ).map Decision.task = I.nonRunning := by
  simp [decode, List.map_map, Function.comp_def, Inst.decodeTask]

theorem range_nodup (n : Nat) : (List.range n).Nodup := by
  induction n with
  | zero => simp
  | succ n ih =>
    rw [List.range_succ, List.nodup_append]
    refine ⟨ih, by simp, ?_⟩
    intro a ha b hb
    simp at hb
    have := List.mem_range.mp ha
    omega

/-- No task is answered twice. -/
theorem no_duplicate_decisions (I : Inst) (σ : Var → Int) :
    ((decode I σ).map Decision.task).Nodup := by
  rw [one_decision_per_task]
  exact List.Nodup.sublist List.filter_sublist (range_nodup _)

/-- Decisions only for tasks of this invocation (offered or previously placed), never for a
RUNNING one. -/
theorem only_known_never_running {I : Inst} {σ : Var → Int} {d : Decision} (hd : d ∈ decode I σ) :
    d.task < I.nT ∧ I.running d.task = false := by
  obtain ⟨t, ht, hr, rfl⟩ := mem_decode.mp hd
  exact ⟨ht, hr⟩

/-- Every offered task that is not RUNNING is answered. -/
theorem answers_all_offered {I : Inst} (σ : Var → Int) (hwo : I.wfOffered = true) {t : Nat}
    (ht : t < I.nOffered) (hr : I.running t = false) : ∃ d ∈ decode I σ, d.task = t := by
  have : t < I.nT := by
    have : I.nOffered ≤ I.nT := by simpa [Inst.wfOffered] using hwo
    omega
  exact ⟨I.decodeTask σ t, mem_decode.mpr ⟨t, this, hr, rfl⟩, rfl⟩

/-- A placement names an existing worker, a strategy of the task that fits the worker, and a
time not before `now + 1` nor before the known release. -/
theorem placement_wellformed {I : Inst} {σ : Var → Int} (h : sat σ (gen I)) {d : Decision}
    (hd : d ∈ decode I σ) {w s : Nat} {time : Int} (hp : d.placed = some (w, s, time)) :
    w < I.nW ∧ s < (I.task d.task).nS ∧
    compatible (I.worker w) ((I.task d.task).strat s) = true ∧
    I.now + 1 ≤ time ∧ (I.task d.task).release ≤ time := by
  obtain ⟨t, ht, hr, rfl⟩ := mem_decode.mp hd
  obtain ⟨hc, rfl⟩ := decodeTask_placed hp
  have hs := chosen_spec hc
  have hlb := start_lb h ht hr
  have h1 : I.now + 1 ≤ I.startLb t := by simp [Inst.startLb]; omega
  have h2 : (I.task t).release ≤ I.startLb t := by simp [Inst.startLb]; omega
  have e : (I.decodeTask σ t).task = t := rfl
  rw [e]
  exact ⟨hs.1, hs.2.1, (hasVar_compatible hs.2.2.1).2, by omega, by omega⟩

/-- At most one (worker, strategy) pair is selected per task: the decision is unambiguous. -/
theorem selection_unique {I : Inst} {σ : Var → Int} (h : sat σ (gen I)) {t : Nat} (ht : t < I.nT)
    (hr : I.running t = false) : psum I σ t ≤ 1 := psum_le_one h ht hr

/-- **Joint feasibility at every planned instant.** -/
theorem jointly_feasible {I : Inst} {σ : Var → Int} (h : sat σ (gen I)) (hwr : I.wfRunning = true)
    (hwp : I.wfParents = true) (hwc : I.wfChains = true) {w : Nat} (hw : w < I.nW) (r : String)
    (τ : Int) : load I (planOf I σ) w r τ ≤ qty (I.worker w).res r :=
  capacity_at_instant h hwr hwp hwc hw r τ

/-- The plan whose load is bounded is exactly what is returned: its entry for a non-RUNNING
task is that task's decision. -/
theorem plan_is_decision {I : Inst} {σ : Var → Int} {t : Nat} (ht : t < I.nT)
    (hr : I.running t = false) :
    ((planOf I σ).get t).map (fun pl => (pl.w, pl.s, pl.start)) = (I.decodeTask σ t).placed := by
  rw [planOf_get ht]
  simp [hr, Inst.decodeTask, Option.map_map, Function.comp_def]

/-- When no solution is found: every offered task is answered "not placed", nothing else. -/
theorem fail_answers (I : Inst) :
    (decodeFail I).map Decision.task = List.range I.nOffered ∧ ∀ d ∈ decodeFail I, d.placed = none := by
  constructor
  · simp [decodeFail, List.map_map, Function.comp_def]
  · intro d hd
    simp [decodeFail] at hd
    obtain ⟨t, _, rfl⟩ := hd
    rfl

/-! ### Finding C10-ILP-1: the call raises instead of returning -/

/-- Heterogeneous cluster (W0 has no GPU), a task SCHEDULED earlier on W1 whose only strategy
needs a GPU, and a released task: the seeding loop hits the int `0` of the incompatible pair. -/
def crashInst : Inst :=
  { now := 5
    workers := [⟨"W0", "P0", [("CPU", 2)]⟩, ⟨"W1", "P0", [("CPU", 2), ("GPU", 1)]⟩]
    tasks := [⟨"A@G0", "A", 0, "G0", .released, 5, 30, [⟨1, 3, [("CPU", 1)]⟩], 0, 0⟩,
              ⟨"B@G1", "B", 0, "G1", .scheduled, 2, 30, [⟨1, 4, [("GPU", 1)]⟩], 1, 0⟩]
    nOffered := 1
    nodes := [⟨"A@G0", "A", 0, "G0", .released⟩, ⟨"B@G1", "B", 0, "G1", .scheduled⟩]
    edges := []
    enforceDeadlines := true, retract := false, releaseTaskgraphs := false, goalSlack := false
    allowed0 := [] }

/-- The real `schedule()` raises `AttributeError` on this (well-formed, reachable) input. -/
theorem crash_counterexample : crashInst.wf = true ∧ crashInst.crash = some "AttributeError" := by
  decide

/-- On a homogeneous cluster (every strategy fits every worker) the seeding loop is safe. -/
theorem no_crash_when_all_compatible {I : Inst}
    (hall : ∀ t w s, t < I.nT → w < I.nW → s < (I.task t).nS →
      compatible (I.worker w) ((I.task t).strat s) = true) : I.crash = none := by
  unfold Inst.crash
  split
  · rename_i hc
    exfalso
    simp only [List.any_eq_true, Bool.and_eq_true, Bool.not_eq_true'] at hc
    obtain ⟨t, ht, _, k, hk, hv⟩ := hc
    have ht' := mem_nonRunning.mp ht
    have hk' := mem_keys.mp (by simpa using hk : (k.1, k.2) ∈ I.keys t)
    have := hall t k.1 k.2 ht'.1 hk'.1 hk'.2
    simp [Inst.hasVar, ht'.2, this] at hv
  · rfl

/-! ### Non-vacuity -/

example : C11_Ilp.exInst.wf = true ∧ C11_Ilp.exInst.crash = none := by decide
example : sat C11_Ilp.exSigma (gen C11_Ilp.exInst) := by decide
example : validPlanB C11_Ilp.exInst (planOf C11_Ilp.exInst C11_Ilp.exSigma) = true := by decide

end ErdosVerif.C10_Ilp
