import ErdosVerif.Lemmas.SimInv
/-!
# C03 — simulated execution takes exactly the chosen strategy's runtime (clock part)
-/
namespace ErdosVerif.C03
open ErdosVerif.Model ErdosVerif.Model.Sim

/-- **The simulated clock never moves backwards**: in every run (any policy, any draws,
any number of iterations, normal or aborted) the successive clock values are
non-decreasing, none exceeds the current clock, and the clock is never negative. -/
theorem clock_monotone (s0 : SimS) (fuel : Nat) (h : Inv s0) :
    ((simulate s0 fuel).2.log.toList.filterMap clockOf).Pairwise (· ≤ ·) ∧
    (∀ c ∈ (simulate s0 fuel).2.log.toList.filterMap clockOf, c ≤ (simulate s0 fuel).2.now) ∧
    0 ≤ (simulate s0 fuel).2.now :=
  (simulate_inv s0 fuel h).2.1

/-- A step backwards is refused: `__step` with a negative step size raises and leaves
the clock where it was. -/
theorem negative_step_refused (s : SimS) (dt : Int) (hdt : dt < 0) :
    ((ExceptT.run (step dt)).run s) = (.error .valueError, s) := by
  simp [step, hdt, ExceptT.run, StateT.run, throw, throwThe, MonadExceptOf.throw, ExceptT.mk, bind, ExceptT.bind,
    ExceptT.bindCont, pure, StateT.pure, StateT.bind]

/-- `Task.step` reports completion exactly when the executed time reaches the remaining
time, and then records `now + remaining` as the last step time (the completion time). -/
theorem step_completes_exactly (t : TaskS) (now dt r : Int) (hs : t.state = .running) (hst : t.start ≤ now + dt)
    (hr : t.remaining = some r) (hpos : r ≠ 0) (hl : t.lastStep = now) :
    ((t.doStep now dt).2 = true ↔ r ≤ dt) ∧
    ((t.doStep now dt).2 = true → (t.doStep now dt).1.lastStep = now + r ∧ (t.doStep now dt).1.remaining = some 0) := by
  have h1 : ¬ (t.start > now + dt) := by omega
  simp only [TaskS.doStep, hs, hr, hl]
  simp [h1, hpos]
  by_cases h : r - (now + dt - now) ≤ 0
  · simp [h]; omega
  · simp [h]; omega

end ErdosVerif.C03
