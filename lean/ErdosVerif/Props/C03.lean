import ErdosVerif.Model.Sim
namespace ErdosVerif.C03
open ErdosVerif.Model
theorem placeholder : ET.taskFinished = 3 := rfl
end ErdosVerif.C03
