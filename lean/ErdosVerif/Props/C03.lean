import ErdosVerif.Lemmas.SimInv
/-!
# C03 — simulated execution takes exactly the chosen strategy's runtime (clock part)
-/
namespace ErdosVerif.C03
open ErdosVerif.Model ErdosVerif.Model.Sim

/-- **The simulated clock never moves backwards**: in every run (any policy, any draws,
any number of iterations, normal or aborted) the successive clock values are
non-decreasing, none exceeds the current clock, and the clock is never negative. -/
theorem clock_monotone (s0 : SimS) (fuel : Nat) (h : Inv s0) :
    ((simulate s0 fuel).2.log.toList.filterMap clockOf).Pairwise (· ≤ ·) ∧
    (∀ c ∈ (simulate s0 fuel).2.log.toList.filterMap clockOf, c ≤ (simulate s0 fuel).2.now) ∧
    0 ≤ (simulate s0 fuel).2.now :=
  (simulate_inv s0 fuel h).2.1

/-- A step backwards is refused: `__step` with a negative step size raises and leaves
the clock where it was. -/
theorem negative_step_refused (s : SimS) (dt : Int) (hdt : dt < 0) :
    ((ExceptT.run (step dt)).run s) = (.error .valueError, s) := by
  simp [step, hdt, ExceptT.run, StateT.run, throw, throwThe, MonadExceptOf.throw, ExceptT.mk, bind, ExceptT.bind,
    ExceptT.bindCont, pure, StateT.pure, StateT.bind]

/-- `Task.step` reports completion exactly when the executed time reaches the remaining
time, and then records `now + remaining` as the last step time (the completion time). -/
theorem step_completes_exactly (t : TaskS) (now dt r : Int) (hs : t.state = .running) (hst : t.start ≤ now + dt)
    (hr : t.remaining = some r) (hpos : r ≠ 0) (hl : t.lastStep = now) :
    ((t.doStep now dt).2 = true ↔ r ≤ dt) ∧
    ((t.doStep now dt).2 = true → (t.doStep now dt).1.lastStep = now + r ∧ (t.doStep now dt).1.remaining = some 0) := by
  have h1 : ¬ (t.start > now + dt) := by omega
  simp only [TaskS.doStep, hs, hr, hl]
  simp [h1, hpos]
  by_cases h : r - (now + dt - now) ≤ 0
  · simp [h]; omega
  · simp [h]; omega

/-! ### Exact runtime under contiguous stepping

The simulator steps every RUNNING task at every advance of the clock (the tasks are
stepped through the workers they are placed on), so the `now` of one `step` call is
the `now + dt` of the previous one. Under that discipline a task that starts at `s`
with remaining time `r > 0` reports completion exactly in the first step that reaches
`s + r`, records `s + r` as its completion time, and never before. -/

/-- Step a task through consecutive clock advances `dts` starting at `now`; stops at the
first step that reports completion. Returns the task, whether it finished, and the
clock value before the step that finished it (or after all steps). -/
def runSteps (t : TaskS) (now : Int) : List Int → TaskS × Bool × Int
  | [] => (t, false, now)
  | d :: ds =>
    let r := t.doStep now d
    if r.2 then (r.1, true, now) else runSteps r.1 (now + d) ds

theorem sum_nonneg (l : List Int) (h : ∀ x ∈ l, 0 ≤ x) : 0 ≤ l.sum := by
  induction l with
  | nil => simp
  | cons a l ih =>
    have := h a (List.mem_cons_self ..)
    have := ih (fun x hx => h x (List.mem_cons_of_mem _ hx))
    simp only [List.sum_cons]; omega

theorem contiguous_steps_exact (dts : List Int) :
    ∀ (t : TaskS) (now r : Int), t.state = .running → t.start ≤ now → t.lastStep = now →
      t.remaining = some r → 0 < r → (∀ d ∈ dts, 0 ≤ d) →
      ((runSteps t now dts).2.1 = true →
          (runSteps t now dts).1.lastStep = now + r ∧ (runSteps t now dts).1.remaining = some 0 ∧
          (runSteps t now dts).1.state = .running ∧
          (runSteps t now dts).2.2 ≤ now + r ∧ now + r ≤ now + dts.sum) ∧
      ((runSteps t now dts).2.1 = false →
          dts.sum < r ∧ (runSteps t now dts).1.lastStep = now + dts.sum ∧
          (runSteps t now dts).1.remaining = some (r - dts.sum)) := by
  induction dts with
  | nil =>
    intro t now r hs hst hl hr hpos _
    simp [runSteps, hl, hr, hpos]
  | cons d ds ih =>
    intro t now r hs hst hl hr hpos hd
    have hd0 : 0 ≤ d := hd d (List.mem_cons_self ..)
    have hds : ∀ x ∈ ds, 0 ≤ x := fun x hx => hd x (List.mem_cons_of_mem _ hx)
    have h1 : ¬ (t.start > now + d) := by omega
    have hr0 : r ≠ 0 := by omega
    by_cases hfin : r - (now + d - now) ≤ 0
    · -- this step completes the task
      have hstep : t.doStep now d = ({ t with lastStep := now + r, remaining := some 0 }, true) := by
        simp [TaskS.doStep, hs, hr, hl, h1, hr0, hfin]
      simp only [runSteps, hstep, if_true, List.sum_cons]
      have hsum : 0 ≤ ds.sum := sum_nonneg ds hds
      refine ⟨fun _ => ⟨trivial, trivial, hs, by omega, by omega⟩, fun h => by simp at h⟩
    · -- the task keeps running
      have hstep : t.doStep now d = ({ t with lastStep := now + d, remaining := some (r - (now + d - now)) }, false) := by
        simp [TaskS.doStep, hs, hr, hl, h1, hr0, hfin]
      have ih' := ih { t with lastStep := now + d, remaining := some (r - (now + d - now)) } (now + d) (r - (now + d - now))
        hs (by simp; omega) rfl rfl (by omega) hds
      simp only [runSteps, hstep, Bool.false_eq_true, if_false, List.sum_cons]
      constructor
      · intro hf
        have := ih'.1 hf
        refine ⟨by rw [this.1]; omega, this.2.1, this.2.2.1, by have := this.2.2.2.1; omega, by have := this.2.2.2.2; omega⟩
      · intro hf
        have := ih'.2 hf
        refine ⟨by omega, by rw [this.2.1]; omega, by rw [this.2.2]; congr 1; omega⟩

/-- **A task that starts at `s` with runtime `r > 0` and is stepped at every clock advance
completes at exactly `s + r`**: `finish()` after the completing step records `s + r` and
the state COMPLETED; no earlier step reports completion. -/
theorem completes_at_start_plus_runtime (t : TaskS) (r : Int) (dts : List Int)
    (hs : t.state = .running) (hl : t.lastStep = t.start) (hr : t.remaining = some r) (hpos : 0 < r)
    (hd : ∀ d ∈ dts, 0 ≤ d) (hfin : (runSteps t t.start dts).2.1 = true) :
    ((runSteps t t.start dts).1.doFinish none).1.completion = t.start + r ∧
    ((runSteps t t.start dts).1.doFinish none).1.state = .completed ∧
    ((runSteps t t.start dts).1.doFinish none).2 = none := by
  have h := (contiguous_steps_exact dts t t.start r hs (Int.le_refl _) hl hr hpos hd).1 hfin
  simp [TaskS.doFinish, h.1, h.2.1, h.2.2.1]

/-- Non-vacuity: runtime 5 from start 2, steps 2+2+3: completes in the third step at 7. -/
example :
    let t : TaskS := { name := "a", conditional := false, terminal := false, prob := 1000, strategies := [],
                       profile := 0, deadline := 100, state := .running, start := 2, lastStep := 2, remaining := some 5 }
    (runSteps t 2 [2, 2, 3]).2.1 = true ∧ (runSteps t 2 [2, 2, 3]).1.lastStep = 7 ∧ (runSteps t 2 [2, 2]).2.1 = false := by decide

end ErdosVerif.C03
