/-
C11 (Z3 clause): for EVERY assignment `σ` satisfying the hard assertions the Z3 scheduler
hands to `z3.Optimize` (not only the optimum z3 happens to return), a task is placed only if
every predecessor offered in the same invocation is placed, and it starts no earlier than
`parent start + parent.remaining_time` (the slowest strategy of a VIRTUAL / RELEASED parent).

The last clause of C11 ("for predecessors that are already running or scheduled, not earlier
than their expected finish") does NOT hold for the Z3 scheduler: a predecessor that is not
offered in the call imposes nothing (finding C11-Z3-1, `unoffered_parent_counterexample`);
what does hold for such a child is `start ≥ now` only (`start_not_before_now_partial`).
-/
import ErdosVerif.Lemmas.Z3Chain
import ErdosVerif.Lemmas.Z3Decode
namespace ErdosVerif.C11_Z3
open ErdosVerif.Z3m

/-- **C11 (a).** Child placed ⇒ every parent offered in the same call is placed. -/
theorem child_placed_parents_placed {I : Inst} {σ : Assign Var} (h : sat σ (gen I)) {c p : Nat}
    (hc : c < I.nT) (hp : p ∈ I.parentVars c) (hpl : σ.b (.placed c) = true) :
    σ.b (.placed p) = true := parents_placed h hc hp hpl

/-- **C11 (b).** Child placed ⇒ `start child ≥ start parent + remaining(parent)`. -/
theorem start_after_parent {I : Inst} {σ : Assign Var} (h : sat σ (gen I)) {c p : Nat}
    (hc : c < I.nT) (hp : p ∈ I.parentVars c) (hpl : σ.b (.placed c) = true) :
    σ.i (.start c) ≥ σ.i (.start p) + (I.rem p : Int) := start_ge_parent_end h hc hp hpl

/-- The same along any chain of offered tasks (ancestor `a`, descendant `b`). -/
theorem start_after_ancestor {I : Inst} {σ : Assign Var} (h : sat σ (gen I)) {k a b : Nat}
    (hb : b ∈ I.descIn k a) (hpl : σ.b (.placed b) = true) :
    σ.b (.placed a) = true ∧ σ.i (.start b) ≥ σ.i (.start a) + (I.rem a : Int) :=
  linked_ordered h hb hpl

theorem parentVars_lt {I : Inst} {c p : Nat} (hp : p ∈ I.parentVars c) : p < I.nT := by
  simp only [Inst.parentVars, List.mem_filterMap] at hp
  obtain ⟨u, _, hu⟩ := hp
  unfold Inst.idxOf at hu
  exact List.mem_range.mp (List.mem_of_find?_eq_some hu)

theorem mem_decode {I : Inst} {σ : Assign Var} {d : Decision} :
    d ∈ decode I σ ↔ ∃ t, t < I.nT ∧ d = I.decodeTask σ t := by
  simp only [decode, List.mem_map, List.mem_range]
  constructor
  · rintro ⟨t, ht, rfl⟩; exact ⟨t, ht, rfl⟩
  · rintro ⟨t, ht, rfl⟩; exact ⟨t, ht, rfl⟩

/-- **C11 over what `schedule()` returns**: if the decision for `c` is a placement at `tc`,
every offered parent `p` has a decision that is a placement at some `tp` with
`tc ≥ tp + remaining(p)`. -/
theorem decisions_ordered {I : Inst} {σ : Assign Var} (h : sat σ (gen I)) {c p wc : Nat} {tc : Int}
    (hc : c < I.nT) (hp : p ∈ I.parentVars c) (hd : (⟨c, some (wc, tc)⟩ : Decision) ∈ decode I σ) :
    ∃ wp tp, (⟨p, some (wp, tp)⟩ : Decision) ∈ decode I σ ∧ tc ≥ tp + (I.rem p : Int) := by
  obtain ⟨t, ht, hdt⟩ := mem_decode.mp hd
  have htc : t = c := by
    have := congrArg Decision.task hdt
    unfold Inst.decodeTask at this; split at this <;> simpa using this.symm
  subst htc
  have hplc : σ.b (.placed t) = true := by
    by_cases hb : σ.b (.placed t) = true
    · exact hb
    · simp [Inst.decodeTask, hb] at hdt
  have htime : tc = σ.i (.start t) := by
    simp only [Inst.decodeTask, hplc, if_true] at hdt
    cases hw : I.workerOf σ t with
    | none => simp [hw] at hdt
    | some k => simp [hw] at hdt; exact hdt.2
  have hpp := parents_placed h hc hp hplc
  have hpl := parentVars_lt hp
  obtain ⟨k, _, hk⟩ := placed_has_worker h hpl hpp
  refine ⟨k, σ.i (.start p), mem_decode.mpr ⟨p, hpl, ?_⟩, ?_⟩
  · simp [Inst.decodeTask, hpp, hk]
  · rw [htime]; exact start_ge_parent_end h hc hp hplc

/-! ### Predecessors that are not part of the call (finding C11-Z3-1)

Full statement that the property asks for and that is FALSE for the current code:

  ∀ I σ, sat σ (gen I) → ∀ c < I.nT, ∀ n ∈ I.nodes, (n.uniq, I.tname c) ∈ I.edges →
    I.idxOf n.uniq = none → 0 ≤ n.finish → σ.b (.placed c) = true → σ.i (.start c) ≥ n.finish

(`n.finish` = expected finish of a RUNNING / SCHEDULED node.) -/

/-- What remains true for a child whose predecessor is not offered: it starts at or after `now`. -/
theorem start_not_before_now_partial {I : Inst} {σ : Assign Var} (h : sat σ (gen I)) {c : Nat}
    (hc : c < I.nT) (hpl : σ.b (.placed c) = true) : σ.i (.start c) ≥ I.now :=
  (start_bounds h hc (placed_hasRes h hc hpl)).1

/-- now = 3; A (RUNNING on W0 with 1 of its 2 CPUs, 3 µs left: expected finish 6) → B (VIRTUAL,
offered by lookahead, 1 CPU, runtime 2). -/
def exRun : Inst :=
  { now := 3,
    workers := [⟨"W0", "P0", [⟨"CPU", 2, 1⟩]⟩],
    tasks := [⟨"B@G0", "G0", .virtual, -1, 30, 0, [⟨2, [("CPU", 1)]⟩]⟩],
    nodes := [⟨"A@G0", "G0", 30, 6⟩, ⟨"B@G0", "G0", 30, -1⟩],
    edges := [("A@G0", "B@G0")],
    enforceDeadlines := true }

/-- The optimum z3 returns on `exRun`: B on W0 at 3. -/
def exRunσ : Assign Var :=
  { i := fun v => match v with
      | .start 0 => 3 | .penalty => -2000000000 | .slack _ => 25 | .slackSum => 25 | _ => 0,
    b := fun v => match v with | .placed 0 => true | _ => false,
    v := fun v => match v with | .worker 0 => [true] | .res 0 _ => [true] | _ => [] }

/-- **Finding C11-Z3-1.** The child of a RUNNING parent is placed before the parent's
expected finish by a satisfying assignment (here: the one the solver returns). -/
theorem unoffered_parent_counterexample :
    exRun.crash = none ∧ sat exRunσ (gen exRun) ∧
    decode exRun exRunσ = [⟨0, some (0, 3)⟩] ∧
    ¬ (∀ n ∈ exRun.nodes, (n.uniq, exRun.tname 0) ∈ exRun.edges → exRun.idxOf n.uniq = none →
        0 ≤ n.finish → exRunσ.i (.start 0) ≥ n.finish) := by
  refine ⟨by decide, by decide, by decide, ?_⟩
  intro hall
  have := hall ⟨"A@G0", "G0", 30, 6⟩ (by decide) (by decide) (by decide) (by decide)
  revert this; decide

/-! ### Non-vacuity: a chain with both tasks offered -/

/-- A (RELEASED, runtime 4) → B (VIRTUAL, runtime 2, needs the GPU of W1), C unrelated. -/
def exChain : Inst :=
  { now := 0,
    workers := [⟨"W0", "P0", [⟨"CPU", 2, 2⟩]⟩, ⟨"W1", "P0", [⟨"CPU", 1, 1⟩, ⟨"GPU", 1, 1⟩]⟩],
    tasks := [⟨"A@G0", "G0", .released, 0, 30, 0, [⟨4, [("CPU", 1)]⟩]⟩,
              ⟨"B@G0", "G0", .virtual, -1, 30, 0, [⟨2, [("CPU", 1), ("GPU", 1)]⟩]⟩,
              ⟨"C@G1", "G1", .released, 0, 30, 0, [⟨3, [("CPU", 2)]⟩]⟩],
    nodes := [⟨"A@G0", "G0", 30, -1⟩, ⟨"B@G0", "G0", 30, -1⟩, ⟨"C@G1", "G1", 30, -1⟩],
    edges := [("A@G0", "B@G0")],
    enforceDeadlines := true }

/-- A on W1 at 0, B on W1 at 4, C on W0 at 0 (what z3 returns). -/
def exChainσ : Assign Var :=
  { i := fun v => match v with
      | .start 0 => 0 | .start 1 => 4 | .start 2 => 0
      | .penalty => -2000000000 | .slack "G0" => 24 | .slack "G1" => 27 | .slackSum => 75 | _ => 0,
    b := fun v => match v with
      | .placed _ => true
      | .endsBefore 0 2 => false | .endsBefore 2 0 => false | .overlap 0 2 => true
      | .endsBefore 1 2 => false | .endsBefore 2 1 => true | .overlap 1 2 => false
      | .indep _ _ _ _ => false
      | _ => false,
    v := fun v => match v with
      | .worker 0 => [false, true] | .worker 1 => [false, true] | .worker 2 => [true, false]
      | .res 0 _ => [true, true] | .res 1 "CPU" => [true, true] | .res 1 _ => [true]
      | .res 2 _ => [true, true]
      | _ => [] }

example : exChain.crash = none ∧ exChain.wf = true := by decide
example : sat exChainσ (gen exChain) := by decide
example : 1 ∈ exChain.descIn 3 0 ∧ exChain.parentVars 1 = [0] := by decide
example : decode exChain exChainσ = [⟨0, some (1, 0)⟩, ⟨1, some (1, 4)⟩, ⟨2, some (0, 0)⟩] := by decide

end ErdosVerif.C11_Z3
