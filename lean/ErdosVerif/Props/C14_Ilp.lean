/-
C14 (ILP clause): the ILP with the goodput goal versus an independent specification of
feasible plans (`IlpSpec.ValidPlan`, `IlpSpec.goodput`).

Proved (all instance sizes):
* `ilp_sound`: every feasible point of `gen inst` decodes to a `ValidPlan` — release,
  deadline, precedence and capacity at every instant hold for what `schedule()` returns;
* `objective_eq_goodput`: with the `max_goodput` goal the objective value of a feasible point
  is exactly the goodput of the decoded plan (number of graphs whose reward tasks are placed);
* `objective_le_max_goodput`: hence no feasible point scores more than the best valid plan;
* `gap_exact`: an integer objective within relative gap 0.1 of an optimum `≤ 9` is optimal, so
  Gurobi's `MIPGap = 0.1` stopping rule cannot hide a graph on enumerable instances.

NOT true of the code (findings, see `ilp_complete_full` below and docs/planner_ilp.md):
completeness — "every ValidPlan extends to a feasible point with the same objective" — fails
because (1) the capacity rows are pairwise (task t₁ is charged with every task overlapping
it, even if those do not overlap each other), (2) the deadline / precedence rows bind the
start variable of a task that is *not* placed, so one hopeless task makes the whole model
infeasible.  `hopeless_counterexample` proves (2) on a concrete instance.
-/
import ErdosVerif.Lemmas.IlpComplete
import ErdosVerif.Lemmas.IlpSearch
import ErdosVerif.Props.C12_Ilp
namespace ErdosVerif.C14_Ilp
open ErdosVerif.Mip ErdosVerif.Ilp ErdosVerif.IlpSpec

/-- A task of the plan is placed iff its placement values sum to (at least) one. -/
theorem placed_iff {I : Inst} {σ : Var → Int} (h : sat σ (gen I)) (hwr : I.wfRunning = true)
    {t : Nat} (ht : t < I.nT) : ((planOf I σ).get t).isSome = true ↔ 1 ≤ psum I σ t := by
  rw [planOf_get ht]
  cases hr : I.running t with
  | true =>
    have := wfRunning_spec hwr ht hr
    simp [psum_running hr this.1 this.2]
  | false =>
    simp only [Bool.false_eq_true, ↓reduceIte, Option.isSome_map]
    constructor
    · intro hs
      cases hc : I.chosen σ t with
      | none => simp [hc] at hs
      | some ws =>
        have hsp := chosen_spec (w := ws.1) (s := ws.2) (by simpa using hc)
        have := xval_le_psum h ht hsp.1 hsp.2.1
        rw [chosen_xval (w := ws.1) (s := ws.2) (by simpa using hc)] at this
        exact this
    · intro hp
      obtain ⟨w, s, hw, hs, hx⟩ := exists_pair_of_placed h ht hp
      cases hv : I.hasVar t w s with
      | false => rw [xval_novar hr hv] at hx; omega
      | true => rw [xval_var hv] at hx; exact chosen_isSome hw hs hv hx

/-- **Soundness.** What `schedule()` returns for a feasible point (together with the RUNNING
tasks) is a valid plan of the independent specification. -/
theorem ilp_sound {I : Inst} {σ : Var → Int} (h : sat σ (gen I)) (hwr : I.wfRunning = true)
    (hwp : I.wfParents = true) (hwc : I.wfChains = true) : ValidPlan I (planOf I σ) where
  len := planOf_length I σ
  running := by
    intro t ht hr
    rw [planOf_get ht]; simp [hr]
  wf := by
    intro t pl ht hr hg
    have hp := placed_spec hwr ht hg
    have := start_lb h ht hr
    rw [hp.2.2.2.1, sval_var hr]
    exact ⟨hp.1, hp.2.1, hp.2.2.2.2, this⟩
  deadline := by
    intro t pl ht hr he hg
    have hp := placed_spec hwr ht hg
    have := C12_Ilp.placed_meets_deadline h ht hp.1 hp.2.1 hr he hp.2.2.1
    unfold finish
    rw [hp.2.2.2.1, sval_var hr]
    exact this
  required := by
    intro t ht hs hre
    have hr : I.running t = false := by simp [Inst.running, TaskI.running, hs]
    have := psum_eq_one_of_scheduled h ht hr hs hre
    exact (placed_iff h hwr ht).mpr (by omega)
  prec := by
    intro c plc hc hr hg p hp
    have hpc := placed_spec hwr hc hg
    have hpt := (mem_parentVars.mp hp).1
    have hplaced : 1 ≤ psum I σ c := by
      have := xval_le_psum h hc hpc.1 hpc.2.1; omega
    have hpp := C11_Ilp.child_placed_parents_placed h hwr hwp hc hr hp hplaced
    have hsome := (placed_iff h hwr hpt).mpr (by omega)
    cases hgp : (planOf I σ).get p with
    | none => simp [hgp] at hsome
    | some plp =>
      refine ⟨plp, rfl, ?_⟩
      have hps := placed_spec hwr hpt hgp
      have := C11_Ilp.start_after_parent h hc hr hp hps.1 hps.2.1 hps.2.2.1
      unfold finish
      rw [hpc.2.2.2.1, sval_var hr, hps.2.2.2.1]
      exact this
  capacity := by
    intro w hw r τ
    exact capacity_at_instant h hwr hwp hwc hw r τ

/-! ### Objective = goodput -/

theorem isum_indicator_length {α : Type} (l : List α) (p : α → Bool) :
    isum (l.map (fun a => if p a then (1 : Int) else 0)) = ((l.filter p).length : Nat) := by
  induction l with
  | nil => simp
  | cons x xs ih =>
    by_cases hp : p x = true
    · simp [hp, ih]; omega
    · simp [hp, ih]

/-- The reward variable of a reward task equals its placement sum. -/
theorem treward_eq {I : Inst} {σ : Var → Int} (h : sat σ (gen I)) (hg : I.goalSlack = false)
    {gi t : Nat} (hgi : gi < I.graphs.length) (ht : t ∈ I.rewardTasks (I.graphs.getD gi "")) :
    σ (.treward t) = psum I σ t := by
  have hc : Constr.lin s!"{I.tname t}_reward_constraint"
      (LinExpr.sub (LinExpr.ofVar (.treward t)) (I.sumX t)) .eq 0 ∈ I.constrs := by
    apply mem_constrs_objective
    simp only [Inst.cObjective, hg, Bool.false_eq_true, ↓reduceIte, List.mem_flatMap, List.mem_range,
      List.mem_append, List.mem_map]
    exact ⟨gi, hgi, Or.inl ⟨t, ht, rfl⟩⟩
  have := sat_constr h hc
  simp only [Constr.holds, Sense.holds, LinExpr.eval_sub, LinExpr.eval_ofVar, eval_sumX] at this
  omega

/-- The AND row of graph `gi`. -/
theorem greward_eq {I : Inst} {σ : Var → Int} (h : sat σ (gen I)) (hg : I.goalSlack = false)
    {gi : Nat} (hgi : gi < I.graphs.length) :
    σ (.greward gi) =
      if (∀ a ∈ (I.rewardTasks (I.graphs.getD gi "")).map Var.treward, σ a = 1) then 1 else 0 := by
  have hc : Constr.and s!"{I.graphs.getD gi ""}_reward_constraint" (.greward gi)
      ((I.rewardTasks (I.graphs.getD gi "")).map Var.treward) ∈ I.constrs := by
    apply mem_constrs_objective
    simp only [Inst.cObjective, hg, Bool.false_eq_true, ↓reduceIte, List.mem_flatMap, List.mem_range,
      List.mem_append, List.mem_map]
    exact ⟨gi, hgi, Or.inr (by simp)⟩
  exact sat_constr h hc

theorem mem_rewardTasks_lt {I : Inst} {g : String} {t : Nat} (h : t ∈ I.rewardTasks g) : t < I.nT := by
  simp only [Inst.rewardTasks, List.mem_filter, List.mem_range] at h
  exact h.1

/-- **Objective = goodput** (goal `max_goodput`): a feasible point scores exactly the number of
graphs all of whose reward tasks are placed by the decoded plan. -/
theorem objective_eq_goodput {I : Inst} {σ : Var → Int} (h : sat σ (gen I)) (hwr : I.wfRunning = true)
    (hg : I.goalSlack = false) : objective σ (gen I) = (goodput I (planOf I σ) : Nat) := by
  unfold objective gen goodput
  simp only [Inst.obj, hg, Bool.false_eq_true, ↓reduceIte, QuadExpr.eval_ofLin, LinExpr.eval_sumL,
    List.map_map, Function.comp_def, LinExpr.eval_ofVar]
  rw [← isum_indicator_length]
  apply isum_map_eq
  intro gi hgi
  have hgi' := List.mem_range.mp hgi
  rw [greward_eq h hg hgi']
  have key : (∀ a ∈ (I.rewardTasks (I.graphs.getD gi "")).map Var.treward, σ a = 1) ↔
      ((I.rewardTasks (I.graphs.getD gi "")).all (fun t => ((planOf I σ).get t).isSome)) = true := by
    simp only [List.mem_map, forall_exists_index, and_imp, forall_apply_eq_imp_iff₂, List.all_eq_true]
    constructor
    · intro hall t ht
      have := hall t ht
      rw [treward_eq h hg hgi' ht] at this
      exact (placed_iff h hwr (mem_rewardTasks_lt ht)).mpr (by omega)
    · intro hall t ht
      rw [treward_eq h hg hgi' ht]
      have h1 := (placed_iff h hwr (mem_rewardTasks_lt ht)).mp (hall t ht)
      have htl := mem_rewardTasks_lt ht
      cases hr : I.running t with
      | true =>
        have := wfRunning_spec hwr htl hr
        exact psum_running hr this.1 this.2
      | false =>
        have := psum_le_one h htl hr
        omega
  by_cases hc : (∀ a ∈ (I.rewardTasks (I.graphs.getD gi "")).map Var.treward, σ a = 1)
  · rw [if_pos hc, if_pos (key.mp hc)]
  · rw [if_neg hc, if_neg (fun hh => hc (key.mpr hh))]

/-- No feasible point scores more than the best valid plan: if `m` bounds the goodput of every
valid plan, it bounds the objective of every feasible point. -/
theorem objective_le_max_goodput {I : Inst} {σ : Var → Int} (h : sat σ (gen I)) (hwr : I.wfRunning = true)
    (hwp : I.wfParents = true) (hwc : I.wfChains = true) (hg : I.goalSlack = false) {m : Nat}
    (hm : ∀ plan, ValidPlan I plan → goodput I plan ≤ m) : objective σ (gen I) ≤ (m : Nat) := by
  rw [objective_eq_goodput h hwr hg]
  exact_mod_cast hm _ (ilp_sound h hwr hwp hwc)

/-- **The stopping rule is exact on enumerable instances.** Gurobi stops when
`(bound − value) / value ≤ 0.1`; the bound is at least the optimum.  For integer objective
values with optimum `≤ 9` this forces `value = optimum`. -/
theorem gap_exact {v opt : Int} (_hv : 0 ≤ v) (hle : v ≤ opt) (h9 : opt ≤ 9)
    (hgap : 10 * (opt - v) ≤ v) : v = opt := by omega

/-- The same holds up to an optimum of 10 … -/
theorem gap_exact_10 {v opt : Int} (_hv : 0 ≤ v) (hle : v ≤ opt) (h10 : opt ≤ 10)
    (hgap : 10 * (opt - v) ≤ v) : v = opt := by omega

/-- … and 10 is sharp: with optimum 11 the rule may stop one graph short. -/
theorem gap_not_exact_at_eleven :
    ∃ v opt : Int, 0 ≤ v ∧ v ≤ opt ∧ opt ≤ 11 ∧ 10 * (opt - v) ≤ v ∧ v ≠ opt :=
  ⟨10, 11, by decide⟩

/-! ### The executable optimum is the specification's maximum -/

/-- The executable checker decides the specification (capacity at every instant follows from
capacity at the start instants). -/
theorem validPlanB_iff {I : Inst} {plan : Plan} (hwr : I.wfRunning = true) :
    validPlanB I plan = true ↔ ValidPlan I plan := IlpSpec.validPlanB_iff hwr

/-- **`optGoodput_spec`.** With all deadlines enforced, the exhaustive search of the model
returns exactly the maximum goodput over the valid plans (and `none` iff no plan is valid).
This is the number the suite compares the real scheduler's goodput with. -/
theorem optGoodput_spec {I : Inst} (hwr : I.wfRunning = true)
    (henf : ∀ t, t < I.nT → I.running t = false → I.enforce t = true) (m : Nat) :
    optGoodput I = some m ↔
      (∃ plan, ValidPlan I plan ∧ goodput I plan = m) ∧ ∀ plan, ValidPlan I plan → goodput I plan ≤ m :=
  IlpSpec.optGoodput_spec hwr henf m

/-- No feasible point of the model scores more than the exhaustive optimum. -/
theorem objective_le_optGoodput {I : Inst} {σ : Var → Int} (h : sat σ (gen I)) (hwr : I.wfRunning = true)
    (hwp : I.wfParents = true) (hwc : I.wfChains = true) (hg : I.goalSlack = false)
    (henf : ∀ t, t < I.nT → I.running t = false → I.enforce t = true) :
    ∃ m, optGoodput I = some m ∧ objective σ (gen I) ≤ (m : Nat) := by
  obtain ⟨m, hm, hle⟩ := IlpSpec.optGoodput_dominates (ilp_sound h hwr hwp hwc) henf
  refine ⟨m, hm, ?_⟩
  rw [objective_eq_goodput h hwr hg]
  exact_mod_cast hle

/-! ### Completeness fails (finding C14-ILP-2): a hopeless task poisons the model -/

/-- `ilp_complete_full` (NOT claimed, false of the current code):
  `∀ plan, ValidPlan I plan → ∃ σ, sat σ (gen I) ∧ objective σ (gen I) = goodput I plan`. -/
def ilp_complete_full (I : Inst) : Prop :=
  ∀ plan, ValidPlan I plan → ∃ σ, sat σ (gen I) ∧ objective σ (gen I) = (goodput I plan : Nat)

/-- Two independent released tasks at `now = 5` on a worker with 2 CPUs: `A` (runtime 3,
deadline 20) is easy, `B` (runtime 2, deadline 5) is hopeless. -/
def hopelessInst : Inst :=
  { now := 5
    workers := [⟨"W0", "P0", [("CPU", 2)]⟩]
    tasks := [⟨"A@G0", "A", 0, "G0", .released, 5, 20, [⟨1, 3, [("CPU", 1)]⟩], 0, 0⟩,
              ⟨"B@G1", "B", 0, "G1", .released, 5, 5, [⟨1, 2, [("CPU", 1)]⟩], 0, 0⟩]
    nOffered := 2
    nodes := [⟨"A@G0", "A", 0, "G0", .released⟩, ⟨"B@G1", "B", 0, "G1", .released⟩]
    edges := []
    enforceDeadlines := true, retract := false, releaseTaskgraphs := false, goalSlack := false
    allowed0 := [] }

/-- The model is infeasible: the deadline row of `B` binds its start variable although `B`
need not be placed. -/
theorem hopeless_infeasible : ∀ σ, ¬ sat σ (gen hopelessInst) := by
  intro σ h
  have h1 := C12_Ilp.deadline_row (I := hopelessInst) h (t := 1) (by decide) (by decide) (by decide)
  have h2 := start_lb (I := hopelessInst) h (t := 1) (by decide) (by decide)
  have h3 : 0 ≤ dur hopelessInst σ 1 := by
    apply isum_nonneg
    intro a ha
    obtain ⟨k, hk, rfl⟩ := List.mem_map.mp ha
    have hk' := mem_keys.mp (by simpa using hk : (k.1, k.2) ∈ hopelessInst.keys 1)
    exact Int.mul_nonneg (by simp [Inst.runtime]) (xval_nonneg h (by decide) hk'.1 hk'.2)
  have e1 : hopelessInst.startLb 1 = 6 := by decide
  have e2 : (hopelessInst.task 1).deadline = 5 := by decide
  omega

/-- … so the real scheduler places nothing (`decodeFail`), goodput 0 … -/
example : decodeFail hopelessInst = [⟨0, none⟩, ⟨1, none⟩] := by decide

/-- … although placing `A` alone at 6 is a valid plan with goodput 1. -/
def hopelessPlan : Plan := [some ⟨0, 0, 6⟩, none]

theorem hopelessPlan_valid : ValidPlan hopelessInst hopelessPlan where
  len := by decide
  running := by intro t ht hr; have : t = 0 ∨ t = 1 := by simp [Inst.nT, hopelessInst] at ht; omega
                rcases this with rfl | rfl <;> simp [Inst.running, TaskI.running, Inst.task, hopelessInst] at hr
  wf := by
    intro t pl ht hr hg
    have : t = 0 ∨ t = 1 := by simp [Inst.nT, hopelessInst] at ht; omega
    rcases this with rfl | rfl
    · have : pl = ⟨0, 0, 6⟩ := by simpa [Plan.get, hopelessPlan] using hg.symm
      subst this; decide
    · simp [Plan.get, hopelessPlan] at hg
  deadline := by
    intro t pl ht hr he hg
    have : t = 0 ∨ t = 1 := by simp [Inst.nT, hopelessInst] at ht; omega
    rcases this with rfl | rfl
    · have : pl = ⟨0, 0, 6⟩ := by simpa [Plan.get, hopelessPlan] using hg.symm
      subst this; decide
    · simp [Plan.get, hopelessPlan] at hg
  required := by
    intro t ht hs
    have : t = 0 ∨ t = 1 := by simp [Inst.nT, hopelessInst] at ht; omega
    rcases this with rfl | rfl <;> simp [Inst.task, hopelessInst] at hs
  prec := by
    intro c plc hc hr hg p hp
    have : c = 0 ∨ c = 1 := by simp [Inst.nT, hopelessInst] at hc; omega
    rcases this with rfl | rfl
    · have : hopelessInst.parentVars 0 = [] := by decide
      simp [this] at hp
    · have : hopelessInst.parentVars 1 = [] := by decide
      simp [this] at hp
  capacity := by
    intro w hw r τ
    have hw0 : w = 0 := by simp [Inst.nW, hopelessInst] at hw; omega
    subst hw0
    have hl : load hopelessInst hopelessPlan 0 r τ ≤ qty [("CPU", 1)] r := by
      simp only [load, Inst.nT, hopelessInst, List.length_cons, List.length_nil]
      simp only [List.range, List.range.loop, List.map, nsum, demandAt, Plan.get, hopelessPlan,
        List.getD_cons_zero, List.getD_cons_succ]
      split <;> simp [Inst.task, TaskI.strat]
    have hq : qty [("CPU", 1)] r ≤ qty (hopelessInst.worker 0).res r := by
      simp only [Inst.worker, hopelessInst, List.getD_cons_zero, qty]
      cases hb : ("CPU" == r) <;> simp [List.filter, hb, nsum]
    omega

theorem hopelessPlan_goodput : goodput hopelessInst hopelessPlan = 1 := by decide

/-- **Counterexample to completeness** (finding C14-ILP-2, reproduced on the real code by the
suite): a valid plan with goodput 1 exists, yet the model has no feasible point at all. -/
theorem hopeless_counterexample : ¬ ilp_complete_full hopelessInst := by
  intro hc
  obtain ⟨σ, hs, _⟩ := hc hopelessPlan hopelessPlan_valid
  exact hopeless_infeasible σ hs

/-! ### Completeness fails (finding C14-ILP-1): pairwise capacity rows -/

/-- Three independent released tasks at `now = 0` on one worker with 2 CPUs, each needing one
CPU, all with deadline 11: `A` runs 10 ticks, `B` and `C` run 2 ticks each. -/
def pairInst : Inst :=
  { now := 0
    workers := [⟨"W0", "P0", [("CPU", 2)]⟩]
    tasks := [⟨"A@G0", "A", 0, "G0", .released, 0, 11, [⟨1, 10, [("CPU", 1)]⟩], 0, 0⟩,
              ⟨"B@G1", "B", 0, "G1", .released, 0, 11, [⟨1, 2, [("CPU", 1)]⟩], 0, 0⟩,
              ⟨"C@G2", "C", 0, "G2", .released, 0, 11, [⟨1, 2, [("CPU", 1)]⟩], 0, 0⟩]
    nOffered := 3
    nodes := [⟨"A@G0", "A", 0, "G0", .released⟩, ⟨"B@G1", "B", 0, "G1", .released⟩, ⟨"C@G2", "C", 0, "G2", .released⟩]
    edges := []
    enforceDeadlines := true, retract := false, releaseTaskgraphs := false, goalSlack := false
    allowed0 := [] }

/-- `A` over `[1, 11]`, `B` over `[1, 3]`, then `C` over `[4, 6]`: never more than 2 CPUs. -/
def pairPlan : Plan := [some ⟨0, 0, 1⟩, some ⟨0, 0, 1⟩, some ⟨0, 0, 4⟩]

theorem pairInst_wf : pairInst.wf = true := by decide

/-- In the model, no feasible point places all three tasks: `A`'s row charges it with both
`B` and `C` because each of them overlaps `A`, although they do not overlap each other. -/
theorem pair_not_all_placed {σ : Var → Int} (h : sat σ (gen pairInst))
    (h0 : 1 ≤ psum pairInst σ 0) (h1 : 1 ≤ psum pairInst σ 1) (h2 : 1 ≤ psum pairInst σ 2) : False := by
  have hwr : pairInst.wfRunning = true := by decide
  have hwp : pairInst.wfParents = true := by decide
  have hwc : pairInst.wfChains = true := by decide
  have pick : ∀ t, t < 3 → 1 ≤ psum pairInst σ t → xval pairInst σ t 0 0 = 1 := by
    intro t ht hp
    have htn : t < pairInst.nT := by simpa [Inst.nT, pairInst] using ht
    obtain ⟨w, s, hw, hs, hx⟩ := exists_pair_of_placed h htn hp
    have hw0 : w = 0 := by simp [Inst.nW, pairInst] at hw; omega
    have hs0 : s = 0 := by
      have : (pairInst.task t).nS = 1 := by
        have : t = 0 ∨ t = 1 ∨ t = 2 := by omega
        rcases this with rfl | rfl | rfl <;> decide
      omega
    subst hw0; subst hs0; exact hx
  have x0 := pick 0 (by omega) h0
  have x1 := pick 1 (by omega) h1
  have x2 := pick 2 (by omega) h2
  have r0 : pairInst.running 0 = false := by decide
  have r1 : pairInst.running 1 = false := by decide
  have r2 : pairInst.running 2 = false := by decide
  -- A must start at 1
  have dA := C12_Ilp.placed_meets_deadline (I := pairInst) h (t := 0) (w := 0) (s := 0) (by decide) (by decide)
    (by decide) r0 (by decide) x0
  have lA := start_lb (I := pairInst) h (t := 0) (by decide) r0
  have dB := C12_Ilp.placed_meets_deadline (I := pairInst) h (t := 1) (w := 0) (s := 0) (by decide) (by decide)
    (by decide) r1 (by decide) x1
  have lB := start_lb (I := pairInst) h (t := 1) (by decide) r1
  have dC := C12_Ilp.placed_meets_deadline (I := pairInst) h (t := 2) (w := 0) (s := 0) (by decide) (by decide)
    (by decide) r2 (by decide) x2
  have lC := start_lb (I := pairInst) h (t := 2) (by decide) r2
  have eA : pairInst.runtime 0 0 = 10 := by decide
  have eB : pairInst.runtime 1 0 = 2 := by decide
  have eC : pairInst.runtime 2 0 = 2 := by decide
  have eL0 : pairInst.startLb 0 = 1 := by decide
  have eL1 : pairInst.startLb 1 = 1 := by decide
  have eL2 : pairInst.startLb 2 = 1 := by decide
  have eD0 : (pairInst.task 0).deadline = 11 := by decide
  have eD1 : (pairInst.task 1).deadline = 11 := by decide
  have eD2 : (pairInst.task 2).deadline = 11 := by decide
  -- B and C both overlap A
  have actA : ∀ τ, 1 ≤ τ → τ ≤ 11 → active pairInst σ 0 0 τ := by
    intro τ h1 h2
    refine ⟨by decide, 0, by decide, x0, ?_, ?_⟩ <;> rw [sval_var r0] <;> omega
  have actB : active pairInst σ 1 0 (σ (.start 1)) :=
    ⟨by decide, 0, by decide, x1, by rw [sval_var r1]; omega, by rw [sval_var r1]; omega⟩
  have actC : active pairInst σ 2 0 (σ (.start 2)) :=
    ⟨by decide, 0, by decide, x2, by rw [sval_var r2]; omega, by rw [sval_var r2]; omega⟩
  have oB := overlap_one h hwr hwp hwc (a := 0) (b := 1) (by decide) (by decide) (by decide)
    (actA _ (by omega) (by omega)) actB
  have oC := overlap_one h hwr hwp hwc (a := 0) (b := 2) (by decide) (by decide) (by decide)
    (actA _ (by omega) (by omega)) actC
  -- A's CPU row: 1 + 1 + 1 ≤ 2
  have row := resource_row (I := pairInst) (σ := σ) h (t1 := 0) (w := 0) (r := "CPU") (by decide) (by decide)
    (by decide) (by decide)
  have eo : pairInst.others 0 0 = [1, 2] := by decide
  have q0 := qreq_le_dval (I := pairInst) h (t := 0) (w := 0) (s := 0) (by decide) (by decide) (by decide) x0 "CPU"
  have q1 := qreq_le_dval (I := pairInst) h (t := 1) (w := 0) (s := 0) (by decide) (by decide) (by decide) x1 "CPU"
  have q2 := qreq_le_dval (I := pairInst) h (t := 2) (w := 0) (s := 0) (by decide) (by decide) (by decide) x2 "CPU"
  have e0 : qreq pairInst 0 0 "CPU" = 1 := by decide
  have e1 : qreq pairInst 1 0 "CPU" = 1 := by decide
  have e2 : qreq pairInst 2 0 "CPU" = 1 := by decide
  have ecap : qty (pairInst.worker 0).res "CPU" = 2 := by decide
  rw [eo, ecap] at row
  simp only [List.map_cons, List.map_nil, isum_cons, isum_nil, oB, oC] at row
  rw [e0] at q0; rw [e1] at q1; rw [e2] at q2
  omega

/-- Every feasible point scores at most 2 on `pairInst`. -/
theorem pair_objective_le_two {σ : Var → Int} (h : sat σ (gen pairInst)) : objective σ (gen pairInst) ≤ 2 := by
  have hwr : pairInst.wfRunning = true := by decide
  rw [objective_eq_goodput h hwr (by decide)]
  by_cases hall : ∀ t, t < 3 → ((planOf pairInst σ).get t).isSome = true
  · exfalso
    exact pair_not_all_placed h
      ((placed_iff h hwr (by decide)).mp (hall 0 (by omega)))
      ((placed_iff h hwr (by decide)).mp (hall 1 (by omega)))
      ((placed_iff h hwr (by decide)).mp (hall 2 (by omega)))
  · -- some task is unplaced, so its (single-task) graph earns nothing
    have hex : ∃ t, t < 3 ∧ ((planOf pairInst σ).get t).isSome = false := by
      by_cases hex : ∃ t, t < 3 ∧ ((planOf pairInst σ).get t).isSome = false
      · exact hex
      · exfalso; apply hall; intro t ht
        cases hc : ((planOf pairInst σ).get t).isSome with
        | true => rfl
        | false => exact absurd ⟨t, ht, hc⟩ hex
    obtain ⟨t, ht, hun⟩ := hex
    have hlen : pairInst.graphs.length = 3 := by decide
    have hrt : pairInst.rewardTasks (pairInst.graphs.getD t "") = [t] := by
      have : t = 0 ∨ t = 1 ∨ t = 2 := by omega
      rcases this with rfl | rfl | rfl <;> decide
    have hlt : goodput pairInst (planOf pairInst σ) < pairInst.graphs.length := by
      unfold goodput
      have := (List.length_filter_lt_length_iff_exists (l := List.range pairInst.graphs.length)
        (p := fun gi => (pairInst.rewardTasks (pairInst.graphs.getD gi "")).all
          (fun t => ((planOf pairInst σ).get t).isSome))).mpr
        ⟨t, List.mem_range.mpr (by omega), by rw [hrt]; simp [hun]⟩
      simpa using this
    omega

theorem pairPlan_goodput : goodput pairInst pairPlan = 3 := by decide

theorem pairPlan_valid : ValidPlan pairInst pairPlan where
  len := by decide
  running := by
    intro t ht hr
    have : t = 0 ∨ t = 1 ∨ t = 2 := by simp [Inst.nT, pairInst] at ht; omega
    rcases this with rfl | rfl | rfl <;> simp [Inst.running, TaskI.running, Inst.task, pairInst] at hr
  wf := by
    intro t pl ht hr hg
    have : t = 0 ∨ t = 1 ∨ t = 2 := by simp [Inst.nT, pairInst] at ht; omega
    rcases this with rfl | rfl | rfl
    · have : pl = ⟨0, 0, 1⟩ := by simpa [Plan.get, pairPlan] using hg.symm
      subst this; decide
    · have : pl = ⟨0, 0, 1⟩ := by simpa [Plan.get, pairPlan] using hg.symm
      subst this; decide
    · have : pl = ⟨0, 0, 4⟩ := by simpa [Plan.get, pairPlan] using hg.symm
      subst this; decide
  deadline := by
    intro t pl ht hr he hg
    have : t = 0 ∨ t = 1 ∨ t = 2 := by simp [Inst.nT, pairInst] at ht; omega
    rcases this with rfl | rfl | rfl
    · have : pl = ⟨0, 0, 1⟩ := by simpa [Plan.get, pairPlan] using hg.symm
      subst this; decide
    · have : pl = ⟨0, 0, 1⟩ := by simpa [Plan.get, pairPlan] using hg.symm
      subst this; decide
    · have : pl = ⟨0, 0, 4⟩ := by simpa [Plan.get, pairPlan] using hg.symm
      subst this; decide
  required := by
    intro t ht hs
    have : t = 0 ∨ t = 1 ∨ t = 2 := by simp [Inst.nT, pairInst] at ht; omega
    rcases this with rfl | rfl | rfl <;> simp [Inst.task, pairInst] at hs
  prec := by
    intro c plc hc hr hg p hp
    have : c = 0 ∨ c = 1 ∨ c = 2 := by simp [Inst.nT, pairInst] at hc; omega
    have e0 : pairInst.parentVars 0 = [] := by decide
    have e1 : pairInst.parentVars 1 = [] := by decide
    have e2 : pairInst.parentVars 2 = [] := by decide
    rcases this with rfl | rfl | rfl
    · simp [e0] at hp
    · simp [e1] at hp
    · simp [e2] at hp
  capacity := by
    intro w hw r τ
    have hw0 : w = 0 := by simp [Inst.nW, pairInst] at hw; omega
    subst hw0
    have hl : load pairInst pairPlan 0 r τ ≤ 2 * qty [("CPU", 1)] r := by
      simp only [load, Inst.nT, pairInst, List.length_cons, List.length_nil]
      simp only [List.range, List.range.loop, List.map, nsum, demandAt, Plan.get, pairPlan,
        List.getD_cons_zero, List.getD_cons_succ, occupies, finish, Inst.runtime, Inst.task, TaskI.strat,
        List.getD_cons_zero, List.getD_cons_succ]
      split <;> split <;> split <;> simp <;> omega
    have hq : 2 * qty [("CPU", 1)] r ≤ qty (pairInst.worker 0).res r := by
      simp only [Inst.worker, pairInst, List.getD_cons_zero, qty]
      cases hb : ("CPU" == r) <;> simp [List.filter, hb, nsum]
    omega

/-- **Counterexample to completeness** (finding C14-ILP-1, reproduced on the real code by the
suite): a valid plan finishes 3 graphs, no feasible point of the model scores more than 2. -/
theorem pairwise_counterexample : ¬ ilp_complete_full pairInst := by
  intro hc
  obtain ⟨σ, hs, ho⟩ := hc pairPlan pairPlan_valid
  have := pair_objective_le_two hs
  rw [ho, pairPlan_goodput] at this
  omega

/-! ### Completeness fails (finding C14-ILP-3): a join with a parent outside the call -/

theorem isum_map_le_length {α : Type} (l : List α) (f : α → Int) (h : ∀ a ∈ l, f a ≤ 1) :
    isum (l.map f) ≤ (l.length : Nat) := by
  induction l with
  | nil => simp
  | cons x xs ih =>
    have h1 := h x (by simp)
    have h2 := ih (fun a ha => h a (by simp [ha]))
    simp; omega

/-- If some graph parent of `c` has no variables in this invocation, no feasible point places
`c`: `all_parents_placed = 1` needs `Σ placed parents with variables = number of ALL parents`. -/
theorem never_placed_of_missing_parent {I : Inst} {σ : Var → Int} (h : sat σ (gen I))
    (hwr : I.wfRunning = true) {c : Nat} (hc : c < I.nT) (hr : I.running c = false)
    (hne : (I.parentVars c).isEmpty = false) (hmiss : (I.parentVars c).length < I.nParents c) :
    psum I σ c = 0 := by
  have hnn := psum_nonneg h hc
  by_cases hp : psum I σ c = 0
  · exact hp
  · exfalso
    have hm := mem_nonRunning.mpr ⟨hc, hr⟩
    have hF : Constr.ind s!"{I.tname c}_placement_False" (.allParents c) 0 (I.sumX c) .eq 0 ∈ I.constrs :=
      mem_constrs_deps hm (by simp [Inst.cDeps, hne])
    have hF' := sat_constr h hF
    simp only [Constr.holds, Sense.holds, eval_sumX] at hF'
    have hone : σ (.allParents c) = 1 := by
      rcases C11_Ilp.allParents_binary h hc hr hne with h0 | h1
      · exact absurd (hF' h0) hp
      · exact h1
    have hT : Constr.ind s!"{I.tname c}_parents_placed_True" (.allParents c) 1 (I.parentExpr c) .eq
        (I.nParents c : Int) ∈ I.constrs :=
      mem_constrs_deps hm (by simp [Inst.cDeps, hne])
    have hT' := sat_constr h hT hone
    simp only [Sense.holds, C11_Ilp.eval_parentExpr] at hT'
    have hub : isum ((I.parentVars c).map (fun p => psum I σ p)) ≤ ((I.parentVars c).length : Nat) :=
      isum_map_le_length _ _ (fun p hp => C11_Ilp.psum_le_one_all h hwr (mem_parentVars.mp hp).1)
    omega

/-- Join `J` with parents `A` (released, offered) and `B` (COMPLETED, hence without variables);
`J` is offered ahead by the lookahead.  One worker with 2 CPUs. -/
def joinInst : Inst :=
  { now := 0
    workers := [⟨"W0", "P0", [("CPU", 2)]⟩]
    tasks := [⟨"A@G0", "A", 0, "G0", .released, 0, 7, [⟨1, 1, [("CPU", 1)]⟩], 0, 0⟩,
              ⟨"J@G0", "J", 0, "G0", .virtual, -1, 10, [⟨1, 2, [("CPU", 1)]⟩], 0, 0⟩]
    nOffered := 2
    nodes := [⟨"A@G0", "A", 0, "G0", .released⟩, ⟨"B@G0", "B", 0, "G0", .other⟩, ⟨"J@G0", "J", 0, "G0", .virtual⟩]
    edges := [("A@G0", "J@G0"), ("B@G0", "J@G0")]
    enforceDeadlines := true, retract := false, releaseTaskgraphs := false, goalSlack := false
    allowed0 := [] }

/-- `A` over `[1, 2]`, then `J` over `[3, 5]`. -/
def joinPlan : Plan := [some ⟨0, 0, 1⟩, some ⟨0, 0, 3⟩]

theorem joinInst_wf : joinInst.wf = true := by decide

theorem joinPlan_valid : ValidPlan joinInst joinPlan :=
  IlpSpec.validPlanB_sound (by decide) (by decide)

theorem joinPlan_goodput : goodput joinInst joinPlan = 1 := by decide

/-- Every feasible point scores 0 on `joinInst`: the reward task `J` can never be placed. -/
theorem join_objective_zero {σ : Var → Int} (h : sat σ (gen joinInst)) : objective σ (gen joinInst) = 0 := by
  have hwr : joinInst.wfRunning = true := by decide
  rw [objective_eq_goodput h hwr (by decide)]
  have hJ := never_placed_of_missing_parent (I := joinInst) h hwr (c := 1) (by decide) (by decide)
    (by decide) (by decide)
  have hun : ((planOf joinInst σ).get 1).isSome = false := by
    cases hs : ((planOf joinInst σ).get 1).isSome with
    | false => rfl
    | true => have := (placed_iff h hwr (t := 1) (by decide)).mp hs; omega
  have hlen : joinInst.graphs.length = 1 := by decide
  have hrt : joinInst.rewardTasks (joinInst.graphs.getD 0 "") = [1] := by decide
  have hlt : goodput joinInst (planOf joinInst σ) < joinInst.graphs.length := by
    unfold goodput
    have := (List.length_filter_lt_length_iff_exists (l := List.range joinInst.graphs.length)
      (p := fun gi => (joinInst.rewardTasks (joinInst.graphs.getD gi "")).all
        (fun t => ((planOf joinInst σ).get t).isSome))).mpr
      ⟨0, List.mem_range.mpr (by omega), by rw [hrt]; simp [hun]⟩
    simpa using this
  have : goodput joinInst (planOf joinInst σ) = 0 := by omega
  simp [this]

/-- **Counterexample to completeness** (finding C14-ILP-3, reproduced on the real code by the
suite): the plan `A`, then `J` finishes the graph; no feasible point of the model scores 1. -/
theorem join_counterexample : ¬ ilp_complete_full joinInst := by
  intro hc
  obtain ⟨σ, hs, ho⟩ := hc joinPlan joinPlan_valid
  rw [join_objective_zero hs, joinPlan_goodput] at ho
  omega

/-! ### Completeness for the as-coded reading -/

open FullPlan in
/-- **`ilp_complete_partial`.** Full statement (false, see the two counterexamples above):
every `ValidPlan` extends to a feasible point with objective = goodput.  Proved instead: every
full plan valid in the *as-coded* reading (`FullPlan.ValidFull`: a start within the bounds and
deadline row for every task, placed or not; precedence rows; all-graph-parents rule; pairwise
capacity rows with `Overlap` = "closed intervals meet and not ancestor/descendant") extends to a
feasible point of `gen inst` — every auxiliary variable can be chosen consistently. -/
theorem ilp_complete_partial {I : Inst} {fp : FullPlan} (hv : ValidFull I fp)
    (hwr : I.wfRunning = true) (hwp : I.wfParents = true) : sat (sigmaOf I fp) (gen I) :=
  ⟨vars_ok hv, constrs_hold hv hwr hwp⟩

open FullPlan in
/-- … and that point scores the number of graphs whose reward tasks are placed by the plan. -/
theorem complete_objective {I : Inst} (fp : FullPlan) (hg : I.goalSlack = false) :
    objective (sigmaOf I fp) (gen I) =
      (((List.range I.graphs.length).filter (graphDone I fp)).length : Nat) := by
  unfold objective gen
  simp only [Inst.obj, hg, Bool.false_eq_true, ↓reduceIte, QuadExpr.eval_ofLin, LinExpr.eval_sumL,
    List.map_map, Function.comp_def, LinExpr.eval_ofVar]
  rw [← isum_indicator_length]
  apply isum_map_eq
  intro gi _
  rfl

open FullPlan in
/-- Hence no as-coded-valid full plan finishes more graphs than the best feasible point: if `m`
bounds the objective over feasible points, it bounds the as-coded goodput. -/
theorem complete_bound {I : Inst} {fp : FullPlan} (hv : ValidFull I fp) (hwr : I.wfRunning = true)
    (hwp : I.wfParents = true) (hg : I.goalSlack = false) {m : Int}
    (hm : ∀ σ, sat σ (gen I) → objective σ (gen I) ≤ m) :
    (((List.range I.graphs.length).filter (graphDone I fp)).length : Nat) ≤ m := by
  rw [← complete_objective fp hg]
  exact hm _ (ilp_complete_partial hv hwr hwp)

open FullPlan in
/-- Converse of `ilp_complete_partial`: every feasible point is a valid full plan in the
as-coded reading — so the feasible set of `gen inst` is *exactly* `ValidFull`. -/
theorem as_coded_sound {I : Inst} {σ : Var → Int} (h : sat σ (gen I)) (hwr : I.wfRunning = true)
    (hwp : I.wfParents = true) : ValidFull I (fpOf I σ) := validFull_of_sat h hwr hwp

theorem all_congr_mem {α : Type} {l : List α} {f g : α → Bool} (h : ∀ x ∈ l, f x = g x) :
    l.all f = l.all g := by
  induction l with
  | nil => rfl
  | cons x xs ih =>
    simp only [List.all_cons]
    rw [h x (by simp), ih (fun y hy => h y (by simp [hy]))]

open FullPlan in
/-- The as-coded goodput of the full plan read off a feasible point is its objective. -/
theorem as_coded_objective {I : Inst} {σ : Var → Int} (h : sat σ (gen I)) (hwr : I.wfRunning = true)
    (hg : I.goalSlack = false) :
    objective σ (gen I) = (((List.range I.graphs.length).filter (graphDone I (fpOf I σ))).length : Nat) := by
  rw [objective_eq_goodput h hwr hg]
  unfold goodput
  congr 2
  apply List.filter_congr
  intro gi _
  unfold graphDone
  apply all_congr_mem
  intro t ht
  have htl := mem_rewardTasks_lt ht
  rw [planOf_get htl]
  unfold placedB fpOf
  cases hr : I.running t <;> simp

open FullPlan in
/-- **The model is exact for its as-coded reading**: the objective values attained by feasible
points are exactly the as-coded goodputs of valid full plans (`max objective = max as-coded
goodput`); the gap to `ValidPlan` is findings C14-ILP-1/2. -/
theorem as_coded_exact {I : Inst} (hwr : I.wfRunning = true) (hwp : I.wfParents = true)
    (hg : I.goalSlack = false) (m : Nat) :
    (∃ σ, sat σ (gen I) ∧ objective σ (gen I) = (m : Nat)) ↔
    (∃ fp, ValidFull I fp ∧ ((List.range I.graphs.length).filter (graphDone I fp)).length = m) := by
  constructor
  · rintro ⟨σ, hs, ho⟩
    refine ⟨fpOf I σ, as_coded_sound hs hwr hwp, ?_⟩
    rw [as_coded_objective hs hwr hg] at ho
    exact_mod_cast ho
  · rintro ⟨fp, hv, hm⟩
    refine ⟨sigmaOf I fp, ilp_complete_partial hv hwr hwp, ?_⟩
    rw [complete_objective fp hg, hm]

/-- Non-vacuity of `ilp_complete_partial`: the single-task instance of C12 with the slow
strategy started at 4 is a valid full plan. -/
def exFull : FullPlan := ⟨fun _ => 4, fun t => if t = 0 then some (0, 1) else none⟩

theorem exFull_valid : FullPlan.ValidFull C12_Ilp.exInst exFull where
  placeWf := by
    intro t w s ht hr hp
    have : t = 0 := by simp [Inst.nT, C12_Ilp.exInst] at ht; omega
    subst this
    have : (w, s) = (0, 1) := by simpa [exFull] using hp.symm
    cases this; decide
  startLb := by
    intro t ht hr
    have : t = 0 := by simp [Inst.nT, C12_Ilp.exInst] at ht; omega
    subst this; decide
  deadline := by
    intro t ht hr he
    have : t = 0 := by simp [Inst.nT, C12_Ilp.exInst] at ht; omega
    subst this; decide
  required := by
    intro t ht hr hs
    have : t = 0 := by simp [Inst.nT, C12_Ilp.exInst] at ht; omega
    subst this; simp [Inst.task, C12_Ilp.exInst] at hs
  prec := by
    intro c p w s hc hr hp
    have : c = 0 := by simp [Inst.nT, C12_Ilp.exInst] at hc; omega
    subst this
    have : C12_Ilp.exInst.parentVars 0 = [] := by decide
    simp [this] at hp
  parents := by
    intro c hc hr hne
    have : c = 0 := by simp [Inst.nT, C12_Ilp.exInst] at hc; omega
    subst this
    have : (C12_Ilp.exInst.parentVars 0).isEmpty = true := by decide
    rw [this] at hne; cases hne
  capacity := by
    intro t1 w r ht hw hs hr
    have h1 : t1 = 0 := by simp [Inst.nT, C12_Ilp.exInst] at ht; omega
    have h2 : w = 0 := by simp [Inst.nW, C12_Ilp.exInst] at hw; omega
    subst h1; subst h2
    have h3 : r = "CPU" := by
      have : (C12_Ilp.exInst.worker 0).types = ["CPU"] := by decide
      simpa [this] using hr
    subst h3; decide

example : sat (FullPlan.sigmaOf C12_Ilp.exInst exFull) (gen C12_Ilp.exInst) :=
  ilp_complete_partial exFull_valid (by decide) (by decide)

/-! ### Non-vacuity of soundness -/

example : sat C11_Ilp.exSigma (gen C11_Ilp.exInst) := by decide
example : objective C11_Ilp.exSigma (gen C11_Ilp.exInst) = 2 := by decide
example : optGoodput hopelessInst = some 1 := by decide
example : goodput C11_Ilp.exInst (planOf C11_Ilp.exInst C11_Ilp.exSigma) = 2 := by decide

end ErdosVerif.C14_Ilp
