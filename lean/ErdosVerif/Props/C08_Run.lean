import ErdosVerif.Lemmas.SimCensusRun
/-!
# C08 (run level) — the end-of-run counters are the census of the trace

`Props/C08.lean` proves what one `__handle_task_finished` reports. Here the statements are
about **whole runs** of the simulator model (`Sim.simulate`), for every world, every
scheduler (decision tape), every draw tape and every number of loop iterations — the
strength of `Sim.simulate_inv`. They are obtained from Hoare triples over every handler
(`Lemmas/SimCensus*.lean`).

* `counters_match_trace` — when the run ends normally, each counter equals the number of
  rows of its kind in the trace (`finishedTasks` = #TASK_FINISHED rows = #`.finish` history
  entries, `cancelledTasks` = #TASK_CANCEL, `missedTaskDeadlines` = #MISSED_DEADLINE,
  `finishedGraphs` = #TASK_GRAPH_FINISHED).
* `missed_graph_deadlines_relation` — `missedGraphDeadlines` is **not** the number of
  MISSED_TASK_GRAPH_DEADLINE rows: it is the number of TASK_GRAPH_FINISHED rows with a
  non-zero tardiness column, and at most the number of MISSED_TASK_GRAPH_DEADLINE rows (the
  row is written for every task that finishes after its graph's deadline, the counter moves
  once per finished graph): `missed_graph_rows_exceed_counter_counterexample`.
* `end_row_reports_census` — the last row of a run that ended normally is the SIMULATOR_END
  row and carries exactly these numbers; `every_end_row_reports_census` — in any reachable
  state every SIMULATOR_END row reports the census of the rows before it.
* `aborted_run_census` — a run that stops with an exception leaves the same equalities,
  except that `cancelledTasks` may be one ahead of the TASK_CANCEL rows
  (`cancel_counter_ahead_counterexample`: the counter is incremented before the row is
  formatted, and formatting raises for a task without execution strategy).
-/
namespace ErdosVerif.C08
open ErdosVerif.Model ErdosVerif.Model.Sim

/-- **Counters = census of the trace** at the normal end of a run. -/
theorem counters_match_trace (s0 : SimS) (fuel : Nat) (h0 : Census s0) (hend : (simulate s0 fuel).1 = none) :
    let s := (simulate s0 fuel).2
    s.finishedTasks = countRows "TASK_FINISHED" s.rows.toList ∧
    s.finishedTasks = s.log.toList.countP isFinishLog ∧
    s.cancelledTasks = countRows "TASK_CANCEL" s.rows.toList ∧
    s.missedTaskDeadlines = countRows "MISSED_DEADLINE" s.rows.toList ∧
    s.finishedGraphs = countRows "TASK_GRAPH_FINISHED" s.rows.toList := by
  have h := ((simulate_census s0 fuel h0).2 hend).1
  exact ⟨h.fin, h.finLog, h.can, h.mis, h.gra⟩

/-- **`missedGraphDeadlines` versus the MISSED_TASK_GRAPH_DEADLINE rows** (any reachable
state, also of an aborted run): the counter is the number of TASK_GRAPH_FINISHED rows whose
tardiness column is not `0`, and it never exceeds the number of
MISSED_TASK_GRAPH_DEADLINE rows. -/
theorem missed_graph_deadlines_relation (s0 : SimS) (fuel : Nat) (h0 : Census s0) :
    let s := (simulate s0 fuel).2
    s.missedGraphDeadlines = s.rows.toList.countP lateGraphRow ∧
    s.missedGraphDeadlines ≤ countRows "MISSED_TASK_GRAPH_DEADLINE" s.rows.toList ∧
    s.missedGraphDeadlines ≤ s.finishedGraphs := by
  have h := (simulate_census s0 fuel h0).1
  refine ⟨h.misG, h.misGle, ?_⟩
  rw [h.misG, h.gra]
  unfold countRows
  apply List.countP_mono_left
  intro r _ hr
  simp only [lateGraphRow, Bool.and_eq_true] at hr
  exact hr.1

/-- The rows can outnumber the counter: a task that finishes after the deadline of its
(still incomplete) task graph gets a MISSED_TASK_GRAPH_DEADLINE row and no counter
increment. -/
theorem missed_graph_rows_exceed_counter_counterexample :
    let x : TaskS := { name := "a", conditional := false, terminal := false, prob := 1000, strategies := [],
                       profile := 0, deadline := 50, state := .completed }
    let y : TaskS := { x with name := "b", state := .released }
    let g : GraphS := ⟨"g", #[x, y], #[[1], []], #[[], [0]], [0, 1]⟩
    (finishOut x g "0" "g0.t0" 60).dMissedGraphDeadlines = 0 ∧
    (∃ r ∈ (finishOut x g "0" "g0.t0" 60).rows, rowKind r = "MISSED_TASK_GRAPH_DEADLINE") := by
  refine ⟨by decide, ?_⟩
  refine ⟨[istr 60, "MISSED_TASK_GRAPH_DEADLINE", "g", istr 50], ?_, rfl⟩
  simp [finishOut, GraphS.isComplete, GraphS.sinks, GraphS.nodes, GraphS.isSink, GraphS.kids, GraphS.completeOf,
    GraphS.task?, TaskS.isComplete, GraphS.deadline]

/-- What a SIMULATOR_END row says, given the rows before it. -/
def EndRowOf (pre : List Row) (r : Row) : Prop :=
  ∃ time cancelledGraphs, r = [time, "SIMULATOR_END", nstr (countRows "TASK_FINISHED" pre),
    nstr (countRows "TASK_CANCEL" pre), nstr (countRows "MISSED_DEADLINE" pre),
    nstr (countRows "TASK_GRAPH_FINISHED" pre), cancelledGraphs, nstr (pre.countP lateGraphRow)]

/-- **The SIMULATOR_END row carries the census.** When the run ends normally, `ended` is
set, the trace is `pre ++ [r]` where `r` is the SIMULATOR_END row, and `r` reports the
numbers of TASK_FINISHED, TASK_CANCEL, MISSED_DEADLINE and TASK_GRAPH_FINISHED rows and of
late TASK_GRAPH_FINISHED rows of `pre` — which are the final values of the counters. -/
theorem end_row_reports_census (s0 : SimS) (fuel : Nat) (h0 : Census s0) (hend : (simulate s0 fuel).1 = none) :
    let s := (simulate s0 fuel).2
    s.ended = true ∧ ∃ pre r, s.rows.toList = pre ++ [r] ∧ EndRowOf pre r ∧
      countRows "TASK_FINISHED" pre = s.finishedTasks ∧ countRows "TASK_CANCEL" pre = s.cancelledTasks ∧
      countRows "MISSED_DEADLINE" pre = s.missedTaskDeadlines ∧
      countRows "TASK_GRAPH_FINISHED" pre = s.finishedGraphs ∧ pre.countP lateGraphRow = s.missedGraphDeadlines := by
  obtain ⟨hc, he, time, cg, hlast⟩ := (simulate_census s0 fuel h0).2 hend
  refine ⟨he, ?_⟩
  generalize (simulate s0 fuel).2 = s at *
  have hne : s.rows.toList ≠ [] := by
    intro h; rw [h] at hlast; cases hlast
  obtain ⟨pre, r, hpr⟩ : ∃ pre r, s.rows.toList = pre ++ [r] := by
    rcases List.eq_nil_or_concat s.rows.toList with h | ⟨pre, r, h⟩
    · exact absurd h hne
    · exact ⟨pre, r, by simpa using h⟩
  have hr : r = [time, "SIMULATOR_END", nstr s.finishedTasks, nstr s.cancelledTasks, nstr s.missedTaskDeadlines,
      nstr s.finishedGraphs, cg, nstr s.missedGraphDeadlines] := by
    rw [hpr] at hlast
    simpa using hlast
  have hk : rowKind r = "SIMULATOR_END" := by rw [hr]; rfl
  have hcnt : ∀ k : String, k ≠ "SIMULATOR_END" → countRows k s.rows.toList = countRows k pre := by
    intro k hk'
    rw [hpr]
    exact countRows_push_neutral k pre r (by rw [hk]; exact fun h => hk' h.symm)
  have hlate : s.rows.toList.countP lateGraphRow = pre.countP lateGraphRow := by
    rw [hpr, List.countP_append, List.countP_cons, List.countP_nil]
    have : lateGraphRow r = false := by simp [lateGraphRow, hk]
    simp [this]
  have e1 := hcnt "TASK_FINISHED" (by decide)
  have e2 := hcnt "TASK_CANCEL" (by decide)
  have e3 := hcnt "MISSED_DEADLINE" (by decide)
  have e4 := hcnt "TASK_GRAPH_FINISHED" (by decide)
  refine ⟨pre, r, hpr, ⟨time, cg, ?_⟩, ?_, ?_, ?_, ?_, ?_⟩
  · rw [hr, ← e1, ← e2, ← e3, ← e4, ← hlate, ← hc.fin, ← hc.can, ← hc.mis, ← hc.gra, ← hc.misG]
  · rw [← e1, ← hc.fin]
  · rw [← e2, ← hc.can]
  · rw [← e3, ← hc.mis]
  · rw [← e4, ← hc.gra]
  · rw [← hlate, ← hc.misG]

/-- In every reachable state (also of an aborted run) every SIMULATOR_END row of the trace
reports the census of the rows before it. -/
theorem every_end_row_reports_census (s0 : SimS) (fuel : Nat) (h0 : Census s0) (pre post : List Row) (r : Row)
    (hrows : (simulate s0 fuel).2.rows.toList = pre ++ r :: post) (hk : rowKind r = "SIMULATOR_END") :
    EndRowOf pre r :=
  (simulate_census s0 fuel h0).1.ends pre r post hrows hk

/-- **Aborted runs.** Whatever way the run stops (exception, fuel), the final state satisfies
all the equalities, except that `cancelledTasks` is the number of TASK_CANCEL rows or one more. -/
theorem aborted_run_census (s0 : SimS) (fuel : Nat) (h0 : Census s0) :
    let s := (simulate s0 fuel).2
    s.finishedTasks = countRows "TASK_FINISHED" s.rows.toList ∧
    s.finishedTasks = s.log.toList.countP isFinishLog ∧
    (s.cancelledTasks = countRows "TASK_CANCEL" s.rows.toList ∨
     s.cancelledTasks = countRows "TASK_CANCEL" s.rows.toList + 1) ∧
    s.missedTaskDeadlines = countRows "MISSED_DEADLINE" s.rows.toList ∧
    s.finishedGraphs = countRows "TASK_GRAPH_FINISHED" s.rows.toList := by
  have h := (simulate_census s0 fuel h0).1
  exact ⟨h.fin, h.finLog, h.can, h.mis, h.gra⟩

/-- The slack is real: TASK_CANCEL for a task without execution strategy raises
(`task.slowest_execution_strategy.runtime` on `None`) after the counter was incremented and
before the row is written. -/
theorem cancel_counter_ahead_counterexample :
    let x : TaskS := { name := "a", conditional := false, terminal := false, prob := 1000, strategies := [],
                       profile := 0, deadline := 50, state := .cancelled }
    let g : GraphS := ⟨"g", #[x], #[[]], #[[]], [0]⟩
    let s : SimS := { flags := { loopTimeout := 100 }, jobs := #[], allGraphs := #[], allMeta := #[], graphs := #[g],
                      pools := #[], poolNames := #[], tape := [], decisions := [] }
    let ev : SEvent := { ev := ⟨7, 0, ET.taskCancel, some "a@g"⟩, tid := some ⟨0, 0⟩ }
    let out := (ExceptT.run (handleTaskCancel ev)).run s
    Census s ∧ (match out.1 with | .error .attributeError => true | _ => false) = true ∧
    out.2.cancelledTasks = 1 ∧ countRows "TASK_CANCEL" out.2.rows.toList = 0 := by
  refine ⟨census_initial _ rfl rfl rfl rfl rfl rfl rfl, by decide, by decide, by decide⟩

/-- Non-vacuity of the hypothesis `Census s0`: every initial state with an empty trace, an
empty history and zero counters (what the harness builds). -/
example : Census { flags := { loopTimeout := 100 }, jobs := #[], allGraphs := #[], allMeta := #[],
                   pools := #[], poolNames := #[], tape := [], decisions := [] } :=
  census_initial _ rfl rfl rfl rfl rfl rfl rfl

end ErdosVerif.C08
