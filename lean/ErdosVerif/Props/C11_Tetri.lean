/-
C11 (TetriSched-Gurobi clause): for EVERY feasible point `σ` of the model the Gurobi
formulation builds (`sat σ (gen I)` with `I.cplex = false`), not only the returned one:

* `child_placed_parents_placed` — a child with a chosen cell has every parent *that takes part
  in the call* placed (a RUNNING parent counts as placed), and those parents are all the
  parents the graph gives the child;
* `start_after_parent` — the start variable of a child is `≥ start(parent) + slowest runtime of
  the parent + 1`, for placed and unplaced tasks alike; `start_is_slot` ties the start variable
  to the slot of the chosen cell (which is the time `schedule()` reports);
* `child_after_parent` / `child_after_parent_chosen` — in decoded terms: `slot(child) ≥
  slot(parent) + slowest + 1 ≥ slot(parent) + runtime of the parent's chosen strategy`;
* `after_running_parent` — `slot(child) ≥ now + remaining(parent) + 1` for a RUNNING parent
  (a SCHEDULED parent in non-retracting mode has variables and is covered by the first case);
* `decisions_ordered` — the same over `decode`, i.e. over what `schedule()` returns.

Hypotheses: `I.wf` (decidable well-formedness of the extracted instance, evaluated by the
driver on every instance) and `I.noModel = false` (a model is built at all).

The CPLEX formulation has no dependency rows at all (its docstring: "cannot work with DAGs");
the property does not list it.
-/
import ErdosVerif.Lemmas.TetriSound
namespace ErdosVerif.C11_Tetri
open ErdosVerif.Mip ErdosVerif.Tetri ErdosVerif.TetriSpec

variable {I : Inst} {σ : Var → Int}

theorem pick_of_chosen {t : Nat} (hr : I.running t = false) {q : Cell} (hc : I.chosen σ t = some q) :
    pick I σ t = some q := by simp [pick, hr, hc]

/-- **Child placed ⇒ parents placed.** -/
theorem child_placed_parents_placed (h : sat σ (gen I)) (hwf : I.wf = true) (hm : I.noModel = false)
    (hG : I.cplex = false) {c : Nat} (hc : c ∈ I.nonRunning) {q : Cell} (hq : I.chosen σ c = some q)
    {p : Nat} (hp : p ∈ I.parentVars c) :
    (I.running p = true ∨ (I.chosen σ p).isSome = true) ∧ (I.parentVars c).length = I.nParents c := by
  have hne : I.parentVars c ≠ [] := by intro he; rw [he] at hp; simp at hp
  have hsome : (pick I σ c).isSome = true := by
    rw [pick_of_chosen (mem_nonRunning.mp hc).2.2 hq]; rfl
  obtain ⟨hlen, hall⟩ := parents_placed h hwf hm hG hc hsome hne
  refine ⟨?_, hlen⟩
  have := hall p hp
  by_cases hr : I.running p = true
  · exact Or.inl hr
  · right; simpa [pick, hr] using this

/-- **The precedence row**, for every feasible point and whether or not the tasks are placed:
`start(child) ≥ start(parent) + slowest runtime + 1`, where the start of a RUNNING parent is the
constant `now` and its "runtime" the remaining time. -/
theorem start_after_parent (h : sat σ (gen I)) (hG : I.cplex = false) {c : Nat} (hc : c ∈ I.nonRunning)
    {p : Nat} (hp : p ∈ I.parentVars c) :
    (I.startE p).eval σ + (I.parentDur p : Nat) + 1 ≤ σ (.start c) := by
  have := start_after_row h hG hc hp
  rwa [startE_eval_nonRunning σ (mem_nonRunning.mp hc).2.2] at this

/-- The start variable of a placed task is the slot of its chosen cell — the placement time
`schedule()` reports. -/
theorem start_is_slot (h : sat σ (gen I)) (hwf : I.wf = true) (hm : I.noModel = false)
    (hG : I.cplex = false) {t : Nat} (ht : t ∈ I.nonRunning) {q : Cell} (hq : I.chosen σ t = some q) :
    σ (.start t) = I.slot q.2.1 :=
  start_eq_slot h hwf hm hG ht (pick_of_chosen (mem_nonRunning.mp ht).2.2 hq)

/-- **Child after parent, decoded.** -/
theorem child_after_parent (h : sat σ (gen I)) (hwf : I.wf = true) (hm : I.noModel = false)
    (hG : I.cplex = false) {c p : Nat} (hc : c ∈ I.nonRunning) (hp : p ∈ I.parentVars c)
    (hrp : I.running p = false) {qc qp : Cell} (hqc : I.chosen σ c = some qc)
    (hqp : I.chosen σ p = some qp) :
    I.slot qp.2.1 + (I.slowest p : Nat) + 1 ≤ I.slot qc.2.1 := by
  have hpa : p ∈ I.act := (List.mem_filter.mp hp).1
  have hpn : p ∈ I.nonRunning := mem_nonRunning.mpr ⟨(mem_act.mp hpa).1, (mem_act.mp hpa).2, hrp⟩
  have h1 := start_after_parent h hG hc hp
  rw [startE_eval_nonRunning σ hrp, start_is_slot h hwf hm hG hpn hqp,
    start_is_slot h hwf hm hG hc hqc] at h1
  simpa [Inst.parentDur, hrp] using h1

/-- … hence not before the parent's start plus the runtime of the strategy chosen for it. -/
theorem child_after_parent_chosen (h : sat σ (gen I)) (hwf : I.wf = true) (hm : I.noModel = false)
    (hG : I.cplex = false) {c p : Nat} (hc : c ∈ I.nonRunning) (hp : p ∈ I.parentVars c)
    (hrp : I.running p = false) {qc qp : Cell} (hqc : I.chosen σ c = some qc)
    (hqp : I.chosen σ p = some qp) :
    I.slot qp.2.1 + (I.runtime p qp.2.2 : Nat) + 1 ≤ I.slot qc.2.1 := by
  have h1 := child_after_parent h hwf hm hG hc hp hrp hqc hqp
  have h2 := le_slowest (I := I) (t := p) (mem_keys.mp (chosen_spec hqp).1).2.2
  omega

/-- **RUNNING parent:** the child starts after the parent's expected finish `now + remaining`. -/
theorem after_running_parent (h : sat σ (gen I)) (hwf : I.wf = true) (hm : I.noModel = false)
    (hG : I.cplex = false) {c p : Nat} (hc : c ∈ I.nonRunning) (hp : p ∈ I.parentVars c)
    (hrp : I.running p = true) {qc : Cell} (hqc : I.chosen σ c = some qc) :
    I.now + ((I.task p).remaining : Nat) + 1 ≤ I.slot qc.2.1 := by
  have h1 := start_after_parent h hG hc hp
  rw [startE_eval_running σ hrp, start_is_slot h hwf hm hG hc hqc] at h1
  simpa [Inst.parentDur, hrp] using h1

/-- **C11 over the returned decisions.** If `schedule()` places a child, then for every parent
with variables that is not RUNNING it also returns a placement, and the child's time is at least
the parent's time plus the runtime of the parent's chosen strategy (plus one). -/
theorem decisions_ordered (h : sat σ (gen I)) (hwf : I.wf = true) (hm : I.noModel = false)
    (hG : I.cplex = false) {c p : Nat} (hc : c ∈ I.nonRunning) (hp : p ∈ I.parentVars c)
    (hrp : I.running p = false) {wc sc : Nat} {tc : Int}
    (hd : (I.decodeTask σ c).out = .placed wc sc tc) :
    ∃ wp sp tp, (I.decodeTask σ p).out = .placed wp sp tp ∧
      tp + (I.runtime p sp : Nat) + 1 ≤ tc := by
  obtain ⟨kc, hqc, rfl⟩ := decodeTask_placed hd
  have hpl := (child_placed_parents_placed h hwf hm hG hc hqc hp).1
  have hsome : (I.chosen σ p).isSome = true := by
    rcases hpl with hr | hs
    · simp [hrp] at hr
    · exact hs
  obtain ⟨qp, hqp⟩ := Option.isSome_iff_exists.mp hsome
  refine ⟨qp.1, qp.2.2, I.slot qp.2.1, ?_, ?_⟩
  · simp [Inst.decodeTask, hqp]
  · exact child_after_parent_chosen h hwf hm hG hc hp hrp hqc hqp

/-! ### Non-vacuity: a chain `A → B` and a feasible point of the real model -/

/-- One worker (CPU 1), `now = 0`, four slots (`plan_ahead = 3`), `A` (runtime 1) → `B` (runtime 1). -/
def exInst : Inst :=
  { cplex := false, now := 0, disc := 1, planAheadOpt := 3
    workers := [⟨"W0", "P0", [("CPU", 1)]⟩]
    tasks := [⟨"A@G", "A", 0, "G", .released, 0, 9, [⟨1, [("CPU", 1)]⟩], 0, 0, 0⟩,
              ⟨"B@G", "B", 0, "G", .virtual, -1, 9, [⟨1, [("CPU", 1)]⟩], 0, 0, 0⟩]
    nOffered := 2
    nodes := [⟨"A@G", "A", 0, "G"⟩, ⟨"B@G", "B", 0, "G"⟩]
    edges := [("A@G", "B@G")]
    enforceDeadlines := true, retract := true, releaseTaskgraphs := true }

/-- `A` at slot 0, `B` at slot 2 (the earliest the rows allow: `0 + 1 + 1`). -/
def exSigma : Var → Int
  | .cell 0 0 0 0 => 1
  | .cell 1 0 2 0 => 1
  | .placedAt 0 0 => 1
  | .placedAt 1 2 => 1
  | .notPlacedAt 0 0 => 0
  | .notPlacedAt 1 2 => 0
  | .notPlacedAt _ _ => 1
  | .phase 1 2 => 1
  | .start 0 => 0
  | .start 1 => 2
  | .isPlaced _ => 1
  | .allParents 1 => 1
  | _ => 0

example : exInst.wf = true ∧ exInst.noModel = false := by decide
example : exInst.parentVars 1 = [0] := by decide
example : sat exSigma (gen exInst) := by decide
example : decode exInst exSigma = [⟨0, .placed 0 0 0⟩, ⟨1, .placed 0 0 2⟩] := by decide
/-- `B` one slot earlier is not a feasible point. -/
example : ¬ sat (fun v => match v with
    | .cell 1 0 2 0 => 0 | .cell 1 0 1 0 => 1 | .placedAt 1 2 => 0 | .placedAt 1 1 => 1
    | .notPlacedAt 1 2 => 1 | .notPlacedAt 1 1 => 0 | .phase 1 2 => 0 | .phase 1 1 => 1
    | .start 1 => 1 | v => exSigma v) (gen exInst) := by decide

end ErdosVerif.C11_Tetri
