/-
C12 (TetriSched-CPLEX, **batching mode**): deadline enforcement for the *member tasks* of a
`BatchTask`.

With `enforce_deadlines` the space-time cell `(worker, slot)` of a batch is a solver variable
only if `slot + runtime ≤ BatchTask.deadline`, and `BatchTask.deadline` is the **minimum** of
the members' deadlines (`bDeadline`, `batch_deadline_is_min`).  Hence, for *every* assignment
`σ` (no feasibility needed: the guarantee is structural) every member of a placed batch
completes by **its own** deadline (`member_meets_own_deadline`) — the statement that the
seeded change `BatchTask.deadline = max(…)` breaks.  Hopeless offered tasks (admission control,
per task) are answered with a cancellation and nothing else, in all three exits of
`schedule()` (`hopeless_cancelled`, `…_fail`, `…_nomodel`); nothing else is cancelled
(`cancel_only_hopeless`).

All theorems are about `genB` / `decodeB` of `Model/TetriBatch.lean`, tied to the code by the
term-by-term comparison of the captured docplex model and the returned Placements
(`harness/planners/_tetri_batch.py`).
-/
import ErdosVerif.Lemmas.TetriBatch
namespace ErdosVerif.C12_TetriBatch
open ErdosVerif.Mip ErdosVerif.Tetri ErdosVerif.TetriBatch

variable {I : BInst} {σ : BVar → Int}

/-- `BatchTask.deadline` is not after the deadline of any member (it is their minimum). -/
theorem batch_deadline_is_min (I : BInst) (b : Batch) {t : Nat} (ht : t ∈ b.members) :
    I.bDeadline b ≤ (I.task t).deadline := bDeadline_le I b ht

/-- A cell whose completion lies after the batch deadline carries no variable. -/
theorem late_cell_no_var (he : I.enforceDeadlines = true) {bi w k : Nat}
    (hl : I.slot k + ((I.batch bi).strat.runtime : Nat) > I.bDeadline (I.batch bi)) :
    I.hasVar bi w k = false := by
  simp [BInst.hasVar, BInst.cellOk, he, hl]

/-- … and its matrix entry is the constant 0. -/
theorem late_cell_constant (he : I.enforceDeadlines = true) {bi w k : Nat}
    (hl : I.slot k + ((I.batch bi).strat.runtime : Nat) > I.bDeadline (I.batch bi)) :
    (I.cellE bi w k).eval σ = 0 := by
  rw [eval_cellE]
  simp [BInst.cellOk, he, hl]

/-- The chosen cell of a batch completes by the deadline of **every member**. -/
theorem chosen_meets_member_deadlines (he : I.enforceDeadlines = true) {bi w k : Nat}
    (hc : I.chosen σ bi = some (w, k)) {t : Nat} (ht : t ∈ (I.batch bi).members) :
    I.slot k + ((I.batch bi).strat.runtime : Nat) ≤ (I.task t).deadline := by
  obtain ⟨_, _, hok, _⟩ := chosen_spec hc
  simp only [BInst.cellOk, Bool.and_eq_true, Bool.not_eq_true', Bool.and_eq_false_iff, he,
    decide_eq_false_iff_not] at hok
  have h1 : ¬ (I.slot k + ((I.batch bi).strat.runtime : Nat) > I.bDeadline (I.batch bi)) := by
    rcases hok.2 with h | h
    · exact absurd h (by simp)
    · exact h
  have h2 := bDeadline_le I (I.batch bi) ht
  omega

/-- **Every member of a placed batch completes by its own deadline** (any assignment `σ`): a
placed decision for task `t` reports the `BatchStrategy` of a batch `b` that `t` is a member of,
and `start + runtime(b) ≤ deadline(t)`. -/
theorem member_meets_own_deadline (he : I.enforceDeadlines = true) {t w b : Nat} {time : Int}
    (hd : (⟨t, .placed w b time⟩ : BDecision) ∈ decodeB I σ) :
    t ∈ (I.batch b).members ∧ time + ((I.batch b).strat.runtime : Nat) ≤ (I.task t).deadline := by
  obtain ⟨_, hm, k, hc, rfl⟩ := placed_origin hd
  exact ⟨hm, chosen_meets_member_deadlines he hc hm⟩

theorem mem_cancelled {t : Nat} : t ∈ I.cancelled ↔ t < I.nOffered ∧ I.hopeless t = true := by
  simp only [BInst.cancelled, List.mem_filter, List.mem_range, BInst.active, Bool.not_not, Bool.and_eq_true,
    decide_eq_true_eq]
  constructor
  · rintro ⟨h1, _, h3⟩; exact ⟨h1, h3⟩
  · rintro ⟨h1, h2⟩; exact ⟨h1, h1, h2⟩

/-- A hopeless offered task (`deadline < now + fastest runtime`) is a member of no batch. -/
theorem hopeless_no_member {t : Nat} (ht : t < I.nOffered) (hh : I.hopeless t = true) {bi : Nat}
    (hb : bi < I.nB) : t ∉ (I.batch bi).members := by
  intro hm
  have := (members_active hb hm).2
  simp [BInst.active, ht, hh] at this

/-- **Hopeless tasks are cancelled** and get no other answer (solution available). -/
theorem hopeless_cancelled {t : Nat} (ht : t < I.nOffered) (hh : I.hopeless t = true) :
    (⟨t, .cancel⟩ : BDecision) ∈ decodeB I σ ∧ ∀ d ∈ decodeB I σ, d.task = t → d.out = .cancel := by
  constructor
  · simp only [decodeB, List.mem_append, List.mem_map]
    exact Or.inl ⟨t, mem_cancelled.mpr ⟨ht, hh⟩, rfl⟩
  · intro d hd hdt
    rcases mem_decodeB hd with ⟨hc, _⟩ | ⟨bi, hb, hdb⟩
    · exact hc
    · exfalso
      have hm := (mem_decodeBatch hdb).1
      rw [hdt] at hm
      exact hopeless_no_member ht hh (mem_free.mp hb).1 hm

/-- The same when the solver finds no solution. -/
theorem hopeless_cancelled_fail {t : Nat} (ht : t < I.nOffered) (hh : I.hopeless t = true) :
    (⟨t, .cancel⟩ : BDecision) ∈ decodeFailB I ∧ ∀ d ∈ decodeFailB I, d.task = t → d.out = .cancel := by
  constructor
  · simp only [decodeFailB, List.mem_append, List.mem_map]
    exact Or.inl ⟨t, mem_cancelled.mpr ⟨ht, hh⟩, rfl⟩
  · intro d hd hdt
    simp only [decodeFailB, List.mem_append, List.mem_map] at hd
    rcases hd with ⟨u, _, rfl⟩ | ⟨u, hu, rfl⟩
    · rfl
    · exfalso
      simp only [BInst.offeredAct, List.mem_filter, List.mem_range, BInst.active] at hu
      simp only at hdt
      subst hdt
      simp [ht, hh] at hu

/-- … and when no model is built at all. -/
theorem hopeless_cancelled_nomodel {t : Nat} (ht : t < I.nOffered) (hh : I.hopeless t = true) :
    (⟨t, .cancel⟩ : BDecision) ∈ decodeNoModelB I := by
  simp only [decodeNoModelB, List.mem_map]
  exact ⟨t, mem_cancelled.mpr ⟨ht, hh⟩, rfl⟩

/-- Only hopeless offered tasks are cancelled (the boundary `deadline = now + fastest` is not). -/
theorem cancel_only_hopeless {t : Nat} (hd : (⟨t, .cancel⟩ : BDecision) ∈ decodeB I σ) :
    t < I.nOffered ∧ I.enforceDeadlines = true ∧ (I.task t).deadline < I.now + (I.fastest t : Nat) := by
  rcases mem_decodeB hd with ⟨_, hc⟩ | ⟨bi, _, hdb⟩
  · obtain ⟨h1, h2⟩ := mem_cancelled.mp hc
    simp only [BInst.hopeless, Bool.and_eq_true, decide_eq_true_eq] at h2
    exact ⟨h1, h2.1, h2.2⟩
  · rcases (mem_decodeBatch hdb).2 with h | ⟨q, _, h⟩ <;> simp at h

/-! ### Non-vacuity: the scenario of the seeded change (`TetriBatch.exTight`: Tight 6 / Loose 20
share a batch-2 strategy of 5 µs, Urgent needs the only CPU on `[0, 3)`) -/

/-- The instance is well-formed, builds a model, does not raise; its batches are
`PR1_1 = {Urgent}` and `PR0_1 = {Tight, Loose}` with deadline `min(6, 20) = 6`. -/
example : exTight.wf = true ∧ exTight.noModel = false ∧ exTight.raises = false ∧ exTight.nB = 2 ∧
    (exTight.batch 1).members = [1, 2] ∧ exTight.bDeadline (exTight.batch 1) = 6 := by decide

/-- The batch `{Tight, Loose}` has variables exactly at the slots 0 and 1 (`slot + 5 ≤ 6`); the
slot 3 at which the seeded change lets it start has none. -/
example : exTight.hasVar 1 0 0 = true ∧ exTight.hasVar 1 0 1 = true ∧ exTight.hasVar 1 0 2 = false ∧
    exTight.hasVar 1 0 3 = false := by decide

/-- A feasible point that places the batch `{Tight, Loose}` at slot 1 (`Urgent` stays unplaced). -/
def sigmaTight : BVar → Int
  | .cell 1 0 1 => 1
  | .isPlaced 1 => 1
  | .reward 1 => 204 * 39
  | .notPlaced 0 => -1
  | _ => 0

/-- The hypotheses of `member_meets_own_deadline` are satisfiable: enforcement is on, the point is
feasible, and both members are answered with the batch's cell `(W0, t = 1)`; `1 + 5 ≤ 6 ≤ 20`. -/
example : exTight.enforceDeadlines = true ∧ sat sigmaTight (genB exTight) ∧
    (⟨1, .placed 0 1 1⟩ : BDecision) ∈ decodeB exTight sigmaTight ∧
    (⟨2, .placed 0 1 1⟩ : BDecision) ∈ decodeB exTight sigmaTight ∧
    (⟨0, .unplaced⟩ : BDecision) ∈ decodeB exTight sigmaTight := by decide

/-- The same scenario with `Urgent` due at 2: hopeless (`2 < 0 + 3`), offered, hence cancelled;
`Urgent` due at 3 (in `exTight`) is the boundary and is not hopeless. -/
def exHopeless : BInst :=
  { exTight with tasks := [⟨"Urgent@G0", .released, 0, 2, 1, 1, 0, 0⟩,
                           ⟨"Tight@G1", .released, 0, 6, 0, 1, 0, 0⟩,
                           ⟨"Loose@G2", .released, 0, 20, 0, 1, 0, 0⟩] }

example : (0 : Nat) < exHopeless.nOffered ∧ exHopeless.hopeless 0 = true ∧ exHopeless.wf = true ∧
    exHopeless.noModel = false ∧ exHopeless.raises = false ∧ exTight.hopeless 0 = false ∧
    decodeFailB exHopeless = [⟨0, .cancel⟩, ⟨1, .unplaced⟩, ⟨2, .unplaced⟩] := by decide

end ErdosVerif.C12_TetriBatch
