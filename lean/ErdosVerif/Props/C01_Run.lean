import ErdosVerif.Lemmas.SimResidentInit
/-!
# C01 over a whole run — single residency, RUNNING ⇔ resident

Invariants of every run of the simulator model `Model/Sim.lean` (any decision tape, any
draw tape, any fuel), proved with Hoare triples in `Lemmas/SimResident*.lean`:

* a task id is resident (draws resources) on at most one worker of one pool, and at most
  once on that worker — in **every** state a run can be in, also where a handler raised;
* every RUNNING task is resident — in every such state;
* every resident task is RUNNING, and the pool-level task map knows it — in every state
  at the head of the `simulate()` loop and when the run ended normally. (Not at the raise
  point of an aborted `__handle_task_placement`: the pool places the task before
  `Task.start`, which can still raise.)
-/
namespace ErdosVerif.C01
open ErdosVerif.Model ErdosVerif.Model.Sim

/-- Task id `n` is resident on worker `i` of pool `pi`: it is a key of that worker's
`_placed_tasks`, i.e. the worker's ledger is charged for it. -/
def ResidentOn (s : SimS) (pi i n : Nat) : Prop :=
  ∃ p w, s.pools[pi]? = some p ∧ p.workers[i]? = some w ∧ n ∈ AList.keys w.placed

theorem residentOn_iff (s : SimS) (pi i n : Nat) : ResidentOn s pi i n ↔ At (views s.pools) pi i n := by
  unfold ResidentOn At
  constructor
  · rintro ⟨p, w, hp, hw, hn⟩
    exact ⟨p.view, AList.keys w.placed, by rw [views_getElem?, hp]; rfl, by rw [Pool.view_getElem?, hw]; rfl, hn⟩
  · rintro ⟨v, ks, hv, hk, hn⟩
    rw [views_getElem?] at hv
    cases hp : s.pools[pi]? with
    | none => simp [hp] at hv
    | some p =>
      simp only [hp, Option.map_some, Option.some.injEq] at hv
      subst hv
      rw [Pool.view_getElem?] at hk
      cases hw : p.workers[i]? with
      | none => simp [hw] at hk
      | some w =>
        simp only [hw, Option.map_some, Option.some.injEq] at hk
        subst hk
        exact ⟨p, w, rfl, hw, hn⟩

/-- **Single residency over every run**: in the state a simulation is in after the constructor
and any number of loop iterations — ended normally, out of fuel or aborted by an exception —
no task id is resident on two workers (of one pool or of two pools). -/
theorem single_residency (s0 : SimS) (fuel : Nat) (h : wf0 s0 = true) (pi i pj j n : Nat)
    (h1 : ResidentOn (simulate s0 fuel).2 pi i n) (h2 : ResidentOn (simulate s0 fuel).2 pj j n) : pi = pj ∧ i = j :=
  (simulate_weak s0 fuel (ap_initial s0 h)).single pi i pj j n ((residentOn_iff ..).mp h1) ((residentOn_iff ..).mp h2)

/-- … and no task id occurs twice among the residents of one worker. -/
theorem worker_residents_nodup (s0 : SimS) (fuel : Nat) (h : wf0 s0 = true) (pi i : Nat) (p : Pool) (w : Worker)
    (hp : (simulate s0 fuel).2.pools[pi]? = some p) (hw : p.workers[i]? = some w) : (AList.keys w.placed).Nodup := by
  apply (simulate_weak s0 fuel (ap_initial s0 h)).wnodup pi i
  simp [Wk, views_getElem?, hp, Pool.view_getElem?, hw]

/-- **Every RUNNING task is resident**, in every state a run can be in (normal or aborted). -/
theorem running_is_resident (s0 : SimS) (fuel : Nat) (h : wf0 s0 = true) (t : TaskId) (x : TaskS)
    (ht : taskAt (simulate s0 fuel).2.graphs t = some x) (hs : x.state = .running) :
    ∃ pi i, ResidentOn (simulate s0 fuel).2 pi i (gid t) := by
  obtain ⟨pi, i, hat⟩ := (simulate_weak s0 fuel (ap_initial s0 h)).runRes t x ht hs
  exact ⟨pi, i, (residentOn_iff ..).mpr hat⟩

/-- **Every resident task is RUNNING** when the run ended normally. -/
theorem resident_is_running_at_end (s0 : SimS) (fuel : Nat) (h : wf0 s0 = true) (hok : (simulate s0 fuel).1 = none)
    (pi i n : Nat) (hr : ResidentOn (simulate s0 fuel).2 pi i n) :
    ∃ x, taskAt (simulate s0 fuel).2.graphs (ungid n) = some x ∧ x.state = .running ∧
      ∃ p, (simulate s0 fuel).2.pools[pi]? = some p ∧ p.placed.get? n = some i := by
  have hA := simulate_strong s0 fuel (ap_initial s0 h) hok
  have hat := (residentOn_iff ..).mp hr
  obtain ⟨x, hx, hs⟩ := hA.core.resRun pi i n hat
  obtain ⟨m, hm, hg⟩ := hA.core.bwd pi i n hat
  rw [pmaps_getElem?] at hm
  cases hp : (simulate s0 fuel).2.pools[pi]? with
  | none => simp [hp] at hm
  | some p =>
    simp only [hp, Option.map_some, Option.some.injEq] at hm
    subst hm
    exact ⟨x, hx, hs, p, rfl, hg⟩

/-- **Every resident task is RUNNING at the head of the `simulate()` loop**, after any number
`k` of completed iterations (`runK`: the loop of `simulate()` cut after `k` iterations). If one
of the `k` iterations raised, the weak invariant holds at the raise point. -/
theorem resident_is_running_at_loop_head (s0 : SimS) (k : Nat) (h : wf0 s0 = true) :
    HoldsAfter
      (fun _ s => ∀ pi i n, ResidentOn s pi i n → ∃ x, taskAt s.graphs (ungid n) = some x ∧ x.state = .running)
      WInv ((ExceptT.run (do init; runK k : SimM Bool)).run s0) := by
  have := loop_head_strong s0 k (ap_initial s0 h)
  revert this
  cases (StateT.run (ExceptT.run (do init; runK k : SimM Bool)) s0) with
  | mk r s =>
    cases r with
    | ok a =>
      intro hA pi i n hr
      exact hA.core.resRun pi i n ((residentOn_iff ..).mp hr)
    | error e => intro hW; exact hW

/-- A world that meets the hypothesis: one pool with two one-GPU workers, a two-task chain,
a closed-loop job with the same template. -/
def exWorld : SimS :=
  let w : Worker := Worker.ofVec [(⟨"GPU", some 1⟩, 1)]
  let st : Strategy := ⟨0, false, 1, 5, [(⟨"GPU", none⟩, 1)]⟩
  let tk (nm : String) : TaskS :=
    { name := nm, conditional := false, terminal := false, prob := 1000, strategies := [st], profile := 0, deadline := 100 }
  let g : GraphS := { name := "g", tasks := #[tk "a", tk "b"], children := #[[1], []], parents := #[[], [0]], topo := [0, 1] }
  { flags := { loopTimeout := 1000 }, jobs := #[⟨"j", true, 2, 0, g, 10⟩], allGraphs := #[g], allMeta := #[⟨0, 0, 10⟩],
    pools := #[⟨[w, w], []⟩], poolNames := #["pool"], tape := [.fuzz 5, .fuzz 0],
    decisions := [⟨[{ kind := .place, task := ⟨0, 0⟩, time := some 1, pool := some 0, strat := some st }], 1, none⟩] }

/-- Non-vacuity of the hypothesis of the theorems above. -/
theorem exWorld_wf : wf0 exWorld = true := by
  simp [wf0, quietB, exWorld, Worker.ofVec, Resources.ofVec]

example : ∀ fuel pi i pj j n, ResidentOn (simulate exWorld fuel).2 pi i n → ResidentOn (simulate exWorld fuel).2 pj j n →
    pi = pj ∧ i = j := fun fuel => single_residency exWorld fuel exWorld_wf

end ErdosVerif.C01
