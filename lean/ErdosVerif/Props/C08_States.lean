import ErdosVerif.Lemmas.SimStatesRun5
import ErdosVerif.Lemmas.SimCensusRun
/-!
# C08 (run level) — the counters against the final task states

For whole runs of the simulator model (every world, decision tape, draw tape, number of
iterations), from Hoare triples over every handler (`Lemmas/SimStates*.lean`):

* `finished_counter_is_done_tasks` — in **every** reachable state (also of an aborted run)
  `finishedTasks` is the number of tasks of the workload that are done
  (`Task.is_complete()`: COMPLETED or EVICTED). Counting tasks by state, no task can be
  counted twice; together with `C08.counters_match_trace` this is also the number of
  TASK_FINISHED rows and of `.finish` history entries (`finished_four_ways`).
* `cancel_entries_are_cancelled_tasks` — at the normal end of a run the number of
  CANCELLED tasks is exactly the number of `.cancel` history entries (one per task reported
  by `TaskGraph.cancel` / `notify_task_completion`, each of which also creates one
  TASK_CANCEL event); in an aborted run there may be more CANCELLED tasks than entries
  (`cancel_entries_le_cancelled_tasks`).
* `cancelledTasks` (= number of TASK_CANCEL rows, `C08.counters_match_trace`) counts the
  TASK_CANCEL events that were *handled*; it lags behind the CANCELLED tasks while such an
  event is still pending: `cancelled_counter_lags_counterexample`.

PARTIAL. (a) COMPLETED is not separated from EVICTED here: that `finish()` is only called
on a task whose remaining time is 0 needs an invariant tying queued TASK_FINISHED events to
RUNNING tasks (not proved). (b) `cancelledTasks ≤ #.cancel entries`, and equality at the
normal end of a run (no TASK_CANCEL event can still be queued when SIMULATOR_END is popped,
because it is stamped with the clock and sorts before SIMULATOR_END), is not proved: it
needs an account of the TASK_CANCEL events held in local lists and in the queue.
-/
namespace ErdosVerif.C08
open ErdosVerif.Model ErdosVerif.Model.Sim

/-- Number of tasks of the workload in a state satisfying `p`. -/
def tasksWhere (p : TaskS → Bool) (s : SimS) : Nat := totalCnt p s.graphs

/-- **`finishedTasks` = number of done tasks, in every reachable state.** -/
theorem finished_counter_is_done_tasks (s0 : SimS) (fuel : Nat) (h0 : Tally s0) :
    (simulate s0 fuel).2.finishedTasks = tasksWhere (fun t => t.isComplete) (simulate s0 fuel).2 :=
  (simulate_tally s0 fuel h0).1.done

/-- The four ways of counting finished tasks agree at the normal end of a run: the counter,
the TASK_FINISHED rows, the `.finish` history entries and the done tasks of the workload. -/
theorem finished_four_ways (s0 : SimS) (fuel : Nat) (h0 : Tally s0) (hc : Census s0)
    (hend : (simulate s0 fuel).1 = none) :
    let s := (simulate s0 fuel).2
    s.finishedTasks = countRows "TASK_FINISHED" s.rows.toList ∧
    s.finishedTasks = s.log.toList.countP isFinishLog ∧
    s.finishedTasks = tasksWhere (fun t => t.isComplete) s :=
  ⟨((simulate_census s0 fuel hc).2 hend).1.fin, ((simulate_census s0 fuel hc).2 hend).1.finLog,
   (simulate_tally s0 fuel h0).1.done⟩

/-- **CANCELLED tasks = `.cancel` history entries** at the normal end of a run. -/
theorem cancel_entries_are_cancelled_tasks (s0 : SimS) (fuel : Nat) (h0 : Tally s0)
    (hend : (simulate s0 fuel).1 = none) :
    (simulate s0 fuel).2.log.toList.countP isCancelLog =
      tasksWhere (fun t => t.state == .cancelled) (simulate s0 fuel).2 := by
  exact ((simulate_tally s0 fuel h0).2 hend).canc

/-- In any reachable state there are at least as many CANCELLED tasks as `.cancel` entries. -/
theorem cancel_entries_le_cancelled_tasks (s0 : SimS) (fuel : Nat) (h0 : Tally s0) :
    (simulate s0 fuel).2.log.toList.countP isCancelLog ≤
      tasksWhere (fun t => t.state == .cancelled) (simulate s0 fuel).2 :=
  (simulate_tally s0 fuel h0).1.canc

/-! ### `cancelledTasks` lags behind the CANCELLED tasks -/

def lagTask : TaskS := { name := "a", conditional := false, terminal := false, prob := 1000, strategies := [],
                         profile := 0, deadline := 50, state := .released, pre := .released }
def lagGraph : GraphS := ⟨"g", #[lagTask], #[[]], #[[]], [0]⟩
def lagState : SimS :=
  { flags := { loopTimeout := 100, dropSkipped := true },
    jobs := #[{ name := "J", closedLoop := false, remaining := 0, index := 0, template := lagGraph, critical := 0 }],
    allGraphs := #[], allMeta := #[], graphs := #[lagGraph], metas := #[{ job := 0, timestamp := 0, critical := 0 }],
    loaderReleased := true, pools := #[], poolNames := #[], tape := [], decisions := [] }

/-- A CANCEL_TASK decision handled at time 5: the task is CANCELLED (and the `.cancel` entry
written) at once, the counter moves only when the TASK_CANCEL event created here is handled. -/
theorem cancelled_counter_lags_counterexample :
    let out := (ExceptT.run (placementSkip 5 { kind := .cancel, task := ⟨0, 0⟩ } true)).run lagState
    (match out.1 with | .ok evs => evs.map (fun e => e.ev.etype) | _ => []) = [ET.taskCancel] ∧
    tasksWhere (fun t => t.state == .cancelled) out.2 = 1 ∧ out.2.log.toList.countP isCancelLog = 1 ∧
    out.2.cancelledTasks = 0 := by
  decide

def freshGraph : GraphS := ⟨"g", #[{ lagTask with state := .virtual, pre := .virtual }], #[[]], #[[]], [0]⟩

/-- Non-vacuity of the hypothesis `Tally s0`: what `tally_initial` asks of an initial state
(no task graph yet, pristine loader graphs and templates, zero counter, empty history). -/
example : Tally { flags := { loopTimeout := 100 }, jobs := #[], allGraphs := #[freshGraph],
                  allMeta := #[], pools := #[], poolNames := #[], tape := [], decisions := [] } := by
  refine tally_initial _ rfl rfl ?_ (by intro j hj; cases hj) rfl rfl
  intro g hg
  have : g = freshGraph := by simpa using hg
  subst this
  intro n t ht
  cases n with
  | zero =>
    have : t = { lagTask with state := .virtual, pre := .virtual } := by
      simpa [GraphS.task?, freshGraph] using ht.symm
    subst this
    exact ⟨rfl, rfl⟩
  | succ n => simp [GraphS.task?, freshGraph] at ht

end ErdosVerif.C08
