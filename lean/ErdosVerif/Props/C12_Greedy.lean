import ErdosVerif.Props.C13
/-!
# C12 (greedy clauses) — EDF / FIFO with `enforce_deadlines` drop hopeless tasks

Model: `ErdosVerif.Model.Greedy`. `schedule cfg offer live = .ok r`: see `Props/C13.lean`;
`(o, d) ∈ r.order.zip r.placements` reads "`d` is the decision given for the offered task `o`".
`TaskS.fastest? o.task.strategies = some f`: `f` is `get_fastest_strategy()`, a strategy of the
task with the least runtime (`fastest_is_min`).

With `enforce_deadlines` (EDF, FIFO): `deadline < now + fastest runtime` ⇒ the decision is a
cancellation and names no pool; the boundary `deadline = now + fastest runtime` (and anything
later) is not cancelled.  LSF has no admission test and never cancels.
-/
namespace ErdosVerif.C12_Greedy
open ErdosVerif.Model ErdosVerif.Model.Greedy

/-- "Fastest" is what the property says: a strategy of the task whose runtime is minimal. -/
theorem fastest_is_min (l : List Strategy) (f : Strategy) (h : TaskS.fastest? l = some f) :
    f ∈ l ∧ ∀ x ∈ l, f.runtime ≤ x.runtime := fastest_min l f h

/-- The decision for every processed task, in terms of the admission test. -/
theorem decision_by_admission (cfg : Cfg) (offer : List Offered) (live : List Pool) (r : Result)
    (h : schedule cfg offer live = .ok r) :
    ∀ o d, (o, d) ∈ r.order.zip r.placements →
      (hopeless cfg o = .ok true ∧ d.kind = .cancel ∧ d.pool = none ∧ d.strat = none) ∨
      (hopeless cfg o = .ok false ∧ d.kind = .place) := by
  obtain ⟨_, _, _, hr⟩ := schedule_ok cfg offer live r h
  intro o d hm
  obtain ⟨Vb, Va, hs⟩ := run_zip cfg r.virt0 r.order r.placements r.virt hr o d hm
  exact step_hopeless cfg Vb o d Va hs

/-- **hopeless_cancelled** — EDF / FIFO with `enforce_deadlines`: a task that cannot finish by
its deadline even with its fastest strategy starting now is answered with a cancellation, which
names no pool and no strategy (the task is in no placement). -/
theorem hopeless_cancelled (cfg : Cfg) (offer : List Offered) (live : List Pool) (r : Result)
    (h : schedule cfg offer live = .ok r) (hpol : cfg.policy.checksDeadline = true)
    (hen : cfg.enforce = true) :
    ∀ o d, (o, d) ∈ r.order.zip r.placements → ∀ f, TaskS.fastest? o.task.strategies = some f →
      o.task.deadline < cfg.now + f.runtime → d.kind = .cancel ∧ d.pool = none ∧ d.strat = none := by
  intro o d hm f hf hlt
  have hh : hopeless cfg o = .ok true := by simp [hopeless, hpol, hen, hf, hlt]
  rcases decision_by_admission cfg offer live r h o d hm with ⟨_, h2⟩ | ⟨h1, _⟩
  · exact h2
  · rw [hh] at h1; cases h1

theorem eq_of_nodup_map {α β} (f : α → β) (l : List α) (h : (l.map f).Nodup) (a b : α)
    (ha : a ∈ l) (hb : b ∈ l) (e : f a = f b) : a = b := by
  induction l with
  | nil => cases ha
  | cons x xs ih =>
    simp only [List.map_cons, List.nodup_cons, List.mem_map, not_exists, not_and] at h
    rcases List.mem_cons.mp ha with ea | ha' <;> rcases List.mem_cons.mp hb with eb | hb'
    · rw [ea, eb]
    · subst ea; exact absurd e.symm (h.1 b hb')
    · subst eb; exact absurd e (h.1 a ha')
    · exact ih h.2 ha' hb'

/-- With distinct offered tasks, a cancelled task has no other decision: it is in no placement. -/
theorem hopeless_in_no_placement (cfg : Cfg) (offer : List Offered) (live : List Pool) (r : Result)
    (h : schedule cfg offer live = .ok r) (hpol : cfg.policy.checksDeadline = true)
    (hen : cfg.enforce = true) (hnd : (offer.map (·.id)).Nodup) :
    ∀ o d, (o, d) ∈ r.order.zip r.placements → ∀ f, TaskS.fastest? o.task.strategies = some f →
      o.task.deadline < cfg.now + f.runtime → ∀ d' ∈ r.placements, d'.task = o.id → d'.pool = none := by
  intro o d hm f hf hlt d' hd' ht
  have hc := hopeless_cancelled cfg offer live r h hpol hen o d hm f hf hlt
  have hdm : d ∈ r.placements := (List.of_mem_zip hm).2
  obtain ⟨_, _, _, hr⟩ := schedule_ok cfg offer live r h
  obtain ⟨Vb, Va, hs⟩ := run_zip cfg r.virt0 r.order r.placements r.virt hr o d hm
  have hdt : d.task = o.id := step_task cfg Vb o d Va hs
  have hnd' : (r.placements.map (·.task)).Nodup := by
    rw [C13.decisions_in_order cfg offer live r h]
    exact (((C13.order_is_stable_sort cfg offer live r h).1).map _).nodup_iff.mpr hnd
  have : d' = d := eq_of_nodup_map (·.task) r.placements hnd' d' d hd' hdm (ht.trans hdt.symm)
  rw [this]; exact hc.2.1

/-- **boundary** — a task with `deadline ≥ now + fastest runtime`, in particular exactly at the
boundary `deadline = now + fastest runtime`, is *not* cancelled. -/
theorem boundary_not_cancelled (cfg : Cfg) (offer : List Offered) (live : List Pool) (r : Result)
    (h : schedule cfg offer live = .ok r) :
    ∀ o d, (o, d) ∈ r.order.zip r.placements → ∀ f, TaskS.fastest? o.task.strategies = some f →
      cfg.now + f.runtime ≤ o.task.deadline → d.kind = .place := by
  intro o d hm f hf hle
  have hh : hopeless cfg o = .ok false := by
    unfold hopeless
    split
    · simp only [hf]
      have : ¬ o.task.deadline < cfg.now + f.runtime := by omega
      simp [this]
    · rfl
  rcases decision_by_admission cfg offer live r h o d hm with ⟨h1, _⟩ | ⟨_, h2⟩
  · rw [hh] at h1; cases h1
  · exact h2

/-- Without `enforce_deadlines`, and for LSF always, nothing is ever cancelled. -/
theorem never_cancelled_without_enforcement (cfg : Cfg) (offer : List Offered) (live : List Pool)
    (r : Result) (h : schedule cfg offer live = .ok r)
    (hoff : cfg.enforce = false ∨ cfg.policy.checksDeadline = false) :
    ∀ o d, (o, d) ∈ r.order.zip r.placements → d.kind = .place := by
  intro o d hm
  have hh : hopeless cfg o = .ok false := by
    unfold hopeless
    rcases hoff with e | e <;> simp [e]
  rcases decision_by_admission cfg offer live r h o d hm with ⟨h1, _⟩ | ⟨_, h2⟩
  · rw [hh] at h1; cases h1
  · exact h2

/-! ### non-vacuity: hopeless, boundary and loose deadlines in one invocation -/

namespace Ex
open Witness

def fast : Strategy := ⟨10, false, 1, 2, cpuReq⟩
def slow : Strategy := ⟨11, false, 1, 4, cpuReq⟩
/-- now = 5; fastest runtime 2: A (deadline 7) is exactly at the boundary, B (deadline 6) is
hopeless, C (deadline 30) is loose but needs more CPUs than exist. -/
def offer : List Offered :=
  [⟨⟨0, 0⟩, "G0", mkTask [slow, fast] 7⟩, ⟨⟨1, 0⟩, "G1", mkTask [slow, fast] 6⟩,
   ⟨⟨2, 0⟩, "G2", mkTask [⟨12, false, 1, 3, [(⟨"CPU", none⟩, 9)]⟩] 30⟩]
def live : List Pool := [⟨[Worker.ofVec [(⟨"CPU", some 0⟩, 4)]], []⟩]
def kinds (r : Result) : List (TaskId × Bool × Option Nat) :=
  r.placements.map (fun d => (d.task, d.kind == .cancel, d.pool))
end Ex

/-- EDF with enforcement: B cancelled (processed first: earliest deadline), A placed, C left
unplaced (not cancelled). -/
example :
    ∃ r, schedule ⟨.edf, true, 5⟩ Ex.offer Ex.live = .ok r ∧
      (Ex.kinds r == [(⟨1, 0⟩, true, none), (⟨0, 0⟩, false, some 0), (⟨2, 0⟩, false, none)]) = true :=
  ok_of_match _ _ (by decide)

/-- FIFO with enforcement (all released at 0: offer order kept). -/
example :
    ∃ r, schedule ⟨.fifo, true, 5⟩ Ex.offer Ex.live = .ok r ∧
      (Ex.kinds r == [(⟨0, 0⟩, false, some 0), (⟨1, 0⟩, true, none), (⟨2, 0⟩, false, none)]) = true :=
  ok_of_match _ _ (by decide)

/-- The flag off: B is placed. -/
example :
    ∃ r, schedule ⟨.edf, false, 5⟩ Ex.offer Ex.live = .ok r ∧
      (Ex.kinds r == [(⟨1, 0⟩, false, some 0), (⟨0, 0⟩, false, some 0), (⟨2, 0⟩, false, none)]) = true :=
  ok_of_match _ _ (by decide)

end ErdosVerif.C12_Greedy
